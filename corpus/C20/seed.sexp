; hostile transaction of Props/C20.v (ex_bad): every escape class, invalid UTF-8 of every kind, NULL/empty/absent, nil pointers, nil and empty slices
(marshal () ((x225c0aff -9223372036854775808) (xe280a83c3e26 9223372036854775807) 0 (nil (4 x80 xc3 x001f7fc080eda080f4908080 5 () nil) (99 x xf09f9880 x 5 (nil (nil) (()) ((nil (x080c0d09 254 0 x) (x61 20 0 nil) (x62 3 1 nil) (x63 252 0 xe0808041)))) ()))))
; zero value, nil events
(marshal () ((x 0) (x 0) 0 nil))
; raw layer
(json_escape x225c2f080c0a0d09001f3c3e267fc3a9e280a8e280a9ffeda080f09f9880)
(utf8 xf4908080eda080c080e282)
(json_parse x7b2261223a225c75643833645c75646530305c7564383364222c2262223a5b312c2d302c7b7d5d2c2263223a6e756c6c7d)
(json_parse x5b312c5d)
