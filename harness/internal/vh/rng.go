package vh

// Rng: splitmix64; every random choice of a run derives from one seed.
type Rng struct {
	s    uint64
	side uint64 // number of Side streams derived so far (does not influence the main stream)
}

// The seed is hashed first: with s = seed*gamma + c, consecutive seeds would
// yield the same output stream shifted by one draw (the state advances by
// gamma per draw), and generators with rejection loops then re-synchronise.
func NewRng(seed uint64) *Rng {
	r := &Rng{s: seed ^ 0x5DEECE66D1234567}
	a := r.U64()
	r.s = a ^ (seed+1)*0xD6E8FEB86659FD93
	return r
}

func (r *Rng) U64() uint64 {
	r.s += 0x9E3779B97F4A7C15
	z := r.s
	z = (z ^ (z >> 30)) * 0xBF58476D1CE4E5B9
	z = (z ^ (z >> 27)) * 0x94D049BB133111EB
	return z ^ (z >> 31)
}

// Intn returns a value in [0,n).
func (r *Rng) Intn(n int) int {
	if n <= 0 {
		return 0
	}
	return int(r.U64() % uint64(n))
}

func (r *Rng) Bool() bool { return r.U64()&1 == 1 }

// Chance is true with probability num/den.
func (r *Rng) Chance(num, den int) bool { return r.Intn(den) < num }

func (r *Rng) Bytes(n int) []byte {
	b := make([]byte, n)
	for i := range b {
		b[i] = byte(r.U64())
	}
	return b
}

// Pick picks one of the given ints.
func (r *Rng) Pick(xs ...int) int { return xs[r.Intn(len(xs))] }

// Range returns a value in [lo,hi].
func (r *Rng) Range(lo, hi int) int { return lo + r.Intn(hi-lo+1) }

// Fork derives an independent stream (for per-case reproducibility).
func (r *Rng) Fork() *Rng { return &Rng{s: r.U64()} }

// Side derives a stream from the current state WITHOUT advancing it: choices added to a generator
// through Side leave every other draw of the run (and so every case an existing seed produces) unchanged.
// Successive calls give different streams even when the main stream has not moved in between.
func (r *Rng) Side() *Rng {
	r.side++
	q := &Rng{s: r.s ^ 0xA24BAED4963EE407 ^ (r.side * 0x9FB21C651E98DF25)}
	q.s = q.U64()
	return q
}

// PickS picks one of the given strings.
func (r *Rng) PickS(xs ...string) string { return xs[r.Intn(len(xs))] }

// Shuffle permutes n elements through swap (Fisher-Yates).
func (r *Rng) Shuffle(n int, swap func(i, j int)) {
	for i := n - 1; i > 0; i-- {
		swap(i, r.Intn(i+1))
	}
}
