package vh

import (
	"encoding/json"
	"os"
	"sort"
)

// Mismatch is one disagreement found by a run.
type Mismatch struct {
	Kind     string `json:"kind"`               // "spec" (impl vs specification) | "corr" (impl vs model) | "selfcheck" (model vs spec)
	What     string `json:"what"`               // short stable description used for known-finding matching
	Case     string `json:"case"`               // abstract case / request
	Input    string `json:"input,omitempty"`    // bytes or history
	Expected string `json:"expected,omitempty"` // specification
	Model    string `json:"model,omitempty"`
	Impl     string `json:"impl,omitempty"`
	InDomain bool   `json:"in_domain"` // input lies in the property's quantifier
}

// Result is what one harness run reports to bin/check.
type Result struct {
	Property    string         `json:"property"`
	Tier        string         `json:"tier"`
	Seed        uint64         `json:"seed"`
	Evaluations int            `json:"evaluations"`
	Classes     map[string]int `json:"classes"`
	Rule        string         `json:"rule"`
	Samples     []string       `json:"samples"`
	Exhaustive  bool           `json:"exhaustive"`
	Mismatches  []Mismatch     `json:"mismatches"`
	Notes       []string       `json:"notes,omitempty"`
	ModelCalls  int            `json:"model_calls"`
	Dist        map[string]int `json:"distribution,omitempty"`
}

func NewResult(prop, tier string, seed uint64) *Result {
	return &Result{Property: prop, Tier: tier, Seed: seed, Classes: map[string]int{}, Dist: map[string]int{}, Mismatches: []Mismatch{}, Samples: []string{}}
}

// Count records one evaluated case in its class (classes define "distinct").
func (r *Result) Count(class string) {
	r.Evaluations++
	r.Classes[class]++
}

func (r *Result) Sample(s string) {
	if len(r.Samples) < 12 {
		r.Samples = append(r.Samples, trunc(s, 400))
	}
}

const maxMismatches = 40

func (r *Result) Add(m Mismatch) {
	if len(r.Mismatches) >= maxMismatches {
		return
	}
	m.Case = trunc(m.Case, 4000)
	m.Input = trunc(m.Input, 4000)
	m.Expected = trunc(m.Expected, 2000)
	m.Model = trunc(m.Model, 2000)
	m.Impl = trunc(m.Impl, 2000)
	r.Mismatches = append(r.Mismatches, m)
}

func (r *Result) Write(path string) error {
	// canonical order
	sort.SliceStable(r.Mismatches, func(i, j int) bool { return r.Mismatches[i].What < r.Mismatches[j].What })
	b, err := json.MarshalIndent(r, "", " ")
	if err != nil {
		return err
	}
	return os.WriteFile(path, b, 0o644)
}
