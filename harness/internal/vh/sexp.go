// Package vh: shared pieces of the correspondence harness.
package vh

import (
	"encoding/hex"
	"fmt"
	"strconv"
	"strings"
)

// Val is an S-expression: an atom or a list.
type Val struct {
	Atom string
	List []Val
	IsL  bool
}

func A(s string) Val  { return Val{Atom: s} }
func L(vs ...Val) Val { return Val{List: vs, IsL: true} }
func I(n int64) Val   { return Val{Atom: strconv.FormatInt(n, 10)} }
func U(n uint64) Val  { return Val{Atom: strconv.FormatUint(n, 10)} }
func X(b []byte) Val  { return Val{Atom: "x" + hex.EncodeToString(b)} }
func B(b bool) Val {
	if b {
		return A("1")
	}
	return A("0")
}

// XN: hex bytes or the atom nil for a Go nil slice
func XN(b []byte) Val {
	if b == nil {
		return A("nil")
	}
	return X(b)
}

func (v Val) String() string {
	var sb strings.Builder
	v.write(&sb)
	return sb.String()
}

func (v Val) write(sb *strings.Builder) {
	if !v.IsL {
		sb.WriteString(v.Atom)
		return
	}
	sb.WriteByte('(')
	for i, x := range v.List {
		if i > 0 {
			sb.WriteByte(' ')
		}
		x.write(sb)
	}
	sb.WriteByte(')')
}

// Parse parses exactly one value.
func Parse(s string) (Val, error) {
	p := &parser{s: s}
	v, err := p.val()
	if err != nil {
		return Val{}, err
	}
	p.ws()
	if p.i != len(p.s) {
		return Val{}, fmt.Errorf("trailing input at %d", p.i)
	}
	return v, nil
}

type parser struct {
	s string
	i int
}

func (p *parser) ws() {
	for p.i < len(p.s) && (p.s[p.i] == ' ' || p.s[p.i] == '\n' || p.s[p.i] == '\t' || p.s[p.i] == '\r') {
		p.i++
	}
}

func (p *parser) val() (Val, error) {
	p.ws()
	if p.i >= len(p.s) {
		return Val{}, fmt.Errorf("unexpected end")
	}
	if p.s[p.i] == '(' {
		p.i++
		v := Val{IsL: true}
		for {
			p.ws()
			if p.i >= len(p.s) {
				return Val{}, fmt.Errorf("unclosed list")
			}
			if p.s[p.i] == ')' {
				p.i++
				return v, nil
			}
			x, err := p.val()
			if err != nil {
				return Val{}, err
			}
			v.List = append(v.List, x)
		}
	}
	if p.s[p.i] == ')' {
		return Val{}, fmt.Errorf("unexpected )")
	}
	j := p.i
	for j < len(p.s) && !strings.ContainsRune(" \n\t\r()", rune(p.s[j])) {
		j++
	}
	v := Val{Atom: p.s[p.i:j]}
	p.i = j
	return v, nil
}

// Hex decodes an x<hex> atom.
func (v Val) Hex() ([]byte, bool) {
	if v.IsL || !strings.HasPrefix(v.Atom, "x") {
		return nil, false
	}
	b, err := hex.DecodeString(v.Atom[1:])
	if err != nil {
		return nil, false
	}
	if b == nil {
		b = []byte{}
	}
	return b, true
}

func (v Val) Int() (int64, bool) {
	if v.IsL {
		return 0, false
	}
	n, err := strconv.ParseInt(v.Atom, 10, 64)
	return n, err == nil
}

func (v Val) Nth(i int) Val {
	if !v.IsL || i >= len(v.List) {
		return Val{Atom: "?"}
	}
	return v.List[i]
}
