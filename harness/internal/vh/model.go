package vh

import (
	"bufio"
	"fmt"
	"io"
	"os"
	"os/exec"
	"path/filepath"
	"time"
)

// Model is a running extracted model (coq/extract/modelrun).
type Model struct {
	cmd *exec.Cmd
	in  io.WriteCloser
	out *bufio.Reader
	N   int
}

func VerifRoot() string {
	if r := os.Getenv("VERIF_ROOT"); r != "" {
		return r
	}
	return "/verif"
}

func StartModel() (*Model, error) {
	bin := filepath.Join(VerifRoot(), "coq", "extract", "modelrun")
	// deep (non tail-recursive) list functions of the extracted code need a large stack on 256 KB values
	cmd := exec.Command("/bin/sh", "-c", "ulimit -s unlimited 2>/dev/null || ulimit -s 1000000 2>/dev/null; exec "+bin)
	in, err := cmd.StdinPipe()
	if err != nil {
		return nil, err
	}
	out, err := cmd.StdoutPipe()
	if err != nil {
		return nil, err
	}
	cmd.Stderr = os.Stderr
	if err := cmd.Start(); err != nil {
		return nil, err
	}
	return &Model{cmd: cmd, in: in, out: bufio.NewReaderSize(out, 1<<20)}, nil
}

// Call sends one request and reads one response.
func (m *Model) Call(req Val) Val {
	t0 := time.Now()
	r := m.Batch([]Val{req})
	if os.Getenv("VH_DEBUG") != "" && time.Since(t0) > 500*time.Millisecond && req.IsL && len(req.List) > 0 {
		fmt.Fprintf(os.Stderr, "slow model call %s: %v (request %d bytes)\n", req.List[0].Atom, time.Since(t0), len(req.String()))
	}
	return r[0]
}

// Batch sends all requests, then reads all responses (writer runs
// concurrently so that pipes cannot deadlock).
func (m *Model) Batch(reqs []Val) []Val {
	errc := make(chan error, 1)
	go func() {
		w := bufio.NewWriterSize(m.in, 1<<20)
		for _, r := range reqs {
			w.WriteString(r.String())
			w.WriteByte('\n')
		}
		errc <- w.Flush()
	}()
	out := make([]Val, len(reqs))
	for i := range reqs {
		line, err := m.out.ReadString('\n')
		if err != nil {
			panic(fmt.Sprintf("modelrun died after %d responses: %v (request %s)", i, err, trunc(reqs[i].String(), 300)))
		}
		v, perr := Parse(line)
		if perr != nil {
			panic(fmt.Sprintf("modelrun: unparsable response %q: %v", trunc(line, 300), perr))
		}
		if v.IsL && len(v.List) > 0 && v.List[0].Atom == "bad" {
			panic(fmt.Sprintf("modelrun rejected request %s: %s", trunc(reqs[i].String(), 300), v.String()))
		}
		out[i] = v
		m.N++
	}
	if err := <-errc; err != nil {
		panic(err)
	}
	return out
}

func (m *Model) Close() {
	m.in.Close()
	m.cmd.Wait()
}

func trunc(s string, n int) string {
	if len(s) <= n {
		return s
	}
	return s[:n] + "..."
}
