package vh

import "fmt"

// Try runs f and converts a Go panic into the outcome (panic).
func Try(f func() Val) (v Val) {
	defer func() {
		if r := recover(); r != nil {
			v = L(A("panic"))
		}
	}()
	return f()
}

func Ok(vs ...Val) Val      { return L(append([]Val{A("ok")}, vs...)...) }
func ErrV(class string) Val { return L(A("err"), A(class)) }

// Exact returns a copy whose capacity equals its length, so that Go's
// slicing panics exactly when the model's does.
func Exact(b []byte) []byte {
	c := make([]byte, len(b))
	copy(c, b)
	return c
}

func Sprintf(format string, a ...interface{}) string { return fmt.Sprintf(format, a...) }
