module verif/harness

go 1.23

require (
	github.com/Breeze0806/gobinlog v0.0.0
	github.com/Breeze0806/mysql v1.4.2
)

replace github.com/Breeze0806/gobinlog => /repo
