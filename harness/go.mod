module verif/harness

go 1.23

require (
	github.com/Breeze0806/gobinlog v0.0.0
	github.com/Breeze0806/mysql v1.4.2
)

require github.com/Breeze0806/go v0.0.0-20210513031655-61a934305111 // indirect

replace github.com/Breeze0806/gobinlog => /repo
