package main

import (
	"fmt"

	"github.com/Breeze0806/gobinlog/replication"
	"verif/harness/internal/vh"
)

func init() { runners["C16"] = runC16 }

func implControl(f replication.BinlogFormat, ev []byte, maria bool) vh.Val {
	mk := func() replication.BinlogEvent {
		if maria {
			return replication.NewMariadbBinlogEvent(vh.Exact(ev))
		}
		return replication.NewMysql56BinlogEvent(vh.Exact(ev))
	}
	e := mk()
	return vh.L(
		vh.Try(func() vh.Val {
			n, p, err := e.Rotate(f)
			if err != nil {
				return vh.ErrV(decErrClass(err))
			}
			return vh.Ok(vh.X([]byte(n)), vh.I(p))
		}),
		vh.Try(func() vh.Val {
			q, err := e.Query(f)
			if err != nil {
				return vh.ErrV(decErrClass(err))
			}
			cs := vh.A("nil")
			if q.Charset != nil {
				cs = vh.L(vh.I(int64(q.Charset.Client)), vh.I(int64(q.Charset.Conn)), vh.I(int64(q.Charset.Server)))
			}
			return vh.Ok(vh.L(vh.X([]byte(q.Database)), vh.X([]byte(q.SQL)), cs))
		}),
		vh.Try(func() vh.Val {
			t, v, err := e.IntVar(f)
			if err != nil {
				return vh.ErrV(decErrClass(err))
			}
			return vh.Ok(vh.I(int64(t)), vh.U(v))
		}),
		vh.Try(func() vh.Val {
			a, b, err := e.Rand(f)
			if err != nil {
				return vh.ErrV(decErrClass(err))
			}
			return vh.Ok(vh.U(a), vh.U(b))
		}),
		vh.Try(func() vh.Val { return vh.Ok(vh.U(e.TableID(f))) }),
		vh.Try(func() vh.Val {
			s, _, err := e.StripChecksum(f)
			if err != nil {
				return vh.ErrV(decErrClass(err))
			}
			return vh.Ok(vh.X(s.Bytes()))
		}),
	)
}

func runC16(c *Ctx) {
	c.R.Rule = "events per (kind: header/format/rotate/query/xid/intvar/rand, checksum mode off/CRC32/undefined/unknown, status-variable code set, flavor); distinct = distinct tuples"
	r := c.Rng
	// format descriptions: versions 0..50 bytes, tables of 27..255 entries, header lengths
	for k := 0; k < c.N(60, 1500); k++ {
		cfg := randCfg(r)
		cfg.NSizes = 27 + r.Intn(229)
		if k%2 == 1 {
			cfg.NSizes = r.Pick(30, 31, 32, 33, 33) // tables that end in a rows-event or GTID entry (non-zero last entry)
		}
		ver := r.Bytes(r.Intn(51))
		for i := range ver {
			if ver[i] == 0 {
				ver[i] = 'x' // the version is 0-padded: embedded trailing zeros are not representable
			}
		}
		h := randHdr(r)
		req := mkEventReq(cfg, h, vh.L(vh.A("format"), vh.X(ver)), r.Bytes(4))
		resp := c.M.Call(req)
		ev, _ := resp.Nth(0).Hex()
		expect := vh.Ok(resp.List[1:]...)
		model := c.M.Call(vh.L(vh.A("format"), vh.X(ev)))
		impl := vh.Try(func() vh.Val {
			f, err := replication.NewMysql56BinlogEvent(vh.Exact(ev)).Format()
			if err != nil {
				return vh.ErrV(decErrClass(err))
			}
			return vh.Ok(fmtVal(f).List...)
		})
		c.R.Count(fmt.Sprintf("format/crc%v/ver%d/n%d", cfg.CRC, min(len(ver), 50)/25, cfg.NSizes/100))
		if impl.String() != expect.String() {
			c.R.Add(vh.Mismatch{Kind: "spec", What: "Format differs from the format description the master wrote", Case: req.String(), Expected: expect.String(), Model: model.String(), Impl: impl.String(), InDomain: true})
		}
		if impl.String() != model.String() {
			c.R.Add(vh.Mismatch{Kind: "corr", What: "Format differs from the model", Case: req.String(), Model: model.String(), Impl: impl.String(), InDomain: true})
		}
		// the per-type header size: for every type the table announces, HeaderSize is the entry the master wrote for it
		// (the last announced type included)
		if sizes, ok := resp.Nth(5).Hex(); ok && impl.String() == expect.String() {
			f, _ := replication.NewMysql56BinlogEvent(vh.Exact(ev)).Format()
			for t := 1; t <= len(sizes) && t <= 255; t++ {
				got := vh.Try(func() vh.Val { return vh.Ok(vh.I(int64(f.HeaderSize(byte(t))))) })
				c.R.Dist["header_size_lookups"]++
				if want := vh.Ok(vh.I(int64(sizes[t-1]))); got.String() != want.String() {
					c.R.Add(vh.Mismatch{Kind: "spec", What: "HeaderSize differs from the entry of the header-size table the master wrote for that event type",
						Case: fmt.Sprintf("type %d of a table of %d entries; %s", t, len(sizes), req.String()), Expected: want.String(), Impl: got.String(), InDomain: true})
					break
				}
			}
			c.R.Count(fmt.Sprintf("header-size/last-entry-nonzero%v", len(sizes) > 0 && sizes[len(sizes)-1] != 0))
		}
		// header fields of the same event
		hv := implHeader(ev)
		want := vh.L(vh.Ok(vh.B(true)), vh.Ok(vh.I(15)), vh.Ok(vh.U(uint64(h.Flags))), vh.Ok(vh.U(uint64(h.TS))), vh.Ok(vh.U(uint64(h.SID))), vh.Ok(vh.I(int64(len(ev)))), vh.Ok(vh.U(uint64(h.Next))))
		if hv.String() != want.String() {
			c.R.Add(vh.Mismatch{Kind: "spec", What: "header accessors differ from the header the master wrote", Case: req.String(), Expected: want.String(), Impl: hv.String(), InDomain: true})
		}
		// malformed format events
		if k%3 == 0 {
			b := append([]byte{}, ev...)
			if r.Bool() {
				b = b[:r.Intn(len(b))]
			} else {
				b[19+r.Intn(len(b)-19)] = byte(r.U64())
			}
			mm := c.M.Call(vh.L(vh.A("format"), vh.X(b)))
			mi := vh.Try(func() vh.Val {
				f, err := replication.NewMysql56BinlogEvent(vh.Exact(b)).Format()
				if err != nil {
					return vh.ErrV(decErrClass(err))
				}
				return vh.Ok(fmtVal(f).List...)
			})
			c.R.Count("format-malformed")
			if mm.String() != mi.String() {
				c.R.Add(vh.Mismatch{Kind: "corr", What: "Format differs from the model on a malformed event", Case: vh.Sprintf("x%x", b), Model: mm.String(), Impl: mi.String()})
			}
		}
	}
	// HeaderSize over arbitrary tables (BinlogFormat is a public struct): entry t-1 for every type t = 1 .. len
	for k := 0; k < c.N(40, 600); k++ {
		n := r.Pick(1, 2, 27, 32, 35, 40, 160, 254, 255, 1+r.Intn(255))
		tab := r.Bytes(n)
		for i := range tab {
			if tab[i] == 0 {
				tab[i] = byte(1 + r.Intn(255))
			}
		}
		f := replication.BinlogFormat{FormatVersion: 4, ServerVersion: "x", HeaderLength: 19, HeaderSizes: tab}
		c.R.Count(fmt.Sprintf("header-size/arbitrary-table/n%d", n/64))
		for t := 1; t <= n; t++ {
			got := vh.Try(func() vh.Val { return vh.Ok(vh.I(int64(f.HeaderSize(byte(t))))) })
			c.R.Dist["header_size_lookups"]++
			if want := vh.Ok(vh.I(int64(tab[t-1]))); got.String() != want.String() {
				c.R.Add(vh.Mismatch{Kind: "spec", What: "HeaderSize differs from the entry of the header-size table for that event type",
					Case: fmt.Sprintf("type %d of the table x%x (%d entries)", t, tab, n), Expected: want.String(), Impl: got.String(), InDomain: true})
				break
			}
		}
	}
	// control events with and without checksum; both flavors of StripChecksum
	statusVars := func() ([]vh.Val, vh.Val, string) {
		var vars []vh.Val
		cs := vh.A("nil")
		key := ""
		add := func(code int, payload []byte) {
			vars = append(vars, vh.L(vh.I(int64(code)), vh.X(payload)))
			key += fmt.Sprintf("%d.", code)
		}
		if r.Bool() {
			add(0, r.Bytes(4))
		}
		if r.Bool() {
			add(1, r.Bytes(8))
		}
		// catalog and time-zone names have a plain one-byte length: every length 0..255 is legal, 251..254 are not markers
		nameLen := func(small int) int {
			if q := r.Side(); q.Chance(1, 5) {
				return q.Pick(250, 251, 252, 253, 254, 255, 128, 64)
			}
			return r.Intn(small)
		}
		switch r.Intn(3) {
		case 0:
			n := nameLen(6)
			add(6, append([]byte{byte(n)}, r.Bytes(n)...))
		case 1:
			n := nameLen(6)
			add(2, append(append([]byte{byte(n)}, r.Bytes(n)...), 0))
		}
		if r.Bool() {
			add(3, r.Bytes(4))
		}
		if r.Bool() {
			p := r.Bytes(6)
			add(4, p)
			cs = vh.L(vh.I(int64(p[0])|int64(p[1])<<8), vh.I(int64(p[2])|int64(p[3])<<8), vh.I(int64(p[4])|int64(p[5])<<8))
		}
		if r.Bool() {
			n := nameLen(5)
			add(5, append([]byte{byte(n)}, r.Bytes(n)...))
		}
		for code := 7; code <= 20; code++ {
			if r.Chance(1, 6) {
				add(code, r.Bytes(r.Intn(9)))
			}
		}
		return vars, cs, key
	}
	for k := 0; k < c.N(200, 6000); k++ {
		base := randCfg(r)
		h := randHdr(r)
		var body vh.Val
		var kind, class string
		var wantIdx int
		var want vh.Val
		switch r.Intn(5) {
		case 0:
			name := r.Bytes(r.Intn(40))
			p := r.U64() >> uint(r.Intn(40))
			body = vh.L(vh.A("rotate"), vh.U(p), vh.X(name))
			kind, wantIdx, want = "rotate", 0, vh.Ok(vh.X(name), vh.I(int64(p)))
			class = "rotate"
		case 1:
			vars, cs, key := statusVars()
			db := r.Bytes(r.Pick(0, 1, 5, 255, r.Intn(256)))
			for i := range db {
				if db[i] == 0 {
					db[i] = 'd'
				}
			}
			sql := r.Bytes(r.Pick(0, 1, 20, 300, r.Intn(2000)))
			if r.Chance(1, 40) {
				sql = r.Bytes(65536)
			}
			body = vh.L(vh.A("query"), vh.U(uint64(uint32(r.U64()))), vh.U(uint64(uint32(r.U64()))), vh.I(int64(r.Intn(65536))), vh.L(vars...), vh.X(db), vh.X(sql))
			kind, wantIdx, want = "query", 1, vh.Ok(vh.L(vh.X(db), vh.X(sql), cs))
			class = "query/vars:" + key
		case 2:
			t := int64(1 + r.Intn(2))
			v := r.U64()
			body = vh.L(vh.A("intvar"), vh.I(t), vh.U(v))
			kind, wantIdx, want = "intvar", 2, vh.Ok(vh.I(t), vh.U(v))
			class = "intvar"
		case 3:
			a, b := r.U64(), r.U64()
			body = vh.L(vh.A("rand"), vh.U(a), vh.U(b))
			kind, wantIdx, want = "rand", 3, vh.Ok(vh.U(a), vh.U(b))
			class = "rand"
		default:
			body = vh.L(vh.A("xid"), vh.U(r.U64()))
			kind, wantIdx = "xid", -1
			class = "xid"
		}
		var decoded [2]string
		for ci, crc := range []bool{false, true} {
			cfg := base
			cfg.CRC = crc
			fi := mkFormat(c, cfg, []byte("5.6.33"))
			req := mkEventReq(cfg, h, body, r.Bytes(4))
			ev, _ := c.M.Call(req).Nth(0).Hex()
			for _, maria := range []bool{false, true} {
				fl := int64(0)
				if maria {
					fl = 1
				}
				c.R.Count(fmt.Sprintf("%s/crc%v/maria%v", class, crc, maria))
				m0 := c.M.Call(vh.L(vh.A("control"), fi.val, vh.X(ev), vh.I(fl)))
				i0 := implControl(fi.f, ev, maria)
				// strip, then decode the stripped event
				stripped, ok := i0.Nth(5).Nth(1).Hex()
				if !ok {
					c.R.Add(vh.Mismatch{Kind: "spec", What: "StripChecksum failed on a well-formed event", Case: req.String(), Impl: i0.Nth(5).String(), InDomain: true})
					continue
				}
				if i0.Nth(5).String() != m0.Nth(5).String() {
					c.R.Add(vh.Mismatch{Kind: "corr", What: "StripChecksum differs from the model", Case: req.String(), Model: m0.Nth(5).String(), Impl: i0.Nth(5).String(), InDomain: true})
				}
				wantLen := len(ev)
				if crc {
					wantLen -= 4
				}
				if len(stripped) != wantLen {
					c.R.Add(vh.Mismatch{Kind: "spec", What: "StripChecksum did not remove exactly the announced checksum", Case: req.String(), Expected: fmt.Sprint(wantLen), Impl: fmt.Sprint(len(stripped)), InDomain: true})
				}
				m1 := c.M.Call(vh.L(vh.A("control"), fi.val, vh.X(stripped), vh.I(fl)))
				i1 := implControl(fi.f, stripped, maria)
				if wantIdx >= 0 {
					if i1.Nth(wantIdx).String() != want.String() {
						c.R.Add(vh.Mismatch{Kind: "spec", What: kind + " decodes differently from what the master wrote", Case: vh.Sprintf("%.2000s", req.String()), Expected: vh.Sprintf("%.600s", want.String()), Impl: vh.Sprintf("%.600s", i1.Nth(wantIdx).String()), InDomain: true})
					}
					if i1.Nth(wantIdx).String() != m1.Nth(wantIdx).String() {
						c.R.Add(vh.Mismatch{Kind: "corr", What: kind + " differs from the model", Case: vh.Sprintf("%.2000s", req.String()), Model: vh.Sprintf("%.600s", m1.Nth(wantIdx).String()), Impl: vh.Sprintf("%.600s", i1.Nth(wantIdx).String()), InDomain: true})
					}
					if !maria {
						decoded[ci] = i1.Nth(wantIdx).String()
					}
				}
				// every decoder on every event kind (mostly out of domain): model vs implementation
				for j := 0; j < 5; j++ {
					if i1.Nth(j).String() != m1.Nth(j).String() {
						c.R.Add(vh.Mismatch{Kind: "corr", What: "control decoder differs from the model (decoder " + fmt.Sprint(j) + " on a " + kind + " event)", Case: vh.Sprintf("%.2000s", req.String()), Model: vh.Sprintf("%.600s", m1.Nth(j).String()), Impl: vh.Sprintf("%.600s", i1.Nth(j).String())})
					}
				}
				// header lengths near 255 (out of every property's domain): TableID computes its offsets in a byte,
				// so they wrap around; model vs implementation on a long event
				if r.Chance(1, 3) {
					f2 := fi.f
					f2.HeaderLength = byte(244 + r.Intn(12))
					long := append(append([]byte{}, stripped...), r.Bytes(300)...)
					m2 := c.M.Call(vh.L(vh.A("control"), fmtVal(f2), vh.X(long), vh.I(fl)))
					i2 := implControl(f2, long, maria)
					c.R.Count(fmt.Sprintf("hlen-wrap/hlen%d", f2.HeaderLength))
					for j := 0; j < 5; j++ {
						if i2.Nth(j).String() != m2.Nth(j).String() {
							c.R.Add(vh.Mismatch{Kind: "corr", What: "control decoder differs from the model with a header length near 255 (decoder " + fmt.Sprint(j) + ")", Case: vh.Sprintf("hlen=%d x%x", f2.HeaderLength, long), Model: vh.Sprintf("%.600s", m2.Nth(j).String()), Impl: vh.Sprintf("%.600s", i2.Nth(j).String())})
						}
					}
				}
			}
		}
		if wantIdx >= 0 && decoded[0] != decoded[1] {
			c.R.Add(vh.Mismatch{Kind: "spec", What: "decoding differs with and without a trailing CRC32 checksum", Case: body.String(), Expected: decoded[0], Impl: decoded[1], InDomain: true})
		}
	}
	// the shortest events: a STOP event is its 19-byte header and nothing else (23 bytes on a master that writes CRC32
	// checksums); bodies of 1..5 bytes.  Stripping takes the last four bytes, whatever is left is the event.
	for _, crc := range []bool{false, true} {
		for bl := 0; bl <= 5; bl++ {
			for _, maria := range []bool{false, true} {
				cfg := baseCfg(r, 0)
				cfg.CRC = crc
				fi := mkFormat(c, cfg, []byte("5.7.30-log"))
				ev, _ := c.M.Call(mkEventReq(cfg, randHdr(r), vh.L(vh.A("raw"), vh.I(int64(r.Pick(3, 3, 27, 16))), vh.X(r.Bytes(bl))), r.Bytes(4))).Nth(0).Hex()
				fl := int64(0)
				if maria {
					fl = 1
				}
				m := c.M.Call(vh.L(vh.A("control"), fi.val, vh.X(ev), vh.I(fl))).Nth(5)
				i := implControl(fi.f, ev, maria).Nth(5)
				c.R.Count(fmt.Sprintf("strip/short-event/body%d/crc%v/maria%v", bl, crc, maria))
				cse := fmt.Sprintf("event %x (header + %d body bytes, checksum %v, maria %v)", ev, bl, crc, maria)
				if m.String() != i.String() {
					c.R.Add(vh.Mismatch{Kind: "corr", What: "StripChecksum differs from the model on a short event", Case: cse, Model: m.String(), Impl: i.String(), InDomain: true})
				}
				want := 19 + bl
				if st, ok := i.Nth(1).Hex(); i.Nth(0).Atom != "ok" || !ok || len(st) != want {
					c.R.Add(vh.Mismatch{Kind: "spec", What: "StripChecksum rejects or mis-cuts a well-formed short event (a header-only STOP event, a body of a few bytes)", Case: cse,
						Expected: fmt.Sprintf("ok, %d bytes", want), Impl: i.String(), InDomain: true})
				}
			}
		}
	}
	// checksum algorithm byte: off, CRC32, undefined, unknown
	for _, alg := range []int64{0, 1, 255, 2, 7, 200} {
		cfg := baseCfg(r, 0)
		fi := mkFormat(c, cfg, []byte("5.6.33"))
		fv := vh.L(fi.val.List[0], fi.val.List[1], fi.val.List[2], vh.I(alg), fi.val.List[4])
		f := implFormat(fv)
		ev, _ := c.M.Call(mkEventReq(cfg, randHdr(r), vh.L(vh.A("xid"), vh.U(5)), nil)).Nth(0).Hex()
		for _, maria := range []bool{false, true} {
			fl := int64(0)
			if maria {
				fl = 1
			}
			m := c.M.Call(vh.L(vh.A("control"), fv, vh.X(ev), vh.I(fl))).Nth(5)
			i := implControl(f, ev, maria).Nth(5)
			c.R.Count(fmt.Sprintf("strip/alg%d/maria%v", alg, maria))
			if m.String() != i.String() {
				c.R.Add(vh.Mismatch{Kind: "corr", What: "StripChecksum differs from the model", Case: fmt.Sprintf("alg=%d maria=%v", alg, maria), Model: m.String(), Impl: i.String(), InDomain: true})
			}
			if !maria {
				wantOK := alg == 0 || alg == 1 || alg == 255
				if (i.Nth(0).Atom == "ok") != wantOK {
					c.R.Add(vh.Mismatch{Kind: "spec", What: "StripChecksum accepts an unknown algorithm or rejects a known one", Case: fmt.Sprintf("alg=%d", alg), Impl: i.String(), InDomain: true})
				}
			}
		}
	}
}
