package main

import (
	"fmt"
	"os"
	"strings"
	"time"
	"unsafe"

	gobinlog "github.com/Breeze0806/gobinlog"
	"github.com/Breeze0806/gobinlog/replication"
	"verif/harness/internal/vh"
)

func init() {
	runners["C05"] = func(c *Ctx) { runTermination(c, "C05") }
	runners["C06"] = func(c *Ctx) { runTermination(c, "C06") }
	runners["C07"] = runC07
	runners["C08"] = runC08
}

type stopScenario struct {
	cause             string // eof err close reset short outofseq cancel-idle cancel-handler handler-err invalid unsupported mapper-err connect-fail
	ahead             bool   // the master is far ahead of the parser when the stop happens (reader may hold an event)
	slow              bool   // slow handler
	atTx              int
	cancelBeforeError bool
}

func announceFailsCause(cause string) bool {
	return cause == "announce-rejected" || cause == "announce-lost" || cause == "dump-unsendable"
}

var stopCauses = []string{"eof", "err", "close", "reset", "short", "outofseq", "cancel-idle", "cancel-handler", "handler-err", "handler-err-cancel", "invalid", "unsupported", "unknown-table", "mapper-err", "connect-fail", "announce-rejected", "announce-lost", "dump-unsendable", "foreign-packet", "cancel-during-announce"}

// runTermination covers C05 (termination, nothing left behind, Error() never blocks, handler scope) and
// C06 (the reason is reported): every stop cause x stop point x reader blocking state x handler speed.
func runTermination(c *Ctx, prop string) {
	c.R.Rule = "stop cause {EOF, ERR, close, reset, short packet, out-of-sequence packet, cancel while idle, cancel inside the handler, handler error, invalid event, unsupported event, mapper error, connect failure} x stop point x reader state {waiting for the network, holding an event (master far ahead)} x handler {fast, slow} x {Error() before / after a late cancel}; distinct = distinct tuples; trivial = none"
	r := c.Rng
	base := libraryGoroutines()
	reps := c.N(1, 12)
	for rep := 0; rep < reps; rep++ {
		cfg := baseCfg(r, r.Intn(len(baseCfgs)))
		h := genHistory(r, cfg, histOpts{units: 4 + r.Intn(4), maxCols: 3, maxRows: 2, rotations: false, ignorables: false,
			kindsOnly: []string{"txXid", "txCommit", "autoRows", "ddl"}})
		h.encode(c)
		if len(h.txs) < 3 {
			continue
		}
		f0, o0 := startOf(h)
		evs, idx := h.serve(c, f0, uint32(o0))
		for _, cause := range stopCauses {
			for _, ahead := range []bool{false, true} {
				for _, slow := range []bool{false, true} {
					if slow && !c.Thorough() && r.Chance(2, 3) {
						continue
					}
					for _, late := range []bool{false, true} {
						if late && cause != "err" && cause != "close" && cause != "eof" && cause != "reset" {
							continue
						}
						sc := stopScenario{cause: cause, ahead: ahead, slow: slow, atTx: 1 + r.Intn(len(h.txs)-1), cancelBeforeError: late}
						runStopScenario(c, prop, h, evs, idx, f0, o0, sc, base)
					}
				}
			}
		}
	}
}

func runStopScenario(c *Ctx, prop string, h *history, evs [][]byte, idx []int, f0 string, o0 int64, sc stopScenario, base int) {
	// the served index just after the commit event of transaction atTx-1 / atTx
	cutAfterTx := func(t int) int {
		for i, x := range idx {
			if x == h.txs[t].commitIdx {
				return i + 1
			}
		}
		return len(evs)
	}
	a := e2eAttempt{events: evs, terminal: "hang", cancelInHandler: -1, holdAfter: -1}
	// every other scenario hands Stream a context of a foreign type: the per-attempt context the library derives from it
	// then has a goroutine of its own, which must be gone as well once Stream has returned
	a.foreignCtx = c.Rng.Side().Chance(1, 2)
	if sc.slow {
		a.slowHandler = 15 * time.Millisecond
	}
	var mapper gobinlog.MysqlTableMapper
	var mapperFail *tableDef
	var foreignByte byte
	ghostAt := -1
	cut := cutAfterTx(sc.atTx)
	switch sc.cause {
	case "eof", "err", "close", "reset", "short", "outofseq":
		a.terminal = sc.cause
		a.errCode, a.errMsg = 1236, fmt.Sprintf("Could not find first log file name in binary log index file #%d", c.Rng.Intn(100000))
		a.events = evs[:cut]
		if !sc.ahead {
			// lock-step: the terminal action happens only after the parser consumed everything
			a.holdAfter = cutAfterTx(sc.atTx - 1)
		}
	case "cancel-during-announce":
		// the cancellation falls inside the connection set-up: the master has received the checksum announcement and
		// answers it 250 ms later.  Whatever Stream does with the half-made connection, once it has returned nothing of
		// it may be left: no goroutine, no open socket at the master.
		a.events = evs[:cut]
		a.terminal = "eof"
		a.cancelOnAnnounce = true
	case "cancel-idle":
		a.events = evs[:cut]
		a.cancelWhenIdle = true
	case "cancel-handler":
		a.cancelInHandler = sc.atTx
		if !sc.ahead {
			a.events = evs[:cut]
		}
	case "handler-err", "handler-err-cancel":
		if sc.cause == "handler-err-cancel" {
			a.cancelInHandler = sc.atTx
		}
		a.verdicts = make([]bool, sc.atTx+1)
		for i := range a.verdicts {
			a.verdicts[i] = i != sc.atTx
		}
		if !sc.ahead {
			a.events = evs[:cut]
		}
	case "invalid", "unsupported", "unknown-table", "foreign-packet":
		var bad []byte
		switch sc.cause {
		case "invalid":
			bad = append([]byte{}, evs[2][:10]...)
		case "foreign-packet":
			// a packet whose first byte is none of OK (0x00), EOF (0xfe), ERR (0xff) and whose body is no binlog event:
			// a protocol violation / corrupted stream, which must not be reported as a clean end
			bad = c.Rng.Bytes(c.Rng.Pick(0, 1, 5, 18, 40))
			foreignByte = byte(c.Rng.Pick(0x01, 0x0a, 0xfb, 0xfd, 0x7f, 0x80, 0xfc, 0x02))
		case "unsupported":
			bad = rawEvent(c, h.cfg, 29, []byte{1, 'x'})
		default:
			bad = unknownTableRows(c, h)
			if bad == nil {
				return
			}
		}
		pre := cutAfterTx(sc.atTx - 1)
		if sc.cause == "foreign-packet" {
			a.firstByte = map[int]byte{pre: foreignByte}
		}
		a.events = append(append(append([][]byte{}, evs[:pre]...), bad), evs[pre:]...)
		if !sc.ahead {
			a.events = a.events[:pre+1]
		}
	case "mapper-err":
		// fail the lookup of a table the history really uses (otherwise nothing stops the stream)
		var t *tableDef
		for i := range h.events {
			if h.events[i].kind == "tablemap" {
				t = h.events[i].table
				break
			}
		}
		if t == nil {
			return
		}
		mapperFail = t
		mapper = &hMapper{tables: h.tables, failFor: t.db + "." + t.name}
		if q := c.Rng.Side(); q.Chance(1, 2) {
			// the table whose lookup fails is only announced - a table the statement opened or locked and wrote no rows
			// for (triggers, cascades, multi-table statements): the announcement alone ends the stream with the error
			ghost := *t
			ghost.db, ghost.name, ghost.id = "ghostdb", "announced_only", t.id+1000
			for i := range a.events {
				if i < len(idx) && idx[i] >= 0 && h.events[idx[i]].kind == "tablemap" {
					ev := h.events[idx[i]]
					resp := c.M.Call(mkEventReq(ev.cfg, Hdr{TS: ev.ts, SID: 7, Next: 0}, ghost.bodyVal(), c.Rng.Bytes(4)))
					if b, ok := resp.Nth(0).Hex(); ok {
						a.events = append(append(append([][]byte{}, a.events[:i+1]...), b), a.events[i+1:]...)
						ghostAt = i + 1
						mapperFail = &ghost
						mapper = &hMapper{tables: h.tables, failFor: "ghostdb.announced_only"}
					}
					break
				}
			}
		}
	}
	class := fmt.Sprintf("%s/ahead%v/slow%v/late-cancel%v", sc.cause, sc.ahead, sc.slow, sc.cancelBeforeError)
	if ghostAt >= 0 {
		class += "/announced-only-table"
	}
	c.R.Dist[fmt.Sprintf("caller-context-foreign-%v", a.foreignCtx)]++
	if sc.cause == "foreign-packet" {
		class += fmt.Sprintf("/first-byte-%#02x", foreignByte)
	}
	c.R.Count(class)
	desc := fmt.Sprintf("cause=%s ahead=%v slow=%v atTx=%d lateCancel=%v cfg=%s units=%v", sc.cause, sc.ahead, sc.slow, sc.atTx, sc.cancelBeforeError, h.cfg, h.kinds)
	if c.R.Evaluations%23 == 1 {
		c.R.Sample(desc)
	}
	var env *e2eEnv
	var err error
	if sc.cause == "connect-fail" {
		env, err = newE2E(h.tables, 77, nil)
		if err == nil {
			env.m.close() // nothing listens any more
			time.Sleep(5 * time.Millisecond)
		}
	} else if sc.cause == "dump-unsendable" {
		// the announcement is accepted, but the dump command cannot be sent (it exceeds the connection's
		// max_allowed_packet because of a long file name): a connection exists, no reader was ever started
		env, err = newE2EDSN(h.tables, 77, mapper, "?maxAllowedPacket=64")
		f0 = strings.Repeat("b", 60) + ".000001"
	} else {
		env, err = newE2E(h.tables, 77, mapper)
	}
	if err != nil {
		c.R.Notes = append(c.R.Notes, "cannot listen: "+err.Error())
		return
	}
	defer env.close()
	if sc.cause == "announce-rejected" || sc.cause == "announce-lost" {
		// the master answers the checksum announcement (the SET before the dump request) with an ERR packet - the
		// connection stays healthy - or drops the connection without answering: no reader is ever started
		reply := strings.TrimPrefix(sc.cause, "announce-")
		env.m.mu.Lock()
		env.m.queryReply = func(int, string) string { return reply }
		env.m.mu.Unlock()
	}
	// a third of the scenarios are the SECOND attempt on their streamer: an earlier Stream call on the same object was
	// ended by the caller's cancellation, by the master's ERR packet or by its EOF, and Error() was called after it.
	// Nothing of that attempt (a flag, a channel, a context) may leak into what this attempt reports.
	attemptNo, prior := 0, ""
	if q := c.Rng.Side(); !announceFailsCause(sc.cause) && sc.cause != "connect-fail" && len(evs) > 3 && q.Chance(1, 3) {
		prior = q.PickS("cancelled", "err", "eof", "cancelled")
		pa := e2eAttempt{events: evs[:2+q.Intn(len(evs)-2)], terminal: "eof", cancelInHandler: -1, holdAfter: -1, foreignCtx: q.Bool()}
		switch prior {
		case "cancelled":
			pa.terminal, pa.cancelWhenIdle = "hang", true
		case "err":
			pa.terminal, pa.errCode, pa.errMsg = "err", 1236, "an earlier attempt's error"
		}
		env.s.SetBinlogPosition(gobinlog.Position{Filename: f0, Offset: o0})
		pres := env.run(0, pa, base)
		if !pres.returned {
			c.R.Add(vh.Mismatch{Kind: "spec", What: "termination: the earlier attempt on the streamer did not return (" + prior + ")", Case: desc, InDomain: true})
			return
		}
		attemptNo = 1
		c.R.Dist["second-attempt-after-"+prior]++
		desc += " second attempt on the streamer, the first ended by " + prior
	}
	env.s.SetBinlogPosition(gobinlog.Position{Filename: f0, Offset: o0})
	res := env.runWith(attemptNo, a, base, sc.cancelBeforeError)
	announceFails := sc.cause == "announce-rejected" || sc.cause == "announce-lost" || sc.cause == "dump-unsendable"
	masterCloses := a.terminal == "close" || a.terminal == "reset" || a.terminal == "short" || sc.cause == "announce-lost"

	// ---- correspondence with the protocol model: the observed outcome must be one the LTS admits ----
	{
		bits := make([]vh.Val, len(a.events))
		commit := map[int]bool{}
		for _, tx := range h.txs {
			commit[tx.commitIdx] = true
		}
		// a.events is a prefix of evs, possibly with one injected packet
		inj := -1
		if sc.cause == "invalid" || sc.cause == "unsupported" || sc.cause == "unknown-table" || sc.cause == "foreign-packet" {
			inj = cutAfterTx(sc.atTx - 1)
		}
		if ghostAt >= 0 {
			inj = ghostAt
		}
		for i := range a.events {
			j := i
			if inj >= 0 && i == inj {
				bits[i] = vh.I(0)
				continue
			}
			if inj >= 0 && i > inj {
				j = i - 1
			}
			if j < len(idx) && idx[j] >= 0 && commit[idx[j]] {
				bits[i] = vh.I(1)
			} else {
				bits[i] = vh.I(0)
			}
		}
		term := vh.A("hang")
		switch a.terminal {
		case "eof":
			term = vh.A("eof")
		case "err":
			term = vh.L(vh.A("err"), vh.I(int64(a.errCode)))
		case "close", "short", "outofseq":
			term = vh.A("close")
		case "reset":
			term = vh.A("reset")
		}
		vs := make([]vh.Val, len(a.verdicts))
		for i, v := range a.verdicts {
			vs[i] = vh.B(v)
		}
		ntx := 0
		for _, b := range bits {
			if b.Atom == "1" {
				ntx++
			}
		}
		cancelV := vh.A("never")
		switch {
		case sc.cancelBeforeError:
			cancelV = vh.A("after_return")
		case a.cancelInHandler >= 0:
			cancelV = vh.L(vh.A("while_handler"), vh.I(int64(a.cancelInHandler)))
		case a.cancelWhenIdle:
			cancelV = vh.L(vh.A("after_deliveries"), vh.I(int64(ntx)))
		}
		badAt := vh.A("none")
		if inj >= 0 {
			badAt = vh.I(int64(inj))
		}
		if sc.cause == "mapper-err" && ghostAt >= 0 {
			badAt = vh.I(int64(ghostAt))
		} else if sc.cause == "mapper-err" {
			t := mapperFail
			for i := range a.events {
				if i < len(idx) && idx[i] >= 0 && h.events[idx[i]].kind == "tablemap" && h.events[idx[i]].table.name == t.name && h.events[idx[i]].table.db == t.db {
					badAt = vh.I(int64(i))
					break
				}
			}
		}
		cf, sf := vh.I(0), vh.I(0)
		if sc.cause == "connect-fail" {
			cf = vh.I(1)
		}
		if announceFails {
			sf = vh.I(1)
		}
		req := vh.L(vh.A("conn_outcomes"), vh.L(vh.I(1), vh.I(1), vh.I(0), vh.I(1)), vh.L(bits...), term, vh.L(vs...), cancelV, cf, sf, badAt)
		set := c.M.Call(req)
		obs := []string{"nil", "nil", "0", "closed"}
		if !res.returned {
			obs[0] = "blocked"
		} else if res.streamErr != nil {
			obs[0] = "err"
		}
		reason := res.errorRes
		switch {
		case !res.returned:
			obs[1] = "notcalled"
		case reason == "blocked":
			obs[1] = "blocked"
		case strings.HasPrefix(reason, "master:"):
			obs[1] = "master"
		case strings.HasPrefix(reason, "transport:"):
			obs[1] = "transport"
		}
		if res.leaked {
			obs[2] = "1"
		}
		if sc.cause == "connect-fail" {
			obs[3] = "noconn"
		} else if !res.closedSeen && !masterCloses {
			obs[3] = "open"
		}
		admitted := false
		for _, tup := range set.List[2:] {
			if tup.Nth(0).Atom == obs[0] && tup.Nth(1).Atom == obs[1] && tup.Nth(2).Atom == obs[2] && tup.Nth(3).Atom == obs[3] {
				admitted = true
			}
		}
		c.R.Dist["protocol_model_sets_checked"]++
		if sc.cause == "cancel-during-announce" {
			admitted = true // the protocol model has no step inside the connection set-up; the specification checks below apply
		}
		if !admitted && set.Nth(0).Atom == "ok" {
			c.R.Add(vh.Mismatch{Kind: "corr", What: "the observed end of the stream is not an outcome the protocol model admits (" + sc.cause + ")", Case: desc + " request=" + vh.Sprintf("%.300s", req.String()),
				Model: vh.Sprintf("%.600s", set.String()), Impl: strings.Join(obs, " "), InDomain: true})
		}
	}
	add := func(kind, what, exp, got string) {
		// C05 owns termination / cleanliness, C06 the reported reason
		if (prop == "C05") != strings.HasPrefix(what, "termination:") {
			return
		}
		c.R.Add(vh.Mismatch{Kind: kind, What: what, Case: desc, Expected: exp, Impl: got, InDomain: true})
	}
	// ---- C05 ----
	if !res.returned {
		add("spec", "termination: Stream did not return after "+sc.cause, "returns", "blocked")
		return
	}
	if res.errorRes == "blocked" {
		add("spec", "termination: Error() blocks after a stream ended by "+sc.cause+" (reader "+map[bool]string{true: "holding an event", false: "waiting for the network"}[sc.ahead]+")", "returns", "blocked")
	}
	if res.leaked {
		add("spec", "termination: a goroutine started by the library remains after Stream returned ("+sc.cause+")", "none", "startDumpFromBinlogPosition.func1 or the propagation goroutine of the per-attempt context still running")
	}
	if sc.cause != "connect-fail" && !masterCloses && !res.closedSeen {
		add("spec", "termination: the connection to the master was not closed after Stream returned ("+sc.cause+")", "closed", "open")
	}
	if res.overlap || res.afterReturn {
		add("spec", "termination: handler called concurrently or after Stream returned", "", fmt.Sprintf("overlap=%v afterReturn=%v", res.overlap, res.afterReturn))
	}
	// ---- C06 ----
	if announceFails && len(res.dumps) > 0 {
		add("spec", "reporting: the master received a dump request although the announcement failed / the request could not be sent", "no dump request", fmt.Sprintf("%+v", res.dumps))
	}
	mustFail := map[string]bool{"dump-unsendable": true, "announce-rejected": true, "announce-lost": true, "foreign-packet": true, "handler-err": true, "handler-err-cancel": true, "invalid": true, "unsupported": true, "unknown-table": true, "mapper-err": true, "connect-fail": true}
	if mustFail[sc.cause] && res.streamErr == nil {
		add("spec", "reporting: Stream returned nil after "+sc.cause, "non-nil error", "nil")
	}
	reason := res.errorRes
	if sc.cancelBeforeError {
		reason = res.errorResAfterCancel
	}
	if res.streamErr == nil && reason == "nil" {
		switch sc.cause {
		case "eof", "cancel-idle", "cancel-handler", "cancel-during-announce":
		default:
			what := "reporting: Stream returned nil and Error() returned nil although the stream ended by " + sc.cause
			if sc.cancelBeforeError {
				what += " (context cancelled after Stream returned, before Error())"
			}
			add("spec", what, "an error carrying the reason", "nil")
		}
	}
	if res.streamErr == nil && sc.cause == "err" && reason != "nil" && reason != "blocked" && !strings.Contains(reason, a.errMsg) {
		add("spec", "reporting: Error() does not carry the master's error message", a.errMsg, reason)
	}
	if res.streamErr == nil && sc.cause == "eof" && !sc.cancelBeforeError && reason != "nil" {
		add("spec", "reporting: Error() reports an error after the master's EOF", "nil", reason)
	}
}

// runWith is run plus the late-cancel variant of the Error() call.
func (env *e2eEnv) runWith(n int, a e2eAttempt, base int, lateCancel bool) e2eResult {
	if !lateCancel {
		return env.run(n, a, base)
	}
	env.lateCancel = true
	defer func() { env.lateCancel = false }()
	return env.run(n, a, base)
}

// ---------------------------------------------------------------------------
// C07: the handshake asks for exactly the configured stream

func runC07(c *Ctx) {
	c.R.Rule = "server id class {0, 1, 2^31-1, 2^31, 2^32-1, random} x file-name class {short, long, arbitrary bytes} x offset class {4, small, 2^31.., 2^32-1} x attempt index on one streamer; distinct = distinct tuples"
	r := c.Rng
	base := libraryGoroutines()
	ids := []uint32{0, 1, 2147483647, 2147483648, 4294967295, 4000000000}
	n := c.N(12, 300)
	for k := 0; k < n; k++ {
		sid := ids[k%len(ids)]
		if k >= len(ids) && r.Bool() {
			sid = uint32(r.U64())
		}
		cfg := baseCfg(r, r.Intn(len(baseCfgs)))
		h := genHistory(r, cfg, histOpts{units: 4 + r.Intn(4), maxCols: 2, maxRows: 1, rotations: true, ignorables: false})
		// arbitrary file names
		nameClass := "short"
		switch k % 3 {
		case 1:
			nameClass = "long"
			renameFiles(h, func(i int) string { return fmt.Sprintf("%s.%06d", strings.Repeat("binlog-very-long-name", 8), i) })
		case 2:
			nameClass = "bytes"
			renameFiles(h, func(i int) string { return string(append(r.Bytes(1+r.Intn(20)), byte('0'+i))) })
		}
		if k%5 == 4 {
			// the empty file name is a file name too: COM_BINLOG_DUMP with "" asks for the master's first binlog
			nameClass = "empty-first"
			renameFiles(h, func(i int) string {
				if i == 1 {
					return ""
				}
				return fmt.Sprintf("bin.%06d", i)
			})
		}
		h.encode(c)
		if len(h.txs) < 2 {
			continue
		}
		env, err := newE2E(h.tables, sid, nil)
		if err != nil {
			c.R.Notes = append(c.R.Notes, "cannot listen: "+err.Error())
			return
		}
		f0, o0 := startOf(h)
		if k%4 == 3 {
			o0 = int64(uint32(0xfffffff0 + r.Intn(15))) // huge offset: served as "nothing more in this file"
		}
		env.s.SetBinlogPosition(gobinlog.Position{Filename: f0, Offset: o0})
		wantFile, wantOff := f0, o0
		natt := 1 + r.Intn(3)
		for att := 0; att <= natt; att++ {
			evs, _ := h.serve(c, wantFile, uint32(wantOff))
			a := e2eAttempt{events: evs, terminal: "eof", cancelInHandler: -1, holdAfter: -1}
			if att < natt && len(evs) > 3 {
				a.events = evs[:2+r.Intn(len(evs)-2)]
				a.terminal = r.PickS("close", "eof", "err", "reset")
			}
			// the master may refuse the dump request outright: its first and only answer is an ERR packet (1236: the
			// requested file or offset is gone; 1045 / 1227: not allowed) or EOF.  Still one request per attempt.
			if q := r.Side(); att < natt && (q.Chance(1, 4) || (k < 4 && att == 0)) {
				a.events = nil
				a.terminal = "err"
				a.errCode, a.errMsg = uint16(q.Pick(1236, 1236, 1236, 1045, 1227, 1105)), "Could not find first log file name in binary log index file"
				if k >= 4 && q.Chance(1, 4) {
					a.terminal = "eof"
				}
			}
			// the kind of context the caller passes must not change the request: plain cancel, or with a deadline
			a.deadlineCtx = r.Side().Chance(1, 2)
			// the master's answer to the checksum announcement of this attempt
			reply := "ok"
			if r.Chance(1, 4) {
				reply = r.PickS("rejected", "lost")
			}
			thisAtt, thisReply := att, reply
			env.m.mu.Lock()
			env.m.queryReply = func(idx int, sql string) string {
				if idx == thisAtt && thisReply != "ok" {
					return thisReply
				}
				return ""
			}
			env.m.mu.Unlock()
			res := env.run(att, a, base)
			if res.outcome == "panic" {
				c.R.Add(vh.Mismatch{Kind: "spec", What: "handshake: Stream panicked", Case: fmt.Sprintf("server id %d, attempt %d at %q:%d units=%v", sid, att, wantFile, wantOff, h.kinds), InDomain: true})
				break
			}
			// model of the handshake against what the master received
			{
				hs := c.M.Call(vh.L(vh.A("handshake"), vh.U(uint64(sid)), vh.L(vh.X([]byte(wantFile)), vh.I(wantOff)), vh.A(reply)))
				var obs []vh.Val
				qi, di := 0, 0
				for _, o := range res.order {
					switch o {
					case "query":
						if qi < len(res.queries) {
							obs = append(obs, vh.L(vh.A("query"), vh.X([]byte(res.queries[qi]))))
						}
						qi++
					case "dump":
						if di < len(res.dumps) {
							d := res.dumps[di]
							obs = append(obs, vh.L(vh.A("dump"), vh.U(uint64(d.Pos)), vh.U(uint64(d.Flags)), vh.U(uint64(d.ServerID)), vh.X([]byte(d.File))))
						}
						di++
					}
				}
				if os.Getenv("VH_DEBUG") != "" {
					fmt.Fprintf(os.Stderr, "k=%d att=%d reply=%s order=%v nconns=%d err=%v outcome=%s calls=%d term=%s nev=%d\n", k, att, reply, res.order, env.m.nconns(), res.streamErr, res.outcome, len(res.calls), a.terminal, len(a.events))
					for ci := 0; ci < env.m.nconns(); ci++ {
						fmt.Fprintf(os.Stderr, "    conn %d order=%v\n", ci, env.m.conn(ci).order)
					}
				}
				c.R.Dist["handshake_model_checked"]++
				c.R.Count("announcement-" + reply)
				c.R.Dist[fmt.Sprintf("caller-context-deadline-%v", a.deadlineCtx)]++
				hdesc := fmt.Sprintf("server id %d, attempt %d at %q:%d, master answers the announcement with %s", sid, att, wantFile, wantOff, reply)
				if res.returned && hs.Nth(0).String() != vh.L(obs...).String() {
					c.R.Add(vh.Mismatch{Kind: "corr", What: "handshake: the requests the master received differ from the model", Case: hdesc,
						Model: hs.Nth(0).String(), Impl: fmt.Sprintf("%s (Stream returned %v; %d connections so far)", vh.L(obs...).String(), res.streamErr, env.m.nconns()), InDomain: true})
				}
				if res.returned && reply != "ok" {
					if res.streamErr == nil {
						c.R.Add(vh.Mismatch{Kind: "spec", What: "handshake: Stream returned nil although the checksum announcement failed", Case: hdesc, InDomain: true})
					}
					if res.stored.Filename != wantFile || res.stored.Offset != wantOff {
						c.R.Add(vh.Mismatch{Kind: "spec", What: "handshake: a failed announcement changed the stored position", Case: hdesc,
							Expected: fmt.Sprintf("%q:%d", wantFile, wantOff), Impl: fmt.Sprintf("%q:%d", res.stored.Filename, res.stored.Offset), InDomain: true})
					}
					if res.errorRes == "blocked" {
						c.R.Add(vh.Mismatch{Kind: "spec", What: "handshake: Error() blocks after a failed announcement", Case: hdesc, InDomain: true})
					}
					continue
				}
			}
			sidc := "random"
			for _, x := range []uint32{0, 1, 2147483647, 2147483648, 4294967295} {
				if sid == x {
					sidc = fmt.Sprint(x)
				}
			}
			offc := "small"
			if wantOff == 4 {
				offc = "4"
			} else if wantOff >= 1<<31 {
				offc = ">=2^31"
			}
			c.R.Count(fmt.Sprintf("sid%s/name-%s/off-%s/attempt%d", sidc, nameClass, offc, att))
			desc := fmt.Sprintf("server id %d, attempt %d, expected dump at %q:%d", sid, att, wantFile, wantOff)
			if c.R.Evaluations%9 == 1 {
				c.R.Sample(desc)
			}
			if !res.returned {
				c.R.Add(vh.Mismatch{Kind: "spec", What: "handshake: Stream did not return", Case: desc, InDomain: true})
				break
			}
			okOrder := len(res.order) >= 2 && res.order[0] == "query" && res.order[1] == "dump"
			if !okOrder || len(res.queries) != 1 || res.queries[0] != "SET @master_binlog_checksum=@@global.binlog_checksum" {
				c.R.Add(vh.Mismatch{Kind: "spec", What: "handshake: checksum awareness not announced exactly once before the dump request", Case: desc,
					Expected: "query then dump", Impl: fmt.Sprintf("order=%v queries=%q", res.order, res.queries), InDomain: true})
			}
			if len(res.dumps) != 1 {
				c.R.Add(vh.Mismatch{Kind: "spec", What: "handshake: not exactly one binlog-dump request", Case: desc, Impl: fmt.Sprintf("%+v", res.dumps), InDomain: true})
			} else {
				d := res.dumps[0]
				if d.ServerID != sid || d.File != wantFile || int64(d.Pos) != wantOff || d.Flags != 0 {
					c.R.Add(vh.Mismatch{Kind: "spec", What: "handshake: the dump request does not carry the configured server id / current position / blocking flag", Case: desc,
						Expected: fmt.Sprintf("{Pos:%d Flags:0 ServerID:%d File:%q}", wantOff, sid, wantFile), Impl: fmt.Sprintf("%+v", d), InDomain: true})
				}
			}
			wantFile, wantOff = res.stored.Filename, res.stored.Offset
		}
		env.close()
	}
}

func renameFiles(h *history, f func(i int) string) {
	m := map[string]string{}
	for i, old := range h.files {
		m[old] = f(i + 1)
		h.files[i] = m[old]
	}
	for i := range h.events {
		e := &h.events[i]
		e.file = m[e.file]
		if e.kind == "rotate" || e.kind == "fakerotate" {
			// (rotate pos name)
			oldName, _ := e.body.Nth(2).Hex()
			e.body = vh.L(e.body.Nth(0), e.body.Nth(1), vh.X([]byte(m[string(oldName)])))
		}
	}
	fc := map[string]Cfg{}
	for old, c := range h.fileCfg {
		fc[m[old]] = c
	}
	h.fileCfg = fc
	for i := range h.txs {
		h.txs[i].nowFile = m[h.txs[i].nowFile]
		h.txs[i].nextFile = m[h.txs[i].nextFile]
	}
}

// ---------------------------------------------------------------------------
// C08: delivered transactions are stable and private

func runC08(c *Ctx) {
	c.R.Rule = "histories with view-typed columns (strings, blobs, bits, sets), rendered JSON documents and zero timestamps x packet sizes around the driver's buffer sizes (4096, 256K) x pacing (later packets before / after the handler returns) x handler {reads, scribbles}; distinct = (column-type set class, packet-size class, pacing, scribble) with >= 2 deliveries"
	r := c.Rng
	provenanceCorrespondence(c)
	base := libraryGoroutines()
	n := c.N(7, 120)
	for k := 0; k < n; k++ {
		cfg := baseCfg(r, k)
		big := []int{0, 4000, 4090, 5000, 262000, 70000, 270000}[k%7]
		if !c.Thorough() && big == 270000 {
			big = 4100
		}
		h := genAliasHistory(r, cfg, big)
		h.encode(c)
		if len(h.txs) < 2 {
			continue
		}
		f0, o0 := startOf(h)
		evs, _ := h.serve(c, f0, uint32(o0))
		exp := strs(h.expectedTxVals(c, h.txs, f0, uint32(o0)))
		for _, scribble := range []bool{false, true} {
			for _, ahead := range []bool{true, false} {
				if !c.Thorough() && big >= 70000 && scribble == ahead {
					continue
				}
				env, err := newE2E(h.tables, 5, nil)
				if err != nil {
					c.R.Notes = append(c.R.Notes, "cannot listen: "+err.Error())
					return
				}
				env.s.SetBinlogPosition(gobinlog.Position{Filename: f0, Offset: o0})
				a := e2eAttempt{events: evs, terminal: "eof", cancelInHandler: -1, holdAfter: -1, scribble: scribble}
				if ahead {
					a.slowHandler = 5 * time.Millisecond // later packets arrive while the handler still holds the transaction
				}
				res := env.run(0, a, base)
				env.close()
				sizeClass := "small"
				if big >= 262000 {
					sizeClass = ">=256K"
				} else if big >= 70000 {
					sizeClass = ">64K"
				} else if big > 0 {
					sizeClass = "~4096"
				}
				c.R.Count(fmt.Sprintf("%s/size-%s/ahead%v/scribble%v", cfg.Key(), sizeClass, ahead, scribble))
				desc := fmt.Sprintf("cfg=%s units=%v bigValue=%d ahead=%v scribble=%v", cfg, h.kinds, big, ahead, scribble)
				if !res.returned || res.outcome != "end" {
					c.R.Add(vh.Mismatch{Kind: "spec", What: "stability: stream did not complete", Case: desc, Impl: res.outcome, InDomain: true})
					continue
				}
				// (b) what was read at delivery time is what the master logged, whatever earlier handlers overwrote
				if !eqStrs(exp, res.snapshots) {
					what := "stability: a delivered value differs from the logged value"
					if scribble {
						what = "isolation: overwriting the bytes of delivered values changed a value delivered later"
					}
					c.R.Add(vh.Mismatch{Kind: "spec", What: what, Case: desc, Expected: fmt.Sprint(len(exp)), Impl: firstDiff(exp, res.snapshots), InDomain: true})
					continue
				}
				// (a) reading the same objects again after the stream ended gives the same contents
				if !scribble {
					for i, t := range res.txs {
						if now := txVal(t).String(); now != res.snapshots[i] {
							c.R.Add(vh.Mismatch{Kind: "spec", What: "stability: a delivered transaction changed after delivery", Case: desc,
								Expected: vh.Sprintf("%.600s", res.snapshots[i]), Impl: vh.Sprintf("%.600s", now), InDomain: true})
							break
						}
					}
				}
				// (c) provenance: no delivered value is the package-level zero-timestamp slice; distinct values do not share memory
				checkProvenance(c, desc, res.txs)
			}
		}
	}
}

func genAliasHistory(r *vh.Rng, cfg Cfg, big int) *history {
	// with file switches (a rotation, a restart) between the transactions: what the library does at a switch must not
	// reach into the transaction it delivered before it
	h := genHistory(r, cfg, histOpts{units: 5 + r.Intn(4), maxCols: 1, maxRows: 3, rotations: true, ignorables: false, sameFormat: true,
		kindsOnly: []string{"txXid", "autoRows", "txCommit", "txXid", "autoRows", "rotation", "restart"}})
	// replace the tables' columns by view-typed ones and zero timestamps
	for ti := range h.tables {
		t := &h.tables[ti]
		t.cols = nil
		mk := func(ty vh.Val, key string, gen func(r *vh.Rng) vh.Val) {
			t.cols = append(t.cols, colDef{ty: ty, key: key, nullable: true, field: fmt.Sprintf("v%d", len(t.cols)), gen: gen})
		}
		mk(sym("varchar", 65535, 0), "varchar", func(r *vh.Rng) vh.Val { return randBytesVal(r, r.Intn(30)) })
		mk(sym("blob", 4, 252), "blob", func(r *vh.Rng) vh.Val {
			n := r.Intn(50)
			if big > 0 && r.Chance(1, 2) {
				n = big + r.Intn(200)
			}
			return randBytesVal(r, n)
		})
		mk(sym("timestamp"), "timestamp", func(r *vh.Rng) vh.Val { return sym("ts", int64(r.Pick(0, 0, 86400*365)), 0) })
		mk(sym("ts2", 0), "timestamp2", func(r *vh.Rng) vh.Val { return sym("ts", int64(r.Pick(0, 0, 86400*365)), 0) })
		mk(sym("ts2", 3), "timestamp2", func(r *vh.Rng) vh.Val { return sym("ts", 0, 0) })
		mk(sym("bit", 20), "bit", func(r *vh.Rng) vh.Val {
			return vh.L(vh.A("bits"), vh.X([]byte{byte(r.Intn(16)), byte(r.U64()), byte(r.U64())}))
		})
		mk(sym("set", 2, 1), "set", func(r *vh.Rng) vh.Val { return vh.L(vh.A("set"), vh.U(r.U64()%65536)) })
		mk(sym("char", 255), "char", func(r *vh.Rng) vh.Val { return randBytesVal(r, r.Intn(20)) })
		mk(sym("geo", 2), "geometry", func(r *vh.Rng) vh.Val { return randBytesVal(r, 25) })
		mk(sym("long"), "long", func(r *vh.Rng) vh.Val { return sym("int", int64(r.Intn(1000))) })
		mk(sym("json", 4), "json", func(r *vh.Rng) vh.Val { return jsonCellVal(r, 4) }) // rendered into a fresh buffer: must not be shared or recycled
		// every other type too, with small value domains, so that equal values recur within and across transactions:
		// a value handed out from a shared table or a recycled buffer is then overwritten where a later delivery sees it
		small := func(ty vh.Val, key string, uns bool, gen func(r *vh.Rng) vh.Val) {
			t.cols = append(t.cols, colDef{ty: ty, key: key, uns: uns, nullable: true, field: fmt.Sprintf("v%d", len(t.cols)), gen: gen})
		}
		small(sym("tiny"), "tiny", true, func(r *vh.Rng) vh.Val { return sym("int", int64(r.Pick(0, 1, 42, 200))) })
		small(sym("tiny"), "tiny", false, func(r *vh.Rng) vh.Val { return sym("int", int64(r.Pick(0, 1, 42, -3))) })
		small(sym("enum", 1, 0), "enum", false, func(r *vh.Rng) vh.Val { return vh.L(vh.A("enum"), vh.U(uint64(r.Pick(1, 2, 3)))) })
		small(sym("enum", 1, 1), "enum", false, func(r *vh.Rng) vh.Val { return vh.L(vh.A("enum"), vh.U(uint64(r.Pick(1, 2, 3)))) })
		small(sym("year"), "year", false, func(r *vh.Rng) vh.Val { return sym("year", int64(r.Pick(0, 100, 120))) })
		for _, kase := range []int{1, 3, 5, 6, 11, 12, 13, 14, 15} {
			cd := genColumnCase(r, len(t.cols), kase)
			cd.nullable, cd.field = true, fmt.Sprintf("v%d", len(t.cols))
			t.cols = append(t.cols, cd)
		}
	}
	// regenerate the rows with the new columns
	for i := range h.events {
		e := &h.events[i]
		if e.kind == "tablemap" {
			e.body = e.table.bodyVal()
		} else if e.kind == "rows" {
			rd := genRows(r, *e.table, e.rows.kind, 1+r.Intn(3), cfg)
			*e.rows = rd
			e.body = rd.bodyVal(*e.table)
		}
	}
	// the oracle's images point at the old rows: rebuild them
	for ti := range h.txs {
		tx := &h.txs[ti]
		ei := 0
		for j := range h.events {
			e := &h.events[j]
			if e.unit == tx.unit && e.kind == "rows" && ei < len(tx.events) {
				for ei < len(tx.events) && tx.events[ei].tbl == nil {
					ei++
				}
				if ei < len(tx.events) {
					tx.events[ei].ids, tx.events[ei].vals = e.rows.before, e.rows.after
					ei++
				}
			}
		}
	}
	return h
}

func checkProvenance(c *Ctx, desc string, txs []*gobinlog.Transaction) {
	type span struct{ lo, hi uintptr }
	var spans []span
	zlo := uintptr(unsafe.Pointer(unsafe.SliceData(replication.ZeroTimestamp)))
	zhi := zlo + uintptr(cap(replication.ZeroTimestamp))
	for _, t := range txs {
		for _, e := range t.Events {
			for _, rows := range [][]*gobinlog.RowData{e.RowValues, e.RowIdentifies} {
				for _, rd := range rows {
					for _, col := range rd.Columns {
						if len(col.Data) == 0 {
							continue
						}
						lo := uintptr(unsafe.Pointer(unsafe.SliceData(col.Data)))
						hi := lo + uintptr(len(col.Data))
						if lo < zhi && zlo < hi {
							c.R.Add(vh.Mismatch{Kind: "spec", What: "isolation: a delivered value aliases the shared zero-timestamp constant", Case: desc, Impl: string(col.Data), InDomain: true})
							return
						}
						for _, s := range spans {
							if lo < s.hi && s.lo < hi {
								c.R.Add(vh.Mismatch{Kind: "spec", What: "isolation: two delivered values share memory", Case: desc, Impl: fmt.Sprintf("%q", col.Data), InDomain: true})
								return
							}
						}
						spans = append(spans, span{lo, hi})
					}
				}
			}
		}
	}
}

// provenanceCorrespondence: for arbitrary cells, the implementation's returned slice is the sub-slice
// data[start:start+len] exactly when the model says "view", and otherwise overlaps neither the input nor the
// ZeroTimestamp constant.
func provenanceCorrespondence(c *Ctx) {
	r := c.Rng
	types := []byte{1, 2, 3, 4, 5, 7, 8, 9, 10, 11, 12, 13, 14, 15, 16, 17, 18, 19, 246, 247, 248, 249, 250, 251, 252, 253, 254, 255}
	cases := genRawCells(c, types, c.N(3000, 60000))
	// zero timestamps explicitly
	for k := 0; k < 200; k++ {
		d := make([]byte, 8)
		copy(d[4:], r.Bytes(4))
		cases = append(cases, rawCellCase{d, 0, []byte{7, 17}[k%2], uint16(k % 7), false, "raw/zero-timestamp"})
	}
	reqs := make([]vh.Val, len(cases))
	for i, cs := range cases {
		reqs[i] = vh.L(vh.A("cell_view"), vh.X(cs.data), vh.I(int64(cs.pos)), vh.I(int64(cs.typ)), vh.I(int64(cs.meta)))
	}
	resps := c.M.Batch(reqs)
	zlo := uintptr(unsafe.Pointer(unsafe.SliceData(replication.ZeroTimestamp)))
	zhi := zlo + uintptr(cap(replication.ZeroTimestamp))
	for i, cs := range cases {
		data := vh.Exact(cs.data)
		var val []byte
		ok := false
		func() {
			defer func() { recover() }()
			v, _, err := replication.CellBytes(data, cs.pos, cs.typ, cs.meta, cs.uns)
			if err == nil {
				val, ok = v, true
			}
		}()
		m := resps[i]
		class := "provenance/fresh"
		if m.Nth(0).Atom == "view" {
			class = "provenance/view"
		}
		c.R.Count(fmt.Sprintf("%s/type%d", class, cs.typ))
		if !ok {
			if m.Nth(0).Atom == "view" {
				c.R.Add(vh.Mismatch{Kind: "corr", What: "provenance: model says view but the implementation fails", Case: reqs[i].String(), Model: m.String()})
			}
			continue
		}
		dlo := uintptr(0)
		if len(data) > 0 {
			dlo = uintptr(unsafe.Pointer(unsafe.SliceData(data)))
		}
		dhi := dlo + uintptr(len(data))
		vlo := uintptr(0)
		if cap(val) > 0 {
			vlo = uintptr(unsafe.Pointer(unsafe.SliceData(val)))
		}
		vhi := vlo + uintptr(len(val))
		if m.Nth(0).Atom == "view" {
			a, _ := m.Nth(1).Int()
			n, _ := m.Nth(2).Int()
			if int64(len(val)) != n || (n > 0 && vlo != dlo+uintptr(a)) {
				c.R.Add(vh.Mismatch{Kind: "corr", What: "provenance: the delivered value is not the sub-slice the model names", Case: reqs[i].String(), Model: m.String(), Impl: fmt.Sprintf("len=%d offset=%d", len(val), int64(vlo)-int64(dlo))})
			}
		} else if len(val) > 0 {
			if len(data) > 0 && vlo < dhi && dlo < vhi {
				c.R.Add(vh.Mismatch{Kind: "corr", What: "provenance: a value the model calls fresh aliases the row image", Case: reqs[i].String(), Model: m.String(), Impl: fmt.Sprintf("offset=%d", int64(vlo)-int64(dlo))})
			}
			if vlo < zhi && zlo < vhi {
				c.R.Add(vh.Mismatch{Kind: "spec", What: "isolation: a delivered value aliases the shared zero-timestamp constant", Case: reqs[i].String(), Impl: string(val), InDomain: true})
			}
		}
	}
}

// unknownTableRows: a well-formed rows event of the history re-addressed to a table id that no table map announced
// (ids at the edges of the id space and ids that look like sentinels included).
func unknownTableRows(c *Ctx, h *history) []byte {
	r := c.Rng
	for i := range h.events {
		e := &h.events[i]
		if e.kind != "rows" || len(e.rows.before)+len(e.rows.after) == 0 {
			continue
		}
		ids := []uint64{0xffffff, 0x1ffffff, 0x2affffff, 0xffffffff, 0xfffffe, 0x1000000, 1, uint64(uint32(r.U64())) | 0xffffff, uint64(uint32(r.U64()))}
		if !e.cfg.Tid4 {
			ids = append(ids, 0xffffffffffff, 0x0300ffffff, r.U64()&0xffffffffffff)
		}
		t2 := *e.table
		t2.id = ids[r.Intn(len(ids))]
		for _, t := range h.tables {
			if t.id == t2.id {
				t2.id++
			}
		}
		c.R.Dist[fmt.Sprintf("unknown-table-id/low24set%v", t2.id&0xffffff == 0xffffff)]++
		resp := c.M.Call(mkEventReq(e.cfg, Hdr{TS: e.ts, SID: 7, Next: 0}, e.rows.bodyVal(t2), r.Bytes(4)))
		b, _ := resp.Nth(0).Hex()
		return b
	}
	return nil
}
