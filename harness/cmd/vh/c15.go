package main

import (
	"fmt"

	"github.com/Breeze0806/gobinlog/replication"
	"verif/harness/internal/vh"
)

func init() { runners["C15"] = runC15 }

type fmtInfo struct {
	ev  []byte
	val vh.Val // (version server hlen alg sizes)
	f   replication.BinlogFormat
}

// mkFormat asks the specification encoder for a format description event of cfg.
func mkFormat(c *Ctx, cfg Cfg, version []byte) fmtInfo {
	resp := c.M.Call(mkEventReq(cfg, Hdr{TS: 1, SID: 1}, vh.L(vh.A("format"), vh.X(version)), []byte{1, 2, 3, 4}))
	ev, _ := resp.Nth(0).Hex()
	v := vh.L(resp.List[1:]...)
	return fmtInfo{ev: ev, val: v, f: implFormat(v)}
}

func stripImpl(f replication.BinlogFormat, ev []byte) (replication.BinlogEvent, bool) {
	e := replication.NewMysql56BinlogEvent(vh.Exact(ev))
	var out replication.BinlogEvent
	ok := true
	func() {
		defer func() {
			if recover() != nil {
				ok = false
			}
		}()
		s, _, err := e.StripChecksum(f)
		if err != nil {
			ok = false
			return
		}
		out = replication.NewMysql56BinlogEvent(vh.Exact(s.Bytes()))
	}()
	return out, ok
}

func implTableMap(f replication.BinlogFormat, ev replication.BinlogEvent) vh.Val {
	return vh.Try(func() vh.Val {
		tm, err := ev.TableMap(f)
		if err != nil {
			return vh.ErrV(decErrClass(err))
		}
		return vh.Ok(tableMapVal(tm)...)
	})
}

func implTableID(f replication.BinlogFormat, ev replication.BinlogEvent) vh.Val {
	return vh.Try(func() vh.Val { return vh.Ok(vh.U(ev.TableID(f))) })
}

func colCountClass(n int) string {
	switch {
	case n == 1:
		return "1col"
	case n <= 8:
		return "2-8cols"
	case n < 251:
		return "9-250cols"
	case n < 300:
		return "251-299cols"
	default:
		return ">=300cols"
	}
}

func runC15(c *Ctx) {
	c.R.Rule = "table maps per (stream configuration, column-count class incl. >= 251, number of type families, trailing optional metadata, arbitrary-name flag) and streamer attribution scenarios per (re-announcement kind, position in/across transactions); distinct = distinct tuples"
	r := c.Rng
	// (a) codec
	n := c.N(120, 2500)
	for k := 0; k < n; k++ {
		cfg := randCfg(r)
		fi := mkFormat(c, cfg, []byte("5.7.1-log"))
		nc := r.Pick(1, 2, 3, 8, 9, 17, 40, 250, 251, 252, 300, 1+r.Intn(30), 1+r.Intn(30), 1+r.Intn(30))
		if c.Thorough() && r.Chance(1, 30) {
			nc = 300 + r.Intn(301)
		}
		t := genTable(r, nc, cfg)
		h := randHdr(r)
		req := mkEventReq(cfg, h, t.bodyVal(), r.Bytes(4))
		resp := c.M.Call(req)
		ev, _ := resp.Nth(0).Hex()
		expect := vh.Ok(resp.List[1:]...)
		class := fmt.Sprintf("codec/%s/%s/%s/opt%v", cfg.Key(), colCountClass(nc), t.typeKeys(), len(t.optional) > 0)
		c.R.Count(class)
		c.R.Dist[cfg.PadKey()]++
		if k%40 == 0 {
			c.R.Sample(vh.Sprintf("table map: cfg=%s cols=%d id=%d event=%d bytes", cfg, nc, t.id, len(ev)))
		}
		sev, ok := stripImpl(fi.f, ev)
		if !ok {
			c.R.Add(vh.Mismatch{Kind: "spec", What: "StripChecksum failed on a well-formed table-map event", Case: req.String(), InDomain: true})
			continue
		}
		model := c.M.Call(vh.L(vh.A("table_map"), fi.val, vh.X(sev.Bytes())))
		impl := implTableMap(fi.f, sev)
		if impl.String() != expect.String() {
			c.R.Add(vh.Mismatch{Kind: "spec", What: "TableMap differs from the schema the master logged", Case: req.String(), Input: vh.Sprintf("%x", ev),
				Expected: expect.String(), Model: model.String(), Impl: impl.String(), InDomain: true})
		}
		if impl.String() != model.String() {
			c.R.Add(vh.Mismatch{Kind: "corr", What: "TableMap differs from the model", Case: req.String(), Input: vh.Sprintf("%x", ev), Model: model.String(), Impl: impl.String(), InDomain: true})
		}
		id := implTableID(fi.f, sev)
		if id.String() != vh.Ok(vh.U(t.id)).String() {
			c.R.Add(vh.Mismatch{Kind: "spec", What: "TableID differs from the id the master logged", Case: req.String(), Expected: vh.Ok(vh.U(t.id)).String(), Impl: id.String(), InDomain: true})
		}
		// malformed stream: truncations and single-byte corruptions of the same event (model vs implementation only)
		if k%4 == 0 {
			body := sev.Bytes()
			for j := 0; j < 6; j++ {
				b := append([]byte{}, body...)
				kind := "truncated"
				if r.Bool() && len(b) > 20 {
					b = b[:19+r.Intn(len(b)-19)]
				} else if len(b) > 20 {
					b[19+r.Intn(len(b)-19)] = byte(r.U64())
					kind = "corrupted"
				}
				me := replication.NewMysql56BinlogEvent(vh.Exact(b))
				mm := c.M.Call(vh.L(vh.A("table_map"), fi.val, vh.X(b)))
				mi := implTableMap(fi.f, me)
				c.R.Count("codec-malformed/" + kind)
				if mm.String() != mi.String() {
					c.R.Add(vh.Mismatch{Kind: "corr", What: "TableMap differs from the model on a malformed event", Case: vh.Sprintf("(table_map %s x%x)", fi.val, b), Model: mm.String(), Impl: mi.String()})
				}
			}
		}
	}
	// readLenEncInt / metadataRead directly
	for k := 0; k < c.N(300, 20000); k++ {
		d := r.Bytes(r.Intn(12))
		if len(d) > 0 && r.Chance(1, 2) {
			d[0] = byte(r.Pick(0, 1, 250, 251, 252, 253, 254, 255))
		}
		pos := r.Intn(len(d) + 2)
		m := c.M.Call(vh.L(vh.A("lenenc"), vh.X(d), vh.I(int64(pos))))
		i := vh.Try(func() vh.Val {
			v, np, ok := replication.VerifReadLenEncInt(vh.Exact(d), pos)
			if !ok {
				return vh.Ok(vh.A("notok"))
			}
			return vh.Ok(vh.U(v), vh.I(int64(np)))
		})
		c.R.Count("lenenc")
		if m.String() != i.String() {
			c.R.Add(vh.Mismatch{Kind: "corr", What: "readLenEncInt differs from the model", Case: vh.Sprintf("(lenenc x%x %d)", d, pos), Model: m.String(), Impl: i.String()})
		}
		t := allTypeCodes[r.Intn(len(allTypeCodes))]
		m = c.M.Call(vh.L(vh.A("metadata_read"), vh.X(d), vh.I(int64(pos)), vh.I(int64(t))))
		i = vh.Try(func() vh.Val {
			v, np, err := replication.VerifMetadataRead(vh.Exact(d), pos, t)
			if err != nil {
				return vh.ErrV(decErrClass(err))
			}
			return vh.Ok(vh.I(int64(v)), vh.I(int64(np)))
		})
		c.R.Count("metadata_read")
		if m.String() != i.String() {
			c.R.Add(vh.Mismatch{Kind: "corr", What: "metadataRead differs from the model", Case: vh.Sprintf("(metadata_read x%x %d %d)", d, pos, t), Model: m.String(), Impl: i.String()})
		}
	}
	// (b) attribution through the streamer
	runAttribution(c, "C15", c.N(25, 500))
	runReshaped(c)
	runRetyped(c, "C15")
}

// runAttribution: table-id re-announcements inside and across transactions, and mapper disagreements.
func runAttribution(c *Ctx, prop string, nh int) {
	r := c.Rng
	for hi := 0; hi < nh; hi++ {
		cfg := baseCfg(r, r.Intn(len(baseCfgs)))
		o := histOpts{units: 3 + r.Intn(6), maxCols: 3, maxRows: 2, rotations: hi%4 == 0, ignorables: false,
			kindsOnly: []string{"txXid", "txCommit", "autoRows", "ddl", "txRollback"}}
		h := genHistory(r, cfg, o)
		// several tables share one table id: every table map re-announces the id, possibly for another table
		mode := []string{"distinct-ids", "shared-id", "two-ids", "shared-id-same-name-other-db", "shared-id-same-db-other-name", "boundary-ids", "shared-id-names-differ-in-case"}[hi%7]
		edge := []uint64{0xffffff, 0xffffffff, 0, 1, 0xfffffe, 0x1000000, 0x7fffffff, 0x80000000}
		if !cfg.Tid4 {
			edge = append(edge, 0xffffffffffff, 0x100000000, 0xffffffffff)
		}
		r.Shuffle(len(edge), func(a, b int) { edge[a], edge[b] = edge[b], edge[a] })
		for i := range h.tables {
			switch mode {
			case "boundary-ids":
				// ids at the edges of the 4- / 6-byte id space (all-ones values look like sentinels, but are ids)
				h.tables[i].id = edge[i%len(edge)]
			case "shared-id":
				h.tables[i].id = 77
			case "two-ids":
				h.tables[i].id = uint64(77 + i%2)
			case "shared-id-same-name-other-db":
				h.tables[i].id = 77
				h.tables[i].db, h.tables[i].name = fmt.Sprintf("shop_%d", i), "orders"
			case "shared-id-same-db-other-name":
				h.tables[i].id = 77
				h.tables[i].db, h.tables[i].name = "shop", fmt.Sprintf("orders_%d", i)
			case "shared-id-names-differ-in-case":
				// distinct tables on a case-sensitive master (`shop`.`Orders` is not `shop`.`orders`)
				h.tables[i].id = 77
				h.tables[i].db, h.tables[i].name = []string{"shop", "Shop", "shop"}[i%3], []string{"Orders", "orders", "orders"}[i%3]
			}
		}
		// the oracle's expected events carry the table names: refresh them
		for ti := range h.txs {
			for ei := range h.txs[ti].events {
				if ev := &h.txs[ti].events[ei]; ev.tbl != nil {
					ev.db, ev.table = ev.tbl.db, ev.tbl.name
				}
			}
		}
		// event bodies were built with the old ids: rebuild them
		for i := range h.events {
			e := &h.events[i]
			if e.kind == "tablemap" {
				e.body = e.table.bodyVal()
			} else if e.kind == "rows" {
				e.body = e.rows.bodyVal(*e.table)
			}
		}
		h.encode(c)
		c.R.Count(fmt.Sprintf("attribution/%s/tables%d/rot%v", mode, len(h.tables), o.rotations))
		checkFullRun(c, prop, h, "attribution")
		// a mapper table whose column count disagrees is rejected, nothing from it is delivered
		if prop == "C15" && hi%2 == 0 && len(h.txs) > 0 {
			f0, o0 := startOf(h)
			a := fullAttempt(h, c, f0, o0)
			t := h.tables[r.Intn(len(h.tables))]
			key := t.db + "." + t.name
			a.mapper = &hMapper{tables: h.tables, extraFor: key}
			ir := compareAttempt(c, "C15", "mismatch", a, mapperValsFor(h.tables, "", key), true)
			used := false
			for _, e := range h.events {
				if e.kind == "tablemap" && e.table.db == t.db && e.table.name == t.name {
					used = true
				}
			}
			c.R.Count(fmt.Sprintf("mismatch/used%v", used))
			if used && ir.outcome != "mismatch" {
				c.R.Add(vh.Mismatch{Kind: "spec", What: "mismatch: a mapper table with a different column count was not rejected", Case: fmt.Sprintf("units=%v table=%s", h.kinds, key), Impl: ir.outcome, InDomain: true})
			}
			for _, cl := range ir.calls {
				if containsTable(cl, t.db, t.name) && used {
					// deliveries that mention the table must all precede its first table map; the model comparison covers the details
					_ = cl
				}
			}
			var sf []byte
			sf, _ = ir.stored.Nth(0).Hex()
			if used && !knownFile(h, string(sf)) {
				c.R.Add(vh.Mismatch{Kind: "spec", What: "mismatch: the position kept after rejecting the table is not a position of the binlog", Case: fmt.Sprintf("units=%v table=%s", h.kinds, key), Impl: ir.stored.String(), InDomain: true})
			}
		}
	}
}

// runReshaped: one table id announced again and again for the SAME database.table, with table maps of different
// shapes (the table was altered; the mapper still answers with the first shape).  A rows event whose column count
// disagrees with the mapper's table must end the stream with an error - nothing of it may be delivered under the
// mapper's column names - and until then everything is attributed as usual.
func runReshaped(c *Ctx) {
	r := c.Rng
	for hi := 0; hi < c.N(12, 200); hi++ {
		cfg := baseCfg(r, r.Intn(len(baseCfgs)))
		o := histOpts{units: 3 + r.Intn(5), maxCols: 4, maxRows: 2, rotations: false, ignorables: false,
			kindsOnly: []string{"txXid", "txCommit", "autoRows", "ddl"}}
		h := genHistory(r, cfg, o)
		if len(h.tables) < 2 {
			continue
		}
		for i := range h.tables {
			h.tables[i].id, h.tables[i].db, h.tables[i].name = 77, "shop", "orders"
		}
		for i := range h.events {
			e := &h.events[i]
			if e.kind == "tablemap" {
				e.body = e.table.bodyVal()
			} else if e.kind == "rows" {
				e.body = e.rows.bodyVal(*e.table)
			}
		}
		h.encode(c)
		f0, o0 := startOf(h)
		a := fullAttempt(h, c, f0, o0)
		ir := compareAttempt(c, "C15", "reshaped", a, h.mapperVals(), true)
		// the first rows event (with at least one row) of a table whose column count differs from the mapper's answer
		n0 := len(h.tables[0].cols)
		expectErr, same := false, true
		for _, e := range h.events {
			if e.kind == "rows" && len(e.table.cols) != n0 {
				same = false
				if len(e.rows.before)+len(e.rows.after) > 0 {
					expectErr = true
				}
			}
		}
		c.R.Count(fmt.Sprintf("reshaped/tables%d/differs%v/rows%v", len(h.tables), !same, expectErr))
		if expectErr && ir.outcome == "end" {
			c.R.Add(vh.Mismatch{Kind: "spec", What: "reshaped: rows of a table map whose column count differs from the mapper's table were delivered instead of rejected",
				Case: fmt.Sprintf("cfg=%s units=%v column counts=%v", cfg, h.kinds, colCounts(h.tables)), Impl: ir.outcome, InDomain: true})
		}
	}
}

// runRetyped: one table id announced again for the SAME database.table with the same number of columns but other column
// types / metadata (ALTER TABLE ... MODIFY between two statements): every rows event is split and decoded with the table
// map in force when it arrives - the length rule (Rows) and the value decoder (the streamer's column walk) must keep
// agreeing on the size of each cell, so nothing of the earlier shape may survive in a per-table cache.
func runRetyped(c *Ctx, prop string) {
	r := c.Rng
	want, done := c.N(10, 150), 0
	for hi := 0; hi < 20*want && done < want; hi++ {
		cfg := baseCfg(r, r.Intn(len(baseCfgs)))
		o := histOpts{units: 4 + r.Intn(5), maxCols: 4, maxRows: 2, rotations: hi%3 == 0, ignorables: false, sameColCount: true,
			kindsOnly: []string{"txXid", "txCommit", "autoRows", "ddl"}}
		h := genHistory(r, cfg, o)
		if len(h.tables) < 2 {
			continue
		}
		// only histories in which rows events of at least two different shapes occur (with at least one row each)
		used := map[string]bool{}
		for _, e := range h.events {
			if e.kind == "rows" && len(e.rows.before)+len(e.rows.after) > 0 {
				used[e.table.typeKeys()] = true
			}
		}
		if len(used) < 2 {
			continue
		}
		done++
		for i := range h.tables {
			h.tables[i].id, h.tables[i].db, h.tables[i].name = 4242, "shop", "orders"
			for j := range h.tables[i].cols {
				// the mapper answers with one table: same column names and signedness in every shape
				h.tables[i].cols[j].field = h.tables[0].cols[j].field
			}
		}
		for i := range h.events {
			e := &h.events[i]
			if e.kind == "tablemap" {
				e.body = e.table.bodyVal()
			} else if e.kind == "rows" {
				e.body = e.rows.bodyVal(*e.table)
			}
		}
		h.encode(c)
		f0, o0 := startOf(h)
		a := fullAttempt(h, c, f0, o0)
		shapes := map[string]bool{}
		for _, e := range h.events {
			if e.kind == "rows" {
				shapes[e.table.typeKeys()] = true
			}
		}
		c.R.Count(fmt.Sprintf("retyped/tables%d/shapes-used%d", len(h.tables), len(shapes)))
		compareAttempt(c, prop, "retyped", a, h.mapperVals(), true)
	}
}

func colCounts(ts []tableDef) []int {
	out := make([]int, len(ts))
	for i, t := range ts {
		out[i] = len(t.cols)
	}
	return out
}

func containsTable(v vh.Val, db, name string) bool {
	s := v.String()
	return len(s) > 0 && len(db) > 0 && len(name) > 0 && (stringsContains(s, vh.X([]byte(db)).String()) && stringsContains(s, vh.X([]byte(name)).String()))
}

func stringsContains(s, sub string) bool {
	for i := 0; i+len(sub) <= len(s); i++ {
		if s[i:i+len(sub)] == sub {
			return true
		}
	}
	return false
}
