package main

import (
	"fmt"
	"math/big"
	"strings"

	"github.com/Breeze0806/gobinlog/replication"
	"verif/harness/internal/vh"
)

// Cfg mirrors Spec.EncEvent.cfg.  PadCols / PadNull / PadTM are the padding patterns (c_pad_cols, c_pad_null,
// c_pad_tm): bit k of the byte is what the master leaves in an unused high bit k of the last byte of a
// columns-present bitmap / a row's NULL bitmap / a table map's nullable-columns bitmap.
type Cfg struct {
	CRC, V2, Tid4           bool
	HLen, NSizes            int
	PadCols, PadNull, PadTM int
}

// Val: five elements when every pattern is 0 (the request format of before), eight otherwise.
func (c Cfg) Val() vh.Val {
	vs := []vh.Val{vh.B(c.CRC), vh.B(c.V2), vh.B(c.Tid4), vh.I(int64(c.HLen)), vh.I(int64(c.NSizes))}
	if c.PadCols != 0 || c.PadNull != 0 || c.PadTM != 0 {
		vs = append(vs, vh.I(int64(c.PadCols)), vh.I(int64(c.PadNull)), vh.I(int64(c.PadTM)))
	}
	return vh.L(vs...)
}

func (c Cfg) String() string {
	return fmt.Sprintf("crc%v/v2%v/tid4%v/h%d/n%d/pad%02x.%02x.%02x", c.CRC, c.V2, c.Tid4, c.HLen, c.NSizes, c.PadCols, c.PadNull, c.PadTM)
}

func padClass(p int) string {
	switch p {
	case 0:
		return "00"
	case 255:
		return "ff"
	}
	return "xx"
}

// PadKey classifies the padding patterns (presence.null.tablemap, each 00 | ff | xx).  It is not part of Key():
// the classes of the properties would multiply by 27; the runners count it in the distribution instead.
func (c Cfg) PadKey() string {
	return "pad:" + padClass(c.PadCols) + "." + padClass(c.PadNull) + "." + padClass(c.PadTM)
}

// withPads draws the padding patterns: all 0 (1/8), all ones (2/8), what a MySQL master leaves (2/8: ones in
// the rows' NULL bitmaps, zeros in the table map, zeros or ones in the presence bitmaps), three random
// bytes (3/8).  The draw uses a side stream of r: the other choices of the run are the same as without it.
func (c Cfg) withPads(r *vh.Rng) Cfg {
	q := r.Side()
	switch q.Intn(8) {
	case 0:
		c.PadCols, c.PadNull, c.PadTM = 0, 0, 0
	case 1, 2:
		c.PadCols, c.PadNull, c.PadTM = 255, 255, 255
	case 3:
		c.PadCols, c.PadNull, c.PadTM = 0, 255, 0
	case 4:
		c.PadCols, c.PadNull, c.PadTM = 255, 255, 0
	default:
		c.PadCols, c.PadNull, c.PadTM = q.Intn(256), q.Intn(256), q.Intn(256)
	}
	return c
}

// baseCfg is baseCfgs[i mod len] with padding patterns drawn.
func baseCfg(r *vh.Rng, i int) Cfg { return baseCfgs[i%len(baseCfgs)].withPads(r) }

func (c Cfg) Key() string {
	k := "crc0"
	if c.CRC {
		k = "crc1"
	}
	if c.V2 {
		k += "/v2"
	} else {
		k += "/v1"
	}
	if c.Tid4 {
		k += "/tid4"
	} else {
		k += "/tid6"
	}
	return k
}

var baseCfgs = []Cfg{
	{CRC: false, V2: true, Tid4: false, HLen: 19, NSizes: 40}, {CRC: true, V2: true, Tid4: false, HLen: 19, NSizes: 40},
	{CRC: false, V2: false, Tid4: false, HLen: 19, NSizes: 38}, {CRC: true, V2: false, Tid4: false, HLen: 19, NSizes: 38},
	{CRC: false, V2: false, Tid4: true, HLen: 19, NSizes: 36}, {CRC: true, V2: false, Tid4: true, HLen: 19, NSizes: 36},
}

func randCfg(r *vh.Rng) Cfg {
	c := baseCfgs[r.Intn(len(baseCfgs))]
	if r.Chance(1, 5) {
		c.HLen = 19 + r.Intn(6)
	}
	if r.Chance(1, 4) {
		c.NSizes = 35 + r.Intn(200)
	}
	return c.withPads(r)
}

type Hdr struct {
	TS, SID, Next uint32
	Flags         uint16
}

func (h Hdr) Val() vh.Val {
	return vh.L(vh.U(uint64(h.TS)), vh.U(uint64(h.SID)), vh.U(uint64(h.Next)), vh.U(uint64(h.Flags)))
}

func randHdr(r *vh.Rng) Hdr {
	return Hdr{uint32(r.U64()), uint32(r.U64()), uint32(r.U64()), uint16(r.U64())}
}

func mkEventReq(c Cfg, h Hdr, body vh.Val, crc []byte) vh.Val {
	return vh.L(vh.A("mkevent"), c.Val(), h.Val(), body, vh.X(crc))
}

// ---- columns, values ----

type colDef struct {
	ty       vh.Val
	key      string // type family for coverage classes
	uns      bool
	nullable bool
	field    string
	gen      func(r *vh.Rng) vh.Val
}

func digitsVal(r *vh.Rng, n int, leadZeros bool) vh.Val {
	vs := make([]vh.Val, n)
	z := 0
	if leadZeros && n > 0 {
		z = r.Intn(n + 1)
	}
	for i := range vs {
		d := r.Intn(10)
		if i < z {
			d = 0
		}
		vs[i] = vh.I(int64(d))
	}
	return vh.L(vs...)
}

func randBytesVal(r *vh.Rng, n int) vh.Val {
	return vh.L(vh.A("bytes"), vh.X(r.Bytes(n)))
}

// genColumn draws a column of any supported type (JSON included) with a value generator.
func genColumn(r *vh.Rng, idx int) colDef { return genColumnCase(r, idx, r.Intn(23)) }

// column-type cases of genColumnCase per property
var (
	colCasesC10 = []int{0, 1, 2, 3, 4, 5, 6, 7, 8, 9, 10}
	colCasesC11 = []int{11}
	colCasesC12 = []int{12, 13, 14, 15}
	colCasesC13 = []int{16, 17, 18, 19, 20, 21}
	colCasesC14 = []int{22}
)

func genColumnCase(r *vh.Rng, idx int, kase int) colDef {
	cd := colDef{nullable: r.Bool(), field: fmt.Sprintf("c%d_%x", idx, r.Intn(4096))}
	if r.Chance(1, 10) {
		cd.field = string(r.Bytes(1 + r.Intn(12)))
	}
	switch kase {
	case 0, 1, 2, 3, 4:
		it := intTypes[r.Intn(len(intTypes))]
		cd.ty, cd.key, cd.uns = sym(it.name), it.name, r.Bool()
		bits := uint(8 * it.w)
		uns := cd.uns
		cd.gen = func(r *vh.Rng) vh.Val {
			z := new(big.Int).SetUint64(r.U64())
			if r.Chance(1, 3) {
				z = big.NewInt(int64(r.Intn(1000)))
			}
			z.Mod(z, new(big.Int).Lsh(big.NewInt(1), bits))
			if !uns && z.Bit(int(bits-1)) == 1 {
				z.Sub(z, new(big.Int).Lsh(big.NewInt(1), bits))
			}
			return bigVal("int", z)
		}
	case 5:
		cd.ty, cd.key = sym("float"), "float"
		cd.gen = func(r *vh.Rng) vh.Val {
			b := uint32(r.U64())
			if b&0x7f800000 == 0x7f800000 {
				b &^= 0x00800000
			}
			return vh.L(vh.A("float"), vh.U(uint64(b)))
		}
	case 6:
		cd.ty, cd.key = sym("double"), "double"
		cd.gen = func(r *vh.Rng) vh.Val {
			b := r.U64()
			if b&0x7ff0000000000000 == 0x7ff0000000000000 {
				b &^= 0x0010000000000000
			}
			return vh.L(vh.A("float"), vh.U(b))
		}
	case 7:
		cd.ty, cd.key = sym("year"), "year"
		cd.gen = func(r *vh.Rng) vh.Val { return sym("year", int64(r.Intn(256))) }
	case 8:
		n := 1 + r.Intn(64)
		cd.ty, cd.key = sym("bit", int64(n)), "bit"
		cd.gen = func(r *vh.Rng) vh.Val {
			bs := r.Bytes((n + 7) / 8)
			if n%8 != 0 {
				bs[0] &= byte(1<<uint(n%8)) - 1
			}
			return vh.L(vh.A("bits"), vh.X(bs))
		}
	case 9:
		w := 1 + r.Intn(2)
		cd.ty, cd.key = sym("enum", int64(w), 0), "enum"
		cd.gen = func(r *vh.Rng) vh.Val { return vh.L(vh.A("enum"), vh.U(r.U64()%(1<<uint(8*w)))) }
	case 10:
		w := 1 + r.Intn(8)
		cd.ty, cd.key = sym("set", int64(w), 0), "set"
		cd.gen = func(r *vh.Rng) vh.Val {
			v := r.U64()
			if w < 8 {
				v %= 1 << uint(8*w)
			}
			return vh.L(vh.A("set"), vh.U(v))
		}
	case 11:
		p := 1 + r.Intn(65)
		s := r.Intn(min(30, p) + 1)
		cd.ty, cd.key = sym("dec", int64(p), int64(s)), "decimal"
		cd.gen = func(r *vh.Rng) vh.Val {
			ip, fp := digitsVal(r, p-s, true), digitsVal(r, s, false)
			neg := r.Bool()
			allZero := true
			for _, d := range append(append([]vh.Val{}, ip.List...), fp.List...) {
				if d.Atom != "0" {
					allZero = false
				}
			}
			if allZero {
				neg = false
			}
			return vh.L(vh.A("dec"), vh.B(neg), ip, fp)
		}
	case 12:
		cd.ty, cd.key = sym("date", int64(r.Intn(2))), "date"
		cd.gen = func(r *vh.Rng) vh.Val {
			return sym("date", int64(r.Intn(10000)), int64(r.Intn(13)), int64(r.Intn(32)))
		}
	case 13:
		f := r.Intn(8) - 1 // -1: old TIME
		if f < 0 {
			cd.ty, cd.key = sym("time"), "time"
		} else {
			if f > 6 {
				f = 6
			}
			cd.ty, cd.key = sym("time2", int64(f)), "time2"
		}
		cd.gen = func(r *vh.Rng) vh.Val {
			h, m, s := int64(r.Intn(839)), int64(r.Intn(60)), int64(r.Intn(60))
			fr := int64(0)
			if f > 0 {
				fr = int64(r.U64() % uint64(pow10(f)))
			}
			neg := int64(r.Intn(2))
			if h+m+s+fr == 0 {
				neg = 0
			}
			return sym("time", neg, h, m, s, fr)
		}
	case 14:
		f := r.Intn(8) - 1
		if f < 0 {
			cd.ty, cd.key = sym("datetime"), "datetime"
		} else {
			if f > 6 {
				f = 6
			}
			cd.ty, cd.key = sym("dt2", int64(f)), "datetime2"
		}
		cd.gen = func(r *vh.Rng) vh.Val {
			fr := int64(0)
			if f > 0 {
				fr = int64(r.U64() % uint64(pow10(f)))
			}
			return sym("datetime", int64(r.Intn(10000)), int64(r.Intn(13)), int64(r.Intn(32)), int64(r.Intn(24)), int64(r.Intn(60)), int64(r.Intn(60)), fr)
		}
	case 15:
		f := r.Intn(8) - 1
		if f < 0 {
			cd.ty, cd.key = sym("timestamp"), "timestamp"
		} else {
			if f > 6 {
				f = 6
			}
			cd.ty, cd.key = sym("ts2", int64(f)), "timestamp2"
		}
		cd.gen = func(r *vh.Rng) vh.Val {
			secs := int64(uint32(r.U64()))
			if r.Chance(1, 6) {
				secs = 0
			}
			fr := int64(0)
			if f > 0 && secs != 0 {
				fr = int64(r.U64() % uint64(pow10(f)))
			}
			return sym("ts", secs, fr)
		}
	case 16, 17:
		max := r.Pick(0, 1, 10, 255, 256, 300, 1000, 65535, r.Intn(65536))
		cd.ty, cd.key = sym("varchar", int64(max), int64(r.Intn(2))), "varchar"
		cd.gen = func(r *vh.Rng) vh.Val { return randBytesVal(r, edgeLen(r, max, r.Intn(min(max, 40)+1))) }
	case 18:
		max := r.Pick(0, 1, 10, 255, 256, 300, 1023, r.Intn(1024))
		cd.ty, cd.key = sym("char", int64(max)), "char"
		cd.gen = func(r *vh.Rng) vh.Val { return randBytesVal(r, edgeLen(r, max, r.Intn(min(max, 40)+1))) }
	case 19, 20:
		lb := 1 + r.Intn(4)
		cd.ty, cd.key = sym("blob", int64(lb), int64(249+r.Intn(4))), "blob"
		cd.gen = func(r *vh.Rng) vh.Val {
			n := r.Intn(60)
			if lb >= 2 && r.Chance(1, 20) {
				n = 256 + r.Intn(600)
			}
			if lb == 1 {
				n = edgeLen(r, 255, n)
			} else {
				n = edgeLen(r, 65535, n)
			}
			return randBytesVal(r, n)
		}
	case 21:
		lb := 1 + r.Intn(4)
		cd.ty, cd.key = sym("geo", int64(lb)), "geometry"
		cd.gen = func(r *vh.Rng) vh.Val { return randBytesVal(r, r.Intn(40)) }
	default:
		// JSON: lb length bytes, then the binary document (Spec.Values: TJson lb / VJson d)
		lb := 1 + r.Intn(4)
		cd.ty, cd.key = sym("json", int64(lb)), "json"
		cd.gen = func(r *vh.Rng) vh.Val { return jsonCellVal(r, lb) }
	}
	return cd
}

// ---- JSON column values: the documents of C14's generator (c14.go), kept small ----

var jsonDecFixed = struct {
	probed, fixed bool
}{}

// jsonCellVal draws a (json <doc>) cell value whose serialisation fits lb length bytes: empty object / array,
// scalars of every family (integers at the inlining boundaries, doubles, strings with exotic bytes, opaque
// DECIMAL / TIME / DATETIME / DATE), and nested containers of depth <= 3 in the small, large or mixed formats.
func jsonCellVal(r *vh.Rng, lb int) vh.Val {
	if !jsonDecFixed.probed {
		jsonDecFixed.probed, jsonDecFixed.fixed = true, probeDecimalFixed()
	}
	g := &jgen{r: r, decFixed: jsonDecFixed.fixed}
	limit := 1 << 30
	if lb < 4 {
		limit = 1 << uint(8*lb)
	}
	for try := 0; try < 6; try++ {
		g.longStr = 2 // no strings of 16 KB and more in histories
		var d *jd
		switch r.Intn(10) {
		case 0:
			d = &jd{k: "obj", large: r.Chance(1, 4)}
		case 1:
			d = &jd{k: "arr", large: r.Chance(1, 4)}
		case 2, 3:
			d = g.scalar()
		case 4:
			d = g.chain(1+r.Intn(3), func(int) bool { return r.Chance(1, 3) })
		default:
			depth := 1 + r.Intn(3)
			if lb == 1 {
				depth = 1
			}
			d = g.doc(depth, 1+r.Intn(4), r.Pick(0, 0, 30, 100))
		}
		d.fixFormats()
		if 1+d.bodyLen() < limit {
			return vh.L(vh.A("json"), d.sexp())
		}
	}
	return vh.L(vh.A("json"), (&jd{k: "i16", i: int64(int16(r.U64()))}).sexp())
}

// edgeLen: one value in ten of a string column has a length at the edges of the one-byte length prefix - 250..256,
// where a prefix byte looks like the marker of a length-encoded integer (0xfb..0xfe) or is the largest one - or the
// column's maximum; otherwise n.  (Drawn from a side stream: the other draws of a history do not move.)
func edgeLen(r *vh.Rng, max, n int) int {
	q := r.Side()
	if !q.Chance(1, 10) {
		return n
	}
	l := q.Pick(250, 251, 252, 253, 254, 255, 256, max)
	if l > max || l > 1100 {
		return n
	}
	return l
}

func min(a, b int) int {
	if a < b {
		return a
	}
	return b
}

type tableDef struct {
	id       uint64
	flags    uint16
	db, name string
	cols     []colDef
	optional []byte
}

func genTableOf(r *vh.Rng, ncols int, c Cfg, cases []int) tableDef {
	t := genTable(r, 0, c)
	for i := 0; i < ncols; i++ {
		t.cols = append(t.cols, genColumnCase(r, i, cases[r.Intn(len(cases))]))
	}
	return t
}

func genTable(r *vh.Rng, ncols int, c Cfg) tableDef {
	t := tableDef{flags: uint16(r.U64()), db: fmt.Sprintf("db%d", r.Intn(50)), name: fmt.Sprintf("t%d", r.Intn(500))}
	if c.Tid4 {
		t.id = uint64(uint32(r.U64()))
	} else {
		t.id = r.U64() & 0xffffffffffff
	}
	if r.Chance(1, 8) {
		t.db = string(r.Bytes(1 + r.Intn(255)))
		t.name = string(r.Bytes(1 + r.Intn(255)))
	}
	for i := 0; i < ncols; i++ {
		t.cols = append(t.cols, genColumn(r, i))
	}
	if r.Chance(1, 3) {
		t.optional = r.Bytes(r.Intn(40))
	}
	return t
}

func (t tableDef) bodyVal() vh.Val {
	cs := make([]vh.Val, len(t.cols))
	for i, c := range t.cols {
		cs[i] = vh.L(c.ty, vh.B(c.nullable))
	}
	return vh.L(vh.A("tablemap"), vh.U(t.id), vh.U(uint64(t.flags)), vh.X([]byte(t.db)), vh.X([]byte(t.name)), vh.L(cs...), vh.X(t.optional))
}

func (t tableDef) typeKeys() string {
	set := map[string]bool{}
	for _, c := range t.cols {
		set[c.key] = true
	}
	var ks []string
	for k := range set {
		ks = append(ks, k)
	}
	return fmt.Sprintf("%dtypes", len(ks))
}

// mapperEntry for the model: (db table namedb nametable ((field uns)...))
func (t tableDef) mapperVal() vh.Val {
	cs := make([]vh.Val, len(t.cols))
	for i, c := range t.cols {
		cs[i] = vh.L(vh.X([]byte(c.field)), vh.B(c.uns))
	}
	return vh.L(vh.X([]byte(t.db)), vh.X([]byte(t.name)), vh.X([]byte(t.db)), vh.X([]byte(t.name)), vh.L(cs...))
}

// rows: images as lists of cell values (absent | null | value)
type rowsDef struct {
	kind                  int // 0 write 1 update 2 delete
	flags                 uint16
	extra                 []byte
	before                [][]vh.Val
	after                 [][]vh.Val
	nullsSeen, absentSeen bool
}

func genPresence(r *vh.Rng, n int, full bool) []bool {
	p := make([]bool, n)
	any := false
	for i := range p {
		p[i] = full || r.Chance(2, 3)
		any = any || p[i]
	}
	if !any {
		p[r.Intn(n)] = true
	}
	return p
}

func genImage(r *vh.Rng, t tableDef, pres []bool, rd *rowsDef) []vh.Val {
	img := make([]vh.Val, len(t.cols))
	for i, c := range t.cols {
		switch {
		case !pres[i]:
			img[i] = vh.A("absent")
			rd.absentSeen = true
		case r.Chance(1, 5):
			img[i] = vh.A("null")
			rd.nullsSeen = true
		default:
			img[i] = c.gen(r)
		}
	}
	return img
}

func genRows(r *vh.Rng, t tableDef, kind, nrows int, c Cfg) rowsDef {
	rd := rowsDef{kind: kind, flags: uint16(r.U64())}
	if c.V2 && r.Chance(1, 3) {
		rd.extra = r.Bytes(r.Intn(12))
	}
	full := r.Chance(1, 2)
	pb, pa := genPresence(r, len(t.cols), full), genPresence(r, len(t.cols), full)
	// an UPDATE may write a row back as it was (engines and clusters that log every touched row do): both images of
	// such a row are byte-identical, and are still two separate values for the consumer
	q := r.Side()
	sameImages := kind == 1 && q.Chance(1, 4)
	if sameImages {
		pa = pb
	}
	// ... or change one column and log, with minimal row images, only the key column before and only the changed column
	// after: when the two cells hold the same bytes (both NULL, or equal values of columns of one type) the two images
	// are byte-identical although they describe different columns
	n := len(t.cols)
	shifted := kind == 1 && !sameImages && n >= 2 && q.Chance(1, 4)
	si, sj := 0, 0
	if shifted {
		si = q.Intn(n)
		sj = (si + 1 + q.Intn(n-1)) % n
	}
	for i := 0; i < nrows; i++ {
		if shifted {
			v := vh.A("null")
			if t.cols[si].ty.String() == t.cols[sj].ty.String() && t.cols[si].uns == t.cols[sj].uns && q.Bool() {
				v = t.cols[si].gen(q)
			} else {
				rd.nullsSeen = true
			}
			bi, ai := make([]vh.Val, n), make([]vh.Val, n)
			for k := range bi {
				bi[k], ai[k] = vh.A("absent"), vh.A("absent")
			}
			bi[si], ai[sj] = v, v
			rd.absentSeen = true
			rd.before = append(rd.before, bi)
			rd.after = append(rd.after, ai)
			continue
		}
		if kind != 0 {
			rd.before = append(rd.before, genImage(r, t, pb, &rd))
		}
		if kind != 2 {
			if sameImages && q.Chance(2, 3) {
				rd.after = append(rd.after, append([]vh.Val{}, rd.before[len(rd.before)-1]...))
				continue
			}
			rd.after = append(rd.after, genImage(r, t, pa, &rd))
		}
	}
	return rd
}

func imagesVal(imgs [][]vh.Val) vh.Val {
	vs := make([]vh.Val, len(imgs))
	for i, img := range imgs {
		vs[i] = vh.L(img...)
	}
	return vh.L(vs...)
}

func (rd rowsDef) bodyVal(t tableDef) vh.Val {
	tys := make([]vh.Val, len(t.cols))
	for i, c := range t.cols {
		tys[i] = c.ty
	}
	return vh.L(vh.A("rows"), vh.I(int64(rd.kind)), vh.U(t.id), vh.U(uint64(rd.flags)), vh.X(rd.extra), vh.L(tys...), imagesVal(rd.before), imagesVal(rd.after))
}

// ---- implementation-side canonicalisers ----

func implFormat(v vh.Val) replication.BinlogFormat {
	// v = (version server hlen alg sizes)
	ver, _ := v.Nth(0).Int()
	sv, _ := v.Nth(1).Hex()
	hl, _ := v.Nth(2).Int()
	alg, _ := v.Nth(3).Int()
	sz, _ := v.Nth(4).Hex()
	return replication.BinlogFormat{FormatVersion: uint16(ver), ServerVersion: string(sv), HeaderLength: byte(hl), ChecksumAlgorithm: byte(alg), HeaderSizes: sz}
}

func fmtVal(f replication.BinlogFormat) vh.Val {
	return vh.L(vh.I(int64(f.FormatVersion)), vh.X([]byte(f.ServerVersion)), vh.I(int64(f.HeaderLength)), vh.I(int64(f.ChecksumAlgorithm)), vh.X(f.HeaderSizes))
}

func bitmapVal(b *replication.Bitmap) vh.Val {
	var sb strings.Builder
	sb.WriteByte('b')
	n := b.Count()
	for i := 0; i < n; i++ {
		func() {
			defer func() {
				if recover() != nil {
					sb.WriteByte('P')
				}
			}()
			if b.Bit(i) {
				sb.WriteByte('1')
			} else {
				sb.WriteByte('0')
			}
		}()
	}
	return vh.L(vh.I(int64(n)), vh.A(sb.String()))
}

func tableMapVal(tm *replication.TableMap) []vh.Val {
	ms := make([]vh.Val, len(tm.Metadata))
	for i, m := range tm.Metadata {
		ms[i] = vh.I(int64(m))
	}
	return []vh.Val{vh.I(int64(tm.Flags)), vh.X([]byte(tm.Database)), vh.X([]byte(tm.Name)), vh.X(tm.Types), bitmapVal(&tm.CanBeNull), vh.L(ms...)}
}

func rowsVal(rs *replication.Rows) []vh.Val {
	rows := make([]vh.Val, len(rs.Rows))
	for i := range rs.Rows {
		r := &rs.Rows[i]
		rows[i] = vh.L(bitmapVal(&r.NullIdentifyColumns), bitmapVal(&r.NullColumns), vh.XN(r.Identify), vh.XN(r.Data))
	}
	return []vh.Val{vh.I(int64(rs.Flags)), bitmapVal(&rs.IdentifyColumns), bitmapVal(&rs.DataColumns), vh.L(rows...)}
}

// tableMapFromVal rebuilds a *TableMap (types, metadata, names) from the canonical form.
func tableMapFromVal(v []vh.Val) *replication.TableMap {
	fl, _ := v[0].Int()
	db, _ := v[1].Hex()
	nm, _ := v[2].Hex()
	ty, _ := v[3].Hex()
	n, _ := v[4].Nth(0).Int()
	tm := &replication.TableMap{Flags: uint16(fl), Database: string(db), Name: string(nm), Types: ty, CanBeNull: replication.NewServerBitmap(int(n))}
	bits := v[4].Nth(1).Atom
	for i := 0; i < int(n) && i+1 < len(bits); i++ {
		tm.CanBeNull.Set(i, bits[i+1] == '1')
	}
	for _, m := range v[5].List {
		x, _ := m.Int()
		tm.Metadata = append(tm.Metadata, uint16(x))
	}
	return tm
}

func decErrClass(err error) string {
	s := err.Error()
	switch {
	case strings.Contains(s, "data is too small"):
		return "too_small"
	case strings.Contains(s, "data is too large"):
		return "too_large"
	case strings.Contains(s, "unexpected metadata end"):
		return "meta_end"
	case strings.Contains(s, "metadataRead: unhandled data type"):
		return "meta_type"
	case strings.Contains(s, "format version"):
		return "format_version"
	case strings.Contains(s, "header length"):
		return "header_length"
	case strings.Contains(s, "Rotate position overflows"):
		return "rotate_short"
	case strings.Contains(s, "SQL query position overflows"):
		return "query_overflow"
	case strings.Contains(s, "status var overflows"):
		return "query_var"
	case strings.Contains(s, "invalid IntVar ID"):
		return "intvar_id"
	case strings.Contains(s, "unsupported checksum algorithm"):
		return "checksum_alg"
	}
	return errClass(err)
}

func sval(vs []vh.Val) string { return vh.L(vs...).String() }
