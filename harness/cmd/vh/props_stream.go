package main

import (
	"fmt"
	"strings"

	gobinlog "github.com/Breeze0806/gobinlog"
	"verif/harness/internal/vh"
)

func init() {
	runners["C02"] = runC02
	runners["C03"] = runC03
	runners["C04"] = runC04
	runners["C01"] = runC01
}

func startOf(h *history) (string, int64) {
	return h.files[0], int64(h.events[0].start)
}

func fullAttempt(h *history, c *Ctx, file string, off int64) attempt {
	evs, _ := h.serve(c, file, uint32(off))
	return attempt{startFile: file, startOff: off, events: evs, cancelAt: -1, mapper: &hMapper{tables: h.tables}}
}

func acceptedOf(calls []vh.Val) []string {
	var out []string
	for _, cl := range calls {
		if cl.Nth(1).Atom == "1" {
			out = append(out, cl.Nth(0).String())
		}
	}
	return out
}

func strs(vs []vh.Val) []string {
	out := make([]string, len(vs))
	for i, v := range vs {
		out[i] = v.String()
	}
	return out
}

func eqStrs(a, b []string) bool {
	if len(a) != len(b) {
		return false
	}
	for i := range a {
		if a[i] != b[i] {
			return false
		}
	}
	return true
}

func firstDiff(a, b []string) string {
	for i := 0; i < len(a) || i < len(b); i++ {
		var x, y string
		if i < len(a) {
			x = a[i]
		}
		if i < len(b) {
			y = b[i]
		}
		if x != y {
			k := 0
			for k < len(x) && k < len(y) && x[k] == y[k] {
				k++
			}
			lo := k - 300
			if lo < 0 {
				lo = 0
			}
			cut := func(s string) string {
				hi := k + 300
				if hi > len(s) {
					hi = len(s)
				}
				if lo > len(s) {
					return ""
				}
				return s[lo:hi]
			}
			return fmt.Sprintf("index %d differs at char %d: expected ...%s... | got ...%s...", i, k, cut(x), cut(y))
		}
	}
	return ""
}

// checkFullRun: the whole history from its start: every committed transaction once, in order, nothing else.
func checkFullRun(c *Ctx, prop string, h *history, what string) (delivered []string, ok bool) {
	f, o := startOf(h)
	a := fullAttempt(h, c, f, o)
	ir := compareAttempt(c, prop, what, a, h.mapperVals(), true)
	exp := strs(h.expectedTxVals(c, h.txs, f, uint32(o)))
	got := acceptedOf(ir.calls)
	if ir.outcome != "end" || !eqStrs(exp, got) || len(got) != len(ir.calls) {
		c.R.Add(vh.Mismatch{Kind: "spec", What: what + ": delivered transactions differ from the committed transactions of the binlog",
			Case: fmt.Sprintf("cfg=%s units=%v outcome=%s", h.cfg, h.kinds, ir.outcome), Input: eventsHex(a.events),
			Expected: fmt.Sprintf("%d transactions", len(exp)), Impl: fmt.Sprintf("%d delivered; %s", len(got), firstDiff(exp, got)), InDomain: true})
		return got, false
	}
	return got, true
}

func unitClass(kinds []string) string {
	if len(kinds) > 4 {
		set := map[string]bool{}
		for _, k := range kinds {
			set[k] = true
		}
		return fmt.Sprintf("long/%dkinds", len(set))
	}
	return strings.Join(kinds, ",")
}

func runC02(c *Ctx) {
	c.R.Rule = "unit sequences over {tx closed by XID, by COMMIT, rolled back, DDL, autocommitted rows, statement DML, rotation, ignorable events, unknown statement, SET, empty tx}; each checked as a whole and cut at every event; distinct = distinct unit-kind sequences (length <= 4) or (long, number of kinds); trivial = sequences of length < 2"
	r := c.Rng
	var seqs [][]string
	if c.Thorough() {
		for _, a := range allUnitKinds {
			for _, b := range allUnitKinds {
				seqs = append(seqs, []string{a, b})
				for _, d := range allUnitKinds {
					if r.Chance(1, 3) {
						seqs = append(seqs, []string{a, b, d})
					}
				}
			}
		}
	} else {
		for _, a := range allUnitKinds {
			seqs = append(seqs, []string{a, allUnitKinds[r.Intn(len(allUnitKinds))]})
		}
	}
	nrand := c.N(14, 300)
	for k := 0; k < nrand; k++ {
		seqs = append(seqs, nil) // random
	}
	for si, seq := range seqs {
		cfg := baseCfg(r, r.Intn(len(baseCfgs)))
		o := histOpts{units: 3 + r.Intn(10), maxCols: 4, maxRows: 2, rotations: true, ignorables: true, txDDL: si%2 == 0}
		var h *history
		if seq != nil {
			// fixed kinds: generate unit by unit
			h = genHistorySeq(r, cfg, o, seq)
		} else {
			h = genHistory(r, cfg, o)
		}
		h.encode(c)
		cl := unitClass(h.kinds)
		if len(h.kinds) < 2 {
			cl = "trivial/" + cl
		}
		c.R.Count(cl)
		if si%17 == 0 {
			c.R.Sample(fmt.Sprintf("cfg=%s units=%v events=%d txs=%d", cfg, h.kinds, len(h.events), len(h.txs)))
		}
		if _, ok := checkFullRun(c, "C02", h, "grouping"); !ok {
			continue
		}
		// only at commit: cut the stream after every event
		f, off := startOf(h)
		evs, idx := h.serve(c, f, uint32(off))
		step := 1
		if !c.Thorough() && len(evs) > 24 {
			step = 2
		}
		for k := 2; k <= len(evs); k += step {
			a := attempt{startFile: f, startOff: off, events: evs[:k], cancelAt: -1, mapper: &hMapper{tables: h.tables}}
			ir := compareAttempt(c, "C02", "prefix", a, h.mapperVals(), true)
			var within []expTx
			for _, tx := range h.txs {
				if posIn(idx[:k], tx.commitIdx) {
					within = append(within, tx)
				}
			}
			exp := strs(h.expectedTxVals(c, within, f, uint32(off)))
			got := acceptedOf(ir.calls)
			c.R.Dist["prefix_cuts"]++
			if !eqStrs(exp, got) {
				c.R.Add(vh.Mismatch{Kind: "spec", What: "prefix: a change was delivered before its commit event was read, twice, or not at its commit",
					Case: fmt.Sprintf("cfg=%s units=%v cut after %d of %d events", h.cfg, h.kinds, k, len(evs)), Input: eventsHex(evs[:k]),
					Expected: fmt.Sprintf("%d transactions", len(exp)), Impl: firstDiff(exp, got), InDomain: true})
				break
			}
		}
	}
	// a bulk-load group: tens of thousands of changes between one BEGIN and its XID / COMMIT / ROLLBACK are still one
	// transaction, delivered whole at the commit event (or not at all), whatever memory the replica would like to bound
	for _, closing := range []string{"txXid", "txRollback", "txCommit"} {
		if !c.Thorough() && closing == "txCommit" {
			continue
		}
		cfg := baseCfg(r, r.Intn(len(baseCfgs)))
		o := histOpts{maxCols: 2, maxRows: 1, hugeTx: 16500 + r.Intn(200)}
		h := genHistorySeq(r, cfg, o, []string{"ddl", closing, "autoRows", "txXid"})
		h.encode(c)
		c.R.Count("huge-group/" + closing)
		checkFullRun(c, "C02", h, "huge group ("+closing+")")
	}
	// every event type code the streamer has no branch for, between units and inside transactions: none of them may
	// commit, deliver, or move a label (XA prepare 38, the MariaDB codes 160.., 0, 255 ...)
	var unk []int
	for t := 0; t < 256; t++ {
		switch t {
		case 2, 4, 5, 13, 15, 16, 19, 23, 24, 25, 29, 30, 31, 32:
		default:
			unk = append(unk, t)
		}
	}
	r.Shuffle(len(unk), func(i, j int) { unk[i], unk[j] = unk[j], unk[i] })
	per := 4
	for i := 0; i < len(unk); i += per {
		j := i + per
		if j > len(unk) {
			j = len(unk)
		}
		cfg := baseCfg(r, r.Intn(len(baseCfgs)))
		o := histOpts{maxCols: 2, maxRows: 1, rotations: true, ignorables: true, rawTypes: unk[i:j], txDDL: true,
			seq: []string{"ignorable", r.PickS("txXid", "txCommit"), "ignorable", r.PickS("txCommit", "txXid"), "ignorable", r.PickS("ddl", "autoRows"), "ignorable", r.PickS("txXid", "txCommit", "txRollback")}}
		h := genHistory(r, cfg, o)
		h.encode(c)
		c.R.Count(fmt.Sprintf("unknown-types/%d", len(unk[i:j])))
		c.R.Dist["unknown_type_codes"] += j - i
		if i == 0 {
			c.R.Sample(fmt.Sprintf("cfg=%s unknown types %v units=%v events=%d", cfg, unk[i:j], h.kinds, len(h.events)))
		}
		checkFullRun(c, "C02", h, fmt.Sprintf("unknown event types %v", unk[i:j]))
	}
	// statement classification: every casing of every keyword, arbitrary tails
	words := []string{"begin", "commit", "rollback", "insert", "update", "delete", "create", "alter", "drop", "truncate", "rename", "set"}
	for _, w := range words {
		n := 1 << uint(len(w))
		for m := 0; m < n; m++ {
			if !c.Thorough() && len(w) > 5 && m%7 != int(c.Seed%7) {
				continue
			}
			b := []byte(w)
			for i := range b {
				if m>>uint(i)&1 == 1 {
					b[i] -= 32
				}
			}
			for _, tail := range []string{"", " ", " x y", "\t", ";"} {
				sql := string(b) + tail
				got := int(gobinlog.GetStatementCategory(sql))
				mod, _ := c.M.Call(vh.L(vh.A("category"), vh.X([]byte(sql)))).Int()
				want := stmtCodes[w]
				if tail == "\t" || tail == ";" {
					want = 0
				}
				c.R.Dist["category_cases"]++
				if got != want {
					c.R.Add(vh.Mismatch{Kind: "spec", What: "statement keyword not recognised whatever its letter case", Case: fmt.Sprintf("%q", sql), Expected: fmt.Sprint(want), Impl: fmt.Sprint(got), InDomain: true})
				}
				if int64(got) != mod {
					c.R.Add(vh.Mismatch{Kind: "corr", What: "GetStatementCategory differs from the model", Case: fmt.Sprintf("%q", sql), Model: fmt.Sprint(mod), Impl: fmt.Sprint(got), InDomain: true})
				}
			}
		}
	}
	c.R.Count("category/all-keywords")
	for k := 0; k < c.N(300, 5000); k++ {
		b := r.Bytes(r.Intn(12))
		for i := range b {
			b[i] = byte(r.Pick(32, 65+r.Intn(26), 97+r.Intn(26), 0, 59, 9))
		}
		got := int64(gobinlog.GetStatementCategory(string(b)))
		mod, _ := c.M.Call(vh.L(vh.A("category"), vh.X(b))).Int()
		if got != mod {
			c.R.Add(vh.Mismatch{Kind: "corr", What: "GetStatementCategory differs from the model", Case: fmt.Sprintf("%q", b), Model: fmt.Sprint(mod), Impl: fmt.Sprint(got)})
		}
	}
	c.R.Count("category/random-ascii")
}

func posIn(idx []int, i int) bool {
	for _, x := range idx {
		if x == i {
			return true
		}
	}
	return false
}

// genHistorySeq: a history whose unit kinds are exactly seq.
func genHistorySeq(r *vh.Rng, cfg Cfg, o histOpts, seq []string) *history {
	o.seq = seq
	return genHistory(r, cfg, o)
}

func runC03(c *Ctx) {
	c.R.Rule = "multi-file histories (rotations, offsets up to 2^32-1) x every delivered transaction k as resume point; distinct = (rotations present, big offsets, k class: first/middle/last, unit kind at k); trivial = single-transaction histories"
	r := c.Rng
	nh := c.N(10, 250)
	for hi := 0; hi < nh; hi++ {
		cfg := baseCfg(r, r.Intn(len(baseCfgs)))
		o := histOpts{units: 4 + r.Intn(8), maxCols: 3, maxRows: 2, rotations: true, ignorables: true, bigOffsets: hi%3 == 0}
		h := genHistory(r, cfg, o)
		h.encode(c)
		D, ok := checkFullRun(c, "C03", h, "labels")
		if !ok {
			continue
		}
		nrot := 0
		for _, k := range h.kinds {
			if k == "rotation" {
				nrot++
			}
		}
		// labels chain
		f0, o0 := startOf(h)
		prevF, prevO := f0, uint32(o0)
		for i, tx := range h.txs {
			nf, no := tx.nowFile, tx.now
			if i == 0 {
				nf, no = f0, uint32(o0)
			}
			if !(nf == prevF && no == prevO) && !(no == 4 && nf != prevF) {
				c.R.Add(vh.Mismatch{Kind: "selfcheck", What: "oracle labels do not chain", Case: fmt.Sprint(h.kinds)})
			}
			prevF, prevO = tx.nextFile, tx.next
		}
		if hi%5 == 0 {
			c.R.Sample(fmt.Sprintf("cfg=%s units=%v files=%d txs=%d bigOffsets=%v", cfg, h.kinds, len(h.files), len(h.txs), o.bigOffsets))
		}
		// resume at every k
		for k := 0; k < len(h.txs); k++ {
			tx := h.txs[k]
			a := fullAttempt(h, c, tx.nextFile, int64(tx.next))
			ir := compareAttempt(c, "C03", "resume", a, h.mapperVals(), true)
			got := acceptedOf(ir.calls)
			exp := D[k+1:]
			kc := "middle"
			if k == 0 {
				kc = "first"
			} else if k == len(h.txs)-1 {
				kc = "last"
			}
			cl := fmt.Sprintf("rot%v/big%v/%s/%s", nrot > 0, o.bigOffsets, kc, h.kinds[tx.unit])
			if len(h.txs) < 2 {
				cl = "trivial/" + cl
			}
			c.R.Count(cl)
			if ir.outcome != "end" || !eqStrs(exp, got) {
				c.R.Add(vh.Mismatch{Kind: "spec", What: "resume: a stream started at a delivered end label does not yield exactly the remaining transactions",
					Case:  fmt.Sprintf("cfg=%s units=%v resume after tx %d at %s:%d outcome=%s", h.cfg, h.kinds, k, tx.nextFile, tx.next, ir.outcome),
					Input: eventsHex(a.events), Expected: fmt.Sprintf("%d transactions", len(exp)), Impl: fmt.Sprintf("%d; %s", len(got), firstDiff(exp, got)), InDomain: true})
				break
			}
		}
	}
}

type fault struct {
	kind string // end cancel handler mapper mismatch rowsquery intvar rand invalid
	at   int    // event index (in the served list) or transaction index for handler
}

// applyFault turns a full attempt into a failing one.
func applyFault(c *Ctx, h *history, a attempt, f fault) (attempt, []vh.Val) {
	mv := h.mapperVals()
	switch f.kind {
	case "end":
		a.events = a.events[:f.at]
	case "cancel":
		a.cancelAt = f.at
	case "handler", "handler-cancel":
		a.cancelInRefusal = f.kind == "handler-cancel"
		a.verdicts = make([]bool, f.at+1)
		for i := range a.verdicts {
			a.verdicts[i] = i != f.at
		}
	case "mapper", "mismatch":
		t := h.tables[f.at%len(h.tables)]
		key := t.db + "." + t.name
		if f.kind == "mapper" {
			a.mapper = &hMapper{tables: h.tables, failFor: key}
			mv = mapperValsFor(h.tables, key, "")
		} else {
			a.mapper = &hMapper{tables: h.tables, extraFor: key}
			mv = mapperValsFor(h.tables, "", key)
		}
	case "rowsquery", "intvar", "rand", "invalid", "unknowntable":
		var ev []byte
		switch f.kind {
		case "unknowntable":
			ev = unknownTableRows(c, h)
			if ev == nil {
				ev = rawEvent(c, h.cfg, 29, []byte{3, 'a', 'b', 'c'})
			}
		case "rowsquery":
			ev = rawEvent(c, h.cfg, 29, []byte{3, 'a', 'b', 'c'})
		case "intvar":
			ev = rawEvent(c, h.cfg, 5, []byte{2, 1, 0, 0, 0, 0, 0, 0, 0})
		case "rand":
			ev = rawEvent(c, h.cfg, 13, make([]byte, 16))
		default:
			good := a.events[f.at%len(a.events)]
			switch c.Rng.Intn(3) {
			case 0:
				ev = append([]byte{}, good[:c.Rng.Intn(len(good))]...)
			case 1:
				ev = append(append([]byte{}, good...), c.Rng.Bytes(1+c.Rng.Intn(5))...)
			default:
				ev = c.Rng.Bytes(c.Rng.Intn(40))
				if len(ev) >= 13 {
					ev[9] = byte(len(ev) + 1) // length field disagrees
					ev[10], ev[11], ev[12] = 0, 0, 0
				}
			}
		}
		at := f.at
		if at < 2 {
			at = 2
		}
		evs := append(append(append([][]byte{}, a.events[:at]...), ev), a.events[at:]...)
		a.events = evs
	}
	return a, mv
}

func rawEvent(c *Ctx, cfg Cfg, typ int, body []byte) []byte {
	resp := c.M.Call(mkEventReq(cfg, Hdr{TS: 5, SID: 7, Next: 0}, vh.L(vh.A("raw"), vh.I(int64(typ)), vh.X(body)), c.Rng.Bytes(4)))
	b, _ := resp.Nth(0).Hex()
	return b
}

var faultKinds = []string{"end", "cancel", "handler", "handler-cancel", "mapper", "mismatch", "rowsquery", "intvar", "rand", "invalid", "unknowntable"}

func runC04(c *Ctx) {
	c.R.Rule = "history x fault kind {stream end, cancel, handler error, mapper error, mapper column-count mismatch, RowsQuery/IntVar/Rand event, invalid event} x fault point (every event / transaction index) x up to 3 failed attempts, then a clean attempt from the stored position; distinct = (fault kind, position class: before/inside/at-commit/after tx, attempt count)"
	r := c.Rng
	nh := c.N(5, 120)
	for hi := 0; hi < nh; hi++ {
		cfg := baseCfg(r, r.Intn(len(baseCfgs)))
		o := histOpts{units: 3 + r.Intn(6), maxCols: 3, maxRows: 2, rotations: true, ignorables: hi%2 == 0, txDDL: hi%3 == 0}
		h := genHistory(r, cfg, o)
		h.encode(c)
		D, ok := checkFullRun(c, "C04", h, "baseline")
		if !ok || len(D) == 0 {
			continue
		}
		f0, o0 := startOf(h)
		if hi%3 == 0 {
			c.R.Sample(fmt.Sprintf("cfg=%s units=%v txs=%d", cfg, h.kinds, len(h.txs)))
		}
		full := fullAttempt(h, c, f0, o0)
		_, fullIdx := h.serve(c, f0, uint32(o0))
		for _, fk := range faultKinds {
			var points []int
			switch fk {
			case "handler", "handler-cancel":
				for j := range h.txs {
					points = append(points, j)
				}
			case "mapper", "mismatch":
				for j := range h.tables {
					points = append(points, j)
				}
			default:
				for j := 2; j <= len(full.events); j++ {
					points = append(points, j)
				}
			}
			if !c.Thorough() && len(points) > 8 {
				var sel []int
				for k := 0; k < 8; k++ {
					sel = append(sel, points[r.Intn(len(points))])
				}
				points = sel
			}
			for _, pt := range points {
				// a sequence of 1..3 failing attempts followed by a clean one, all on the stored position
				nfail := 1 + r.Intn(3)
				file, off := f0, o0
				var accepted []string
				bad := false
				desc := fmt.Sprintf("cfg=%s units=%v fault=%s@%d", h.cfg, h.kinds, fk, pt)
				for att := 0; att <= nfail && !bad; att++ {
					a := fullAttempt(h, c, file, off)
					mv := h.mapperVals()
					if att < nfail {
						fa := fault{fk, pt}
						if att > 0 { // later failures at a random smaller point of what is left
							if fk == "handler" || fk == "handler-cancel" {
								fa.at = 0
							} else if fk != "mapper" && fk != "mismatch" {
								fa.at = 2 + r.Intn(len(a.events)-1)
							}
						}
						if (fk == "end" || fk == "cancel" || fk == "invalid" || fk == "rowsquery" || fk == "intvar" || fk == "rand" || fk == "unknowntable") && fa.at > len(a.events) {
							fa.at = len(a.events)
						}
						a, mv = applyFault(c, h, a, fa)
					}
					ir := compareAttempt(c, "C04", "attempt", a, mv, true)
					if ir.panicked {
						c.R.Add(vh.Mismatch{Kind: "spec", What: "attempt: parseEvents panicked", Case: desc, Input: eventsHex(a.events), InDomain: true})
						bad = true
						break
					}
					accepted = append(accepted, acceptedOf(ir.calls)...)
					// the stored position must be where the next attempt has to start
					var sf string
					var so int64
					fmt.Sscanf(ir.stored.Nth(1).Atom, "%d", &so)
					b, _ := ir.stored.Nth(0).Hex()
					sf = string(b)
					file, off = sf, so
					if !knownFile(h, sf) {
						c.R.Add(vh.Mismatch{Kind: "spec", What: "attempt: the stored resume position is not a position of the binlog",
							Case: desc + fmt.Sprintf(" attempt=%d outcome=%s", att, ir.outcome), Input: eventsHex(a.events), Impl: ir.stored.String(), InDomain: true})
						bad = true
					}
					c.R.Count(fmt.Sprintf("%s/%s/attempts%d", fk, pointClass(h, fk, pt, fullIdx), nfail+1))
				}
				if bad {
					continue
				}
				if !eqStrs(D, accepted) {
					c.R.Add(vh.Mismatch{Kind: "spec", What: "exactly-once: over failed attempts followed by a clean one a transaction was lost, repeated or reordered",
						Case: desc + fmt.Sprintf(" failed_attempts=%d", nfail), Expected: fmt.Sprintf("%d transactions", len(D)),
						Impl: fmt.Sprintf("%d accepted; %s", len(accepted), firstDiff(D, accepted)), InDomain: true})
				}
			}
		}
	}
}

func init() {
	r3, r4 := runners["C03"], runners["C04"]
	runners["C03"] = func(c *Ctx) { r3(c); e2eRun(c, "C03") }
	runners["C04"] = func(c *Ctx) { r4(c); e2eRun(c, "C04") }
}

func knownFile(h *history, f string) bool {
	for _, x := range h.files {
		if x == f {
			return true
		}
	}
	return false
}

func pointClass(h *history, fk string, pt int, idx []int) string {
	if fk == "handler" || fk == "handler-cancel" || fk == "mapper" || fk == "mismatch" {
		return "tx-or-table"
	}
	// classify the served event index against transaction boundaries
	if pt >= len(idx) {
		return "after-last"
	}
	ei := idx[pt-1]
	for _, tx := range h.txs {
		if tx.commitIdx == ei {
			return "at-commit"
		}
	}
	if ei < 0 {
		return "prologue"
	}
	if h.events[ei].kind == "query" || h.events[ei].kind == "tablemap" || h.events[ei].kind == "rows" {
		return "inside-tx"
	}
	return "between"
}

func runC01(c *Ctx) {
	// each change carries the table it was written to: table ids shared by, and re-announced for, several tables
	// (same name in another database, names that differ in letter case only, ids at the edges of the id space)
	defer runAttribution(c, "C01", c.N(7, 140))
	c.R.Rule = "histories from the RBR grammar (every supported column type, NULL/absent patterns) x {checksum off, CRC32} x {rows v1, v2} x {table-id 4, 6 bytes} x GTID events on/off x start positions, through parseEvents; distinct = (cfg, #type families, has-NULL, has-absent, has-rotation, start class) with >= 2 transactions"
	r := c.Rng
	nh := c.N(30, 600)
	for hi := 0; hi < nh; hi++ {
		cfg := baseCfg(r, hi)
		if r.Chance(1, 4) {
			cfg = randCfg(r)
		}
		o := histOpts{units: 3 + r.Intn(7), maxCols: 1 + r.Intn(12), maxRows: 3, rotations: r.Bool(), ignorables: hi%2 == 0, oddCols: true}
		if r.Chance(1, 10) {
			o.maxCols = 40
		}
		if hi%5 == 1 {
			o.tableIDBase = 0xffffff // the id MySQL's dummy rows event carries is an ordinary id for a real table
		}
		h := genHistory(r, cfg, o)
		h.encode(c)
		fam := map[string]bool{}
		nulls, absents, rot := false, false, false
		for _, e := range h.events {
			if e.rows != nil {
				nulls = nulls || e.rows.nullsSeen
				absents = absents || e.rows.absentSeen
				for _, cd := range e.table.cols {
					fam[cd.key] = true
				}
			}
			if e.kind == "rotate" {
				rot = true
			}
		}
		cl := fmt.Sprintf("%s/gtid%v/fam%d/null%v/absent%v/rot%v/start0", cfg.Key(), o.ignorables, len(fam)/3*3, nulls, absents, rot)
		if len(h.txs) < 2 {
			cl = "trivial/" + cl
		}
		c.R.Count(cl)
		c.R.Dist[cfg.PadKey()]++
		for k := range fam {
			c.R.Dist["type:"+k]++
		}
		if hi%10 == 0 {
			c.R.Sample(fmt.Sprintf("cfg=%s units=%v tables=%d txs=%d types=%d", cfg, h.kinds, len(h.tables), len(h.txs), len(fam)))
		}
		D, ok := checkFullRun(c, "C01", h, "fidelity")
		if !ok || len(h.txs) == 0 {
			continue
		}
		// another valid start position: the end label of a random transaction
		k := r.Intn(len(h.txs))
		tx := h.txs[k]
		a := fullAttempt(h, c, tx.nextFile, int64(tx.next))
		ir := compareAttempt(c, "C01", "fidelity-from-start-position", a, h.mapperVals(), true)
		if got := acceptedOf(ir.calls); !eqStrs(D[k+1:], got) || ir.outcome != "end" {
			c.R.Add(vh.Mismatch{Kind: "spec", What: "fidelity: delivered transactions differ from the committed transactions after the start position",
				Case: fmt.Sprintf("cfg=%s units=%v start after tx %d", h.cfg, h.kinds, k), Expected: fmt.Sprintf("%d", len(D)-k-1), Impl: firstDiff(D[k+1:], got), InDomain: true})
		}
		c.R.Count(strings.Replace(cl, "start0", "startK", 1))
	}
	e2eRun(c, "C01")
}

// typedHistories: end-to-end part of the cell properties (C10-C13): histories whose tables use only the property's
// column types, with partial row images and NULLs, through parseEvents; deliveries against the unit-level oracle.
func typedHistories(c *Ctx, prop string, cases []int, n int) {
	r := c.Rng
	for hi := 0; hi < n; hi++ {
		cfg := baseCfg(r, hi)
		h := genHistory(r, cfg, histOpts{units: 3 + r.Intn(4), maxCols: 2 + r.Intn(10), maxRows: 3, rotations: false, ignorables: false,
			kindsOnly: []string{"txXid", "autoRows", "txCommit"}, colCases: cases, oddCols: true, wideCols: hi%6 == 5})
		h.encode(c)
		nulls, absents := false, false
		for _, e := range h.events {
			if e.rows != nil {
				nulls = nulls || e.rows.nullsSeen
				absents = absents || e.rows.absentSeen
				if nc := len(e.table.cols); nc > 8 && nc%8 != 0 && e.rows.absentSeen && e.cfg.PadCols != 0 {
					c.R.Dist["rows events: partial image, > 8 columns (not a multiple of 8), padding bits set in the presence bitmap"]++
				}
			}
		}
		if hi%6 == 5 {
			c.R.Dist["histories with a table of 65..130 columns"]++
		}
		c.R.Count(fmt.Sprintf("end-to-end/%s/null%v/absent%v", cfg.Key(), nulls, absents))
		c.R.Dist["e2e-"+cfg.PadKey()]++
		checkFullRun(c, prop, h, "end-to-end")
	}
}
