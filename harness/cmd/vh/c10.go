package main

import (
	"fmt"
	"math"
	"math/big"

	"verif/harness/internal/vh"
)

func init() { runners["C10"] = runC10 }

var intTypes = []struct {
	name string
	w    int
}{{"tiny", 1}, {"short", 2}, {"int24", 3}, {"long", 4}, {"longlong", 8}}

func intCase(c *Ctx, name string, w int, uns bool, z *big.Int, class string) cellCase {
	pre, rest := c.prePost()
	return cellCase{ty: sym(name), val: bigVal("int", z), uns: uns, class: fmt.Sprintf("int/%s/%s/%s", name, map[bool]string{true: "unsigned", false: "signed"}[uns], class), pre: pre, rest: rest}
}

func runC10(c *Ctx) {
	c.R.Rule = "cells drawn per (type, signedness or metadata, value class: min/max/zero/minus-one/sign-boundary/random/exhaustive); distinct = distinct class tuples; trivial = none"
	typedHistories(c, "C10", colCasesC10, c.N(25, 400))
	r := c.Rng
	var cases []cellCase
	one := big.NewInt(1)
	for _, it := range intTypes {
		bits := uint(8 * it.w)
		for _, uns := range []bool{false, true} {
			lo, hi := new(big.Int), new(big.Int)
			if uns {
				hi.Sub(new(big.Int).Lsh(one, bits), one)
			} else {
				lo.Neg(new(big.Int).Lsh(one, bits-1))
				hi.Sub(new(big.Int).Lsh(one, bits-1), one)
			}
			span := new(big.Int).Add(new(big.Int).Sub(hi, lo), one)
			// exhaustive for 8 bit always, 16 bit in thorough
			if it.w == 1 || (it.w == 2 && c.Thorough()) {
				for z := new(big.Int).Set(lo); z.Cmp(hi) <= 0; z = new(big.Int).Add(z, one) {
					cases = append(cases, intCase(c, it.name, it.w, uns, z, "exhaustive"))
				}
				continue
			}
			bounds := []*big.Int{lo, hi, big.NewInt(0), new(big.Int).Add(lo, one), new(big.Int).Sub(hi, one)}
			if !uns {
				bounds = append(bounds, big.NewInt(-1), big.NewInt(1), big.NewInt(-128), big.NewInt(127), big.NewInt(-129), big.NewInt(128))
			} else {
				// values whose top bit is set (negative if misread as signed)
				bounds = append(bounds, new(big.Int).Lsh(one, bits-1), new(big.Int).Sub(new(big.Int).Lsh(one, bits-1), one))
			}
			for _, b := range bounds {
				if b.Cmp(lo) >= 0 && b.Cmp(hi) <= 0 {
					cases = append(cases, intCase(c, it.name, it.w, uns, b, "boundary"))
				}
			}
			n := c.N(60, 3000)
			if it.w == 3 && c.Thorough() {
				// strided sweep of the 24-bit domain
				for k := int64(0); k < 1<<24; k += 257 {
					z := new(big.Int).Add(lo, big.NewInt(k))
					cases = append(cases, intCase(c, it.name, it.w, uns, z, "strided"))
				}
			}
			for k := 0; k < n; k++ {
				z := new(big.Int).SetUint64(r.U64())
				if r.Chance(1, 3) { // small magnitudes too
					z = big.NewInt(int64(r.Intn(100000)))
				}
				z.Mod(z, span)
				z.Add(z, lo)
				cases = append(cases, intCase(c, it.name, it.w, uns, z, "random"))
			}
		}
	}
	// floats
	f32 := []uint32{0, 0x80000000, 1, 0x007fffff, 0x00800000, 0x7f7fffff, 0xff7fffff, 0x3f800000, 0xbf800000, 0x40490fdb, 0x3dcccccd, 0x4b7fffff, 0x4b800000, 0x5f000000, 0x00000002, 0x33800000}
	for _, b := range f32 {
		pre, rest := c.prePost()
		cases = append(cases, cellCase{ty: sym("float"), val: vh.L(vh.A("float"), vh.U(uint64(b))), class: "float32/" + floatClass32(b), pre: pre, rest: rest})
	}
	for k := 0; k < c.N(150, 20000); k++ {
		b := uint32(r.U64())
		if b&0x7f800000 == 0x7f800000 {
			continue // NaN / Inf are not stored in FLOAT columns
		}
		pre, rest := c.prePost()
		cases = append(cases, cellCase{ty: sym("float"), val: vh.L(vh.A("float"), vh.U(uint64(b))), class: "float32/" + floatClass32(b), pre: pre, rest: rest})
	}
	f64 := []uint64{0, 1 << 63, 1, 0x000fffffffffffff, 0x0010000000000000, 0x7fefffffffffffff, 0xffefffffffffffff, 0x3ff0000000000000, 0x400921fb54442d18, 0x3fb999999999999a, 0x4340000000000000, 0x433fffffffffffff, 0x43e0000000000000, 0x3e70000000000000}
	for _, b := range f64 {
		pre, rest := c.prePost()
		cases = append(cases, cellCase{ty: sym("double"), val: vh.L(vh.A("float"), vh.U(b)), class: "float64/" + floatClass64(b), pre: pre, rest: rest})
	}
	for k := 0; k < c.N(150, 20000); k++ {
		b := r.U64()
		if b&0x7ff0000000000000 == 0x7ff0000000000000 {
			continue
		}
		if r.Chance(1, 4) { // decimal-looking values
			b = math.Float64bits(float64(r.Intn(1000000)) / 100)
		}
		pre, rest := c.prePost()
		cases = append(cases, cellCase{ty: sym("double"), val: vh.L(vh.A("float"), vh.U(b)), class: "float64/" + floatClass64(b), pre: pre, rest: rest})
	}
	// YEAR: all bytes
	for b := 0; b < 256; b++ {
		pre, rest := c.prePost()
		cl := "year/nonzero"
		if b == 0 {
			cl = "year/zero"
		}
		cases = append(cases, cellCase{ty: sym("year"), val: sym("year", int64(b)), class: cl, pre: pre, rest: rest})
	}
	// BIT(1..64)
	for n := 1; n <= 64; n++ {
		for k := 0; k < c.N(2, 30); k++ {
			bs := r.Bytes((n + 7) / 8)
			if n%8 != 0 {
				bs[0] &= byte(1<<uint(n%8)) - 1
			}
			pre, rest := c.prePost()
			cases = append(cases, cellCase{ty: sym("bit", int64(n)), val: vh.L(vh.A("bits"), vh.X(bs)), class: fmt.Sprintf("bit/bytes%d/rem%d", (n+7)/8, n%8), pre: pre, rest: rest})
		}
	}
	// ENUM 1-2 bytes, SET 1..8 bytes; bare type codes and the TypeString-with-real-type form
	for _, bare := range []int64{0, 1} {
		for w := 1; w <= 2; w++ {
			vals := []uint64{0, 1, 255, 256, 65535}
			for k := 0; k < c.N(10, 300); k++ {
				vals = append(vals, r.U64())
			}
			for _, v := range vals {
				v %= 1 << uint(8*w)
				pre, rest := c.prePost()
				cases = append(cases, cellCase{ty: sym("enum", int64(w), bare), val: vh.L(vh.A("enum"), vh.U(v)), class: fmt.Sprintf("enum/w%d/bare%d", w, bare), pre: pre, rest: rest})
			}
		}
		for w := 1; w <= 8; w++ {
			vals := []uint64{0, 1, 0x80, 0xff, 0x100, math.MaxUint64, 1 << 63}
			for k := 0; k < c.N(6, 200); k++ {
				vals = append(vals, r.U64())
			}
			for _, v := range vals {
				if w < 8 {
					v %= 1 << uint(8*w)
				}
				pre, rest := c.prePost()
				cases = append(cases, cellCase{ty: sym("set", int64(w), bare), val: vh.L(vh.A("set"), vh.U(v)), class: fmt.Sprintf("set/w%d/bare%d", w, bare), pre: pre, rest: rest})
			}
		}
	}
	runCellCases(c, cases, true)
	// correspondence stream: truncated data, odd metadata
	runRawCells(c, genRawCells(c, []byte{1, 2, 3, 4, 5, 8, 9, 13, 16, 247, 248, 254, 0, 6, 20, 100}, c.N(1500, 40000)))
}

func floatClass32(b uint32) string {
	e := b >> 23 & 0xff
	switch {
	case b&0x7fffffff == 0:
		return "zero"
	case e == 0:
		return "subnormal"
	case e < 100:
		return "tiny"
	case e > 160:
		return "huge"
	}
	return "normal"
}

func floatClass64(b uint64) string {
	e := b >> 52 & 0x7ff
	switch {
	case b&0x7fffffffffffffff == 0:
		return "zero"
	case e == 0:
		return "subnormal"
	case e < 900:
		return "tiny"
	case e > 1100:
		return "huge"
	}
	return "normal"
}
