// vh: correspondence / specification harness.  One sub-command per property.
//
//	vh <Cxx> -tier quick|thorough -seed N -out result.json [-replay file]
package main

import (
	"flag"
	"fmt"
	"os"
	"sort"

	"verif/harness/internal/vh"
)

type runner func(ctx *Ctx)

type Ctx struct {
	Tier   string
	Seed   uint64
	Rng    *vh.Rng
	M      *vh.Model
	R      *vh.Result
	Replay string
}

func (c *Ctx) Thorough() bool { return c.Tier == "thorough" }

// N picks a budget by tier.
func (c *Ctx) N(quick, thorough int) int {
	if c.Thorough() {
		return thorough
	}
	return quick
}

var runners = map[string]runner{}

func main() {
	if len(os.Args) < 2 {
		fmt.Fprintln(os.Stderr, "usage: vh <property> [flags]")
		os.Exit(2)
	}
	prop := os.Args[1]
	fs := flag.NewFlagSet("vh", flag.ExitOnError)
	tier := fs.String("tier", "quick", "quick|thorough")
	seed := fs.Uint64("seed", 1, "seed")
	out := fs.String("out", "", "result json")
	replay := fs.String("replay", "", "replay file")
	fs.Parse(os.Args[2:])
	run, ok := runners[prop]
	if !ok {
		var ks []string
		for k := range runners {
			ks = append(ks, k)
		}
		sort.Strings(ks)
		fmt.Fprintf(os.Stderr, "unknown property %s (have %v)\n", prop, ks)
		os.Exit(2)
	}
	m, err := vh.StartModel()
	if err != nil {
		fmt.Fprintln(os.Stderr, "cannot start model:", err)
		os.Exit(2)
	}
	ctx := &Ctx{Tier: *tier, Seed: *seed, Rng: vh.NewRng(*seed), M: m, R: vh.NewResult(prop, *tier, *seed), Replay: *replay}
	func() {
		// an implementation behaviour the runner did not expect (e.g. a constructor of the implementation failing on a
		// canonical value) is a disagreement to report, not a harness crash
		defer func() {
			if r := recover(); r != nil {
				msg := fmt.Sprint(r)
				if len(msg) > 1500 {
					msg = msg[:1500]
				}
				ctx.R.Add(vh.Mismatch{Kind: "corr", What: "runner aborted: the implementation behaved in a way the runner could not continue from", Case: msg, InDomain: true})
			}
		}()
		run(ctx)
	}()
	m.Close()
	ctx.R.ModelCalls = m.N
	if *out != "" {
		if err := ctx.R.Write(*out); err != nil {
			fmt.Fprintln(os.Stderr, err)
			os.Exit(2)
		}
	}
	fmt.Printf("%s: %d evaluations, %d classes, %d mismatches\n", prop, ctx.R.Evaluations, len(ctx.R.Classes), len(ctx.R.Mismatches))
}
