package main

import (
	"fmt"
	"strings"

	"verif/harness/internal/vh"
)

// A history is an abstract binlog: files of events with position labels, grouped into units,
// together with the transactions a consumer must receive (the oracle).

type hEvent struct {
	kind  string // format rotate fakerotate query xid tablemap rows gtid raw ...
	body  vh.Val // mkevent body descriptor
	file  string // file the event lives in
	start uint32 // offset of the event in its file
	next  uint32 // label in the header (0 for artificial events)
	ts    uint32
	bytes []byte // filled by encode
	unit  int    // index of the unit it belongs to (-1: file prologue)
	cfg   Cfg    // format in force when the master wrote the event (the format of its file)
	sid   uint32 // server id in the header: the server the change originated on (0: the master's own, 7)
	// for rows events: the images, to compute expectations
	table *tableDef
	rows  *rowsDef
}

type expEvent struct {
	typ       int
	db, table string
	qdb, qsql string
	charset   *[3]int
	ts        uint32
	ids, vals [][]vh.Val // images (cell values) — converted through expect_image
	tbl       *tableDef
}

type expTx struct {
	nowFile, nextFile string
	now, next         uint32
	ts                uint32
	events            []expEvent
	nilEvents         bool
	unit              int
	commitIdx         int // index (in history.events) of the event that commits it
}

type history struct {
	cfg     Cfg
	events  []hEvent
	txs     []expTx
	tables  []tableDef
	kinds   []string // unit kinds in order
	files   []string
	fileCfg map[string]Cfg // format announced by each file's format description event
	fdeTS   uint32
}

// cfgOfFile is the format of a binlog file (the history's first format when the file is unknown).
func (h *history) cfgOfFile(file string) Cfg {
	if c, ok := h.fileCfg[file]; ok {
		return c
	}
	return h.cfg
}

// cfgAt is the format in force where the i-th event of the history is served.
func (h *history) cfgAt(i int) Cfg {
	if i >= 0 && i < len(h.events) {
		return h.events[i].cfg
	}
	if i >= len(h.events) && len(h.events) > 0 {
		return h.cfgOfFile(h.events[len(h.events)-1].file)
	}
	return h.cfg
}

var stmtCodes = map[string]int{"begin": 1, "commit": 2, "rollback": 3, "insert": 4, "update": 5, "delete": 6,
	"create": 7, "alter": 8, "drop": 9, "truncate": 10, "rename": 11, "set": 12}

func randCase(r *vh.Rng, s string) string {
	b := []byte(s)
	for i := range b {
		if r.Bool() {
			b[i] = byte(strings.ToUpper(string(b[i]))[0])
		}
	}
	return string(b)
}

type histOpts struct {
	units      int
	maxCols    int
	maxRows    int
	rotations  bool
	ignorables bool
	kindsOnly  []string // restrict unit kinds
	seq        []string // exact unit kinds, in order
	bigOffsets bool
	colCases   []int // restrict column types (genColumnCase cases)
	sameFormat bool  // every file has the same format and the files are numbered bin.00000N
	// oddCols: two tables in five get a column count just above a multiple of 8 (9..12, 17).  With a partial image
	// the presence bitmap then has more bytes than the rows' NULL bitmaps and unused bits in its last byte, so a
	// decoder that lets the padding bits (Cfg.PadCols) leak into the count of present columns reads the NULL
	// bitmap one byte too long.  Tables of up to 8 columns cannot show that.
	oddCols bool
	// rawTypes: every ignorable event is an event of one of these type codes (taken in turn), with a random body,
	// and ignorable events are frequent (every second slot instead of every sixth).
	// wideCols: the first table has 65..130 columns (column indices beyond one machine word of per-column flags)
	wideCols bool
	rawTypes []int
	// txDDL: a transaction may contain DDL-classified statements (CREATE / DROP TEMPORARY TABLE are logged inside the
	// transaction that ran them and do not commit it); they are part of the transaction and delivered at its commit.
	txDDL bool
	// hugeTx: the first transaction unit of the history has this many statements (a bulk load: tens of thousands of
	// events between one BEGIN and its commit), instead of 1..3
	hugeTx int
	// sameColCount: every table has as many columns as the first (used for tables that are re-announced with other
	// column types under the same id and name)
	sameColCount bool
	// tableIDBase: table i gets the id tableIDBase - i (0 = the generator's own choice)
	tableIDBase uint64
}

var allUnitKinds = []string{"txXid", "txCommit", "txRollback", "ddl", "autoRows", "stmtDml", "rotation", "restart", "ignorable", "unknownStmt", "setStmt", "emptyTx"}

// genHistory draws a history from the RBR grammar.
func genHistory(r *vh.Rng, cfg Cfg, o histOpts) *history {
	h := &history{cfg: cfg, fdeTS: uint32(r.U64()), fileCfg: map[string]Cfg{}}
	ntab := 1 + r.Intn(3)
	for i := 0; i < ntab; i++ {
		nc0 := 1 + r.Intn(o.maxCols)
		if o.sameColCount && i > 0 {
			nc0 = len(h.tables[0].cols)
		}
		t := genTable(r, nc0, cfg)
		if o.colCases != nil {
			t = genTableOf(r, nc0, cfg, o.colCases)
		}
		if q := r.Side(); o.oddCols && q.Chance(2, 5) {
			nc := q.Pick(9, 9, 10, 11, 12, 17)
			if o.colCases != nil {
				t = genTableOf(r, nc, cfg, o.colCases)
			} else {
				t = genTable(r, nc, cfg)
			}
		}
		if o.wideCols && i == 0 {
			nc := r.Side().Pick(65, 66, 70, 100, 129)
			if o.colCases != nil {
				t = genTableOf(r, nc, cfg, o.colCases)
			} else {
				t = genTable(r, nc, cfg)
			}
		}
		t.db, t.name = fmt.Sprintf("db%d", i%2), fmt.Sprintf("tab%d", i)
		t.id = uint64(100 + i)
		h.tables = append(h.tables, t)
	}
	// A table id is an opaque 4- or 6-byte number the master hands out; no value of it is special.  One history in four
	// uses ids at the edges of the 24-, 32- and 16-bit ranges (0xffffff is the id MySQL itself puts into the dummy rows
	// event that only carries STMT_END_F, and a replica that gives that value a meaning must not lose a real table).
	if tq := r.Side(); tq.Chance(1, 3) || o.tableIDBase != 0 {
		base := uint64(tq.Pick(0xffffff, 0xffffff, 0xffffff, 0x1000000, 0xffff, 0xfffffffe, 1))
		if o.tableIDBase != 0 {
			base = o.tableIDBase
		}
		for i := range h.tables {
			if base >= uint64(i) {
				h.tables[i].id = base - uint64(i)
			}
		}
	}
	fileNo := 1
	file := fmt.Sprintf("bin.%06d", fileNo)
	h.files = append(h.files, file)
	h.fileCfg[file] = cfg
	off := uint32(120 + r.Intn(20))
	// bigOffsets: offsets in the upper half of the 32-bit range, in one of three shapes - the whole file just below
	// 2^32; a file that walks across 2^31; or small offsets with one event (a huge transaction) that ends 2^31 bytes
	// or more after the one before it
	bigMode, jumpLeft := 0, 0
	var bq *vh.Rng
	if o.bigOffsets {
		bq = r.Side()
		bigMode = bq.Intn(3)
		switch bigMode {
		case 0:
			off = 0xfff00000 + uint32(r.Intn(1000))
		case 1:
			off = 0x7fffff00 - uint32(bq.Intn(600))
		case 2:
			jumpLeft = 1
		}
	}
	ts := uint32(1500000000 + r.Intn(1000))
	unit := 0
	// The server id of an event names the server the change ORIGINATED on; in a chained or circular topology a master
	// relays units of other origins, and an origin id may equal the id this replica announces (1234 at parse level,
	// 4000000000 / 5 / 9 / 11 / 77 end to end).  Every unit is delivered whatever its origin.
	sq := r.Side()
	unitSID, sidOfUnit := uint32(7), -1
	add := func(kind string, body vh.Val, t *tableDef, rd *rowsDef) int {
		if unit != sidOfUnit {
			sidOfUnit = unit
			unitSID = 7
			if sq.Chance(1, 3) {
				unitSID = uint32(sq.Pick(1234, 4000000000, 5, 9, 11, 77, 1, 0, int(uint32(sq.U64()))))
			}
		}
		ln := uint32(30 + r.Intn(200))
		if jumpLeft > 0 && off < 0x10000000 && bq.Chance(1, 4) {
			ln += 0x80000000 + uint32(bq.Intn(0x60000000))
			jumpLeft--
		}
		e := hEvent{kind: kind, body: body, file: file, start: off, next: off + ln, ts: ts, unit: unit, table: t, rows: rd, cfg: cfg, sid: unitSID}
		off += ln
		ts += uint32(r.Intn(3))
		h.events = append(h.events, e)
		return len(h.events) - 1
	}
	query := func(db, sql string, withCharset bool) (vh.Val, *[3]int) {
		var vars []vh.Val
		var cs *[3]int
		if r.Chance(1, 2) {
			vars = append(vars, vh.L(vh.I(0), vh.X(r.Bytes(4))))
		}
		if r.Chance(1, 2) {
			vars = append(vars, vh.L(vh.I(1), vh.X(r.Bytes(8))))
		}
		if r.Chance(1, 3) {
			vars = append(vars, vh.L(vh.I(6), vh.X([]byte{3, 's', 't', 'd'})))
		}
		if withCharset {
			a, b, cc := r.Intn(65536), r.Intn(65536), r.Intn(65536)
			cs = &[3]int{a, b, cc}
			vars = append(vars, vh.L(vh.I(4), vh.X([]byte{byte(a), byte(a >> 8), byte(b), byte(b >> 8), byte(cc), byte(cc >> 8)})))
		}
		if r.Chance(1, 3) {
			vars = append(vars, vh.L(vh.I(5), vh.X([]byte{3, 'U', 'T', 'C'})))
		}
		return vh.L(vh.A("query"), vh.I(int64(r.Intn(1000))), vh.I(int64(r.Intn(10))), vh.I(0), vh.L(vars...), vh.X([]byte(db)), vh.X([]byte(sql))), cs
	}
	rawNext, rawNextTx, inTx := 0, 0, false
	ignChance := func() bool {
		if len(o.rawTypes) > 0 {
			return o.ignorables
		}
		return o.ignorables && r.Chance(1, 6)
	}
	ignorable := func() {
		if len(o.rawTypes) > 0 {
			// two cycles over the codes: one for the events between units, one for those inside transactions
			var t int
			if inTx {
				t = o.rawTypes[rawNextTx%len(o.rawTypes)]
				rawNextTx++
			} else {
				t = o.rawTypes[rawNext%len(o.rawTypes)]
				rawNext++
			}
			add("raw", vh.L(vh.A("raw"), vh.I(int64(t)), vh.X(r.Bytes(r.Intn(24)))), nil, nil)
			return
		}
		switch r.Intn(6) {
		case 0:
			add("gtid", vh.L(vh.A("gtid"), vh.I(int64(r.Intn(2))), vh.X(r.Bytes(16)), vh.I(int64(1+r.Intn(1000)))), nil, nil)
		case 1:
			add("raw", vh.L(vh.A("raw"), vh.I(34), vh.X(r.Bytes(25))), nil, nil) // anonymous GTID
		case 2:
			add("raw", vh.L(vh.A("raw"), vh.I(35), vh.X(append([]byte{0, 0, 0, 0, 0, 0, 0, 0}, []byte{}...))), nil, nil) // previous GTIDs (empty set)
		case 3:
			add("raw", vh.L(vh.A("raw"), vh.I(27), vh.X([]byte(file))), nil, nil) // heartbeat
		case 4:
			add("raw", vh.L(vh.A("raw"), vh.I(int64(r.Pick(3, 14, 26, 36, 38, 100, 200))), vh.X(r.Bytes(r.Intn(20)))), nil, nil)
		default:
			q, _ := query("", randCase(r, r.PickS("savepoint", "flush", "grant", "analyze", "xa")+" something"), false)
			add("query-unknown", q, nil, nil)
		}
	}
	rowsStmt := func(ex *[]expEvent) {
		t := &h.tables[r.Intn(len(h.tables))]
		add("tablemap", t.bodyVal(), t, nil)
		if ignChance() {
			ignorable()
		}
		nev := 1
		if r.Chance(1, 5) {
			nev = 2
		}
		for j := 0; j < nev; j++ {
			kind := r.Intn(3)
			rd := genRows(r, *t, kind, r.Intn(o.maxRows+1), cfg)
			add("rows", rd.bodyVal(*t), t, &rd)
			typ := []int{4, 5, 6}[kind]
			*ex = append(*ex, expEvent{typ: typ, db: t.db, table: t.name, ts: h.events[len(h.events)-1].ts, ids: rd.before, vals: rd.after, tbl: t})
		}
	}
	commitTx := func(kind string, ex []expEvent, nilEv bool, nowFile string, now uint32) {
		last := len(h.events) - 1
		h.txs = append(h.txs, expTx{nowFile: nowFile, now: now, nextFile: file, next: h.events[last].next, ts: h.events[last].ts,
			events: ex, nilEvents: nilEv, unit: unit, commitIdx: last})
	}
	kinds := o.kindsOnly
	if kinds == nil {
		kinds = allUnitKinds
	}
	nowFile, now := file, off // the label the next transaction starts with; set by the caller through startPos
	if o.seq != nil {
		o.units = len(o.seq)
	}
	for u := 0; u < o.units; u++ {
		unit = u
		k := kinds[r.Intn(len(kinds))]
		if o.seq != nil {
			k = o.seq[u]
		}
		if (k == "rotation" || k == "restart") && !o.rotations && o.seq == nil {
			k = "ddl"
		}
		if k == "ignorable" && !o.ignorables && o.seq == nil {
			k = "ddl"
		}
		h.kinds = append(h.kinds, k)
		switch k {
		case "txXid", "txCommit", "txRollback", "emptyTx":
			q, _ := query("db0", randCase(r, "begin"), false)
			add("query", q, nil, nil)
			var ex []expEvent
			ns := 1 + r.Intn(3)
			if k == "emptyTx" {
				ns = 0
			}
			if o.hugeTx > 0 && k != "emptyTx" {
				ns = o.hugeTx
				o.hugeTx = 0
			}
			inTx = true
			for s := 0; s < ns; s++ {
				if ignChance() {
					ignorable()
				}
				if (o.txDDL && r.Chance(1, 3)) || r.Chance(1, 10) {
					sqlw := r.PickS("create", "drop", "alter", "truncate", "rename", "set")
					sql := randCase(r, sqlw) + r.PickS(" temporary table tmp1 (a int)", " table x", " @a=1")
					q, cs := query("db1", sql, r.Bool())
					add("query", q, nil, nil)
					ex = append(ex, expEvent{typ: stmtCodes[sqlw], qdb: "db1", qsql: sql, charset: cs, ts: h.events[len(h.events)-1].ts})
				} else if r.Chance(1, 6) {
					sqlw := r.PickS("insert", "update", "delete")
					sql := randCase(r, sqlw) + " into t values (1)"
					q, cs := query("db1", sql, r.Bool())
					add("query", q, nil, nil)
					ex = append(ex, expEvent{typ: stmtCodes[sqlw], qdb: "db1", qsql: sql, charset: cs, ts: h.events[len(h.events)-1].ts})
				} else {
					rowsStmt(&ex)
				}
			}
			inTx = false
			switch k {
			case "txXid", "emptyTx":
				add("xid", vh.L(vh.A("xid"), vh.U(r.U64())), nil, nil)
				commitTx(k, ex, false, nowFile, now)
			case "txCommit":
				q, _ := query("db0", randCase(r, "commit"), false)
				add("query", q, nil, nil)
				commitTx(k, ex, false, nowFile, now)
			case "txRollback":
				q, _ := query("db0", randCase(r, "rollback"), false)
				add("query", q, nil, nil)
				commitTx(k, nil, true, nowFile, now)
			}
		case "ddl", "setStmt", "stmtDml":
			w := r.PickS("create", "alter", "drop", "truncate", "rename")
			if k == "setStmt" {
				w = "set"
			}
			if k == "stmtDml" {
				w = r.PickS("insert", "update", "delete")
			}
			sql := randCase(r, w) + " table x (a int)"
			if r.Chance(1, 8) {
				sql = randCase(r, w) // no space at all
			}
			q, cs := query("db0", sql, r.Bool())
			add("query", q, nil, nil)
			commitTx(k, []expEvent{{typ: stmtCodes[w], qdb: "db0", qsql: sql, charset: cs, ts: h.events[len(h.events)-1].ts}}, false, nowFile, now)
		case "autoRows":
			var ex []expEvent
			t := &h.tables[r.Intn(len(h.tables))]
			add("tablemap", t.bodyVal(), t, nil)
			kind := r.Intn(3)
			rd := genRows(r, *t, kind, r.Intn(o.maxRows+1), cfg)
			add("rows", rd.bodyVal(*t), t, &rd)
			ex = append(ex, expEvent{typ: []int{4, 5, 6}[kind], db: t.db, table: t.name, ts: h.events[len(h.events)-1].ts, ids: rd.before, vals: rd.after, tbl: t})
			commitTx(k, ex, false, nowFile, now)
		case "rotation", "restart":
			fileNo++
			nf := fmt.Sprintf("bin.%06d", fileNo)
			oldCfg := cfg
			if !o.sameFormat {
				// the next file need not sort after this one (index suffix growing a digit, changed basename) ...
				switch r.Intn(5) {
				case 0:
					nf = fmt.Sprintf("aaa.%06d", fileNo)
				case 1:
					nf = fmt.Sprintf("zzz.%d", fileNo)
				case 2:
					nf = fmt.Sprintf("bin.%d", 1000000-fileNo) // '9' > '0': sorts after bin.00000N, and descending afterwards
				}
			}
			if k == "rotation" {
				add("rotate", vh.L(vh.A("rotate"), vh.I(4), vh.X([]byte(nf))), nil, nil)
			} else {
				// server restart: the old file ends with a STOP_EVENT; the switch is announced by the artificial rotate alone
				add("raw", vh.L(vh.A("raw"), vh.I(3), vh.X(nil)), nil, nil)
			}
			if !o.sameFormat {
				// ... and may have another format (SET GLOBAL binlog_checksum rotates the log; an upgraded master restarts)
				if r.Chance(1, 2) {
					cfg = baseCfg(r, r.Intn(len(baseCfgs)))
					if k == "rotation" || r.Bool() {
						cfg.V2, cfg.Tid4, cfg.HLen, cfg.NSizes = oldCfg.V2, oldCfg.Tid4, oldCfg.HLen, oldCfg.NSizes
						cfg.CRC = !oldCfg.CRC
					}
				}
			}
			h.fileCfg[nf] = cfg
			file = nf
			h.files = append(h.files, nf)
			off = uint32(120 + r.Intn(20))
			if bigMode == 2 {
				jumpLeft = 1
			}
			// the master then sends a fake rotate and the new file's format description
			// (the artificial rotate is written while the sender still uses the old file's checksum setting)
			h.events = append(h.events, hEvent{kind: "fakerotate", body: vh.L(vh.A("rotate"), vh.I(4), vh.X([]byte(nf))), file: nf, start: 4, next: 0, ts: 0, unit: u, cfg: oldCfg})
			h.events = append(h.events, hEvent{kind: "format", body: vh.L(vh.A("format"), vh.X([]byte("5.7.1-log"))), file: nf, start: 4, next: off, ts: h.fdeTS, unit: u, cfg: cfg})
			nowFile, now = nf, 4
			continue
		case "ignorable":
			ignorable()
			continue
		case "unknownStmt":
			q, _ := query("", randCase(r, r.PickS("savepoint", "flush", "grant", "optimize"))+" x", false)
			add("query-unknown", q, nil, nil)
			continue
		}
		nowFile, now = file, h.events[len(h.events)-1].next
	}
	return h
}

// encode fills in the bytes of every event through the specification encoders.
func (h *history) encode(c *Ctx) {
	reqs := make([]vh.Val, len(h.events))
	for i, e := range h.events {
		sid := e.sid
		if sid == 0 && (e.kind == "fakerotate" || e.kind == "format") {
			sid = 7
		}
		reqs[i] = mkEventReq(e.cfg, Hdr{TS: e.ts, SID: sid, Next: e.next, Flags: 0}, e.body, c.Rng.Bytes(4))
	}
	for i, resp := range c.M.Batch(reqs) {
		b, ok := resp.Nth(0).Hex()
		if !ok {
			panic("mkevent: " + resp.String())
		}
		h.events[i].bytes = b
	}
}

// serve: the packets a master sends for a dump starting at (file, off): fake rotate, format description, then
// every event of that file starting at or after off, and all later files.
func (h *history) serve(c *Ctx, file string, off uint32) (evs [][]byte, idx []int) {
	fc := h.cfgOfFile(file)
	fr := c.M.Call(mkEventReq(fc, Hdr{TS: 0, SID: 7, Next: 0, Flags: 0x20}, vh.L(vh.A("rotate"), vh.U(uint64(off)), vh.X([]byte(file))), []byte{0, 0, 0, 0}))
	b, _ := fr.Nth(0).Hex()
	evs = append(evs, b)
	idx = append(idx, -1)
	fd := c.M.Call(mkEventReq(fc, Hdr{TS: h.fdeTS, SID: 7, Next: 0, Flags: 0}, vh.L(vh.A("format"), vh.X([]byte("5.7.1-log"))), []byte{9, 9, 9, 9}))
	b, _ = fd.Nth(0).Hex()
	evs = append(evs, b)
	idx = append(idx, -1)
	started := false
	for i, e := range h.events {
		if !started {
			if e.file == file && e.start >= off && e.kind != "fakerotate" && e.kind != "format" {
				started = true
			} else if fileAfter(h.files, e.file, file) {
				started = true
			} else {
				continue
			}
		}
		evs = append(evs, e.bytes)
		idx = append(idx, i)
	}
	return
}

func fileAfter(files []string, f, ref string) bool {
	fi, ri := -1, -1
	for i, x := range files {
		if x == f {
			fi = i
		}
		if x == ref {
			ri = i
		}
	}
	return ri >= 0 && fi > ri
}

// expected canonical transactions (same S-expression form as the model's v_tx)
func (h *history) expectedTxVals(c *Ctx, txs []expTx, firstNowFile string, firstNow uint32) []vh.Val {
	// images -> expected columns through the specification (expect_image)
	var reqs []vh.Val
	type slot struct{ t, e, which, i int }
	var slots []slot
	for ti, tx := range txs {
		for ei, ev := range tx.events {
			for which, imgs := range [][][]vh.Val{ev.ids, ev.vals} {
				for ii, img := range imgs {
					tys := make([]vh.Val, len(ev.tbl.cols))
					for k, cd := range ev.tbl.cols {
						tys[k] = vh.L(cd.ty, vh.B(cd.uns))
					}
					reqs = append(reqs, vh.L(vh.A("expect_image"), vh.I(0), vh.L(tys...), vh.L(img...)))
					slots = append(slots, slot{ti, ei, which, ii})
				}
			}
		}
	}
	resps := c.M.Batch(reqs)
	imgVal := map[slot]vh.Val{}
	for i, s := range slots {
		imgVal[s] = resps[i]
	}
	out := make([]vh.Val, len(txs))
	for ti, tx := range txs {
		var evs vh.Val
		if tx.nilEvents || (len(tx.events) == 0 && h.kinds[tx.unit] != "emptyTx") {
			evs = vh.A("nil")
		} else {
			l := make([]vh.Val, len(tx.events))
			for ei, ev := range tx.events {
				cs := vh.A("nil")
				if ev.charset != nil {
					cs = vh.L(vh.I(int64(ev.charset[0])), vh.I(int64(ev.charset[1])), vh.I(int64(ev.charset[2])))
				}
				mkImgs := func(which int, imgs [][]vh.Val) vh.Val {
					rs := make([]vh.Val, len(imgs))
					for ii := range imgs {
						cols := imgVal[slot{ti, ei, which, ii}]
						cv := make([]vh.Val, len(cols.List))
						for k, cc := range cols.List { // (code absent data)
							data := cc.Nth(2)
							if b, ok := data.Hex(); ok {
								data = vh.X(substFloat(b))
							}
							cv[k] = vh.L(vh.X([]byte(ev.tbl.cols[k].field)), cc.Nth(0), cc.Nth(1), data)
						}
						rs[ii] = vh.L(cv...)
					}
					return vh.L(rs...)
				}
				l[ei] = vh.L(vh.I(int64(ev.typ)), vh.L(vh.X([]byte(ev.db)), vh.X([]byte(ev.table))),
					vh.L(vh.X([]byte(ev.qdb)), vh.X([]byte(ev.qsql)), cs), vh.U(uint64(ev.ts)),
					mkImgs(1, ev.vals), mkImgs(0, ev.ids))
			}
			evs = vh.L(l...)
		}
		nf, no := tx.nowFile, tx.now
		out[ti] = vh.L(vh.L(vh.X([]byte(nf)), vh.U(uint64(no))), vh.L(vh.X([]byte(tx.nextFile)), vh.U(uint64(tx.next))), vh.U(uint64(tx.ts)), evs)
	}
	return out
}

func (h *history) mapperVals() []vh.Val {
	vs := make([]vh.Val, len(h.tables))
	for i, t := range h.tables {
		vs[i] = t.mapperVal()
	}
	return vs
}
