package main

// C19 — GTIDs survive every encoding; MariaDB sets keep one position per domain.
//
// Implementation vs model ("corr"): every printer / parser (also on malformed text), the Go
// library text functions the model relies on, SID blocks (also truncated / inconsistent),
// GTID event bodies.  Implementation vs specification ("spec"): round trips on the Go side,
// decoders against the identifiers handed to the specification's encoders, MariaDB covering
// rule (maria_coversb), one position per domain, and purity of every call (String() of every
// input re-read after the call; for AddGTID also every set created earlier in the history).

import (
	"encoding/hex"
	"fmt"
	"math"
	"strconv"
	"strings"

	"github.com/Breeze0806/gobinlog/replication"
	"verif/harness/internal/vh"
)

func init() { runners["C19"] = runC19 }

type c19 struct{ c *Ctx }

func xs(s string) vh.Val { return vh.X([]byte(s)) }

func errOrOk(err error, f func() []vh.Val) vh.Val {
	if err != nil {
		return vh.ErrV("other")
	}
	return vh.Ok(f()...)
}

func gtidVal(g replication.GTID) vh.Val {
	switch x := g.(type) {
	case nil:
		return vh.A("nil")
	case replication.Mysql56GTID:
		return vh.L(vh.A("m56"), vh.X(x.Server[:]), vh.I(x.Sequence))
	case replication.MariadbGTID:
		return vh.L(vh.A("maria"), vh.U(uint64(x.Domain)), vh.U(uint64(x.Server)), vh.U(x.Sequence))
	}
	return vh.A("?")
}

func (k *c19) corr(what, cas string, model, impl vh.Val, inDom bool) bool {
	if model.String() != impl.String() {
		addCapped(k.c, vh.Mismatch{Kind: "corr", What: what, Case: cas, Model: model.String(), Impl: impl.String(), InDomain: inDom})
		return false
	}
	return true
}

func (k *c19) spec(what, cas string, expected, impl string) {
	addCapped(k.c, vh.Mismatch{Kind: "spec", What: what, Case: cas, Expected: expected, Impl: impl, InDomain: true})
}

// ---------- 1. Go library text functions against their models ----------
func randFrom(r *vh.Rng, alphabet string, maxLen int) string {
	n := r.Intn(maxLen + 1)
	b := make([]byte, n)
	for i := range b {
		b[i] = alphabet[r.Intn(len(alphabet))]
	}
	return string(b)
}

func hexList(parts []string) vh.Val {
	out := make([]vh.Val, len(parts))
	for i, p := range parts {
		out[i] = xs(p)
	}
	return vh.L(out...)
}

func intRes(v int64, err error) vh.Val {
	if err != nil {
		return vh.ErrV("other")
	}
	return vh.Ok(vh.I(v))
}
func uintRes(v uint64, err error) vh.Val {
	if err != nil {
		return vh.ErrV("other")
	}
	return vh.Ok(vh.U(v))
}

var numberTexts = []string{"", "+", "-", "+5", "-5", "5", "05", "0005", "5_0", "_5", "0x10", "0b1", "0o7", " 5", "5 ", "5\n",
	"9223372036854775807", "9223372036854775808", "+9223372036854775807", "+9223372036854775808", "-9223372036854775808",
	"-9223372036854775809", "18446744073709551615", "18446744073709551616", "99999999999999999999999999", "-99999999999999999999999999",
	"000000000000000000000000000000000000009223372036854775807", "4294967295", "4294967296", "-4294967296", "2147483647", "2147483648",
	"-2147483648", "-2147483649", "--5", "+-5", "-+5", "++5", "1e3", "1.0", "\xef\xbc\x95", "5\x00", "1-2", "0", "-0", "+0", "00", "a", "A", "१"}

func (k *c19) library() {
	c := k.c
	r := c.Rng
	type cs struct {
		req  vh.Val
		impl vh.Val
		cls  string
	}
	var cases []cs
	add := func(cls string, req, impl vh.Val) { cases = append(cases, cs{req, impl, cls}) }
	n := c.N(400, 6000)
	for i := 0; i < n; i++ {
		sep := ",:-/"[r.Intn(4)]
		s := randFrom(r, string([]byte{sep, sep, 'a', 'b', ' '}), 9)
		add("lib/Split", vh.L(vh.A("t.split"), vh.I(int64(sep)), xs(s)), hexList(strings.Split(s, string(sep))))
		add("lib/SplitN2", vh.L(vh.A("t.splitn2"), vh.I(int64(sep)), xs(s)), hexList(strings.SplitN(s, string(sep), 2)))
		t := randFrom(r, " \t\n\v\f\ra\x08\x0e\x1f\x00:", 8)
		add("lib/TrimSpace", vh.L(vh.A("t.trim"), xs(t)), xs(strings.TrimSpace(t)))
		// numbers
		var num string
		switch r.Intn(4) {
		case 0:
			num = numberTexts[r.Intn(len(numberTexts))]
		case 1:
			num = randFrom(r, "+-", 1) + randFrom(r, "0123456789", 22)
		case 2:
			num = randFrom(r, "+-", 1) + strconv.FormatUint(r.U64()>>uint(r.Intn(64)), 10)
		default:
			num = randFrom(r, "0123456789+-_ ax", 6)
		}
		for _, bits := range []int{32, 64} {
			iv, ierr := strconv.ParseInt(num, 10, bits)
			add(fmt.Sprintf("lib/ParseInt%d", bits), vh.L(vh.A("t.parse_int"), vh.I(int64(bits)), xs(num)), intRes(iv, ierr))
			uv, uerr := strconv.ParseUint(num, 10, bits)
			add(fmt.Sprintf("lib/ParseUint%d", bits), vh.L(vh.A("t.parse_uint"), vh.I(int64(bits)), xs(num)), uintRes(uv, uerr))
		}
		z := int64(r.U64()) >> uint(r.Intn(64))
		add("lib/FormatInt", vh.L(vh.A("t.format_int"), vh.I(z)), xs(strconv.FormatInt(z, 10)))
		b := r.Bytes(r.Intn(9))
		add("lib/hex.Encode", vh.L(vh.A("t.hex_encode"), vh.X(b)), xs(hex.EncodeToString(b)))
		h := randFrom(r, "0123456789abcdefABCDEFgG-", 8)
		if r.Bool() {
			h = hex.EncodeToString(b)
			if r.Bool() {
				h = strings.ToUpper(h)
			}
		}
		dst := make([]byte, len(h)/2+1)
		nn, herr := hex.Decode(dst, []byte(h))
		hv := vh.ErrV("other")
		if herr == nil {
			hv = vh.Ok(vh.X(dst[:nn]))
		}
		add("lib/hex.Decode", vh.L(vh.A("t.hex_decode"), xs(h)), hv)
	}
	for _, num := range numberTexts {
		iv, ierr := strconv.ParseInt(num, 10, 64)
		add("lib/ParseInt64", vh.L(vh.A("t.parse_int"), vh.I(64), xs(num)), intRes(iv, ierr))
		uv, uerr := strconv.ParseUint(num, 10, 64)
		add("lib/ParseUint64", vh.L(vh.A("t.parse_uint"), vh.I(64), xs(num)), uintRes(uv, uerr))
		uv, uerr = strconv.ParseUint(num, 10, 32)
		add("lib/ParseUint32", vh.L(vh.A("t.parse_uint"), vh.I(32), xs(num)), uintRes(uv, uerr))
	}
	for _, z := range []int64{0, 1, -1, 9, 10, math.MaxInt64, math.MinInt64} {
		add("lib/FormatInt", vh.L(vh.A("t.format_int"), vh.I(z)), xs(strconv.FormatInt(z, 10)))
	}
	reqs := make([]vh.Val, len(cases))
	for i, cse := range cases {
		reqs[i] = cse.req
	}
	for i, resp := range c.M.Batch(reqs) {
		c.R.Count(cases[i].cls + "/" + resClass(cases[i].impl))
		k.corr("Go library text function differs from its model ("+cases[i].cls+")", reqs[i].String(), resp, cases[i].impl, true)
	}
}

func resClass(v vh.Val) string {
	if v.IsL && len(v.List) > 0 && (v.List[0].Atom == "ok" || v.List[0].Atom == "err" || v.List[0].Atom == "panic") {
		return v.List[0].Atom
	}
	return "value"
}

// ---------- 2. SID text ----------
func (k *c19) sidText() {
	c := k.c
	r := c.Rng
	var sids [][16]byte
	sids = append(sids, sidPool...)
	for i := 0; i < 16; i++ { // every byte position carries a distinguishing value
		var s [16]byte
		s[i] = 0xa5
		sids = append(sids, s)
	}
	for i := 0; i < c.N(150, 3000); i++ {
		sids = append(sids, randSid(r))
	}
	var reqs []vh.Val
	for _, s := range sids {
		reqs = append(reqs, vh.L(vh.A("g.sid_string"), sidVal(s)))
	}
	resps := c.M.Batch(reqs)
	var texts []string
	for i, s := range sids {
		c.R.Count("sid/string+roundtrip")
		txt := replication.SID(s).String()
		texts = append(texts, txt)
		k.corr("SID.String differs from the model", reqs[i].String(), resps[i], xs(txt), true)
		if txt != sidText(s) {
			k.spec("SID.String is not the 8-4-4-4-12 lower-case hex form", reqs[i].String(), sidText(s), txt)
		}
		back, err := replication.ParseSID(txt)
		if err != nil || back != replication.SID(s) {
			k.spec("ParseSID(SID.String(x)) != x", reqs[i].String(), sidText(s), fmt.Sprint(back, err))
		}
	}
	// malformed / variant texts
	var muts []string
	for i := 0; i < c.N(600, 12000); i++ {
		muts = append(muts, mutateText(r, texts[r.Intn(len(texts))], "0123456789abcdefABCDEFg-: "))
	}
	muts = append(muts, "", "-", strings.Repeat("-", 36), strings.ToUpper(texts[0]), texts[0]+" ", " "+texts[0])
	reqs = reqs[:0]
	for _, m := range muts {
		reqs = append(reqs, vh.L(vh.A("g.parse_sid"), xs(m)))
	}
	for i, resp := range c.M.Batch(reqs) {
		sid, err := replication.ParseSID(muts[i])
		impl := errOrOk(err, func() []vh.Val { return []vh.Val{vh.X(sid[:])} })
		c.R.Count("sid/parse-mutated/" + resClass(impl))
		k.corr("ParseSID differs from the model", reqs[i].String()+" text="+strconv.Quote(muts[i]), resp, impl, false)
	}
}

// mutateText applies 1..3 random edits (replace, delete, insert, swap, upper-case, truncate)
func mutateText(r *vh.Rng, s string, alphabet string) string {
	b := []byte(s)
	for e := 1 + r.Intn(3); e > 0; e-- {
		switch op := r.Intn(7); {
		case op == 0 && len(b) > 0:
			b[r.Intn(len(b))] = alphabet[r.Intn(len(alphabet))]
		case op == 1 && len(b) > 0:
			i := r.Intn(len(b))
			b = append(b[:i], b[i+1:]...)
		case op == 2:
			i := r.Intn(len(b) + 1)
			b = append(b[:i], append([]byte{alphabet[r.Intn(len(alphabet))]}, b[i:]...)...)
		case op == 3 && len(b) > 1:
			i := r.Intn(len(b) - 1)
			b[i], b[i+1] = b[i+1], b[i]
		case op == 4 && len(b) > 0:
			i := r.Intn(len(b))
			b[i] = strings.ToUpper(string(b[i : i+1]))[0]
		case op == 5 && len(b) > 0:
			b = b[:r.Intn(len(b))]
		default:
		}
	}
	return string(b)
}

// ---------- 3. single GTIDs, both flavors, and the flavor-tagged encoding ----------
func randSeq(r *vh.Rng) int64 {
	switch r.Intn(6) {
	case 0:
		return 1
	case 1:
		return math.MaxInt64
	case 2:
		return int64(1 + r.Intn(100))
	case 3:
		return math.MaxInt64 - int64(r.Intn(100))
	default:
		v := int64(r.U64() >> uint(1+r.Intn(62)))
		if v < 1 {
			v = 1
		}
		return v
	}
}

func randU32(r *vh.Rng) uint32 {
	switch r.Intn(5) {
	case 0:
		return 0
	case 1:
		return math.MaxUint32
	case 2:
		return uint32(r.Intn(10))
	default:
		return uint32(r.U64() >> uint(32+r.Intn(32)))
	}
}

func randU64(r *vh.Rng) uint64 {
	switch r.Intn(6) {
	case 0:
		return 0
	case 1:
		return math.MaxUint64
	case 2:
		return uint64(r.Intn(10))
	case 3:
		return math.MaxInt64 + uint64(r.Intn(3)) - 1
	default:
		return r.U64() >> uint(r.Intn(64))
	}
}

func randMaria(r *vh.Rng) replication.MariadbGTID {
	return replication.MariadbGTID{Domain: randU32(r), Server: randU32(r), Sequence: randU64(r)}
}

func mgVal(g replication.MariadbGTID) vh.Val {
	return vh.L(vh.U(uint64(g.Domain)), vh.U(uint64(g.Server)), vh.U(g.Sequence))
}

func (k *c19) gtids() {
	c := k.c
	r := c.Rng
	var texts, encs []string
	n := c.N(300, 6000)
	var reqs []vh.Val
	var gs []replication.GTID
	for i := 0; i < n; i++ {
		var g replication.GTID
		if r.Bool() {
			g = replication.Mysql56GTID{Server: replication.SID(randSid(r)), Sequence: randSeq(r)}
		} else {
			g = randMaria(r)
		}
		gs = append(gs, g)
		if m, ok := g.(replication.Mysql56GTID); ok {
			reqs = append(reqs, vh.L(vh.A("g.g56_string"), vh.L(vh.X(m.Server[:]), vh.I(m.Sequence))))
		} else {
			reqs = append(reqs, vh.L(vh.A("g.mgtid_string"), mgVal(g.(replication.MariadbGTID))))
		}
		reqs = append(reqs, vh.L(vh.A("g.encode_gtid"), gtidVal(g)))
	}
	resps := c.M.Batch(reqs)
	for i, g := range gs {
		fl := g.Flavor()
		c.R.Count("gtid/" + fl + "/string+encode+roundtrips")
		cas := gtidVal(g).String()
		txt := g.String()
		enc := replication.EncodeGTID(g)
		texts = append(texts, txt)
		encs = append(encs, enc)
		k.corr("GTID.String differs from the model", cas, resps[2*i], xs(txt), true)
		k.corr("EncodeGTID differs from the model", cas, resps[2*i+1], xs(enc), true)
		// specification: the text forms documented by the servers
		var want string
		switch x := g.(type) {
		case replication.Mysql56GTID:
			want = sidText(x.Server) + ":" + strconv.FormatInt(x.Sequence, 10)
		case replication.MariadbGTID:
			want = fmt.Sprintf("%d-%d-%d", x.Domain, x.Server, x.Sequence)
		}
		if txt != want {
			k.spec("GTID.String is not the flavor's text form", cas, want, txt)
		}
		// round trips on the implementation
		var back replication.GTID
		var err error
		if fl == "MySQL56" {
			back, err = replication.VerifParseMysql56GTID(txt)
		} else {
			back, err = replication.VerifParseMariadbGTID(txt)
		}
		if err != nil || back != g {
			k.spec("flavor parser(String(g)) != g", cas, cas, fmt.Sprint(gtidVal(back), err))
		}
		back, err = replication.ParseGTID(fl, txt)
		if err != nil || back != g {
			k.spec("ParseGTID(flavor, String(g)) != g", cas, cas, fmt.Sprint(gtidVal(back), err))
		}
		back, err = replication.DecodeGTID(enc)
		if err != nil || back != g {
			k.spec("DecodeGTID(EncodeGTID(g)) != g", cas, cas, fmt.Sprint(gtidVal(back), err))
		}
	}
	// nil
	c.R.Count("gtid/nil/encode+decode")
	rn := c.M.Batch([]vh.Val{vh.L(vh.A("g.encode_gtid"), vh.A("nil")), vh.L(vh.A("g.decode_gtid"), vh.A("x"))})
	k.corr("EncodeGTID(nil) differs from the model", "nil", rn[0], xs(replication.EncodeGTID(nil)), true)
	gn, en := replication.DecodeGTID("")
	k.corr("DecodeGTID(\"\") differs from the model", "empty", rn[1], errOrOk(en, func() []vh.Val { return []vh.Val{gtidVal(gn)} }), true)
	if gn != nil || en != nil {
		k.spec("DecodeGTID(EncodeGTID(nil)) != nil", "nil", "nil", fmt.Sprint(gn, en))
	}

	// malformed texts through every parser
	fixed := []string{"", ":", "::", "MySQL56", "MySQL56/", "/", "/1-2-3", "MariaDB/1-2-3/4", "MariaDB/1-2-3", "mariadb/1-2-3", "MySQL56/1-2-3", "MariaDB//1-2-3",
		"Foo/1-2-3", "1-2-3", "1-2", "1-2-3-4", "1--3", "-1-2-3", "+1-2-3", "1-+2-3", "4294967296-1-1", "1-4294967296-1", "1-1-18446744073709551616",
		"1-1-18446744073709551615", "4294967295-4294967295-18446744073709551615", "01-02-03", " 1-2-3", "1-2-3 ", "1_0-2-3",
		texts[0] + ":1", texts[0] + "/", "MySQL56/" + sidText(sidPool[1]) + ":+5", "MySQL56/" + sidText(sidPool[1]) + ":-5", "MySQL56/" + sidText(sidPool[1]) + ":5_0",
		"MySQL56/" + sidText(sidPool[1]) + ":", "MySQL56/" + sidText(sidPool[1]) + ":9223372036854775808", "MySQL56/" + sidText(sidPool[1]) + ":9223372036854775807",
		"MySQL56/" + sidText(sidPool[1]) + ":-9223372036854775808", "MySQL56/" + strings.ToUpper(sidText(sidPool[4])) + ":7", "MySQL56/" + sidText(sidPool[1]) + ":1:2", "MySQL56/" + sidText(sidPool[1]) + ": 1"}
	var muts []string
	muts = append(muts, fixed...)
	for i := 0; i < c.N(500, 10000); i++ {
		src := encs[r.Intn(len(encs))]
		if r.Bool() {
			src = texts[r.Intn(len(texts))]
		}
		muts = append(muts, mutateText(r, src, "0123456789abcdefABCDEF-:/+_ MySQL56ariDB"))
	}
	reqs = reqs[:0]
	for _, m := range muts {
		reqs = append(reqs, vh.L(vh.A("g.decode_gtid"), xs(m)), vh.L(vh.A("g.parse_g56"), xs(m)), vh.L(vh.A("g.parse_mgtid"), xs(m)))
	}
	resps = c.M.Batch(reqs)
	for i, m := range muts {
		q := " text=" + strconv.Quote(m)
		g, err := replication.DecodeGTID(m)
		impl := errOrOk(err, func() []vh.Val { return []vh.Val{gtidVal(g)} })
		c.R.Count("gtid/decode-mutated/" + resClass(impl))
		k.corr("DecodeGTID differs from the model", reqs[3*i].String()+q, resps[3*i], impl, false)
		g, err = replication.VerifParseMysql56GTID(m)
		impl = errOrOk(err, func() []vh.Val {
			x := g.(replication.Mysql56GTID)
			return []vh.Val{vh.L(vh.X(x.Server[:]), vh.I(x.Sequence))}
		})
		c.R.Count("gtid/parse56-mutated/" + resClass(impl))
		k.corr("parseMysql56GTID differs from the model", reqs[3*i+1].String()+q, resps[3*i+1], impl, false)
		g, err = replication.VerifParseMariadbGTID(m)
		impl = errOrOk(err, func() []vh.Val { return []vh.Val{mgVal(g.(replication.MariadbGTID))} })
		c.R.Count("gtid/parseMaria-mutated/" + resClass(impl))
		k.corr("parseMariadbGTID differs from the model", reqs[3*i+2].String()+q, resps[3*i+2], impl, false)
	}
}

// ---------- 4. text and SID-block forms of 5.6 sets ----------
func (k *c19) canonicalSets() []aset {
	c := k.c
	r := c.Rng
	var sets []aset
	sets = append(sets, aset{}) // 0 members
	// every number of members 0..8
	for n := 0; n <= 8; n++ {
		for rep := 0; rep < c.N(6, 60); rep++ {
			var s aset
			seen := map[[16]byte]bool{}
			for len(s) < n {
				u := randSid(r)
				if seen[u] {
					continue
				}
				seen[u] = true
				s = append(s, aent{u, randIvs(r, 1+r.Intn(5), r.Chance(1, 6))})
			}
			sortAset(s)
			sets = append(sets, s)
		}
	}
	// small exhaustive: every set of two UUIDs over window 4
	enumSets(2, 4, 0, func(_ []uint, s aset) { sets = append(sets, cloneAset(s)) })
	return sets
}

func setRes(g replication.GTIDSet, err error) vh.Val {
	if err != nil {
		return vh.ErrV("other")
	}
	s, b := obs56(g)
	return vh.Ok(xs(s), vh.X(b))
}

// model response (ok set (str blk canonb)) -> (ok str blk)
func modelSetRes(v vh.Val) vh.Val {
	if v.Nth(0).Atom != "ok" {
		return v
	}
	return vh.Ok(v.Nth(2).Nth(0), v.Nth(2).Nth(1))
}

func (k *c19) sets56() {
	c := k.c
	r := c.Rng
	sets := k.canonicalSets()
	var reqs []vh.Val
	for _, s := range sets {
		reqs = append(reqs, vh.L(vh.A("g.set_obs"), s.val()), vh.L(vh.A("g.enc_sid_block"), s.val()))
	}
	resps := c.M.Batch(reqs)
	var texts []string
	var blocks [][]byte
	for i, s := range sets {
		c.R.Count(fmt.Sprintf("set56/%d-uuids/text+block+roundtrips", len(s)))
		if i%37 == 0 {
			c.R.Sample(trunc(reqs[2*i].String(), 300))
		}
		cas := trunc(s.val().String(), 1500)
		so := resps[2*i]
		if so.Nth(2).Atom != "1" {
			addCapped(c, vh.Mismatch{Kind: "selfcheck", What: "generator produced a non-canonical set", Case: cas})
		}
		for how := 0; how < 3; how++ {
			impl := mkSet(s, how)
			str, blk := obs56(impl)
			k.corr("String/SIDBlock of a set differ from the model", cas, vh.L(so.Nth(0), so.Nth(1)), vh.L(xs(str), vh.X(blk)), true)
			// specification: canonical text, and the block the master writes
			if str != s.text() {
				k.spec("String of a canonical set is not its canonical text", cas, s.text(), str)
			}
			if vh.X(blk).Atom != resps[2*i+1].Atom {
				k.spec("SIDBlock differs from the specification's encoder", cas, resps[2*i+1].Atom, vh.X(blk).Atom)
			}
			// round trips on the implementation
			w := snap(impl)
			back, err := replication.VerifParseMysql56GTIDSet(str)
			if err != nil || back.String() != str || !back.Equal(impl) || !impl.Equal(back) {
				k.spec("parseMysql56GTIDSet(String(s)) != s", cas, str, fmt.Sprint(back, err))
			}
			b2, err := replication.NewMysql56GTIDSetFromSIDBlock(vh.Exact(blk))
			if err != nil || b2.String() != str || !b2.Equal(impl) || !impl.Equal(b2) {
				k.spec("NewMysql56GTIDSetFromSIDBlock(SIDBlock(s)) != s", cas, str, fmt.Sprint(b2, err))
			}
			w.check(c, "String/SIDBlock/Equal", cas)
			if how == 0 {
				texts = append(texts, str)
				blocks = append(blocks, blk)
			}
		}
	}

	// the set of 0 members held as the zero value of the exported type (a nil map; what `var s Mysql56GTIDSet` and a
	// foreign-flavor AddGTID on it give): same text, same block, and equal to its own round trips and to the allocated
	// empty set, in both directions
	{
		var z replication.Mysql56GTIDSet
		c.R.Count("set56/0-uuids/zero-value")
		out := vh.Try(func() vh.Val {
			str, blk := obs56(z)
			b2, err := replication.NewMysql56GTIDSetFromSIDBlock(vh.Exact(blk))
			back, err2 := replication.VerifParseMysql56GTIDSet(str)
			alloc := replication.Mysql56GTIDSet{}
			ok := err == nil && err2 == nil && b2.Equal(z) && z.Equal(b2) && back.Equal(z) && z.Equal(back) && alloc.Equal(z) && z.Equal(alloc) &&
				b2.String() == str && back.String() == str && z.Contains(b2) && b2.Contains(z)
			return vh.Ok(xs(str), vh.X(blk), vh.B(ok))
		})
		want := vh.Ok(xs(""), vh.X(make([]byte, 8)), vh.B(true))
		if out.String() != want.String() {
			k.spec("the zero-value empty set is not equal to its text / SID-block round trips", "Mysql56GTIDSet(nil)", want.String(), out.String())
		}
	}

	// what was returned earlier is still what it was (a result that shares storage with a later call's result is not a
	// value): every block and text kept from the loop above is compared once more, after all the other calls
	for i := range blocks {
		if i < len(sets) && vh.X(blocks[i]).Atom != resps[2*i+1].Atom {
			k.spec("a SIDBlock returned earlier changed after later calls", trunc(sets[i].val().String(), 600), resps[2*i+1].Atom, vh.X(blocks[i]).Atom)
			break
		}
		if i < len(sets) && texts[i] != sets[i].text() {
			k.spec("a String() returned earlier changed after later calls", trunc(sets[i].val().String(), 600), sets[i].text(), texts[i])
			break
		}
	}

	// non-canonical and malformed texts
	ivTemplates := []string{"%d", "%d-%d", "%[2]d-%[1]d", "%d-%[1]d", "0", "0-%d", "-%d", "+%d", "0%d", "%d-", "-", "", "%d-%d-%d", " %d", "%d ", "a", "%d-a",
		"9223372036854775807", "9223372036854775808", "1-9223372036854775807", "%d-0", "%d_0"}
	var muts []string
	muts = append(muts, "", " ", ",", " , ,", "\t\n", ":", "x", sidText(sidPool[0]), sidText(sidPool[0])+":", sidText(sidPool[0])+"::1", sidText(sidPool[0])+":1,",
		","+sidText(sidPool[0])+":1", sidText(sidPool[0])+":1,"+sidText(sidPool[0])+":5-7", sidText(sidPool[0])+":5-7:1-3:4", sidText(sidPool[0])+":1-3:2-5:3",
		sidText(sidPool[0])+":3:3:3", sidText(sidPool[0])+":5-1", sidText(sidPool[0])+":5-1,"+sidText(sidPool[1])+":2", strings.ToUpper(sidText(sidPool[4]))+":1-2",
		sidText(sidPool[3])+":1,"+sidText(sidPool[0])+":1", sidText(sidPool[0])+" :1", sidText(sidPool[0])+": 1", sidText(sidPool[0])+":1 -2", "\v"+sidText(sidPool[0])+":1\f")
	for i := 0; i < c.N(500, 10000); i++ {
		if r.Chance(1, 3) {
			muts = append(muts, mutateText(r, texts[r.Intn(len(texts))], "0123456789abcdefABCDEF-:,+ \t"))
			continue
		}
		var items []string
		for n := r.Intn(4); n >= 0; n-- {
			if r.Chance(1, 8) {
				items = append(items, randFrom(r, " \t", 2))
				continue
			}
			u := sidText(sidPool[r.Intn(3)])
			switch r.Intn(10) {
			case 0:
				u = strings.ToUpper(sidText(sidPool[4]))
			case 1:
				u = mutateText(r, u, "0123456789abcdefg-")
			}
			it := u
			for m := r.Intn(7); m > 0; m-- { // at most 6 intervals: Go's sort stays in its stable insertion-sort range
				a, b := 1+r.Intn(12), 1+r.Intn(12)
				tmpl := ivTemplates[0]
				if r.Chance(2, 3) {
					tmpl = ivTemplates[r.Intn(2)]
					if a > b {
						a, b = b, a
					}
				} else {
					tmpl = ivTemplates[r.Intn(len(ivTemplates))]
				}
				txt := fmt.Sprintf(tmpl, a, b, 1+r.Intn(12))
				if i := strings.Index(txt, "%!"); i >= 0 { // unused arguments
					txt = txt[:i]
				}
				it += ":" + txt
			}
			items = append(items, randFrom(r, " ", 1)+it+randFrom(r, " \n", 1))
		}
		muts = append(muts, strings.Join(items, ","))
	}
	reqs = reqs[:0]
	for _, m := range muts {
		reqs = append(reqs, vh.L(vh.A("g.parse_set"), xs(m)))
	}
	resps = c.M.Batch(reqs)
	for i, m := range muts {
		g, err := replication.VerifParseMysql56GTIDSet(m)
		impl := setRes(g, err)
		cls := resClass(impl)
		if cls == "ok" && resps[i].Nth(2).Nth(2).Atom == "0" {
			cls = "ok-noncanonical"
		}
		c.R.Count("set56/parse-variant/" + cls)
		k.corr("parseMysql56GTIDSet differs from the model", reqs[i].String()+" text="+strconv.Quote(m), modelSetRes(resps[i]), impl, false)
	}
	// interval parser alone
	var ivs []string
	for i := 0; i < c.N(200, 3000); i++ {
		ivs = append(ivs, mutateText(r, fmt.Sprintf(ivTemplates[r.Intn(len(ivTemplates))], r.Intn(30), r.Intn(30), r.Intn(30)), "0123456789-+ _"))
	}
	reqs = reqs[:0]
	for _, m := range ivs {
		reqs = append(reqs, vh.L(vh.A("g.parse_interval"), xs(m)))
	}
	for i, resp := range c.M.Batch(reqs) {
		a, b, err := replication.VerifParseInterval(ivs[i])
		impl := errOrOk(err, func() []vh.Val { return []vh.Val{vh.L(vh.I(a), vh.I(b))} })
		c.R.Count("set56/parseInterval/" + resClass(impl))
		k.corr("parseInterval differs from the model", reqs[i].String()+" text="+strconv.Quote(ivs[i]), resp, impl, false)
	}

	// SID blocks: every prefix of some blocks, and inconsistent counts / duplicates / trailing bytes
	var blks [][]byte
	for i := 0; i < c.N(6, 40); i++ {
		b := blocks[r.Intn(len(blocks))]
		if len(b) > 400 {
			continue
		}
		for cut := 0; cut < len(b); cut++ {
			blks = append(blks, b[:cut])
		}
	}
	for i := 0; i < c.N(300, 6000); i++ {
		b := append([]byte(nil), blocks[r.Intn(len(blocks))]...)
		switch r.Intn(6) {
		case 0: // a count field changed
			off := 0
			if len(b) >= 32 && r.Bool() {
				off = 24
			}
			b[off+r.Intn(8)] = byte(r.Intn(4))
		case 1:
			b = append(b, r.Bytes(1+r.Intn(20))...)
		case 2: // duplicate the entries (same UUIDs again) and double the count
			if len(b) > 8 && b[0] < 100 {
				b = append(b, b[8:]...)
				b[0] *= 2
			}
		case 3:
			if len(b) > 0 {
				b[r.Intn(len(b))] ^= 1 << uint(r.Intn(8))
			}
		case 4: // a UUID with zero intervals in front
			if len(b) >= 8 && b[0] < 255 {
				nb := append([]byte{}, b[:8]...)
				nb[0]++
				nb = append(nb, r.Bytes(16)...)
				nb = append(nb, 0, 0, 0, 0, 0, 0, 0, 0)
				b = append(nb, b[8:]...)
			}
		default:
			b = r.Bytes(r.Intn(60))
		}
		blks = append(blks, b)
	}
	reqs = reqs[:0]
	for _, b := range blks {
		reqs = append(reqs, vh.L(vh.A("g.from_sid_block"), vh.X(b)))
	}
	resps = c.M.Batch(reqs)
	for i, b := range blks {
		g, err := replication.NewMysql56GTIDSetFromSIDBlock(vh.Exact(b))
		impl := vh.ErrV("other")
		if err == nil {
			impl = setRes(g, nil)
		}
		c.R.Count("set56/sidblock-variant/" + resClass(impl))
		k.corr("NewMysql56GTIDSetFromSIDBlock differs from the model", reqs[i].String(), modelSetRes(resps[i]), impl, false)
	}
}

// ---------- 5. events ----------
var (
	goldenMysql56GTIDEvent = []byte{0xff, 0x4e, 0x49, 0x55, 0x21, 0x64, 0x0, 0x0, 0x0, 0x30, 0x0, 0x0, 0x0, 0xf5, 0x2, 0x0, 0x0, 0x0, 0x0, 0x1, 0x43, 0x91, 0x92, 0xbd, 0xf3, 0x7c, 0x11, 0xe4, 0xbb, 0xeb, 0x2, 0x42, 0xac, 0x11, 0x3, 0x5a, 0x4, 0x0, 0x0, 0x0, 0x0, 0x0, 0x0, 0x0, 0x48, 0x45, 0x82, 0x27}
	goldenMariaStandalone  = []byte{0x88, 0x41, 0x9, 0x54, 0xa2, 0x88, 0xf3, 0x0, 0x0, 0x26, 0x0, 0x0, 0x0, 0xcf, 0x8, 0x0, 0x0, 0x8, 0x0, 0x9, 0x0, 0x0, 0x0, 0x0, 0x0, 0x0, 0x0, 0x0, 0x0, 0x0, 0x0, 0x1, 0x0, 0x0, 0x0, 0x0, 0x0, 0x0}
	goldenMariaBegin       = []byte{0x88, 0x41, 0x9, 0x54, 0xa2, 0x88, 0xf3, 0x0, 0x0, 0x26, 0x0, 0x0, 0x0, 0xb5, 0x9, 0x0, 0x0, 0x8, 0x0, 0xa, 0x0, 0x0, 0x0, 0x0, 0x0, 0x0, 0x0, 0x0, 0x0, 0x0, 0x0, 0x0, 0x0, 0x0, 0x0, 0x0, 0x0, 0x0}
)

func (k *c19) events() {
	c := k.c
	r := c.Rng
	f := replication.BinlogFormat{FormatVersion: 4, HeaderLength: 19}
	// golden captures of the repository's own tests (from real servers): the model decoders must
	// return the identifiers recorded there, and the specification encoders must reproduce the bodies
	gold := c.M.Batch([]vh.Val{
		vh.L(vh.A("g.gtid_event56"), vh.X(goldenMysql56GTIDEvent[19:len(goldenMysql56GTIDEvent)-4])),
		vh.L(vh.A("g.gtid_event_maria"), vh.X(goldenMariaStandalone[19:]), vh.I(62344)),
		vh.L(vh.A("g.gtid_event_maria"), vh.X(goldenMariaBegin[19:]), vh.I(62344)),
		vh.L(vh.A("g.enc_gtid_event"), vh.I(1), xs("\x43\x91\x92\xbd\xf3\x7c\x11\xe4\xbb\xeb\x02\x42\xac\x11\x03\x5a"), vh.I(4), vh.A("x")),
		vh.L(vh.A("g.enc_maria_gtid_event"), vh.I(9), vh.I(0), vh.I(1), xs("\x00\x00\x00\x00\x00\x00")),
		vh.L(vh.A("g.enc_maria_gtid_event"), vh.I(10), vh.I(0), vh.I(0), xs("\x00\x00\x00\x00\x00\x00")),
	})
	wantGold := []string{"(ok (x439192bdf37c11e4bbeb0242ac11035a 4))", "(ok (0 62344 9) 0)", "(ok (0 62344 10) 1)",
		vh.X(goldenMysql56GTIDEvent[19 : len(goldenMysql56GTIDEvent)-4]).Atom, vh.X(goldenMariaStandalone[19:]).Atom, vh.X(goldenMariaBegin[19:]).Atom}
	for i, g := range gold {
		c.R.Count("event/golden-capture")
		if g.String() != wantGold[i] {
			addCapped(c, vh.Mismatch{Kind: "selfcheck", What: "model decoder / specification encoder disagrees with a captured server event", Case: fmt.Sprint(i),
				Expected: wantGold[i], Model: g.String(), InDomain: true})
		}
	}

	type ev struct {
		kind        string
		sid         [16]byte
		gno         int64
		flags       int
		rest        []byte
		set         aset
		dom, srv    uint32
		seq         uint64
		bodyReq     vh.Val
		body, whole []byte
		cut         int // -1: complete body
	}
	var evs []*ev
	n := c.N(120, 2500)
	for i := 0; i < n; i++ {
		e := &ev{cut: -1, rest: r.Bytes(r.Pick(0, 0, 4, 17, 21))}
		switch r.Intn(3) {
		case 0:
			e.kind, e.sid, e.gno, e.flags = "gtid56", randSid(r), randSeq(r), r.Intn(256)
			e.bodyReq = vh.L(vh.A("g.enc_gtid_event"), vh.I(int64(e.flags)), sidVal(e.sid), vh.I(e.gno), vh.X(e.rest))
		case 1:
			e.kind, e.set = "prev56", randSet(r)
			e.bodyReq = vh.L(vh.A("g.enc_sid_block"), e.set.val())
		default:
			e.kind, e.dom, e.srv, e.seq, e.flags = "maria", randU32(r), randU32(r), randU64(r), r.Intn(256)
			e.bodyReq = vh.L(vh.A("g.enc_maria_gtid_event"), vh.U(e.seq), vh.U(uint64(e.dom)), vh.I(int64(e.flags)), vh.X(e.rest))
		}
		evs = append(evs, e)
	}
	var reqs []vh.Val
	for _, e := range evs {
		reqs = append(reqs, e.bodyReq)
	}
	for i, resp := range c.M.Batch(reqs) {
		evs[i].body, _ = resp.Hex()
	}
	// truncated copies (the decoders index into the body: short bodies must panic on both sides or fail alike)
	for _, e := range append([]*ev(nil), evs...) {
		if r.Chance(1, 3) && len(e.body) > 0 {
			t := *e
			t.cut = r.Intn(len(e.body))
			t.body = e.body[:t.cut]
			evs = append(evs, &t)
		}
	}
	// wrap into complete events with the header encoder of the shared layer
	reqs = reqs[:0]
	for _, e := range evs {
		ty := map[string]int64{"gtid56": 33, "prev56": 35, "maria": 162}[e.kind]
		srv := uint64(e.srv)
		if e.kind != "maria" {
			srv = uint64(randU32(r))
		}
		reqs = append(reqs, vh.L(vh.A("enc_event"), vh.U(uint64(uint32(r.U64()))), vh.I(ty), vh.U(srv), vh.U(uint64(uint32(r.U64()))), vh.I(0), vh.X(e.body)))
	}
	for i, resp := range c.M.Batch(reqs) {
		evs[i].whole, _ = resp.Hex()
	}
	reqs = reqs[:0]
	for _, e := range evs {
		switch e.kind {
		case "gtid56":
			reqs = append(reqs, vh.L(vh.A("g.gtid_event56"), vh.X(e.body)))
		case "prev56":
			reqs = append(reqs, vh.L(vh.A("g.prev_gtids56"), vh.X(e.body)))
		default:
			reqs = append(reqs, vh.L(vh.A("g.gtid_event_maria"), vh.X(e.body), vh.U(uint64(e.srv))))
		}
	}
	resps := c.M.Batch(reqs)
	for i, e := range evs {
		cls := "complete"
		if e.cut >= 0 {
			cls = "truncated"
		}
		cas := trunc(e.bodyReq.String(), 800) + fmt.Sprintf(" cut=%d", e.cut)
		var impl, want, model vh.Val
		model = resps[i]
		switch e.kind {
		case "gtid56":
			bev := replication.NewMysql56BinlogEvent(vh.Exact(e.whole))
			impl = vh.Try(func() vh.Val {
				g, _, err := bev.GTID(f)
				return errOrOk(err, func() []vh.Val {
					x := g.(replication.Mysql56GTID)
					return []vh.Val{vh.L(vh.X(x.Server[:]), vh.I(x.Sequence))}
				})
			})
			want = vh.Ok(vh.L(sidVal(e.sid), vh.I(e.gno)))
		case "prev56":
			bev := replication.NewMysql56BinlogEvent(vh.Exact(e.whole))
			impl = vh.Try(func() vh.Val { g, err := bev.PreviousGTIDs(f); return setRes(g, err) })
			model = modelSetRes(model)
			want = vh.Ok(xs(e.set.text()), vh.X(e.set.block()))
		default:
			bev := replication.NewMariadbBinlogEvent(vh.Exact(e.whole))
			impl = vh.Try(func() vh.Val {
				g, hasBegin, err := bev.GTID(f)
				return errOrOk(err, func() []vh.Val { return []vh.Val{mgVal(g.(replication.MariadbGTID)), vh.B(hasBegin)} })
			})
			want = vh.Ok(vh.L(vh.U(uint64(e.dom)), vh.U(uint64(e.srv)), vh.U(e.seq)), vh.B(e.flags&1 == 0))
		}
		c.R.Count("event/" + e.kind + "/" + cls + "/" + resClass(impl))
		k.corr("event decoder differs from the model ("+e.kind+")", cas, model, impl, e.cut < 0)
		if e.cut < 0 && impl.String() != want.String() {
			k.spec("event does not decode to the identifiers the master wrote ("+e.kind+")", cas, want.String(), impl.String())
		}
	}
}

// ---------- 6. MariaDB sets ----------
type mset []replication.MariadbGTID

func (s mset) val() vh.Val {
	out := make([]vh.Val, len(s))
	for i, g := range s {
		out[i] = mgVal(g)
	}
	return vh.L(out...)
}

func (s mset) impl(viaParser bool) replication.MariadbGTIDSet {
	if viaParser && len(s) > 0 {
		var parts []string
		for _, g := range s {
			parts = append(parts, fmt.Sprintf("%d-%d-%d", g.Domain, g.Server, g.Sequence))
		}
		g, err := replication.VerifParseMariadbGTIDSet(strings.Join(parts, ","))
		if err != nil {
			panic("hook parser rejected " + strings.Join(parts, ","))
		}
		return g.(replication.MariadbGTIDSet)
	}
	return append(replication.MariadbGTIDSet{}, s...)[:len(s):len(s)]
}

func implMset(g replication.GTIDSet) mset { return mset(g.(replication.MariadbGTIDSet)) }

func noDupDomains(s mset) bool {
	seen := map[uint32]bool{}
	for _, g := range s {
		if seen[g.Domain] {
			return false
		}
		seen[g.Domain] = true
	}
	return true
}

func randMset(r *vh.Rng, n int, distinct bool) mset {
	var s mset
	seen := map[uint32]bool{}
	for len(s) < n {
		g := randMaria(r)
		if r.Bool() {
			g.Domain = uint32(r.Intn(10))
		}
		if distinct && seen[g.Domain] {
			continue
		}
		seen[g.Domain] = true
		s = append(s, g)
	}
	return s
}

func (k *c19) maria() {
	c := k.c
	r := c.Rng
	// text round trips, 1..8 members (and the empty set, which does not round trip by design of the text form)
	var sets []mset
	for n := 0; n <= 8; n++ {
		for rep := 0; rep < c.N(8, 150); rep++ {
			sets = append(sets, randMset(r, n, r.Chance(4, 5)))
		}
	}
	var reqs []vh.Val
	for _, s := range sets {
		reqs = append(reqs, vh.L(vh.A("g.mset_string"), s.val()))
	}
	resps := c.M.Batch(reqs)
	var texts []string
	for i, s := range sets {
		c.R.Count(fmt.Sprintf("maria/%d-members/text+roundtrip", len(s)))
		impl := s.impl(i%2 == 0)
		str := impl.String()
		texts = append(texts, str)
		k.corr("MariadbGTIDSet.String differs from the model", reqs[i].String(), resps[i], xs(str), true)
		if len(s) == 0 {
			continue
		}
		w := snap(impl)
		back, err := replication.VerifParseMariadbGTIDSet(str)
		if err != nil || back.String() != str || !back.Equal(impl) || !impl.Equal(back) {
			k.spec("parseMariadbGTIDSet(String(s)) != s", reqs[i].String(), str, fmt.Sprint(back, err))
		}
		w.check(c, "String/Equal", reqs[i].String())
	}
	// malformed set texts
	var muts []string
	muts = append(muts, "", ",", "1-2-3,", ",1-2-3", "1-2-3,,4-5-6", "1-2-3, 4-5-6", "1-2-3,4-5", "1-2-3,1-2-4")
	for i := 0; i < c.N(300, 6000); i++ {
		muts = append(muts, mutateText(r, texts[r.Intn(len(texts))], "0123456789-,+ _"))
	}
	reqs = reqs[:0]
	for _, m := range muts {
		reqs = append(reqs, vh.L(vh.A("g.parse_mset"), xs(m)))
	}
	for i, resp := range c.M.Batch(reqs) {
		g, err := replication.VerifParseMariadbGTIDSet(muts[i])
		impl := errOrOk(err, func() []vh.Val { return []vh.Val{implMset(g).val()} })
		c.R.Count("maria/parse-set-variant/" + resClass(impl))
		k.corr("parseMariadbGTIDSet differs from the model", reqs[i].String()+" text="+strconv.Quote(muts[i]), resp, impl, false)
	}

	// ContainsGTID / Contains / Equal / AddGTID
	var cases []cse
	for i := 0; i < c.N(600, 12000); i++ {
		distinct := r.Chance(5, 6)
		s := randMset(r, r.Intn(9), distinct)
		g := randMaria(r)
		rel := "new-domain"
		if len(s) > 0 && r.Chance(3, 4) {
			h := s[r.Intn(len(s))]
			g.Domain = h.Domain
			switch r.Intn(4) {
			case 0:
				g.Sequence, rel = h.Sequence, "same-domain/equal-seq"
			case 1:
				if h.Sequence > 0 {
					g.Sequence, rel = h.Sequence-1-uint64(r.Intn(3))%h.Sequence, "same-domain/lower-seq"
				} else {
					g.Sequence, rel = 0, "same-domain/equal-seq"
				}
			case 2:
				if h.Sequence < math.MaxUint64 {
					g.Sequence, rel = h.Sequence+1, "same-domain/higher-seq"
				} else {
					g.Sequence, rel = h.Sequence, "same-domain/equal-seq"
				}
			default:
				switch {
				case g.Sequence > h.Sequence:
					rel = "same-domain/higher-seq"
				case g.Sequence < h.Sequence:
					rel = "same-domain/lower-seq"
				default:
					rel = "same-domain/equal-seq"
				}
			}
		} else {
			for _, h := range s {
				if h.Domain == g.Domain {
					rel = "same-domain/random"
				}
			}
		}
		if !noDupDomains(s) {
			rel = "duplicate-domains(outside)/" + rel
		}
		// a second set related to s
		t := append(mset(nil), s...)
		switch r.Intn(5) {
		case 0:
		case 1:
			if len(t) > 0 {
				j := r.Intn(len(t))
				t = append(t[:j:j], t[j+1:]...)
			}
		case 2:
			if len(t) > 0 {
				t[r.Intn(len(t))].Sequence /= 2
			}
		case 3:
			if len(t) > 1 {
				t[0], t[len(t)-1] = t[len(t)-1], t[0]
			}
		default:
			t = randMset(r, r.Intn(5), true)
		}
		cases = append(cases, cse{s, t, g, rel})
	}
	k.mariaOps(cases)

	// histories: every AddGTID is applied to a randomly chosen earlier set; no set ever created may change
	for rep := 0; rep < c.N(60, 1500); rep++ {
		start := randMset(r, r.Intn(5), true)
		k.mariaHistory(start, 1+r.Intn(12), rep%2 == 0)
	}
	// calls with a GTID of the other flavor
	c.R.Count("trivial/wrong-flavor")
	s := randMset(r, 3, true)
	si := s.impl(false)
	g56 := replication.Mysql56GTID{Server: replication.SID(sidPool[1]), Sequence: 5}
	w := snap(si, g56)
	rr := c.M.Batch([]vh.Val{vh.L(vh.A("g.maria_contains_gtid_any"), s.val(), gtidVal(g56)), vh.L(vh.A("g.maria_add_any"), s.val(), gtidVal(g56))})
	got := vh.L(vh.B(si.ContainsGTID(g56)), vh.L(implMset(si.AddGTID(g56)).val(), mset(si).val()))
	w.check(c, "wrong-flavor calls", s.val().String())
	k.corr("MariaDB calls with a GTID of the other flavor differ from the model", s.val().String(), vh.L(rr[0], rr[1]), got, false)
}

// cse: one MariaDB case: set s, GTID g, second set t
type cse struct {
	s, t mset
	g    replication.MariadbGTID
	rel  string
}

// mariaOps checks ContainsGTID / Contains / Equal / AddGTID on every case
func (k *c19) mariaOps(cases []cse) {
	c := k.c
	var reqs []vh.Val
	for _, cs := range cases {
		reqs = append(reqs,
			vh.L(vh.A("g.maria_contains_gtid"), cs.s.val(), mgVal(cs.g)),
			vh.L(vh.A("g.maria_coversb"), cs.s.val(), mgVal(cs.g)),
			vh.L(vh.A("g.maria_contains"), cs.s.val(), cs.t.val()),
			vh.L(vh.A("g.maria_contains"), cs.t.val(), cs.s.val()),
			vh.L(vh.A("g.maria_equal"), cs.s.val(), cs.t.val()),
			vh.L(vh.A("g.maria_add"), cs.s.val(), mgVal(cs.g)))
	}
	resps := c.M.Batch(reqs)
	for i, cs := range cases {
		c.R.Count("maria/ops/" + cs.rel)
		if i%211 == 0 {
			c.R.Sample(trunc(reqs[6*i+5].String(), 300))
		}
		inDom := noDupDomains(cs.s)
		cas := vh.L(vh.A("maria"), cs.s.val(), mgVal(cs.g), cs.t.val()).String()
		si, ti := cs.s.impl(i%2 == 0), cs.t.impl(i%3 == 0)
		w := snap(si, ti, cs.g)
		cg := si.ContainsGTID(cs.g)
		w.check(c, "MariadbGTIDSet.ContainsGTID", cas)
		k.corr("MariadbGTIDSet.ContainsGTID differs from the model", cas, resps[6*i], vh.B(cg), inDom)
		if inDom && vh.B(cg).Atom != resps[6*i+1].Atom {
			k.spec("MariadbGTIDSet.ContainsGTID differs from: some position of the same domain has sequence >= the GTID's", cas, resps[6*i+1].Atom, vh.B(cg).Atom)
		}
		got := vh.L(vh.B(si.Contains(ti)), vh.B(ti.Contains(si)), vh.B(si.Equal(ti)))
		w.check(c, "MariadbGTIDSet.Contains/Equal", cas)
		k.corr("MariadbGTIDSet.Contains/Equal differ from the model", cas, vh.L(resps[6*i+2], resps[6*i+3], resps[6*i+4]), got, inDom)
		// AddGTID: result and the receiver as seen after the call
		res := implMset(si.AddGTID(cs.g))
		after := mset(si)
		k.corr("MariadbGTIDSet.AddGTID (result, receiver after the call) differs from the model", cas, resps[6*i+5], vh.L(res.val(), after.val()), inDom)
		w.check(c, "MariadbGTIDSet.AddGTID", cas)
		if !inDom {
			continue
		}
		// one position per domain; the added GTID is covered; other domains untouched
		bad := ""
		switch {
		case !noDupDomains(res):
			bad = "result holds two positions of one domain"
		case !replication.MariadbGTIDSet(res).ContainsGTID(cs.g):
			bad = "result does not cover the added GTID"
		case cg && res.val().String() != cs.s.val().String():
			bad = "adding a covered GTID changed the set"
		}
		for _, h := range cs.s {
			if h.Domain == cs.g.Domain {
				continue
			}
			found := false
			for _, x := range res {
				if x == h {
					found = true
				}
			}
			if !found {
				bad = "a position of another domain changed"
			}
		}
		if bad != "" {
			k.spec("MariadbGTIDSet.AddGTID: "+bad, cas, "", res.val().String())
		}
	}
}

func (k *c19) mariaHistory(start mset, steps int, viaParser bool) {
	c := k.c
	r := c.Rng
	c.R.Count(fmt.Sprintf("maria/history/len%d", steps))
	impls := []replication.MariadbGTIDSet{start.impl(viaParser)}
	models := []vh.Val{start.val()}
	strsBefore := []string{impls[0].String()}
	var trace []string
	trace = append(trace, "start="+start.val().String())
	for j := 0; j < steps; j++ {
		p := r.Intn(len(impls))
		g := randMaria(r)
		g.Domain = uint32(r.Intn(6))
		if r.Bool() {
			g.Sequence = uint64(r.Intn(20))
		}
		trace = append(trace, fmt.Sprintf("#%d=#%d.AddGTID%s", len(impls), p, mgVal(g).String()))
		cas := strings.Join(trace, " ")
		resp := c.M.Call(vh.L(vh.A("g.maria_add"), models[p], mgVal(g)))
		res := impls[p].AddGTID(g).(replication.MariadbGTIDSet)
		// purity over the whole history
		for h := range impls {
			if s := impls[h].String(); s != strsBefore[h] {
				k.spec("purity: MariadbGTIDSet.AddGTID altered an earlier set of the history", cas+fmt.Sprintf("  [set #%d changed]", h), strsBefore[h], s)
				strsBefore[h] = s
			}
		}
		k.corr("MariadbGTIDSet.AddGTID in a history differs from the model", cas, resp.Nth(0), mset(res).val(), true)
		models[p] = resp.Nth(1) // the receiver as the model sees it after the call
		impls = append(impls, res)
		models = append(models, resp.Nth(0))
		strsBefore = append(strsBefore, res.String())
	}
}

// replayC19 re-runs the single case named by a replay file when it has the shape (maria s g t)
func (k *c19) replayCase(cas string) bool {
	v, err := vh.Parse(cas)
	if err != nil || !v.IsL || len(v.List) != 4 || v.List[0].Atom != "maria" {
		return false
	}
	s, ok1 := msetFromVal(v.List[1])
	g, ok2 := mgFromVal(v.List[2])
	t, ok3 := msetFromVal(v.List[3])
	if !ok1 || !ok2 || !ok3 {
		return false
	}
	k.mariaOps([]cse{{s, t, g, "replay"}, {s, t, g, "replay"}, {s, t, g, "replay"}, {s, t, g, "replay"}, {s, t, g, "replay"}, {s, t, g, "replay"}})
	return true
}

func mgFromVal(v vh.Val) (replication.MariadbGTID, bool) {
	if !v.IsL || len(v.List) != 3 {
		return replication.MariadbGTID{}, false
	}
	d, e1 := strconv.ParseUint(v.List[0].Atom, 10, 32)
	sv, e2 := strconv.ParseUint(v.List[1].Atom, 10, 32)
	q, e3 := strconv.ParseUint(v.List[2].Atom, 10, 64)
	return replication.MariadbGTID{Domain: uint32(d), Server: uint32(sv), Sequence: q}, e1 == nil && e2 == nil && e3 == nil
}

func msetFromVal(v vh.Val) (mset, bool) {
	if !v.IsL {
		return nil, false
	}
	var s mset
	for _, x := range v.List {
		g, ok := mgFromVal(x)
		if !ok {
			return nil, false
		}
		s = append(s, g)
	}
	return s, true
}

func runC19(c *Ctx) {
	if cas := applyReplay(c); cas != "" {
		k := &c19{c: c}
		if k.replayCase(cas) {
			c.R.Notes = append(c.R.Notes, "replayed the single recorded case: "+trunc(cas, 300))
			return
		}
	}
	c.R.Rule = "cases by (encoding family, flavor, number of members, outcome class ok/err/panic of the decoder, relation of the GTID to the set: new domain / same domain with lower, equal, higher sequence); trivial = wrong-flavor arguments"
	k := &c19{c: c}
	k.library()
	k.sidText()
	k.gtids()
	k.sets56()
	k.events()
	k.maria()
}
