package main

import (
	"context"
	"errors"
	"fmt"
	"runtime"
	"strings"
	"sync"
	"sync/atomic"
	"time"

	gobinlog "github.com/Breeze0806/gobinlog"
	"verif/harness/internal/vh"
)

// One end-to-end attempt: the real Streamer.Stream() and the real driver against the fake master.

type e2eAttempt struct {
	events   [][]byte // packets the master sends after the dump request
	terminal string   // eof err close reset hang short outofseq
	errCode  uint16
	errMsg   string
	verdicts []bool
	// cancellation
	cancelInHandler int  // >=0: the handler of that call cancels the context before returning
	cancelWhenIdle  bool // cancel once the master has sent everything and hangs
	// pacing: the master waits for the k-th handler call to start before sending the rest (reader "waiting for the network")
	holdAfter   int // >=0: number of packets sent before waiting for gate
	slowHandler time.Duration
	scribble    bool
	// firstByte: the packet carrying events[i] starts with this byte instead of the OK byte 0x00
	firstByte map[int]byte
	// deadlineCtx: the caller's context also carries a (far) deadline - context.WithTimeout under the WithCancel
	deadlineCtx bool
	// foreignCtx: the caller's context is of a type of its own (not one of the context package's)
	foreignCtx bool
	// afterCancelSleep: the handler call that cancels the context keeps working for this long before it returns its
	// verdict (a consumer that finishes storing the transaction it was handed while the caller is shutting down)
	afterCancelSleep time.Duration
	// cancelOnAnnounce: the caller cancels at the moment the master receives the checksum announcement of this attempt;
	// the master answers it a little later (the cancellation falls inside the connection set-up)
	cancelOnAnnounce bool
}

type e2eResult struct {
	returned            bool
	streamErr           error
	outcome             string
	calls               []vh.Val
	snapshots           []string // deep copies taken inside the handler
	txs                 []*gobinlog.Transaction
	stored              gobinlog.Position
	errorRes            string // nil | blocked | master:<msg> | transport:<text>
	errorResAfterCancel string
	leaked              bool
	closedSeen          bool
	quitSeen            bool
	dumps               []dumpReq
	queries             []string
	order               []string
	overlap             bool // two handler calls at once
	afterReturn         bool // a handler call after Stream returned
	elapsed             time.Duration
}

const leakFrame = "startDumpFromBinlogPosition.func1"

// ctxFrame: the goroutine context.WithCancel starts to follow a parent that is not one of the context package's own
// types; it ends when the child is cancelled.  With a foreignCtx parent the library's per-attempt context has one.
const ctxFrame = "context.(*cancelCtx).propagateCancel"

func libraryGoroutines() int {
	buf := make([]byte, 1<<20)
	n := runtime.Stack(buf, true)
	return strings.Count(string(buf[:n]), leakFrame) + strings.Count(string(buf[:n]), ctxFrame)
}

// foreignCtx is a caller's context of a type the context package does not know (a request object, a merged or
// detached context): cancellable, no deadline, no values.
type foreignCtx struct {
	mu   sync.Mutex
	done chan struct{}
	err  error
}

func newForeignCtx() *foreignCtx { return &foreignCtx{done: make(chan struct{})} }
func (f *foreignCtx) Deadline() (time.Time, bool)   { return time.Time{}, false }
func (f *foreignCtx) Done() <-chan struct{}         { return f.done }
func (f *foreignCtx) Value(interface{}) interface{} { return nil }
func (f *foreignCtx) Err() error {
	f.mu.Lock()
	defer f.mu.Unlock()
	return f.err
}
func (f *foreignCtx) cancel() {
	f.mu.Lock()
	defer f.mu.Unlock()
	if f.err == nil {
		f.err = context.Canceled
		close(f.done)
	}
}

func classifyErr(err error) string {
	if err == nil {
		return "nil"
	}
	var ge *gobinlog.Error
	s := err.Error()
	if errors.As(err, &ge) && ge.Original() != nil {
		o := ge.Original().Error()
		if strings.Contains(o, "Error 1236") || strings.Contains(s, "fetch error packet") {
			return "master:" + o
		}
		return "transport:" + o
	}
	return "transport:" + s
}

type e2eEnv struct {
	m          *fakeMaster
	s          *gobinlog.Streamer
	scripts    []func(req dumpReq) []action
	mu         sync.Mutex
	lateCancel bool // cancel the caller's context after Stream returned, before Error()
}

func newE2E(tables []tableDef, serverID uint32, mapper gobinlog.MysqlTableMapper) (*e2eEnv, error) {
	return newE2EDSN(tables, serverID, mapper, "")
}

// newE2EDSN: dsnParams is appended to the data source name ("?maxAllowedPacket=64" ...).
func newE2EDSN(tables []tableDef, serverID uint32, mapper gobinlog.MysqlTableMapper, dsnParams string) (*e2eEnv, error) {
	env := &e2eEnv{}
	m, err := newFakeMaster(func(idx int, req dumpReq) []action {
		env.mu.Lock()
		defer env.mu.Unlock()
		if idx < len(env.scripts) && env.scripts[idx] != nil {
			return env.scripts[idx](req)
		}
		return []action{{kind: "eof"}}
	})
	if err != nil {
		return nil, err
	}
	env.m = m
	if mapper == nil {
		mapper = &hMapper{tables: tables}
	}
	env.s, _ = gobinlog.NewStreamer(m.dsn()+dsnParams, serverID, mapper)
	return env, nil
}

// run performs one Stream() call (attempt number n on this environment's streamer).
func (env *e2eEnv) run(n int, a e2eAttempt, baseline int) (res e2eResult) {
	gate := make(chan struct{})
	var gateOnce sync.Once
	openGate := func() { gateOnce.Do(func() { close(gate) }) }
	defer openGate()
	if a.holdAfter >= 0 {
		// lock-step pacing: the rest is sent once the handler ran, or after a short pause when no handler call is due
		go func() {
			time.Sleep(40 * time.Millisecond)
			openGate()
		}()
	}
	allSent := make(chan struct{})
	env.mu.Lock()
	for len(env.scripts) <= n {
		env.scripts = append(env.scripts, nil)
	}
	env.scripts[n] = func(req dumpReq) []action {
		var acts []action
		for i, e := range a.events {
			if a.holdAfter >= 0 && i == a.holdAfter {
				acts = append(acts, action{kind: "gate", gate: gate})
			}
			if fb, ok := a.firstByte[i]; ok {
				acts = append(acts, action{kind: "raw", data: append([]byte{fb}, e...)})
			} else {
				acts = append(acts, action{kind: "event", data: e})
			}
		}
		done := make(chan struct{})
		close(done)
		acts = append(acts, action{kind: "gate", gate: signalThen(allSent, done)})
		acts = append(acts, action{kind: a.terminal, code: a.errCode, msg: a.errMsg, data: []byte{1, 2, 3}})
		return acts
	}
	env.mu.Unlock()

	parent := context.Background()
	if a.deadlineCtx {
		var pcancel context.CancelFunc
		parent, pcancel = context.WithTimeout(parent, time.Hour)
		defer pcancel()
	}
	ctx, cancel := context.WithCancel(parent)
	if a.foreignCtx {
		cancel() // (the standard one is not used)
		fc := newForeignCtx()
		ctx, cancel = fc, fc.cancel
	}
	defer cancel()
	var inHandler int32
	var returned int32
	ncall := 0
	handler := func(t *gobinlog.Transaction) error {
		if atomic.AddInt32(&inHandler, 1) > 1 {
			res.overlap = true
		}
		defer atomic.AddInt32(&inHandler, -1)
		if atomic.LoadInt32(&returned) == 1 {
			res.afterReturn = true
		}
		k := ncall
		ncall++
		ok := true
		if k < len(a.verdicts) {
			ok = a.verdicts[k]
		}
		res.calls = append(res.calls, vh.L(txVal(t), vh.B(ok)))
		res.snapshots = append(res.snapshots, txVal(t).String())
		res.txs = append(res.txs, t)
		if a.holdAfter >= 0 {
			openGate()
		}
		if a.slowHandler > 0 {
			time.Sleep(a.slowHandler)
		}
		if a.scribble {
			scribbleTx(t)
		}
		if a.cancelInHandler == k {
			cancel()
			if a.afterCancelSleep > 0 {
				time.Sleep(a.afterCancelSleep)
			}
		}
		if !ok {
			return errors.New("handler refuses")
		}
		return nil
	}
	if a.cancelOnAnnounce {
		env.m.mu.Lock()
		prevReply := env.m.queryReply
		env.m.queryReply = func(idx int, sql string) string {
			if idx == n {
				cancel()
				time.Sleep(250 * time.Millisecond)
			}
			return ""
		}
		env.m.mu.Unlock()
		defer func() {
			env.m.mu.Lock()
			env.m.queryReply = prevReply
			env.m.mu.Unlock()
		}()
	}
	if a.cancelWhenIdle {
		go func() {
			<-allSent
			time.Sleep(30 * time.Millisecond)
			cancel()
		}()
	}
	t0 := time.Now()
	panicked := false
	streamDone := make(chan struct{})
	res.returned = within(10*time.Second, func() {
		defer close(streamDone)
		defer func() {
			if r := recover(); r != nil {
				panicked = true
			}
		}()
		res.streamErr = env.s.Stream(ctx, handler)
	})
	res.elapsed = time.Since(t0)
	atomic.StoreInt32(&returned, 1)
	if !res.returned {
		// blocked: release it, and let the goroutine finish before its results are read
		cancel()
		openGate()
		select {
		case <-streamDone:
		case <-time.After(3 * time.Second):
		}
		res.outcome = "blocked"
		res.calls, res.snapshots, res.txs = nil, nil, nil
		return
	}
	res.outcome = streamErrClass(res.streamErr)
	if panicked {
		res.outcome = "panic"
		return
	}
	if res.streamErr != nil && strings.HasPrefix(res.outcome, "other:") {
		res.outcome = "connect-or-dump-error"
	}
	res.stored = gobinlog.VerifStoredPosition(env.s)
	// Error() must return
	if env.lateCancel {
		cancel()
	}
	var eres error
	if within(4*time.Second, func() { eres = env.s.Error() }) {
		res.errorRes = classifyErr(eres)
	} else {
		res.errorRes = "blocked"
	}
	res.errorResAfterCancel = res.errorRes
	// nothing left behind
	deadline := time.Now().Add(4 * time.Second)
	for libraryGoroutines() > baseline && time.Now().Before(deadline) {
		time.Sleep(20 * time.Millisecond)
	}
	res.leaked = libraryGoroutines() > baseline
	if mc := env.m.conn(n); mc != nil {
		select {
		case <-mc.done:
		case <-time.After(4 * time.Second):
		}
		env.m.mu.Lock()
		res.closedSeen = mc.clientClosed
		res.quitSeen = mc.quit
		res.dumps = append([]dumpReq{}, mc.dumps...)
		res.queries = append([]string{}, mc.queries...)
		res.order = append([]string{}, mc.order...)
		env.m.mu.Unlock()
	}
	return
}

func signalThen(sig chan struct{}, done chan struct{}) chan struct{} {
	// a gate that is already open but records that the master reached it
	ch := make(chan struct{})
	go func() {
		close(sig)
		<-done
		close(ch)
	}()
	return ch
}

// scribbleTx overwrites everything the handler was handed: the bytes of every value, and - a consumer that recycles or
// zeroes the object after serialising it - the positions, timestamps, names, statement texts and the per-column
// descriptions.  (The slices keep their lengths and the Data slices their memory: the provenance check reads them.)
func scribbleTx(t *gobinlog.Transaction) {
	t.NowPosition = gobinlog.Position{Filename: "#overwritten#", Offset: -1}
	t.NextPosition = gobinlog.Position{Filename: "#overwritten#", Offset: -2}
	t.Timestamp = -3
	for _, e := range t.Events {
		e.Type = gobinlog.StatementType(99)
		e.Table = gobinlog.MysqlTableName{DbName: "#db#", TableName: "#table#"}
		e.Query.Database, e.Query.SQL = "#db#", "#sql#"
		if e.Query.Charset != nil {
			e.Query.Charset.Client, e.Query.Charset.Conn, e.Query.Charset.Server = -1, -1, -1
		}
		e.Timestamp = -4
		for _, rows := range [][]*gobinlog.RowData{e.RowValues, e.RowIdentifies} {
			for _, rd := range rows {
				for _, c := range rd.Columns {
					for i := range c.Data {
						c.Data[i] = 'X'
					}
					c.Filed, c.Type, c.IsEmpty = "#field#", gobinlog.ColumnType(255), !c.IsEmpty
				}
			}
		}
	}
}

func (env *e2eEnv) close() { env.m.close() }

// ---------------------------------------------------------------------------

func e2eRun(c *Ctx, prop string) {
	switch prop {
	case "C01":
		e2eFidelity(c)
	case "C03":
		e2eResume(c)
	case "C04":
		e2eAttempts(c)
	}
}

// e2eFidelity: whole histories through TCP; deliveries, return values and the dump request.
func e2eFidelity(c *Ctx) {
	r := c.Rng
	n := c.N(8, 150)
	base := libraryGoroutines()
	for k := 0; k < n; k++ {
		cfg := baseCfg(r, k)
		h := genHistory(r, cfg, histOpts{units: 3 + r.Intn(5), maxCols: 1 + r.Intn(8), maxRows: 2, rotations: true, ignorables: k%2 == 0, oddCols: true})
		h.encode(c)
		env, err := newE2E(h.tables, 4000000000, nil)
		if err != nil {
			c.R.Notes = append(c.R.Notes, "cannot listen on 127.0.0.1: "+err.Error())
			return
		}
		f0, o0 := startOf(h)
		evs, _ := h.serve(c, f0, uint32(o0))
		env.s.SetBinlogPosition(gobinlog.Position{Filename: f0, Offset: o0})
		res := env.run(0, e2eAttempt{events: evs, terminal: "eof", cancelInHandler: -1, holdAfter: -1}, base)
		env.close()
		c.R.Count(fmt.Sprintf("e2e/%s/gtid%v", cfg.Key(), k%2 == 0))
		c.R.Dist[cfg.PadKey()]++
		exp := strs(h.expectedTxVals(c, h.txs, f0, uint32(o0)))
		got := acceptedOf(res.calls)
		desc := fmt.Sprintf("e2e cfg=%s units=%v", cfg, h.kinds)
		if !res.returned || res.outcome != "end" || !eqStrs(exp, got) {
			c.R.Add(vh.Mismatch{Kind: "spec", What: "e2e fidelity: deliveries through the real connection differ from the committed transactions",
				Case: desc, Expected: fmt.Sprintf("%d transactions, Stream nil", len(exp)), Impl: fmt.Sprintf("outcome=%s %d delivered; %s", res.outcome, len(got), firstDiff(exp, got)), InDomain: true})
			continue
		}
		if res.errorRes != "nil" {
			c.R.Add(vh.Mismatch{Kind: "spec", What: "e2e fidelity: Error() after a stream ended by the master's EOF", Case: desc, Expected: "nil", Impl: res.errorRes, InDomain: true})
		}
		if len(res.dumps) != 1 || res.dumps[0].File != f0 || int64(res.dumps[0].Pos) != o0 || res.dumps[0].ServerID != 4000000000 {
			c.R.Add(vh.Mismatch{Kind: "spec", What: "e2e fidelity: dump request differs from the configured stream", Case: desc, Impl: fmt.Sprintf("%+v", res.dumps), InDomain: true})
		}
	}
}

// e2eResume: a new stream started at the end label of delivered transaction k asks the master for exactly that
// position and yields exactly the remaining transactions.
func e2eResume(c *Ctx) {
	r := c.Rng
	base := libraryGoroutines()
	for k := 0; k < c.N(4, 60); k++ {
		cfg := baseCfg(r, r.Intn(len(baseCfgs)))
		o := histOpts{units: 4 + r.Intn(5), maxCols: 3, maxRows: 2, rotations: true, ignorables: true, bigOffsets: k%2 == 0}
		if k%2 == 1 {
			// a resume point in one file with transactions in later files (a rotation and a restart on the way)
			o.seq = []string{r.PickS("txXid", "txCommit", "ddl"), r.PickS("autoRows", "txXid", "stmtDml"), "rotation",
				r.PickS("txXid", "ddl", "autoRows"), r.PickS("txCommit", "txRollback", "txXid"), "restart", r.PickS("txXid", "ddl"), "txCommit"}
		}
		h := genHistory(r, cfg, o)
		if k%4 >= 2 {
			// the first file is the one named "" (a dump started without naming a file): the end labels of its
			// transactions are {"", N}, and resuming at one of them must ask for exactly {"", N}
			renameFiles(h, func(i int) string {
				if i == 1 {
					return ""
				}
				return fmt.Sprintf("bin.%06d", i)
			})
		}
		h.encode(c)
		f0, o0 := startOf(h)
		D := strs(h.expectedTxVals(c, h.txs, f0, uint32(o0)))
		for ti, tx := range h.txs {
			if !c.Thorough() && o.seq == nil && r.Chance(1, 2) {
				continue
			}
			if !c.Thorough() && o.seq != nil && ti > 3 {
				continue
			}
			env, err := newE2E(h.tables, 9, nil)
			if err != nil {
				return
			}
			env.s.SetBinlogPosition(gobinlog.Position{Filename: tx.nextFile, Offset: int64(tx.next)})
			var got dumpReq
			env.mu.Lock()
			env.scripts = append(env.scripts, nil)
			env.mu.Unlock()
			evs, _ := h.serve(c, tx.nextFile, tx.next)
			res := env.run(0, e2eAttempt{events: evs, terminal: "eof", cancelInHandler: -1, holdAfter: -1}, base)
			env.close()
			if len(res.dumps) == 1 {
				got = res.dumps[0]
			}
			c.R.Count(fmt.Sprintf("e2e-resume/big%v/emptyfirst%v/%s", k%2 == 0, k%4 >= 2, h.kinds[tx.unit]))
			desc := fmt.Sprintf("e2e resume after tx %d at %s:%d cfg=%s units=%v", ti, tx.nextFile, tx.next, cfg, h.kinds)
			if got.File != tx.nextFile || got.Pos != tx.next {
				c.R.Add(vh.Mismatch{Kind: "spec", What: "e2e resume: the dump request does not ask for the end label", Case: desc, Impl: fmt.Sprintf("%+v", res.dumps), InDomain: true})
			}
			if rest := acceptedOf(res.calls); !eqStrs(D[ti+1:], rest) || res.outcome != "end" {
				c.R.Add(vh.Mismatch{Kind: "spec", What: "e2e resume: a stream started at a delivered end label does not yield exactly the remaining transactions", Case: desc,
					Expected: fmt.Sprint(len(D) - ti - 1), Impl: res.outcome + " " + firstDiff(D[ti+1:], rest), InDomain: true})
			}
		}
	}
}

// e2eAttempts: sequences of failing attempts (network faults, cancel, handler error) followed by a clean one on ONE
// streamer; every transaction accepted exactly once, each dump request at the stored position of the previous attempt.
func e2eAttempts(c *Ctx) {
	r := c.Rng
	base := libraryGoroutines()
	faults := []string{"close", "reset", "short", "outofseq", "err", "eof", "cancel-idle", "cancel-handler", "handler-err", "cancel-handler-err", "cancel-handler-slow-accept"}
	for k := 0; k < c.N(6, 120); k++ {
		cfg := baseCfg(r, r.Intn(len(baseCfgs)))
		// (a quarter of the histories with offsets in the upper half of the 32-bit range: the stored position of a failed
		// attempt is then at or beyond 2^31, and the next dump request must carry it unchanged)
		h := genHistory(r, cfg, histOpts{units: 4 + r.Intn(5), maxCols: 3, maxRows: 2, rotations: true, ignorables: k%2 == 0, bigOffsets: k%4 == 1})
		if k%3 == 2 {
			// the stream starts in the file named "" (the master's first binlog): the stored position has an empty
			// file name until the first rotation
			renameFiles(h, func(i int) string {
				if i == 1 {
					return ""
				}
				return fmt.Sprintf("bin.%06d", i)
			})
		}
		h.encode(c)
		if len(h.txs) < 2 {
			continue
		}
		f0, o0 := startOf(h)
		D := strs(h.expectedTxVals(c, h.txs, f0, uint32(o0)))
		for _, fk := range faults {
			for _, lockstep := range []bool{false, true} {
				if !c.Thorough() && r.Chance(1, 2) {
					continue
				}
				env, err := newE2E(h.tables, 11, nil)
				if err != nil {
					return
				}
				env.s.SetBinlogPosition(gobinlog.Position{Filename: f0, Offset: o0})
				wantFile, wantOff := f0, o0
				nfail := 1 + r.Intn(3)
				var accepted []string
				desc := fmt.Sprintf("e2e cfg=%s units=%v fault=%s lockstep=%v failed_attempts=%d", cfg, h.kinds, fk, lockstep, nfail)
				bad := false
				for att := 0; att <= nfail && !bad; att++ {
					evs, _ := h.serve(c, wantFile, uint32(wantOff))
					a := e2eAttempt{events: evs, terminal: "eof", cancelInHandler: -1, holdAfter: -1}
					if att < nfail && len(evs) > 3 {
						cut := 2 + r.Intn(len(evs)-2)
						switch fk {
						case "close", "reset", "short", "outofseq", "err", "eof":
							a.events, a.terminal = evs[:cut], fk
							a.errCode, a.errMsg = 1236, "binlog truncated"
						case "cancel-idle":
							a.events, a.terminal, a.cancelWhenIdle = evs[:cut], "hang", true
						case "cancel-handler":
							// the master ends the stream if the fault never triggers (no transaction left)
							a.cancelInHandler, a.terminal = 0, "eof"
						case "cancel-handler-slow-accept":
							// the caller shuts down while a handler call is in flight; the call takes a while longer and then
							// ACCEPTS the transaction: accepted is accepted, the next attempt must not deliver it again
							a.cancelInHandler, a.afterCancelSleep, a.terminal = r.Intn(2), 250*time.Millisecond, "eof"
						case "handler-err":
							a.verdicts, a.terminal = []bool{r.Bool(), false}, "eof"
						case "cancel-handler-err":
							// the handler gives up because the caller is shutting down: it cancels and reports failure
							k := r.Intn(2)
							a.verdicts = make([]bool, k+1)
							for i := range a.verdicts {
								a.verdicts[i] = i != k
							}
							a.cancelInHandler, a.terminal = k, "eof"
						}
						if lockstep && a.holdAfter < 0 && len(a.events) > 2 {
							a.holdAfter = 2 + r.Intn(len(a.events)-2)
						}
					}
					res := env.run(att, a, base)
					if !res.returned {
						c.R.Add(vh.Mismatch{Kind: "spec", What: "e2e attempts: Stream did not return", Case: desc, InDomain: true})
						bad = true
						break
					}
					if len(res.dumps) != 1 || res.dumps[0].File != wantFile || int64(res.dumps[0].Pos) != wantOff {
						c.R.Add(vh.Mismatch{Kind: "spec", What: "e2e attempts: the dump request is not at the stored resume position of the previous attempt", Case: desc + fmt.Sprintf(" attempt=%d", att),
							Expected: fmt.Sprintf("%s:%d", wantFile, wantOff), Impl: fmt.Sprintf("%+v", res.dumps), InDomain: true})
						bad = true
					}
					accepted = append(accepted, acceptedOf(res.calls)...)
					wantFile, wantOff = res.stored.Filename, res.stored.Offset
				}
				env.close()
				c.R.Count(fmt.Sprintf("e2e/%s/lockstep%v/attempts%d", fk, lockstep, nfail+1))
				if !bad && !eqStrs(D, accepted) {
					c.R.Add(vh.Mismatch{Kind: "spec", What: "e2e exactly-once: over failed attempts followed by a clean one a transaction was lost, repeated or reordered", Case: desc,
						Expected: fmt.Sprint(len(D)), Impl: fmt.Sprintf("%d accepted; %s", len(accepted), firstDiff(D, accepted)), InDomain: true})
				}
			}
		}
	}
}
