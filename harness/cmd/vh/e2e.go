package main

// runE2E: histories served by a fake MySQL master over TCP to the real driver and Streamer.Stream().
func runE2E(c *Ctx, prop string) {
	e2eRun(c, prop)
}
