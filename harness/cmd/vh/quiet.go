package main

import gobinlog "github.com/Breeze0806/gobinlog"

// nopLogger discards the library's logging (the default logger prints every event with %+v).
type nopLogger struct{}

func (nopLogger) Errorf(string, ...interface{}) {}
func (nopLogger) Infof(string, ...interface{})  {}
func (nopLogger) Debugf(string, ...interface{}) {}
func (nopLogger) Print(...interface{})          {}
func (nopLogger) Printf(string, ...interface{}) {}

func init() { gobinlog.SetLogger(nopLogger{}) }
