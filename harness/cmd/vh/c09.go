package main

import (
	"fmt"

	"github.com/Breeze0806/gobinlog/replication"
	"verif/harness/internal/vh"
)

func init() {
	// the offset bookkeeping of the streamer's column walk (getValuesFromRow / getIdentifiesFromRow) over images split by
	// Rows(): end to end, with the table map of a table id replaced by one of another shape between two rows events
	runners["C09"] = func(c *Ctx) { runC09(c); runRetyped(c, "C09") }
}

func implRows(f replication.BinlogFormat, ev replication.BinlogEvent, tm *replication.TableMap) (vh.Val, *replication.Rows) {
	var out *replication.Rows
	v := vh.Try(func() vh.Val {
		rs, err := ev.Rows(f, tm)
		if err != nil {
			return vh.ErrV(decErrClass(err))
		}
		out = &rs
		return vh.Ok(rowsVal(&rs)...)
	})
	return v, out
}

func runC09(c *Ctx) {
	c.R.Rule = "rows events per (cfg, kind write/update/delete, column-count class up to 300, rows 0..R, has NULL, has absent column, extra-data) and per covered (type family, NULL?, absent?) cell tuple; distinct = distinct tuples; trivial = single fixed-width column"
	r := c.Rng
	n := c.N(150, 3000)
	type bigCell struct{ lb, n int }
	bigs := []bigCell{{2, 65535}, {3, 65535}, {3, 65536}, {3, 65536 + 300}, {3, 196608 + 7}, {4, 65536}}
	if c.Thorough() {
		bigs = append(bigs, bigCell{2, 65534}, bigCell{3, 131071}, bigCell{3, 131072}, bigCell{3, 300000}, bigCell{4, 70000}, bigCell{4, 262144})
	}
	for k := 0; k < n; k++ {
		cfg := randCfg(r)
		fi := mkFormat(c, cfg, []byte("5.7.1-log"))
		nc := r.Pick(1, 2, 3, 7, 8, 9, 16, 17, 1+r.Intn(20), 1+r.Intn(20), 1+r.Intn(20), 64, 65)
		if r.Chance(1, 25) {
			nc = 100 + r.Intn(201)
		}
		t := genTable(r, nc, cfg)
		kind := r.Intn(3)
		nrows := r.Pick(0, 1, 1, 2, 3, 5)
		if nc > 100 {
			nrows = r.Intn(2)
		}
		// values whose length needs the high-order length bytes of a 2/3/4-byte prefix, between two small columns
		// (a cell that is cut wrongly misaligns everything after it)
		if k < len(bigs) {
			bg := bigs[k]
			nc, nrows = 3, 2
			t = genTable(r, 0, cfg)
			first := true
			t.cols = []colDef{genColumnCase(r, 0, 0),
				{ty: sym("blob", int64(bg.lb), int64(249+r.Intn(4))), key: "blob", nullable: true, field: "big", gen: func(r *vh.Rng) vh.Val {
					if first {
						first = false
						return randBytesVal(r, bg.n)
					}
					return randBytesVal(r, r.Intn(300))
				}},
				genColumnCase(r, 2, 16)}
			for i := range t.cols {
				t.cols[i].nullable = true
			}
			c.R.Count(fmt.Sprintf("rows-bigcell/lb%d/%s", bg.lb, lenClass(bg.n)))
		}
		rd := genRows(r, t, kind, nrows, cfg)
		// table map through the specification encoder -> *TableMap for the implementation
		tmResp := c.M.Call(mkEventReq(cfg, randHdr(r), t.bodyVal(), r.Bytes(4)))
		tmVals := tmResp.List[1:]
		tm := tableMapFromVal(tmVals)
		req := mkEventReq(cfg, randHdr(r), rd.bodyVal(t), r.Bytes(4))
		resp := c.M.Call(req)
		ev, _ := resp.Nth(0).Hex()
		expect := vh.Ok(resp.List[1:]...)
		class := fmt.Sprintf("rows/%s/kind%d/%s/rows%d/null%v/absent%v/extra%v", cfg.Key(), kind, colCountClass(nc), min(nrows, 3), rd.nullsSeen, rd.absentSeen, len(rd.extra) > 0)
		if nc == 1 && !rd.nullsSeen {
			class = "trivial/" + class
		}
		c.R.Count(class)
		for _, cd := range t.cols {
			c.R.Dist["cell:"+cd.key]++
		}
		c.R.Dist[cfg.PadKey()]++
		if nc%8 != 0 && rd.absentSeen && (cfg.PadCols != 0 || cfg.PadNull != 0) {
			c.R.Dist["padding bits set, partial images, column count not a multiple of 8"]++
		}
		if k%40 == 0 {
			c.R.Sample(vh.Sprintf("rows event: cfg=%s kind=%d cols=%d rows=%d bytes=%d", cfg, kind, nc, nrows, len(ev)))
		}
		sev, ok := stripImpl(fi.f, ev)
		if !ok {
			c.R.Add(vh.Mismatch{Kind: "spec", What: "StripChecksum failed on a well-formed rows event", Case: req.String(), InDomain: true})
			continue
		}
		model := c.M.Call(vh.L(vh.A("rows"), fi.val, vh.L(tmVals...), vh.X(sev.Bytes())))
		impl, rs := implRows(fi.f, sev, tm)
		if impl.String() != expect.String() {
			c.R.Add(vh.Mismatch{Kind: "spec", What: "Rows differs from the rows and images the master encoded", Case: vh.Sprintf("%.3000s", req.String()), Input: vh.Sprintf("%x", ev),
				Expected: expect.String(), Model: model.String(), Impl: impl.String(), InDomain: true})
			continue
		}
		if impl.String() != model.String() {
			c.R.Add(vh.Mismatch{Kind: "corr", What: "Rows differs from the model", Case: vh.Sprintf("%.3000s", req.String()), Input: vh.Sprintf("%x", ev), Model: model.String(), Impl: impl.String(), InDomain: true})
		}
		// decoding every image column by column consumes it exactly, with the expected value per cell
		if rs != nil {
			tys := make([]vh.Val, len(t.cols))
			for i, cd := range t.cols {
				tys[i] = vh.L(cd.ty, vh.B(cd.uns))
			}
			check := func(img []vh.Val, data []byte, what string) {
				exp := c.M.Call(vh.L(vh.A("expect_image"), vh.I(0), vh.L(tys...), vh.L(img...)))
				pos := 0
				for ci, cell := range exp.List {
					if cell.Nth(1).Atom == "1" || cell.Nth(2).Atom == "nil" { // absent or NULL
						continue
					}
					want, _ := cell.Nth(2).Hex()
					want = substFloat(want)
					got := implCellBytes(vh.Exact(data), pos, tm.Types[ci], tm.Metadata[ci], t.cols[ci].uns)
					gl := implCellLength(vh.Exact(data), pos, tm.Types[ci], tm.Metadata[ci])
					if got.Nth(0).Atom != "ok" || got.Nth(1).String() != vh.X(want).String() || gl.Nth(1).String() != got.Nth(2).String() {
						c.R.Add(vh.Mismatch{Kind: "spec", What: "image cell: value decoder and length rule disagree or the value is wrong (" + t.cols[ci].key + ")",
							Case: vh.Sprintf("%s column %d of %s image", t.cols[ci].ty, ci, what), Input: vh.Sprintf("data=%x pos=%d type=%d meta=%d", data, pos, tm.Types[ci], tm.Metadata[ci]),
							Expected: vh.X(want).String(), Impl: got.String() + " length " + gl.String(), InDomain: true})
						return
					}
					l, _ := got.Nth(2).Int()
					pos += int(l)
				}
				if pos != len(data) {
					c.R.Add(vh.Mismatch{Kind: "spec", What: "image not consumed exactly by column-by-column decoding", Case: what, Expected: fmt.Sprint(len(data)), Impl: fmt.Sprint(pos), InDomain: true})
				}
			}
			for i := range rs.Rows {
				if kind != 0 && i < len(rd.before) {
					check(rd.before[i], rs.Rows[i].Identify, "identify")
				}
				if kind != 2 && i < len(rd.after) {
					check(rd.after[i], rs.Rows[i].Data, "data")
				}
			}
		}
		// malformed: truncations / corruptions (model vs implementation)
		if k%5 == 0 {
			body := sev.Bytes()
			for j := 0; j < 5; j++ {
				b := append([]byte{}, body...)
				kindm := "truncated"
				if r.Bool() && len(b) > 20 {
					b = b[:19+r.Intn(len(b)-19)]
				} else if len(b) > 20 {
					b[19+r.Intn(len(b)-19)] = byte(r.U64())
					kindm = "corrupted"
				}
				me := replication.NewMysql56BinlogEvent(vh.Exact(b))
				mm := c.M.Call(vh.L(vh.A("rows"), fi.val, vh.L(tmVals...), vh.X(b)))
				if mm.Nth(0).Atom == "err" && mm.Nth(1).Atom == "out_of_fuel" {
					c.R.Notes = append(c.R.Notes, "a malformed rows event makes the row loop spin without consuming data (model out of fuel); not run on the implementation")
					continue
				}
				mi, _ := implRows(fi.f, me, tm)
				c.R.Count("rows-malformed/" + kindm)
				if mm.String() != mi.String() {
					c.R.Add(vh.Mismatch{Kind: "corr", What: "Rows differs from the model on a malformed event", Case: vh.Sprintf("cfg=%s cols=%d x%x", cfg, nc, b), Model: vh.Sprintf("%.600s", mm.String()), Impl: vh.Sprintf("%.600s", mi.String())})
				}
			}
		}
	}
}
