package main

// C20 — transactions always serialise to well-formed, structure-preserving JSON.
//
// Implementation side: json.Marshal(*Transaction) (must succeed), its bytes, and the
// tree encoding/json reads back from them (token walk, key order preserved).
// Model side (coq/theories/Model/Marshal.v, Spec/JsonTree.v): marshal_tx, render_json,
// parse_json, abstract_view / project_tx.
//   corr: bytes = render_json (marshal_tx tx); Go-decoded tree = parse_json of the model text;
//         raw escaper / sanitiser / reader / writer against encoding/json on byte soup.
//   spec: the output is valid JSON in valid UTF-8, and the view read back from the decoded tree
//         (positions, kinds, order, tables, SQL, per column name/type name/absent/data,
//         NULL = null distinct from "") equals the view computed directly from the Go structs.

import (
	"bytes"
	"encoding/json"
	"fmt"
	"io"
	"math"
	"math/big"
	"os"
	"path/filepath"
	"regexp"
	"sort"
	"strings"
	"time"
	"unicode/utf8"

	gobinlog "github.com/Breeze0806/gobinlog"
	"github.com/Breeze0806/gobinlog/replication"
	"verif/harness/internal/vh"
)

func init() { runners["C20"] = runC20 }

var nilA = vh.A("nil")

// ---------- transactions <-> S-expressions (encoding documented in Model/DispatchMarshal.v) ----------

func sxPos(p gobinlog.Position) vh.Val { return vh.L(vh.X([]byte(p.Filename)), vh.I(p.Offset)) }

func sxCol(c *gobinlog.ColumnData) vh.Val {
	if c == nil {
		return nilA
	}
	return vh.L(vh.X([]byte(c.Filed)), vh.I(int64(c.Type)), vh.B(c.IsEmpty), vh.XN(c.Data))
}

func sxRow(r *gobinlog.RowData) vh.Val {
	if r == nil {
		return nilA
	}
	if r.Columns == nil {
		return vh.L(nilA)
	}
	cs := []vh.Val{}
	for _, c := range r.Columns {
		cs = append(cs, sxCol(c))
	}
	return vh.L(vh.L(cs...))
}

func sxRows(rs []*gobinlog.RowData) vh.Val {
	if rs == nil {
		return nilA
	}
	out := []vh.Val{}
	for _, r := range rs {
		out = append(out, sxRow(r))
	}
	return vh.L(out...)
}

func sxEvent(e *gobinlog.StreamEvent) vh.Val {
	if e == nil {
		return nilA
	}
	return vh.L(vh.I(int64(e.Type)), vh.X([]byte(e.Table.DbName)), vh.X([]byte(e.Table.TableName)),
		vh.X([]byte(e.Query.SQL)), vh.I(e.Timestamp), sxRows(e.RowValues), sxRows(e.RowIdentifies))
}

func sxTx(t *gobinlog.Transaction) vh.Val {
	evs := nilA
	if t.Events != nil {
		l := []vh.Val{}
		for _, e := range t.Events {
			l = append(l, sxEvent(e))
		}
		evs = vh.L(l...)
	}
	return vh.L(sxPos(t.NowPosition), sxPos(t.NextPosition), vh.I(t.Timestamp), evs)
}

func isNilA(v vh.Val) bool { return !v.IsL && v.Atom == "nil" }

func mustHex(v vh.Val) []byte {
	b, ok := v.Hex()
	if !ok {
		panic("replay: bad hex atom " + v.String())
	}
	return b
}
func mustInt(v vh.Val) int64 {
	n, ok := v.Int()
	if !ok {
		panic("replay: bad int atom " + v.String())
	}
	return n
}

func unPos(v vh.Val) gobinlog.Position {
	return gobinlog.Position{Filename: string(mustHex(v.Nth(0))), Offset: mustInt(v.Nth(1))}
}

func unRows(v vh.Val) []*gobinlog.RowData {
	if isNilA(v) {
		return nil
	}
	out := []*gobinlog.RowData{}
	for _, rv := range v.List {
		if isNilA(rv) {
			out = append(out, nil)
			continue
		}
		rd := &gobinlog.RowData{}
		cv := rv.Nth(0)
		if !isNilA(cv) {
			rd.Columns = []*gobinlog.ColumnData{}
			for _, c := range cv.List {
				if isNilA(c) {
					rd.Columns = append(rd.Columns, nil)
					continue
				}
				col := &gobinlog.ColumnData{Filed: string(mustHex(c.Nth(0))), Type: gobinlog.ColumnType(mustInt(c.Nth(1))), IsEmpty: c.Nth(2).Atom == "1"}
				if !isNilA(c.Nth(3)) {
					col.Data = mustHex(c.Nth(3))
				}
				rd.Columns = append(rd.Columns, col)
			}
		}
		out = append(out, rd)
	}
	return out
}

func unTx(v vh.Val) *gobinlog.Transaction {
	t := &gobinlog.Transaction{NowPosition: unPos(v.Nth(0)), NextPosition: unPos(v.Nth(1)), Timestamp: mustInt(v.Nth(2))}
	ev := v.Nth(3)
	if !isNilA(ev) {
		t.Events = []*gobinlog.StreamEvent{}
		for _, e := range ev.List {
			if isNilA(e) {
				t.Events = append(t.Events, nil)
				continue
			}
			t.Events = append(t.Events, &gobinlog.StreamEvent{
				Type:      gobinlog.StatementType(mustInt(e.Nth(0))),
				Table:     gobinlog.MysqlTableName{DbName: string(mustHex(e.Nth(1))), TableName: string(mustHex(e.Nth(2)))},
				Query:     replication.Query{SQL: string(mustHex(e.Nth(3)))},
				Timestamp: mustInt(e.Nth(4)), RowValues: unRows(e.Nth(5)), RowIdentifies: unRows(e.Nth(6)),
			})
		}
	}
	return t
}

func tsText(ts int64) string { return time.Unix(ts, 0).Local().String() }

func tsMap(t *gobinlog.Transaction) vh.Val {
	seen := map[int64]bool{}
	var out []vh.Val
	add := func(ts int64) {
		if !seen[ts] {
			seen[ts] = true
			out = append(out, vh.L(vh.I(ts), vh.X([]byte(tsText(ts)))))
		}
	}
	add(t.Timestamp)
	for _, e := range t.Events {
		if e != nil {
			add(e.Timestamp)
		}
	}
	return vh.L(out...)
}

// ---------- generic JSON trees read with encoding/json (key order preserved) ----------

type jt struct {
	kind byte // 'z' null, 'b', 'n', 's', 'a', 'o'
	b    bool
	num  string
	s    string
	arr  []*jt
	keys []string
	vals []*jt
}

func readTree(dec *json.Decoder) (*jt, error) {
	tok, err := dec.Token()
	if err != nil {
		return nil, err
	}
	switch v := tok.(type) {
	case nil:
		return &jt{kind: 'z'}, nil
	case bool:
		return &jt{kind: 'b', b: v}, nil
	case json.Number:
		return &jt{kind: 'n', num: string(v)}, nil
	case string:
		return &jt{kind: 's', s: v}, nil
	case json.Delim:
		switch v {
		case '[':
			n := &jt{kind: 'a'}
			for dec.More() {
				x, err := readTree(dec)
				if err != nil {
					return nil, err
				}
				n.arr = append(n.arr, x)
			}
			if _, err := dec.Token(); err != nil {
				return nil, err
			}
			return n, nil
		case '{':
			n := &jt{kind: 'o'}
			for dec.More() {
				kt, err := dec.Token()
				if err != nil {
					return nil, err
				}
				k, ok := kt.(string)
				if !ok {
					return nil, fmt.Errorf("non-string key")
				}
				x, err := readTree(dec)
				if err != nil {
					return nil, err
				}
				n.keys = append(n.keys, k)
				n.vals = append(n.vals, x)
			}
			if _, err := dec.Token(); err != nil {
				return nil, err
			}
			return n, nil
		}
	}
	return nil, fmt.Errorf("unexpected token %v", tok)
}

// decodeTree: the whole text must be one JSON value.
func decodeTree(b []byte) (*jt, error) {
	if !json.Valid(b) {
		return nil, fmt.Errorf("invalid JSON")
	}
	dec := json.NewDecoder(bytes.NewReader(b))
	dec.UseNumber()
	t, err := readTree(dec)
	if err != nil {
		return nil, err
	}
	if _, err := dec.Token(); err != io.EOF {
		return nil, fmt.Errorf("trailing data")
	}
	return t, nil
}

var intRe = regexp.MustCompile(`^-?[0-9]+$`)

// canonical TREE S-expression (same shape as val_of_j)
func (t *jt) sx() vh.Val {
	switch t.kind {
	case 'z':
		return vh.A("null")
	case 'b':
		return vh.L(vh.A("b"), vh.B(t.b))
	case 'n':
		if intRe.MatchString(t.num) {
			z, _ := new(big.Int).SetString(t.num, 10)
			return vh.L(vh.A("n"), vh.A(z.String()))
		}
		return vh.L(vh.A("f"), vh.X([]byte(t.num)))
	case 's':
		return vh.L(vh.A("s"), vh.X([]byte(t.s)))
	case 'a':
		l := []vh.Val{vh.A("a")}
		for _, x := range t.arr {
			l = append(l, x.sx())
		}
		return vh.L(l...)
	default:
		l := []vh.Val{vh.A("o")}
		for i, k := range t.keys {
			l = append(l, vh.L(vh.X([]byte(k)), t.vals[i].sx()))
		}
		return vh.L(l...)
	}
}

func (t *jt) hasNonInt() bool {
	switch t.kind {
	case 'n':
		return !intRe.MatchString(t.num)
	case 'a':
		for _, x := range t.arr {
			if x.hasNonInt() {
				return true
			}
		}
	case 'o':
		for _, x := range t.vals {
			if x.hasNonInt() {
				return true
			}
		}
	}
	return false
}

func (t *jt) get(k string) *jt {
	if t == nil || t.kind != 'o' {
		return nil
	}
	for i, kk := range t.keys {
		if kk == k {
			return t.vals[i]
		}
	}
	return nil
}

// ---------- the view: expected (from the Go structs) and projected (from the decoded tree) ----------

// toValid: what a JSON reader sees of a Go string (each undecodable byte -> U+FFFD); identity on valid UTF-8.
func toValid(s string) string { return string([]rune(s)) }

func vwCol(c *gobinlog.ColumnData) vh.Val {
	if c == nil {
		return nilA
	}
	d := nilA
	if c.Data != nil {
		d = vh.X([]byte(toValid(string(c.Data))))
	}
	return vh.L(vh.X([]byte(toValid(c.Filed))), vh.X([]byte(c.Type.String())), vh.B(c.IsEmpty), d)
}

func vwRows(rs []*gobinlog.RowData) vh.Val {
	if rs == nil {
		return nilA
	}
	out := []vh.Val{}
	for _, r := range rs {
		if r == nil {
			out = append(out, nilA)
			continue
		}
		if r.Columns == nil {
			out = append(out, vh.L(nilA))
			continue
		}
		cs := []vh.Val{}
		for _, c := range r.Columns {
			cs = append(cs, vwCol(c))
		}
		out = append(out, vh.L(vh.L(cs...)))
	}
	return vh.L(out...)
}

func expectedView(t *gobinlog.Transaction) vh.Val {
	evs := nilA
	if t.Events != nil {
		l := []vh.Val{}
		for _, e := range t.Events {
			if e == nil {
				l = append(l, nilA)
				continue
			}
			var body vh.Val
			if e.Query.SQL != "" {
				body = vh.L(vh.A("sql"), vh.X([]byte(toValid(e.Query.SQL))))
			} else {
				body = vh.L(vh.A("rows"), vwRows(e.RowValues), vwRows(e.RowIdentifies))
			}
			l = append(l, vh.L(vh.X([]byte(toValid(e.Table.DbName))), vh.X([]byte(toValid(e.Table.TableName))),
				vh.X([]byte(e.Type.String())), vh.X([]byte(tsText(e.Timestamp))), body))
		}
		evs = vh.L(l...)
	}
	pos := func(p gobinlog.Position) vh.Val { return vh.L(vh.X([]byte(toValid(p.Filename))), vh.I(p.Offset)) }
	return vh.L(pos(t.NowPosition), pos(t.NextPosition), vh.X([]byte(tsText(t.Timestamp))), evs)
}

var badV = vh.A("?")

func pjStr(t *jt) vh.Val {
	if t == nil || t.kind != 's' {
		return badV
	}
	return vh.X([]byte(t.s))
}

func pjCol(t *jt) vh.Val {
	if t == nil {
		return badV
	}
	if t.kind == 'z' {
		return nilA
	}
	if t.kind != 'o' || len(t.keys) != 4 {
		return badV
	}
	e := t.get("isEmpty")
	if e == nil || e.kind != 'b' {
		return badV
	}
	d := t.get("data")
	var dv vh.Val
	switch {
	case d == nil:
		return badV
	case d.kind == 'z':
		dv = nilA
	case d.kind == 's':
		dv = vh.X([]byte(d.s))
	default:
		return badV
	}
	return vh.L(pjStr(t.get("filed")), pjStr(t.get("type")), vh.B(e.b), dv)
}

func pjRows(t *jt) vh.Val {
	if t == nil {
		return badV
	}
	if t.kind == 'z' {
		return nilA
	}
	if t.kind != 'a' {
		return badV
	}
	out := []vh.Val{}
	for _, r := range t.arr {
		if r.kind == 'z' {
			out = append(out, nilA)
			continue
		}
		c := r.get("Columns")
		switch {
		case c == nil || len(r.keys) != 1:
			out = append(out, badV)
		case c.kind == 'z':
			out = append(out, vh.L(nilA))
		case c.kind == 'a':
			cs := []vh.Val{}
			for _, x := range c.arr {
				cs = append(cs, pjCol(x))
			}
			out = append(out, vh.L(vh.L(cs...)))
		default:
			out = append(out, badV)
		}
	}
	return vh.L(out...)
}

func pjPos(t *jt) vh.Val {
	o := t.get("offset")
	if t == nil || len(t.keys) != 2 || o == nil || o.kind != 'n' || !intRe.MatchString(o.num) {
		return badV
	}
	return vh.L(pjStr(t.get("filename")), vh.A(o.num))
}

func projectView(t *jt) vh.Val {
	if t == nil || t.kind != 'o' || len(t.keys) != 4 {
		return badV
	}
	ev := t.get("events")
	var evs vh.Val
	switch {
	case ev == nil:
		evs = badV
	case ev.kind == 'z':
		evs = nilA
	case ev.kind == 'a':
		l := []vh.Val{}
		for _, e := range ev.arr {
			if e.kind == 'z' {
				l = append(l, nilA)
				continue
			}
			name := e.get("name")
			var body vh.Val
			if q := e.get("sql"); q != nil {
				if len(e.keys) != 4 {
					body = badV
				} else {
					body = vh.L(vh.A("sql"), pjStr(q))
				}
			} else {
				if len(e.keys) != 5 {
					body = badV
				} else {
					body = vh.L(vh.A("rows"), pjRows(e.get("rowValues")), pjRows(e.get("rowIdentifies")))
				}
			}
			if name == nil || len(name.keys) != 2 {
				l = append(l, badV)
				continue
			}
			l = append(l, vh.L(pjStr(name.get("db")), pjStr(name.get("table")), pjStr(e.get("type")), pjStr(e.get("timestamp")), body))
		}
		evs = vh.L(l...)
	default:
		evs = badV
	}
	return vh.L(pjPos(t.get("nowPosition")), pjPos(t.get("nextPosition")), pjStr(t.get("timestamp")), evs)
}

// ---------- byte soup ----------

type frag struct {
	cls string
	gen func(r *vh.Rng) []byte
}

func pickB(r *vh.Rng, alts ...[]byte) []byte { return alts[r.Intn(len(alts))] }

func encRune(c int) []byte { return []byte(string(rune(c))) }

var frags = []frag{
	{"ascii", func(r *vh.Rng) []byte {
		const al = "abcdefghijklmnopqrstuvwxyzABCDEFGHIJKLMNOPQRSTUVWXYZ0123456789 _-.,:;'()[]{}=+*%$#@!?|~^`"
		n := 1 + r.Intn(6)
		b := make([]byte, n)
		for i := range b {
			b[i] = al[r.Intn(len(al))]
		}
		return b
	}},
	{"quote", func(r *vh.Rng) []byte { return []byte{'"'} }},
	// text that already looks like a JSON escape (stored JSON, logs of other encoders): a literal backslash followed by
	// u003c / u0026 / u2028 / n / " ... must come back as exactly those characters
	{"escape-looking", func(r *vh.Rng) []byte {
		return pickB(r, []byte(`\u0026`), []byte(`\u003c`), []byte(`\u003e`), []byte(`\u2028`), []byte(`\u00`), []byte(`\n`), []byte(`\"`), []byte(`\\u0026`), []byte(`\ud800`), []byte(`&amp;`))
	}},
	{"backslash", func(r *vh.Rng) []byte { return []byte{'\\'} }},
	{"slash", func(r *vh.Rng) []byte { return []byte{'/'} }},
	{"html", func(r *vh.Rng) []byte { return pickB(r, []byte("<"), []byte(">"), []byte("&"), []byte("</script>")) }},
	{"ctl-short", func(r *vh.Rng) []byte { return []byte{"\b\f\n\r\t"[r.Intn(5)]} }},
	{"ctl-u00", func(r *vh.Rng) []byte {
		for {
			b := byte(r.Intn(32))
			if !strings.ContainsRune("\b\f\n\r\t", rune(b)) {
				return []byte{b}
			}
		}
	}},
	{"del", func(r *vh.Rng) []byte { return []byte{0x7f} }},
	{"u2028", func(r *vh.Rng) []byte { return pickB(r, encRune(0x2028), encRune(0x2029)) }},
	{"near2028", func(r *vh.Rng) []byte {
		return pickB(r, encRune(0x2027), encRune(0x202a), []byte{0xe2, 0x80}, []byte{0xe2, 0x81, 0xa8})
	}},
	{"utf8-2", func(r *vh.Rng) []byte { return encRune(0x80 + r.Intn(0x800-0x80)) }},
	{"utf8-3", func(r *vh.Rng) []byte {
		for {
			c := 0x800 + r.Intn(0x10000-0x800)
			if c < 0xd800 || c > 0xdfff {
				return encRune(c)
			}
		}
	}},
	{"utf8-4", func(r *vh.Rng) []byte { return encRune(0x10000 + r.Intn(0x110000-0x10000)) }},
	{"utf8-boundary", func(r *vh.Rng) []byte {
		return encRune(r.Pick(0x7f, 0x80, 0x7ff, 0x800, 0xd7ff, 0xe000, 0xfffd, 0xffff, 0x10000, 0x10ffff, 0xfffe))
	}},
	{"bad-cont", func(r *vh.Rng) []byte { return []byte{byte(0x80 + r.Intn(0x40))} }},
	{"bad-trunc", func(r *vh.Rng) []byte {
		return pickB(r, []byte{0xc3}, []byte{0xdf}, []byte{0xe1}, []byte{0xe1, 0x80}, []byte{0xef, 0xbf}, []byte{0xf1}, []byte{0xf1, 0x80}, []byte{0xf1, 0x80, 0x80}, []byte{0xf4, 0x8f, 0xbf})
	}},
	{"bad-overlong", func(r *vh.Rng) []byte {
		return pickB(r, []byte{0xc0, 0x80}, []byte{0xc1, 0xbf}, []byte{0xe0, 0x80, 0x80}, []byte{0xe0, 0x9f, 0xbf}, []byte{0xf0, 0x80, 0x80, 0x80}, []byte{0xf0, 0x8f, 0xbf, 0xbf}, []byte{0xc0, 0xaf})
	}},
	{"bad-surrogate", func(r *vh.Rng) []byte {
		return pickB(r, []byte{0xed, 0xa0, 0x80}, []byte{0xed, 0xbf, 0xbf}, []byte{0xed, 0xa0, 0xbd, 0xed, 0xb8, 0x80})
	}},
	{"bad-toobig", func(r *vh.Rng) []byte {
		return pickB(r, []byte{0xf4, 0x90, 0x80, 0x80}, []byte{0xf5, 0x80, 0x80, 0x80}, []byte{0xf8, 0x88, 0x80, 0x80, 0x80}, []byte{0xfe}, []byte{0xff})
	}},
	{"escape-lookalike", func(r *vh.Rng) []byte {
		return pickB(r, []byte(`\u0041`), []byte(`\n`), []byte(`\"`), []byte(`\ud83d\ude00`), []byte(`\u2028`), []byte(`\\`))
	}},
	{"random-bytes", func(r *vh.Rng) []byte { return r.Bytes(1 + r.Intn(4)) }},
}

// soup draws a string made of k fragments; classes of the fragments used are returned sorted.
func soup(r *vh.Rng, k int) ([]byte, []string) {
	out := []byte{}
	set := map[string]bool{}
	for i := 0; i < k; i++ {
		f := frags[r.Intn(len(frags))]
		out = append(out, f.gen(r)...)
		set[f.cls] = true
	}
	var cl []string
	for c := range set {
		cl = append(cl, c)
	}
	sort.Strings(cl)
	return out, cl
}

// ---------- transaction generators ----------

type txGen struct {
	r     *vh.Rng
	mode  string         // realistic | soup | shape | single
	hot   string         // for mode single: the string position that gets the soup
	esc   map[string]int // escape classes used (distribution)
	flags map[string]bool
}

func (g *txGen) text(pos string, plain string) string {
	useSoup := g.mode == "soup" || (g.mode == "single" && g.hot == pos)
	if g.mode == "shape" && g.r.Chance(1, 6) {
		useSoup = true
	}
	if !useSoup {
		return plain
	}
	b, cl := soup(g.r, g.r.Intn(6))
	for _, c := range cl {
		g.esc[c]++
		g.flags["esc:"+c] = true
	}
	return string(b)
}

var realDb = []string{"shop", "vt_test_keyspace", "inventory", "数据库", "mysql", "app_prod"}
var realTable = []string{"orders", "vt_a", "customers", "t1", "таблица", "order_items"}
var realCols = []string{"id", "message", "name", "created_at", "price", "qty", "payload", "note", "flags", "ünï"}

var knownColTypes = []int{0, 1, 2, 3, 4, 5, 6, 7, 8, 9, 10, 11, 12, 13, 14, 15, 16, 17, 18, 19, 245, 246, 247, 248, 249, 250, 251, 252, 253, 254, 255}
var unknownColTypes = []int{20, 21, 100, 244, 256, 257, -1, -246, 65535, 1 << 31, math.MaxInt64, math.MinInt64}

func (g *txGen) colType() int {
	if g.r.Chance(1, 8) {
		return unknownColTypes[g.r.Intn(len(unknownColTypes))]
	}
	return knownColTypes[g.r.Intn(len(knownColTypes))]
}

func (g *txGen) plainData(ty int) []byte {
	r := g.r
	switch {
	case ty == 1 || ty == 2 || ty == 3 || ty == 8 || ty == 9 || ty == 13:
		return []byte(fmt.Sprintf("%d", int64(r.U64())>>uint(r.Intn(60))))
	case ty == 4 || ty == 5:
		return []byte(fmt.Sprintf("%g", float64(int64(r.U64()>>20))/1024))
	case ty == 0 || ty == 246:
		return []byte(fmt.Sprintf("%d.%04d", r.Intn(100000)-50000, r.Intn(10000)))
	case ty == 7 || ty == 12 || ty == 17 || ty == 18:
		return []byte(fmt.Sprintf("20%02d-%02d-%02d %02d:%02d:%02d", r.Intn(40), 1+r.Intn(12), 1+r.Intn(28), r.Intn(24), r.Intn(60), r.Intn(60)))
	case ty == 10 || ty == 14:
		return []byte(fmt.Sprintf("19%02d-%02d-%02d", r.Intn(100), 1+r.Intn(12), 1+r.Intn(28)))
	case ty == 11 || ty == 19:
		return []byte(fmt.Sprintf("%02d:%02d:%02d", r.Intn(24), r.Intn(60), r.Intn(60)))
	case ty == 245:
		return []byte(`{"a":[1,2,{"b":null}],"c":"x\"y"}`)
	case ty == 16:
		return []byte(fmt.Sprintf("%b", r.Intn(256)))
	default:
		if r.Chance(1, 5) {
			return []byte{}
		}
		return []byte(pickS(r, "abc", "abcd", "hello world", "O'Reilly", "a,b;c", "Zürich", "日本語", "100%", "x"))
	}
}

func pickS(r *vh.Rng, xs ...string) string { return xs[r.Intn(len(xs))] }
func pickI(r *vh.Rng, xs ...int) int         { return xs[r.Intn(len(xs))] }

func (g *txGen) column(i int) *gobinlog.ColumnData {
	r := g.r
	if g.mode != "realistic" && r.Chance(1, 12) {
		g.flags["col:nilptr"] = true
		return nil
	}
	ty := g.colType()
	c := &gobinlog.ColumnData{Filed: g.text("filed", realCols[(i+r.Intn(2))%len(realCols)]), Type: gobinlog.ColumnType(ty)}
	if _, known := colTypeKnown[ty]; !known {
		g.flags["type:unknown"] = true
	}
	switch k := r.Intn(10); {
	case k == 0: // absent (not part of the image): IsEmpty, no data
		c.IsEmpty = true
		g.flags["col:absent"] = true
	case k == 1: // SQL NULL
		g.flags["data:null"] = true
	case k == 2:
		c.Data = []byte{}
		g.flags["data:empty"] = true
	default:
		c.Data = []byte(g.text("data", string(g.plainData(ty))))
		if len(c.Data) == 0 {
			g.flags["data:empty"] = true
		} else {
			g.flags["data:value"] = true
		}
	}
	if g.mode != "realistic" && r.Chance(1, 15) { // combinations the streamer does not produce, still serialisable
		c.IsEmpty = !c.IsEmpty
		g.flags["col:odd-absent"] = true
	}
	return c
}

var colTypeKnown = func() map[int]bool {
	m := map[int]bool{}
	for _, t := range knownColTypes {
		m[t] = true
	}
	return m
}()

func (g *txGen) rows(what string, ncols int) []*gobinlog.RowData {
	r := g.r
	if g.mode != "realistic" {
		switch r.Intn(8) {
		case 0:
			g.flags["rows:nil"] = true
			return nil
		case 1:
			g.flags["rows:empty"] = true
			return []*gobinlog.RowData{}
		}
	}
	n := 1 + r.Intn(3)
	out := make([]*gobinlog.RowData, 0, 10)
	for i := 0; i < n; i++ {
		if g.mode != "realistic" {
			switch r.Intn(12) {
			case 0:
				g.flags["row:nilptr"] = true
				out = append(out, nil)
				continue
			case 1:
				g.flags["cols:nil"] = true
				out = append(out, &gobinlog.RowData{})
				continue
			case 2:
				g.flags["cols:empty"] = true
				out = append(out, &gobinlog.RowData{Columns: []*gobinlog.ColumnData{}})
				continue
			}
		}
		rd := &gobinlog.RowData{Columns: make([]*gobinlog.ColumnData, 0, ncols)}
		for j := 0; j < ncols; j++ {
			rd.Columns = append(rd.Columns, g.column(j))
		}
		out = append(out, rd)
	}
	g.flags["rows:some"] = true
	return out
}

var timestamps = []int64{0, 1, 1407805592, 1700000000, 2147483647, 2147483648, 4102444800, 253402300799, 253402300800, -1, -62135596800, 1 << 40, math.MaxInt32, math.MinInt32}

func (g *txGen) ts() int64 {
	if g.mode == "realistic" {
		return 1400000000 + int64(g.r.Intn(400000000))
	}
	if g.r.Chance(1, 20) {
		return pickI64(g.r, math.MaxInt64, math.MinInt64, 1<<62, -(1 << 62))
	}
	return timestamps[g.r.Intn(len(timestamps))]
}
func pickI64(r *vh.Rng, xs ...int64) int64 { return xs[r.Intn(len(xs))] }

var stmtTypes = []int{0, 1, 2, 3, 4, 5, 6, 7, 8, 9, 10, 11, 12}
var unknownStmtTypes = []int{13, 14, -1, 255, 1 << 20, math.MaxInt64, math.MinInt64}

func (g *txGen) event() *gobinlog.StreamEvent {
	r := g.r
	if g.mode != "realistic" && r.Chance(1, 12) {
		g.flags["ev:nilptr"] = true
		return nil
	}
	ty := stmtTypes[r.Intn(len(stmtTypes))]
	if g.mode != "realistic" && r.Chance(1, 8) {
		ty = unknownStmtTypes[r.Intn(len(unknownStmtTypes))]
		g.flags["stmt:unknown"] = true
	}
	e := &gobinlog.StreamEvent{
		Type:      gobinlog.StatementType(ty),
		Table:     gobinlog.MysqlTableName{DbName: g.text("db", realDb[r.Intn(len(realDb))]), TableName: g.text("table", realTable[r.Intn(len(realTable))])},
		Timestamp: g.ts(),
	}
	dml := ty == 4 || ty == 5 || ty == 6
	wantSQL := !dml
	if g.mode != "realistic" && r.Chance(1, 6) {
		wantSQL = !wantSQL
	}
	if wantSQL {
		plain := pickS(r, "BEGIN", "COMMIT", "create table t1 (id int primary key, message varchar(64))", "alter table `t1` add column `x` int",
			"drop table if exists t1", "truncate table orders", "rename table a to b", "SET TIMESTAMP=1407805592",
			"insert into vt_test_keyspace.vt_a(id,message)values(1076895760,'abcd')", "update t set a='<b>&\"x\"' where id=1", "delete from t where s='a\\nb'\n")
		e.Query = replication.Query{Database: e.Table.DbName, SQL: g.text("sql", plain)}
		if q := r.Side(); q.Chance(1, 2) {
			// the charset status variable of the query event (what parseEvents copies from the event): the client
			// character set of a MySQL 8.0 utf8mb4 client (255), binary (63), latin1 (8), utf8 / utf8mb4 (33, 45, 46, 224) ...
			// the serialised text does not depend on it
			cl := q.Pick(255, 63, 8, 33, 45, 46, 224, 83, q.Intn(65536))
			e.Query.Charset = &replication.Charset{Client: int32(cl), Conn: int32(q.Pick(cl, 8, 33, 45, 255, q.Intn(65536))), Server: int32(q.Pick(8, 33, 45, 255, q.Intn(65536)))}
			g.flags[fmt.Sprintf("ev:charset-client-%s", map[bool]string{true: "utf8-33/45", false: "other"}[cl == 33 || cl == 45])] = true
		}
		if e.Query.SQL == "" {
			g.flags["ev:sql-empty"] = true // falls into the rows variant
		} else {
			g.flags["ev:sql"] = true
		}
		if g.mode != "realistic" && r.Chance(1, 3) { // rows present but hidden by the sql variant
			e.RowValues = g.rows("rv", 2)
		}
		return e
	}
	g.flags["ev:rows"] = true
	ncols := 1 + r.Intn(5)
	if g.mode == "realistic" {
		// newStreamEvent: both slices made non-nil
		e.RowValues = make([]*gobinlog.RowData, 0, 10)
		e.RowIdentifies = make([]*gobinlog.RowData, 0, 10)
		if ty == 4 || ty == 5 {
			e.RowValues = g.rows("rv", ncols)
		}
		if ty == 5 || ty == 6 {
			e.RowIdentifies = g.rows("ri", ncols)
		}
		return e
	}
	e.RowValues = g.rows("rv", ncols)
	e.RowIdentifies = g.rows("ri", ncols)
	return e
}

func (g *txGen) tx() *gobinlog.Transaction {
	r := g.r
	file := g.text("filename", fmt.Sprintf("mysql-bin.%06d", 1+r.Intn(999)))
	off := int64(4 + r.Intn(1<<20))
	t := &gobinlog.Transaction{
		NowPosition:  gobinlog.Position{Filename: file, Offset: off},
		NextPosition: gobinlog.Position{Filename: file, Offset: off + int64(r.Intn(100000))},
		Timestamp:    g.ts(),
	}
	if g.mode != "realistic" {
		if r.Chance(1, 4) {
			t.NextPosition.Filename = g.text("filename", "mysql-bin.000002")
		}
		if r.Chance(1, 6) {
			t.NowPosition.Offset = pickI64(r, 0, -1, math.MaxInt64, math.MinInt64, 1<<32, 4)
		}
		switch r.Intn(10) {
		case 0:
			g.flags["events:nil"] = true
			return t
		case 1:
			g.flags["events:empty"] = true
			t.Events = []*gobinlog.StreamEvent{}
			return t
		}
	}
	n := 1 + r.Intn(5)
	t.Events = make([]*gobinlog.StreamEvent, 0, n)
	for i := 0; i < n; i++ {
		t.Events = append(t.Events, g.event())
	}
	return t
}

// allTypesTx: one row holding a column of every type code around the table, so that every name is exercised.
func allTypesTx(r *vh.Rng, lo, hi int) *gobinlog.Transaction {
	rd := &gobinlog.RowData{}
	for ty := lo; ty <= hi; ty++ {
		rd.Columns = append(rd.Columns, &gobinlog.ColumnData{Filed: fmt.Sprintf("c%d", ty), Type: gobinlog.ColumnType(ty), Data: []byte(fmt.Sprint(ty))})
	}
	var evs []*gobinlog.StreamEvent
	for st := -1; st <= 14; st++ {
		e := &gobinlog.StreamEvent{Type: gobinlog.StatementType(st), Table: gobinlog.NewMysqlTableName("d", "t"), Timestamp: 1407805592}
		if st%2 == 0 {
			e.Query.SQL = "x"
		} else {
			e.RowValues = []*gobinlog.RowData{rd}
		}
		evs = append(evs, e)
	}
	return &gobinlog.Transaction{NowPosition: gobinlog.Position{Filename: "f", Offset: 4}, NextPosition: gobinlog.Position{Filename: "f", Offset: 8}, Timestamp: 1, Events: evs}
}

// ---------- comparison of one transaction ----------

type txCase struct {
	tx    *gobinlog.Transaction
	class string
}

func classOf(mode, hot string, flags map[string]bool, dist map[string]int) string {
	has := func(fs ...string) bool {
		for _, f := range fs {
			if flags[f] {
				return true
			}
		}
		return false
	}
	ev := "events:some"
	switch {
	case has("events:nil"):
		ev = "events:nil"
	case has("events:empty"):
		ev = "events:empty"
	case has("ev:nilptr"):
		ev = "events:some+nilptr"
	}
	var sh []string
	if has("rows:nil", "cols:nil") {
		sh = append(sh, "slice-nil")
	}
	if has("rows:empty", "cols:empty") {
		sh = append(sh, "slice-empty")
	}
	if has("row:nilptr", "col:nilptr") {
		sh = append(sh, "ptr-nil")
	}
	if has("data:null") {
		sh = append(sh, "NULL")
	}
	if has("data:empty") {
		sh = append(sh, "empty-string")
	}
	if has("col:absent", "col:odd-absent") {
		sh = append(sh, "absent")
	}
	if len(sh) == 0 {
		sh = []string{"full"}
	}
	esc, invalid := false, false
	for f := range flags {
		if strings.HasPrefix(f, "esc:") {
			switch f[4:] {
			case "ascii", "slash", "del", "utf8-2", "utf8-3", "utf8-4", "utf8-boundary", "near2028":
			case "bad-cont", "bad-trunc", "bad-overlong", "bad-surrogate", "bad-toobig", "random-bytes":
				invalid = true
			default:
				esc = true
			}
		} else {
			dist["tx-with:"+f]++
		}
	}
	e := "verbatim"
	switch {
	case invalid && esc:
		e = "escapes+invalid-utf8"
	case invalid:
		e = "invalid-utf8"
	case esc:
		e = "escapes"
	}
	if hot != "" {
		mode += "@" + hot
	}
	return fmt.Sprintf("tx/%s/%s/%s/%s", mode, ev, strings.Join(sh, ","), e)
}

func checkTx(c *Ctx, req vh.Val, resp vh.Val, tx *gobinlog.Transaction) {
	cs := req.String()
	var out []byte
	var err error
	pan := vh.Try(func() vh.Val {
		out, err = json.Marshal(tx)
		return vh.Ok()
	})
	if pan.Nth(0).Atom != "ok" || err != nil {
		c.R.Add(vh.Mismatch{Kind: "spec", What: "json.Marshal(transaction) fails", Case: cs, Expected: "success", Impl: fmt.Sprintf("%v %v", pan, err), InDomain: true})
		return
	}
	mText, _ := resp.Nth(0).Hex()
	mParsed := resp.Nth(2)
	mView := resp.Nth(3)
	mProj := resp.Nth(4)
	// corr 1: bytes
	if !bytes.Equal(out, mText) {
		c.R.Add(vh.Mismatch{Kind: "corr", What: "json.Marshal bytes differ from render_json (marshal_tx tx)", Case: cs, Model: string(vh.X(mText).Atom), Impl: vh.X(out).Atom, InDomain: true})
	}
	// spec 1: well-formed, valid UTF-8
	if !json.Valid(out) || !utf8.Valid(out) {
		c.R.Add(vh.Mismatch{Kind: "spec", What: "serialised transaction is not well-formed JSON in valid UTF-8", Case: cs, Impl: vh.X(out).Atom, InDomain: true})
		return
	}
	tree, derr := decodeTree(out)
	if derr != nil {
		c.R.Add(vh.Mismatch{Kind: "spec", What: "serialised transaction cannot be read back", Case: cs, Impl: derr.Error(), InDomain: true})
		return
	}
	// corr 2: the tree encoding/json reads = the tree the model's reader reads from the model's text
	got := vh.L(vh.A("some"), tree.sx()).String()
	if got != mParsed.String() {
		c.R.Add(vh.Mismatch{Kind: "corr", What: "tree read back by encoding/json differs from parse_json (render_json (marshal_tx tx))", Case: cs, Model: mParsed.String(), Impl: got, InDomain: true})
	}
	// spec 2: structure preserved (view from the decoded tree = view of the Go structs), NULL vs ""
	want := expectedView(tx).String()
	pv := projectView(tree).String()
	if pv != want {
		c.R.Add(vh.Mismatch{Kind: "spec", What: "view read back from the JSON differs from the transaction (positions, kinds, tables, SQL, columns, NULL vs empty)", Case: cs, Expected: want, Impl: pv, InDomain: true})
	}
	// the Coq specification's expected view and projection agree with the Go-side ones
	if mView.String() != want {
		c.R.Add(vh.Mismatch{Kind: "corr", What: "abstract_view of the model differs from the view computed from the Go structs", Case: cs, Expected: want, Model: mView.String(), InDomain: true})
	}
	if mProj.String() != "(some "+want+")" {
		c.R.Add(vh.Mismatch{Kind: "corr", What: "project_tx of the model's parsed tree differs from the expected view", Case: cs, Expected: want, Model: mProj.String(), InDomain: true})
	}
}

// ---------- raw differential checks of the JSON layer ----------

func goQuote(s []byte) []byte {
	b, err := json.Marshal(string(s))
	if err != nil {
		panic(err)
	}
	return b
}

func strClass(cl []string) string {
	if len(cl) == 0 {
		return "trivial-empty"
	}
	if len(cl) > 2 {
		return fmt.Sprintf("mixed%d", len(cl))
	}
	return strings.Join(cl, "+")
}

type rawCase struct {
	req   vh.Val
	class string
	check func(resp vh.Val, req vh.Val)
}

func runC20(c *Ctx) {
	c.R.Rule = "transactions by (generator mode, string position under stress, nil/empty/absent/unknown facts present, escape classes present); raw JSON-layer cases by (operation, escape/invalid-UTF-8 classes, accept/reject); distinct = distinct class strings; trivial = empty string"
	r := c.Rng

	// ---- replay of one recorded case ----
	if c.Replay != "" {
		raw, err := os.ReadFile(c.Replay)
		if err != nil { // bin/check runs the harness in harness/: also try the path relative to the framework root
			raw, err = os.ReadFile(filepath.Join(vh.VerifRoot(), c.Replay))
		}
		if err != nil {
			panic(err)
		}
		var rp struct {
			Mismatch vh.Mismatch `json:"mismatch"`
		}
		if err := json.Unmarshal(raw, &rp); err != nil {
			panic(err)
		}
		req, perr := vh.Parse(rp.Mismatch.Case)
		if perr != nil {
			panic("replay: case is not a complete request (truncated?): " + perr.Error())
		}
		if req.Nth(0).Atom == "marshal" {
			tx := unTx(req.Nth(2))
			req = vh.L(vh.A("marshal"), tsMap(tx), sxTx(tx))
			resp := c.M.Call(req)
			c.R.Count("replay/tx")
			checkTx(c, req, resp, tx)
		} else {
			c.R.Count("replay/raw")
			runRaw(c, []rawCase{rawFromReq(c, req)})
		}
		return
	}

	// ---- corpus (recorded cases run first) ----
	runCorpus(c)

	// ---- transactions ----
	var cases []txCase
	mk := func(mode, hot string) {
		g := &txGen{r: r, mode: mode, hot: hot, esc: c.R.Dist, flags: map[string]bool{}}
		tx := g.tx()
		cases = append(cases, txCase{tx, classOf(mode, hot, g.flags, c.R.Dist)})
	}
	for i := 0; i < c.N(150, 3000); i++ {
		mk("realistic", "")
	}
	for i := 0; i < c.N(250, 6000); i++ {
		mk("shape", "")
	}
	for i := 0; i < c.N(250, 6000); i++ {
		mk("soup", "")
	}
	for _, hot := range []string{"filename", "db", "table", "sql", "filed", "data"} {
		for i := 0; i < c.N(60, 1500); i++ {
			mk("single", hot)
		}
	}
	// names that only differ in where a delimiter-looking substring sits: ("a`.`b","c") vs ("a","b`.`c"), ("a.b","c") vs
	// ("a","b.c") ... in one transaction and in consecutive ones (a serialiser that keys anything by a joined name
	// confuses them; the cases of one process run share whatever state the serialiser keeps)
	for i := 0; i < c.N(40, 600); i++ {
		parts := []string{pickS(r, "a", "shop", "x`y", ""), pickS(r, "b", "orders", "``"), pickS(r, "c", "items", "z")}
		j := pickS(r, "`.`", ".", "`", "\".\"", ",", "\x00", "/")
		n1 := gobinlog.MysqlTableName{DbName: parts[0] + j + parts[1], TableName: parts[2]}
		n2 := gobinlog.MysqlTableName{DbName: parts[0], TableName: parts[1] + j + parts[2]}
		mkEv := func(n gobinlog.MysqlTableName) *gobinlog.StreamEvent {
			g := &txGen{r: r, mode: "realistic", esc: c.R.Dist, flags: map[string]bool{}}
			e := g.event()
			e.Table = n
			return e
		}
		pos := gobinlog.Position{Filename: "bin.000001", Offset: int64(4 + i)}
		if i%2 == 0 {
			cases = append(cases, txCase{&gobinlog.Transaction{NowPosition: pos, NextPosition: pos, Events: []*gobinlog.StreamEvent{mkEv(n1), mkEv(n2), mkEv(n1)}}, "tx/colliding-names/one-tx"})
		} else {
			cases = append(cases, txCase{&gobinlog.Transaction{NowPosition: pos, NextPosition: pos, Events: []*gobinlog.StreamEvent{mkEv(n1)}}, "tx/colliding-names/first"},
				txCase{&gobinlog.Transaction{NowPosition: pos, NextPosition: pos, Events: []*gobinlog.StreamEvent{mkEv(n2)}}, "tx/colliding-names/second"})
		}
	}
	// cells beyond 64 KiB (MEDIUMTEXT / LONGTEXT / JSON columns) of valid UTF-8 whose multi-byte characters straddle the
	// 2^16 and 2^17 byte offsets: rendered verbatim like any other text
	for i := 0; i < c.N(4, 40); i++ {
		multi := pickS(r, "é", "日本語", "😀", "ü日😀", "\u2028x")
		var b []byte
		for _, edge := range []int{1 << 16, 1 << 17} {
			for len(b) < edge-1-r.Intn(4) {
				b = append(b, "abcdefghij \"\\/<>&\n"[len(b)%18])
			}
			for k := 0; k < 12; k++ {
				b = append(b, multi...)
			}
		}
		b = append(b, "tail"...)
		pos := gobinlog.Position{Filename: "bin.000009", Offset: int64(1000 + i)}
		col := &gobinlog.ColumnData{Filed: "doc", Type: gobinlog.ColumnType(pickI(r, 252, 251, 250, 245, 253)), Data: b}
		small := &gobinlog.ColumnData{Filed: "id", Type: 3, Data: []byte("7")}
		cases = append(cases, txCase{&gobinlog.Transaction{NowPosition: pos, NextPosition: pos, Timestamp: 1407805592, Events: []*gobinlog.StreamEvent{
			{Type: gobinlog.StatementInsert, Timestamp: 1407805592, Table: gobinlog.NewMysqlTableName("shop", "docs"),
				RowValues: []*gobinlog.RowData{{Columns: []*gobinlog.ColumnData{small, col}}}}}}, "tx/large-cell/multibyte-at-64K-and-128K"})
	}
	cases = append(cases, txCase{allTypesTx(r, -3, 30), "tx/alltypes/low"}, txCase{allTypesTx(r, 240, 260), "tx/alltypes/high"},
		txCase{&gobinlog.Transaction{}, "tx/zero-value"})
	// the repo's own test vector shape
	cases = append(cases, txCase{&gobinlog.Transaction{
		NowPosition: gobinlog.Position{Filename: "binlog.000005", Offset: 0}, NextPosition: gobinlog.Position{Filename: "binlog.000005", Offset: 4},
		Events: []*gobinlog.StreamEvent{
			{Type: gobinlog.StatementInsert, Timestamp: 1407805592, Table: gobinlog.NewMysqlTableName("vt_test_keyspace", "vt_a"),
				Query: replication.Query{SQL: "insert into vt_test_keyspace.vt_a(id,message)values(1076895760,'abcd')"}},
			{Type: gobinlog.StatementDelete, Timestamp: 1407805592, Table: gobinlog.NewMysqlTableName("vt_test_keyspace", "vt_a"),
				RowIdentifies: []*gobinlog.RowData{{Columns: []*gobinlog.ColumnData{{Filed: "id", Data: []byte("1076895760"), Type: 3}, {Filed: "message", Data: nil, Type: 15}}}}},
		}}, "tx/repo-test-vector"})

	var reqs []vh.Val
	for _, cs := range cases {
		reqs = append(reqs, vh.L(vh.A("marshal"), tsMap(cs.tx), sxTx(cs.tx)))
	}
	resps := c.M.Batch(reqs)
	for i, cs := range cases {
		c.R.Count(cs.class)
		if i%701 == 0 {
			c.R.Sample(reqs[i].String())
		}
		checkTx(c, reqs[i], resps[i], cs.tx)
	}

	// ---- raw JSON layer ----
	var raws []rawCase
	addEsc := func(s []byte, class string) {
		raws = append(raws, rawFromReq(c, vh.L(vh.A("json_escape"), vh.X(s))))
		raws[len(raws)-1].class = "escape/" + class
		raws = append(raws, rawFromReq(c, vh.L(vh.A("utf8"), vh.X(s))))
		raws[len(raws)-1].class = "utf8/" + class
	}
	// every single byte; every pair in the thorough tier, a stride of pairs otherwise
	for b := 0; b < 256; b++ {
		addEsc([]byte{byte(b)}, fmt.Sprintf("byte-%s", byteClass(byte(b))))
	}
	stride := c.N(37, 1)
	for p := r.Intn(stride); p < 65536; p += stride {
		b := []byte{byte(p >> 8), byte(p)}
		addEsc(b, fmt.Sprintf("pair-%s-%s", byteClass(b[0]), byteClass(b[1])))
	}
	// three and four byte windows around the interesting lead bytes
	leads := []byte{0xe0, 0xe1, 0xe2, 0xed, 0xee, 0xef, 0xf0, 0xf1, 0xf4, 0xf5}
	conts := []byte{0x00, 0x7f, 0x80, 0x81, 0x8f, 0x90, 0x9f, 0xa0, 0xa7, 0xa8, 0xa9, 0xaa, 0xbd, 0xbf, 0xc0, 0xff}
	for _, l := range leads {
		for _, a := range conts {
			for _, b := range conts {
				addEsc([]byte{l, a, b}, fmt.Sprintf("triple-%02x", l))
				if l >= 0xf0 && c.Thorough() {
					for _, d := range conts {
						addEsc([]byte{l, a, b, d}, fmt.Sprintf("quad-%02x", l))
					}
				}
			}
		}
	}
	for i := 0; i < c.N(600, 20000); i++ {
		s, cl := soup(r, r.Intn(8))
		addEsc(s, "soup-"+strClass(cl))
	}
	// the reader on hand-written texts, on rendered transactions and on damaged ones
	for _, t := range parseTexts {
		raws = append(raws, rawFromReq(c, vh.L(vh.A("json_parse"), vh.X([]byte(t)))))
		raws[len(raws)-1].class = "parse/handwritten"
	}
	nMut := c.N(300, 6000)
	for i := 0; i < nMut; i++ {
		src := cases[r.Intn(len(cases))].tx
		b, err := json.Marshal(src)
		if err != nil {
			continue
		}
		if len(b) > 1500 {
			continue
		}
		kind := "asis"
		switch r.Intn(6) {
		case 0:
		case 1:
			kind = "truncated"
			b = b[:r.Intn(len(b)+1)]
		case 2:
			kind = "byteflip"
			b = append([]byte{}, b...)
			b[r.Intn(len(b))] ^= byte(1 << uint(r.Intn(8)))
		case 3:
			kind = "ws-inserted"
			b = insertWS(r, b)
		case 4:
			kind = "byte-inserted"
			p := r.Intn(len(b) + 1)
			ins, _ := soup(r, 1)
			b = append(append(append([]byte{}, b[:p]...), ins...), b[p:]...)
		case 5:
			kind = "byte-deleted"
			p := r.Intn(len(b))
			b = append(append([]byte{}, b[:p]...), b[p+1:]...)
		}
		raws = append(raws, rawFromReq(c, vh.L(vh.A("json_parse"), vh.X(b))))
		raws[len(raws)-1].class = "parse/" + kind
	}
	// the writer on random trees (objects with sorted distinct keys so that a Go map renders them in the same order)
	for i := 0; i < c.N(300, 8000); i++ {
		gv, tv := randTree(r, 3)
		want, err := json.Marshal(gv)
		if err != nil {
			panic(err)
		}
		w := want
		raws = append(raws, rawCase{req: vh.L(vh.A("json_render"), tv), class: "render/random-tree", check: func(resp vh.Val, req vh.Val) {
			got, _ := resp.Hex()
			if !bytes.Equal(got, w) {
				c.R.Add(vh.Mismatch{Kind: "corr", What: "render_json differs from json.Marshal on a generic tree", Case: req.String(), Model: vh.X(got).Atom, Impl: vh.X(w).Atom, InDomain: false})
			}
		}})
	}
	runRaw(c, raws)
	c.R.Notes = append(c.R.Notes, fmt.Sprintf("TZ=%s; timestamp texts come from time.Unix(ts,0).Local().String() and are passed to the model as opaque strings", os.Getenv("TZ")))
}

// runCorpus replays corpus/C20/*.sexp: one request per line (`;` starts a comment line).
func runCorpus(c *Ctx) {
	files, _ := filepath.Glob(filepath.Join(vh.VerifRoot(), "corpus", "C20", "*.sexp"))
	sort.Strings(files)
	var raws []rawCase
	for _, f := range files {
		data, err := os.ReadFile(f)
		if err != nil {
			continue
		}
		for _, line := range strings.Split(string(data), "\n") {
			line = strings.TrimSpace(line)
			if line == "" || strings.HasPrefix(line, ";") {
				continue
			}
			req, err := vh.Parse(line)
			if err != nil {
				panic("corpus " + f + ": " + err.Error())
			}
			if req.Nth(0).Atom == "marshal" {
				tx := unTx(req.Nth(2))
				req = vh.L(vh.A("marshal"), tsMap(tx), sxTx(tx))
				c.R.Count("corpus/tx")
				checkTx(c, req, c.M.Call(req), tx)
			} else {
				rc := rawFromReq(c, req)
				rc.class = "corpus/" + req.Nth(0).Atom
				raws = append(raws, rc)
			}
		}
	}
	runRaw(c, raws)
}

func runRaw(c *Ctx, raws []rawCase) {
	var reqs []vh.Val
	for _, rc := range raws {
		reqs = append(reqs, rc.req)
	}
	resps := c.M.Batch(reqs)
	for i, rc := range raws {
		c.R.Count(rc.class)
		if i%2503 == 0 {
			c.R.Sample(rc.req.String())
		}
		rc.check(resps[i], rc.req)
	}
}

func byteClass(b byte) string {
	switch {
	case b == '"' || b == '\\':
		return "quote-bs"
	case b == '<' || b == '>' || b == '&':
		return "html"
	case b == '\b' || b == '\f' || b == '\n' || b == '\r' || b == '\t':
		return "ctl-short"
	case b < 0x20:
		return "ctl-u00"
	case b < 0x7f:
		return "ascii"
	case b == 0x7f:
		return "del"
	case b < 0xc0:
		return "cont"
	case b < 0xc2:
		return "lead-overlong"
	case b < 0xe0:
		return "lead2"
	case b < 0xf0:
		return "lead3"
	case b < 0xf5:
		return "lead4"
	default:
		return "lead-invalid"
	}
}

// rawFromReq attaches the Go-side oracle to a raw request (class filled by the caller; replay uses "replay").
func rawFromReq(c *Ctx, req vh.Val) rawCase {
	rc := rawCase{req: req, class: "replay"}
	arg, _ := req.Nth(1).Hex()
	switch req.Nth(0).Atom {
	case "json_escape":
		rc.check = func(resp vh.Val, req vh.Val) {
			got, _ := resp.Hex()
			want := goQuote(arg)
			if !bytes.Equal(got, want) {
				c.R.Add(vh.Mismatch{Kind: "corr", What: "string escaping differs from encoding/json", Case: req.String(), Model: vh.X(got).Atom, Impl: vh.X(want).Atom, InDomain: true})
			}
			// and the library reads its own text back as the sanitised string
			var back string
			if err := json.Unmarshal(want, &back); err != nil || back != toValid(string(arg)) {
				c.R.Add(vh.Mismatch{Kind: "spec", What: "a string does not survive json.Marshal / json.Unmarshal up to UTF-8 sanitisation", Case: req.String(), Expected: vh.X([]byte(toValid(string(arg)))).Atom, Impl: vh.X([]byte(back)).Atom, InDomain: true})
			}
		}
	case "utf8":
		rc.check = func(resp vh.Val, req vh.Val) {
			want := vh.L(vh.X([]byte(toValid(string(arg)))), vh.B(utf8.Valid(arg))).String()
			if resp.String() != want {
				c.R.Add(vh.Mismatch{Kind: "corr", What: "UTF-8 sanitiser / validity differs from unicode/utf8", Case: req.String(), Model: resp.String(), Impl: want, InDomain: true})
			}
		}
	case "json_parse":
		rc.check = func(resp vh.Val, req vh.Val) {
			tree, err := decodeTree(arg)
			accepted := resp.String() != "none"
			switch {
			case accepted && err != nil:
				c.R.Add(vh.Mismatch{Kind: "corr", What: "parse_json accepts a text encoding/json rejects", Case: req.String(), Model: resp.String(), Impl: err.Error(), InDomain: false})
			case accepted:
				got := vh.L(vh.A("some"), tree.sx()).String()
				if got != resp.String() {
					c.R.Add(vh.Mismatch{Kind: "corr", What: "parse_json reads a different tree than encoding/json", Case: req.String(), Model: resp.String(), Impl: got, InDomain: false})
				}
			case err == nil:
				// the reader is stricter in two documented ways only: input must be valid UTF-8, numbers must be integers
				if utf8.Valid(arg) && !tree.hasNonInt() {
					c.R.Add(vh.Mismatch{Kind: "corr", What: "parse_json rejects a UTF-8 text with integer numbers that encoding/json accepts", Case: req.String(), Model: resp.String(), Impl: tree.sx().String(), InDomain: false})
				}
			}
		}
	default:
		panic("replay: unknown raw request " + req.String())
	}
	return rc
}

func insertWS(r *vh.Rng, b []byte) []byte {
	// white space is only legal between tokens; insert at random places and let both readers decide
	out := []byte{}
	for _, x := range b {
		if r.Chance(1, 25) {
			out = append(out, " \t\n\r"[r.Intn(4)])
		}
		out = append(out, x)
	}
	return out
}

var parseTexts = []string{
	`null`, `true`, `false`, ` null `, "\t\n\r [ ] ", `{}`, `{ }`, `[]`, `[[]]`, `[{}]`, `{"a":{}}`, `[1,2,3]`, `[1 ,2 , 3 ]`, `{"a" : 1 , "b" : [ ] }`,
	`0`, `-0`, `-1`, `10`, `01`, `-01`, `00`, `-`, `+1`, `1.0`, `1e3`, `1E3`, `1e`, `1.`, `.5`, `-1.5e-3`, `123456789012345678901234567890`, `-9223372036854775808`, `0x10`, `1 2`,
	`""`, `"a"`, `"\""`, `"\\"`, `"\/"`, `"\b\f\n\r\t"`, `"\u0041"`, `"\u00e9"`, `"\u20AC"`, `"\ud83d\ude00"`, `"\uD83D\uDE00"`, `"\ud83d"`, `"\ude00"`, `"\ud83dx"`, `"\ud83d\u0041"`,
	`"\ud83d\ud83d\ude00"`, `"\ude00\ud83d"`, `"\u0000"`, `"\u001f"`, `"\u007f"`, `"\ufffd"`, `"\uffff"`, `"\u2028\u2029"`, `"\u12"`, `"\u12g4"`, `"\x41"`, `"\a"`, `"\`, `"abc`, `"a` + "\n" + `b"`, `"a` + "\t" + `b"`, "\"\u00e9\"", "\"\U0001F600\"",
	"\"\x7f\"", "\"é\"", "\"\xe2\x80\xa8\"", "\"\xff\"", "\"\xc3\"", "\"\xed\xa0\x80\"", "\"\xf4\x90\x80\x80\"", "\"\xc0\x80\"", "\xef\xbb\xbfnull",
	`nul`, `nulll`, `tru`, `True`, `NULL`, `[`, `]`, `{`, `}`, `[,]`, `[1,]`, `[,1]`, `{,}`, `{"a"}`, `{"a":}`, `{"a":1,}`, `{a:1}`, `{"a":1 "b":2}`, `{"a":1,"a":2}`, `{1:2}`, `[1}`, `{"a":1]`,
	`[null,true,false,"x",-12,{"k":[{"z":null}]}]`, `{"":""}`, `{"a":"b"}x`, `{"a":"b"} x`, `[] []`, ``, ` `, `//c`, `/**/1`, `'a'`, `[1,2`, `{"a":[1,{"b":2}]`,
	`[[[[[[[[[[[[[[[[[[[[1]]]]]]]]]]]]]]]]]]]]`, `{"a":{"a":{"a":{"a":{"a":{"a":null}}}}}}`,
}

// randTree: a Go value and the TREE S-expression of the same tree (objects: distinct keys in sorted order).
func randTree(r *vh.Rng, depth int) (interface{}, vh.Val) {
	k := r.Intn(7)
	if depth == 0 && k >= 5 {
		k = r.Intn(5)
	}
	switch k {
	case 0:
		return nil, vh.A("null")
	case 1:
		b := r.Bool()
		return b, vh.L(vh.A("b"), vh.B(b))
	case 2:
		n := int64(r.U64()) >> uint(r.Intn(64))
		if r.Chance(1, 10) {
			n = pickI64(r, 0, -1, math.MaxInt64, math.MinInt64, 10, -10, 9, 99, 100)
		}
		return n, vh.L(vh.A("n"), vh.I(n))
	case 3, 4:
		s, _ := soup(r, r.Intn(4))
		return string(s), vh.L(vh.A("s"), vh.X(s))
	case 5:
		n := r.Intn(4)
		arr := []interface{}{}
		l := []vh.Val{vh.A("a")}
		for i := 0; i < n; i++ {
			g, t := randTree(r, depth-1)
			arr = append(arr, g)
			l = append(l, t)
		}
		return arr, vh.L(l...)
	default:
		n := r.Intn(4)
		m := map[string]interface{}{}
		var keys []string
		for i := 0; i < n; i++ {
			s, _ := soup(r, r.Intn(3))
			if _, dup := m[string(s)]; dup {
				continue
			}
			m[string(s)] = nil
			keys = append(keys, string(s))
		}
		sort.Strings(keys)
		l := []vh.Val{vh.A("o")}
		for _, k := range keys {
			g, t := randTree(r, depth-1)
			m[k] = g
			l = append(l, vh.L(vh.X([]byte(k)), t))
		}
		return m, vh.L(l...)
	}
}
