package main

// C18 — MySQL 5.6 GTID sets behave as mathematical sets of (server UUID, sequence) pairs.
//
// Go sets are built only through the public API (NewMysql56GTIDSetFromSIDBlock, AddGTID) or the
// verif hook VerifParseMysql56GTIDSet.  Every implementation call is followed by a re-read of
// String() of every input (purity).  Compared: implementation vs model ("corr") and
// implementation vs the specification's expected answers computed by the extracted Coq
// specification ("spec": enumeration of members for small sets, denb / canonb for wide ones).

import (
	"bytes"
	"encoding/binary"
	"encoding/hex"
	"encoding/json"
	"fmt"
	"math"
	"os"
	"path/filepath"
	"strconv"
	"strings"
	"time"

	"github.com/Breeze0806/gobinlog/replication"
	"verif/harness/internal/vh"
)

func init() { runners["C18"] = runC18 }

// ---------- abstract sets on the harness side ----------

type aiv struct{ a, b int64 }
type aent struct {
	sid [16]byte
	ivs []aiv
}
type aset []aent

func sidVal(s [16]byte) vh.Val { return vh.X(s[:]) }

func (s aset) val() vh.Val {
	out := make([]vh.Val, 0, len(s))
	for _, e := range s {
		ent := []vh.Val{sidVal(e.sid)}
		for _, iv := range e.ivs {
			ent = append(ent, vh.L(vh.I(iv.a), vh.I(iv.b)))
		}
		out = append(out, vh.L(ent...))
	}
	return vh.L(out...)
}

// harness-side printers (independent of the implementation's)
func sidText(s [16]byte) string {
	h := hex.EncodeToString(s[:])
	return h[0:8] + "-" + h[8:12] + "-" + h[12:16] + "-" + h[16:20] + "-" + h[20:32]
}

func (s aset) text() string {
	var sb strings.Builder
	for i, e := range s {
		if i > 0 {
			sb.WriteByte(',')
		}
		sb.WriteString(sidText(e.sid))
		for _, iv := range e.ivs {
			sb.WriteByte(':')
			sb.WriteString(strconv.FormatInt(iv.a, 10))
			if iv.b != iv.a {
				sb.WriteByte('-')
				sb.WriteString(strconv.FormatInt(iv.b, 10))
			}
		}
	}
	return sb.String()
}

func (s aset) block() []byte {
	var b bytes.Buffer
	var t [8]byte
	w := func(v uint64) { binary.LittleEndian.PutUint64(t[:], v); b.Write(t[:]) }
	w(uint64(len(s)))
	for _, e := range s {
		b.Write(e.sid[:])
		w(uint64(len(e.ivs)))
		for _, iv := range e.ivs {
			w(uint64(iv.a))
			w(uint64(iv.b) + 1)
		}
	}
	return b.Bytes()
}

// decodeBlock: harness-side reader of an SID block into the abstract wire form.
func decodeBlock(d []byte) (vh.Val, bool) {
	rd := func() (uint64, bool) {
		if len(d) < 8 {
			return 0, false
		}
		v := binary.LittleEndian.Uint64(d[:8])
		d = d[8:]
		return v, true
	}
	n, ok := rd()
	if !ok {
		return vh.Val{}, false
	}
	var out []vh.Val
	for i := uint64(0); i < n; i++ {
		if len(d) < 16 {
			return vh.Val{}, false
		}
		ent := []vh.Val{vh.X(d[:16])}
		d = d[16:]
		k, ok := rd()
		if !ok {
			return vh.Val{}, false
		}
		for j := uint64(0); j < k; j++ {
			a, ok1 := rd()
			b, ok2 := rd()
			if !ok1 || !ok2 {
				return vh.Val{}, false
			}
			ent = append(ent, vh.L(vh.I(int64(a)), vh.I(int64(b-1))))
		}
		out = append(out, vh.L(ent...))
	}
	if len(d) != 0 {
		return vh.Val{}, false
	}
	return vh.L(out...), true
}

// mkSet builds the implementation's set; `how` rotates over the available constructors.
func mkSet(s aset, how int) replication.GTIDSet {
	switch how % 3 {
	case 0:
		g, err := replication.VerifParseMysql56GTIDSet(s.text())
		if err != nil {
			panic("hook parser rejected canonical text " + s.text() + ": " + err.Error())
		}
		return g
	case 1:
		g, err := replication.NewMysql56GTIDSetFromSIDBlock(vh.Exact(s.block()))
		if err != nil {
			panic("FromSIDBlock rejected canonical block: " + err.Error())
		}
		return g
	default:
		// interval by interval through the text parser, space padded (exercises TrimSpace)
		g, err := replication.VerifParseMysql56GTIDSet(" " + strings.ReplaceAll(s.text(), ",", " ,\n ") + " ")
		if err != nil {
			panic("hook parser rejected padded canonical text: " + err.Error())
		}
		return g
	}
}

type g56v struct {
	sid [16]byte
	seq int64
}

func (g g56v) val() vh.Val { return vh.L(sidVal(g.sid), vh.I(g.seq)) }
func (g g56v) impl() replication.GTID {
	return replication.Mysql56GTID{Server: replication.SID(g.sid), Sequence: g.seq}
}

// obs56: the observables of an implementation set, in the shape of the model's set_obs without canonb
func obs56(g replication.GTIDSet) (string, []byte) {
	return g.String(), g.(replication.Mysql56GTIDSet).SIDBlock()
}

// ---------- purity watch ----------
type watch struct {
	items  []fmt.Stringer
	before []string
}

func snap(items ...fmt.Stringer) *watch {
	w := &watch{items: items}
	for _, it := range items {
		w.before = append(w.before, it.String())
	}
	return w
}

func (w *watch) check(c *Ctx, op, cas string) {
	for i, it := range w.items {
		if now := it.String(); now != w.before[i] {
			addCapped(c, vh.Mismatch{Kind: "spec", What: "purity: " + op + " altered one of its inputs", Case: cas,
				Expected: w.before[i], Impl: now, InDomain: true})
		}
	}
}

// ---------- fixed UUID pool (ascending in byte order; tests unsigned comparison and late differences) ----------
var sidPool = [][16]byte{
	{0x00, 0, 0, 0, 0, 0, 0, 0, 0, 0, 0, 0, 0, 0, 0, 0x01},
	{0x00, 0, 0, 0, 0, 0, 0, 0, 0, 0, 0, 0, 0, 0, 0x01, 0x00},
	{0x7f, 0xff, 0xff, 0xff, 0xff, 0xff, 0xff, 0xff, 0xff, 0xff, 0xff, 0xff, 0xff, 0xff, 0xff, 0xff},
	{0x80, 0, 0, 0, 0, 0, 0, 0, 0, 0, 0, 0, 0, 0, 0, 0},
	{0xff, 0xff, 0xff, 0xff, 0xff, 0xff, 0xff, 0xff, 0xff, 0xff, 0xff, 0xff, 0xff, 0xff, 0xff, 0xff},
}

// set with, for UUID i, the members base+1+bit for every bit of masks[i]
func maskSet(masks []uint, w int, base int64) aset {
	var s aset
	for i, m := range masks {
		if m == 0 {
			continue
		}
		e := aent{sid: sidPool[i]}
		for b := 0; b < w; b++ {
			if m>>uint(b)&1 == 0 {
				continue
			}
			v := base + 1 + int64(b)
			if n := len(e.ivs); n > 0 && e.ivs[n-1].b+1 == v {
				e.ivs[n-1].b = v
			} else {
				e.ivs = append(e.ivs, aiv{v, v})
			}
		}
		s = append(s, e)
	}
	return s
}

// classify an addition relative to the set (names the kind of case for coverage accounting)
func addClass(s aset, g g56v) string {
	if g.seq < 1 {
		return "seq<1(outside)"
	}
	for _, e := range s {
		if e.sid != g.sid {
			continue
		}
		left, right := false, false
		for _, iv := range e.ivs {
			if iv.a <= g.seq && g.seq <= iv.b {
				return "contained"
			}
			if iv.b != math.MaxInt64 && iv.b+1 == g.seq {
				left = true
			}
			if iv.a-1 == g.seq {
				right = true
			}
		}
		switch {
		case left && right:
			return "bridge"
		case left:
			return "extend-end"
		case right:
			return "extend-start"
		case g.seq < e.ivs[0].a:
			return "new-before-all"
		case g.seq > e.ivs[len(e.ivs)-1].b:
			return "new-after-all"
		default:
			return "new-between"
		}
	}
	return "new-uuid"
}

type c18 struct {
	c   *Ctx
	how int
}

// checkAdds runs ContainsGTID / AddGTID for every g on s and compares with the model response
// (shape: (set_obs (add_obs ...))).  enum tells whether the response carries the enumeration part.
func (k *c18) checkAdds(prefix string, s aset, gs []g56v, resp vh.Val, enum bool, req string) {
	c := k.c
	k.how++
	impl := mkSet(s, k.how)
	str, blk := obs56(impl)
	so := resp.Nth(0)
	if hexOf(str) != so.Nth(0).Atom || vh.X(blk).Atom != so.Nth(1).Atom {
		addCapped(c, vh.Mismatch{Kind: "corr", What: "String/SIDBlock of a constructed set differ from the model", Case: req,
			Model: so.String(), Impl: vh.L(vh.A(hexOf(str)), vh.X(blk)).String(), InDomain: true})
	}
	if so.Nth(2).Atom != "1" {
		addCapped(c, vh.Mismatch{Kind: "selfcheck", What: "generator produced a non-canonical set", Case: req})
	}
	for i, g := range gs {
		cls := addClass(s, g)
		c.R.Count(prefix + "/" + cls)
		inDom := g.seq >= 1
		cas := vh.L(vh.A("add"), s.val(), g.val()).String()
		m := resp.Nth(1).Nth(i)
		gi := g.impl()
		w := snap(impl, gi)
		var cg bool
		var res replication.GTIDSet
		out := vh.Try(func() vh.Val {
			cg = impl.ContainsGTID(gi)
			w.check(c, "ContainsGTID", cas)
			res = impl.AddGTID(gi)
			w.check(c, "AddGTID", cas)
			return vh.Ok()
		})
		if out.Nth(0).Atom != "ok" {
			addCapped(c, vh.Mismatch{Kind: "spec", What: "ContainsGTID/AddGTID panicked", Case: cas, InDomain: inDom})
			continue
		}
		rs, rb := obs56(res)
		got := vh.L(vh.B(cg), vh.A(hexOf(rs)), vh.X(rb))
		want := vh.L(m.Nth(0), m.Nth(1), m.Nth(2))
		if got.String() != want.String() {
			addCapped(c, vh.Mismatch{Kind: "corr", What: "ContainsGTID/AddGTID differ from the model", Case: cas,
				Model: want.String() + " text=" + unhex(m.Nth(1).Atom), Impl: got.String() + " text=" + rs, InDomain: inDom})
		}
		if !inDom {
			continue
		}
		// --- specification ---
		if vh.B(cg).Atom != m.Nth(3).Atom {
			addCapped(c, vh.Mismatch{Kind: "spec", What: "ContainsGTID differs from membership in the denotation", Case: cas,
				Expected: m.Nth(3).Atom, Impl: vh.B(cg).Atom, InDomain: true})
		}
		if enum {
			ex := m.Nth(4)
			if vh.B(cg).Atom != ex.Nth(0).Atom {
				addCapped(c, vh.Mismatch{Kind: "spec", What: "ContainsGTID differs from enumerated membership", Case: cas,
					Expected: ex.Nth(0).Atom, Impl: vh.B(cg).Atom, InDomain: true})
			}
			dec, ok := decodeBlock(rb)
			if !ok || dec.String() != ex.Nth(1).String() {
				addCapped(c, vh.Mismatch{Kind: "spec", What: "AddGTID result is not the canonical set of the union", Case: cas,
					Expected: ex.Nth(1).String(), Impl: dec.String() + " text=" + rs, InDomain: true})
			}
		}
		// set-theoretic consequences, on the implementation alone
		w2 := snap(impl, res, gi)
		bad := ""
		switch {
		case !res.ContainsGTID(gi):
			bad = "result does not contain the added GTID"
		case !res.Contains(impl):
			bad = "result is not a superset of the original"
		case cg && !(res.Equal(impl) && impl.Equal(res)):
			bad = "adding a member changed the set"
		case !cg && (impl.Contains(res) || res.Equal(impl) || impl.Equal(res)):
			bad = "adding a non-member did not enlarge the set"
		}
		w2.check(c, "Contains/Equal/ContainsGTID", cas)
		if bad != "" {
			addCapped(c, vh.Mismatch{Kind: "spec", What: "set laws: " + bad, Case: cas, Impl: rs, InDomain: true})
		}
	}
}

// addCapped reports a mismatch, keeping at most 4 per description so that one defect
// cannot crowd the others out of the (bounded) report.
var perWhat = map[string]int{}

func addCapped(c *Ctx, m vh.Mismatch) {
	perWhat[m.What]++
	if perWhat[m.What] > 4 {
		return
	}
	c.R.Add(m)
}

func hexOf(s string) string { return "x" + hex.EncodeToString([]byte(s)) }
func unhex(a string) string {
	if !strings.HasPrefix(a, "x") {
		return a
	}
	b, err := hex.DecodeString(a[1:])
	if err != nil {
		return a
	}
	return string(b)
}

func gvals(gs []g56v) vh.Val {
	out := make([]vh.Val, len(gs))
	for i, g := range gs {
		out[i] = g.val()
	}
	return vh.L(out...)
}

// ---------- exhaustive windows ----------
type window struct {
	nu, w int
	base  int64
}

func enumSets(nu, w int, base int64, f func(masks []uint, s aset)) {
	masks := make([]uint, nu)
	var rec func(i int)
	rec = func(i int) {
		if i == nu {
			f(masks, maskSet(masks, w, base))
			return
		}
		for m := uint(0); m < 1<<uint(w); m++ {
			masks[i] = m
			rec(i + 1)
		}
	}
	rec(0)
}

func (k *c18) exhaustiveAdds(win window) {
	c := k.c
	prefix := fmt.Sprintf("exh/u%d/w%d/%s", win.nu, win.w, baseName(win.base))
	type item struct {
		s   aset
		gs  []g56v
		req vh.Val
	}
	var batch []item
	flush := func() {
		reqs := make([]vh.Val, len(batch))
		for i, it := range batch {
			reqs[i] = it.req
		}
		resps := c.M.Batch(reqs)
		for i, it := range batch {
			k.checkAdds(prefix, it.s, it.gs, resps[i], true, trunc(it.req.String(), 600))
		}
		batch = batch[:0]
	}
	n := 0
	enumSets(win.nu, win.w, win.base, func(masks []uint, s aset) {
		var gs []g56v
		nsid := win.nu + 1 // one UUID that is never in the set
		if nsid > len(sidPool) {
			nsid = len(sidPool)
		}
		for u := 0; u < nsid; u++ {
			for d := int64(0); d <= int64(win.w)+1; d++ {
				if win.base > math.MaxInt64-d {
					continue
				}
				gs = append(gs, g56v{sidPool[u], win.base + d})
			}
		}
		cp := append(aset(nil), s...)
		batch = append(batch, item{cp, gs, vh.L(vh.A("g.allx"), cp.val(), gvals(gs))})
		if n%5000 == 0 {
			c.R.Sample(trunc(batch[len(batch)-1].req.String(), 300))
		}
		n++
		if len(batch) >= 512 {
			flush()
		}
	})
	flush()
}

func baseName(b int64) string {
	if b == 0 {
		return "low"
	}
	return "top"
}

func trunc(s string, n int) string {
	if len(s) <= n {
		return s
	}
	return s[:n] + "..."
}

// all pairs of the sets of a window: Contains / Equal against model and enumeration
func (k *c18) exhaustivePairs(win window) {
	c := k.c
	prefix := fmt.Sprintf("pairs/u%d/w%d/%s", win.nu, win.w, baseName(win.base))
	var sets []aset
	var impls []replication.GTIDSet
	var strs []string
	enumSets(win.nu, win.w, win.base, func(_ []uint, s aset) {
		cp := append(aset(nil), s...)
		sets = append(sets, cp)
		k.how++
		g := mkSet(cp, k.how)
		impls = append(impls, g)
		strs = append(strs, g.String())
	})
	const B = 64
	blockVal := func(lo int) vh.Val {
		hi := lo + B
		if hi > len(sets) {
			hi = len(sets)
		}
		out := make([]vh.Val, 0, B)
		for _, s := range sets[lo:hi] {
			out = append(out, s.val())
		}
		return vh.L(out...)
	}
	type blk struct{ i, j int }
	var blks []blk
	var reqs []vh.Val
	for i := 0; i < len(sets); i += B {
		bi := blockVal(i)
		for j := 0; j < len(sets); j += B {
			blks = append(blks, blk{i, j})
			reqs = append(reqs, vh.L(vh.A("g.pairsx"), bi, blockVal(j)))
		}
	}
	// in chunks, to bound memory
	const chunk = 64
	for lo := 0; lo < len(reqs); lo += chunk {
		hi := lo + chunk
		if hi > len(reqs) {
			hi = len(reqs)
		}
		resps := c.M.Batch(reqs[lo:hi])
		for r, resp := range resps {
			b := blks[lo+r]
			mc, me, xc, xe := resp.Nth(0).Atom[1:], resp.Nth(1).Atom[1:], resp.Nth(2).Atom[1:], resp.Nth(3).Atom[1:]
			p := 0
			for i := b.i; i < b.i+B && i < len(sets); i++ {
				for j := b.j; j < b.j+B && j < len(sets); j++ {
					gc := impls[i].Contains(impls[j])
					ge := impls[i].Equal(impls[j])
					if impls[i].String() != strs[i] || impls[j].String() != strs[j] {
						addCapped(c, vh.Mismatch{Kind: "spec", What: "purity: Contains/Equal altered one of its inputs",
							Case: vh.L(sets[i].val(), sets[j].val()).String(), InDomain: true})
					}
					rel := "incomparable"
					switch {
					case xe[p] == '1':
						rel = "equal"
					case xc[p] == '1':
						rel = "strict-superset"
					}
					if len(sets[i]) == 0 || len(sets[j]) == 0 {
						rel += "/with-empty"
					}
					c.R.Count(prefix + "/" + rel)
					if bit(gc) != mc[p] || bit(ge) != me[p] {
						addCapped(c, vh.Mismatch{Kind: "corr", What: "Contains/Equal differ from the model",
							Case:  vh.L(vh.A("pair"), sets[i].val(), sets[j].val()).String(),
							Model: string([]byte{mc[p], me[p]}), Impl: string([]byte{bit(gc), bit(ge)}), InDomain: true})
					}
					if bit(gc) != xc[p] || bit(ge) != xe[p] {
						addCapped(c, vh.Mismatch{Kind: "spec", What: "Contains/Equal differ from superset/equality of the member sets",
							Case:     vh.L(vh.A("pair"), sets[i].val(), sets[j].val()).String(),
							Expected: string([]byte{xc[p], xe[p]}), Impl: string([]byte{bit(gc), bit(ge)}), InDomain: true})
					}
					p++
				}
			}
		}
	}
}

func bit(b bool) byte {
	if b {
		return '1'
	}
	return '0'
}

// ---------- random wide sets ----------
func randSid(r *vh.Rng) [16]byte {
	var s [16]byte
	switch r.Intn(4) {
	case 0:
		return sidPool[r.Intn(len(sidPool))]
	case 1: // shares a long prefix with a pool member
		s = sidPool[r.Intn(len(sidPool))]
		s[8+r.Intn(8)] = byte(r.U64())
		return s
	default:
		copy(s[:], r.Bytes(16))
		return s
	}
}

func randStep(r *vh.Rng) uint64 {
	switch r.Intn(5) {
	case 0:
		return 0
	case 1:
		return uint64(r.Intn(3))
	case 2:
		return uint64(r.Intn(1000))
	case 3:
		return r.U64() >> uint(8+r.Intn(50))
	default:
		return r.U64() >> uint(1+r.Intn(8))
	}
}

// random canonical interval list with up to k intervals; `top` forces the last one to end at 2^63-1
func randIvs(r *vh.Rng, k int, top bool) []aiv {
	const max = uint64(math.MaxInt64)
	var out []aiv
	var cur uint64
	switch r.Intn(4) {
	case 0:
		cur = 1
	case 1:
		cur = 1 + uint64(r.Intn(10))
	case 2:
		cur = 1 + randStep(r)
	default:
		cur = max - uint64(r.Intn(40))
	}
	for i := 0; i < k; i++ {
		if cur > max {
			break
		}
		a := cur
		l := randStep(r)
		if l > max-a {
			l = max - a
		}
		b := a + l
		out = append(out, aiv{int64(a), int64(b)})
		if b >= max-1 {
			break
		}
		g := 2 + randStep(r)
		if g > max-b {
			break
		}
		cur = b + g
	}
	if top && len(out) > 0 {
		out[len(out)-1].b = math.MaxInt64
	}
	if len(out) == 0 {
		out = []aiv{{math.MaxInt64, math.MaxInt64}}
	}
	return out
}

func randSet(r *vh.Rng) aset {
	nu := r.Intn(5)
	var s aset
	seen := map[[16]byte]bool{}
	for i := 0; i < nu; i++ {
		u := randSid(r)
		if seen[u] {
			continue
		}
		seen[u] = true
		s = append(s, aent{u, randIvs(r, 1+r.Intn(6), r.Chance(1, 5))})
	}
	sortAset(s)
	return s
}

func sortAset(s aset) {
	for i := 1; i < len(s); i++ {
		for j := i; j > 0 && bytes.Compare(s[j].sid[:], s[j-1].sid[:]) < 0; j-- {
			s[j], s[j-1] = s[j-1], s[j]
		}
	}
}

// candidate sequence numbers around every endpoint of the UUID's intervals
func probes(r *vh.Rng, ivs []aiv) []int64 {
	set := map[int64]bool{1: true, 2: true, math.MaxInt64: true, math.MaxInt64 - 1: true}
	add := func(v int64, ok bool) {
		if ok && v >= 1 {
			set[v] = true
		}
	}
	for _, iv := range ivs {
		for d := int64(0); d <= 2; d++ {
			add(iv.a-d, true)
			add(iv.a+d, iv.a <= math.MaxInt64-d)
			add(iv.b-d, true)
			add(iv.b+d, iv.b <= math.MaxInt64-d)
		}
		if iv.b > iv.a {
			add(iv.a+(iv.b-iv.a)/2, true)
		}
	}
	for i := 0; i < 3; i++ {
		add(int64(r.U64()>>1), true)
	}
	out := make([]int64, 0, len(set))
	for v := range set {
		out = append(out, v)
	}
	sortI64(out)
	return out
}

func sortI64(a []int64) {
	for i := 1; i < len(a); i++ {
		for j := i; j > 0 && a[j] < a[j-1]; j-- {
			a[j], a[j-1] = a[j-1], a[j]
		}
	}
}

func (k *c18) randomWide(n int) {
	c := k.c
	r := c.Rng
	type item struct {
		s   aset
		gs  []g56v
		req vh.Val
	}
	var items []item
	for i := 0; i < n; i++ {
		s := randSet(r)
		var gs []g56v
		// present UUIDs and one absent
		us := [][16]byte{randSid(r)}
		for _, e := range s {
			us = append(us, e.sid)
		}
		for _, u := range us {
			var ivs []aiv
			for _, e := range s {
				if e.sid == u {
					ivs = e.ivs
				}
			}
			for _, p := range probes(r, ivs) {
				gs = append(gs, g56v{u, p})
			}
		}
		// keep the request small (decimal text of 63-bit numbers is slow in the extracted model): a random subset
		if maxAdds := c.N(14, 24); len(gs) > maxAdds {
			pp := perm(r, len(gs))[:maxAdds]
			sub := make([]g56v, 0, maxAdds)
			for _, i := range pp {
				sub = append(sub, gs[i])
			}
			gs = sub
		}
		items = append(items, item{s, gs, vh.L(vh.A("g.all"), s.val(), gvals(gs))})
	}
	for lo := 0; lo < len(items); lo += 256 {
		hi := lo + 256
		if hi > len(items) {
			hi = len(items)
		}
		reqs := make([]vh.Val, 0, hi-lo)
		for _, it := range items[lo:hi] {
			reqs = append(reqs, it.req)
		}
		resps := c.M.Batch(reqs)
		var canonReqs []vh.Val
		var canonCase []string
		for i, it := range items[lo:hi] {
			if (lo+i)%97 == 0 {
				c.R.Sample(trunc(it.req.String(), 300))
			}
			k.checkAdds("wide", it.s, it.gs, resps[i], false, trunc(it.req.String(), 600))
			// canonical form and union semantics of the implementation's results at the probe points
			impl := mkSet(it.s, k.how)
			for _, g := range it.gs {
				gi := g.impl()
				res := impl.AddGTID(gi)
				_, rb := obs56(res)
				dec, ok := decodeBlock(rb)
				cas := vh.L(vh.A("add"), it.s.val(), g.val()).String()
				if !ok {
					addCapped(c, vh.Mismatch{Kind: "spec", What: "SIDBlock of an AddGTID result is not decodable", Case: cas, InDomain: true})
					continue
				}
				canonReqs = append(canonReqs, vh.L(vh.A("g.canonb"), dec))
				canonCase = append(canonCase, cas)
				for _, p := range it.gs {
					if p.sid != g.sid {
						continue
					}
					pi := p.impl()
					want := impl.ContainsGTID(pi) || p == g
					if res.ContainsGTID(pi) != want {
						addCapped(c, vh.Mismatch{Kind: "spec", What: "AddGTID result is not the union at a probe point", Case: cas,
							Expected: fmt.Sprint(want), Impl: fmt.Sprintf("probe %d in %s", p.seq, res.String()), InDomain: true})
					}
				}
			}
		}
		for i, resp := range c.M.Batch(canonReqs) {
			if resp.Atom != "1" {
				addCapped(c, vh.Mismatch{Kind: "spec", What: "AddGTID result is not in canonical form", Case: canonCase[i], InDomain: true})
			}
		}
	}
}

// related pairs of wide sets with a relation known by construction
func (k *c18) randomPairs(n int) {
	c := k.c
	r := c.Rng
	type item struct {
		s, t     aset
		sup, eq  bool // s ⊇ t, s = t (by construction)
		known    bool
		relation string
	}
	var items []item
	for i := 0; i < n; i++ {
		s := randSet(r)
		t := cloneAset(s)
		it := item{s: s, known: true}
		switch r.Intn(6) {
		case 0:
			it.relation, it.sup, it.eq = "same", true, true
		case 1: // drop one interval or one UUID from t
			if len(t) == 0 {
				it.relation, it.sup, it.eq = "same", true, true
				break
			}
			e := r.Intn(len(t))
			if len(t[e].ivs) > 1 && r.Bool() {
				j := r.Intn(len(t[e].ivs))
				t[e].ivs = append(t[e].ivs[:j], t[e].ivs[j+1:]...)
			} else {
				t = append(t[:e], t[e+1:]...)
			}
			it.relation, it.sup, it.eq = "t=s-minus-interval", true, false
		case 2: // shrink one interval of t, possibly splitting it
			done := false
			for _, e := range perm(r, len(t)) {
				for _, j := range perm(r, len(t[e].ivs)) {
					iv := t[e].ivs[j]
					if iv.b == iv.a {
						continue
					}
					switch {
					case iv.b-iv.a >= 2 && r.Bool(): // split: remove a middle point
						mid := iv.a + 1 + int64(r.U64()%uint64(iv.b-iv.a-1))
						nv := append([]aiv{}, t[e].ivs[:j]...)
						nv = append(nv, aiv{iv.a, mid - 1}, aiv{mid + 1, iv.b})
						nv = append(nv, t[e].ivs[j+1:]...)
						t[e].ivs = nv
					case r.Bool():
						t[e].ivs[j].a++
					default:
						t[e].ivs[j].b--
					}
					done = true
					break
				}
				if done {
					break
				}
			}
			if done {
				it.relation, it.sup, it.eq = "t=s-shrunk", true, false
			} else {
				it.relation, it.sup, it.eq = "same", true, true
			}
		case 3: // independent
			t = randSet(r)
			it.known = false
			it.relation = "independent"
		case 4: // t has a UUID that s lacks
			u := randSid(r)
			has := false
			for _, e := range t {
				if e.sid == u {
					has = true
				}
			}
			if has {
				it.relation, it.sup, it.eq = "same", true, true
				break
			}
			t = append(t, aent{u, randIvs(r, 1+r.Intn(3), false)})
			sortAset(t)
			it.relation, it.sup, it.eq = "t=s-plus-uuid", false, false
		default: // t extends one interval of s by one
			done := false
			for _, e := range perm(r, len(t)) {
				j := r.Intn(len(t[e].ivs))
				iv := t[e].ivs[j]
				if iv.a >= 2 && (j == 0 || t[e].ivs[j-1].b+2 < iv.a) {
					t[e].ivs[j].a--
					done = true
					break
				}
			}
			if done {
				it.relation, it.sup, it.eq = "t=s-extended", false, false
			} else {
				it.relation, it.sup, it.eq = "same", true, true
			}
		}
		it.t = t
		items = append(items, it)
	}
	var reqs []vh.Val
	for _, it := range items {
		reqs = append(reqs, vh.L(vh.A("g.contains"), it.s.val(), it.t.val()), vh.L(vh.A("g.contains"), it.t.val(), it.s.val()),
			vh.L(vh.A("g.equal"), it.s.val(), it.t.val()), vh.L(vh.A("g.equal"), it.t.val(), it.s.val()))
	}
	resps := c.M.Batch(reqs)
	for i, it := range items {
		c.R.Count("widepair/" + it.relation)
		k.how++
		gs, gt := mkSet(it.s, k.how), mkSet(it.t, k.how+1)
		w := snap(gs, gt)
		got := vh.L(vh.B(gs.Contains(gt)), vh.B(gt.Contains(gs)), vh.B(gs.Equal(gt)), vh.B(gt.Equal(gs)))
		cas := vh.L(vh.A("pair"), it.s.val(), it.t.val()).String()
		w.check(c, "Contains/Equal", cas)
		model := vh.L(resps[4*i], resps[4*i+1], resps[4*i+2], resps[4*i+3])
		if got.String() != model.String() {
			addCapped(c, vh.Mismatch{Kind: "corr", What: "Contains/Equal on wide sets differ from the model", Case: cas,
				Model: model.String(), Impl: got.String(), InDomain: true})
		}
		if it.known {
			// s ⊇ t, t ⊇ s, s = t, t = s expected from the construction
			tsup := it.eq
			if it.relation == "t=s-plus-uuid" || it.relation == "t=s-extended" {
				tsup = true
			}
			want := vh.L(vh.B(it.sup), vh.B(tsup), vh.B(it.eq), vh.B(it.eq))
			if got.String() != want.String() {
				addCapped(c, vh.Mismatch{Kind: "spec", What: "Contains/Equal on wide sets contradict the relation known by construction (" + it.relation + ")",
					Case: cas, Expected: want.String(), Impl: got.String(), InDomain: true})
			}
		}
	}
}

func cloneAset(s aset) aset {
	t := make(aset, len(s))
	for i, e := range s {
		t[i] = aent{e.sid, append([]aiv(nil), e.ivs...)}
	}
	return t
}

// ---------- sequences of AddGTID ----------
func (k *c18) sequences(name string, start aset, seqs [][]g56v, enum bool) {
	c := k.c
	var reqs []vh.Val
	for _, gs := range seqs {
		reqs = append(reqs, vh.L(vh.A("g.add_seq"), start.val(), gvals(gs)))
		if enum {
			reqs = append(reqs, vh.L(vh.A("g.exp_adds"), start.val(), gvals(gs)))
		}
	}
	resps := c.M.Batch(reqs)
	stride := 1
	if enum {
		stride = 2
	}
	for i, gs := range seqs {
		c.R.Count(fmt.Sprintf("%s/len%d", name, len(gs)))
		if i%501 == 0 {
			c.R.Sample(trunc(reqs[stride*i].String(), 300))
		}
		cas := trunc(reqs[stride*i].String(), 1500)
		k.how++
		cur := mkSet(start, k.how)
		hist := []replication.GTIDSet{cur}
		hstr := []string{cur.String()}
		m := resps[stride*i]
		for j, g := range gs {
			next := cur.AddGTID(g.impl())
			for h := range hist {
				if s := hist[h].String(); s != hstr[h] {
					addCapped(c, vh.Mismatch{Kind: "spec", What: "purity: AddGTID altered an earlier set of the history", Case: cas,
						Expected: hstr[h], Impl: s, InDomain: true})
					hstr[h] = s
				}
			}
			ns, nb := obs56(next)
			mo := m.Nth(j)
			if hexOf(ns) != mo.Nth(0).Atom || vh.X(nb).Atom != mo.Nth(1).Atom {
				addCapped(c, vh.Mismatch{Kind: "corr", What: "AddGTID sequence differs from the model", Case: cas,
					Model: unhex(mo.Nth(0).Atom), Impl: ns, InDomain: true})
				break
			}
			if mo.Nth(2).Atom != "1" {
				addCapped(c, vh.Mismatch{Kind: "spec", What: "AddGTID sequence leaves canonical form", Case: cas, Impl: ns, InDomain: true})
			}
			hist = append(hist, next)
			hstr = append(hstr, ns)
			cur = next
		}
		if enum {
			_, fb := obs56(cur)
			dec, ok := decodeBlock(fb)
			if !ok || dec.String() != resps[stride*i+1].String() {
				addCapped(c, vh.Mismatch{Kind: "spec", What: "AddGTID sequence does not yield the canonical set of the union", Case: cas,
					Expected: resps[stride*i+1].String(), Impl: dec.String(), InDomain: true})
			}
		}
		// every member added is contained in the final set, and the final set contains every intermediate one
		for _, g := range gs {
			if !cur.ContainsGTID(g.impl()) {
				addCapped(c, vh.Mismatch{Kind: "spec", What: "final set of an AddGTID sequence lacks an added GTID", Case: cas, InDomain: true})
			}
		}
		for _, h := range hist {
			if !cur.Contains(h) {
				addCapped(c, vh.Mismatch{Kind: "spec", What: "final set of an AddGTID sequence is not a superset of an intermediate set", Case: cas, InDomain: true})
			}
		}
	}
}

// perm: a random permutation of 0..n-1
func perm(r *vh.Rng, n int) []int {
	p := make([]int, n)
	for i := range p {
		p[i] = i
	}
	for i := n - 1; i > 0; i-- {
		j := r.Intn(i + 1)
		p[i], p[j] = p[j], p[i]
	}
	return p
}

func runC18(c *Ctx) {
	if cas := applyReplay(c); cas != "" {
		k := &c18{c: c}
		if k.replayCase(cas) {
			c.R.Notes = append(c.R.Notes, "replayed the single recorded case: "+trunc(cas, 300))
			return
		}
	}
	c.R.Rule = "cases by (family, #UUIDs, window, position of the added GTID relative to the intervals: contained / extend-start / extend-end / bridge / new-before / new-between / new-after / new-uuid) and by the relation of a pair (equal / strict-superset / incomparable / by-construction relation); trivial = wrong-flavor arguments"
	k := &c18{c: c}
	t0 := time.Now()
	lap := func(what string) {
		c.R.Notes = append(c.R.Notes, fmt.Sprintf("time %s: %.1fs (evaluations so far %d)", what, time.Since(t0).Seconds(), c.R.Evaluations))
		t0 = time.Now()
	}

	// 1. exhaustive windows: all sets, every ContainsGTID / AddGTID around the window
	var wins []window
	if c.Thorough() {
		wins = []window{{1, 8, 0}, {2, 6, 0}, {3, 4, 0}, {4, 3, 0}, {1, 8, math.MaxInt64 - 8}, {2, 5, math.MaxInt64 - 5}, {3, 3, math.MaxInt64 - 3}}
	} else {
		wins = []window{{1, 6, 0}, {2, 6, 0}, {3, 3, 0}, {1, 6, math.MaxInt64 - 6}, {2, 3, math.MaxInt64 - 3}}
	}
	for _, w := range wins {
		k.exhaustiveAdds(w)
		lap(fmt.Sprintf("exhaustive adds %v", w))
	}
	// 2. all pairs
	var pw []window
	if c.Thorough() {
		pw = []window{{1, 8, 0}, {2, 5, 0}, {3, 3, 0}, {4, 2, 0}, {2, 4, math.MaxInt64 - 4}}
	} else {
		pw = []window{{1, 6, 0}, {2, 4, 0}, {3, 2, 0}, {2, 3, math.MaxInt64 - 3}}
	}
	for _, w := range pw {
		k.exhaustivePairs(w)
		lap(fmt.Sprintf("exhaustive pairs %v", w))
	}
	c.R.Exhaustive = true
	c.R.Notes = append(c.R.Notes, fmt.Sprintf("exhaustive windows (UUIDs,width,base) adds=%v pairs=%v; the full product 4 UUIDs x width 8 (2^32 sets) is covered by its factors: the operations treat UUIDs independently (proved: den is per UUID)", wins, pw))

	// 3. random wide sets, values up to 2^63-1
	k.randomWide(c.N(250, 1500))
	lap("random wide adds")
	k.randomPairs(c.N(1500, 20000))
	lap("random wide pairs")

	// 4. sequences of up to 12 AddGTID
	r := c.Rng
	// exhaustive: every sequence of length <= L over values 1..V of one UUID (and a second UUID mixed in)
	L, V := c.N(4, 5), c.N(4, 5)
	var seqs [][]g56v
	var rec func(cur []g56v)
	rec = func(cur []g56v) {
		if len(cur) > 0 {
			seqs = append(seqs, append([]g56v(nil), cur...))
		}
		if len(cur) == L {
			return
		}
		for v := 1; v <= V; v++ {
			rec(append(cur, g56v{sidPool[1], int64(v)}))
		}
	}
	rec(nil)
	k.sequences("seq/exhaustive", aset{}, seqs, true)
	lap("exhaustive sequences")
	// random sequences of length 1..12 from small pools (many merges) on random small starts
	for rep := 0; rep < c.N(40, 300); rep++ {
		start := maskSet([]uint{uint(r.Intn(64)), uint(r.Intn(64))}, 6, 0)
		var ss [][]g56v
		for i := 0; i < 10; i++ {
			n := 1 + r.Intn(12)
			var gs []g56v
			for j := 0; j < n; j++ {
				gs = append(gs, g56v{sidPool[r.Intn(3)], int64(1 + r.Intn(9))})
			}
			ss = append(ss, gs)
		}
		k.sequences("seq/small-pool", start, ss, true)
	}
	// random sequences on wide sets near the top of the range
	for rep := 0; rep < c.N(40, 300); rep++ {
		start := randSet(r)
		var ss [][]g56v
		for i := 0; i < 5; i++ {
			n := 1 + r.Intn(12)
			var gs []g56v
			base := int64(math.MaxInt64 - 14)
			if r.Bool() && len(start) > 0 {
				e := start[r.Intn(len(start))]
				base = e.ivs[r.Intn(len(e.ivs))].a
				if base > math.MaxInt64-14 {
					base = math.MaxInt64 - 14
				}
			}
			for j := 0; j < n; j++ {
				u := sidPool[0]
				if len(start) > 0 && r.Bool() {
					u = start[r.Intn(len(start))].sid
				}
				gs = append(gs, g56v{u, base + int64(r.Intn(15))})
			}
			ss = append(ss, gs)
		}
		k.sequences("seq/wide", start, ss, false)
	}

	lap("random sequences")
	// 5. out-of-domain sequence numbers (0, negative): correspondence only — covered by exhaustive windows with base 0 (value 0)
	// 6. arguments of the other flavor
	k.wrongFlavor()
	k.emptyRepresentations()
}

// emptyRepresentations: the set of 0 members has several representations (the zero value of the type = a nil map, an
// allocated empty map, the parse of "", what a SID block of 0 entries decodes to, a derived empty set); Equal and Contains
// must not distinguish them, in either direction, and adding to each gives the same set.
func (k *c18) emptyRepresentations() {
	c := k.c
	c.R.Count("pairs/empty-representations")
	var z replication.Mysql56GTIDSet
	alloc := replication.Mysql56GTIDSet{}
	out := vh.Try(func() vh.Val {
		parsed, err := replication.VerifParseMysql56GTIDSet("")
		blk, err2 := replication.NewMysql56GTIDSetFromSIDBlock(vh.Exact(make([]byte, 8)))
		if err != nil || err2 != nil {
			return vh.ErrV("parse")
		}
		reps := []replication.GTIDSet{z, alloc, parsed, blk}
		ok := true
		g := g56v{sid: [16]byte{1, 2, 3}, seq: 7}
		first := ""
		for i, a := range reps {
			for _, b := range reps {
				ok = ok && a.Equal(b) && a.Contains(b)
			}
			added := a.AddGTID(g.impl())
			if i == 0 {
				first = added.String()
			}
			ok = ok && added.String() == first && added.ContainsGTID(g.impl()) && !a.ContainsGTID(g.impl()) && added.Contains(a) && !a.Contains(added) && !a.Equal(added)
		}
		return vh.Ok(vh.B(ok))
	})
	if want := vh.Ok(vh.B(true)); out.String() != want.String() {
		addCapped(c, vh.Mismatch{Kind: "spec", What: "representations of the set of 0 members are told apart by Equal / Contains / AddGTID", Case: "Mysql56GTIDSet(nil) vs Mysql56GTIDSet{} vs parse(\"\") vs block of 0 entries",
			Expected: want.String(), Impl: out.String(), InDomain: true})
	}
}

func (k *c18) wrongFlavor() {
	c := k.c
	s := maskSet([]uint{5, 3}, 3, 0)
	impl := mkSet(s, 0)
	mg := replication.MariadbGTID{Domain: 1, Server: 2, Sequence: 3}
	ms := replication.MariadbGTIDSet{mg}
	resps := c.M.Batch([]vh.Val{
		vh.L(vh.A("g.contains_gtid_any"), s.val(), vh.L(vh.A("maria"), vh.I(1), vh.I(2), vh.I(3))),
		vh.L(vh.A("g.add_any"), s.val(), vh.L(vh.A("maria"), vh.I(1), vh.I(2), vh.I(3))),
	})
	c.R.Count("trivial/wrong-flavor")
	w := snap(impl, ms)
	got := vh.L(vh.B(impl.ContainsGTID(mg)), vh.A(hexOf(impl.AddGTID(mg).String())), vh.B(impl.Contains(ms)), vh.B(impl.Equal(ms)))
	w.check(c, "wrong-flavor calls", s.val().String())
	want := vh.L(resps[0], resps[1].Nth(0), vh.B(false), vh.B(false))
	if got.String() != want.String() {
		addCapped(c, vh.Mismatch{Kind: "corr", What: "calls with arguments of the other flavor differ from the model", Case: s.val().String(),
			Model: want.String(), Impl: got.String(), InDomain: false})
	}
}

// applyReplay loads a replay file written by bin/check: the run becomes a deterministic re-run
// with the recorded seed and tier; the recorded case (if any) is returned so that the property
// can re-run it alone when it knows its shape.
func applyReplay(c *Ctx) string {
	if c.Replay == "" {
		return ""
	}
	path := c.Replay
	b, err := os.ReadFile(path)
	if err != nil && !filepath.IsAbs(path) {
		b, err = os.ReadFile(filepath.Join(vh.VerifRoot(), path))
	}
	if err != nil {
		fmt.Fprintln(os.Stderr, "replay:", err)
		os.Exit(2)
	}
	var rp struct {
		Seed     uint64 `json:"seed"`
		Tier     string `json:"tier"`
		Mismatch struct {
			Case string `json:"case"`
		} `json:"mismatch"`
	}
	if json.Unmarshal(b, &rp) != nil {
		return ""
	}
	if rp.Tier != "" {
		c.Tier = rp.Tier
	}
	c.Seed = rp.Seed
	c.Rng = vh.NewRng(rp.Seed)
	c.R.Notes = append(c.R.Notes, fmt.Sprintf("replay of %s: seed=%d tier=%s", c.Replay, rp.Seed, c.Tier))
	return rp.Mismatch.Case
}

// ---------- replay of a single recorded case ----------
func asetFromVal(v vh.Val) (aset, bool) {
	if !v.IsL {
		return nil, false
	}
	var s aset
	for _, e := range v.List {
		if !e.IsL || len(e.List) < 1 {
			return nil, false
		}
		b, ok := e.List[0].Hex()
		if !ok || len(b) != 16 {
			return nil, false
		}
		var ent aent
		copy(ent.sid[:], b)
		for _, iv := range e.List[1:] {
			a, ok1 := iv.Nth(0).Int()
			z, ok2 := iv.Nth(1).Int()
			if !ok1 || !ok2 {
				return nil, false
			}
			ent.ivs = append(ent.ivs, aiv{a, z})
		}
		s = append(s, ent)
	}
	return s, true
}

func g56FromVal(v vh.Val) (g56v, bool) {
	b, ok := v.Nth(0).Hex()
	n, ok2 := v.Nth(1).Int()
	if !ok || !ok2 || len(b) != 16 {
		return g56v{}, false
	}
	var g g56v
	copy(g.sid[:], b)
	g.seq = n
	return g, true
}

func smallSet(s aset) bool {
	for _, e := range s {
		for _, iv := range e.ivs {
			if iv.b-iv.a > 64 || iv.b-iv.a < 0 {
				return false
			}
		}
	}
	return true
}

// replayCase handles (add set gtid) and (pair s t)
func (k *c18) replayCase(cas string) bool {
	v, err := vh.Parse(cas)
	if err != nil || !v.IsL || len(v.List) != 3 {
		return false
	}
	c := k.c
	switch v.List[0].Atom {
	case "add":
		s, ok1 := asetFromVal(v.List[1])
		g, ok2 := g56FromVal(v.List[2])
		if !ok1 || !ok2 {
			return false
		}
		enum := smallSet(s)
		op := "g.all"
		if enum {
			op = "g.allx"
		}
		req := vh.L(vh.A(op), s.val(), gvals([]g56v{g}))
		for how := 0; how < 3; how++ { // once per constructor
			k.checkAdds("replay", s, []g56v{g}, c.M.Call(req), enum, req.String())
		}
		return true
	case "pair":
		s, ok1 := asetFromVal(v.List[1])
		t, ok2 := asetFromVal(v.List[2])
		if !ok1 || !ok2 {
			return false
		}
		op := "g.pairs"
		if smallSet(s) && smallSet(t) {
			op = "g.pairsx"
		}
		resp := c.M.Call(vh.L(vh.A(op), vh.L(s.val()), vh.L(t.val())))
		for how := 0; how < 3; how++ {
			c.R.Count("replay/pair")
			gs, gt := mkSet(s, how), mkSet(t, how+1)
			w := snap(gs, gt)
			got := string([]byte{bit(gs.Contains(gt)), bit(gs.Equal(gt))})
			w.check(c, "Contains/Equal", cas)
			model := resp.Nth(0).Atom[1:] + resp.Nth(1).Atom[1:]
			if got != model {
				addCapped(c, vh.Mismatch{Kind: "corr", What: "Contains/Equal differ from the model", Case: cas, Model: model, Impl: got, InDomain: true})
			}
			if op == "g.pairsx" {
				exp := resp.Nth(2).Atom[1:] + resp.Nth(3).Atom[1:]
				if got != exp {
					addCapped(c, vh.Mismatch{Kind: "spec", What: "Contains/Equal differ from superset/equality of the member sets", Case: cas, Expected: exp, Impl: got, InDomain: true})
				}
			}
		}
		return true
	}
	return false
}
