package main

import (
	"context"
	"errors"
	"fmt"
	"strings"
	"time"

	gobinlog "github.com/Breeze0806/gobinlog"
	"github.com/Breeze0806/gobinlog/replication"
	"verif/harness/internal/vh"
)

// ---- table mapper built from the history's table definitions ----
type hCol struct {
	f string
	u bool
}

func (c hCol) Field() string       { return c.f }
func (c hCol) IsUnSignedInt() bool { return c.u }

type hTable struct {
	name gobinlog.MysqlTableName
	cols []gobinlog.MysqlColumn
}

func (t *hTable) Name() gobinlog.MysqlTableName   { return t.name }
func (t *hTable) Columns() []gobinlog.MysqlColumn { return t.cols }

type hMapper struct {
	tables   []tableDef
	failFor  string // "db.table": return an error
	extraFor string // "db.table": return one column too many
	calls    []string
}

func (m *hMapper) MysqlTable(n gobinlog.MysqlTableName) (gobinlog.MysqlTable, error) {
	key := n.DbName + "." + n.TableName
	m.calls = append(m.calls, key)
	if key == m.failFor {
		return nil, errors.New("no such table")
	}
	for _, t := range m.tables {
		if t.db == n.DbName && t.name == n.TableName {
			ht := &hTable{name: gobinlog.NewMysqlTableName(t.db, t.name)}
			for _, c := range t.cols {
				ht.cols = append(ht.cols, hCol{c.field, c.uns})
			}
			if key == m.extraFor {
				ht.cols = append(ht.cols, hCol{"extra", false})
			}
			return ht, nil
		}
	}
	return nil, errors.New("unknown table")
}

// model-side mapper entries with the same failure modes
func mapperValsFor(tables []tableDef, failFor, extraFor string) []vh.Val {
	var vs []vh.Val
	for _, t := range tables {
		key := t.db + "." + t.name
		if key == failFor {
			continue
		}
		v := t.mapperVal()
		if key == extraFor {
			cols := append(append([]vh.Val{}, v.List[4].List...), vh.L(vh.X([]byte("extra")), vh.B(false)))
			v = vh.L(v.List[0], v.List[1], v.List[2], v.List[3], vh.L(cols...))
		}
		vs = append(vs, v)
	}
	return vs
}

// ---- canonical forms of what the implementation delivers ----
func posVal(p gobinlog.Position) vh.Val { return vh.L(vh.X([]byte(p.Filename)), vh.I(p.Offset)) }

func rowDataVal(rd *gobinlog.RowData) vh.Val {
	cs := make([]vh.Val, len(rd.Columns))
	for i, c := range rd.Columns {
		cs[i] = vh.L(vh.X([]byte(c.Filed)), vh.I(int64(c.Type)), vh.B(c.IsEmpty), vh.XN(c.Data))
	}
	return vh.L(cs...)
}

func txVal(t *gobinlog.Transaction) vh.Val {
	evs := vh.A("nil")
	if t.Events != nil {
		l := make([]vh.Val, len(t.Events))
		for i, e := range t.Events {
			cs := vh.A("nil")
			if e.Query.Charset != nil {
				cs = vh.L(vh.I(int64(e.Query.Charset.Client)), vh.I(int64(e.Query.Charset.Conn)), vh.I(int64(e.Query.Charset.Server)))
			}
			vals := make([]vh.Val, len(e.RowValues))
			for j, r := range e.RowValues {
				vals[j] = rowDataVal(r)
			}
			ids := make([]vh.Val, len(e.RowIdentifies))
			for j, r := range e.RowIdentifies {
				ids[j] = rowDataVal(r)
			}
			l[i] = vh.L(vh.I(int64(e.Type)), vh.L(vh.X([]byte(e.Table.DbName)), vh.X([]byte(e.Table.TableName))),
				vh.L(vh.X([]byte(e.Query.Database)), vh.X([]byte(e.Query.SQL)), cs), vh.I(e.Timestamp), vh.L(vals...), vh.L(ids...))
		}
		evs = vh.L(l...)
	}
	return vh.L(posVal(t.NowPosition), posVal(t.NextPosition), vh.I(t.Timestamp), evs)
}

func streamErrClass(err error) string {
	if err == nil {
		return "end"
	}
	s := err.Error()
	for _, p := range [][2]string{
		{"invalid data", "invalid"}, {"can't parse FORMAT_DESCRIPTION_EVENT", "format"},
		{"got a real event before FORMAT_DESCRIPTION_EVENT", "noformat"}, {"can't strip checksum", "checksum"},
		{"sendTransaction error", "handler"}, {"Rotate fail", "rotate"}, {"can't get query", "query"},
		{"TableMap fail", "tablemap"}, {"MysqlTable fail", "mapper"},
		{"did not equal to the length of column in table info", "mismatch"}, {"unknown tableID", "unknowntable"},
		{"Rows fail in", "rows"}, {"is a Rand event", "rand"}, {"is a IntVar event", "intvar"}, {"is a RowsQuery event", "rowsquery"},
		{"getValuesFromRow the length", "cell"}, {"getIdentifiesFromRow the length", "cell"},
		{"unsupported type", "cell"}, {"unexpected enum size", "cell"}, {"unsupported blob", "cell"}, {"unsupported geometry", "cell"}, {"error parsing JSON", "cell"},
	} {
		if strings.Contains(s, p[0]) {
			return p[1]
		}
	}
	return "other:" + s
}

type attempt struct {
	startFile       string
	startOff        int64
	events          [][]byte
	verdicts        []bool // per handler call; beyond the list: accept
	cancelAt        int    // >=0: cancel the context once that many events have been handed over (channel stays open)
	cancelInRefusal bool   // the refusing handler call also cancels the context (handler gives up on shutdown)
	mapper          *hMapper
}

type attemptResult struct {
	pos      vh.Val
	stored   vh.Val
	calls    []vh.Val // (tx accepted)
	outcome  string
	panicked bool
	// transactions whose content, re-read after parseEvents returned, differs from what was read at delivery
	changed []string
}

// implAttempt runs the implementation's parseEvents on the attempt (through the verif hook).
func implAttempt(a attempt) (res attemptResult) {
	s, _ := gobinlog.NewStreamer("u:p@tcp(127.0.0.1:1)/db", 1234, a.mapper)
	s.SetBinlogPosition(gobinlog.Position{Filename: a.startFile, Offset: a.startOff})
	ctx, cancel := context.WithCancel(context.Background())
	defer cancel()
	ch := make(chan replication.BinlogEvent)
	done := make(chan struct{})
	handed := make(chan struct{})
	go func() {
		defer close(handed)
		for i, e := range a.events {
			if a.cancelAt >= 0 && i == a.cancelAt {
				return
			}
			select {
			case ch <- replication.NewMysql56BinlogEvent(vh.Exact(e)):
			case <-done:
				return
			}
		}
		if a.cancelAt < 0 {
			close(ch)
		}
	}()
	if a.cancelAt >= 0 {
		go func() {
			<-handed
			cancel()
		}()
	}
	ncall := 0
	var kept []*gobinlog.Transaction // a consumer may keep what it was handed (the package documents `Transactions <- tran`)
	var keptAt []string
	handler := func(t *gobinlog.Transaction) error {
		ok := true
		if ncall < len(a.verdicts) {
			ok = a.verdicts[ncall]
		}
		ncall++
		tv := txVal(t)
		kept, keptAt = append(kept, t), append(keptAt, tv.String())
		res.calls = append(res.calls, vh.L(tv, vh.B(ok)))
		if !ok {
			if a.cancelInRefusal {
				cancel()
			}
			return errors.New("handler refuses")
		}
		return nil
	}
	func() {
		defer func() {
			if r := recover(); r != nil {
				res.panicked = true
				res.outcome = "panic"
			}
		}()
		pos, err := gobinlog.VerifParseEvents(s, ctx, ch, handler)
		res.pos = posVal(pos)
		res.outcome = streamErrClass(err)
		// what Stream() does with the returned position
		s.SetBinlogPosition(pos)
		res.stored = posVal(gobinlog.VerifStoredPosition(s))
	}()
	close(done)
	for i, t := range kept {
		func() {
			defer func() {
				if recover() != nil {
					res.changed = append(res.changed, fmt.Sprintf("transaction %d cannot be read any more", i))
				}
			}()
			if now := txVal(t).String(); now != keptAt[i] {
				res.changed = append(res.changed, fmt.Sprintf("transaction %d: at delivery %.300s, after the stream %.300s", i, keptAt[i], now))
			}
		}()
	}
	return
}

func modelAttempt(c *Ctx, a attempt, mapperVals []vh.Val) (pos vh.Val, calls []vh.Val, outcome string) {
	evs := a.events
	if a.cancelAt >= 0 && a.cancelAt < len(evs) {
		evs = evs[:a.cancelAt]
	}
	ev := make([]vh.Val, len(evs))
	for i, e := range evs {
		ev[i] = vh.X(e)
	}
	vs := make([]vh.Val, len(a.verdicts))
	for i, v := range a.verdicts {
		vs[i] = vh.B(v)
	}
	resp := c.M.Call(vh.L(vh.A("parse"), vh.L(vh.X([]byte(a.startFile)), vh.I(a.startOff)), vh.L(ev...), vh.L(mapperVals...), vh.L(vs...), vh.I(0)))
	pos = resp.Nth(0)
	for _, x := range resp.Nth(1).List {
		calls = append(calls, substTx(x))
	}
	o := resp.Nth(2)
	outcome = o.Nth(0).Atom
	if outcome == "err" {
		outcome = o.Nth(1).Atom
	}
	return
}

// substTx replaces float oracle markers (FLOAT / DOUBLE cells, doubles inside JSON cells) inside a model transaction.
func substTx(v vh.Val) vh.Val {
	if !v.IsL {
		if b, ok := v.Hex(); ok && hasOracleMarker(b) {
			return vh.X(substFloat(b))
		}
		return v
	}
	l := make([]vh.Val, len(v.List))
	for i, x := range v.List {
		l[i] = substTx(x)
	}
	return vh.L(l...)
}

func joinVals(vs []vh.Val) string {
	ss := make([]string, len(vs))
	for i, v := range vs {
		ss[i] = v.String()
	}
	return strings.Join(ss, " ")
}

// compareAttempt: implementation vs model (corr).  Returns the implementation result.
func compareAttempt(c *Ctx, prop, what string, a attempt, mapperVals []vh.Val, inDomain bool) attemptResult {
	ir := implAttempt(a)
	mpos, mcalls, mout := modelAttempt(c, a, mapperVals)
	desc := fmt.Sprintf("start=%s:%d events=%d cancelAt=%d verdicts=%v mapperFail=%q mapperExtra=%q", a.startFile, a.startOff, len(a.events), a.cancelAt, a.verdicts, a.mapper.failFor, a.mapper.extraFor)
	if ir.outcome != mout {
		c.R.Add(vh.Mismatch{Kind: "corr", What: what + ": parseEvents outcome differs from the model", Case: desc, Input: eventsHex(a.events), Model: mout, Impl: ir.outcome, InDomain: inDomain})
		return ir
	}
	if ir.panicked {
		return ir
	}
	if len(ir.changed) > 0 {
		c.R.Add(vh.Mismatch{Kind: "spec", What: what + ": a delivered transaction changed after it was delivered", Case: desc, Input: eventsHex(a.events), Impl: strings.Join(ir.changed, " | "), InDomain: inDomain})
	}
	if ir.pos.String() != mpos.String() {
		c.R.Add(vh.Mismatch{Kind: "corr", What: what + ": returned position differs from the model", Case: desc, Input: eventsHex(a.events), Model: mpos.String(), Impl: ir.pos.String(), InDomain: inDomain})
	}
	if joinVals(ir.calls) != joinVals(mcalls) {
		c.R.Add(vh.Mismatch{Kind: "corr", What: what + ": transactions handed to the handler differ from the model", Case: desc, Input: eventsHex(a.events), Model: joinVals(mcalls), Impl: joinVals(ir.calls), InDomain: inDomain})
	}
	return ir
}

func eventsHex(evs [][]byte) string {
	var sb strings.Builder
	for i, e := range evs {
		if i > 0 {
			sb.WriteByte(' ')
		}
		fmt.Fprintf(&sb, "%x", e)
		if sb.Len() > 3500 {
			sb.WriteString(" ...")
			break
		}
	}
	return sb.String()
}

var _ = time.Now
