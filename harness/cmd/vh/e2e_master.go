package main

func e2eRun(c *Ctx, prop string) {}
