package main

import (
	"encoding/binary"
	"errors"
	"fmt"
	"io"
	"net"
	"sync"
	"time"
)

// A fake MySQL master: just enough of the protocol for the forked driver's
// connect + COM_QUERY + COM_BINLOG_DUMP, with its own packet reader/writer.

type dumpReq struct {
	Pos      uint32
	Flags    uint16
	ServerID uint32
	File     string
}

type action struct {
	kind string // event eof err close reset hang short outofseq gate
	data []byte // event bytes
	code uint16
	msg  string
	gate chan struct{} // gate: wait until closed / signalled
}

type masterConn struct {
	queries      []string
	dumps        []dumpReq
	order        []string // "query" / "dump" / "quit" in arrival order
	quit         bool
	clientClosed bool // the client closed its end (observed by the master)
	done         chan struct{}
}

type fakeMaster struct {
	ln     net.Listener
	mu     sync.Mutex
	conns  []*masterConn
	script func(connIdx int, req dumpReq) []action
	// queryReply decides the answer to a COM_QUERY: "" = OK, "rejected" = ERR packet 1317, "lost" = the master
	// closes the connection without answering (nil: always OK)
	queryReply func(connIdx int, sql string) string
	wg         sync.WaitGroup
}

func newFakeMaster(script func(connIdx int, req dumpReq) []action) (*fakeMaster, error) {
	ln, err := net.Listen("tcp", "127.0.0.1:0")
	if err != nil {
		return nil, err
	}
	m := &fakeMaster{ln: ln, script: script}
	go m.acceptLoop()
	return m, nil
}

func (m *fakeMaster) dsn() string {
	return fmt.Sprintf("u:p@tcp(%s)/db", m.ln.Addr().String())
}

func (m *fakeMaster) close() {
	m.ln.Close()
}

func (m *fakeMaster) acceptLoop() {
	for {
		c, err := m.ln.Accept()
		if err != nil {
			return
		}
		mc := &masterConn{done: make(chan struct{})}
		m.mu.Lock()
		idx := len(m.conns)
		m.conns = append(m.conns, mc)
		m.mu.Unlock()
		m.wg.Add(1)
		go func() {
			defer m.wg.Done()
			defer close(mc.done)
			m.serve(c, mc, idx)
		}()
	}
}

func (m *fakeMaster) conn(i int) *masterConn {
	m.mu.Lock()
	defer m.mu.Unlock()
	if i < len(m.conns) {
		return m.conns[i]
	}
	return nil
}

func (m *fakeMaster) nconns() int {
	m.mu.Lock()
	defer m.mu.Unlock()
	return len(m.conns)
}

func writePacket(c net.Conn, seq byte, payload []byte) error {
	for {
		n := len(payload)
		if n > 0xffffff {
			n = 0xffffff
		}
		hdr := []byte{byte(n), byte(n >> 8), byte(n >> 16), seq}
		if _, err := c.Write(append(hdr, payload[:n]...)); err != nil {
			return err
		}
		seq++
		payload = payload[n:]
		if n < 0xffffff {
			return nil
		}
	}
}

func readPacket(c net.Conn) (byte, []byte, error) {
	hdr := make([]byte, 4)
	if _, err := io.ReadFull(c, hdr); err != nil {
		return 0, nil, err
	}
	n := int(hdr[0]) | int(hdr[1])<<8 | int(hdr[2])<<16
	p := make([]byte, n)
	if _, err := io.ReadFull(c, p); err != nil {
		return 0, nil, err
	}
	return hdr[3], p, nil
}

var okPacket = []byte{0x00, 0x00, 0x00, 0x02, 0x00, 0x00, 0x00}

func handshakePacket() []byte {
	var b []byte
	b = append(b, 0x0a)
	b = append(b, []byte("5.7.0-fake\x00")...)
	b = append(b, 1, 0, 0, 0)
	b = append(b, []byte("abcdefgh")...)
	b = append(b, 0x00)
	caps := uint32(0x00088209) // LONG_PASSWORD|CONNECT_WITH_DB|PROTOCOL_41|SECURE_CONNECTION|PLUGIN_AUTH
	b = append(b, byte(caps), byte(caps>>8))
	b = append(b, 33)
	b = append(b, 0x02, 0x00)
	b = append(b, byte(caps>>16), byte(caps>>24))
	b = append(b, 21)
	b = append(b, make([]byte, 10)...)
	b = append(b, []byte("ijklmnopqrst\x00")...)
	b = append(b, []byte("mysql_native_password\x00")...)
	return b
}

func (m *fakeMaster) serve(c net.Conn, mc *masterConn, idx int) {
	defer c.Close()
	if err := writePacket(c, 0, handshakePacket()); err != nil {
		return
	}
	if _, _, err := readPacket(c); err != nil { // handshake response (ignored)
		return
	}
	if err := writePacket(c, 2, okPacket); err != nil {
		return
	}
	for {
		_, p, err := readPacket(c)
		if err != nil {
			m.mu.Lock()
			mc.clientClosed = true
			m.mu.Unlock()
			return
		}
		if len(p) == 0 {
			continue
		}
		switch p[0] {
		case 0x03: // COM_QUERY
			m.mu.Lock()
			mc.queries = append(mc.queries, string(p[1:]))
			mc.order = append(mc.order, "query")
			qr := m.queryReply
			m.mu.Unlock()
			reply := ""
			if qr != nil {
				reply = qr(idx, string(p[1:]))
			}
			switch reply {
			case "rejected":
				ep := append([]byte{0xff, 0x25, 0x05, '#', '7', '0', '1', '0', '0'}, []byte("Query execution was interrupted")...)
				if err := writePacket(c, 1, ep); err != nil {
					return
				}
				continue
			case "lost":
				return
			}
			if err := writePacket(c, 1, okPacket); err != nil {
				return
			}
		case 0x01: // COM_QUIT
			m.mu.Lock()
			mc.quit = true
			mc.order = append(mc.order, "quit")
			m.mu.Unlock()
			// wait for the client to close
			io.Copy(io.Discard, c)
			m.mu.Lock()
			mc.clientClosed = true
			m.mu.Unlock()
			return
		case 0x12: // COM_BINLOG_DUMP
			if len(p) < 11 {
				return
			}
			req := dumpReq{Pos: binary.LittleEndian.Uint32(p[1:5]), Flags: binary.LittleEndian.Uint16(p[5:7]),
				ServerID: binary.LittleEndian.Uint32(p[7:11]), File: string(p[11:])}
			m.mu.Lock()
			mc.dumps = append(mc.dumps, req)
			mc.order = append(mc.order, "dump")
			m.mu.Unlock()
			if m.runScript(c, mc, m.script(idx, req)) {
				return
			}
		default:
			return
		}
	}
}

// runScript returns true when the connection is finished.
func (m *fakeMaster) runScript(c net.Conn, mc *masterConn, acts []action) bool {
	seq := byte(1)
	watchClient := func() {
		// after the terminal packet the master keeps reading: it sees COM_QUIT and/or the close
		for {
			_, p, err := readPacket(c)
			if err != nil {
				m.mu.Lock()
				mc.clientClosed = true
				m.mu.Unlock()
				return
			}
			if len(p) > 0 && p[0] == 0x01 {
				m.mu.Lock()
				mc.quit = true
				mc.order = append(mc.order, "quit")
				m.mu.Unlock()
			}
			// whatever else the replica sends after the stream has ended is part of what the master received
			// (a second dump request, another statement)
			if len(p) >= 11 && p[0] == 0x12 {
				m.mu.Lock()
				mc.dumps = append(mc.dumps, dumpReq{Pos: binary.LittleEndian.Uint32(p[1:5]), Flags: binary.LittleEndian.Uint16(p[5:7]),
					ServerID: binary.LittleEndian.Uint32(p[7:11]), File: string(p[11:])})
				mc.order = append(mc.order, "dump")
				m.mu.Unlock()
				// a repeated request gets the refusal again (so that the replica's call returns and the count is reported)
				writePacket(c, 1, append([]byte{0xff, 0xd4, 0x04, '#', 'H', 'Y', '0', '0', '0'}, []byte("dump request repeated")...))
			}
			if len(p) > 0 && p[0] == 0x03 {
				m.mu.Lock()
				mc.queries = append(mc.queries, string(p[1:]))
				mc.order = append(mc.order, "query")
				m.mu.Unlock()
			}
		}
	}
	for _, a := range acts {
		switch a.kind {
		case "event":
			if err := writePacket(c, seq, append([]byte{0x00}, a.data...)); err != nil {
				m.mu.Lock()
				mc.clientClosed = true
				m.mu.Unlock()
				return true
			}
			seq += byte(1 + (len(a.data)+1)/0xffffff)
		case "raw":
			// a packet sent as it is (the caller chose its first byte)
			if err := writePacket(c, seq, a.data); err != nil {
				m.mu.Lock()
				mc.clientClosed = true
				m.mu.Unlock()
				return true
			}
			seq += byte(1 + len(a.data)/0xffffff)
		case "gate":
			select {
			case <-a.gate:
			case <-time.After(20 * time.Second):
			}
		case "eof":
			writePacket(c, seq, []byte{0xfe, 0x00, 0x00, 0x02, 0x00})
			watchClient()
			return true
		case "err":
			p := []byte{0xff, byte(a.code), byte(a.code >> 8), '#', 'H', 'Y', '0', '0', '0'}
			p = append(p, []byte(a.msg)...)
			writePacket(c, seq, p)
			watchClient()
			return true
		case "close":
			return true
		case "reset":
			if tc, ok := c.(*net.TCPConn); ok {
				tc.SetLinger(0)
			}
			return true
		case "short":
			// a length prefix larger than the bytes that follow, then close
			c.Write([]byte{50, 0, 0, seq, 0x00, 1, 2, 3})
			return true
		case "outofseq":
			writePacket(c, seq+5, append([]byte{0x00}, a.data...))
			watchClient()
			return true
		case "hang":
			watchClient()
			return true
		}
	}
	watchClient()
	return true
}

var errDeadline = errors.New("deadline")

// within runs f and reports whether it returned before the deadline.
func within(d time.Duration, f func()) bool {
	done := make(chan struct{})
	go func() {
		defer close(done)
		f()
	}()
	select {
	case <-done:
		return true
	case <-time.After(d):
		return false
	}
}
