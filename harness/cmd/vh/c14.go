package main

// C14 — JSON columns decode to the document the master stored.
//
// Structured stream: documents from a recursive generator are serialised by
// the SPECIFICATION (op json_doc: ser, render_top, wf, model outcome); the
// implementation (VerifPrintJSONData and CellBytes/TypeJSON) must print
// render_top(document) (Kind "spec") and agree with the model (Kind "corr").
// Malformed stream (op json_raw): outcome class of model vs implementation.
// Golden anchors: the byte strings of the repo's TestJSON replayed through the
// model, and hand-written documents whose `ser` must equal them byte for byte.
// End to end: histories whose tables have JSON columns (typedHistories), the
// documents being values of row images (op mkevent / expect_image, (json <doc>)).

import (
	"bufio"
	"bytes"
	"encoding/json"
	"fmt"
	"io"
	"math"
	"os"
	"os/exec"
	"runtime/debug"
	"sort"
	"strconv"
	"strings"
	"syscall"
	"time"

	"github.com/Breeze0806/gobinlog/replication"
	"verif/harness/internal/vh"
)

func init() {
	if os.Getenv("VH_C14_IMPL_SERVER") != "" {
		serveImpl()
		os.Exit(0)
	}
	runners["C14"] = runC14
}

// ---------------------------------------------------------------- isolated implementation calls
//
// On malformed inputs the implementation can die in ways recover() cannot
// catch (make([][]byte, elementCount) with a count read from garbage: fatal
// out of memory; cyclic offsets: fatal stack overflow).  Those calls run in a
// child process (this binary, VH_C14_IMPL_SERVER=1) with a bounded address
// space and a bounded stack; a dead child is the outcome (fatal).

func serveImpl() {
	var lim syscall.Rlimit
	lim.Cur, lim.Max = 3<<30, 3<<30
	syscall.Setrlimit(syscall.RLIMIT_AS, &lim)
	debug.SetMaxStack(64 << 20)
	in := bufio.NewReaderSize(os.Stdin, 1<<20)
	out := bufio.NewWriter(os.Stdout)
	for {
		line, err := in.ReadString('\n')
		if err != nil {
			return
		}
		v, perr := vh.Parse(line)
		if perr != nil {
			return
		}
		data, _ := v.Hex()
		r := vh.Try(func() vh.Val {
			t, err := replication.VerifPrintJSONData(vh.Exact(data))
			return jsonOutcome(t, err)
		})
		out.WriteString(r.String())
		out.WriteByte('\n')
		out.Flush()
	}
}

type implServer struct {
	cmd   *exec.Cmd
	in    io.WriteCloser
	lines chan string
}

func (s *implServer) start() {
	exe, err := os.Executable()
	if err != nil {
		panic(err)
	}
	s.cmd = exec.Command(exe)
	s.cmd.Env = append(os.Environ(), "VH_C14_IMPL_SERVER=1")
	s.in, _ = s.cmd.StdinPipe()
	outp, _ := s.cmd.StdoutPipe()
	s.cmd.Stderr = nil
	if err := s.cmd.Start(); err != nil {
		panic(err)
	}
	s.lines = make(chan string, 1)
	go func(ch chan string) {
		rd := bufio.NewReaderSize(outp, 1<<20)
		for {
			l, err := rd.ReadString('\n')
			if err != nil {
				close(ch)
				return
			}
			ch <- l
		}
	}(s.lines)
}

func (s *implServer) stop() {
	if s.cmd != nil {
		s.in.Close()
		s.cmd.Process.Kill()
		s.cmd.Wait()
		s.cmd = nil
	}
}

// call returns the outcome, or (fatal) when the child died, or (timeout).
func (s *implServer) call(data []byte) vh.Val {
	if s.cmd == nil {
		s.start()
	}
	if _, err := io.WriteString(s.in, vh.X(data).String()+"\n"); err != nil {
		s.stop()
		return vh.L(vh.A("fatal"))
	}
	select {
	case l, ok := <-s.lines:
		if !ok {
			s.stop()
			return vh.L(vh.A("fatal"))
		}
		v, err := vh.Parse(l)
		if err != nil {
			s.stop()
			return vh.L(vh.A("fatal"))
		}
		return v
	case <-time.After(20 * time.Second):
		s.stop()
		return vh.L(vh.A("timeout"))
	}
}

// ---------------------------------------------------------------- documents

type jd struct {
	k     string // obj arr null true false i16 u16 i32 u32 i64 u64 dbl str date time datetime dec
	large bool
	keys  [][]byte
	kids  []*jd
	i     int64
	u     uint64
	s     []byte
	f     [7]int // date: y m d; time: neg h mi s us; datetime: y m d h mi s us
	p, sc int
	neg   bool
	ip    []int
	fp    []int
}

func (d *jd) sexp() vh.Val {
	b := func(x bool) vh.Val { return vh.B(x) }
	switch d.k {
	case "null", "true", "false":
		return vh.A(d.k)
	case "obj":
		vs := []vh.Val{vh.A("obj"), b(d.large)}
		for i, c := range d.kids {
			vs = append(vs, vh.L(vh.X(d.keys[i]), c.sexp()))
		}
		return vh.L(vs...)
	case "arr":
		vs := []vh.Val{vh.A("arr"), b(d.large)}
		for _, c := range d.kids {
			vs = append(vs, c.sexp())
		}
		return vh.L(vs...)
	case "i16", "i32", "i64":
		return vh.L(vh.A(d.k), vh.I(d.i))
	case "u16", "u32", "u64", "dbl":
		return vh.L(vh.A(d.k), vh.U(d.u))
	case "str":
		return vh.L(vh.A("str"), vh.X(d.s))
	case "date":
		return vh.L(vh.A("date"), vh.I(int64(d.f[0])), vh.I(int64(d.f[1])), vh.I(int64(d.f[2])))
	case "time":
		return vh.L(vh.A("time"), vh.I(int64(d.f[0])), vh.I(int64(d.f[1])), vh.I(int64(d.f[2])), vh.I(int64(d.f[3])), vh.I(int64(d.f[4])))
	case "datetime":
		vs := []vh.Val{vh.A("datetime")}
		for _, x := range d.f {
			vs = append(vs, vh.I(int64(x)))
		}
		return vh.L(vs...)
	case "dec":
		dl := func(xs []int) vh.Val {
			vs := make([]vh.Val, len(xs))
			for i, x := range xs {
				vs[i] = vh.I(int64(x))
			}
			return vh.L(vs...)
		}
		return vh.L(vh.A("dec"), vh.I(int64(d.p)), vh.I(int64(d.sc)), b(d.neg), dl(d.ip), dl(d.fp))
	}
	panic("sexp: kind " + d.k)
}

func varlenLen(n int) int {
	l := 1
	for n >= 128 {
		n >>= 7
		l++
	}
	return l
}

var dig2bytesTab = []int{0, 1, 1, 2, 2, 3, 3, 4, 4, 4}

func (d *jd) inlined(large bool) bool {
	switch d.k {
	case "null", "true", "false", "i16", "u16":
		return true
	case "i32", "u32":
		return large
	}
	return false
}

// bodyLen: size of the serialised value without its type byte (used only to
// choose container formats; the specification's wf_doc is the arbiter).
func (d *jd) bodyLen() int {
	switch d.k {
	case "null", "true", "false":
		return 1
	case "i16", "u16":
		return 2
	case "i32", "u32":
		return 4
	case "i64", "u64", "dbl":
		return 8
	case "str":
		return varlenLen(len(d.s)) + len(d.s)
	case "date", "time", "datetime":
		return 1 + 1 + 8
	case "dec":
		intg := d.p - d.sc
		n := 2 + (intg/9)*4 + dig2bytesTab[intg%9] + (d.sc/9)*4 + dig2bytesTab[d.sc%9]
		return 1 + varlenLen(n) + n
	case "obj", "arr":
		w := 2
		if d.large {
			w = 4
		}
		n := 2*w + len(d.kids)*(1+w)
		for _, k := range d.keys {
			n += w + 2 + len(k)
		}
		for _, c := range d.kids {
			if !c.inlined(d.large) {
				n += c.bodyLen()
			}
		}
		return n
	}
	panic("bodyLen")
}

// fixFormats makes every container large whose small form would not fit.
func (d *jd) fixFormats() {
	if d.k != "obj" && d.k != "arr" {
		return
	}
	for _, c := range d.kids {
		c.fixFormats()
	}
	if !d.large && d.bodyLen() >= 65536 {
		d.large = true
	}
}

type shape struct {
	depth          int
	kinds          map[string]bool
	small, largeN  int
	inl, ool       int
	maxFan, maxStr int
}

func (d *jd) shapeInto(s *shape, depth int) {
	s.kinds[d.k] = true
	if d.k == "str" && len(d.s) > s.maxStr {
		s.maxStr = len(d.s)
	}
	if d.k != "obj" && d.k != "arr" {
		return
	}
	if depth+1 > s.depth {
		s.depth = depth + 1
	}
	if d.large {
		s.largeN++
	} else {
		s.small++
	}
	if len(d.kids) > s.maxFan {
		s.maxFan = len(d.kids)
	}
	for _, c := range d.kids {
		if c.inlined(d.large) {
			s.inl++
		} else {
			s.ool++
		}
		c.shapeInto(s, depth+1)
	}
}

func (d *jd) class(src string, size int) string {
	s := &shape{kinds: map[string]bool{}}
	d.shapeInto(s, 0)
	var ks []string
	for k := range s.kinds {
		ks = append(ks, k)
	}
	sort.Strings(ks)
	kset := strings.Join(ks, "+")
	if len(ks) > 4 {
		kset = fmt.Sprintf("%dkinds", len(ks))
	}
	fm := "scalar"
	switch {
	case s.small > 0 && s.largeN > 0:
		fm = "mixed"
	case s.small > 0:
		fm = "small"
	case s.largeN > 0:
		fm = "large"
	}
	in := "none"
	switch {
	case s.inl > 0 && s.ool > 0:
		in = "inl+ool"
	case s.inl > 0:
		in = "inl"
	case s.ool > 0:
		in = "ool"
	}
	sz := "<64K"
	if size >= 65536 {
		sz = ">=64K"
	}
	return fmt.Sprintf("%s/%s/depth%d/%s/%s/%s", src, kset, s.depth, fm, in, sz)
}

// ---------------------------------------------------------------- generator

type jgen struct {
	r        *vh.Rng
	decFixed bool // the worktree's DECIMAL decoder carries the C11 repairs
	longStr  int  // strings of >= 16383 bytes generated since the counter was reset (bounded per random document)
}

var strLens = []int{0, 1, 2, 5, 126, 127, 128, 129, 255, 256, 300, 16383, 16384, 16385}

func (g *jgen) plainBytes(n int, exotic bool) []byte {
	b := make([]byte, n)
	for i := range b {
		for {
			var c byte
			if exotic {
				c = byte(g.r.Intn(256))
			} else {
				c = byte(32 + g.r.Intn(95))
			}
			if c != '\'' && c != '"' && c != '\\' {
				b[i] = c
				break
			}
		}
	}
	return b
}

func (g *jgen) key() []byte {
	switch g.r.Intn(10) {
	case 0:
		return []byte{}
	case 1:
		return g.plainBytes(g.r.Pick(200, 255, 256, 1000), false)
	case 2:
		return g.plainBytes(1+g.r.Intn(6), true)
	}
	return g.plainBytes(1+g.r.Intn(8), false)
}

var i16b = []int64{-32768, -32767, -1, 0, 1, 255, 256, 32766, 32767}
var u16b = []uint64{0, 1, 255, 256, 32767, 32768, 65534, 65535}
var i32b = []int64{-2147483648, -2147483647, -32769, -32768, -1, 0, 32767, 32768, 65535, 65536, 2147483646, 2147483647}
var u32b = []uint64{0, 65535, 65536, 2147483647, 2147483648, 4294967294, 4294967295}
var i64b = []int64{math.MinInt64, math.MinInt64 + 1, -2147483649, -2147483648, -1, 0, 2147483647, 2147483648, 4294967295, 4294967296, math.MaxInt64 - 1, math.MaxInt64}
var u64b = []uint64{0, 4294967295, 4294967296, 1<<63 - 1, 1 << 63, math.MaxUint64 - 1, math.MaxUint64}
var dblb = []uint64{0, 1 << 63, 0x3ff0000000000000, 0x400921f9f01b866e, 0x7fefffffffffffff, 1, 0xffefffffffffffff,
	0x7ff0000000000000, 0xfff0000000000000, 0x7ff8000000000001, 0x4340000000000000, 0x3fb999999999999a, 0x0010000000000000}
var decPS = [][2]int{{1, 0}, {5, 2}, {9, 0}, {9, 9}, {10, 0}, {13, 4}, {18, 0}, {18, 9}, {20, 2}, {30, 15}, {38, 10}, {65, 30}, {65, 0}, {30, 30}}

func (g *jgen) scalar() *jd {
	r := g.r
	switch r.Intn(17) {
	case 0:
		return &jd{k: "null"}
	case 1:
		return &jd{k: "true"}
	case 2:
		return &jd{k: "false"}
	case 3:
		if r.Bool() {
			return &jd{k: "i16", i: i16b[r.Intn(len(i16b))]}
		}
		return &jd{k: "i16", i: int64(int16(r.U64()))}
	case 4:
		if r.Bool() {
			return &jd{k: "u16", u: u16b[r.Intn(len(u16b))]}
		}
		return &jd{k: "u16", u: uint64(uint16(r.U64()))}
	case 5:
		if r.Bool() {
			return &jd{k: "i32", i: i32b[r.Intn(len(i32b))]}
		}
		return &jd{k: "i32", i: int64(int32(r.U64()))}
	case 6:
		if r.Bool() {
			return &jd{k: "u32", u: u32b[r.Intn(len(u32b))]}
		}
		return &jd{k: "u32", u: uint64(uint32(r.U64()))}
	case 7:
		if r.Bool() {
			return &jd{k: "i64", i: i64b[r.Intn(len(i64b))]}
		}
		return &jd{k: "i64", i: int64(r.U64())}
	case 8:
		if r.Bool() {
			return &jd{k: "u64", u: u64b[r.Intn(len(u64b))]}
		}
		return &jd{k: "u64", u: r.U64()}
	case 9:
		if r.Bool() {
			return &jd{k: "dbl", u: dblb[r.Intn(len(dblb))]}
		}
		return &jd{k: "dbl", u: r.U64()}
	case 10, 11:
		n := r.Intn(12)
		if r.Chance(1, 6) {
			n = strLens[r.Intn(len(strLens))]
			if n >= 16383 {
				if g.longStr >= 2 {
					n = 300
				}
				g.longStr++
			}
		}
		return &jd{k: "str", s: g.plainBytes(n, r.Chance(1, 4))}
	case 12:
		return g.date()
	case 13, 14:
		return g.time()
	case 15:
		return g.datetime()
	default:
		return g.decimal()
	}
}

func (g *jgen) date() *jd {
	r := g.r
	return &jd{k: "date", f: [7]int{r.Pick(0, 1, 999, 1000, 1970, 2015, 9999, r.Intn(10000)), r.Intn(13), r.Intn(32)}}
}
func (g *jgen) us() int {
	return g.r.Pick(0, 0, 1, 10, 120000, 999999, g.r.Intn(1000000))
}
func (g *jgen) time() *jd {
	r := g.r
	d := &jd{k: "time"}
	d.f = [7]int{0, r.Pick(0, 1, 9, 10, 23, 99, 100, 101, 838, r.Intn(839)), r.Intn(60), r.Intn(60), g.us()}
	if r.Bool() && d.f[1]+d.f[2]+d.f[3]+d.f[4] > 0 {
		d.f[0] = 1
	}
	return d
}
func (g *jgen) datetime() *jd {
	r := g.r
	return &jd{k: "datetime", f: [7]int{r.Pick(0, 1, 1000, 2015, 9999, r.Intn(10000)), r.Intn(13), r.Intn(32), r.Intn(24), r.Intn(60), r.Intn(60), g.us()}}
}
func (g *jgen) decimal() *jd {
	r := g.r
	for {
		ps := decPS[r.Intn(len(decPS))]
		d := &jd{k: "dec", p: ps[0], sc: ps[1]}
		mode := r.Intn(5) // 0 zero, 1 small, 2 leading zeros, 3 full, 4 nines
		gen := func(n int) []int {
			xs := make([]int, n)
			for i := range xs {
				switch mode {
				case 0:
					xs[i] = 0
				case 1:
					if i >= n-2 {
						xs[i] = r.Intn(10)
					}
				case 2:
					if i >= n/2 {
						xs[i] = r.Intn(10)
					}
				case 3:
					xs[i] = r.Intn(10)
				case 4:
					xs[i] = 9
				}
			}
			return xs
		}
		d.ip, d.fp = gen(d.p-d.sc), gen(d.sc)
		nz := false
		for _, x := range append(append([]int{}, d.ip...), d.fp...) {
			if x != 0 {
				nz = true
			}
		}
		d.neg = nz && r.Bool()
		if !g.decFixed && decTriggersC11(d) {
			continue
		}
		return d
	}
}

// decTriggersC11: inputs on which the UNREPAIRED decimal decoder (C11's
// findings D1/D2) misprints: no integer digit at all, or the first non-zero
// integer group is a full 9-digit group.
func decTriggersC11(d *jd) bool {
	intg := d.p - d.sc
	lead := intg % 9
	for i := 0; i < lead; i++ {
		if d.ip[i] != 0 {
			return false
		}
	}
	return true
}

func (g *jgen) doc(depth int, maxFan int, pLarge int) *jd {
	r := g.r
	if depth <= 0 || r.Chance(2, 5) {
		return g.scalar()
	}
	n := 0
	switch r.Intn(6) {
	case 0:
		n = 0
	case 1:
		n = 1
	case 2:
		n = maxFan
	default:
		n = r.Intn(maxFan + 1)
	}
	d := &jd{large: r.Intn(100) < pLarge}
	if r.Bool() {
		d.k = "obj"
	} else {
		d.k = "arr"
	}
	for i := 0; i < n; i++ {
		if d.k == "obj" {
			d.keys = append(d.keys, g.key())
		}
		sub := depth - 1
		if r.Chance(1, 2) {
			sub = r.Intn(depth)
		}
		fan := maxFan
		if depth > 2 {
			fan = 1 + maxFan/4
		}
		d.kids = append(d.kids, g.doc(sub, fan, pLarge))
	}
	return d
}

// chain: a document of exactly the given depth
func (g *jgen) chain(depth int, large func(level int) bool) *jd {
	if depth == 0 {
		return g.scalar()
	}
	d := &jd{large: large(depth)}
	if g.r.Bool() {
		d.k = "obj"
		d.keys = [][]byte{g.key(), g.key(), g.key()}
	} else {
		d.k = "arr"
	}
	d.kids = []*jd{g.scalar(), g.chain(depth-1, large), g.scalar()}
	return d
}

// big: total size >= 64 KB
func (g *jgen) big(variant int) *jd {
	r := g.r
	switch variant % 3 {
	case 0: // a few long strings in a large array nested in a large object
		arr := &jd{k: "arr", large: true}
		for i := 0; i < 5; i++ {
			arr.kids = append(arr.kids, &jd{k: "str", s: g.plainBytes(r.Pick(16383, 16384, 20000), false)})
		}
		arr.kids = append(arr.kids, g.scalar(), &jd{k: "i32", i: -5}, &jd{k: "u32", u: 4294967295})
		return &jd{k: "obj", large: true, keys: [][]byte{[]byte("a"), {}, []byte("tail")},
			kids: []*jd{g.scalar(), arr, g.chain(2, func(int) bool { return false })}}
	case 1: // many small members: 24 x 24 strings of ~125 bytes
		top := &jd{k: "arr", large: true}
		for i := 0; i < 24; i++ {
			in := &jd{k: "obj", large: r.Chance(1, 4)}
			for j := 0; j < 24; j++ {
				in.keys = append(in.keys, g.plainBytes(3, false))
				if j%7 == 3 {
					in.kids = append(in.kids, g.scalar())
				} else {
					in.kids = append(in.kids, &jd{k: "str", s: g.plainBytes(120+r.Intn(20), false)})
				}
			}
			top.kids = append(top.kids, in)
		}
		return top
	default: // small containers below a large one that only fits in the large format
		top := &jd{k: "obj", large: true}
		for i := 0; i < 6; i++ {
			top.keys = append(top.keys, g.key())
			in := &jd{k: "arr"}
			in.kids = append(in.kids, &jd{k: "str", s: g.plainBytes(12000, true)}, g.scalar(), g.chain(1+r.Intn(3), func(int) bool { return r.Bool() }))
			top.kids = append(top.kids, in)
		}
		return top
	}
}

// ---------------------------------------------------------------- running

const e64Prefix = "\\E64:"

// substE64 replaces the oracle marker \E64:<bits>; by Go's own 'E' formatting.
func substE64(b []byte) []byte {
	if !bytes.Contains(b, []byte(e64Prefix)) {
		return b
	}
	var out []byte
	for {
		i := bytes.Index(b, []byte(e64Prefix))
		if i < 0 {
			return append(out, b...)
		}
		out = append(out, b[:i]...)
		rest := b[i+len(e64Prefix):]
		j := bytes.IndexByte(rest, ';')
		bits, err := strconv.ParseUint(string(rest[:j]), 10, 64)
		if err != nil {
			panic("bad E64 marker")
		}
		f := strconv.AppendFloat(nil, math.Float64frombits(bits), 'E', -1, 64)
		checkOracleContract(bits, f)
		out = append(out, f...)
		b = rest[j+1:]
	}
}

// The premises of C14_render_injective about the oracle (Spec.efmt_token,
// efmt_injective), tested on every double the run formats: a non-empty token
// without ',' ')' '\”, starting with a digit, '-', '+' or 'N', never an
// integer literal, and distinct finite bit patterns print differently.
var oracleBad []string
var oracleSeen = map[string]uint64{}
var oracleN int

func checkOracleContract(bits uint64, f []byte) {
	oracleN++
	bad := len(f) == 0
	intLit := true
	for i, c := range f {
		if c == ',' || c == ')' || c == '\'' {
			bad = true
		}
		if !(c >= '0' && c <= '9') && !(i == 0 && c == '-') {
			intLit = false
		}
	}
	if !bad {
		c := f[0]
		if !((c >= '0' && c <= '9') || c == '-' || c == '+' || c == 'N') {
			bad = true
		}
	}
	finite := (bits>>52)&0x7ff != 0x7ff
	if finite {
		if prev, ok := oracleSeen[string(f)]; ok && prev != bits {
			bad = true
		}
		oracleSeen[string(f)] = bits
	}
	if (bad || intLit) && len(oracleBad) < 5 {
		oracleBad = append(oracleBad, fmt.Sprintf("%d -> %q", bits, f))
	}
}

// canonical outcome of a printer call
func jsonOutcome(text []byte, err error) vh.Val {
	if err != nil {
		return vh.ErrV("json")
	}
	if text == nil {
		text = []byte{}
	}
	return vh.Ok(vh.X(text))
}

type implRes struct {
	v       vh.Val
	timeout bool
}

// withWatchdog runs f in its own goroutine; a call that does not come back is
// reported as a timeout (the goroutine is abandoned).
func withWatchdog(f func() vh.Val, d time.Duration) implRes {
	ch := make(chan vh.Val, 1)
	go func() { ch <- vh.Try(f) }()
	select {
	case v := <-ch:
		return implRes{v: v}
	case <-time.After(d):
		return implRes{v: vh.L(vh.A("timeout")), timeout: true}
	}
}

func implPrint(data []byte) implRes {
	return withWatchdog(func() vh.Val {
		t, err := replication.VerifPrintJSONData(vh.Exact(data))
		return jsonOutcome(t, err)
	}, 20*time.Second)
}

func leEnc(n int, v int) []byte {
	b := make([]byte, n)
	for i := range b {
		b[i] = byte(v >> (8 * uint(i)))
	}
	return b
}

func minLB(n int) int {
	switch {
	case n < 1<<8:
		return 1
	case n < 1<<16:
		return 2
	case n < 1<<24:
		return 3
	}
	return 4
}

// implCell goes through the public CellBytes with a TypeJSON column.
func implCell(pre []byte, lb int, data, rest []byte) vh.Val {
	cell := append(append(append(append([]byte{}, pre...), leEnc(lb, len(data))...), data...), rest...)
	return vh.Try(func() vh.Val {
		t, n, err := replication.CellBytes(vh.Exact(cell), len(pre), replication.TypeJSON, uint16(lb), false)
		if err != nil {
			return vh.ErrV("json")
		}
		return vh.Ok(vh.XN(t), vh.I(int64(n)))
	})
}

// outcome with the oracle marker substituted
func substOutcomeJSON(v vh.Val) vh.Val {
	if v.Nth(0).Atom == "ok" && len(v.List) >= 2 {
		if b, ok := v.Nth(1).Hex(); ok {
			out := []vh.Val{vh.A("ok"), vh.X(substE64(b))}
			out = append(out, v.List[2:]...)
			return vh.L(out...)
		}
	}
	if v.Nth(0).Atom == "err" {
		return vh.ErrV("json")
	}
	return v
}

func outcomeClass(v vh.Val) string {
	if v.IsL && len(v.List) > 0 {
		return v.List[0].Atom
	}
	return v.Atom
}

type c14case struct {
	d   *jd
	src string
}

type c14run struct {
	c        *Ctx
	g        *jgen
	bigSeen  int
	fuelSkip int
	timeouts int
	goldenEq []string
}

// checkDocs evaluates a batch of documents; returns for each whether the
// implementation met the specification.
func (x *c14run) checkDocs(cases []c14case, count bool) []bool {
	c := x.c
	reqs := make([]vh.Val, len(cases))
	for i, cs := range cases {
		reqs[i] = vh.L(vh.A("json_doc"), cs.d.sexp())
	}
	resps := c.M.Batch(reqs)
	okv := make([]bool, len(cases))
	for i, cs := range cases {
		resp := resps[i]
		wf := resp.Nth(0).Atom == "1"
		data, ok := resp.Nth(1).Hex()
		if !ok {
			panic("json_doc: " + resp.String())
		}
		renderRaw, _ := resp.Nth(2).Hex()
		want := vh.Ok(vh.X(substE64(renderRaw)))
		model := substOutcomeJSON(resp.Nth(3))
		caseStr := reqs[i].String()
		if !wf {
			// generator bug: outside the property's domain
			c.R.Add(vh.Mismatch{Kind: "selfcheck", What: "generator produced a document outside wf_doc", Case: caseStr})
			continue
		}
		if count {
			c.R.Count(cs.d.class(cs.src, len(data)))
			if len(data) >= 65536 {
				x.bigSeen++
			}
			c.R.Dist["top:"+cs.d.k]++
		}
		if model.String() != want.String() {
			// excluded by theorem C14_json_faithful
			c.R.Add(vh.Mismatch{Kind: "selfcheck", What: "model differs from render on a wf document (contradicts the theorem)",
				Case: caseStr, Expected: want.String(), Model: model.String(), InDomain: true})
		}
		ir := implPrint(data)
		if ir.timeout {
			x.timeouts++
		}
		good := true
		if ir.v.String() != want.String() {
			good = false
			if count {
				c.R.Add(vh.Mismatch{Kind: "spec", What: "printJSONData(ser(document)) differs from render(document)", Case: caseStr,
					Input: vh.X(data).String(), Expected: showText(want), Model: showText(model), Impl: showText(ir.v), InDomain: true})
			}
		}
		// impl != model is implied by the spec mismatch when model = render (theorem); report it only when it says more
		if ir.v.String() != model.String() && count && (good || model.String() != want.String()) {
			c.R.Add(vh.Mismatch{Kind: "corr", What: "printJSONData differs from the model on a serialised document", Case: caseStr,
				Input: vh.X(data).String(), Model: showText(model), Impl: showText(ir.v), InDomain: true})
		}
		// the public path: CellBytes on a TypeJSON column
		r := c.Rng
		lb := minLB(len(data))
		if lb < 4 && r.Bool() {
			lb += r.Intn(5 - lb)
		}
		pre, rest := r.Bytes(r.Intn(4)), r.Bytes(r.Intn(4))
		cv := implCell(pre, lb, data, rest)
		wantCell := vh.Ok(want.Nth(1), vh.I(int64(lb+len(data))))
		if cv.String() != wantCell.String() {
			sameAsDirect := !good && cv.Nth(1).String() == ir.v.Nth(1).String() && cv.Nth(2).String() == wantCell.Nth(2).String()
			good = false
			if count && !sameAsDirect {
				c.R.Add(vh.Mismatch{Kind: "spec", What: "CellBytes(TypeJSON) differs from render(document) / consumed length", Case: caseStr,
					Expected: showText(wantCell), Impl: showText(cv), InDomain: true})
			}
		}
		okv[i] = good
		if count && i%211 == 0 {
			c.R.Sample(caseStr)
		}
	}
	return okv
}

// showText renders an (ok x<hex> ...) outcome readably for reports
func showText(v vh.Val) string {
	if v.Nth(0).Atom == "ok" {
		if b, ok := v.Nth(1).Hex(); ok {
			s := "ok " + strconv.Quote(string(b))
			for _, e := range v.List[2:] {
				s += " " + e.String()
			}
			return s
		}
	}
	return v.String()
}

// shrink: descend into a failing child while one exists
func (x *c14run) shrink(d *jd) *jd {
	for {
		if len(d.kids) == 0 {
			return d
		}
		var cs []c14case
		for _, k := range d.kids {
			cs = append(cs, c14case{k, "shrink"})
		}
		res := x.checkDocs(cs, false)
		next := -1
		for i, ok := range res {
			if !ok {
				next = i
				break
			}
		}
		if next < 0 {
			return d
		}
		d = d.kids[next]
	}
}

func (x *c14run) runBatch(cases []c14case) {
	before := len(x.c.R.Mismatches)
	res := x.checkDocs(cases, true)
	// report a shrunk witness for the first few failing documents of the batch
	shrunk := 0
	for i, ok := range res {
		if ok || shrunk >= 3 || len(cases[i].d.kids) == 0 {
			continue
		}
		m := x.shrink(cases[i].d)
		if m != cases[i].d {
			shrunk++
			x.checkDocs([]c14case{{m, "shrunk"}}, true)
		}
	}
	_ = before
}

func runC14(c *Ctx) {
	c.R.Rule = "documents by (source, constructor set (named when <= 4 kinds), depth, container formats small/large/mixed, entries inlined/out-of-line/both, total size class); malformed inputs by (mutation, outcome class); end-to-end histories with JSON columns by (stream configuration, NULLs seen, absent columns seen); trivial = none"
	x := &c14run{c: c, g: &jgen{r: c.Rng}}
	x.g.decFixed = probeDecimalFixed()
	if !x.g.decFixed {
		c.R.Notes = append(c.R.Notes, "DECIMAL decoder of this worktree does not carry the C11 repairs (D1/D2): opaque decimals in their trigger class are not generated")
	}
	if c.Replay != "" {
		x.replay(c.Replay)
		return
	}
	g := x.g

	t0 := time.Now()
	lap := func(name string) {
		c.R.Notes = append(c.R.Notes, fmt.Sprintf("phase %s: %.1fs", name, time.Since(t0).Seconds()))
		t0 = time.Now()
	}
	// 1. golden anchors
	x.golden()
	lap("golden")
	x.longStrings()
	lap("long strings")

	// 2. every scalar family at top level and as single child of each container format
	var cases []c14case
	var scal []*jd
	scal = append(scal, &jd{k: "null"}, &jd{k: "true"}, &jd{k: "false"})
	for _, v := range i16b {
		scal = append(scal, &jd{k: "i16", i: v})
	}
	for _, v := range u16b {
		scal = append(scal, &jd{k: "u16", u: v})
	}
	for _, v := range i32b {
		scal = append(scal, &jd{k: "i32", i: v})
	}
	for _, v := range u32b {
		scal = append(scal, &jd{k: "u32", u: v})
	}
	for _, v := range i64b {
		scal = append(scal, &jd{k: "i64", i: v})
	}
	for _, v := range u64b {
		scal = append(scal, &jd{k: "u64", u: v})
	}
	for _, v := range dblb {
		scal = append(scal, &jd{k: "dbl", u: v})
	}
	for _, n := range strLens {
		scal = append(scal, &jd{k: "str", s: g.plainBytes(n, n%2 == 1)})
	}
	for _, neg := range []int{0, 1} {
		for _, h := range []int{0, 1, 23, 99, 100, 838} {
			for _, us := range []int{0, 1, 120000, 999999} {
				if neg == 1 && h == 0 && us == 0 {
					scal = append(scal, &jd{k: "time", f: [7]int{1, 0, 0, 1, 0}})
					continue
				}
				scal = append(scal, &jd{k: "time", f: [7]int{neg, h, (h * 7) % 60, (h * 13) % 60, us}})
			}
		}
	}
	scal = append(scal, &jd{k: "time", f: [7]int{1, 1, 0, 0, 0}}) // D5's documented witness: -01:00:00
	for i := 0; i < 12; i++ {
		scal = append(scal, g.date(), g.datetime())
	}
	for _, ps := range decPS {
		for k := 0; k < 4; k++ {
			d := g.decimal()
			for d.p != ps[0] || d.sc != ps[1] {
				d = g.decimal()
			}
			scal = append(scal, d)
		}
	}
	for _, s := range scal {
		cases = append(cases, c14case{s, "family"})
	}
	for _, s := range scal {
		for _, large := range []bool{false, true} {
			cases = append(cases, c14case{&jd{k: "arr", large: large, kids: []*jd{s}}, "family"})
			cases = append(cases, c14case{&jd{k: "obj", large: large, keys: [][]byte{g.key()}, kids: []*jd{s}}, "family"})
		}
	}
	x.runBatch(cases)
	lap("families")

	// 3. exact depths 1..6 in all-small, all-large and mixed formats; fan-out extremes
	cases = cases[:0]
	for depth := 1; depth <= 6; depth++ {
		for rep := 0; rep < c.N(3, 20); rep++ {
			cases = append(cases,
				c14case{g.chain(depth, func(int) bool { return false }), "chain"},
				c14case{g.chain(depth, func(int) bool { return true }), "chain"},
				c14case{g.chain(depth, func(l int) bool { return l%2 == 0 }), "chain"},
				c14case{g.chain(depth, func(int) bool { return c.Rng.Bool() }), "chain"})
		}
	}
	for _, n := range []int{0, 1, 2, 39, 40} {
		for _, large := range []bool{false, true} {
			a := &jd{k: "arr", large: large}
			o := &jd{k: "obj", large: large}
			for i := 0; i < n; i++ {
				a.kids = append(a.kids, g.scalar())
				o.keys = append(o.keys, g.key())
				o.kids = append(o.kids, g.scalar())
			}
			cases = append(cases, c14case{a, "fan"}, c14case{o, "fan"})
		}
	}
	for _, cs := range cases {
		cs.d.fixFormats()
	}
	x.runBatch(cases)
	lap("chains+fan")

	// 4. random documents
	nrand := c.N(450, 12000)
	for done := 0; done < nrand; {
		cases = cases[:0]
		for k := 0; k < 200 && done < nrand; k++ {
			depth := 1 + c.Rng.Intn(6)
			fan := c.Rng.Pick(2, 4, 8, 40)
			if depth >= 4 && fan == 40 {
				fan = 12
			}
			g.longStr = 0
			d := g.doc(depth, fan, c.Rng.Pick(0, 15, 50, 100))
			d.fixFormats()
			cases = append(cases, c14case{d, "random"})
			done++
		}
		x.runBatch(cases)
	}

	lap("random")
	// 5. documents of 64 KB and more
	cases = cases[:0]
	for k := 0; k < c.N(3, 12); k++ {
		d := g.big(k)
		d.fixFormats()
		cases = append(cases, c14case{d, "big"})
	}
	x.runBatch(cases)
	if x.bigSeen < 3 {
		c.R.Add(vh.Mismatch{Kind: "selfcheck", What: "fewer than 3 documents of 64 KB or more were generated"})
	}

	lap("big")
	// 6. malformed stream
	x.malformed()
	lap("malformed")

	// 7. end to end: histories whose tables have JSON columns only (documents as row values, NULLs, partial images),
	// through parseEvents against the model and the unit-level oracle (expected cells from Spec.Values.text)
	typedHistories(c, "C14", colCasesC14, c.N(25, 400))
	lap("end-to-end")

	c.R.Notes = append(c.R.Notes,
		fmt.Sprintf("documents of >= 64 KB: %d", x.bigSeen),
		fmt.Sprintf("malformed inputs excluded because the model ran out of fuel (cyclic or over-deep offsets; the Go code does not terminate on cycles): %d", x.fuelSkip),
		fmt.Sprintf("implementation calls stopped by the watchdog: %d", x.timeouts),
		"golden blobs reproduced byte for byte by ser(document): "+strings.Join(x.goldenEq, ", "))
	if x.timeouts > 0 {
		c.R.Add(vh.Mismatch{Kind: "corr", What: "implementation did not terminate on an input on which the model does"})
	}
	c.R.Notes = append(c.R.Notes, fmt.Sprintf("oracle contract (efmt_token / efmt_injective on finite doubles) checked on %d formatted doubles, %d distinct finite texts", oracleN, len(oracleSeen)))
	if len(oracleBad) > 0 {
		c.R.Add(vh.Mismatch{Kind: "selfcheck", What: "strconv 'E' formatting violates the oracle contract assumed by C14_render_injective", Case: strings.Join(oracleBad, "; ")})
	}
}

// probeDecimalFixed: does CellBytes carry the DECIMAL repairs of C11 (D1, D2)?
func probeDecimalFixed() bool {
	v := vh.Try(func() vh.Val {
		a, _, _ := replication.CellBytes([]byte{0x80, 0, 0, 0, 0}, 0, replication.TypeNewDecimal, 10<<8, false)
		b, _, _ := replication.CellBytes([]byte{0x80, 0, 0, 0, 0, 0, 0, 5}, 0, replication.TypeNewDecimal, 18<<8, false)
		return vh.B(string(a) == "0" && string(b) == "5")
	})
	return v.Atom == "1"
}

// ---------------------------------------------------------------- malformed

func (x *c14run) malformed() {
	c := x.c
	r := c.Rng
	g := x.g
	// base documents (small, so that truncation at every length is affordable)
	var docs []*jd
	docs = append(docs,
		&jd{k: "obj", keys: [][]byte{[]byte("a"), []byte("bc")}, kids: []*jd{{k: "str", s: []byte("xyz")}, {k: "arr", kids: []*jd{{k: "i16", i: 7}, {k: "i64", i: -9}}}}},
		&jd{k: "arr", large: true, kids: []*jd{{k: "i32", i: 70000}, {k: "true"}, {k: "dbl", u: 0x400921f9f01b866e}, {k: "obj", large: true, keys: [][]byte{[]byte("k")}, kids: []*jd{{k: "u64", u: 5}}}}},
		&jd{k: "time", f: [7]int{0, 23, 24, 25, 120000}}, &jd{k: "date", f: [7]int{2015, 1, 15}},
		&jd{k: "datetime", f: [7]int{2015, 1, 15, 23, 24, 25, 0}},
		&jd{k: "dec", p: 13, sc: 4, ip: []int{1, 2, 3, 4, 5, 6, 7, 8, 9}, fp: []int{1, 2, 3, 4}},
		&jd{k: "str", s: g.plainBytes(130, false)}, &jd{k: "null"}, &jd{k: "i16", i: -2}, &jd{k: "u32", u: 9}, &jd{k: "i64", i: 1},
		&jd{k: "arr", kids: []*jd{{k: "time", f: [7]int{1, 1, 2, 3, 4}}, {k: "dec", p: 5, sc: 2, neg: true, ip: []int{1, 2, 3}, fp: []int{4, 5}}}})
	for k := 0; k < c.N(10, 60); k++ {
		d := g.doc(1+r.Intn(3), 4, r.Pick(0, 50))
		d.fixFormats()
		if d.bodyLen() < 400 {
			docs = append(docs, d)
		}
	}
	reqs := make([]vh.Val, len(docs))
	for i, d := range docs {
		reqs[i] = vh.L(vh.A("json_doc"), d.sexp())
	}
	type mcase struct {
		data []byte
		kind string
	}
	var cases []mcase
	for i, resp := range c.M.Batch(reqs) {
		data, ok := resp.Nth(1).Hex()
		if !ok {
			panic("json_doc: " + resp.String())
		}
		top := docs[i].k
		// truncation at every length
		for cut := 0; cut < len(data); cut++ {
			cases = append(cases, mcase{data[:cut], "truncate/" + top})
		}
		// extension
		cases = append(cases, mcase{append(append([]byte{}, data...), r.Bytes(1+r.Intn(5))...), "extend/" + top})
		mut := func(pos int, v byte, kind string) {
			if pos < len(data) {
				b := append([]byte{}, data...)
				b[pos] = v
				cases = append(cases, mcase{b, kind + "/" + top})
			}
		}
		// unknown / other type tags at the top
		for _, t := range []byte{13, 14, 16, 17, 100, 255} {
			mut(0, t, "toptag-unknown")
		}
		for t := byte(0); t <= 15; t++ {
			mut(0, t, "toptag-other")
		}
		// single-byte mutations everywhere (type tags of entries, literals, offsets, sizes, counts, varlen bytes)
		for pos := 1; pos < len(data); pos++ {
			vals := []byte{data[pos] + 1, data[pos] ^ 0x80, 0, 255, 13, 3, byte(r.U64())}
			if len(data) > 120 {
				vals = vals[:3]
			}
			for _, v := range vals {
				if v != data[pos] {
					mut(pos, v, "byte")
				}
			}
		}
		// declared size larger than the data (containers: bytes 3..4 / 5..8 after the type byte)
		if top == "obj" || top == "arr" {
			if docs[i].large {
				b := append([]byte{}, data...)
				copy(b[5:9], leEnc(4, len(data)+r.Intn(1000)))
				cases = append(cases, mcase{b, "size>len/" + top})
			} else {
				b := append([]byte{}, data...)
				copy(b[3:5], leEnc(2, len(data)+r.Intn(1000)))
				cases = append(cases, mcase{b, "size>len/" + top})
			}
		}
	}
	// hand-made: unknown literal, unsupported opaque types, opaque sizes
	for _, b := range [][]byte{
		{4, 3}, {4, 255}, {2, 1, 0, 7, 0, 4, 9, 0}, {15, 16, 2, 202, 254}, {15, 13, 1, 7}, {15, 10, 3, 1, 2, 3}, {15, 10, 3, 1, 2, 3, 4, 5, 6, 7, 8},
		{15, 11, 0}, {15, 12, 200, 1, 1}, {15, 246, 1, 5}, {15, 246, 2, 5, 2}, {15, 246, 3, 5, 2, 128}, {15, 246, 2, 5, 2, 128, 0, 0, 0}, {15, 246, 2, 200, 100},
		{12, 128}, {12, 129, 128, 128, 128, 128, 128, 128, 128, 128, 1, 65}, {12, 255, 255, 255, 255, 255, 255, 255, 255, 255, 1}, {12, 5, 65},
		{2, 1, 0, 200, 0, 4, 0, 0}, {0, 1, 0, 200, 0, 11, 0, 1, 0, 4, 0, 0, 97}, {3, 1, 0, 0, 0, 9, 0, 0, 0}, {0}, {1}, {2}, {3}, {5}, {11}, {12}, {15},
	} {
		cases = append(cases, mcase{b, "handmade"})
	}

	mreqs := make([]vh.Val, len(cases))
	for i, cs := range cases {
		mreqs[i] = vh.L(vh.A("json_raw"), vh.X(cs.data))
	}
	resps := c.M.Batch(mreqs)
	srv := &implServer{}
	defer srv.stop()
	fuelProbe := map[string]int{}
	fatal := 0
	var fatalSample string
	for i, cs := range cases {
		model := resps[i]
		if model.Nth(0).Atom == "err" && model.Nth(1).Atom == "out_of_fuel" {
			// cyclic / over-deep offsets: the Go code does not terminate; not compared.
			// A few are handed to the isolated implementation to record what it does.
			x.fuelSkip++
			c.R.Dist["malformed:out_of_fuel"]++
			if x.fuelSkip <= 4 {
				fuelProbe[outcomeClass(srv.call(cs.data))]++
			}
			continue
		}
		mo := substOutcomeJSON(model)
		iv := srv.call(cs.data)
		ir := implRes{v: iv, timeout: outcomeClass(iv) == "timeout"}
		if ir.timeout {
			x.timeouts++
		}
		mc, ic := outcomeClass(mo), outcomeClass(ir.v)
		if ic == "fatal" {
			// unrecoverable runtime error (allocation of elementCount slices, ...): recorded, not compared
			fatal++
			c.R.Dist["malformed:impl-fatal/model-"+mc]++
			if fatalSample == "" {
				fatalSample = mreqs[i].String() + " model=" + showText(mo)
			}
			c.R.Count("malformed/" + cs.kind + "/impl-fatal")
			continue
		}
		c.R.Count("malformed/" + cs.kind + "/" + mc)
		if mc != ic {
			c.R.Add(vh.Mismatch{Kind: "corr", What: "outcome class (ok/err/panic) differs from the model on a malformed input",
				Case: mreqs[i].String(), Model: showText(mo), Impl: showText(ir.v), InDomain: false})
		} else if mc == "ok" && mo.String() != ir.v.String() {
			c.R.Add(vh.Mismatch{Kind: "corr", What: "printed text differs from the model on a malformed input that both accept",
				Case: mreqs[i].String(), Model: showText(mo), Impl: showText(ir.v), InDomain: false})
		}
		if i%1499 == 0 {
			c.R.Sample(mreqs[i].String())
		}
	}
	c.R.Notes = append(c.R.Notes,
		fmt.Sprintf("malformed inputs on which the implementation died with an unrecoverable runtime error (e.g. make([][]byte, elementCount) with a count read from garbage in a large-format object: fatal out of memory) where the model answers panic/err: %d (first: %s); observation outside C14's domain", fatal, trunc14(fatalSample, 300)),
		fmt.Sprintf("implementation (isolated) on the first out-of-fuel inputs: %v", fuelProbe))
}

func trunc14(s string, n int) string {
	if len(s) <= n {
		return s
	}
	return s[:n] + "..."
}

// ---------------------------------------------------------------- golden anchors (replication/binlog_event_json_test.go, TestJSON)

type goldenCase struct {
	data     []byte
	expected string
	isErr    bool
	doc      *jd // a document whose ser must equal data (nil: none exists)
}

func jstr(s string) *jd { return &jd{k: "str", s: []byte(s)} }
func ji16(v int64) *jd  { return &jd{k: "i16", i: v} }
func jobj(kv ...interface{}) *jd {
	d := &jd{k: "obj"}
	for i := 0; i < len(kv); i += 2 {
		d.keys = append(d.keys, []byte(kv[i].(string)))
		d.kids = append(d.kids, kv[i+1].(*jd))
	}
	return d
}
func jarr(vs ...*jd) *jd { return &jd{k: "arr", kids: vs} }

const scopes = "AAAAAAAAAAAAAAAAAAAAAAAAAAAAABAAAAAAAAAAAAAAAAAAAAAAAAAAAAAAAAAAAAAAAAABAAAAAAAAAAAAAAAAAEAAAAAAEAAAAAA8AAABgAAAAAABAAAACAAAAAAAAA"

func goldenTable() []goldenCase {
	rep10 := strings.Repeat("scalar string", 10)
	return []goldenCase{
		{data: []byte{}, expected: `'null'`},
		{data: []byte{0, 1, 0, 14, 0, 11, 0, 1, 0, 12, 12, 0, 97, 1, 98}, expected: `JSON_OBJECT('a','b')`, doc: jobj("a", jstr("b"))},
		{data: []byte{0, 1, 0, 12, 0, 11, 0, 1, 0, 5, 2, 0, 97}, expected: `JSON_OBJECT('a',2)`, doc: jobj("a", ji16(2))},
		{data: []byte{0, 1, 0, 29, 0, 11, 0, 4, 0, 0, 15, 0, 97, 115, 100, 102, 1, 0, 14, 0, 11, 0, 3, 0, 5, 123, 0, 102, 111, 111},
			expected: `JSON_OBJECT('asdf',JSON_OBJECT('foo',123))`, doc: jobj("asdf", jobj("foo", ji16(123)))},
		{data: []byte{2, 2, 0, 10, 0, 5, 1, 0, 5, 2, 0}, expected: `JSON_ARRAY(1,2)`, doc: jarr(ji16(1), ji16(2))},
		{data: []byte{0, 4, 0, 60, 0, 32, 0, 1, 0, 33, 0, 1, 0, 34, 0, 2, 0, 36, 0, 2, 0, 12, 38, 0, 12, 40, 0, 12, 42, 0, 2, 46, 0, 97, 99, 97, 98, 98, 99, 1, 98, 1, 100, 3, 97, 98, 99, 2, 0, 14, 0, 12, 10, 0, 12, 12, 0, 1, 120, 1, 121},
			expected: `JSON_OBJECT('a','b','c','d','ab','abc','bc',JSON_ARRAY('x','y'))`,
			doc:      jobj("a", jstr("b"), "c", jstr("d"), "ab", jstr("abc"), "bc", jarr(jstr("x"), jstr("y")))},
		{data: []byte{2, 3, 0, 37, 0, 12, 13, 0, 2, 18, 0, 12, 33, 0, 4, 104, 101, 114, 101, 2, 0, 15, 0, 12, 10, 0, 12, 12, 0, 1, 73, 2, 97, 109, 3, 33, 33, 33},
			expected: `JSON_ARRAY('here',JSON_ARRAY('I','am'),'!!!')`, doc: jarr(jstr("here"), jarr(jstr("I"), jstr("am")), jstr("!!!"))},
		{data: []byte{12, 13, 115, 99, 97, 108, 97, 114, 32, 115, 116, 114, 105, 110, 103}, expected: `'"scalar string"'`, doc: jstr("scalar string")},
		{data: append([]byte{0, 1, 0, 149, 0, 11, 0, 6, 0, 12, 17, 0, 115, 99, 111, 112, 101, 115, 130, 1}, []byte(scopes)...),
			expected: `JSON_OBJECT('scopes','` + scopes + `')`, doc: jobj("scopes", jstr(scopes))},
		{data: append([]byte{12, 130, 1}, []byte(rep10)...), expected: `'"` + rep10 + `"'`, doc: jstr(rep10)},
		{data: []byte{4, 1}, expected: `'true'`, doc: &jd{k: "true"}},
		{data: []byte{4, 2}, expected: `'false'`, doc: &jd{k: "false"}},
		{data: []byte{4, 0}, expected: `'null'`, doc: &jd{k: "null"}},
		{data: []byte{5, 255, 255}, expected: `'-1'`, doc: ji16(-1)},
		{data: []byte{6, 1, 0}, expected: `'1'`, doc: &jd{k: "u16", u: 1}},
		{data: []byte{5, 255, 127}, expected: `'32767'`, doc: ji16(32767)},
		{data: []byte{7, 0, 128, 0, 0}, expected: `'32768'`, doc: &jd{k: "i32", i: 32768}},
		{data: []byte{5, 0, 128}, expected: `'-32768'`, doc: ji16(-32768)},
		{data: []byte{7, 255, 127, 255, 255}, expected: `'-32769'`, doc: &jd{k: "i32", i: -32769}},
		{data: []byte{7, 255, 255, 255, 127}, expected: `'2147483647'`, doc: &jd{k: "i32", i: 2147483647}},
		{data: []byte{9, 0, 0, 0, 128, 0, 0, 0, 0}, expected: `'2147483648'`, doc: &jd{k: "i64", i: 2147483648}},
		{data: []byte{7, 0, 0, 0, 128}, expected: `'-2147483648'`, doc: &jd{k: "i32", i: -2147483648}},
		{data: []byte{9, 255, 255, 255, 127, 255, 255, 255, 255}, expected: `'-2147483649'`, doc: &jd{k: "i64", i: -2147483649}},
		{data: []byte{10, 255, 255, 255, 255, 255, 255, 255, 255}, expected: `'18446744073709551615'`, doc: &jd{k: "u64", u: math.MaxUint64}},
		{data: []byte{9, 0, 0, 0, 0, 0, 0, 0, 128}, expected: `'-9223372036854775808'`, doc: &jd{k: "i64", i: math.MinInt64}},
		{data: []byte{11, 110, 134, 27, 240, 249, 33, 9, 64}, expected: `'3.14159E+00'`, doc: &jd{k: "dbl", u: 0x400921f9f01b866e}},
		{data: []byte{0, 0, 0, 4, 0}, expected: `JSON_OBJECT()`, doc: jobj()},
		{data: []byte{2, 0, 0, 4, 0}, expected: `JSON_ARRAY()`, doc: jarr()},
		{data: []byte{15, 12, 8, 0, 0, 0, 25, 118, 31, 149, 25}, expected: `CAST(CAST('2015-01-15 23:24:25' AS DATETIME(6)) AS JSON)`,
			doc: &jd{k: "datetime", f: [7]int{2015, 1, 15, 23, 24, 25, 0}}},
		{data: []byte{15, 11, 8, 0, 0, 0, 25, 118, 1, 0, 0}, expected: `CAST(CAST('23:24:25' AS TIME(6)) AS JSON)`, doc: &jd{k: "time", f: [7]int{0, 23, 24, 25, 0}}},
		{data: []byte{15, 11, 8, 192, 212, 1, 25, 118, 1, 0, 0}, expected: `CAST(CAST('23:24:25.120000' AS TIME(6)) AS JSON)`, doc: &jd{k: "time", f: [7]int{0, 23, 24, 25, 120000}}},
		{data: []byte{15, 10, 8, 0, 0, 0, 0, 0, 30, 149, 25}, expected: `CAST(CAST('2015-01-15' AS DATE) AS JSON)`, doc: &jd{k: "date", f: [7]int{2015, 1, 15}}},
		{data: []byte{15, 246, 8, 13, 4, 135, 91, 205, 21, 4, 210}, expected: `CAST(CAST('123456789.1234' AS DECIMAL(13,4)) AS JSON)`,
			doc: &jd{k: "dec", p: 13, sc: 4, ip: []int{1, 2, 3, 4, 5, 6, 7, 8, 9}, fp: []int{1, 2, 3, 4}}},
		{data: []byte{15, 16, 2, 202, 254}, isErr: true, expected: `opaque type 16 is not supported yet`},
	}
}

func (x *c14run) golden() {
	c := x.c
	tab := goldenTable()
	var reqs []vh.Val
	for _, gc := range tab {
		reqs = append(reqs, vh.L(vh.A("json_raw"), vh.X(gc.data)))
	}
	resps := c.M.Batch(reqs)
	for i, gc := range tab {
		c.R.Count("golden/model")
		want := vh.Ok(vh.X([]byte(gc.expected)))
		if gc.isErr {
			want = vh.ErrV("json")
		}
		got := substOutcomeJSON(resps[i])
		if got.String() != want.String() {
			c.R.Add(vh.Mismatch{Kind: "selfcheck", What: "model does not print the text recorded for a captured server blob (TestJSON)",
				Case: reqs[i].String(), Expected: showText(want), Model: showText(got), InDomain: true})
		}
		ir := implPrint(gc.data)
		if ir.v.String() != want.String() {
			c.R.Add(vh.Mismatch{Kind: "spec", What: "implementation does not print the text recorded for a captured server blob (TestJSON)",
				Case: reqs[i].String(), Expected: showText(want), Impl: showText(ir.v), InDomain: true})
		}
	}
	// documents whose serialisation must be the captured blob
	reqs = reqs[:0]
	var idx []int
	for i, gc := range tab {
		if gc.doc != nil {
			reqs = append(reqs, vh.L(vh.A("json_doc"), gc.doc.sexp()))
			idx = append(idx, i)
		}
	}
	resps = c.M.Batch(reqs)
	eq := 0
	for k, i := range idx {
		c.R.Count("golden/ser")
		data, _ := resps[k].Nth(1).Hex()
		if bytes.Equal(data, tab[i].data) && resps[k].Nth(0).Atom == "1" {
			eq++
			x.goldenEq = append(x.goldenEq, strconv.Itoa(i))
		} else {
			c.R.Add(vh.Mismatch{Kind: "selfcheck", What: "ser(document) is not the captured server blob (TestJSON)",
				Case: reqs[k].String(), Expected: vh.X(tab[i].data).String(), Model: resps[k].Nth(1).String(), InDomain: true})
		}
	}
	c.R.Notes = append(c.R.Notes, fmt.Sprintf("golden anchors: %d TestJSON blobs replayed through the model; ser(document) equals the blob byte for byte for %d of %d blobs that denote a document (the empty value and the unsupported opaque BIT have none)", len(tab), eq, len(idx)))
}

// ---------------------------------------------------------------- replay

func (x *c14run) replay(path string) {
	c := x.c
	raw, err := os.ReadFile(path)
	if err != nil {
		panic(err)
	}
	var rp struct {
		Mismatch vh.Mismatch `json:"mismatch"`
	}
	if err := json.Unmarshal(raw, &rp); err != nil {
		panic(err)
	}
	req, perr := vh.Parse(rp.Mismatch.Case)
	if perr != nil {
		panic("replay: cannot parse the recorded case (truncated?): " + perr.Error())
	}
	resp := c.M.Call(req)
	switch req.Nth(0).Atom {
	case "json_doc":
		data, _ := resp.Nth(1).Hex()
		renderRaw, _ := resp.Nth(2).Hex()
		want := vh.Ok(vh.X(substE64(renderRaw)))
		model := substOutcomeJSON(resp.Nth(3))
		ir := implPrint(data)
		c.R.Count("replay")
		fmt.Printf("document : %s\nbytes    : %s\nexpected : %s\nmodel    : %s\nimpl     : %s\n", req.Nth(1).String(), vh.X(data).String(), showText(want), showText(model), showText(ir.v))
		if ir.v.String() != want.String() {
			c.R.Add(vh.Mismatch{Kind: "spec", What: "printJSONData(ser(document)) differs from render(document)", Case: req.String(),
				Input: vh.X(data).String(), Expected: showText(want), Model: showText(model), Impl: showText(ir.v), InDomain: true})
		}
		if ir.v.String() != model.String() {
			c.R.Add(vh.Mismatch{Kind: "corr", What: "printJSONData differs from the model on a serialised document", Case: req.String(),
				Model: showText(model), Impl: showText(ir.v), InDomain: true})
		}
	case "json_raw":
		data, _ := req.Nth(1).Hex()
		mo := substOutcomeJSON(resp)
		c.R.Count("replay")
		if mo.Nth(0).Atom == "err" && resp.Nth(1).Atom == "out_of_fuel" {
			fmt.Println("model: out of fuel; implementation not called")
			return
		}
		ir := implPrint(data)
		fmt.Printf("bytes : %s\nmodel : %s\nimpl  : %s\n", vh.X(data).String(), showText(mo), showText(ir.v))
		if outcomeClass(mo) != outcomeClass(ir.v) {
			c.R.Add(vh.Mismatch{Kind: "corr", What: "outcome class (ok/err/panic) differs from the model on a malformed input",
				Case: req.String(), Model: showText(mo), Impl: showText(ir.v)})
		}
	default:
		panic("replay: unknown case " + req.String())
	}
}


// longStrings: strings whose length prefix takes four bytes (2 MiB and more), at top level and as the first of two
// members of a large-format array.  Documents of this size are not pushed through the model (tens of megabytes of
// S-expression); the serialisation and the expected text are built here, and the builder is checked against the
// model on small instances first (a string of 3 and of 200 bytes), so that what is compared for the long ones is the
// same formula the model confirmed for the short ones.
func (x *c14run) longStrings() {
	c := x.c
	varlen := func(n int) []byte {
		var b []byte
		for {
			d := byte(n & 0x7f)
			n >>= 7
			if n == 0 {
				return append(b, d)
			}
			b = append(b, d|0x80)
		}
	}
	content := func(n int) []byte {
		b := make([]byte, n)
		for i := range b {
			b[i] = "abcdefghijklmnopqrstuvwxyz0123456789"[i%36]
		}
		return b
	}
	top := func(n int) ([]byte, []byte) {
		s := content(n)
		return append(append([]byte{0x0c}, varlen(n)...), s...), append(append([]byte(`'"`), s...), `"'`...)
	}
	arr := func(n int) ([]byte, []byte) {
		// large array of two strings: count(4) size(4) 2 x (type, offset(4)) then the values
		s, tail := content(n), []byte("tail")
		v0 := append(varlen(n), s...)
		v1 := append(varlen(len(tail)), tail...)
		hdr := 4 + 4 + 2*5
		body := append(append(leEnc(4, 2), leEnc(4, hdr+len(v0)+len(v1))...), 0x0c)
		body = append(append(body, leEnc(4, hdr)...), 0x0c)
		body = append(body, leEnc(4, hdr+len(v0))...)
		body = append(append(body, v0...), v1...)
		exp := append(append([]byte(`JSON_ARRAY('`), s...), `','tail')`...)
		return append([]byte{0x03}, body...), exp
	}
	builders := []struct {
		name string
		f    func(int) ([]byte, []byte)
	}{{"top-level string", top}, {"first member of a large array", arr}}
	for _, b := range builders {
		okSmall := true
		for _, n := range []int{3, 200} {
			data, exp := b.f(n)
			m := substOutcomeJSON(c.M.Call(vh.L(vh.A("json_raw"), vh.X(data))))
			if m.String() != vh.Ok(vh.X(exp)).String() {
				okSmall = false
				c.R.Notes = append(c.R.Notes, fmt.Sprintf("long strings: the %s builder disagrees with the model on %d bytes (%s); long instances skipped", b.name, n, showText(m)))
			}
		}
		if !okSmall {
			continue
		}
		lens := []int{1<<21 - 1, 1 << 21, 3<<20 + 17, 4 << 20, 5<<20 + 12345, 6<<20 - 1, 8 << 20}
		if c.Thorough() {
			lens = append(lens, 1<<22+1, 12<<20+7, 16<<20, 1<<25+3)
		}
		for _, n := range lens {
			data, exp := b.f(n)
			got := vh.Try(func() vh.Val {
				t, err := replication.VerifPrintJSONData(data)
				return jsonOutcome(t, err)
			})
			c.R.Count(fmt.Sprintf("long-string/%s/prefix%dbytes", b.name, len(varlen(n))))
			ok := got.Nth(0).Atom == "ok"
			var text []byte
			if ok {
				text, _ = got.Nth(1).Hex()
			}
			if !ok || !bytes.Equal(text, exp) {
				first := 0
				for first < len(text) && first < len(exp) && text[first] == exp[first] {
					first++
				}
				c.R.Add(vh.Mismatch{Kind: "spec", What: "printJSONData(ser(document)) differs from render(document) (a string of 2 MiB or more)",
					Case:     fmt.Sprintf("%s, %d bytes of text (length prefix x%x)", b.name, n, varlen(n)),
					Expected: fmt.Sprintf("%d bytes", len(exp)), Impl: fmt.Sprintf("%s, %d bytes, first difference at byte %d", got.Nth(0).Atom, len(text), first), InDomain: true})
				break
			}
		}
	}
}
