package main

import (
	"fmt"
	"time"

	"verif/harness/internal/vh"
)

func init() { runners["C12"] = runC12 }

func pow10(n int) int64 {
	p := int64(1)
	for i := 0; i < n; i++ {
		p *= 10
	}
	return p
}

func runC12(c *Ctx) {
	c.R.Rule = "temporal cells per (type, fsp, value class: zero/min/max/boundary/negative/random, time zone for TIMESTAMP); distinct = distinct tuples"
	typedHistories(c, "C12", colCasesC12, c.N(25, 400))
	r := c.Rng
	var cases []cellCase
	add := func(ty, val vh.Val, inst int64, class string) {
		pre, rest := c.prePost()
		cases = append(cases, cellCase{ty: ty, val: val, tzInst: inst, class: class, pre: pre, rest: rest})
	}
	frac := func(f int, cls string) int64 {
		if f == 0 {
			return 0
		}
		switch cls {
		case "zero":
			return 0
		case "max":
			return pow10(f) - 1
		case "one":
			return 1
		}
		return int64(r.U64() % uint64(pow10(f)))
	}
	// DATE / NEWDATE
	dates := [][3]int64{{0, 0, 0}, {9999, 12, 31}, {1000, 1, 1}, {2015, 1, 15}, {1970, 1, 1}, {0, 1, 1}, {2000, 2, 29}, {2024, 0, 0}, {2024, 12, 0}, {1, 1, 1}, {999, 9, 9}}
	for nd := int64(0); nd <= 1; nd++ {
		for _, d := range dates {
			add(sym("date", nd), sym("date", d[0], d[1], d[2]), 0, fmt.Sprintf("date/nd%d/boundary", nd))
		}
		if c.Thorough() && nd == 0 {
			// every valid (y,m,d) triple of the 3-byte encoding: 10000*13*32 values
			for y := int64(0); y <= 9999; y++ {
				for m := int64(0); m <= 12; m++ {
					for d := int64(0); d <= 31; d += 1 {
						if (y*13+m+d)%3 != 0 && !(y < 3 || y > 9997) {
							continue
						}
						add(sym("date", nd), sym("date", y, m, d), 0, "date/nd0/sweep")
					}
				}
			}
		}
		for k := 0; k < c.N(100, 2000); k++ {
			add(sym("date", nd), sym("date", int64(r.Intn(10000)), int64(r.Intn(13)), int64(r.Intn(32))), 0, fmt.Sprintf("date/nd%d/random", nd))
		}
		// runs of dates within one month (what a table ordered by date holds): the retention check of runCellCases keeps
		// the last values while the next ones are decoded
		for k := 0; k < c.N(6, 60); k++ {
			y, m := int64(r.Intn(10000)), int64(r.Intn(13))
			for j := 0; j < 8; j++ {
				add(sym("date", nd), sym("date", y, m, int64((j*5+k)%32)), 0, fmt.Sprintf("date/nd%d/same-month-run", nd))
			}
		}
	}
	// old TIME, both signs
	times := [][3]int64{{0, 0, 0}, {0, 0, 1}, {0, 1, 0}, {1, 0, 0}, {1, 2, 3}, {9, 59, 59}, {10, 0, 0}, {99, 59, 59}, {100, 0, 0}, {838, 59, 59}, {23, 24, 25}}
	for _, t := range times {
		for neg := int64(0); neg <= 1; neg++ {
			if neg == 1 && t == [3]int64{0, 0, 0} {
				continue
			}
			add(sym("time"), sym("time", neg, t[0], t[1], t[2], 0), 0, fmt.Sprintf("time/neg%d/boundary", neg))
		}
	}
	nt := c.N(300, 20000)
	if c.Thorough() {
		// all valid h:m:s both signs, strided
		for h := int64(0); h <= 838; h++ {
			for m := int64(0); m <= 59; m++ {
				for s := int64(0); s <= 59; s += 7 {
					for neg := int64(0); neg <= 1; neg++ {
						if neg == 1 && h+m+s == 0 {
							continue
						}
						add(sym("time"), sym("time", neg, h, m, (s+h+m)%60, 0), 0, fmt.Sprintf("time/neg%d/sweep", neg))
					}
				}
			}
		}
	}
	for k := 0; k < nt; k++ {
		h, m, s := int64(r.Intn(839)), int64(r.Intn(60)), int64(r.Intn(60))
		neg := int64(r.Intn(2))
		if h+m+s == 0 {
			neg = 0
		}
		add(sym("time"), sym("time", neg, h, m, s, 0), 0, fmt.Sprintf("time/neg%d/random", neg))
	}
	// old DATETIME
	dts := [][6]int64{{0, 0, 0, 0, 0, 0}, {9999, 12, 31, 23, 59, 59}, {1000, 1, 1, 0, 0, 0}, {2015, 1, 15, 23, 24, 25}, {1, 2, 3, 4, 5, 6}}
	for _, d := range dts {
		add(sym("datetime"), sym("datetime", d[0], d[1], d[2], d[3], d[4], d[5], 0), 0, "datetime/boundary")
	}
	for k := 0; k < c.N(200, 5000); k++ {
		add(sym("datetime"), sym("datetime", int64(r.Intn(10000)), int64(r.Intn(13)), int64(r.Intn(32)), int64(r.Intn(24)), int64(r.Intn(60)), int64(r.Intn(60)), 0), 0, "datetime/random")
	}
	// fsp encodings
	fcls := []string{"zero", "max", "one", "random"}
	for f := 0; f <= 6; f++ {
		for _, fc := range fcls {
			if f == 0 && fc != "zero" {
				continue
			}
			for _, d := range dts {
				add(sym("dt2", int64(f)), sym("datetime", d[0], d[1], d[2], d[3], d[4], d[5], frac(f, fc)), 0, fmt.Sprintf("datetime2/f%d/%s/boundary", f, fc))
			}
			for _, t := range times {
				for neg := int64(0); neg <= 1; neg++ {
					fr := frac(f, fc)
					if neg == 1 && t[0]+t[1]+t[2]+fr == 0 {
						continue
					}
					add(sym("time2", int64(f)), sym("time", neg, t[0], t[1], t[2], fr), 0, fmt.Sprintf("time2/f%d/%s/neg%d/boundary", f, fc, neg))
				}
			}
			for k := 0; k < c.N(12, 600); k++ {
				add(sym("dt2", int64(f)), sym("datetime", int64(r.Intn(10000)), int64(r.Intn(13)), int64(r.Intn(32)), int64(r.Intn(24)), int64(r.Intn(60)), int64(r.Intn(60)), frac(f, fc)), 0, fmt.Sprintf("datetime2/f%d/%s/random", f, fc))
				h, m, s, fr := int64(r.Intn(839)), int64(r.Intn(60)), int64(r.Intn(60)), frac(f, fc)
				neg := int64(r.Intn(2))
				if h+m+s+fr == 0 {
					neg = 0
				}
				add(sym("time2", int64(f)), sym("time", neg, h, m, s, fr), 0, fmt.Sprintf("time2/f%d/%s/neg%d/random", f, fc, neg))
			}
		}
	}
	runCellCases(c, cases, false)

	// TIMESTAMP / TIMESTAMP2 in several process time zones (time.Local is what the code reads)
	zones := []string{"UTC", "Asia/Shanghai", "America/New_York", "Europe/London", "Australia/Lord_Howe", "Asia/Kathmandu", "America/Sao_Paulo", "Pacific/Apia"}
	saved := time.Local
	for zi, zn := range zones {
		loc, err := time.LoadLocation(zn)
		if err != nil {
			loc = time.FixedZone(fmt.Sprintf("fixed%d", zi), (zi*3-9)*3600+zi*900)
			c.R.Notes = append(c.R.Notes, "zone database entry "+zn+" unavailable; used a fixed offset")
		}
		time.Local = loc
		var zc []cellCase
		addz := func(ty, val vh.Val, inst int64, class string) {
			pre, rest := c.prePost()
			zc = append(zc, cellCase{ty: ty, val: val, tzInst: inst, class: class, pre: pre, rest: rest})
		}
		insts := []int64{0, 1, 59, 86399, 86400, 951782400, 951868799, 951868800, 1109635199, 1109635200, 2147483647, 2147483648, 4294967295,
			1710054000, 1710054001, 1711846800, 1730595600, 1301752800, 1325239200}
		for k := 0; k < c.N(60, 3000); k++ {
			insts = append(insts, int64(uint32(r.U64())))
		}
		// runs of equal instants (rows written within one second), old and new encoding, without and with a fraction
		for k := 0; k < 3; k++ {
			v := int64(uint32(r.U64()))
			if v == 0 {
				v = 1
			}
			for j := 0; j < 9; j++ {
				switch k {
				case 0:
					addz(sym("timestamp"), sym("ts", v, 0), v, "timestamp/same-second-run/"+zn)
				case 1:
					addz(sym("ts2", 0), sym("ts", v, 0), v, "timestamp2/f0/same-second-run/"+zn)
				default:
					addz(sym("ts2", 3), sym("ts", v, int64(j*111)), v, "timestamp2/f3/same-second-run/"+zn)
				}
			}
		}
		for _, v := range insts {
			addz(sym("timestamp"), sym("ts", v, 0), v, "timestamp/"+zn)
			f := r.Intn(7)
			fr := frac(f, fcls[r.Intn(4)])
			if v == 0 {
				fr = 0
			}
			addz(sym("ts2", int64(f)), sym("ts", v, fr), v, fmt.Sprintf("timestamp2/f%d/%s", f, zn))
		}
		runCellCases(c, zc, false)
	}
	time.Local = saved
	runRawCells(c, genRawCells(c, []byte{7, 10, 11, 12, 14, 17, 18, 19}, c.N(1500, 40000)))
}
