package main

import (
	"fmt"

	"verif/harness/internal/vh"
)

func init() { runners["C11"] = runC11 }

func decCase(c *Ctx, p, s int, neg bool, ip, fp []int, class string) cellCase {
	pre, rest := c.prePost()
	iv := make([]vh.Val, len(ip))
	for i, d := range ip {
		iv[i] = vh.I(int64(d))
	}
	fv := make([]vh.Val, len(fp))
	for i, d := range fp {
		fv[i] = vh.I(int64(d))
	}
	return cellCase{ty: sym("dec", int64(p), int64(s)), val: vh.L(vh.A("dec"), vh.B(neg), vh.L(iv...), vh.L(fv...)),
		class: fmt.Sprintf("decimal/intg%d.%d/frac%d.%d/%s", (p-s)/9, btoi((p-s)%9 != 0), s/9, btoi(s%9 != 0), class), pre: pre, rest: rest}
}

func btoi(b bool) int {
	if b {
		return 1
	}
	return 0
}

// decimalCases: digit patterns of the property's quantifier for one (p,s).
func decimalCases(c *Ctx, p, s int, nrand int) []cellCase {
	r := c.Rng
	ni := p - s
	var out []cellCase
	mk := func(f func(i int) int, n int) []int {
		l := make([]int, n)
		for i := range l {
			l[i] = f(i)
		}
		return l
	}
	zeros := func(n int) []int { return mk(func(int) int { return 0 }, n) }
	nines := func(n int) []int { return mk(func(int) int { return 9 }, n) }
	isZero := func(a, b []int) bool {
		for _, d := range append(append([]int{}, a...), b...) {
			if d != 0 {
				return false
			}
		}
		return true
	}
	add := func(ip, fp []int, class string) {
		for _, neg := range []bool{false, true} {
			if neg && isZero(ip, fp) {
				continue
			}
			sign := "pos"
			if neg {
				sign = "neg"
			}
			out = append(out, decCase(c, p, s, neg, ip, fp, class+"/"+sign))
		}
	}
	add(zeros(ni), zeros(s), "allzero")
	add(nines(ni), nines(s), "allnines")
	if ni > 0 {
		ip := zeros(ni)
		ip[ni-1] = 5
		add(ip, zeros(s), "lowdigit")
		ip = zeros(ni)
		ip[0] = 1
		add(ip, zeros(s), "highdigit")
	}
	if s > 0 {
		fp := zeros(s)
		fp[s-1] = 7
		add(zeros(ni), fp, "lowfrac")
		fp = zeros(s)
		fp[0] = 3
		add(zeros(ni), fp, "highfrac")
	}
	// each 9-digit group of the integer part non-zero alone (others zero), and zero alone (others nine)
	lead := ni % 9
	for g := 0; g*9+lead < ni || (g == 0 && lead > 0); g++ {
		lo, hi := 0, lead
		if g > 0 || lead == 0 {
			off := lead
			gg := g
			if lead > 0 {
				gg = g - 1
			}
			lo, hi = off+gg*9, off+gg*9+9
		}
		if hi > ni {
			break
		}
		ip := zeros(ni)
		ip[hi-1] = 1 + r.Intn(9)
		add(ip, zeros(s), "groupnonzero")
		ip = nines(ni)
		for i := lo; i < hi; i++ {
			ip[i] = 0
		}
		add(ip, nines(s), "groupzero")
		ip = zeros(ni)
		for i := lo; i < hi; i++ {
			ip[i] = 9
		}
		add(ip, zeros(s), "groupfull")
	}
	// the 32-bit words of the integer part add up to exactly 2^32 or 2^33 (a sum of the words that wraps to zero says
	// nothing about the words): needs five full 9-digit groups or more
	if full := (ni - lead) / 9; full >= 5 {
		for _, target := range []int64{1 << 32, 1 << 33} {
			for try := 0; try < 40; try++ {
				words := make([]int64, full)
				var sum int64
				leadVal := int64(0)
				if lead > 0 {
					leadVal = int64(r.Intn(int(pow10(lead))))
				}
				sum = leadVal
				for i := 0; i < full-1; i++ {
					words[i] = 500000000 + int64(r.Intn(500000000))
					if target > 1<<32 || full > 5 {
						words[i] = int64(r.Intn(1000000000))
					}
					sum += words[i]
				}
				last := target - sum
				if last < 0 || last > 999999999 {
					continue
				}
				words[full-1] = last
				r.Shuffle(full, func(a, b int) { words[a], words[b] = words[b], words[a] })
				ip := make([]int, 0, ni)
				ds := fmt.Sprintf("%0*d", lead, leadVal)
				if lead == 0 {
					ds = ""
				}
				for _, w := range words {
					ds += fmt.Sprintf("%09d", w)
				}
				for _, ch := range ds {
					ip = append(ip, int(ch-'0'))
				}
				add(ip, mk(func(int) int { return r.Intn(10) }, s), "wordsum2^32")
				break
			}
		}
	}
	for k := 0; k < nrand; k++ {
		ip := mk(func(int) int { return r.Intn(10) }, ni)
		fp := mk(func(int) int { return r.Intn(10) }, s)
		// leading zeros of random length
		z := 0
		if ni > 0 {
			z = r.Intn(ni + 1)
		}
		for i := 0; i < z; i++ {
			ip[i] = 0
		}
		add(ip, fp, "random")
	}
	return out
}

func runC11(c *Ctx) {
	c.R.Rule = "all valid DECIMAL(p,s) pairs (p 1..65, s 0..min(30,p)) x digit patterns {all zeros, all nines, single low/high digit, each 9-digit group zero/non-zero/full, random with random leading zeros} x sign; distinct = (group structure, pattern, sign) tuples"
	typedHistories(c, "C11", colCasesC11, c.N(25, 400))
	var cases []cellCase
	pairs := 0
	for p := 1; p <= 65; p++ {
		for s := 0; s <= 30 && s <= p; s++ {
			pairs++
			// quick: every pair gets the structured patterns, random ones on a subset
			nr := 0
			if c.Thorough() {
				nr = 6
			} else if (p*31+s)%7 == int(c.Seed%7) {
				nr = 2
			}
			cs := decimalCases(c, p, s, nr)
			if !c.Thorough() {
				// thin out: keep all patterns for a third of the pairs, the zero/low-digit ones for all
				keep := cs[:0]
				for _, x := range cs {
					if (p+s)%3 == int(c.Seed%3) || containsAny(x.class, "allzero", "lowdigit", "lowfrac", "groupnonzero", "wordsum2^32") {
						keep = append(keep, x)
					}
				}
				cs = keep
			}
			cases = append(cases, cs...)
		}
	}
	c.R.Dist["decimal_pairs"] = pairs
	runCellCases(c, cases, false)
	runRawCells(c, genRawCells(c, []byte{246}, c.N(1500, 30000)))
}

func containsAny(s string, subs ...string) bool {
	for _, x := range subs {
		if len(x) > 0 && (len(s) >= len(x)) {
			for i := 0; i+len(x) <= len(s); i++ {
				if s[i:i+len(x)] == x {
					return true
				}
			}
		}
	}
	return false
}
