package main

import (
	"encoding/binary"
	"fmt"
	gobinlog "github.com/Breeze0806/gobinlog"

	"github.com/Breeze0806/gobinlog/replication"
	"verif/harness/internal/vh"
)

func init() { runners["C17"] = runC17 }

type hdrAcc interface {
	Type() byte
	Flags() uint16
	Timestamp() uint32
	ServerID() uint32
	Length() uint32
	NextPosition() int64
}

// implHeader runs IsValid and every header accessor of the implementation.
func implHeader(buf []byte) vh.Val {
	ev := replication.NewMysql56BinlogEvent(vh.Exact(buf))
	acc := ev.(hdrAcc)
	return vh.L(
		vh.Try(func() vh.Val { return vh.Ok(vh.B(ev.IsValid())) }),
		vh.Try(func() vh.Val { return vh.Ok(vh.I(int64(acc.Type()))) }),
		vh.Try(func() vh.Val { return vh.Ok(vh.I(int64(acc.Flags()))) }),
		vh.Try(func() vh.Val { return vh.Ok(vh.I(int64(acc.Timestamp()))) }),
		vh.Try(func() vh.Val { return vh.Ok(vh.I(int64(acc.ServerID()))) }),
		vh.Try(func() vh.Val { return vh.Ok(vh.I(int64(acc.Length()))) }),
		vh.Try(func() vh.Val { return vh.Ok(vh.I(acc.NextPosition())) }),
	)
}

func runC17(c *Ctx) {
	c.R.Rule = "byte strings by (length class, relation of the length field to the real length); distinct = distinct (length class, relation, source) triples; trivial = empty buffer"
	type cs struct {
		buf   []byte
		class string
	}
	var cases []cs
	r := c.Rng
	lenClass := func(n int) string {
		switch {
		case n == 0:
			return "len0"
		case n < 13:
			return "len<13"
		case n < 19:
			return "len13-18"
		case n == 19:
			return "len19"
		case n <= 64:
			return "len20-64"
		default:
			return "len>64"
		}
	}
	add := func(b []byte, src, rel string) {
		cases = append(cases, cs{b, fmt.Sprintf("%s/%s/%s", src, lenClass(len(b)), rel)})
	}
	// structured classes, lengths 0..64 (all), several relations each
	reps := c.N(3, 40)
	for n := 0; n <= 64; n++ {
		for k := 0; k < reps; k++ {
			for _, rel := range []string{"eq", "lt", "gt", "lt19", "rand", "wrap"} {
				b := r.Bytes(n)
				if n >= 13 {
					var f uint32
					switch rel {
					case "eq":
						f = uint32(n)
					case "lt":
						f = uint32(r.Intn(n + 1))
					case "gt":
						f = uint32(n + 1 + r.Intn(1000))
					case "lt19":
						f = uint32(r.Intn(19))
					case "wrap":
						f = uint32(n) + uint32(r.Intn(255)+1)<<uint(8*(1+r.Intn(3)))
					case "rand":
						f = binary.LittleEndian.Uint32(b[9:13])
					}
					binary.LittleEndian.PutUint32(b[9:13], f)
				} else if rel != "rand" {
					continue
				}
				add(b, "structured", rel)
			}
		}
	}
	// random longer ones
	for k := 0; k < c.N(200, 5000); k++ {
		n := 65 + r.Intn(400)
		b := r.Bytes(n)
		rel := "rand"
		if r.Bool() {
			binary.LittleEndian.PutUint32(b[9:13], uint32(n))
			rel = "eq"
		}
		add(b, "long", rel)
	}
	// well-formed events (from the specification encoder) truncated at / extended from every length
	nev := c.N(6, 60)
	var reqs []vh.Val
	for k := 0; k < nev; k++ {
		body := r.Bytes(r.Intn(40))
		reqs = append(reqs, vh.L(vh.A("enc_event"), vh.U(uint64(uint32(r.U64()))), vh.I(int64(r.Intn(256))),
			vh.U(uint64(uint32(r.U64()))), vh.U(uint64(uint32(r.U64()))), vh.I(int64(r.Intn(65536))), vh.X(body)))
	}
	for _, resp := range c.M.Batch(reqs) {
		ev, ok := resp.Hex()
		if !ok {
			panic("enc_event: " + resp.String())
		}
		add(ev, "event", "eq")
		for cut := 0; cut < len(ev); cut++ {
			add(ev[:cut], "truncated", "gt")
		}
		for ext := 1; ext <= 8; ext++ {
			add(append(append([]byte{}, ev...), r.Bytes(ext)...), "extended", "lt")
		}
	}

	reqs = reqs[:0]
	for _, cse := range cases {
		reqs = append(reqs, vh.L(vh.A("header"), vh.X(cse.buf)))
	}
	resps := c.M.Batch(reqs)
	for i, cse := range cases {
		c.R.Count(cse.class)
		if i%997 == 0 {
			c.R.Sample(reqs[i].String())
		}
		model := resps[i].Nth(0) // (valid type flags ts sid len next)
		spec := resps[i].Nth(1)  // spec_valid
		impl := implHeader(cse.buf)
		if impl.String() != model.String() {
			c.R.Add(vh.Mismatch{Kind: "corr", What: "header accessors / IsValid differ from model", Case: reqs[i].String(),
				Model: model.String(), Impl: impl.String(), InDomain: true})
		}
		want := vh.Ok(spec).String()
		if impl.Nth(0).String() != want {
			c.R.Add(vh.Mismatch{Kind: "spec", What: "IsValid differs from the exact characterisation (19 <= len and length field = len)",
				Case: reqs[i].String(), Expected: want, Impl: impl.Nth(0).String(), InDomain: true})
		}
		// accepted buffers: no accessor may fail
		if impl.Nth(0).String() == "(ok 1)" {
			for j := 1; j < 7; j++ {
				if impl.Nth(j).Nth(0).Atom != "ok" {
					c.R.Add(vh.Mismatch{Kind: "spec", What: "header accessor fails on an accepted buffer", Case: reqs[i].String(), Impl: impl.String(), InDomain: true})
				}
			}
		}
	}
	runC17b(c)
	runC17e2e(c)
}

// runC17b: a truncated, over-long or garbage packet injected at every index of a history ends the stream with an
// error, without panic, without delivering a partial transaction, and the stored position resumes correctly.
func runC17b(c *Ctx) {
	r := c.Rng
	nh := c.N(6, 120)
	for hi := 0; hi < nh; hi++ {
		cfg := baseCfg(r, r.Intn(len(baseCfgs)))
		h := genHistory(r, cfg, histOpts{units: 3 + r.Intn(5), maxCols: 3, maxRows: 2, rotations: true, ignorables: true})
		h.encode(c)
		D, ok := checkFullRun(c, "C17", h, "baseline")
		if !ok {
			continue
		}
		f0, o0 := startOf(h)
		full := fullAttempt(h, c, f0, o0)
		_, idx := h.serve(c, f0, uint32(o0))
		for at := 2; at <= len(full.events); at++ {
			if !c.Thorough() && r.Chance(1, 2) {
				continue
			}
			a, mv := applyFault(c, h, full, fault{"invalid", at})
			bad := a.events[at]
			relation := "garbage"
			if at < len(full.events) && len(bad) < len(full.events[at%len(full.events)]) {
				relation = "truncated"
			} else if len(bad) > 19 {
				relation = "extended-or-garbage"
			}
			c.R.Count("inject/" + relation + "/" + pointClass(h, "invalid", at, idx))
			ir := compareAttempt(c, "C17", "inject", a, mv, true)
			desc := fmt.Sprintf("cfg=%s units=%v invalid packet %x injected before served event %d", h.cfg, h.kinds, bad, at)
			if ir.panicked {
				c.R.Add(vh.Mismatch{Kind: "spec", What: "inject: parseEvents panicked on a malformed packet", Case: desc, InDomain: true})
				continue
			}
			if ir.outcome != "invalid" {
				// a random packet can be self-consistent; the model comparison above decides then
				if implHeader(bad).Nth(0).String() != "(ok 1)" {
					c.R.Add(vh.Mismatch{Kind: "spec", What: "inject: a packet rejected by the validity test did not end the stream with an error", Case: desc, Impl: ir.outcome, InDomain: true})
				}
				continue
			}
			// nothing partial: exactly the transactions committed before the packet
			var before []string
			for i, tx := range h.txs {
				if posIn(idx[:at], tx.commitIdx) {
					before = append(before, D[i])
				}
			}
			got := acceptedOf(ir.calls)
			if !eqStrs(before, got) || len(got) != len(ir.calls) {
				c.R.Add(vh.Mismatch{Kind: "spec", What: "inject: a partial or extra transaction was delivered around a malformed packet", Case: desc, Expected: fmt.Sprint(len(before)), Impl: firstDiff(before, got), InDomain: true})
				continue
			}
			// resume from the stored position: the rest, exactly once
			b, _ := ir.stored.Nth(0).Hex()
			var so int64
			fmt.Sscanf(ir.stored.Nth(1).Atom, "%d", &so)
			if !knownFile(h, string(b)) {
				c.R.Add(vh.Mismatch{Kind: "spec", What: "inject: the stored resume position is not a position of the binlog", Case: desc, Impl: ir.stored.String(), InDomain: true})
				continue
			}
			ra := fullAttempt(h, c, string(b), so)
			rr := compareAttempt(c, "C17", "resume-after-invalid", ra, h.mapperVals(), true)
			if rest := acceptedOf(rr.calls); !eqStrs(D[len(before):], rest) {
				c.R.Add(vh.Mismatch{Kind: "spec", What: "inject: the resume position after a malformed packet is not the last accepted commit boundary", Case: desc,
					Expected: fmt.Sprint(len(D) - len(before)), Impl: firstDiff(D[len(before):], rest), InDomain: true})
			}
		}
	}
}

// runC17e2e: malformed packets through the real connection (fake master over TCP): every packet the master sends
// reaches the validity gate - whatever its type byte says - and the outcome, the deliveries and the stored position
// are those of the model run on the same packets.
func runC17e2e(c *Ctx) {
	runC17maxPacket(c)
	r := c.Rng
	base := libraryGoroutines()
	typeBytes := []int{27, 27, 4, 15, 16, 19, 2, 3, 34, 35, -1, -1}
	for k := 0; k < c.N(10, 150)+6; k++ {
		cfg := baseCfg(r, r.Intn(len(baseCfgs)))
		h := genHistory(r, cfg, histOpts{units: 3 + r.Intn(4), maxCols: 2, maxRows: 2, rotations: k%3 == 0, ignorables: true})
		h.encode(c)
		f0, o0 := startOf(h)
		evs, _ := h.serve(c, f0, uint32(o0))
		if len(evs) < 4 {
			continue
		}
		at := 2 + r.Intn(len(evs)-2)
		src := evs[2+r.Intn(len(evs)-2)]
		var bad []byte
		kind := r.PickS("truncated", "extended", "garbage", "prefixed")
		preIdx := r.Side().Intn(6)
		if k < 6 {
			kind, preIdx = "prefixed", k // every prefix once
		}
		switch kind {
		case "prefixed":
			// an over-long packet whose TAIL is a complete, self-consistent event: bytes in front of it that a layer below
			// the parser might know (the 0xef + flag header of semi-synchronous replication, a stray OK / EOF marker)
			pre := [][]byte{{0xef, 0x00}, {0xef, 0x01}, {0x00}, {0xfe}, {0xef}, {0xef, 0x01, 0x00}}[preIdx]
			bad = append(append([]byte{}, pre...), src...)
		case "truncated":
			n := 5 + r.Intn(len(src)-5)
			bad = append([]byte{}, src[:n]...)
		case "extended":
			bad = append(append([]byte{}, src...), r.Bytes(1+r.Intn(4))...)
		default:
			bad = r.Bytes(5 + r.Intn(40))
			if len(bad) >= 13 && r.Bool() {
				bad[9], bad[10], bad[11], bad[12] = byte(len(bad)+1+r.Intn(3)), 0, 0, 0 // length field disagrees
			}
		}
		tb := typeBytes[r.Intn(len(typeBytes))]
		if kind == "prefixed" {
			tb = -1
		}
		if tb >= 0 {
			bad[4] = byte(tb)
		}
		packets := append(append(append([][]byte{}, evs[:at]...), bad), evs[at:]...)
		env, err := newE2E(h.tables, 77, nil)
		if err != nil {
			return
		}
		env.s.SetBinlogPosition(gobinlog.Position{Filename: f0, Offset: o0})
		res := env.run(0, e2eAttempt{events: packets, terminal: "eof", cancelInHandler: -1, holdAfter: -1}, base)
		env.close()
		a := attempt{startFile: f0, startOff: o0, events: packets, cancelAt: -1, mapper: &hMapper{tables: h.tables}}
		mpos, mcalls, mout := modelAttempt(c, a, h.mapperVals())
		c.R.Count(fmt.Sprintf("e2e-inject/%s/type%d", kind, tb))
		desc := fmt.Sprintf("cfg=%s units=%v %s packet %x sent before served packet %d (through the real connection)", cfg, h.kinds, kind, bad, at)
		if !res.returned || res.outcome == "panic" {
			c.R.Add(vh.Mismatch{Kind: "spec", What: "e2e inject: Stream panicked or did not return after a malformed packet", Case: desc, Impl: res.outcome, InDomain: true})
			continue
		}
		if res.outcome != mout {
			c.R.Add(vh.Mismatch{Kind: "corr", What: "e2e inject: the outcome of the stream differs from the model run on the same packets", Case: desc, Model: mout, Impl: res.outcome, InDomain: true})
			continue
		}
		if joinVals(res.calls) != joinVals(mcalls) {
			c.R.Add(vh.Mismatch{Kind: "corr", What: "e2e inject: the deliveries differ from the model run on the same packets", Case: desc, Model: vh.Sprintf("%.800s", joinVals(mcalls)), Impl: vh.Sprintf("%.800s", joinVals(res.calls)), InDomain: true})
		}
		if posVal(res.stored).String() != mpos.String() {
			c.R.Add(vh.Mismatch{Kind: "corr", What: "e2e inject: the stored position differs from the model run on the same packets", Case: desc, Model: mpos.String(), Impl: posVal(res.stored).String(), InDomain: true})
		}
		if mout == "invalid" && res.streamErr == nil {
			c.R.Add(vh.Mismatch{Kind: "spec", What: "e2e inject: a packet rejected by the validity test did not end the stream with an error", Case: desc, InDomain: true})
		}
	}
}

// runC17maxPacket: a received packet of the largest size one protocol packet can carry (2^24-1 bytes: the first 2^24-2
// bytes of a longer well-formed event behind the status byte) followed by a packet holding the rest of that event.  Each
// received packet is an event candidate of its own: the first is a truncated event and ends the stream with an error,
// with the deliveries and the stored position of the events before it - whatever follows.  (Packets of this size are not
// pushed through the model; the expectation is the specification's: the validity test rejects a truncated event.)
func runC17maxPacket(c *Ctx) {
	r := c.Rng
	base := libraryGoroutines()
	cfg := baseCfg(r, r.Intn(len(baseCfgs)))
	h := genHistory(r, cfg, histOpts{seq: []string{"ddl", "ddl", "ddl"}, maxCols: 1, maxRows: 1, sameFormat: true})
	h.encode(c)
	if len(h.txs) != 3 {
		return
	}
	f0, o0 := startOf(h)
	evs, idx := h.serve(c, f0, uint32(o0))
	at := -1
	for i, x := range idx {
		if x == h.txs[1].commitIdx {
			at = i
		}
	}
	if at < 0 {
		return
	}
	small := evs[at]
	crc := 0
	if cfg.CRC {
		crc = 4
	}
	pad := 1<<24 + 700 - len(small)
	big := append([]byte{}, small[:len(small)-crc]...)
	for i := 0; i < pad; i++ {
		big = append(big, 'x')
	}
	big = append(big, small[len(small)-crc:]...)
	binary.LittleEndian.PutUint32(big[9:], uint32(len(big)))
	binary.LittleEndian.PutUint32(big[13:], binary.LittleEndian.Uint32(big[13:])+uint32(pad))
	first, rest := big[:1<<24-2], big[1<<24-2:]
	packets := append(append(append([][]byte{}, evs[:at]...), first, rest[1:]), evs[at+1:]...)
	env, err := newE2E(h.tables, 77, nil)
	if err != nil {
		return
	}
	env.s.SetBinlogPosition(gobinlog.Position{Filename: f0, Offset: o0})
	res := env.run(0, e2eAttempt{events: packets, terminal: "eof", cancelInHandler: -1, holdAfter: -1, firstByte: map[int]byte{at + 1: rest[0]}}, base)
	env.close()
	c.R.Count(fmt.Sprintf("e2e-inject/max-size-packet/crc%v", cfg.CRC))
	desc := fmt.Sprintf("cfg=%s units=%v: served packet %d replaced by a packet of 2^24-1 bytes (the first 2^24-2 bytes of a %d-byte query event) and a packet with its last %d bytes", cfg, h.kinds, at, len(big), len(rest))
	want := strs(h.expectedTxVals(c, h.txs[:1], f0, uint32(o0)))
	got := acceptedOf(res.calls)
	wantPos := gobinlog.Position{Filename: h.txs[0].nextFile, Offset: int64(h.txs[0].next)}
	if !res.returned || res.streamErr == nil || res.outcome != "invalid" || !eqStrs(want, got) || res.stored != wantPos {
		c.R.Add(vh.Mismatch{Kind: "spec", What: "e2e inject: a truncated event in a packet of the maximal size did not end the stream at the last commit boundary before it",
			Case: desc, Expected: fmt.Sprintf("error (invalid data), 1 delivery, stored %v", wantPos),
			Impl: fmt.Sprintf("returned=%v outcome=%.60s deliveries=%d stored=%v", res.returned, res.outcome, len(got), res.stored), InDomain: true})
	}
}

