package main

import (
	"fmt"

	"verif/harness/internal/vh"
)

func init() { runners["C13"] = runC13 }

func lenClass(n int) string {
	switch {
	case n == 0:
		return "len0"
	case n == 1:
		return "len1"
	case n < 255:
		return "len2-254"
	case n == 255:
		return "len255"
	case n == 256:
		return "len256"
	case n < 65535:
		return "len257-65534"
	default:
		return "len>=65535"
	}
}

func runC13(c *Ctx) {
	c.R.Rule = "string/binary cells per (type, declared-length class deciding the prefix width, actual-length class); distinct = distinct tuples; trivial = none (NULL/empty/absent at row level is covered by C09's row cases)"
	typedHistories(c, "C13", colCasesC13, c.N(25, 400))
	r := c.Rng
	var cases []cellCase
	add := func(ty vh.Val, s []byte, class string) {
		pre, rest := c.prePost()
		cases = append(cases, cellCase{ty: ty, val: vh.L(vh.A("bytes"), vh.X(s)), class: class, pre: pre, rest: rest})
	}
	content := func(n int) []byte {
		b := r.Bytes(n)
		if n > 0 && r.Chance(1, 3) {
			for i := range b { // include NULs, quotes, high bytes explicitly
				b[i] = []byte{0, '\'', '"', 0xff, 0x80, 'a', '\\', '\n'}[r.Intn(8)]
			}
		}
		return b
	}
	actuals := func(max int) []int {
		set := map[int]bool{}
		for _, n := range []int{0, 1, 2, 254, 255, 256, 257, max - 1, max} {
			if n >= 0 && n <= max {
				set[n] = true
			}
		}
		for k := 0; k < 3; k++ {
			set[r.Intn(max+1)] = true
		}
		var out []int
		for n := range set {
			out = append(out, n)
		}
		return out
	}
	// VARCHAR / VAR_STRING: declared max 0..65535
	vmax := []int{0, 1, 2, 254, 255, 256, 257, 300, 1000, 65534, 65535}
	nv := c.N(12, 200)
	for k := 0; k < nv; k++ {
		vmax = append(vmax, r.Intn(65536))
	}
	if c.Thorough() {
		for m := 0; m <= 600; m++ {
			vmax = append(vmax, m)
		}
	}
	for _, m := range vmax {
		for vs := int64(0); vs <= 1; vs++ {
			for _, n := range actuals(m) {
				if n > 2000 && !c.Thorough() && r.Chance(2, 3) {
					continue
				}
				pc := "prefix1"
				if m > 255 {
					pc = "prefix2"
				}
				add(sym("varchar", int64(m), vs), content(n), fmt.Sprintf("varchar/vs%d/%s/%s", vs, pc, lenClass(n)))
			}
		}
	}
	// CHAR / BINARY: declared max 0..1023 (all of them)
	for m := 0; m <= 1023; m++ {
		if !c.Thorough() && m > 300 && m%5 != int(c.Seed%5) && m != 1023 && m != 511 && m != 512 && m != 767 && m != 768 {
			continue
		}
		ns := []int{0, m}
		if m > 1 {
			ns = append(ns, r.Intn(m+1))
		}
		if m >= 255 {
			ns = append(ns, 255)
		}
		if m >= 256 {
			ns = append(ns, 256)
		}
		for _, n := range ns {
			pc := "prefix1"
			if m > 255 {
				pc = "prefix2"
			}
			add(sym("char", int64(m)), content(n), fmt.Sprintf("char/%s/max%dxx/%s", pc, m/256, lenClass(n)))
		}
	}
	// BLOB family and GEOMETRY: 1..4 length bytes
	for lb := 1; lb <= 4; lb++ {
		for _, code := range []int64{249, 250, 251, 252} {
			ns := []int{0, 1, 255}
			if lb >= 2 {
				ns = append(ns, 256, 65535)
			}
			if lb >= 3 {
				ns = append(ns, 65536, c.N(70000, 300000))
			}
			for k := 0; k < c.N(2, 20); k++ {
				lim := 256
				if lb >= 2 {
					lim = 5000
				}
				ns = append(ns, r.Intn(lim))
			}
			for _, n := range ns {
				add(sym("blob", int64(lb), code), content(n), fmt.Sprintf("blob/lb%d/code%d/%s", lb, code, lenClass(n)))
			}
		}
		for _, n := range []int{0, 1, 25, 255} {
			add(sym("geo", int64(lb)), content(n), fmt.Sprintf("geometry/lb%d/%s", lb, lenClass(n)))
		}
	}
	runCellCases(c, cases, false)
	runRawCells(c, genRawCells(c, []byte{15, 253, 254, 249, 250, 251, 252, 255}, c.N(2000, 40000)))
}
