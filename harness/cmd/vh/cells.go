package main

import (
	"bytes"
	"fmt"
	"math"
	"math/big"
	"strconv"
	"strings"
	"time"

	"github.com/Breeze0806/gobinlog/replication"
	"verif/harness/internal/vh"
)

// A cellCase is one abstract cell: column type, value, signedness.
type cellCase struct {
	ty, val vh.Val
	uns     bool
	tzInst  int64 // unix instant whose zone offset matters (0 = none)
	class   string
	pre     []byte
	rest    []byte
}

func sym(name string, args ...int64) vh.Val {
	vs := []vh.Val{vh.A(name)}
	for _, a := range args {
		vs = append(vs, vh.I(a))
	}
	return vh.L(vs...)
}

func bigVal(name string, z *big.Int) vh.Val { return vh.L(vh.A(name), vh.A(z.String())) }

func errClass(err error) string {
	s := err.Error()
	switch {
	case strings.Contains(s, "unsupported type"):
		return "unsupported_type"
	case strings.Contains(s, "unsupported blob"), strings.Contains(s, "unsupported geometry"):
		return "blob_meta"
	case strings.Contains(s, "unexpected enum size"):
		return "enum_size"
	case strings.Contains(s, "error parsing JSON"):
		return "json"
	}
	return "other"
}

func implCellBytes(data []byte, pos int, typ byte, meta uint16, uns bool) vh.Val {
	return vh.Try(func() vh.Val {
		v, l, err := replication.CellBytes(data, pos, typ, meta, uns)
		if err != nil {
			return vh.ErrV(errClass(err))
		}
		return vh.Ok(vh.XN(v), vh.I(int64(l)))
	})
}

// implCellBytesRaw also hands out the slice CellBytes returned (nil on error / panic), for the retention checks.
func implCellBytesRaw(data []byte, pos int, typ byte, meta uint16, uns bool) (vh.Val, []byte) {
	var raw []byte
	v := vh.Try(func() vh.Val {
		v, l, err := replication.CellBytes(data, pos, typ, meta, uns)
		if err != nil {
			return vh.ErrV(errClass(err))
		}
		raw = v
		return vh.Ok(vh.XN(v), vh.I(int64(l)))
	})
	return v, raw
}

// keptCell: a value a consumer still holds, with a private copy of what it read when it got it.
type keptCell struct {
	got, want []byte
	cse, in   string
}

// retain models a consumer that holds the last few values it was handed and recycles the memory of older ones:
// every held value must still read as delivered after later cells were decoded (no shared scratch storage), and
// overwriting a value the consumer is done with (and the spare capacity behind it) must not change what is decoded later.
func retain(c *Ctx, keep []keptCell, raw []byte, cse, in, class string, reported *bool) []keptCell {
	for _, k := range keep {
		if !bytes.Equal(k.got, k.want) && !*reported {
			*reported = true
			c.R.Add(vh.Mismatch{Kind: "spec", What: "a value decoded earlier changed when later cells were decoded (" + class + ")",
				Case: k.cse, Input: k.in + " ; then " + in, Expected: fmt.Sprintf("%x", k.want), Impl: fmt.Sprintf("%x", k.got), InDomain: true})
		}
	}
	if raw == nil {
		return keep
	}
	keep = append(keep, keptCell{raw, append([]byte(nil), raw...), cse, in})
	if len(keep) > 6 {
		old := keep[0].got
		keep = keep[1:]
		old = old[:cap(old)]
		for j := range old {
			old[j] = '#'
		}
	}
	return keep
}

func implCellLength(data []byte, pos int, typ byte, meta uint16) vh.Val {
	return vh.Try(func() vh.Val {
		l, err := replication.VerifCellLength(data, pos, typ, meta)
		if err != nil {
			return vh.ErrV(errClass(err))
		}
		return vh.Ok(vh.I(int64(l)))
	})
}

// substFloat replaces the model's oracle markers by Go's own formatting: F32:<bits> / F64:<bits> (a FLOAT / DOUBLE
// cell: the whole value is the marker, strconv 'f' formatting) and \E64:<bits>; (the doubles inside the text of a JSON
// cell, strconv 'E' formatting; the backslash cannot occur in the rendering of a well-formed document).
func substFloat(text []byte) []byte {
	s := string(text)
	if strings.HasPrefix(s, "F32:") {
		b, _ := strconv.ParseUint(s[4:], 10, 32)
		return strconv.AppendFloat(nil, float64(math.Float32frombits(uint32(b))), 'f', -1, 32)
	}
	if strings.HasPrefix(s, "F64:") {
		b, _ := strconv.ParseUint(s[4:], 10, 64)
		return strconv.AppendFloat(nil, math.Float64frombits(b), 'f', -1, 64)
	}
	if hasE64Marker(text) {
		return substE64(text)
	}
	return text
}

// hasE64Marker: every occurrence of the prefix \E64: is a complete marker \E64:<decimal digits>; (so that substE64
// cannot fail on a value that merely contains the prefix, e.g. a random blob).
func hasE64Marker(b []byte) bool {
	found := false
	for {
		i := strings.Index(string(b), e64Prefix)
		if i < 0 {
			return found
		}
		rest := b[i+len(e64Prefix):]
		j := 0
		for j < len(rest) && rest[j] >= '0' && rest[j] <= '9' {
			j++
		}
		if j == 0 || j > 20 || j >= len(rest) || rest[j] != ';' {
			return false
		}
		if _, err := strconv.ParseUint(string(rest[:j]), 10, 64); err != nil {
			return false
		}
		found = true
		b = rest[j+1:]
	}
}

// hasOracleMarker: the value carries a marker substFloat replaces.
func hasOracleMarker(b []byte) bool {
	return (len(b) > 4 && (string(b[:4]) == "F32:" || string(b[:4]) == "F64:")) || hasE64Marker(b)
}

func substOutcome(v vh.Val) vh.Val {
	if v.Nth(0).Atom == "ok" && len(v.List) == 3 {
		if b, ok := v.Nth(1).Hex(); ok {
			return vh.Ok(vh.X(substFloat(b)), v.Nth(2))
		}
	}
	return v
}

func zoneOffset(inst int64) int64 {
	if inst == 0 {
		return 0
	}
	_, off := time.Unix(inst, 0).Local().Zone()
	return int64(off)
}

// runCellCases sends the cases to the model and compares implementation, model and specification.
func runCellCases(c *Ctx, cases []cellCase, checkFloat bool) {
	reqs := make([]vh.Val, len(cases))
	for i, cs := range cases {
		reqs[i] = vh.L(vh.A("cell"), cs.ty, vh.B(cs.uns), cs.val, vh.I(zoneOffset(cs.tzInst)), vh.X(cs.pre), vh.X(cs.rest))
	}
	resps := c.M.Batch(reqs)
	var keep []keptCell
	reported := false
	for i, cs := range cases {
		r := resps[i] // (wf code meta enc spec model mlen)
		c.R.Count(cs.class)
		if i%251 == 0 {
			c.R.Sample(reqs[i].String())
		}
		if r.Nth(0).Atom != "1" {
			c.R.Add(vh.Mismatch{Kind: "selfcheck", What: "generator produced a value outside the specification's domain", Case: reqs[i].String()})
			continue
		}
		code, _ := r.Nth(1).Int()
		meta, _ := r.Nth(2).Int()
		enc, _ := r.Nth(3).Hex()
		spec, _ := r.Nth(4).Hex()
		spec = substFloat(spec)
		model := substOutcome(r.Nth(5))
		mlen := r.Nth(6)
		data := vh.Exact(append(append(append([]byte{}, cs.pre...), enc...), cs.rest...))
		impl, raw := implCellBytesRaw(data, len(cs.pre), byte(code), uint16(meta), cs.uns)
		ilen := implCellLength(data, len(cs.pre), byte(code), uint16(meta))
		want := vh.Ok(vh.X(spec), vh.I(int64(len(enc))))
		in := fmt.Sprintf("data=%x pos=%d type=%d meta=%d unsigned=%v", data, len(cs.pre), code, meta, cs.uns)
		keep = retain(c, keep, raw, reqs[i].String(), in, strings.SplitN(cs.class, "/", 2)[0], &reported)
		if impl.String() != want.String() {
			c.R.Add(vh.Mismatch{Kind: "spec", What: "CellBytes differs from the canonical text / consumed length (" + strings.SplitN(cs.class, "/", 2)[0] + ")",
				Case: reqs[i].String(), Input: in, Expected: want.String(), Model: model.String(), Impl: impl.String(), InDomain: true})
		}
		if impl.String() != model.String() {
			c.R.Add(vh.Mismatch{Kind: "corr", What: "CellBytes differs from the model (" + strings.SplitN(cs.class, "/", 2)[0] + ")",
				Case: reqs[i].String(), Input: in, Model: model.String(), Impl: impl.String(), InDomain: true})
		}
		wantLen := vh.Ok(vh.I(int64(len(enc))))
		if ilen.String() != wantLen.String() {
			c.R.Add(vh.Mismatch{Kind: "spec", What: "cellLength differs from the encoded cell size (" + strings.SplitN(cs.class, "/", 2)[0] + ")",
				Case: reqs[i].String(), Input: in, Expected: wantLen.String(), Model: mlen.String(), Impl: ilen.String(), InDomain: true})
		}
		if ilen.String() != mlen.String() {
			c.R.Add(vh.Mismatch{Kind: "corr", What: "cellLength differs from the model (" + strings.SplitN(cs.class, "/", 2)[0] + ")",
				Case: reqs[i].String(), Input: in, Model: mlen.String(), Impl: ilen.String(), InDomain: true})
		}
		if checkFloat && (code == 4 || code == 5) && impl.Nth(0).Atom == "ok" {
			txt, _ := impl.Nth(1).Hex()
			checkFloatText(c, reqs[i].String(), code, enc, string(txt))
		}
	}
}

// checkFloatText: the contract of the ffmt oracle — exponent-free text that parses back to the identical IEEE value.
func checkFloatText(c *Ctx, cse string, code int64, enc []byte, txt string) {
	if strings.ContainsAny(txt, "eE") {
		c.R.Add(vh.Mismatch{Kind: "spec", What: "float text has an exponent", Case: cse, Impl: txt, InDomain: true})
	}
	if code == 4 {
		bits := uint32(enc[0]) | uint32(enc[1])<<8 | uint32(enc[2])<<16 | uint32(enc[3])<<24
		f := math.Float32frombits(bits)
		if math.IsNaN(float64(f)) || math.IsInf(float64(f), 0) {
			return
		}
		g, err := strconv.ParseFloat(txt, 32)
		if err != nil || math.Float32bits(float32(g)) != bits {
			c.R.Add(vh.Mismatch{Kind: "spec", What: "float32 text does not parse back to the identical value", Case: cse, Impl: txt, InDomain: true})
		}
	} else {
		var bits uint64
		for i := 7; i >= 0; i-- {
			bits = bits<<8 | uint64(enc[i])
		}
		f := math.Float64frombits(bits)
		if math.IsNaN(f) || math.IsInf(f, 0) {
			return
		}
		g, err := strconv.ParseFloat(txt, 64)
		if err != nil || math.Float64bits(g) != bits {
			c.R.Add(vh.Mismatch{Kind: "spec", What: "float64 text does not parse back to the identical value", Case: cse, Impl: txt, InDomain: true})
		}
	}
}

// rawCell compares model and implementation on arbitrary (data, pos, type, metadata): the correspondence
// stream outside the property's domain (truncations, odd metadata, unknown types).
type rawCellCase struct {
	data  []byte
	pos   int
	typ   byte
	meta  uint16
	uns   bool
	class string
}

func runRawCells(c *Ctx, cases []rawCellCase) {
	reqs := make([]vh.Val, len(cases))
	for i, cs := range cases {
		reqs[i] = vh.L(vh.A("cell_raw"), vh.X(cs.data), vh.I(int64(cs.pos)), vh.I(int64(cs.typ)), vh.I(int64(cs.meta)), vh.B(cs.uns), vh.I(0))
	}
	resps := c.M.Batch(reqs)
	for i, cs := range cases {
		c.R.Count(cs.class)
		model := substOutcome(resps[i].Nth(0))
		mlen := resps[i].Nth(1)
		data := vh.Exact(cs.data)
		impl := implCellBytes(data, cs.pos, cs.typ, cs.meta, cs.uns)
		ilen := implCellLength(data, cs.pos, cs.typ, cs.meta)
		in := fmt.Sprintf("data=%x pos=%d type=%d meta=%d unsigned=%v", data, cs.pos, cs.typ, cs.meta, cs.uns)
		if impl.String() != model.String() {
			c.R.Add(vh.Mismatch{Kind: "corr", What: fmt.Sprintf("CellBytes differs from the model on raw input (type %d)", cs.typ),
				Case: reqs[i].String(), Input: in, Model: model.String(), Impl: impl.String()})
		}
		if ilen.String() != mlen.String() {
			c.R.Add(vh.Mismatch{Kind: "corr", What: fmt.Sprintf("cellLength differs from the model on raw input (type %d)", cs.typ),
				Case: reqs[i].String(), Input: in, Model: mlen.String(), Impl: ilen.String()})
		}
	}
}

// padding helpers
func (c *Ctx) prePost() ([]byte, []byte) {
	r := c.Rng
	var pre, rest []byte
	if r.Chance(1, 2) {
		pre = r.Bytes(r.Intn(5))
	}
	if r.Chance(1, 2) {
		rest = r.Bytes(r.Intn(5))
	}
	return pre, rest
}

var allTypeCodes = []byte{0, 1, 2, 3, 4, 5, 6, 7, 8, 9, 10, 11, 12, 13, 14, 15, 16, 17, 18, 19, 20, 100, 244, 245, 246, 247, 248, 249, 250, 251, 252, 253, 254, 255}

// genRawCells: truncated / odd-metadata inputs for a set of type codes (JSON excluded unless asked).
func genRawCells(c *Ctx, types []byte, n int) []rawCellCase {
	r := c.Rng
	var out []rawCellCase
	for k := 0; k < n; k++ {
		t := types[r.Intn(len(types))]
		var meta uint16
		switch r.Intn(4) {
		case 0:
			meta = uint16(r.Intn(8))
		case 1:
			meta = uint16(r.Intn(256))
		case 2:
			meta = uint16(r.Intn(65536))
		default:
			meta = uint16(r.Pick(0, 1, 2, 3, 4, 5, 6, 7, 255, 256, 0xf701, 0xf702, 0xf801, 0xf808, 0xfe10, 0xee00, 0x0a02, 0x4100, 0x1e1e))
		}
		n := r.Intn(24)
		data := r.Bytes(n)
		if t == 245 {
			continue // JSON payloads are exercised by C14
		}
		// keep length prefixes small so that most inputs are decodable, some are short
		if n > 0 && r.Chance(2, 3) {
			data[0] = byte(r.Intn(n + 2))
			if n > 1 {
				data[1] = 0
			}
			if n > 3 {
				data[2], data[3] = 0, 0
			}
		}
		pos := 0
		if r.Chance(1, 4) && n > 0 {
			pos = r.Intn(n + 1)
		}
		out = append(out, rawCellCase{data, pos, t, meta, r.Bool(), fmt.Sprintf("raw/type%d", t)})
	}
	return out
}
