// gosync: translator from the Go sources of /repo to Coq definitions
// (gen/Consts.v, gen/Structure.v).  It parses the working tree with go/parser
// (no build, no type checking) and prints, in a canonical order, every numeric
// constant, lookup table, switch case list and structural fact the Coq model
// and proofs consume.  It does not translate algorithmic code.
package main

import (
	"bytes"
	"fmt"
	"go/ast"
	"go/parser"
	"go/printer"
	"go/token"
	"os"
	"path/filepath"
	"sort"
	"strconv"
	"strings"
)

type pkg struct {
	name   string
	files  map[string]*ast.File
	fset   *token.FileSet
	consts map[string]int64
	order  []string
	sconst map[string]string
}

var pkgs = map[string]*pkg{}

func die(format string, a ...interface{}) {
	fmt.Fprintf(os.Stderr, "gosync: "+format+"\n", a...)
	os.Exit(2)
}

func load(dir, name string) *pkg {
	fset := token.NewFileSet()
	p := &pkg{name: name, files: map[string]*ast.File{}, fset: fset, consts: map[string]int64{}, sconst: map[string]string{}}
	ents, err := os.ReadDir(dir)
	if err != nil {
		die("%v", err)
	}
	for _, e := range ents {
		n := e.Name()
		if e.IsDir() || !strings.HasSuffix(n, ".go") || strings.HasSuffix(n, "_test.go") || strings.HasSuffix(n, "_verif.go") {
			continue
		}
		f, err := parser.ParseFile(fset, filepath.Join(dir, n), nil, 0)
		if err != nil {
			die("parse %s: %v", n, err)
		}
		p.files[n] = f
	}
	pkgs[name] = p
	return p
}

func (p *pkg) sortedFiles() []string {
	var ns []string
	for n := range p.files {
		ns = append(ns, n)
	}
	sort.Strings(ns)
	return ns
}

// eval evaluates an integer constant expression.
func (p *pkg) eval(e ast.Expr, iota int64) (int64, bool) {
	switch x := e.(type) {
	case *ast.BasicLit:
		switch x.Kind {
		case token.INT:
			v, err := strconv.ParseInt(x.Value, 0, 64)
			if err != nil {
				u, err2 := strconv.ParseUint(x.Value, 0, 64)
				if err2 != nil {
					return 0, false
				}
				return int64(u), true
			}
			return v, true
		case token.CHAR:
			s, err := strconv.Unquote(x.Value)
			if err != nil || len(s) == 0 {
				return 0, false
			}
			r := []rune(s)
			return int64(r[0]), true
		}
		return 0, false
	case *ast.Ident:
		if x.Name == "iota" {
			return iota, true
		}
		v, ok := p.consts[x.Name]
		return v, ok
	case *ast.SelectorExpr:
		if id, ok := x.X.(*ast.Ident); ok {
			if q, ok := pkgs[id.Name]; ok {
				v, ok := q.consts[x.Sel.Name]
				return v, ok
			}
		}
		return 0, false
	case *ast.ParenExpr:
		return p.eval(x.X, iota)
	case *ast.CallExpr: // conversion T(x)
		if len(x.Args) == 1 {
			return p.eval(x.Args[0], iota)
		}
		return 0, false
	case *ast.UnaryExpr:
		v, ok := p.eval(x.X, iota)
		if !ok {
			return 0, false
		}
		switch x.Op {
		case token.SUB:
			return -v, true
		case token.ADD:
			return v, true
		}
		return 0, false
	case *ast.BinaryExpr:
		a, ok1 := p.eval(x.X, iota)
		b, ok2 := p.eval(x.Y, iota)
		if !ok1 || !ok2 {
			return 0, false
		}
		switch x.Op {
		case token.ADD:
			return a + b, true
		case token.SUB:
			return a - b, true
		case token.MUL:
			return a * b, true
		case token.SHL:
			return a << uint(b), true
		case token.SHR:
			return a >> uint(b), true
		case token.OR:
			return a | b, true
		case token.AND:
			return a & b, true
		case token.QUO:
			if b == 0 {
				return 0, false
			}
			return a / b, true
		}
		return 0, false
	}
	return 0, false
}

func (p *pkg) collectConsts() {
	for _, fn := range p.sortedFiles() {
		f := p.files[fn]
		for _, d := range f.Decls {
			gd, ok := d.(*ast.GenDecl)
			if !ok || gd.Tok != token.CONST {
				continue
			}
			var lastVals []ast.Expr
			for i, s := range gd.Specs {
				vs := s.(*ast.ValueSpec)
				vals := vs.Values
				if len(vals) == 0 {
					vals = lastVals
				} else {
					lastVals = vals
				}
				for j, nm := range vs.Names {
					if j >= len(vals) {
						continue
					}
					if bl, ok := vals[j].(*ast.BasicLit); ok && bl.Kind == token.STRING {
						s, _ := strconv.Unquote(bl.Value)
						p.sconst[nm.Name] = s
						continue
					}
					if v, ok := p.eval(vals[j], int64(i)); ok {
						if nm.Name == "_" {
							continue
						}
						p.consts[nm.Name] = v
						p.order = append(p.order, nm.Name)
					}
				}
			}
		}
	}
}

func (p *pkg) funcDecl(name string) *ast.FuncDecl {
	for _, fn := range p.sortedFiles() {
		for _, d := range p.files[fn].Decls {
			if fd, ok := d.(*ast.FuncDecl); ok && fd.Name.Name == name {
				return fd
			}
		}
	}
	return nil
}

// methodDecl finds a method by receiver type name and method name
func (p *pkg) methodDecl(recv, name string) *ast.FuncDecl {
	for _, fn := range p.sortedFiles() {
		for _, d := range p.files[fn].Decls {
			fd, ok := d.(*ast.FuncDecl)
			if !ok || fd.Name.Name != name || fd.Recv == nil || len(fd.Recv.List) == 0 {
				continue
			}
			t := fd.Recv.List[0].Type
			if st, ok := t.(*ast.StarExpr); ok {
				t = st.X
			}
			if id, ok := t.(*ast.Ident); ok && id.Name == recv {
				return fd
			}
		}
	}
	return nil
}

func (p *pkg) varValue(name string) ast.Expr {
	for _, fn := range p.sortedFiles() {
		for _, d := range p.files[fn].Decls {
			gd, ok := d.(*ast.GenDecl)
			if !ok || gd.Tok != token.VAR {
				continue
			}
			for _, s := range gd.Specs {
				vs := s.(*ast.ValueSpec)
				for j, nm := range vs.Names {
					if nm.Name == name && j < len(vs.Values) {
						return vs.Values[j]
					}
				}
			}
		}
	}
	return nil
}

func (p *pkg) exprString(e ast.Node) string {
	var b bytes.Buffer
	printer.Fprint(&b, p.fset, e)
	return strings.Join(strings.Fields(b.String()), " ")
}

func zlist(vs []int64) string {
	var s []string
	for _, v := range vs {
		if v < 0 {
			s = append(s, fmt.Sprintf("(%d)", v))
		} else {
			s = append(s, fmt.Sprintf("%d", v))
		}
	}
	return "[" + strings.Join(s, "; ") + "]"
}

func bstr(s string) string {
	vs := make([]int64, len(s))
	for i := 0; i < len(s); i++ {
		vs[i] = int64(s[i])
	}
	return zlist(vs)
}

func cname(s string) string {
	// Coq identifiers: keep as is, prefix K_
	return "K_" + s
}

// switchCases returns, for the first switch in fn whose tag prints as tag
// ("" = any tagged switch on an identifier), the list of case value lists
// (in clause order; default clause = empty list marked by ok=false).
type clause struct {
	vals    []int64
	isDef   bool
	retLit  *int64 // body is exactly `return <int>, nil`
	bodyStr string
}

func (p *pkg) findSwitch(body ast.Node, tag string) *ast.SwitchStmt {
	var found *ast.SwitchStmt
	ast.Inspect(body, func(n ast.Node) bool {
		if found != nil {
			return false
		}
		if sw, ok := n.(*ast.SwitchStmt); ok && sw.Tag != nil && p.exprString(sw.Tag) == tag {
			found = sw
			return false
		}
		return true
	})
	return found
}

func (p *pkg) clauses(sw *ast.SwitchStmt) []clause {
	var out []clause
	for _, st := range sw.Body.List {
		cc := st.(*ast.CaseClause)
		c := clause{isDef: cc.List == nil}
		for _, e := range cc.List {
			v, ok := p.eval(e, 0)
			if !ok {
				die("cannot evaluate case expression %s", p.exprString(e))
			}
			c.vals = append(c.vals, v)
		}
		sort.Slice(c.vals, func(i, j int) bool { return c.vals[i] < c.vals[j] })
		if len(cc.Body) == 1 {
			if rs, ok := cc.Body[0].(*ast.ReturnStmt); ok && len(rs.Results) >= 1 {
				if v, ok := p.eval(rs.Results[0], 0); ok {
					if bl, isLit := rs.Results[0].(*ast.BasicLit); isLit && bl.Kind == token.INT {
						vv := v
						c.retLit = &vv
					}
				}
			}
		}
		out = append(out, c)
	}
	return out
}

func intLits(p *pkg, n ast.Node) []int64 {
	var out []int64
	ast.Inspect(n, func(n ast.Node) bool {
		if bl, ok := n.(*ast.BasicLit); ok && bl.Kind == token.INT {
			v, _ := strconv.ParseInt(bl.Value, 0, 64)
			out = append(out, v)
		}
		return true
	})
	return out
}

func mapLit(p *pkg, e ast.Expr) (keys []ast.Expr, vals []ast.Expr) {
	cl, ok := e.(*ast.CompositeLit)
	if !ok {
		die("expected composite literal")
	}
	for _, el := range cl.Elts {
		kv := el.(*ast.KeyValueExpr)
		keys = append(keys, kv.Key)
		vals = append(vals, kv.Value)
	}
	return
}

func strLit(e ast.Expr) (string, bool) {
	if bl, ok := e.(*ast.BasicLit); ok && bl.Kind == token.STRING {
		s, err := strconv.Unquote(bl.Value)
		return s, err == nil
	}
	return "", false
}

func main() {
	if len(os.Args) != 3 {
		die("usage: gosync <repo> <gen-dir>")
	}
	repo, gen := os.Args[1], os.Args[2]
	rp := load(filepath.Join(repo, "replication"), "replication")
	rp.collectConsts()
	gp := load(repo, "gobinlog")
	gp.collectConsts()

	var c bytes.Buffer
	w := func(format string, a ...interface{}) { fmt.Fprintf(&c, format+"\n", a...) }
	w("(* GENERATED by gosync from /repo — do not edit.  Constants, tables and switch case lists. *)")
	w("From Coq Require Import List ZArith.")
	w("Import ListNotations.")
	w("Open Scope Z_scope.")
	w("")
	w("(* ---- package replication: integer constants ---- *)")
	names := append([]string{}, rp.order...)
	sort.Strings(names)
	for _, n := range names {
		w("Definition %s : Z := %d.", cname(n), rp.consts[n])
	}
	w("")
	w("(* ---- package gobinlog: integer constants ---- *)")
	names = append([]string{}, gp.order...)
	sort.Strings(names)
	for _, n := range names {
		w("Definition %s : Z := %d.", cname(n), gp.consts[n])
	}
	w("")
	// string constants
	for _, n := range []string{"mysql56FlavorID", "mariadbFlavorID"} {
		s, ok := rp.sconst[n]
		if !ok {
			die("string constant %s not found", n)
		}
		w("Definition %s : list Z := %s. (* %q *)", cname(n), bstr(s), s)
	}
	w("")

	// dig2bytes
	{
		e := rp.varValue("dig2bytes")
		if e == nil {
			die("dig2bytes not found")
		}
		cl := e.(*ast.CompositeLit)
		var vs []int64
		for _, el := range cl.Elts {
			v, ok := rp.eval(el, 0)
			if !ok {
				die("dig2bytes element")
			}
			vs = append(vs, v)
		}
		w("Definition dig2bytes : list Z := %s.", zlist(vs))
	}
	// ZeroTimestamp
	{
		e := rp.varValue("ZeroTimestamp")
		ce, ok := e.(*ast.CallExpr)
		if !ok || len(ce.Args) != 1 {
			die("ZeroTimestamp shape")
		}
		s, ok := strLit(ce.Args[0])
		if !ok {
			die("ZeroTimestamp literal")
		}
		w("Definition ZeroTimestamp : list Z := %s. (* %q *)", bstr(s), s)
	}
	// statementPrefixes : sorted by key
	{
		ks, vs := mapLit(gp, gp.varValue("statementPrefixes"))
		type kv struct {
			k string
			v int64
		}
		var l []kv
		for i := range ks {
			s, ok := strLit(ks[i])
			if !ok {
				die("statementPrefixes key")
			}
			v, ok := gp.eval(vs[i], 0)
			if !ok {
				die("statementPrefixes value")
			}
			l = append(l, kv{s, v})
		}
		sort.Slice(l, func(i, j int) bool { return l[i].k < l[j].k })
		w("Definition statementPrefixes : list (list Z * Z) := [")
		for i, e := range l {
			sep := ";"
			if i == len(l)-1 {
				sep = ""
			}
			w("  (%s, %d)%s (* %q *)", bstr(e.k), e.v, sep, e.k)
		}
		w("].")
	}
	for _, tn := range []string{"statementStrings", "columnTypeStrings"} {
		ks, vs := mapLit(gp, gp.varValue(tn))
		type kv struct {
			k int64
			v string
		}
		var l []kv
		for i := range ks {
			k, ok := gp.eval(ks[i], 0)
			if !ok {
				die("%s key %s", tn, gp.exprString(ks[i]))
			}
			s, ok := strLit(vs[i])
			if !ok {
				die("%s value", tn)
			}
			l = append(l, kv{k, s})
		}
		sort.Slice(l, func(i, j int) bool { return l[i].k < l[j].k })
		w("Definition %s : list (Z * list Z) := [", tn)
		for i, e := range l {
			sep := ";"
			if i == len(l)-1 {
				sep = ""
			}
			w("  (%d, %s)%s (* %q *)", e.k, bstr(e.v), sep, e.v)
		}
		w("].")
	}
	// checksum SQL, dump flags, channel capacities
	{
		fd := gp.methodDecl("slaveConnection", "prepareForReplication")
		if fd == nil {
			die("prepareForReplication not found")
		}
		var sql string
		found := false
		ast.Inspect(fd, func(n ast.Node) bool {
			if ce, ok := n.(*ast.CallExpr); ok && strings.HasSuffix(gp.exprString(ce.Fun), ".Exec") && len(ce.Args) == 1 {
				if s, ok := strLit(ce.Args[0]); ok {
					sql, found = s, true
				}
			}
			return true
		})
		if !found {
			die("Exec literal not found")
		}
		w("Definition checksumSQL : list Z := %s. (* %q *)", bstr(sql), sql)
		// what prepareForReplication does when that Exec fails: the kinds of the statements of the `err != nil` block
		// ("return-err" for a return of something other than nil)
		var failKinds []string
		ast.Inspect(fd, func(n ast.Node) bool {
			is, ok := n.(*ast.IfStmt)
			if !ok || is.Init == nil || !strings.Contains(gp.exprString(is.Init), ".Exec(") {
				return true
			}
			for _, st := range is.Body.List {
				k := fmt.Sprintf("%T", st)
				if rs, ok := st.(*ast.ReturnStmt); ok {
					k = "return-err"
					if len(rs.Results) == 1 {
						if id, ok := rs.Results[0].(*ast.Ident); ok && id.Name == "nil" {
							k = "return-nil"
						}
					}
				}
				failKinds = append(failKinds, k)
			}
			return false
		})
		w("Definition prepare_exec_failure_block : list (list Z) := [%s]. (* %s *)", strings.Join(mapStr(failKinds, bstr), "; "), strings.Join(failKinds, " | "))
		fd = gp.methodDecl("slaveConnection", "startDumpFromBinlogPosition")
		if fd == nil {
			die("startDumpFromBinlogPosition not found")
		}
		var flags int64 = -1
		var args []string
		evCap := int64(-1)
		ast.Inspect(fd, func(n ast.Node) bool {
			if ce, ok := n.(*ast.CallExpr); ok {
				if strings.HasSuffix(gp.exprString(ce.Fun), ".NoticeDump") && len(ce.Args) == 4 {
					if v, ok := gp.eval(ce.Args[3], 0); ok {
						flags = v
					}
					for _, a := range ce.Args {
						args = append(args, gp.exprString(a))
					}
				}
				if id, ok := ce.Fun.(*ast.Ident); ok && id.Name == "make" {
					if _, isChan := ce.Args[0].(*ast.ChanType); isChan {
						if len(ce.Args) == 1 {
							evCap = 0
						} else if v, ok := gp.eval(ce.Args[1], 0); ok {
							evCap = v
						}
					}
				}
			}
			return true
		})
		if flags < 0 {
			die("NoticeDump flags not a literal")
		}
		w("Definition dumpFlags : Z := %d.", flags)
		w("Definition noticeDumpArgs : list (list Z) := [%s]. (* %s *)", strings.Join(mapStr(args, bstr), "; "), strings.Join(args, " | "))
		w("Definition eventChanCap : Z := %d.", evCap)
		fd = gp.funcDecl("newSlaveConnection")
		errCap := int64(-1)
		ast.Inspect(fd, func(n ast.Node) bool {
			if ce, ok := n.(*ast.CallExpr); ok {
				if id, ok := ce.Fun.(*ast.Ident); ok && id.Name == "make" {
					if _, isChan := ce.Args[0].(*ast.ChanType); isChan {
						if len(ce.Args) == 1 {
							errCap = 0
						} else if v, ok := gp.eval(ce.Args[1], 0); ok {
							errCap = v
						}
					}
				}
			}
			return true
		})
		w("Definition errChanCap : Z := %d.", errCap)
	}
	w("")
	w("(* ---- switch case lists (clause order; each clause's values sorted) ---- *)")
	emitCases := func(name string, cls []clause) {
		var parts []string
		for _, cl := range cls {
			if cl.isDef {
				continue
			}
			parts = append(parts, zlist(cl.vals))
		}
		w("Definition %s : list (list Z) := [%s].", name, strings.Join(parts, ";\n  "))
	}
	for _, fn := range []string{"metadataLength", "metadataRead", "metadataWrite"} {
		fd := rp.funcDecl(fn)
		if fd == nil {
			die("%s not found", fn)
		}
		sw := rp.findSwitch(fd.Body, "typ")
		if sw == nil {
			die("%s: switch typ not found", fn)
		}
		emitCases(fn+"_cases", rp.clauses(sw))
	}
	{
		fd := rp.funcDecl("cellLength")
		sw := rp.findSwitch(fd.Body, "typ")
		cls := rp.clauses(sw)
		emitCases("cellLength_cases", cls)
		var parts []string
		for _, cl := range cls {
			if cl.retLit != nil {
				for _, v := range cl.vals {
					parts = append(parts, fmt.Sprintf("(%d, %d)", v, *cl.retLit))
				}
			}
		}
		w("Definition cellLength_fixed : list (Z * Z) := [%s].", strings.Join(parts, "; "))
		fd = rp.funcDecl("CellBytes")
		sw = rp.findSwitch(fd.Body, "typ")
		emitCases("CellBytes_cases", rp.clauses(sw))
	}
	{
		fd := rp.funcDecl("printJSONValue")
		sw := rp.findSwitch(fd.Body, "typ")
		emitCases("printJSONValue_cases", rp.clauses(sw))
		fd = rp.funcDecl("printJSONOpaque")
		sw = rp.findSwitch(fd.Body, "typ")
		emitCases("printJSONOpaque_cases", rp.clauses(sw))
		fd = rp.methodDecl("binlogEvent", "Query")
		sw = rp.findSwitch(fd.Body, "code")
		emitCases("queryVars_cases", rp.clauses(sw))
		fd = rp.methodDecl("mysql56BinlogEvent", "StripChecksum")
		sw = rp.findSwitch(fd.Body, "f.ChecksumAlgorithm")
		emitCases("strip56_cases", rp.clauses(sw))
		fd = rp.methodDecl("mariadbBinlogEvent", "StripChecksum")
		sw = rp.findSwitch(fd.Body, "f.ChecksumAlgorithm")
		emitCases("stripMaria_cases", rp.clauses(sw))
	}
	{
		// statement classes in parseEvents
		fd := gp.methodDecl("Streamer", "parseEvents")
		if fd == nil {
			die("parseEvents not found")
		}
		sw := gp.findSwitch(fd.Body, "typ")
		if sw == nil {
			die("parseEvents: switch typ not found")
		}
		emitCases("parseEvents_stmt_cases", gp.clauses(sw))
		// dispatch order: the tagless switch whose cases are ev.IsX()
		var order []string
		ast.Inspect(fd.Body, func(n ast.Node) bool {
			sw, ok := n.(*ast.SwitchStmt)
			if !ok || sw.Tag != nil || len(order) > 0 {
				return true
			}
			var o []string
			for _, st := range sw.Body.List {
				cc := st.(*ast.CaseClause)
				for _, e := range cc.List {
					s := gp.exprString(e)
					if strings.HasPrefix(s, "ev.Is") {
						o = append(o, strings.TrimSuffix(strings.TrimPrefix(s, "ev."), "()"))
					}
				}
			}
			if len(o) > 3 {
				order = o
			}
			return true
		})
		w("Definition parseEvents_dispatch : list (list Z) := [%s].\n(* %s *)", strings.Join(mapStr(order, bstr), ";\n  "), strings.Join(order, " "))
	}
	w("")
	w("(* ---- literal offsets in header accessors / IsValid / Format ---- *)")
	for _, m := range []string{"IsValid", "Type", "Flags", "Timestamp", "ServerID", "Length", "NextPosition", "Format", "Rotate", "IntVar", "Rand"} {
		fd := rp.methodDecl("binlogEvent", m)
		if fd == nil {
			die("binlogEvent.%s not found", m)
		}
		// evaluate slice bounds and indexes where possible, otherwise int literals
		var vs []int64
		ast.Inspect(fd.Body, func(n ast.Node) bool {
			switch x := n.(type) {
			case *ast.SliceExpr:
				for _, b := range []ast.Expr{x.Low, x.High} {
					if b == nil {
						vs = append(vs, -1)
					} else if v, ok := rp.eval(b, 0); ok {
						vs = append(vs, v)
					} else {
						vs = append(vs, -2)
					}
				}
			case *ast.IndexExpr:
				if v, ok := rp.eval(x.Index, 0); ok {
					vs = append(vs, v)
				} else {
					vs = append(vs, -2)
				}
			case *ast.BinaryExpr:
				if x.Op == token.LSS || x.Op == token.NEQ || x.Op == token.EQL || x.Op == token.GTR {
					if v, ok := rp.eval(x.Y, 0); ok {
						if _, isLit := x.Y.(*ast.BasicLit); isLit {
							vs = append(vs, v)
						}
					}
				}
			}
			return true
		})
		w("Definition lits_%s : list Z := %s.", m, zlist(vs))
	}
	writeIfChanged(filepath.Join(gen, "Consts.v"), c.Bytes())

	// ---------- Structure.v ----------
	var s bytes.Buffer
	w = func(format string, a ...interface{}) { fmt.Fprintf(&s, format+"\n", a...) }
	w("(* GENERATED by gosync from /repo — do not edit.  Structural facts. *)")
	w("From Coq Require Import List ZArith Bool.")
	w("Import ListNotations.")
	w("Open Scope Z_scope.")
	w("")
	// functions containing go statements
	{
		var fs []string
		for _, fn := range gp.sortedFiles() {
			for _, d := range gp.files[fn].Decls {
				fd, ok := d.(*ast.FuncDecl)
				if !ok || fd.Body == nil {
					continue
				}
				n := 0
				ast.Inspect(fd.Body, func(x ast.Node) bool {
					if _, ok := x.(*ast.GoStmt); ok {
						n++
					}
					return true
				})
				for i := 0; i < n; i++ {
					fs = append(fs, fd.Name.Name)
				}
			}
		}
		sort.Strings(fs)
		w("Definition go_stmt_funcs : list (list Z) := [%s]. (* %s *)", strings.Join(mapStr(fs, bstr), "; "), strings.Join(fs, " "))
	}
	{
		// callers of s.sendTransaction( ... ): enclosing FuncDecl + whether inside a FuncLit assigned to `commit`
		var sites []string
		for _, fn := range gp.sortedFiles() {
			for _, d := range gp.files[fn].Decls {
				fd, ok := d.(*ast.FuncDecl)
				if !ok || fd.Body == nil {
					continue
				}
				var walk func(n ast.Node, ctx string)
				walk = func(n ast.Node, ctx string) {
					ast.Inspect(n, func(x ast.Node) bool {
						switch y := x.(type) {
						case *ast.AssignStmt:
							if len(y.Lhs) == 1 && len(y.Rhs) == 1 {
								if fl, ok := y.Rhs[0].(*ast.FuncLit); ok {
									walk(fl.Body, ctx+"/"+gp.exprString(y.Lhs[0]))
									return false
								}
							}
						case *ast.CallExpr:
							if gp.exprString(y.Fun) == "s.sendTransaction" {
								sites = append(sites, ctx)
							}
						}
						return true
					})
				}
				walk(fd.Body, fd.Name.Name)
			}
		}
		sort.Strings(sites)
		w("Definition sendTransaction_call_sites : list (list Z) := [%s]. (* %s *)", strings.Join(mapStr(sites, bstr), "; "), strings.Join(sites, " "))
	}
	{
		fd := gp.methodDecl("Streamer", "Stream")
		if fd == nil {
			die("Stream not found")
		}
		deferClose := 0
		setPos := 0
		ctxAssign := 0
		ast.Inspect(fd.Body, func(x ast.Node) bool {
			switch y := x.(type) {
			case *ast.DeferStmt:
				if gp.exprString(y.Call) == "conn.close()" {
					deferClose++
				}
			case *ast.CallExpr:
				if gp.exprString(y) == "s.SetBinlogPosition(pos)" {
					setPos++
				}
			case *ast.AssignStmt:
				if gp.exprString(y) == "s.ctx = ctx" {
					ctxAssign++
				}
			}
			return true
		})
		w("Definition stream_defer_close : Z := %d.", deferClose)
		w("Definition stream_setpos_calls : Z := %d.", setPos)
		w("Definition stream_ctx_is_callers : Z := %d.", ctxAssign)
		// every top-level statement of Stream that assigns s.endedUncancelled, with the statement before it
		// (K2 repair: reset at entry, sampled immediately after parseEvents returned)
		var ended []string
		for i, st := range fd.Body.List {
			as, ok := st.(*ast.AssignStmt)
			if !ok || len(as.Lhs) != 1 || gp.exprString(as.Lhs[0]) != "s.endedUncancelled" {
				continue
			}
			prev := ""
			if i > 0 {
				prev = gp.exprString(fd.Body.List[i-1])
			}
			ended = append(ended, prev+" ;; "+gp.exprString(st))
		}
		nested := 0
		ast.Inspect(fd.Body, func(x ast.Node) bool {
			if as, ok := x.(*ast.AssignStmt); ok && len(as.Lhs) == 1 && gp.exprString(as.Lhs[0]) == "s.endedUncancelled" {
				nested++
			}
			return true
		})
		if nested != len(ended) {
			die("Stream assigns s.endedUncancelled inside a nested statement")
		}
		w("Definition stream_ended_uncancelled_assigns : list (list Z) := [%s]. (* %s *)", strings.Join(mapStr(ended, bstr), "; "), strings.Join(ended, " | "))
	}
	{
		fd := gp.methodDecl("slaveConnection", "readBinlogEvent")
		mk, cp := 0, 0
		ast.Inspect(fd.Body, func(x ast.Node) bool {
			if ce, ok := x.(*ast.CallExpr); ok {
				if id, ok := ce.Fun.(*ast.Ident); ok {
					if id.Name == "make" {
						mk++
					}
					if id.Name == "copy" {
						cp++
					}
				}
			}
			return true
		})
		w("Definition readBinlogEvent_make_copy : Z * Z := (%d, %d).", mk, cp)
		// the statements of the packet reader and of the reader goroutine's loop, logging calls removed, as text:
		// the model says "every packet other than EOF/ERR is handed to the parser, unchanged but for its first
		// byte, in order" against exactly this code
		w("Definition src_readBinlogEvent : list Z := %s.\n(* %s *)", bstr(normSrc(gp, fd.Body)), normSrc(gp, fd.Body))
		sd := gp.methodDecl("slaveConnection", "startDumpFromBinlogPosition")
		var loop *ast.ForStmt
		ast.Inspect(sd.Body, func(x ast.Node) bool {
			if g, ok := x.(*ast.GoStmt); ok {
				ast.Inspect(g.Call.Fun, func(y ast.Node) bool {
					if f, ok := y.(*ast.ForStmt); ok && loop == nil {
						loop = f
					}
					return true
				})
			}
			return true
		})
		if loop == nil {
			die("reader loop not found in startDumpFromBinlogPosition")
		}
		w("Definition src_reader_loop : list Z := %s.\n(* %s *)", bstr(normSrc(gp, loop)), normSrc(gp, loop))
	}
	{
		fd := gp.methodDecl("Streamer", "parseEvents")
		var rets []string
		var walk func(n ast.Node)
		walk = func(n ast.Node) {
			ast.Inspect(n, func(x ast.Node) bool {
				switch y := x.(type) {
				case *ast.FuncLit:
					return false
				case *ast.ReturnStmt:
					if len(y.Results) > 0 {
						rets = append(rets, gp.exprString(y.Results[0]))
					}
				}
				return true
			})
		}
		walk(fd.Body)
		sort.Strings(rets)
		var uniq []string
		for i, r := range rets {
			if i == 0 || rets[i-1] != r {
				uniq = append(uniq, r)
			}
		}
		w("Definition parseEvents_return_positions : list (list Z) := [%s]. (* %s *)", strings.Join(mapStr(uniq, bstr), "; "), strings.Join(uniq, " | "))
		// first statement after the select in the loop mentions IsValid
		first := ""
		ast.Inspect(fd.Body, func(x ast.Node) bool {
			fs, ok := x.(*ast.ForStmt)
			if !ok || first != "" {
				return true
			}
			seenSelect := false
			for _, st := range fs.Body.List {
				if _, ok := st.(*ast.SelectStmt); ok {
					seenSelect = true
					continue
				}
				if seenSelect {
					if is, ok := st.(*ast.IfStmt); ok {
						first = gp.exprString(is.Cond)
					} else {
						first = "?"
					}
					break
				}
			}
			return true
		})
		w("Definition parseEvents_first_after_select : list Z := %s. (* %s *)", bstr(first), first)
	}
	{
		// Error(): cases inspected
		fd := gp.methodDecl("Streamer", "Error")
		var conds []string
		ast.Inspect(fd.Body, func(x ast.Node) bool {
			if cc, ok := x.(*ast.CaseClause); ok {
				for _, e := range cc.List {
					conds = append(conds, gp.exprString(e))
				}
			}
			return true
		})
		w("Definition error_filter_cases : list (list Z) := [%s]. (* %s *)", strings.Join(mapStr(conds, bstr), "; "), strings.Join(conds, " | "))
	}
	writeIfChanged(filepath.Join(gen, "Structure.v"), s.Bytes())

	// ---------- Source.v: the text of the functions whose model is a hand-written reading ----------
	// (logging calls and comments removed, white space collapsed).  Proofs/SourcePins.v compares each with the
	// committed snapshot the model was written and validated against (theories/Spec/SourceSnapshot.v).
	{
		var b bytes.Buffer
		b.WriteString("(* GENERATED by gosync from /repo - do not edit.  Normalised source text of the streamer core. *)\n")
		b.WriteString("From Coq Require Import List ZArith.\nImport ListNotations.\nOpen Scope Z_scope.\n\n")
		emit := func(name string, n ast.Node) {
			if n == nil {
				die("source pin: %s not found", name)
			}
			txt := normSrc(gp, n)
			fmt.Fprintf(&b, "(* %s: %d bytes of normalised source *)\nDefinition src_%s : list Z := %s.\n\n", name, len(txt), name, bstr(txt))
		}
		fn := func(name string) ast.Node {
			if fd := gp.funcDecl(name); fd != nil {
				return fd
			}
			return nil
		}
		me := func(recv, name string) ast.Node {
			if fd := gp.methodDecl(recv, name); fd != nil {
				return fd
			}
			return nil
		}
		emit("Stream", me("Streamer", "Stream"))
		emit("Error", me("Streamer", "Error"))
		emit("parseEvents", me("Streamer", "parseEvents"))
		emit("getValuesFromRow", fn("getValuesFromRow"))
		emit("getIdentifiesFromRow", fn("getIdentifiesFromRow"))
		emit("appendInsertEventFromRows", fn("appendInsertEventFromRows"))
		emit("appendUpdateEventFromRows", fn("appendUpdateEventFromRows"))
		emit("appendDeleteEventFromRows", fn("appendDeleteEventFromRows"))
		emit("newSlaveConnection", fn("newSlaveConnection"))
		emit("slaveConnection_close", me("slaveConnection", "close"))
		emit("prepareForReplication", me("slaveConnection", "prepareForReplication"))
		emit("startDumpFromBinlogPosition", me("slaveConnection", "startDumpFromBinlogPosition"))
		emit("readBinlogEvent", me("slaveConnection", "readBinlogEvent"))
		emit("GetStatementCategory", fn("GetStatementCategory"))
		emit("newTransaction", fn("newTransaction"))
		emit("newStreamEvent", fn("newStreamEvent"))
		emit("newColumnData", fn("newColumnData"))
		emit("Transaction_MarshalJSON", me("Transaction", "MarshalJSON"))
		emit("StreamEvent_MarshalJSON", me("StreamEvent", "MarshalJSON"))
		emit("ColumnData_MarshalJSON", me("ColumnData", "MarshalJSON"))
		// replication.printTimestamp: an oracle (ext_printTimestamp) of the translated CellBytes, modelled by print_timestamp tz
		if fd := rp.funcDecl("printTimestamp"); fd != nil {
			txt := normSrc(rp, fd)
			fmt.Fprintf(&b, "(* %s: %d bytes of normalised source *)\nDefinition src_%s : list Z := %s.\n\n", "printTimestamp", len(txt), "printTimestamp", bstr(txt))
		} else {
			die("source pin: printTimestamp not found")
		}
		// every method of the root package, as "Type.Method" (a new MarshalJSON / String method changes how values
		// are serialised without touching the functions above)
		var ms []string
		for _, fname := range gp.sortedFiles() {
			for _, d := range gp.files[fname].Decls {
				if fd, ok := d.(*ast.FuncDecl); ok && fd.Recv != nil && len(fd.Recv.List) > 0 {
					rt := fd.Recv.List[0].Type
					if st, ok := rt.(*ast.StarExpr); ok {
						rt = st.X
					}
					ms = append(ms, gp.exprString(rt)+"."+fd.Name.Name)
				}
			}
		}
		sort.Strings(ms)
		fmt.Fprintf(&b, "(* %s *)\nDefinition root_methods : list (list Z) := [%s].\n", strings.ReplaceAll(strings.Join(ms, " "), "*", ""), strings.Join(mapStr(ms, bstr), "; "))
		writeIfChanged(filepath.Join(gen, "Source.v"), b.Bytes())
	}
}

// normSrc prints a statement with the logging calls (_log.Xxx(...)) removed and white space collapsed.
func normSrc(p *pkg, n ast.Node) string {
	isLog := func(st ast.Stmt) bool {
		es, ok := st.(*ast.ExprStmt)
		if !ok {
			return false
		}
		ce, ok := es.X.(*ast.CallExpr)
		if !ok {
			return false
		}
		return strings.HasPrefix(p.exprString(ce.Fun), "_log.")
	}
	filter := func(list []ast.Stmt) []ast.Stmt {
		var out []ast.Stmt
		for _, st := range list {
			if !isLog(st) {
				out = append(out, st)
			}
		}
		return out
	}
	var saved []func()
	ast.Inspect(n, func(x ast.Node) bool {
		switch b := x.(type) {
		case *ast.BlockStmt:
			old := b.List
			b.List = filter(b.List)
			saved = append(saved, func() { b.List = old })
		case *ast.CaseClause:
			old := b.Body
			b.Body = filter(b.Body)
			saved = append(saved, func() { b.Body = old })
		case *ast.CommClause:
			old := b.Body
			b.Body = filter(b.Body)
			saved = append(saved, func() { b.Body = old })
		}
		return true
	})
	txt := p.exprString(n)
	for _, f := range saved {
		f()
	}
	return strings.Join(strings.Fields(txt), " ")
}

func mapStr(l []string, f func(string) string) []string {
	out := make([]string, len(l))
	for i, x := range l {
		out[i] = f(x)
	}
	return out
}

func writeIfChanged(path string, data []byte) {
	old, err := os.ReadFile(path)
	if err == nil && bytes.Equal(old, data) {
		return
	}
	if err := os.WriteFile(path, data, 0o644); err != nil {
		die("%v", err)
	}
}
