// gotrans: translator from loop-free Go functions of /repo to Gallina (coq/gen/Trans.v).
//
// It type-checks the package with go/types and translates the listed functions statement by statement into
// terms of the `res` monad of Base/Prelude.v, using the Go operation semantics of Base/GoSem.v:
//
//	integers          Z, wrapped by u8..u64 / i8..i64 after every arithmetic operation and narrowing conversion
//	[]byte, string    bytes (capacity = length)
//	structs           records (generated)
//	d[i], d[a:b]      go_idx / go_slice*: Panic when out of range
//	switch / if       nested if; the statements after an if/switch are continued in every branch that falls through
//	x := e, x = e     let (shadowing)
//	return a, b, nil  Ok (a, b);  return ..., <non-nil error>  ->  Err EOther;  panic(...) -> Panic
//	f(args)           do r <- f_g args (errors and panics propagate)
//
// Anything else (loops, maps, assignments through pointers, closures, goroutines ...) is rejected: gotrans exits
// with status 2 naming the construct, and the check reports that the tie between source and model is broken.
package main

import (
	"bytes"
	"fmt"
	"go/ast"
	"go/constant"
	"go/importer"
	"go/parser"
	"go/printer"
	"go/token"
	"go/types"
	"os"
	"path/filepath"
	"sort"
	"strings"
)

type unsupported struct{ msg string }

type tr struct {
	fset    *token.FileSet
	info    *types.Info
	pkg     *types.Package
	funcs   map[string]*ast.FuncDecl
	done    map[string]string // key -> generated definition
	order   []string
	tables  map[string]string
	records map[string]string
	recOrd  []string
	fresh   int
	cur     string
	// identifiers whose value is an error that has already been propagated by a monadic bind
	deadErr map[types.Object]bool
	// functions that contain a loop (directly or through a call) take a fuel argument
	needsFuel map[string]bool
	usesFuel  bool
	loops     []loopCtx
	nextLabel string
	ownPtr    map[types.Object]bool // local pointer variables initialised by &T{...}
	joins     []string              // what the branches of a non-leaving if end with
	fuelVar   string                // the fuel variable in scope
	depth     int
	externs   map[string]bool       // package functions that are oracles of the generated file (ext_<name>)
	split     map[string]bool       // functions whose top-level switch is emitted one definition per case
	ownSlice  map[types.Object]bool // local byte slices created by make: element stores are allowed
	usesFmt   bool
	curBufs   []string // names of the *bytes.Buffer parameters of the function being translated (in/out: returned last)
	extUsed   map[string]string // oracle name -> Gallina type
	extOrder  []string
}

type loopCtx struct {
	post  []ast.Stmt
	after [][]ast.Stmt
	back  string // the recursive call
	label string
}

func die(format string, a ...interface{}) {
	fmt.Fprintf(os.Stderr, "gotrans: "+format+"\n", a...)
	os.Exit(2)
}

func (t *tr) fail(n ast.Node, format string, a ...interface{}) {
	var b bytes.Buffer
	if n != nil {
		printer.Fprint(&b, t.fset, n)
	}
	s := b.String()
	if len(s) > 120 {
		s = s[:120] + "..."
	}
	pos := ""
	if n != nil {
		pos = t.fset.Position(n.Pos()).String()
	}
	panic(unsupported{fmt.Sprintf("%s: %s: %s [%s]", t.cur, pos, fmt.Sprintf(format, a...), s)})
}

func key(fd *ast.FuncDecl) string {
	if fd.Recv == nil || len(fd.Recv.List) == 0 {
		return fd.Name.Name
	}
	rt := fd.Recv.List[0].Type
	if s, ok := rt.(*ast.StarExpr); ok {
		rt = s.X
	}
	return rt.(*ast.Ident).Name + "." + fd.Name.Name
}

func gname(k string) string { return strings.ReplaceAll(k, ".", "_") + "_g" }

func vname(s string) string { return "v_" + s }

// ---- types ----

type ity struct {
	wrap   string
	bits   int
	signed bool
}

func intType(t types.Type) (ity, bool) {
	b, ok := t.Underlying().(*types.Basic)
	if !ok {
		return ity{}, false
	}
	switch b.Kind() {
	case types.Uint8:
		return ity{"u8", 8, false}, true
	case types.Uint16:
		return ity{"u16", 16, false}, true
	case types.Uint32:
		return ity{"u32", 32, false}, true
	case types.Uint64, types.Uint:
		return ity{"u64", 64, false}, true
	case types.Int8:
		return ity{"i8", 8, true}, true
	case types.Int16:
		return ity{"i16", 16, true}, true
	case types.Int32:
		return ity{"i32", 32, true}, true
	case types.Int64, types.Int:
		return ity{"i64", 64, true}, true
	case types.UntypedInt, types.UntypedRune:
		return ity{"", 0, true}, true
	}
	return ity{}, false
}

// byteWrapper: a named struct whose only field is an embedded byte-slice type (mysql56BinlogEvent{binlogEvent}), or the
// interface BinlogEvent, whose values in the translated functions are always such wrappers.  Both are represented by
// the bytes they wrap: the wrapper adds no state, and the methods the translated functions call on it are the promoted
// methods of the embedded type.
func byteWrapper(t types.Type) bool {
	if n, ok := t.(*types.Named); ok && n.Obj().Name() == "BinlogEvent" {
		if _, ok := n.Underlying().(*types.Interface); ok {
			return true
		}
	}
	st, ok := t.Underlying().(*types.Struct)
	if !ok || st.NumFields() != 1 || !st.Field(0).Embedded() {
		return false
	}
	sl, ok := st.Field(0).Type().Underlying().(*types.Slice)
	if !ok {
		return false
	}
	b, ok := sl.Elem().Underlying().(*types.Basic)
	return ok && b.Kind() == types.Uint8
}

func isBytes(t types.Type) bool {
	if byteWrapper(t) {
		return true
	}
	switch u := t.Underlying().(type) {
	case *types.Slice:
		b, ok := u.Elem().Underlying().(*types.Basic)
		return ok && b.Kind() == types.Uint8
	case *types.Basic:
		return u.Kind() == types.String || u.Kind() == types.UntypedString
	}
	return false
}

// isBuffer: bytes.Buffer or *bytes.Buffer, represented by the bytes written so far (only local buffers are accepted,
// a buffer is never passed to a translated function).
func isBuffer(t types.Type) bool {
	if p, ok := t.(*types.Pointer); ok {
		t = p.Elem()
	}
	n, ok := t.(*types.Named)
	return ok && n.Obj().Pkg() != nil && n.Obj().Pkg().Path() == "bytes" && n.Obj().Name() == "Buffer"
}

// floats are represented by their IEEE bit pattern (a Z); the only operations accepted on them are
// math.FloatNNfrombits, the conversion float64(float32) directly under strconv.AppendFloat, and strconv.AppendFloat itself.
func floatBits(t types.Type) int {
	b, ok := t.Underlying().(*types.Basic)
	if !ok {
		return 0
	}
	switch b.Kind() {
	case types.Float32:
		return 32
	case types.Float64:
		return 64
	}
	return 0
}

func (t *tr) oracle(name, ty string) string {
	if _, ok := t.extUsed[name]; !ok {
		t.extUsed[name] = ty
		t.extOrder = append(t.extOrder, name)
	}
	return name
}

func selName(fset *token.FileSet, e ast.Expr) string {
	var sb bytes.Buffer
	printer.Fprint(&sb, fset, e)
	return sb.String()
}

// fmtPieces parses a constant format string at translation time: literal text, %d %v %s %0Nd %Nd %.Nd %%.
func (t *tr) fmtPieces(n ast.Node, format string, args []ast.Expr, b *binds) string {
	var parts []string
	lit := ""
	flush := func() {
		if lit != "" {
			parts = append(parts, bytesLit(lit))
			lit = ""
		}
	}
	ai := 0
	for i := 0; i < len(format); i++ {
		c := format[i]
		if c != '%' {
			lit += string(c)
			continue
		}
		i++
		if i >= len(format) {
			t.fail(n, "format string ends in %%")
		}
		if format[i] == '%' {
			lit += "%"
			continue
		}
		zero, prec := false, false
		if format[i] == '0' {
			zero = true
			i++
		} else if format[i] == '.' {
			prec = true
			i++
		}
		w := -1
		for i < len(format) && format[i] >= '0' && format[i] <= '9' {
			if w < 0 {
				w = 0
			}
			w = w*10 + int(format[i]-'0')
			i++
		}
		if i >= len(format) || ai >= len(args) {
			t.fail(n, "format string / argument mismatch")
		}
		verb := format[i]
		arg := args[ai]
		ai++
		at := t.info.TypeOf(arg)
		x := t.expr(arg, b)
		_, isInt := intType(at)
		flush()
		switch {
		case (verb == 'd' || verb == 'v') && isInt:
			switch {
			case w < 0 && !zero && !prec:
				parts = append(parts, "(fmt_d "+x+")")
			case zero && w >= 0:
				parts = append(parts, fmt.Sprintf("(fmt_0d %d %s)", w, x))
			case prec && w >= 0:
				parts = append(parts, fmt.Sprintf("(fmt_pd %d %s)", w, x))
			case w >= 0:
				parts = append(parts, fmt.Sprintf("(fmt_sd %d %s)", w, x))
			default:
				t.fail(n, "format verb")
			}
		case (verb == 's' || verb == 'v') && isBytes(at) && w < 0 && !zero && !prec:
			parts = append(parts, x)
		default:
			t.fail(n, "format verb %%%c on %s", verb, at)
		}
	}
	flush()
	if ai != len(args) {
		t.fail(n, "format string / argument mismatch")
	}
	t.usesFmt = true
	if len(parts) == 0 {
		return "[]"
	}
	return "(" + strings.Join(parts, " ++ ") + ")"
}

func isBool(t types.Type) bool {
	b, ok := t.Underlying().(*types.Basic)
	return ok && (b.Kind() == types.Bool || b.Kind() == types.UntypedBool)
}

func isError(t types.Type) bool { return t.String() == "error" }

func isPtrToStruct(t types.Type) bool {
	p, ok := t.Underlying().(*types.Pointer)
	if !ok {
		return false
	}
	_, ok = p.Elem().Underlying().(*types.Struct)
	return ok
}

func deref(t types.Type) types.Type {
	if p, ok := t.Underlying().(*types.Pointer); ok {
		return p.Elem()
	}
	return t
}

// coqType names the Gallina type of a Go type (registering records on the way).
func (t *tr) coqType(n ast.Node, ty types.Type) string {
	if isBuffer(ty) {
		return "bytes"
	}
	ty = deref(ty)
	if _, ok := intType(ty); ok {
		return "Z"
	}
	if floatBits(ty) != 0 {
		return "Z"
	}
	if isBool(ty) {
		return "bool"
	}
	if isBytes(ty) {
		return "bytes"
	}
	if isIntList(ty) {
		return "(list Z)"
	}
	if sl, ok := ty.Underlying().(*types.Slice); ok {
		if _, ok := sl.Elem().Underlying().(*types.Struct); ok {
			return "(list " + t.coqType(n, sl.Elem()) + ")"
		}
	}
	if st, ok := ty.Underlying().(*types.Struct); ok {
		named, ok := ty.(*types.Named)
		if !ok {
			t.fail(n, "anonymous struct type")
		}
		name := named.Obj().Name()
		if _, ok := t.records[name]; !ok {
			t.records[name] = "" // break cycles
			var fs []string
			for i := 0; i < st.NumFields(); i++ {
				f := st.Field(i)
				if isPtrToStruct(f.Type()) {
					fs = append(fs, fmt.Sprintf("%s_%s : option %s", name, f.Name(), t.coqType(n, f.Type())))
					continue
				}
				fs = append(fs, fmt.Sprintf("%s_%s : %s", name, f.Name(), t.coqType(n, f.Type())))
			}
			t.records[name] = fmt.Sprintf("Record %s_r := { %s }.", name, strings.Join(fs, "; "))
			t.recOrd = append(t.recOrd, name)
		}
		return name + "_r"
	}
	t.fail(n, "unsupported type %s", ty)
	return ""
}

func (t *tr) zero(n ast.Node, ty types.Type) string {
	ty = deref(ty)
	if _, ok := intType(ty); ok {
		return "0"
	}
	if isBool(ty) {
		return "false"
	}
	if isBytes(ty) || isIntList(ty) {
		return "[]"
	}
	if _, ok := ty.Underlying().(*types.Slice); ok {
		t.coqType(n, ty)
		return "[]"
	}
	if st, ok := ty.Underlying().(*types.Struct); ok {
		name := ty.(*types.Named).Obj().Name()
		t.coqType(n, ty)
		var fs []string
		for i := 0; i < st.NumFields(); i++ {
			f := st.Field(i)
			if isPtrToStruct(f.Type()) {
				fs = append(fs, fmt.Sprintf("%s_%s := None", name, f.Name()))
				continue
			}
			fs = append(fs, fmt.Sprintf("%s_%s := %s", name, f.Name(), t.zero(n, f.Type())))
		}
		return "{| " + strings.Join(fs, "; ") + " |}"
	}
	t.fail(n, "no zero value for %s", ty)
	return ""
}

// ---- expressions ----

type binds struct{ lines []string }

func (b *binds) add(s string) { b.lines = append(b.lines, s) }

func (t *tr) tmp() string {
	t.fresh++
	return fmt.Sprintf("t%d", t.fresh)
}

func zlit(v constant.Value) string {
	s := v.ExactString()
	if strings.HasPrefix(s, "-") {
		return "(" + s + ")"
	}
	return s
}

func bytesLit(s string) string {
	if len(s) == 0 {
		return "[]"
	}
	ps := make([]string, len(s))
	for i := 0; i < len(s); i++ {
		ps[i] = fmt.Sprint(s[i])
	}
	return "[" + strings.Join(ps, "; ") + "]"
}

// wrapTo wraps term x (whose static type is from) to the integer type to, unless every value of from fits.
func wrapTo(x string, from, to ity) string {
	if to.wrap == "" {
		return x
	}
	if from.wrap != "" {
		if from.signed == to.signed && from.bits <= to.bits {
			return x
		}
		if !from.signed && to.signed && from.bits < to.bits {
			return x
		}
	}
	return "(" + to.wrap + " " + x + ")"
}

func (t *tr) expr(e ast.Expr, b *binds) string {
	tv, ok := t.info.Types[e]
	if ok && tv.Value != nil {
		switch tv.Value.Kind() {
		case constant.Int:
			return zlit(tv.Value)
		case constant.Bool:
			if constant.BoolVal(tv.Value) {
				return "true"
			}
			return "false"
		case constant.String:
			return bytesLit(constant.StringVal(tv.Value))
		}
	}
	switch e := e.(type) {
	case *ast.ParenExpr:
		return t.expr(e.X, b)
	case *ast.Ident:
		obj := t.info.Uses[e]
		if obj == nil {
			obj = t.info.Defs[e]
		}
		switch o := obj.(type) {
		case *types.Var:
			if o.Parent() == t.pkg.Scope() {
				return t.table(e, o)
			}
			return vname(e.Name)
		case *types.Nil:
			t.fail(e, "nil outside an error position")
		}
		t.fail(e, "identifier")
	case *ast.StarExpr:
		return t.expr(e.X, b)
	case *ast.UnaryExpr:
		if cl, ok := e.X.(*ast.CompositeLit); ok && e.Op == token.AND && isBuffer(t.info.TypeOf(cl)) && len(cl.Elts) == 0 {
			return "[]"
		}
		x := t.expr(e.X, b)
		switch e.Op {
		case token.NOT:
			return "(negb " + x + ")"
		case token.SUB:
			it, _ := intType(tv.Type)
			return wrapTo("(- "+x+")", ity{}, it)
		case token.XOR:
			it, _ := intType(tv.Type)
			return wrapTo("(Z.lnot "+x+")", ity{}, it)
		case token.AND:
			return x // address of a value that is only read (&bytes.Buffer{}: the empty buffer)
		case token.ADD:
			return x
		}
		t.fail(e, "unary operator")
	case *ast.BinaryExpr:
		return t.binary(e, b)
	case *ast.CallExpr:
		r := t.call(e, b, false)
		return r
	case *ast.IndexExpr:
		xt := t.info.TypeOf(e.X)
		x := t.expr(e.X, b)
		i := t.expr(e.Index, b)
		if isBytes(xt) || isIntList(xt) {
			v := t.tmp()
			b.add(fmt.Sprintf("do %s <- go_idx %s %s;", v, x, i))
			return v
		}
		t.fail(e, "index into %s", xt)
	case *ast.SliceExpr:
		if e.Slice3 {
			t.fail(e, "3-index slice")
		}
		if !isBytes(t.info.TypeOf(e.X)) {
			t.fail(e, "slice of %s", t.info.TypeOf(e.X))
		}
		x := t.expr(e.X, b)
		v := t.tmp()
		switch {
		case e.Low != nil && e.High != nil:
			b.add(fmt.Sprintf("do %s <- go_slice %s %s %s;", v, x, t.expr(e.Low, b), t.expr(e.High, b)))
		case e.Low != nil:
			b.add(fmt.Sprintf("do %s <- go_slice_from %s %s;", v, x, t.expr(e.Low, b)))
		case e.High != nil:
			b.add(fmt.Sprintf("do %s <- go_slice_to %s %s;", v, x, t.expr(e.High, b)))
		default:
			return x
		}
		return v
	case *ast.SelectorExpr:
		// field of a struct value
		if sel, ok := t.info.Selections[e]; ok && sel.Kind() == types.FieldVal {
			rt := deref(sel.Recv())
			named, ok := rt.(*types.Named)
			if !ok {
				t.fail(e, "field of unnamed type")
			}
			t.coqType(e, rt)
			return fmt.Sprintf("(%s_%s %s)", named.Obj().Name(), e.Sel.Name, t.expr(e.X, b))
		}
		t.fail(e, "selector")
	case *ast.CompositeLit:
		ty := t.info.TypeOf(e)
		if byteWrapper(ty) {
			if len(e.Elts) != 1 {
				t.fail(e, "literal of a byte wrapper without its field")
			}
			if kv, ok := e.Elts[0].(*ast.KeyValueExpr); ok {
				return t.expr(kv.Value, b)
			}
			return t.expr(e.Elts[0], b)
		}
		if isBytes(ty) || isIntList(ty) {
			var els []string
			for _, el := range e.Elts {
				if _, ok := el.(*ast.KeyValueExpr); ok {
					t.fail(e, "keyed slice literal")
				}
				els = append(els, t.expr(el, b))
			}
			return "[" + strings.Join(els, "; ") + "]"
		}
		st, ok := ty.Underlying().(*types.Struct)
		if !ok {
			t.fail(e, "composite literal of %s", ty)
		}
		name := ty.(*types.Named).Obj().Name()
		t.coqType(e, ty)
		vals := map[string]string{}
		for i, el := range e.Elts {
			if kv, ok := el.(*ast.KeyValueExpr); ok {
				vals[kv.Key.(*ast.Ident).Name] = t.expr(kv.Value, b)
			} else {
				vals[st.Field(i).Name()] = t.expr(el, b)
			}
		}
		var fs []string
		for i := 0; i < st.NumFields(); i++ {
			f := st.Field(i)
			v, ok := vals[f.Name()]
			if !ok {
				v = t.zero(e, f.Type())
			}
			fs = append(fs, fmt.Sprintf("%s_%s := %s", name, f.Name(), v))
		}
		return "{| " + strings.Join(fs, "; ") + " |}"
	}
	t.fail(e, "expression %T", e)
	return ""
}

func isIntList(ty types.Type) bool {
	switch u := ty.Underlying().(type) {
	case *types.Slice:
		_, ok := intType(u.Elem())
		return ok
	case *types.Array:
		_, ok := intType(u.Elem())
		return ok
	}
	return false
}

// table emits a package-level variable initialised by a literal list of integer constants (or a []byte("...")).
func (t *tr) table(n ast.Node, o *types.Var) string {
	name := "tab_" + o.Name()
	if _, ok := t.tables[name]; ok {
		return name
	}
	for _, f := range t.files() {
		for _, d := range f.Decls {
			gd, ok := d.(*ast.GenDecl)
			if !ok || gd.Tok != token.VAR {
				continue
			}
			for _, sp := range gd.Specs {
				vs := sp.(*ast.ValueSpec)
				for i, id := range vs.Names {
					if t.info.Defs[id] != o || i >= len(vs.Values) {
						continue
					}
					var elems []string
					switch v := vs.Values[i].(type) {
					case *ast.CompositeLit:
						if !isIntList(t.info.TypeOf(v)) {
							t.fail(n, "table %s is not a list of integers", o.Name())
						}
						for _, el := range v.Elts {
							tv := t.info.Types[el]
							if tv.Value == nil || tv.Value.Kind() != constant.Int {
								t.fail(n, "table %s has a non-constant element", o.Name())
							}
							elems = append(elems, zlit(tv.Value))
						}
					case *ast.CallExpr: // []byte("...")
						if len(v.Args) == 1 {
							if tv := t.info.Types[v.Args[0]]; tv.Value != nil && tv.Value.Kind() == constant.String {
								s := constant.StringVal(tv.Value)
								for k := 0; k < len(s); k++ {
									elems = append(elems, fmt.Sprint(s[k]))
								}
								break
							}
						}
						t.fail(n, "table %s: unsupported initialiser", o.Name())
					default:
						t.fail(n, "table %s: unsupported initialiser", o.Name())
					}
					t.tables[name] = fmt.Sprintf("Definition %s : list Z := [%s].", name, strings.Join(elems, "; "))
					return name
				}
			}
		}
	}
	t.fail(n, "package variable %s has no literal initialiser", o.Name())
	return ""
}

var fileList []*ast.File

func (t *tr) files() []*ast.File { return fileList }

func hasEffects(b *binds, mark int) bool { return len(b.lines) > mark }

func (t *tr) binary(e *ast.BinaryExpr, b *binds) string {
	rt := t.info.TypeOf(e)
	switch e.Op {
	case token.LAND, token.LOR:
		x := t.expr(e.X, b)
		var inner binds
		y := t.expr(e.Y, &inner)
		if len(inner.lines) == 0 {
			if e.Op == token.LAND {
				return "(" + x + " && " + y + ")"
			}
			return "(" + x + " || " + y + ")"
		}
		// the right operand is evaluated only when needed
		v := t.tmp()
		body := strings.Join(inner.lines, " ") + " Ok " + y
		if e.Op == token.LAND {
			b.add(fmt.Sprintf("do %s <- (if %s then (%s) else Ok false);", v, x, body))
		} else {
			b.add(fmt.Sprintf("do %s <- (if %s then Ok true else (%s));", v, x, body))
		}
		return v
	}
	xt, yt := t.info.TypeOf(e.X), t.info.TypeOf(e.Y)
	x, y := t.expr(e.X, b), t.expr(e.Y, b)
	switch e.Op {
	case token.EQL, token.NEQ:
		var r string
		switch {
		case isBool(xt):
			r = "(Bool.eqb " + x + " " + y + ")"
		case isBytes(xt):
			r = "(bytes_eqb " + x + " " + y + ")"
		default:
			if _, ok := intType(xt); !ok {
				t.fail(e, "comparison of %s", xt)
			}
			r = "(" + x + " =? " + y + ")"
		}
		if e.Op == token.NEQ {
			return "(negb " + r + ")"
		}
		return r
	case token.LSS, token.LEQ, token.GTR, token.GEQ:
		if _, ok := intType(xt); !ok {
			t.fail(e, "ordering of %s", xt)
		}
		op := map[token.Token]string{token.LSS: "<?", token.LEQ: "<=?", token.GTR: ">?", token.GEQ: ">=?"}[e.Op]
		return "(" + x + " " + op + " " + y + ")"
	}
	it, ok := intType(rt)
	if !ok {
		if isBytes(rt) && e.Op == token.ADD {
			return "(" + x + " ++ " + y + ")"
		}
		t.fail(e, "operator on %s", rt)
	}
	w := func(s string) string {
		if it.wrap == "" {
			return s
		}
		return "(" + it.wrap + " " + s + ")"
	}
	_ = yt
	switch e.Op {
	case token.ADD:
		return w("(" + x + " + " + y + ")")
	case token.SUB:
		return w("(" + x + " - " + y + ")")
	case token.MUL:
		return w("(" + x + " * " + y + ")")
	case token.QUO, token.REM:
		ytv := t.info.Types[e.Y]
		constNonZero := ytv.Value != nil && ytv.Value.Kind() == constant.Int && constant.Sign(ytv.Value) != 0
		if constNonZero && !it.signed {
			if e.Op == token.QUO {
				return "(" + x + " / " + y + ")"
			}
			return "(" + x + " mod " + y + ")"
		}
		if constNonZero {
			// (MinInt / -1 is the only overflow; wrap keeps the result in range)
			if e.Op == token.QUO {
				return w("(Z.quot " + x + " " + y + ")")
			}
			return "(Z.rem " + x + " " + y + ")"
		}
		v := t.tmp()
		if e.Op == token.QUO {
			b.add(fmt.Sprintf("do %s <- go_quot %s %s;", v, x, y))
			return w(v)
		}
		b.add(fmt.Sprintf("do %s <- go_rem %s %s;", v, x, y))
		return v
	case token.AND:
		return "(Z.land " + x + " " + y + ")"
	case token.OR:
		return "(Z.lor " + x + " " + y + ")"
	case token.XOR:
		return "(Z.lxor " + x + " " + y + ")"
	case token.AND_NOT:
		return "(Z.ldiff " + x + " " + y + ")"
	case token.SHL, token.SHR:
		// a negative shift count panics; only unsigned or constant counts are accepted
		ci, _ := intType(yt)
		ytv := t.info.Types[e.Y]
		if ci.signed && !(ytv.Value != nil && constant.Sign(ytv.Value) >= 0) {
			t.fail(e, "shift by a signed non-constant count")
		}
		if e.Op == token.SHL {
			wr := it.wrap
			if wr == "" {
				wr = "(fun z => z)"
			}
			return "(go_shl " + wr + " " + x + " " + y + ")"
		}
		return "(go_shr " + x + " " + y + ")"
	}
	t.fail(e, "binary operator %s", e.Op)
	return ""
}

// call translates a call expression; the result is a pure term naming the (tuple of) results.
func (t *tr) call(e *ast.CallExpr, b *binds, stmt bool) string {
	// conversion
	if tv, ok := t.info.Types[e.Fun]; ok && tv.IsType() {
		if len(e.Args) != 1 {
			t.fail(e, "conversion arity")
		}
		to := tv.Type
		from := t.info.TypeOf(e.Args[0])
		if floatBits(to) != 0 || floatBits(from) != 0 {
			t.fail(e, "conversion of a float outside strconv.AppendFloat")
		}
		x := t.expr(e.Args[0], b)
		if ti, ok := intType(to); ok {
			fi, ok2 := intType(from)
			if !ok2 {
				t.fail(e, "conversion from %s", from)
			}
			return wrapTo(x, fi, ti)
		}
		if isBytes(to) && isBytes(from) {
			return x
		}
		if isBool(to) && isBool(from) {
			return x
		}
		t.fail(e, "conversion to %s", to)
	}
	// builtins
	if id, ok := e.Fun.(*ast.Ident); ok {
		if _, isB := t.info.Uses[id].(*types.Builtin); isB {
			switch id.Name {
			case "len":
				at := t.info.TypeOf(e.Args[0])
				if _, isSlice := at.Underlying().(*types.Slice); !isBytes(at) && !isIntList(at) && !isSlice {
					t.fail(e, "len of %s", at)
				}
				return "(len " + t.expr(e.Args[0], b) + ")"
			case "make":
				mt := t.info.TypeOf(e)
				if len(e.Args) != 2 || !(isIntList(mt) || isBytes(mt)) {
					t.fail(e, "make")
				}
				v := t.tmp()
				b.add(fmt.Sprintf("do %s <- go_make %s;", v, t.expr(e.Args[1], b)))
				return v
			case "copy":
				t.fail(e, "copy outside a statement")
			case "append":
				if len(e.Args) != 2 || e.Ellipsis.IsValid() {
					t.fail(e, "append shape")
				}
				t.coqType(e, t.info.TypeOf(e))
				return "(" + t.expr(e.Args[0], b) + " ++ [" + t.expr(e.Args[1], b) + "])"
			}
			t.fail(e, "builtin %s", id.Name)
		}
	}
	// encoding/binary
	if sel, ok := e.Fun.(*ast.SelectorExpr); ok {
		var sb bytes.Buffer
		printer.Fprint(&sb, t.fset, sel)
		s := sb.String()
		for _, p := range []struct {
			pre, fn string
		}{{"binary.LittleEndian.Uint", "go_le"}, {"binary.BigEndian.Uint", "go_be"}} {
			if strings.HasPrefix(s, p.pre) {
				n := map[string]int{"16": 2, "32": 4, "64": 8}[strings.TrimPrefix(s, p.pre)]
				if n == 0 || len(e.Args) != 1 {
					t.fail(e, "binary call")
				}
				v := t.tmp()
				b.add(fmt.Sprintf("do %s <- %s %s %d;", v, p.fn, t.expr(e.Args[0], b), n))
				return v
			}
		}
	}
	if sel, ok := e.Fun.(*ast.SelectorExpr); ok {
		var sb bytes.Buffer
		printer.Fprint(&sb, t.fset, sel)
		if sb.String() == "bytes.TrimRight" && len(e.Args) == 2 {
			return "(go_trim_right " + t.expr(e.Args[0], b) + " " + t.expr(e.Args[1], b) + ")"
		}
		isNil := func(a ast.Expr) bool { id, ok := a.(*ast.Ident); return ok && id.Name == "nil" }
		constIs := func(a ast.Expr, want int64) bool {
			tv := t.info.Types[a]
			if tv.Value == nil {
				return false
			}
			v, ok := constant.Int64Val(constant.ToInt(tv.Value))
			return ok && v == want
		}
		switch sb.String() {
		case "strconv.AppendInt", "strconv.AppendUint":
			// strconv.AppendInt(nil, x, 10): the decimal text of x
			if len(e.Args) != 3 || !isNil(e.Args[0]) || !constIs(e.Args[2], 10) {
				t.fail(e, "strconv.Append(U)int shape")
			}
			t.usesFmt = true
			return "(fmt_d " + t.expr(e.Args[1], b) + ")"
		case "strconv.AppendFloat":
			// strconv.AppendFloat(nil, f, 'f', -1, N): the oracle ext_ffmt N (bits of f at width N)
			if len(e.Args) != 5 || !isNil(e.Args[0]) || !(constIs(e.Args[2], 'f') || constIs(e.Args[2], 'E')) || !constIs(e.Args[3], -1) {
				t.fail(e, "strconv.AppendFloat shape")
			}
			if constIs(e.Args[2], 'E') {
				// 'E' formatting of a float64: the oracle ext_efmt (bits)
				if floatBits(t.info.TypeOf(e.Args[1])) != 64 || !constIs(e.Args[4], 64) {
					t.fail(e, "strconv.AppendFloat 'E' of a non-float64")
				}
				return fmt.Sprintf("(%s %s)", t.oracle("ext_efmt", "Z -> bytes"), t.expr(e.Args[1], b))
			}
			f := e.Args[1]
			width := floatBits(t.info.TypeOf(f))
			if c, ok := f.(*ast.CallExpr); ok {
				if tv, ok := t.info.Types[c.Fun]; ok && tv.IsType() && floatBits(tv.Type) == 64 && len(c.Args) == 1 {
					f = c.Args[0] // float64(x) with x a float32: formatted at width 32 below
					width = floatBits(t.info.TypeOf(f))
				}
			}
			if width == 0 || !constIs(e.Args[4], int64(width)) {
				t.fail(e, "strconv.AppendFloat: the bit size does not match the operand")
			}
			return fmt.Sprintf("(%s %d %s)", t.oracle("ext_ffmt", "Z -> Z -> bytes"), width, t.expr(f, b))
		case "math.Float32frombits", "math.Float64frombits":
			return t.expr(e.Args[0], b)
		case "fmt.Sprintf":
			tv := t.info.Types[e.Args[0]]
			if tv.Value == nil || tv.Value.Kind() != constant.String {
				t.fail(e, "fmt.Sprintf with a non-constant format")
			}
			return t.fmtPieces(e, constant.StringVal(tv.Value), e.Args[1:], b)
		}
		// methods of a local bytes.Buffer that only read it
		if isBuffer(t.info.TypeOf(sel.X)) && sel.Sel.Name == "Bytes" && len(e.Args) == 0 {
			return t.expr(sel.X, b)
		}
	}
	// oracles: package functions the generated file takes as parameters (ext_<name>)
	if id, ok := e.Fun.(*ast.Ident); ok && t.externs[id.Name] {
		fn, ok := t.info.Uses[id].(*types.Func)
		if !ok || fn.Pkg() != t.pkg {
			t.fail(e, "extern that is not a package function")
		}
		sig := fn.Type().(*types.Signature)
		var pts, args []string
		for i := 0; i < sig.Params().Len(); i++ {
			pts = append(pts, t.coqType(e, sig.Params().At(i).Type()))
			args = append(args, t.expr(e.Args[i], b))
		}
		res := sig.Results()
		hasErr := res.Len() > 0 && isError(res.At(res.Len()-1).Type())
		var rts []string
		for i := 0; i < res.Len(); i++ {
			if hasErr && i == res.Len()-1 {
				continue
			}
			rts = append(rts, t.coqType(e, res.At(i).Type()))
		}
		rt := strings.Join(rts, " * ")
		if hasErr {
			name := t.oracle("ext_"+id.Name, strings.Join(pts, " -> ")+" -> res ("+rt+")")
			v := t.tmp()
			b.add(fmt.Sprintf("do %s <- %s %s;", v, name, strings.Join(args, " ")))
			return v
		}
		name := t.oracle("ext_"+id.Name, strings.Join(pts, " -> ")+" -> "+rt)
		return "(" + name + " " + strings.Join(args, " ") + ")"
	}
	// package function or method with a translation
	var k string
	var recv ast.Expr
	switch f := e.Fun.(type) {
	case *ast.Ident:
		if fn, ok := t.info.Uses[f].(*types.Func); ok && fn.Pkg() == t.pkg {
			k = f.Name
		}
	case *ast.SelectorExpr:
		if sel, ok := t.info.Selections[f]; ok && sel.Kind() == types.MethodVal {
			if fn, ok := sel.Obj().(*types.Func); ok && fn.Pkg() == t.pkg {
				rt := deref(sel.Recv())
				if byteWrapper(rt) {
					// a method promoted from the embedded byte-slice type: the receiver it is declared on
					if r := fn.Type().(*types.Signature).Recv(); r != nil {
						rt = deref(r.Type())
					}
				}
				if named, ok := rt.(*types.Named); ok {
					k = named.Obj().Name() + "." + f.Sel.Name
					recv = f.X
				}
			}
		}
	}
	if k == "" {
		t.fail(e, "call")
	}
	if _, ok := t.funcs[k]; !ok {
		t.fail(e, "call of %s, which has no body in the package", k)
	}
	t.function(k)
	var args []string
	if t.needsFuel[k] {
		args = append(args, t.fuelVar)
		t.usesFuel = true
	}
	if recv != nil {
		args = append(args, t.expr(recv, b))
	}
	var bufArgs []string
	for _, a := range e.Args {
		if isBuffer(t.info.TypeOf(a)) {
			// a local buffer handed to the callee: in/out, the callee returns its new contents last
			id, ok := a.(*ast.Ident)
			if !ok {
				t.fail(e, "a bytes.Buffer argument that is not a variable")
			}
			bufArgs = append(bufArgs, vname(id.Name))
		}
		args = append(args, t.expr(a, b))
	}
	v := t.tmp()
	if len(bufArgs) == 0 {
		b.add(fmt.Sprintf("do %s <- %s %s;", v, gname(k), strings.Join(args, " ")))
		return v
	}
	csig := t.info.Defs[t.funcs[k].Name].(*types.Func).Type().(*types.Signature)
	nres := csig.Results().Len()
	if nres > 0 && isError(csig.Results().At(nres-1).Type()) {
		nres--
	}
	var pats, outs []string
	for i := 0; i < nres; i++ {
		x := t.tmp()
		pats = append(pats, x)
		outs = append(outs, x)
	}
	var rebinds []string
	for _, ba := range bufArgs {
		x := t.tmp()
		pats = append(pats, x)
		rebinds = append(rebinds, fmt.Sprintf("let %s := %s in", ba, x))
	}
	pat := pats[0]
	if len(pats) > 1 {
		pat = "'(" + strings.Join(pats, ", ") + ")"
	}
	b.add(fmt.Sprintf("do %s <- %s %s; %s", pat, gname(k), strings.Join(args, " "), strings.Join(rebinds, " ")))
	switch len(outs) {
	case 0:
		return "tt"
	case 1:
		return outs[0]
	}
	return "(" + strings.Join(outs, ", ") + ")"
}

// ---- statements ----

type env struct {
	results *types.Tuple
}

func isErrCall(t *tr, e ast.Expr) bool {
	return isError(t.info.TypeOf(e))
}

func (t *tr) ret(s *ast.ReturnStmt, ev env) string {
	n := ev.results.Len()
	if len(s.Results) != n {
		if len(s.Results) == 1 && n > 1 {
			// return f(...) forwarding a tuple
			var b binds
			v := t.expr(s.Results[0], &b)
			return strings.Join(b.lines, " ") + " Ok " + v
		}
		t.fail(s, "bare or mismatching return")
	}
	hasErr := n > 0 && isError(ev.results.At(n-1).Type())
	var b binds
	var vals []string
	bufOut := func() string {
		var bs []string
		for _, n := range t.curBufs {
			bs = append(bs, vname(n))
		}
		if len(bs) == 1 {
			return bs[0]
		}
		return "(" + strings.Join(bs, ", ") + ")"
	}
	if hasErr && n == 1 && len(t.curBufs) > 0 {
		if c, ok := s.Results[0].(*ast.CallExpr); ok && isError(t.info.TypeOf(c)) && t.pkgCall(c) {
			// return f(..., result): the callee's error is propagated by the bind, its buffer contents are returned
			t.call(c, &b, true)
			return strings.TrimSpace(strings.Join(b.lines, " ") + " Ok " + bufOut())
		}
	}
	if hasErr {
		if id, ok := s.Results[n-1].(*ast.Ident); !(ok && id.Name == "nil") {
			if ok && t.deadErr[t.objOf(id)] {
				t.fail(s, "return of an error that was already propagated")
			}
			// a non-nil error: everything else is irrelevant
			return "Err EOther"
		}
	}
	for i, r := range s.Results {
		if hasErr && i == n-1 {
			continue
		}
		if id, ok := r.(*ast.Ident); ok && id.Name == "nil" {
			if rt := ev.results.At(i).Type(); isBytes(rt) && !byteWrapper(rt) {
				vals = append(vals, "[]") // a nil byte slice: no bytes
				continue
			}
			t.fail(s, "nil result")
		}
		vals = append(vals, t.expr(r, &b))
	}
	for _, n := range t.curBufs {
		vals = append(vals, vname(n))
	}
	out := "tt"
	if len(vals) == 1 {
		out = vals[0]
	} else if len(vals) > 1 {
		out = "(" + strings.Join(vals, ", ") + ")"
	}
	return strings.TrimSpace(strings.Join(b.lines, " ") + " Ok " + out)
}

// stmts translates a statement list followed by the continuation k (statements after the enclosing block).
func (t *tr) stmts(list []ast.Stmt, k [][]ast.Stmt, ev env) string {
	if len(list) == 0 {
		if len(k) == 0 {
			if ev.results.Len() == 0 && len(t.curBufs) > 0 {
				return t.ret(&ast.ReturnStmt{}, ev) // a function without results that writes to a buffer: its contents
			}
			t.fail(nil, "control reaches the end of the function")
		}
		return t.stmts(k[0], k[1:], ev)
	}
	s, rest := list[0], list[1:]
	cont := func() string { return t.stmts(rest, k, ev) }
	push := func() [][]ast.Stmt { return append([][]ast.Stmt{rest}, k...) }
	switch s := s.(type) {
	case *ast.ReturnStmt:
		return t.ret(s, ev)
	case *ast.BlockStmt:
		return t.stmts(s.List, push(), ev)
	case *ast.ExprStmt:
		if c, ok := s.X.(*ast.CallExpr); ok {
			if id, ok := c.Fun.(*ast.Ident); ok && id.Name == "panic" {
				return "Panic"
			}
		}
		if c, ok := s.X.(*ast.CallExpr); ok {
			if r, ok := t.effectCall(c); ok {
				return r + "\n  " + cont()
			}
			if id, ok := c.Fun.(*ast.Ident); ok {
				if fn, ok := t.info.Uses[id].(*types.Func); ok && fn.Pkg() == t.pkg {
					var b binds
					t.call(c, &b, true)
					return strings.Join(b.lines, " ") + "\n  " + cont()
				}
			}
		}
		t.fail(s, "expression statement")
	case *ast.DeclStmt:
		gd := s.Decl.(*ast.GenDecl)
		if gd.Tok != token.VAR {
			return cont()
		}
		var out []string
		for _, sp := range gd.Specs {
			vs := sp.(*ast.ValueSpec)
			for i, id := range vs.Names {
				var b binds
				var v string
				if isError(t.info.TypeOf(id)) && len(vs.Values) == 0 {
					continue
				}
				if i < len(vs.Values) {
					v = t.expr(vs.Values[i], &b)
					if it, ok := intType(t.info.TypeOf(id)); ok {
						ft, _ := intType(t.info.TypeOf(vs.Values[i]))
						v = wrapTo(v, ft, it)
					}
				} else {
					v = t.zero(s, t.info.TypeOf(id))
				}
				out = append(out, strings.Join(b.lines, " ")+fmt.Sprintf(" let %s := %s in", vname(id.Name), v))
			}
		}
		return strings.TrimSpace(strings.Join(out, " ")) + "\n  " + cont()
	case *ast.AssignStmt:
		return t.assign(s) + "\n  " + cont()
	case *ast.BranchStmt:
		if len(t.loops) == 0 {
			t.fail(s, "branch statement outside a loop")
		}
		li := len(t.loops) - 1
		if s.Label != nil {
			li = -1
			for i := range t.loops {
				if t.loops[i].label == s.Label.Name {
					li = i
				}
			}
			if li < 0 {
				t.fail(s, "unknown label")
			}
		}
		if li != len(t.loops)-1 {
			t.fail(s, "branch out of a nested loop")
		}
		lc := t.loops[li]
		switch s.Tok {
		case token.BREAK:
			saved := t.loops
			t.loops = t.loops[:li]
			r := t.stmts(nil, lc.after, ev)
			t.loops = saved
			return r
		case token.CONTINUE:
			return t.stmts(lc.post, [][]ast.Stmt{{&ast.EmptyStmt{Implicit: true}}}, ev)
		}
		t.fail(s, "branch statement")
	case *ast.LabeledStmt:
		if _, ok := s.Stmt.(*ast.ForStmt); !ok {
			t.fail(s, "label on a non-loop")
		}
		t.nextLabel = s.Label.Name
		return t.stmts(append([]ast.Stmt{s.Stmt}, rest...), k, ev)
	case *ast.BadStmt:
		if len(t.joins) == 0 || len(rest) != 0 || len(k) != 0 {
			t.fail(s, "internal: join marker")
		}
		return t.joins[len(t.joins)-1]
	case *ast.EmptyStmt:
		if s.Implicit && len(t.loops) > 0 && len(rest) == 0 && len(k) == 0 {
			return t.loops[len(t.loops)-1].back // end of a loop iteration
		}
		return cont()
	case *ast.ForStmt:
		return t.forLoop(s.Init, s.Cond, s.Post, s.Body.List, push(), ev)
	case *ast.RangeStmt:
		// for i, x := range xs  ==  xs0 := xs; for i := 0; i < len(xs0); i++ { x := xs0[i]; ... }
		if s.Tok != token.DEFINE {
			t.fail(s, "range without :=")
		}
		xt := t.info.TypeOf(s.X)
		if !isBytes(xt) && !isIntList(xt) {
			t.fail(s, "range over %s", xt)
		}
		t.fresh++
		xs := ast.NewIdent(fmt.Sprintf("range%d", t.fresh))
		iv := ast.NewIdent(fmt.Sprintf("rangei%d", t.fresh))
		if id, ok := s.Key.(*ast.Ident); ok && id.Name != "_" {
			iv = id
		}
		var b binds
		xsv := t.expr(s.X, &b)
		intT := types.Typ[types.Int]
		mk := func(e ast.Expr, ty types.Type) ast.Expr { t.info.Types[e] = types.TypeAndValue{Type: ty}; return e }
		ivObj := types.NewVar(token.NoPos, t.pkg, iv.Name, intT)
		if t.info.Defs[iv] == nil {
			t.info.Defs[iv] = ivObj
		}
		xsObj := types.NewVar(token.NoPos, t.pkg, xs.Name, xt)
		t.info.Defs[xs] = xsObj
		use := func(id *ast.Ident) *ast.Ident {
			u := ast.NewIdent(id.Name)
			t.info.Uses[u] = t.objOf(id)
			return u
		}
		zeroLit := &ast.BasicLit{Kind: token.INT, Value: "0"}
		t.info.Types[zeroLit] = types.TypeAndValue{Type: intT, Value: constant.MakeInt64(0)}
		lenCall := &ast.CallExpr{Fun: ast.NewIdent("len"), Args: []ast.Expr{mk(use(xs), xt)}}
		t.info.Uses[lenCall.Fun.(*ast.Ident)] = types.Universe.Lookup("len")
		mk(lenCall, intT)
		cond := mk(&ast.BinaryExpr{X: mk(use(iv), intT), Op: token.LSS, Y: lenCall}, types.Typ[types.Bool])
		body := s.Body.List
		if id, ok := s.Value.(*ast.Ident); ok && id.Name != "_" {
			et := t.info.TypeOf(id)
			ix := mk(&ast.IndexExpr{X: mk(use(xs), xt), Index: mk(use(iv), intT)}, et)
			body = append([]ast.Stmt{&ast.AssignStmt{Lhs: []ast.Expr{id}, Tok: token.DEFINE, Rhs: []ast.Expr{ix}}}, body...)
		}
		init := &ast.AssignStmt{Lhs: []ast.Expr{iv}, Tok: token.DEFINE, Rhs: []ast.Expr{zeroLit}}
		post := &ast.IncDecStmt{X: use(iv), Tok: token.INC}
		t.info.Types[post.X] = types.TypeAndValue{Type: intT}
		return strings.Join(b.lines, " ") + fmt.Sprintf(" let %s := %s in\n  ", vname(xs.Name), xsv) + t.forLoop(init, cond, post, body, push(), ev)
	case *ast.IncDecStmt:
		id, ok := s.X.(*ast.Ident)
		if !ok {
			t.fail(s, "inc/dec of a non-variable")
		}
		it, _ := intType(t.info.TypeOf(id))
		op := "+"
		if s.Tok == token.DEC {
			op = "-"
		}
		return fmt.Sprintf("let %s := (%s (%s %s 1)) in\n  %s", vname(id.Name), it.wrap, vname(id.Name), op, cont())
	case *ast.IfStmt:
		pre := ""
		if s.Init != nil {
			as, ok := s.Init.(*ast.AssignStmt)
			if !ok {
				t.fail(s, "if initialiser")
			}
			pre = t.assign(as) + " "
		}
		// `if err != nil { ... }` after a bind that already propagated the error
		if be, ok := s.Cond.(*ast.BinaryExpr); ok && be.Op == token.NEQ {
			if id, ok := be.X.(*ast.Ident); ok {
				if y, ok := be.Y.(*ast.Ident); ok && y.Name == "nil" && t.deadErr[t.objOf(id)] {
					if s.Else != nil {
						return pre + t.stmts([]ast.Stmt{s.Else}, push(), ev)
					}
					return pre + cont()
				}
			}
		}
		var b binds
		c := t.expr(s.Cond, &b)
		if !t.exits(s.Body) && (s.Else == nil || !t.exits(s.Else)) {
			// neither branch leaves: compute the variables the branches assign, then go on once
			var state []*types.Var
			blocks := []ast.Stmt{s.Body}
			if s.Else != nil {
				blocks = append(blocks, s.Else)
			}
			t.assigned(blocks, map[types.Object]bool{}, &state, map[types.Object]bool{})
			var ns []string
			for _, o := range state {
				ns = append(ns, vname(o.Name()))
			}
			tuple, pat := "tt", "_"
			if len(ns) == 1 {
				tuple, pat = ns[0], ns[0]
			} else if len(ns) > 1 {
				tuple = "(" + strings.Join(ns, ", ") + ")"
				pat = tuple
			}
			t.joins = append(t.joins, "Ok "+tuple)
			marker := [][]ast.Stmt{{&ast.BadStmt{}}}
			thenT := t.stmts(s.Body.List, marker, ev)
			elseT := "Ok " + tuple
			if s.Else != nil {
				elseT = t.stmts([]ast.Stmt{s.Else}, marker, ev)
			}
			t.joins = t.joins[:len(t.joins)-1]
			return fmt.Sprintf("%s%s\n  do %s <- (if %s then (\n  %s\n  ) else (\n  %s\n  ));\n  %s", pre, strings.Join(b.lines, " "), pat, c, thenT, elseT, cont())
		}
		thenT := t.stmts(s.Body.List, push(), ev)
		var elseT string
		if s.Else != nil {
			elseT = t.stmts([]ast.Stmt{s.Else}, push(), ev)
		} else {
			elseT = cont()
		}
		return fmt.Sprintf("%s%s\n  if %s then (\n  %s\n  ) else (\n  %s\n  )", pre, strings.Join(b.lines, " "), c, thenT, elseT)
	case *ast.SwitchStmt:
		if s.Init != nil {
			t.fail(s, "switch initialiser")
		}
		var b binds
		tag := ""
		var tagT types.Type
		if s.Tag != nil {
			tag = t.expr(s.Tag, &b)
			tagT = t.info.TypeOf(s.Tag)
		}
		var deflt []ast.Stmt
		hasDefault := false
		type arm struct {
			cond string
			body []ast.Stmt
		}
		var arms []arm
		for _, cs := range s.Body.List {
			cc := cs.(*ast.CaseClause)
			for _, st := range cc.Body {
				if br, ok := st.(*ast.BranchStmt); ok && br.Label == nil && br.Tok != token.CONTINUE {
					t.fail(br, "unlabelled break or fallthrough in a switch")
				}
			}
			if cc.List == nil {
				deflt, hasDefault = cc.Body, true
				continue
			}
			var cs []string
			for _, ce := range cc.List {
				var cb binds
				v := t.expr(ce, &cb)
				if len(cb.lines) > 0 {
					t.fail(ce, "case expression with effects")
				}
				if tag == "" {
					cs = append(cs, v)
				} else if isBytes(tagT) {
					cs = append(cs, "(bytes_eqb "+tag+" "+v+")")
				} else {
					cs = append(cs, "("+tag+" =? "+v+")")
				}
			}
			arms = append(arms, arm{strings.Join(cs, " || "), cc.Body})
		}
		out := strings.Join(b.lines, " ")
		closeP := ""
		leaves := false
		var blocks []ast.Stmt
		for _, a := range arms {
			blk := &ast.BlockStmt{List: a.body}
			blocks = append(blocks, blk)
			if t.exits(blk) {
				leaves = true
			}
		}
		if hasDefault {
			blk := &ast.BlockStmt{List: deflt}
			blocks = append(blocks, blk)
			if t.exits(blk) {
				leaves = true
			}
		}
		if !leaves {
			// no arm leaves: compute the variables the arms assign, then go on once (as for `if`)
			var state []*types.Var
			t.assigned(blocks, map[types.Object]bool{}, &state, map[types.Object]bool{})
			var ns []string
			for _, o := range state {
				ns = append(ns, vname(o.Name()))
			}
			tuple, pat := "tt", "_"
			if len(ns) == 1 {
				tuple, pat = ns[0], ns[0]
			} else if len(ns) > 1 {
				tuple = "(" + strings.Join(ns, ", ") + ")"
				pat = tuple
			}
			t.joins = append(t.joins, "Ok "+tuple)
			marker := [][]ast.Stmt{{&ast.BadStmt{}}}
			sw := ""
			for _, a := range arms {
				sw += fmt.Sprintf("\n  if %s then (\n  %s\n  ) else (", a.cond, t.stmts(a.body, marker, ev))
				closeP += ")"
			}
			if hasDefault {
				sw += "\n  " + t.stmts(deflt, marker, ev)
			} else {
				sw += "\n  Ok " + tuple
			}
			t.joins = t.joins[:len(t.joins)-1]
			return fmt.Sprintf("%s\n  do %s <- (%s%s);\n  %s", out, pat, sw, closeP, cont())
		}
		for _, a := range arms {
			out += fmt.Sprintf("\n  if %s then (\n  %s\n  ) else (", a.cond, t.stmts(a.body, push(), ev))
			closeP += ")"
		}
		if hasDefault {
			out += "\n  " + t.stmts(deflt, push(), ev)
		} else {
			out += "\n  " + cont()
		}
		return out + closeP
	}
	t.fail(s, "statement %T", s)
	return ""
}

// pkgCall: a call of a function of the package being translated (not a library call such as fmt.Errorf)
func (t *tr) pkgCall(c *ast.CallExpr) bool {
	id, ok := c.Fun.(*ast.Ident)
	if !ok {
		return false
	}
	fn, ok := t.info.Uses[id].(*types.Func)
	return ok && fn.Pkg() == t.pkg
}

// bufferTarget: the local variable a buffer-mutating call statement writes to (txt.WriteByte(..), fmt.Fprintf(txt, ..),
// copy(d, ..)), or nil.
func (t *tr) bufferTarget(c *ast.CallExpr) *ast.Ident {
	if sel, ok := c.Fun.(*ast.SelectorExpr); ok {
		if id, ok := sel.X.(*ast.Ident); ok && isBuffer(t.info.TypeOf(id)) {
			switch sel.Sel.Name {
			case "WriteByte", "Write", "WriteString":
				return id
			}
		}
		if selName(t.fset, sel) == "fmt.Fprintf" && len(c.Args) >= 2 {
			if id, ok := c.Args[0].(*ast.Ident); ok && isBuffer(t.info.TypeOf(id)) {
				return id
			}
		}
	}
	if id, ok := c.Fun.(*ast.Ident); ok && id.Name == "copy" && len(c.Args) == 2 {
		if _, isB := t.info.Uses[id].(*types.Builtin); isB {
			if d, ok := c.Args[0].(*ast.Ident); ok && t.ownSlice[t.objOf(d)] {
				return d
			}
		}
	}
	return nil
}

// effectCall translates a call statement that changes a local buffer or an owned slice into a rebinding of the variable.
func (t *tr) effectCall(c *ast.CallExpr) (string, bool) {
	id := t.bufferTarget(c)
	if id == nil {
		return "", false
	}
	var b binds
	v := vname(id.Name)
	var nv string
	if fid, ok := c.Fun.(*ast.Ident); ok && fid.Name == "copy" {
		nv = fmt.Sprintf("(go_copy %s %s)", v, t.expr(c.Args[1], &b))
	} else {
		sel := c.Fun.(*ast.SelectorExpr)
		switch sel.Sel.Name {
		case "WriteByte":
			nv = fmt.Sprintf("(%s ++ [%s])", v, t.expr(c.Args[0], &b))
		case "Write", "WriteString":
			nv = fmt.Sprintf("(%s ++ %s)", v, t.expr(c.Args[0], &b))
		case "Fprintf":
			tv := t.info.Types[c.Args[1]]
			if tv.Value == nil || tv.Value.Kind() != constant.String {
				t.fail(c, "fmt.Fprintf with a non-constant format")
			}
			nv = fmt.Sprintf("(%s ++ %s)", v, t.fmtPieces(c, constant.StringVal(tv.Value), c.Args[2:], &b))
		}
	}
	return strings.TrimSpace(strings.Join(b.lines, " ") + fmt.Sprintf(" let %s := %s in", v, nv)), true
}

// exits: the statement may leave the enclosing statement list other than by falling through its end
// (loops count: their translation needs the function's result type).
func (t *tr) exits(n ast.Node) bool {
	found := false
	ast.Inspect(n, func(x ast.Node) bool {
		switch x := x.(type) {
		case *ast.ReturnStmt, *ast.BranchStmt, *ast.ForStmt, *ast.RangeStmt, *ast.LabeledStmt, *ast.SwitchStmt:
			found = true
		case *ast.CallExpr:
			if id, ok := x.Fun.(*ast.Ident); ok && id.Name == "panic" {
				found = true
			}
		}
		return !found
	})
	return found
}

// assigned collects the variables assigned in the statements (declared outside them).
func (t *tr) assigned(list []ast.Stmt, declared map[types.Object]bool, out *[]*types.Var, seen map[types.Object]bool) {
	note := func(e ast.Expr) {
		// the variable an assignment target belongs to: x, x.f, x[i], x.f[i], (*x).f ...
		for {
			switch v := e.(type) {
			case *ast.SelectorExpr:
				e = v.X
				continue
			case *ast.IndexExpr:
				e = v.X
				continue
			case *ast.StarExpr:
				e = v.X
				continue
			case *ast.ParenExpr:
				e = v.X
				continue
			}
			break
		}
		id, ok := e.(*ast.Ident)
		if !ok || id.Name == "_" {
			return
		}
		o, ok := t.objOf(id).(*types.Var)
		if !ok || declared[o] || seen[o] {
			return
		}
		seen[o] = true
		*out = append(*out, o)
	}
	for _, st := range list {
		ast.Inspect(st, func(n ast.Node) bool {
			switch n := n.(type) {
			case *ast.AssignStmt:
				if n.Tok == token.DEFINE {
					for _, l := range n.Lhs {
						if id, ok := l.(*ast.Ident); ok {
							if o := t.info.Defs[id]; o != nil {
								declared[o] = true
							} else {
								note(l) // redeclaration assigns
							}
						}
					}
				} else {
					for _, l := range n.Lhs {
						note(l)
					}
				}
			case *ast.IncDecStmt:
				note(n.X)
			case *ast.CallExpr:
				if id := t.bufferTarget(n); id != nil {
					note(id)
				}
				for _, a := range n.Args {
					if id, ok := a.(*ast.Ident); ok && isBuffer(t.info.TypeOf(id)) {
						note(id)
					}
				}
			case *ast.DeclStmt:
				if gd, ok := n.Decl.(*ast.GenDecl); ok {
					for _, sp := range gd.Specs {
						if vs, ok := sp.(*ast.ValueSpec); ok {
							for _, id := range vs.Names {
								declared[t.info.Defs[id]] = true
							}
						}
					}
				}
			case *ast.FuncLit:
				t.fail(n, "function literal")
			}
			return true
		})
	}
}

// forLoop: a recursive function over the fuel whose arguments are the variables the loop assigns.
func (t *tr) forLoop(init ast.Stmt, cond ast.Expr, post ast.Stmt, body []ast.Stmt, after [][]ast.Stmt, ev env) string {
	t.usesFuel = true
	pre := ""
	if init != nil {
		as, ok := init.(*ast.AssignStmt)
		if !ok {
			t.fail(init, "loop initialiser")
		}
		pre = t.assign(as) + "\n  "
	}
	var posts []ast.Stmt
	if post != nil {
		posts = []ast.Stmt{post}
	}
	var state []*types.Var
	seen := map[types.Object]bool{}
	t.assigned(append(append([]ast.Stmt{}, body...), posts...), map[types.Object]bool{}, &state, seen)
	t.fresh++
	name := fmt.Sprintf("loop%d", t.fresh)
	var ps, as []string
	for _, o := range state {
		ps = append(ps, fmt.Sprintf("(%s : %s)", vname(o.Name()), t.coqType(cond, o.Type())))
		as = append(as, vname(o.Name()))
	}
	start := t.fuelVar
	t.depth++
	fparam := fmt.Sprintf("fuel%d", t.depth)
	finner := fparam + "p"
	t.fuelVar = finner
	back := strings.TrimSpace(name + " " + finner + " " + strings.Join(as, " "))
	t.loops = append(t.loops, loopCtx{post: posts, after: after, back: back, label: t.nextLabel})
	t.nextLabel = ""
	var b binds
	c := "true"
	if cond != nil {
		c = t.expr(cond, &b)
	}
	iter := t.stmts(append(append([]ast.Stmt{}, body...), posts...), [][]ast.Stmt{{&ast.EmptyStmt{Implicit: true}}}, ev)
	t.loops = t.loops[:len(t.loops)-1]
	exit := t.stmts(nil, after, ev)
	t.fuelVar = start
	t.depth--
	var rts []string
	for i := 0; i < ev.results.Len(); i++ {
		if i == ev.results.Len()-1 && isError(ev.results.At(i).Type()) {
			continue
		}
		rts = append(rts, t.coqType(cond, ev.results.At(i).Type()))
	}
	rt := "unit"
	if len(rts) > 0 {
		rt = strings.Join(rts, " * ")
	}
	return fmt.Sprintf("%s(fix %s (%s : nat) %s {struct %s} : res (%s) :=\n  match %s with O => Err EOutOfFuel | S %s =>\n  %s\n  if %s then (\n  %s\n  ) else (\n  %s\n  ) end) %s %s",
		pre, name, fparam, strings.Join(ps, " "), fparam, rt, fparam, finner, strings.Join(b.lines, " "), c, iter, exit, start, strings.Join(as, " "))
}

func (t *tr) objOf(id *ast.Ident) types.Object {
	if o := t.info.Defs[id]; o != nil {
		return o
	}
	return t.info.Uses[id]
}

// store emits the update of an assignable place with the (pure) value v:
//   x            let v_x := v in
//   x.f          let v_x := {| ... f := v ... |} in
//   x[i], x.f[i] list update (Panic when out of range)
func (t *tr) store(n ast.Node, lhs ast.Expr, v string, vt types.Type, b *binds) string {
	switch l := lhs.(type) {
	case *ast.Ident:
		if l.Name == "_" {
			return ""
		}
		if o, ok := t.objOf(l).(*types.Var); ok && o.Parent() == t.pkg.Scope() {
			t.fail(n, "assignment to a package variable")
		}
		if it, ok := intType(t.info.TypeOf(l)); ok && vt != nil {
			ft, _ := intType(vt)
			v = wrapTo(v, ft, it)
		}
		if isPtrToStruct(t.info.TypeOf(l)) && !isBuffer(t.info.TypeOf(l)) {
			t.fail(n, "assignment of a pointer")
		}
		return fmt.Sprintf("let %s := %s in", vname(l.Name), v)
	case *ast.SelectorExpr:
		id, ok := l.X.(*ast.Ident)
		sel, ok2 := t.info.Selections[l]
		if !ok || !ok2 || sel.Kind() != types.FieldVal {
			t.fail(n, "assignment to a field of a non-variable")
		}
		if isPtrToStruct(t.info.TypeOf(id)) && !t.ownPtr[t.objOf(id)] {
			t.fail(n, "assignment through a pointer that is not a local &T{...}")
		}
		rt := deref(t.info.TypeOf(id))
		st := rt.Underlying().(*types.Struct)
		name := rt.(*types.Named).Obj().Name()
		t.coqType(n, rt)
		if it, ok := intType(sel.Type()); ok && vt != nil {
			ft, _ := intType(vt)
			v = wrapTo(v, ft, it)
		}
		var fs []string
		for i := 0; i < st.NumFields(); i++ {
			f := st.Field(i)
			if f.Name() == l.Sel.Name {
				fs = append(fs, fmt.Sprintf("%s_%s := %s", name, f.Name(), v))
			} else {
				fs = append(fs, fmt.Sprintf("%s_%s := %s_%s %s", name, f.Name(), name, f.Name(), vname(id.Name)))
			}
		}
		return fmt.Sprintf("let %s := {| %s |} in", vname(id.Name), strings.Join(fs, "; "))
	case *ast.IndexExpr:
		xt := t.info.TypeOf(l.X)
		if !isBytes(xt) && !isIntList(xt) {
			t.fail(n, "assignment to an element of %s", xt)
		}
		if isBytes(xt) {
			id, ok := l.X.(*ast.Ident)
			if !ok || !t.ownSlice[t.objOf(id)] {
				t.fail(n, "assignment to a byte of a slice (aliasing is not modelled)")
			}
		}
		if et, ok := intType(xt.Underlying().(interface{ Elem() types.Type }).Elem()); ok && vt != nil {
			ft, _ := intType(vt)
			v = wrapTo(v, ft, et)
		}
		cur := t.expr(l.X, b)
		i := t.expr(l.Index, b)
		tmp := t.tmp()
		b.add(fmt.Sprintf("do %s <- go_upd %s %s %s;", tmp, cur, i, v))
		return t.store(n, l.X, tmp, nil, b)
	}
	t.fail(n, "assignment target %T", lhs)
	return ""
}

func (t *tr) assign(s *ast.AssignStmt) string {
	var b binds
	join := func(parts ...string) string {
		var out []string
		for _, p := range parts {
			if strings.TrimSpace(p) != "" {
				out = append(out, strings.TrimSpace(p))
			}
		}
		return strings.Join(out, " ")
	}
	switch s.Tok {
	case token.DEFINE, token.ASSIGN:
		if len(s.Lhs) == len(s.Rhs) {
			// x := &T{...}: a struct the function owns
			if len(s.Lhs) == 1 && s.Tok == token.DEFINE {
				if u, ok := s.Rhs[0].(*ast.UnaryExpr); ok && u.Op == token.AND {
					if cl, ok := u.X.(*ast.CompositeLit); ok && !isBuffer(t.info.TypeOf(cl)) {
						id := s.Lhs[0].(*ast.Ident)
						t.ownPtr[t.objOf(id)] = true
						v := t.expr(u.X, &b)
						return join(strings.Join(b.lines, " "), fmt.Sprintf("let %s := %s in", vname(id.Name), v))
					}
				}
			}
			// err := f(...) where f returns only an error: the bind propagates it
			if len(s.Lhs) == 1 {
				if c, ok := s.Rhs[0].(*ast.CallExpr); ok && isError(t.info.TypeOf(c)) && t.pkgCall(c) {
					if id, ok := s.Lhs[0].(*ast.Ident); ok {
						t.call(c, &b, true)
						if id.Name != "_" {
							t.deadErr[t.objOf(id)] = true
						}
						return join(strings.Join(b.lines, " "))
					}
				}
			}
			// d := make([]byte, n): a slice the function owns (element stores allowed, never aliased)
			if len(s.Lhs) == 1 && s.Tok == token.DEFINE {
				if c, ok := s.Rhs[0].(*ast.CallExpr); ok {
					if fid, ok := c.Fun.(*ast.Ident); ok && fid.Name == "make" && isBytes(t.info.TypeOf(c)) {
						if id, ok := s.Lhs[0].(*ast.Ident); ok {
							t.ownSlice[t.objOf(id)] = true
						}
					}
				}
			}
			for _, r := range s.Rhs {
				base := r
				for {
					if se, ok := base.(*ast.SliceExpr); ok {
						base = se.X
						continue
					}
					if pe, ok := base.(*ast.ParenExpr); ok {
						base = pe.X
						continue
					}
					break
				}
				if id, ok := base.(*ast.Ident); ok && t.ownSlice[t.objOf(id)] {
					t.fail(s, "an owned slice assigned to another variable (aliasing is not modelled)")
				}
			}
			// evaluate all right-hand sides first
			var vals []string
			for i, r := range s.Rhs {
				v := t.expr(r, &b)
				if sel, ok := s.Lhs[i].(*ast.SelectorExpr); ok && isPtrToStruct(t.info.TypeOf(sel)) {
					if u, ok := r.(*ast.UnaryExpr); ok && u.Op == token.AND {
						v = "(Some " + v + ")"
					} else {
						t.fail(s, "pointer field assigned from something other than &T{...}")
					}
				}
				vals = append(vals, v)
			}
			if len(vals) > 1 {
				// parallel assignment: name the values first
				for i := range vals {
					tmp := t.tmp()
					b.add(fmt.Sprintf("let %s := %s in", tmp, vals[i]))
					vals[i] = tmp
				}
			}
			var stores []string
			for i, l := range s.Lhs {
				var sb binds
				st := t.store(s, l, vals[i], t.info.TypeOf(s.Rhs[i]), &sb)
				stores = append(stores, join(strings.Join(sb.lines, " "), st))
			}
			return join(strings.Join(b.lines, " "), strings.Join(stores, " "))
		}
		if len(s.Rhs) == 1 {
			c, ok := s.Rhs[0].(*ast.CallExpr)
			if !ok {
				t.fail(s, "multi-value assignment")
			}
			v := t.call(c, &b, false)
			tup, ok := t.info.TypeOf(c).(*types.Tuple)
			if !ok || tup.Len() != len(s.Lhs) {
				t.fail(s, "multi-value assignment shape")
			}
			var ns []string
			var stores []string
			for i, l := range s.Lhs {
				if i == len(s.Lhs)-1 && isError(tup.At(i).Type()) {
					// the error has been propagated by the bind
					if id, ok := l.(*ast.Ident); ok && id.Name != "_" {
						t.deadErr[t.objOf(id)] = true
					}
					continue
				}
				if id, ok := l.(*ast.Ident); ok && id.Name == "_" {
					ns = append(ns, "_")
					continue
				}
				tmp := t.tmp()
				ns = append(ns, tmp)
				var sb binds
				st := t.store(s, l, tmp, tup.At(i).Type(), &sb)
				stores = append(stores, join(strings.Join(sb.lines, " "), st))
			}
			pat := strings.Join(ns, ", ")
			if len(ns) > 1 {
				pat = "'(" + pat + ")"
			}
			return join(strings.Join(b.lines, " "), fmt.Sprintf("let %s := %s in", pat, v), strings.Join(stores, " "))
		}
		t.fail(s, "assignment shape")
	default:
		// x op= e
		if len(s.Lhs) != 1 || len(s.Rhs) != 1 {
			t.fail(s, "compound assignment shape")
		}
		op := map[token.Token]token.Token{token.ADD_ASSIGN: token.ADD, token.SUB_ASSIGN: token.SUB, token.MUL_ASSIGN: token.MUL,
			token.OR_ASSIGN: token.OR, token.AND_ASSIGN: token.AND, token.XOR_ASSIGN: token.XOR, token.SHL_ASSIGN: token.SHL,
			token.SHR_ASSIGN: token.SHR, token.QUO_ASSIGN: token.QUO, token.REM_ASSIGN: token.REM}[s.Tok]
		if op == 0 {
			t.fail(s, "compound assignment operator")
		}
		be := &ast.BinaryExpr{X: s.Lhs[0], Op: op, Y: s.Rhs[0]}
		t.info.Types[be] = types.TypeAndValue{Type: t.info.TypeOf(s.Lhs[0])}
		v := t.binary(be, &b)
		var sb binds
		st := t.store(s, s.Lhs[0], v, nil, &sb)
		return join(strings.Join(b.lines, " "), strings.Join(sb.lines, " "), st)
	}
	return ""
}

// function translates one function (and, first, the functions it calls).
func (t *tr) function(k string) {
	if _, ok := t.done[k]; ok {
		return
	}
	fd := t.funcs[k]
	if fd == nil {
		die("function %s not found in the package", k)
	}
	t.done[k] = "" // (recursion is rejected below: the definition would refer to itself)
	saved := t.cur
	t.cur = k
	defer func() { t.cur = saved }()
	sig := t.info.Defs[fd.Name].(*types.Func).Type().(*types.Signature)
	var params []string
	if fd.Recv != nil {
		r := fd.Recv.List[0]
		name := "_"
		if len(r.Names) > 0 {
			name = vname(r.Names[0].Name)
		}
		params = append(params, fmt.Sprintf("(%s : %s)", name, t.coqType(fd, sig.Recv().Type())))
	}
	for i := 0; i < sig.Params().Len(); i++ {
		p := sig.Params().At(i)
		name := "_"
		if p.Name() != "" && p.Name() != "_" {
			name = vname(p.Name())
		}
		params = append(params, fmt.Sprintf("(%s : %s)", name, t.coqType(fd, p.Type())))
	}
	res := sig.Results()
	var rts []string
	for i := 0; i < res.Len(); i++ {
		if i == res.Len()-1 && isError(res.At(i).Type()) {
			continue
		}
		rts = append(rts, t.coqType(fd, res.At(i).Type()))
	}
	savedBufs := t.curBufs
	t.curBufs = nil
	for i := 0; i < sig.Params().Len(); i++ {
		if p := sig.Params().At(i); isBuffer(p.Type()) {
			if p.Name() == "" || p.Name() == "_" {
				t.fail(fd, "unnamed buffer parameter")
			}
			t.curBufs = append(t.curBufs, p.Name())
			rts = append(rts, "bytes")
		}
	}
	defer func() { t.curBufs = savedBufs }()
	namedInit := ""
	for i := 0; i < res.Len(); i++ {
		if n := res.At(i).Name(); n != "" && n != "_" && !isError(res.At(i).Type()) {
			namedInit += fmt.Sprintf("let %s := %s in\n  ", vname(n), t.zero(fd, res.At(i).Type()))
		}
	}
	rt := "unit"
	if len(rts) > 0 {
		rt = strings.Join(rts, " * ")
	}
	savedFuel, savedLoops, savedVar, savedDepth := t.usesFuel, t.loops, t.fuelVar, t.depth
	t.usesFuel, t.loops, t.fuelVar, t.depth = false, nil, "fuel", 0
	var caseDefs []string
	var body string
	if t.split[k] {
		body, caseDefs = t.splitSwitch(k, fd, params, rt, env{results: res})
	} else {
		body = namedInit + t.stmts(fd.Body.List, nil, env{results: res})
	}
	if strings.Contains(body, gname(k)+" ") {
		t.fail(fd, "recursive function")
	}
	if t.usesFuel {
		t.needsFuel[k] = true
		params = append([]string{"(fuel : nat)"}, params...)
	}
	t.usesFuel, t.loops, t.fuelVar, t.depth = savedFuel, savedLoops, savedVar, savedDepth
	var src bytes.Buffer
	pos := t.fset.Position(fd.Pos())
	fmt.Fprintf(&src, "(* %s:%d  func %s *)\n", filepath.Base(pos.Filename), pos.Line, k)
	t.done[k] = strings.Join(caseDefs, "") + fmt.Sprintf("%sDefinition %s %s : res (%s) :=\n  %s.", src.String(), gname(k), strings.Join(params, " "), rt, body)
	t.order = append(t.order, k)
}

// splitSwitch: a function whose body is one switch over a parameter, every case of which returns, is emitted as one
// definition per case (<func>_<first case constant>_g, same parameters) and a dispatcher that calls them.
func (t *tr) splitSwitch(k string, fd *ast.FuncDecl, params []string, rt string, ev env) (string, []string) {
	if len(fd.Body.List) != 1 {
		t.fail(fd, "split: the body is not a single switch")
	}
	sw, ok := fd.Body.List[0].(*ast.SwitchStmt)
	if !ok || sw.Init != nil || sw.Tag == nil {
		t.fail(fd, "split: the body is not a single switch over a value")
	}
	if _, ok := sw.Tag.(*ast.Ident); !ok {
		t.fail(fd, "split: the switch is not over a parameter")
	}
	var b binds
	tag := t.expr(sw.Tag, &b)
	var pnames []string
	for _, p := range params {
		pnames = append(pnames, strings.Fields(strings.Trim(p, "()"))[0])
	}
	var defs []string
	out, closeP := "", ""
	deflt := "Err EOther"
	anyFuel := false
	for i, cs := range sw.Body.List {
		cc := cs.(*ast.CaseClause)
		for _, st := range cc.Body {
			if br, ok := st.(*ast.BranchStmt); ok {
				t.fail(br, "break or fallthrough in a split switch")
			}
		}
		t.usesFuel = false
		body := t.stmts(cc.Body, nil, ev)
		usedFuel := t.usesFuel
		anyFuel = anyFuel || usedFuel
		if cc.List == nil {
			deflt = body
			continue
		}
		name := fmt.Sprintf("case%d", i)
		var cs []string
		for j, ce := range cc.List {
			var cb binds
			v := t.expr(ce, &cb)
			if len(cb.lines) > 0 {
				t.fail(ce, "case expression with effects")
			}
			if id, ok := ce.(*ast.Ident); ok && j == 0 {
				name = id.Name
			}
			cs = append(cs, "("+tag+" =? "+v+")")
		}
		dn := strings.TrimSuffix(gname(k), "_g") + "_" + name + "_g"
		ps := append([]string{}, params...)
		as := append([]string{}, pnames...)
		if usedFuel {
			ps = append([]string{"(fuel : nat)"}, ps...)
			as = append([]string{"fuel"}, as...)
		}
		pos := t.fset.Position(cc.Pos())
		defs = append(defs, fmt.Sprintf("(* %s:%d  func %s, case %s *)\nDefinition %s %s : res (%s) :=\n  %s.\n\n",
			filepath.Base(pos.Filename), pos.Line, k, name, dn, strings.Join(ps, " "), rt, body))
		out += fmt.Sprintf("\n  if %s then %s %s else (", strings.Join(cs, " || "), dn, strings.Join(as, " "))
		closeP += ")"
	}
	t.usesFuel = anyFuel
	return strings.Join(b.lines, " ") + out + "\n  " + deflt + closeP, defs
}

func main() {
	if len(os.Args) < 4 {
		die("usage: gotrans <package dir> <out.v> [use=ModA,ModB] <function>...")
	}
	dir, out, want := os.Args[1], os.Args[2], os.Args[3:]
	// use=TransA,TransB: functions and records already generated in gen/TransA.v ... are imported, not repeated
	var uses []string
	externs, split := map[string]bool{}, map[string]bool{}
	for len(want) > 0 && strings.Contains(want[0], "=") {
		kv := strings.SplitN(want[0], "=", 2)
		for _, u := range strings.Split(kv[1], ",") {
			if u == "" {
				continue
			}
			switch kv[0] {
			case "use":
				uses = append(uses, u)
			case "extern":
				externs[u] = true
			case "split":
				split[u] = true
			default:
				die("unknown option %s", kv[0])
			}
		}
		want = want[1:]
	}
	fset := token.NewFileSet()
	ents, err := os.ReadDir(dir)
	if err != nil {
		die("%v", err)
	}
	var names []string
	for _, e := range ents {
		n := e.Name()
		if e.IsDir() || !strings.HasSuffix(n, ".go") || strings.HasSuffix(n, "_test.go") || strings.HasSuffix(n, "_verif.go") {
			continue
		}
		names = append(names, n)
	}
	sort.Strings(names)
	for _, n := range names {
		f, err := parser.ParseFile(fset, filepath.Join(dir, n), nil, 0)
		if err != nil {
			die("parse %s: %v", n, err)
		}
		fileList = append(fileList, f)
	}
	conf := types.Config{Importer: importer.ForCompiler(fset, "source", nil)}
	info := &types.Info{Types: map[ast.Expr]types.TypeAndValue{}, Defs: map[*ast.Ident]types.Object{}, Uses: map[*ast.Ident]types.Object{},
		Selections: map[*ast.SelectorExpr]*types.Selection{}}
	pkg, err := conf.Check("p", fset, fileList, info)
	if err != nil {
		die("type check: %v", err)
	}
	t := &tr{fset: fset, info: info, pkg: pkg, funcs: map[string]*ast.FuncDecl{}, done: map[string]string{}, tables: map[string]string{},
		records: map[string]string{}, deadErr: map[types.Object]bool{}, needsFuel: map[string]bool{}, ownPtr: map[types.Object]bool{}, fuelVar: "fuel",
		externs: externs, split: split, ownSlice: map[types.Object]bool{}, extUsed: map[string]string{}}
	for _, f := range fileList {
		for _, d := range f.Decls {
			if fd, ok := d.(*ast.FuncDecl); ok && fd.Body != nil {
				t.funcs[key(fd)] = fd
			}
		}
	}
	external := map[string]bool{}
	extRecords := map[string]bool{}
	extTables := map[string]bool{}
	for _, u := range uses {
		src, err := os.ReadFile(filepath.Join(filepath.Dir(out), u+".v"))
		if err != nil {
			die("use=%s: %v", u, err)
		}
		for _, line := range strings.Split(string(src), "\n") {
			fs := strings.Fields(line)
			if len(fs) < 2 {
				continue
			}
			switch {
			case fs[0] == "Definition" && strings.HasSuffix(fs[1], "_g"):
				for k := range t.funcs {
					if gname(k) == fs[1] {
						external[k] = true
						t.done[k] = ""
						if strings.Contains(line, "(fuel : nat)") {
							t.needsFuel[k] = true
						}
					}
				}
			case fs[0] == "Definition" && strings.HasPrefix(fs[1], "tab_"):
				extTables[fs[1]] = true
				t.tables[fs[1]] = ""
			case fs[0] == "Record" && strings.HasSuffix(fs[1], "_r"):
				name := strings.TrimSuffix(fs[1], "_r")
				extRecords[name] = true
				t.records[name] = ""
			}
		}
	}
	for _, k := range want {
		func() {
			defer func() {
				if r := recover(); r != nil {
					if u, ok := r.(unsupported); ok {
						die("%s: the source no longer has a shape the translator accepts: %s", k, u.msg)
					}
					panic(r)
				}
			}()
			t.function(k)
		}()
	}
	var w bytes.Buffer
	fmt.Fprintf(&w, "(* GENERATED by harness/cmd/gotrans from the Go sources of %s - do not edit.\n   Functions: %s *)\n", filepath.Base(dir), strings.Join(want, " "))
	w.WriteString("From GB Require Import Base.Prelude Base.GoSem.\n")
	if t.usesFmt {
		w.WriteString("From GB Require Import Base.DecText Base.GoFmt.\n")
	}
	if len(uses) > 0 {
		w.WriteString("From GBGen Require Import " + strings.Join(uses, " ") + ".\n")
	}
	w.WriteString("Open Scope Z_scope.\nOpen Scope bool_scope.\n\n")
	for _, r := range t.recOrd {
		if extRecords[r] {
			continue
		}
		w.WriteString(t.records[r] + "\n")
	}
	var tn []string
	for n := range t.tables {
		tn = append(tn, n)
	}
	sort.Strings(tn)
	for _, n := range tn {
		if extTables[n] {
			continue
		}
		w.WriteString(t.tables[n] + "\n")
	}
	w.WriteString("\n")
	if len(t.extOrder) > 0 {
		// oracles: library or environment behaviour the generated definitions are parametric in
		w.WriteString("Section Oracles.\n")
		for _, n := range t.extOrder {
			fmt.Fprintf(&w, "Variable %s : %s.\n", n, t.extUsed[n])
		}
		w.WriteString("\n")
	}
	for _, k := range t.order {
		w.WriteString(t.done[k] + "\n\n")
	}
	if len(t.extOrder) > 0 {
		w.WriteString("End Oracles.\n")
	}
	old, _ := os.ReadFile(out)
	if !bytes.Equal(old, w.Bytes()) {
		if err := os.WriteFile(out, w.Bytes(), 0644); err != nil {
			die("%v", err)
		}
	}
}
