(* Hand-written driver around the extracted model: one request per input
   line, one response per output line.  All parsing/printing of values is done
   by extracted Coq code (Base/Sexp.v); this file only moves bytes. *)
open Model

let rec pos_of_int n =
  if n = 1 then XH
  else if n land 1 = 0 then XO (pos_of_int (n lsr 1))
  else XI (pos_of_int (n lsr 1))
let z_of_int n = if n = 0 then Z0 else if n > 0 then Zpos (pos_of_int n) else Zneg (pos_of_int (-n))
let rec int_of_pos = function
  | XH -> 1 | XO p -> 2 * int_of_pos p | XI p -> 2 * int_of_pos p + 1
let int_of_z = function Z0 -> 0 | Zpos p -> int_of_pos p | Zneg p -> - (int_of_pos p)

let ztab = Array.init 256 z_of_int

let zlist_of_string s =
  let r = ref [] in
  for i = String.length s - 1 downto 0 do r := ztab.(Char.code s.[i]) :: !r done;
  !r

let string_of_zlist l =
  let b = Buffer.create 256 in
  List.iter (fun z -> Buffer.add_char b (Char.chr ((int_of_z z) land 255))) l;
  Buffer.contents b

let () =
  try
    while true do
      let line = Stdlib.input_line Stdlib.stdin in
      let out = run_line (zlist_of_string line) in
      Stdlib.print_string (string_of_zlist out);
      Stdlib.print_char '\n';
      Stdlib.flush Stdlib.stdout
    done
  with End_of_file -> ()
