Require Extraction.
Require Import ExtrOcamlBasic.
From GB Require Import Model.Dispatch.
Extraction "model.ml" run_line.
