(* ConnProofs2.v — C06: the reason a stream ended is reported.  Statements over all schedules. *)
From GB Require Import Base.Prelude Model.Conn Proofs.ConnInv Proofs.ConnInv2 Proofs.ConnInv3 Proofs.ConnTrace.
Open Scope nat_scope.

(* ---- stream_errs: a failure anywhere in the schedule makes Stream return non-nil ---- *)
Definition is_failure (l : label) : bool :=
  match l with LHandlerErr | LProcBad | LConnectFail | LStartFail => true | _ => false end.
Definition perr (s : state) : bool :=
  match ps s with PReturning RErr | PDeferClose RErr | PReturned RErr => true | _ => false end.

Lemma failure_step c s l s' : step c s l = Some s' -> is_failure l = true -> perr s' = true.
Proof.
  intros H Hl. destruct s. destruct l; try discriminate Hl; cbn in H; break_step H; inversion H; reflexivity.
Qed.

Lemma perr_step c s l s' : step c s l = Some s' -> perr s = true -> perr s' = true.
Proof.
  intros H Hp. destruct s; unfold perr in *; cbn in Hp.
  destruct ps; try discriminate; destruct r; try discriminate;
  destruct l; cbn in H; break_step H; inversion H; reflexivity.
Qed.

Lemma trace_failure_app tr l : trace_has_failure (tr ++ [l]) = trace_has_failure tr || is_failure l.
Proof.
  unfold trace_has_failure. rewrite existsb_app. cbn. rewrite orb_false_r.
  destruct l; reflexivity.
Qed.

Lemma stream_errs_inv c tr s : reach c tr s -> trace_has_failure tr = true -> perr s = true.
Proof.
  induction 1; intros Hf; [discriminate|].
  rewrite trace_failure_app in Hf. apply orb_true_iff in Hf. destruct Hf as [Hf|Hf].
  - eapply perr_step; eauto.
  - eapply failure_step; eauto.
Qed.

Lemma stream_errs c tr s r : reach c tr s -> trace_has_failure tr = true ->
  stream_result s = Some r -> r = RErr.
Proof.
  intros Hr Hf Hs. pose proof (stream_errs_inv _ _ _ Hr Hf) as Hp.
  unfold perr, stream_result in *. destruct (ps s); try discriminate. destruct r0; try discriminate.
  congruence.
Qed.

(* ---- ordering: the reason is on errChan (and errChan closed) before eventChan is closed ---- *)
Lemma ordering c s : reachable c s -> evclosed s = true ->
  exists r, rreason s = Some r /\ ec_sent s = [r] /\ ec_closed s = true.
Proof.
  intros Hr He. destruct (reachable_Inv1 _ _ Hr) as (HR & _ & _).
  unfold rd_inv in HR. destruct (rd s); destr_all; try congruence; eauto.
Qed.

(* the parser's "channel closed => return nil" therefore never outruns the reason *)
Lemma closed_after_reason c s : reachable c s -> cause s = Some CClosed ->
  exists r, rreason s = Some r /\ ec_sent s = [r] /\ ec_closed s = true.
Proof.
  intros Hr Hc. apply (ordering c s Hr).
  destruct (reachable_Inv2 _ _ Hr) as (_ & _ & _ & _ & _ & _ & _ & A8). auto.
Qed.

(* ---- what the first Error() call returns ---- *)
Lemma first_error_result c s e : reachable c s -> stream_result s = Some RNil -> first_res s = Some e ->
  exists r, rreason s = Some r /\ e = efilter (filter_ctx c s) r.
Proof.
  intros Hr Hs He.
  destruct (reachable_Inv1 _ _ Hr) as (_ & HP & _).
  destruct (reachable_Inv2 _ _ Hr) as (_ & _ & _ & _ & A5 & _).
  specialize (A5 e He).
  unfold ps_inv, stream_result in *. destruct (ps s); try discriminate. inversion Hs; subst.
  destruct HP as (_ & _ & _ & _ & HP). rewrite (HP eq_refl) in A5. exact A5.
Qed.

Lemma nil_cancel_reason c s : reachable c s -> stream_result s = Some RNil -> first_res s <> None ->
  rreason s = Some RCancel -> canc_at_err s = true.
Proof.
  intros Hr Hs He Hc.
  destruct (reachable_Inv2 _ _ Hr) as (_ & _ & _ & A4 & _ & A6 & _).
  apply A6; [exact He|].
  assert (Hp : pnil s = true).
  { unfold pnil, stream_result in *. destruct (ps s); try discriminate. inversion Hs; subst. reflexivity. }
  destruct (A4 Hp) as [E | (_ & E)]; [exact E | congruence].
Qed.

Lemma error_reports c s : d9_wrong c = false -> reachable c s ->
  stream_result s = Some RNil -> first_res s = Some ENil ->
  canc_at_err s = true \/ rreason s = Some REof.
Proof.
  intros Hw Hr Hs He.
  destruct (first_error_result c s ENil Hr Hs He) as (r & E1 & E2).
  unfold filter_ctx in E2. rewrite Hw in E2. cbn in E2. rewrite orb_false_r in E2.
  destruct (canc_at_err s) eqn:Ec; auto.
  cbn in E2. destruct r; try discriminate; auto.
  left. rewrite <- Ec. eapply nil_cancel_reason; eauto. congruence.
Qed.

Lemma error_carries c s r e : d9_wrong c = false -> reachable c s ->
  stream_result s = Some RNil -> rreason s = Some r -> (r = RTransport \/ exists code, r = RMaster code) ->
  canc_at_err s = false -> first_res s = Some e -> e = EErr r.
Proof.
  intros Hw Hr Hs Hre Hk Hc He.
  destruct (first_error_result c s e Hr Hs He) as (r' & E1 & E2).
  unfold filter_ctx in E2. rewrite Hw, Hc in E2. cbn in E2.
  assert (r' = r) by congruence. subst r'.
  destruct Hk as [-> | (code & ->)]; exact E2.
Qed.

(* ghost-free corollaries: on executions in which the caller has not cancelled (so far) *)
Lemma error_reports_not_cancelled c s : d9_wrong c = false -> reachable c s ->
  stream_result s = Some RNil -> first_res s = Some ENil -> cancelled s = false -> rreason s = Some REof.
Proof.
  intros Hw Hr Hs He Hc. destruct (error_reports c s Hw Hr Hs He) as [E|E]; auto.
  destruct (reachable_Inv2 _ _ Hr) as (_ & _ & _ & _ & _ & _ & A7 & _). rewrite (A7 E) in Hc. discriminate.
Qed.

Lemma error_carries_not_cancelled c s r e : d9_wrong c = false -> reachable c s ->
  stream_result s = Some RNil -> rreason s = Some r -> (r = RTransport \/ exists code, r = RMaster code) ->
  cancelled s = false -> first_res s = Some e -> e = EErr r.
Proof.
  intros Hw Hr Hs Hre Hk Hc He. eapply error_carries; eauto.
  destruct (canc_at_err s) eqn:E; auto.
  destruct (reachable_Inv2 _ _ Hr) as (_ & _ & _ & _ & _ & _ & A7 & _). rewrite (A7 E) in Hc. discriminate.
Qed.

(* the ghost canc_at_err is what it claims to be: true only if the caller cancelled *)
Lemma canc_at_err_sound c s : reachable c s -> canc_at_err s = true -> cancelled s = true.
Proof. intros Hr. destruct (reachable_Inv2 _ _ Hr) as (_ & _ & _ & _ & _ & _ & A7 & _). exact A7. Qed.

(* ---- K2: the strong form (cancelled before Stream returned) is false on the pinned code and after the
   D9/D10 repairs, as long as K2 itself is not repaired ---- *)
Definition sched_k2 : list label :=
  [LConnectOk; LStartOk; LArrive (PkERR 1236%Z); LReaderRecv; LReaderPutErr; LReaderCloseErr; LReaderCloseEv;
   LParserSeeClosed; LStreamDefer; LStreamReturn; LCancel; LCallError; LErrorStep].

Lemma error_reports_refuted c : d9_wrong c = false -> fix_k2 c = false -> exists ls s,
  run c init ls = Some s /\ stream_result s = Some RNil /\ first_res s = Some ENil /\
  rreason s = Some (RMaster 1236%Z) /\ canc_pre_ret s = false.
Proof.
  intros Hw Hk. destruct c as [a b w k]; cbn in Hw, Hk; subst w k.
  exists sched_k2. eexists. split; [vm_compute; reflexivity|]. repeat split.
Qed.

(* even "cancelled before Error() was CALLED" is too strong: the filter reads the context after the receive *)
Definition sched_k2_late : list label :=
  [LConnectOk; LStartOk; LArrive (PkERR 1236%Z); LReaderRecv; LReaderPutErr; LReaderCloseErr; LReaderCloseEv;
   LParserSeeClosed; LStreamDefer; LStreamReturn; LCallError; LCancel; LErrorStep].

Lemma error_reports_call_time_refuted c : d9_wrong c = false -> fix_k2 c = false -> exists ls s,
  run c init ls = Some s /\ stream_result s = Some RNil /\ first_res s = Some ENil /\
  rreason s = Some (RMaster 1236%Z) /\ canc_pre_call s = false.
Proof.
  intros Hw Hk. destruct c as [a b w k]; cbn in Hw, Hk; subst w k.
  exists sched_k2_late. eexists. split; [vm_compute; reflexivity|]. repeat split.
Qed.

(* ---- the trap of the D9 repair: if s.ctx held the derived context, Error() would swallow everything ---- *)
Definition sched_trap : list label :=
  [LConnectOk; LStartOk; LArrive (PkERR 1236%Z); LReaderRecv; LReaderPutErr; LReaderCloseErr; LReaderCloseEv;
   LParserSeeClosed; LStreamDefer; LStreamReturn; LCallError; LErrorStep].

Lemma error_carries_trap_refuted : exists ls s,
  run cfg_trap init ls = Some s /\ stream_result s = Some RNil /\ rreason s = Some (RMaster 1236%Z) /\
  cancelled s = false /\ first_res s = Some ENil.
Proof. exists sched_trap. eexists. split; [vm_compute; reflexivity|]. repeat split. Qed.

Lemma trap_swallows_every_error c s e : fix_d9 c = true -> d9_wrong c = true -> fix_k2 c = false ->
  reachable c s -> first_res s = Some e -> e = ENil.
Proof.
  intros H9 Hw Hk Hr He.
  destruct (reachable_Inv2 _ _ Hr) as (_ & _ & _ & _ & A5 & _).
  specialize (A5 e He). unfold filter_ctx in A5. rewrite H9, Hw, Hk in A5. rewrite orb_true_r in A5. cbn in A5.
  destruct (s_chan s); auto. destruct A5 as (r & _ & E). exact E.
Qed.

(* the same schedule on the correct repair delivers the master's error *)
Lemma repaired_delivers : exists s,
  run cfg_fixed init sched_trap = Some s /\ first_res s = Some (EErr (RMaster 1236%Z)).
Proof. eexists. split; [vm_compute; reflexivity|]. reflexivity. Qed.

(* ---- K2 repaired (fix_k2): only a cancellation that happened before parseEvents returned hides the reason ---- *)
Lemma nil_ended_uncancelled c s : reachable c s -> stream_result s = Some RNil -> canc_pre_pe s = false ->
  ended_uncancelled s = true.
Proof.
  intros Hr Hs Hc.
  destruct (reachable_Inv1 _ _ Hr) as (_ & HP & _).
  destruct (reachable_Inv3 _ _ Hr) as (_ & B2 & _).
  unfold ps_inv, stream_result in *. destruct (ps s) eqn:E; try discriminate. inversion Hs; subst.
  destruct HP as (_ & _ & _ & _ & HP). apply B2; auto.
Qed.

Lemma error_reports_strong c s : fix_k2 c = true -> d9_wrong c = false -> reachable c s ->
  stream_result s = Some RNil -> first_res s = Some ENil ->
  canc_pre_pe s = true \/ rreason s = Some REof.
Proof.
  intros Hk Hw Hr Hs He.
  destruct (canc_pre_pe s) eqn:Ec; auto. right.
  destruct (first_error_result c s ENil Hr Hs He) as (r & E1 & E2).
  unfold filter_ctx in E2. rewrite Hk, (nil_ended_uncancelled c s Hr Hs Ec), andb_false_r in E2. cbn in E2.
  destruct r; try discriminate; auto.
  exfalso.
  destruct (reachable_Inv3 _ _ Hr) as (_ & _ & _ & _ & B5).
  assert (Hp : pnil s = true).
  { unfold pnil, stream_result in *. destruct (ps s); try discriminate. inversion Hs; subst. reflexivity. }
  destruct (B5 Hp) as [X | (_ & X)]; congruence.
Qed.

Lemma error_carries_strong c s r e : fix_k2 c = true -> d9_wrong c = false -> reachable c s ->
  stream_result s = Some RNil -> rreason s = Some r -> (r = RTransport \/ exists code, r = RMaster code) ->
  canc_pre_pe s = false -> first_res s = Some e -> e = EErr r.
Proof.
  intros Hk Hw Hr Hs Hre Hkind Hc He.
  destruct (first_error_result c s e Hr Hs He) as (r' & E1 & E2).
  unfold filter_ctx in E2. rewrite Hk, (nil_ended_uncancelled c s Hr Hs Hc), andb_false_r in E2. cbn in E2.
  assert (r' = r) by congruence. subst r'.
  destruct Hkind as [-> | (code & ->)]; exact E2.
Qed.

(* the same two statements with "before Stream returned" (weaker conclusion / stronger premise: a cancellation
   before parseEvents returned is a cancellation before Stream returned) *)
Lemma canc_pre_pe_pre_ret c s : reachable c s -> canc_pre_pe s = true -> canc_pre_ret s = true.
Proof. intros Hr H. destruct (reachable_Inv3 _ _ Hr) as (_ & _ & B3 & _). apply B3; auto. Qed.

Lemma error_reports_strong_ret c s : fix_k2 c = true -> d9_wrong c = false -> reachable c s ->
  stream_result s = Some RNil -> first_res s = Some ENil ->
  canc_pre_ret s = true \/ rreason s = Some REof.
Proof.
  intros Hk Hw Hr Hs He. destruct (error_reports_strong c s Hk Hw Hr Hs He) as [X|X]; auto.
  left. eapply canc_pre_pe_pre_ret; eauto.
Qed.

Lemma error_carries_strong_ret c s r e : fix_k2 c = true -> d9_wrong c = false -> reachable c s ->
  stream_result s = Some RNil -> rreason s = Some r -> (r = RTransport \/ exists code, r = RMaster code) ->
  canc_pre_ret s = false -> first_res s = Some e -> e = EErr r.
Proof.
  intros Hk Hw Hr Hs Hre Hkind Hc He. eapply error_carries_strong; eauto.
  destruct (canc_pre_pe s) eqn:E; auto. rewrite (canc_pre_pe_pre_ret c s Hr E) in Hc. discriminate.
Qed.

(* ghost-free forms: the schedule itself *)
Lemma error_reports_strong_trace c tr s : fix_k2 c = true -> d9_wrong c = false -> reach c tr s ->
  stream_result s = Some RNil -> first_res s = Some ENil ->
  cancel_before_sample tr = true \/ rreason s = Some REof.
Proof.
  intros Hk Hw Hr Hs He. rewrite <- (canc_pre_pe_sound c tr s Hr).
  apply (error_reports_strong c s Hk Hw (ex_intro _ tr Hr) Hs He).
Qed.

Lemma error_carries_strong_trace c tr s r e : fix_k2 c = true -> d9_wrong c = false -> reach c tr s ->
  stream_result s = Some RNil -> rreason s = Some r -> (r = RTransport \/ exists code, r = RMaster code) ->
  cancel_before_sample tr = false -> first_res s = Some e -> e = EErr r.
Proof.
  intros Hk Hw Hr Hs Hre Hkind Hc He. rewrite <- (canc_pre_pe_sound c tr s Hr) in Hc.
  apply (error_carries_strong c s r e Hk Hw (ex_intro _ tr Hr) Hs Hre Hkind Hc He).
Qed.

(* s.endedUncancelled is what it claims to be *)
Lemma ended_uncancelled_sound c tr s : reach c tr s -> ended_uncancelled s = true ->
  past_sample (ps s) = true /\ cancel_before_sample tr = false /\ s_chan s = true.
Proof.
  intros Hr H. destruct (reach_Inv3 _ _ _ Hr) as (B1 & _). destruct (B1 H) as (X1 & X2 & X3).
  rewrite <- (canc_pre_pe_sound c tr s Hr). auto.
Qed.

(* the K2 schedule on the tree with K2 repaired reports the master's error; without the K2 repair it is lost *)
Lemma k2_schedule_repaired :
  (exists s, run cfg_fixed2 init sched_k2 = Some s /\ stream_result s = Some RNil /\ cancelled s = true /\
             canc_pre_ret s = false /\ first_res s = Some (EErr (RMaster 1236%Z))) /\
  (exists s, run cfg_fixed init sched_k2 = Some s /\ stream_result s = Some RNil /\ cancelled s = true /\
             canc_pre_ret s = false /\ first_res s = Some ENil).
Proof. split; eexists; (split; [vm_compute; reflexivity | repeat split]). Qed.
