(* C08: views of delivered values stay inside the bytes their cell consumed, hence are pairwise disjoint. *)
From GB Require Import Base.Prelude Base.BytesLemmas Model.Cell Model.Alias.
From GBGen Require Import Consts.
From Coq Require Import ZifyBool.
Open Scope Z_scope.

Lemma take_ok d p l s : take d p l = Ok s -> 0 <= l /\ Z.of_nat p + l <= len d /\ s = firstn (Z.to_nat l) (skipn p d).
Proof.
  unfold take. destruct ((0 <=? l) && (Z.of_nat p + l <=? len d)) eqn:E; [|discriminate].
  unfold slice. destruct (p + Z.to_nat l <=? length d)%nat; [|discriminate].
  intros H. inversion H. repeat split; try reflexivity; lia.
Qed.

Section Views.
Variable ffmt : Z -> Z -> bytes.
Variable tz : Z -> Z.
Variable jsonp : bytes -> res bytes.

Lemma lenpfx_view_sound d pos two a n :
  lenpfx_view d pos two = Ok (a, n) ->
  exists l, decode_lenpfx d pos two = Ok (Some (firstn n (skipn a d)), l) /\
            (pos <= a)%nat /\ Z.of_nat a + Z.of_nat n <= Z.of_nat pos + l.
Proof.
  unfold lenpfx_view, decode_lenpfx. destruct two.
  - destruct (le_at d pos 2) as [l| |]; cbn [bind]; try discriminate.
    destruct (take d (pos + 2) l) as [s| |] eqn:T; cbn [bind]; try discriminate.
    intros H. inversion H; subst. apply take_ok in T as (T1 & T2 & T3).
    exists (l + 2). rewrite T3. split; [reflexivity|]. lia.
  - destruct (at_ d pos) as [l| |]; cbn [bind]; try discriminate.
    destruct (take d (pos + 1) l) as [s| |] eqn:T; cbn [bind]; try discriminate.
    intros H. inversion H; subst. apply take_ok in T as (T1 & T2 & T3).
    exists (l + 1). rewrite T3. split; [reflexivity|]. lia.
Qed.

(* a view is the delivered value itself and lies inside the bytes the cell consumed *)
Theorem view_sound d pos typ meta uns a n :
  0 <= meta -> cell_view d pos typ meta = Some (a, n) ->
  exists l, cell_bytes ffmt tz jsonp d pos typ meta uns = Ok (Some (firstn n (skipn a d)), l) /\
            (pos <= a)%nat /\ Z.of_nat a + Z.of_nat n <= Z.of_nat pos + l.
Proof.
  intros Hm. unfold cell_view.
  destruct ((typ =? K_TypeVarchar) || (typ =? K_TypeVarString)) eqn:E1.
  - assert (C : cell_bytes ffmt tz jsonp d pos typ meta uns = decode_lenpfx d pos (meta >? 255)).
    { apply orb_true_iff in E1 as [E|E]; apply Z.eqb_eq in E; subst typ; reflexivity. }
    rewrite C. destruct (lenpfx_view d pos (meta >? 255)) as [[a' n']| |] eqn:V; try discriminate.
    intros H; inversion H; subst. eapply lenpfx_view_sound; eauto.
  - apply orb_false_iff in E1 as [E1a E1b].
    destruct (typ =? K_TypeBit) eqn:E2.
    + apply Z.eqb_eq in E2; subst typ.
      change (cell_bytes ffmt tz jsonp d pos K_TypeBit meta uns) with
        (let nbits := u16 (u16 (shr meta 8 * 8) + band meta 255) in
         let l := (nbits + 7) / 8 in do s <- take d pos l; Ok (Some s, l)).
      cbv zeta. set (l := (u16 (u16 (shr meta 8 * 8) + band meta 255) + 7) / 8).
      destruct (take d pos l) as [s| |] eqn:T; cbn [bind]; try discriminate.
      intros H; inversion H; subst. apply take_ok in T as (T1 & T2 & T3).
      exists l. rewrite T3. split; [reflexivity|]. lia.
    + destruct (typ =? K_TypeSet) eqn:E3.
      * apply Z.eqb_eq in E3; subst typ.
        change (cell_bytes ffmt tz jsonp d pos K_TypeSet meta uns) with
          (let l := band meta 255 in do s <- take d pos l; Ok (Some s, l)).
        cbv zeta. set (l := band meta 255).
        destruct (take d pos l) as [s| |] eqn:T; cbn [bind]; try discriminate.
        intros H; inversion H; subst. apply take_ok in T as (T1 & T2 & T3).
        exists l. rewrite T3. split; [reflexivity|]. lia.
      * destruct ((typ =? K_TypeTinyBlob) || (typ =? K_TypeMediumBlob) || (typ =? K_TypeLongBlob) || (typ =? K_TypeBlob) || (typ =? K_TypeGeometry)) eqn:E4.
        -- assert (C : cell_bytes ffmt tz jsonp d pos typ meta uns =
                       (do l <- blob_len d pos meta; do s <- take d (pos + Z.to_nat meta) l; Ok (Some s, l + meta))).
           { repeat (apply orb_true_iff in E4 as [E4|E4]); apply Z.eqb_eq in E4; subst typ; reflexivity. }
           rewrite C. destruct (blob_len d pos meta) as [l| |]; cbn [bind]; try discriminate.
           destruct (take d (pos + Z.to_nat meta) l) as [s| |] eqn:T; cbn [bind]; try discriminate.
           intros H; inversion H; subst. apply take_ok in T as (T1 & T2 & T3).
           exists (l + meta). rewrite T3. split; [reflexivity|]. lia.
        -- destruct (typ =? K_TypeString) eqn:E5; [|discriminate].
           apply Z.eqb_eq in E5; subst typ.
           destruct ((shr meta 8 =? K_TypeEnum) || (shr meta 8 =? K_TypeSet)) eqn:E6; [discriminate|].
           apply orb_false_iff in E6 as [E6a E6b].
           assert (C : cell_bytes ffmt tz jsonp d pos K_TypeString meta uns = decode_lenpfx d pos (string_max meta >? 255)).
           { change (cell_bytes ffmt tz jsonp d pos K_TypeString meta uns) with
               (let t := shr meta 8 in
                if t =? K_TypeEnum then decode_enum d pos meta
                else if t =? K_TypeSet then
                  let l := band meta 255 in do s <- take d pos l; Ok (Some (GoFmt.fmt_d (u64 (le_dec s))), l)
                else decode_lenpfx d pos (string_max meta >? 255)).
             cbv zeta. rewrite E6a, E6b. reflexivity. }
           rewrite C. destruct (lenpfx_view d pos (string_max meta >? 255)) as [[a' n']| |] eqn:V; try discriminate.
           intros H; inversion H; subst. eapply lenpfx_view_sound; eauto.
Qed.

(* two cells decoded one after the other (the second starts where the first one's consumed bytes end, or later)
   never hand out overlapping views: overwriting one delivered value cannot change another *)
Theorem views_disjoint d p1 t1 m1 u1 a1 n1 l1 v1 p2 t2 m2 a2 n2 :
  0 <= m1 -> cell_view d p1 t1 m1 = Some (a1, n1) ->
  cell_bytes ffmt tz jsonp d p1 t1 m1 u1 = Ok (v1, l1) ->
  Z.of_nat p1 + l1 <= Z.of_nat p2 ->
  0 <= m2 -> cell_view d p2 t2 m2 = Some (a2, n2) ->
  (a1 + n1 <= a2)%nat.
Proof.
  intros M1 V1 C1 Hp M2 V2.
  destruct (view_sound d p1 t1 m1 u1 a1 n1 M1 V1) as (l & C & _ & R1).
  rewrite C in C1. inversion C1; subst.
  destruct (view_sound d p2 t2 m2 false a2 n2 M2 V2) as (l2 & _ & R2 & _). lia.
Qed.

End Views.
