(* readVariableLength against append_variable_length. *)
From GB Require Import Base.Prelude Base.BytesLemmas Model.Json Spec.EncJson.
Open Scope Z_scope.

Lemma land_shiftl_disjoint a m k :
  0 <= k -> 0 <= a < 2 ^ k -> Z.land a (Z.shiftl m k) = 0.
Proof.
  intros Hk Ha. apply Z.bits_inj'. intros i Hi.
  rewrite Z.land_spec, Z.bits_0.
  destruct (Z_lt_le_dec i k) as [Hlt|Hge].
  - rewrite Z.shiftl_spec_low by lia. apply andb_false_r.
  - replace (Z.testbit a i) with false; [reflexivity|].
    symmetry. destruct (Z.eq_dec a 0) as [->|Hnz]; [apply Z.bits_0|].
    apply Z.bits_above_log2; [lia|].
    assert (Z.log2 a < k) by (apply Z.log2_lt_pow2; lia). lia.
Qed.

Lemma lor_shiftl_add a m k :
  0 <= k -> 0 <= a < 2 ^ k -> Z.lor a (Z.shiftl m k) = a + m * 2 ^ k.
Proof.
  intros Hk Ha. pose proof (land_shiftl_disjoint a m k Hk Ha) as H0.
  rewrite <- Z.lxor_lor by exact H0. rewrite <- Z.add_nocarry_lxor by exact H0.
  rewrite Z.shiftl_mul_pow2 by lia. reflexivity.
Qed.

Lemma lor_mul_add a m k :
  0 <= k -> 0 <= a < 2 ^ k -> Z.lor a (m * 2 ^ k) = a + m * 2 ^ k.
Proof.
  intros Hk Ha. rewrite <- (lor_shiftl_add a m k Hk Ha). rewrite Z.shiftl_mul_pow2 by lia. reflexivity.
Qed.

Lemma i64_small x : 0 <= x < 2 ^ 63 -> i64 x = x.
Proof.
  intros H. unfold i64, sx, u64. rewrite Z.mod_small by lia.
  change (2 ^ (64 - 1)) with (2 ^ 63).
  destruct (Z.ltb_spec x (2 ^ 63)); lia.
Qed.

Lemma land127_small b : 0 <= b < 128 -> Z.land b 127 = b.
Proof.
  intros H. change 127 with (Z.ones 7). rewrite Z.land_ones by lia.
  apply Z.mod_small. change (2 ^ 7) with 128. lia.
Qed.

Lemma land127_high m : 0 <= m < 128 -> Z.land (128 + m) 127 = m.
Proof.
  intros H. change 127 with (Z.ones 7). rewrite Z.land_ones by lia.
  change (2 ^ 7) with 128. replace (128 + m) with (m + 1 * 128) by ring.
  rewrite Z.mod_add by lia. apply Z.mod_small. lia.
Qed.

Lemma i8_low b : 0 <= b < 128 -> i8 b = b.
Proof.
  intros H. unfold i8, sx, u8. rewrite Z.mod_small by lia.
  change (2 ^ (8 - 1)) with 128. destruct (Z.ltb_spec b 128); lia.
Qed.

Lemma i8_high m : 0 <= m < 128 -> i8 (128 + m) = m - 128.
Proof.
  intros H. unfold i8, sx, u8. rewrite Z.mod_small by lia.
  change (2 ^ (8 - 1)) with 128. change (2 ^ 8) with 256.
  destruct (Z.ltb_spec (128 + m) 128); lia.
Qed.

Lemma pow2_7idx_bound idx n : 0 <= idx -> 1 <= n -> n * 2 ^ (7 * idx) < 2 ^ 63 -> idx <= 8.
Proof.
  intros Hi Hn H. destruct (Z_le_gt_dec idx 8) as [|Hgt]; [assumption|exfalso].
  assert (2 ^ 63 <= 2 ^ (7 * idx)) by (apply Z.pow_le_mono_r; lia).
  assert (0 < 2 ^ (7 * idx)) by (apply Z.pow_pos_nonneg; lia). nia.
Qed.

(* the general step invariant of the decoding loop *)
Lemma read_varlen_go_ok fuel : forall n acc idx pos rest,
  (0 < fuel)%nat -> 0 <= n < 128 ^ Z.of_nat fuel ->
  0 <= idx <= 9 -> 0 <= acc < 2 ^ (7 * idx) -> n * 2 ^ (7 * idx) < 2 ^ 63 ->
  read_varlen_go (enc_varlen_fuel fuel n ++ rest) acc idx pos
  = Ok (acc + n * 2 ^ (7 * idx), (pos + length (enc_varlen_fuel fuel n))%nat).
Proof.
  induction fuel as [|f IH]; intros n acc idx pos rest Hf Hn Hidx Hacc Hov; [lia|].
  cbn [enc_varlen_fuel].
  assert (Hsh : u8 (7 * idx) = 7 * idx) by (unfold u8; apply Z.mod_small; lia).
  assert (Hp : 0 < 2 ^ (7 * idx)) by (apply Z.pow_pos_nonneg; lia).
  destruct (Z.ltb_spec n 128) as [Hsmall|Hbig].
  - cbn [app read_varlen_go length]. rewrite Hsh.
    destruct (Z.ltb_spec (7 * idx) 64) as [_|?]; [|lia].
    rewrite land127_small by lia.
    assert (Hnn : 0 <= n * 2 ^ (7 * idx)) by (apply Z.mul_nonneg_nonneg; lia).
    rewrite Z.shiftl_mul_pow2 by lia. rewrite i64_small by lia.
    rewrite lor_mul_add by lia.
    rewrite i8_low by lia. destruct (Z.leb_spec 0 n); [|lia].
    f_equal. f_equal; lia.
  - assert (Hm : 0 <= n mod 128 < 128) by (apply Z.mod_pos_bound; lia).
    pose proof (Z_div_mod_eq_full n 128) as Hdm.
    assert (Hq : 1 <= n / 128) by (apply Z.div_le_lower_bound; lia).
    assert (Hidx8 : idx <= 8) by (apply (pow2_7idx_bound idx n); lia).
    assert (Hpow : 2 ^ (7 * (idx + 1)) = 128 * 2 ^ (7 * idx)).
    { replace (7 * (idx + 1)) with (7 + 7 * idx) by ring. rewrite Z.pow_add_r by lia. reflexivity. }
    cbn [app read_varlen_go length]. rewrite Hsh.
    destruct (Z.ltb_spec (7 * idx) 64) as [_|?]; [|lia].
    rewrite land127_high by lia.
    assert (Hnn : 0 <= n mod 128 * 2 ^ (7 * idx)) by (apply Z.mul_nonneg_nonneg; lia).
    assert (Hlt : n mod 128 * 2 ^ (7 * idx) <= n * 2 ^ (7 * idx)) by (apply Z.mul_le_mono_nonneg_r; lia).
    rewrite Z.shiftl_mul_pow2 by lia. rewrite i64_small by lia.
    rewrite lor_mul_add by lia.
    rewrite i8_high by lia. destruct (Z.leb_spec 0 (n mod 128 - 128)); [lia|].
    assert (Hu : u8 (idx + 1) = idx + 1) by (unfold u8; apply Z.mod_small; lia).
    rewrite Hu.
    assert (Hf' : (0 < f)%nat).
    { destruct f; [|lia]. simpl in Hn. lia. }
    assert (Hn' : 0 <= n / 128 < 128 ^ Z.of_nat f).
    { rewrite Nat2Z.inj_succ, Z.pow_succ_r in Hn by lia.
      split; [lia | apply Z.div_lt_upper_bound; lia]. }
    assert (Hacc' : 0 <= acc + n mod 128 * 2 ^ (7 * idx) < 2 ^ (7 * (idx + 1))) by (rewrite Hpow; nia).
    assert (Hov' : n / 128 * 2 ^ (7 * (idx + 1)) < 2 ^ 63) by (rewrite Hpow; nia).
    rewrite (IH (n / 128) _ (idx + 1) (S pos) rest Hf' Hn' ltac:(lia) Hacc' Hov').
    f_equal. f_equal; [|lia]. rewrite Hpow. nia.
Qed.

Lemma pow128_10 : 2 ^ 63 <= 128 ^ Z.of_nat 10.
Proof. vm_compute. discriminate. Qed.

(* round trip for every length below 2^63 (MySQL itself never writes a
   length >= 2^32) *)
Lemma varlen_roundtrip_63 n pre rest :
  0 <= n < 2 ^ 63 ->
  read_varlen (pre ++ enc_varlen n ++ rest) (length pre)
  = Ok (n, (length pre + length (enc_varlen n))%nat).
Proof.
  intros Hn. unfold read_varlen, enc_varlen. rewrite skipn_app_exact.
  pose proof pow128_10.
  rewrite read_varlen_go_ok; change (2 ^ (7 * 0)) with 1; try lia.
  f_equal. f_equal. lia.
Qed.

Lemma varlen_roundtrip n pre rest :
  0 <= n < 2 ^ 32 ->
  read_varlen (pre ++ enc_varlen n ++ rest) (length pre)
  = Ok (n, (length pre + length (enc_varlen n))%nat).
Proof.
  intros Hn. apply varlen_roundtrip_63.
  assert (2 ^ 32 < 2 ^ 63) by (vm_compute; reflexivity). lia.
Qed.

(* beyond 2^63 the decoder disagrees with the encoder: the tenth byte is
   shifted by 63 into the sign bit (and an eleventh would be shifted by
   70 >= 64, i.e. dropped; the byte-typed idx wraps the shift count only
   after 37 continuation bytes: u8 (7*37) = 3) *)
Lemma varlen_2_63_negative :
  read_varlen (enc_varlen (2 ^ 63)) 0 = Ok (- 2 ^ 63, 10%nat).
Proof. vm_compute. reflexivity. Qed.

Lemma varlen_shift_wraps : u8 (7 * 36) = 252 /\ u8 (7 * 37) = 3.
Proof. split; reflexivity. Qed.

Lemma enc_varlen_length_pos n : (0 < length (enc_varlen n))%nat.
Proof. unfold enc_varlen. cbn [enc_varlen_fuel]. destruct (n <? 128); cbn [length]; lia. Qed.
