(* CellBytes_equiv: the Go function CellBytes (replication/binlog_event_rbr.go), translated from /repo on every run by
   harness/cmd/gotrans (gen/TransCellBytes.v), returns for EVERY input what the hand-written model Model.Cell.cell_bytes
   returns - the model the cell theorems of C10-C13 (and, through the rows and stream layers, C01 / C09) talk about.
   The per-case statements are proved in TransEquivCellBytes{Int,Str,Temporal,Decimal}.v. *)
From Coq Require Import ZifyBool.
From GB Require Import Base.Prelude Base.GoSem Base.DecText Base.GoFmt Base.BytesLemmas Proofs.GoSemLemmas Proofs.TransTactics.
From GB Require Import Model.Cell Proofs.TransEquivCellBytesDefs.
From GB Require Import Proofs.TransEquivCellBytesInt Proofs.TransEquivCellBytesStr Proofs.TransEquivCellBytesTemporal
                       Proofs.TransEquivCellBytesDecimal.
From GBGen Require Import Consts TransCellBytes.
Open Scope Z_scope.

Section Assemble.
Variable ffmt : Z -> Z -> bytes.
Variable tz : Z -> Z.
Variable jsonp : bytes -> res bytes.

(* The premise pos <= length d of CellBytes_equiv (the position is a slice index of the row data, as at every call site):
   without it the model is stricter than the code in one corner, found while proving the TypeString case: a SET stored as
   a string with width byte 0 makes the Go loop run zero times and never touch the data, whereas the model takes a
   zero-length slice at pos and panics when pos lies beyond the data (CellBytes_TypeString_differs). *)

(* a type code no case of the switch names: both sides report an error *)
Lemma cell_bytes_unsupported d pos typ meta uns :
  ~ In typ [1; 13; 2; 9; 3; 4; 5; 7; 8; 10; 14; 11; 12; 15; 253; 16; 17; 18; 19; 246; 247; 248; 245; 249; 250; 251; 252; 254; 255] ->
  cell_bytes ffmt tz jsonp d pos typ meta uns = Err EUnsupportedType.
Proof.
  intros N. cbn [In] in N. unfold cell_bytes.
  cbv [K_TypeBit K_TypeBlob K_TypeDate K_TypeDateTime K_TypeDateTime2 K_TypeDecimal K_TypeDouble K_TypeEnum K_TypeFloat
       K_TypeGeometry K_TypeInt24 K_TypeJSON K_TypeLong K_TypeLongBlob K_TypeLongLong K_TypeMediumBlob K_TypeNewDate
       K_TypeNewDecimal K_TypeNull K_TypeSet K_TypeShort K_TypeString K_TypeTime K_TypeTime2 K_TypeTimestamp
       K_TypeTimestamp2 K_TypeTiny K_TypeTinyBlob K_TypeVarString K_TypeVarchar K_TypeYear].
  repeat match goal with
  | |- context [if (?a =? ?b) then _ else _] => destruct (a =? b) eqn:?; [exfalso; lia|]
  | |- context [if ?c then _ else _] => destruct c eqn:?; [exfalso; lia|]
  end.
  reflexivity.
Qed.

Theorem CellBytes_equiv fuel d pos typ meta uns :
  (1000 <= fuel)%nat -> wf_bytes d -> 0 <= meta < 65536 -> Z.of_nat pos < 2 ^ 62 -> (pos <= length d)%nat ->
  res_sim (CellBytes_g ffmt (print_timestamp tz) jsonp fuel d (Z.of_nat pos) typ meta uns)
          (flat (cell_bytes ffmt tz jsonp d pos typ meta uns)).
Proof.
  intros Hf W Hm Hp Hle. unfold CellBytes_g.
  Ltac case_by L :=
    match goal with
    | |- context [if ?c then _ else _] =>
      destruct c eqn:?; [ apply L; try assumption; cbn [In]; lia | ]
    end.
  case_by (CellBytes_TypeTiny_ok ffmt tz jsonp).
  case_by (CellBytes_TypeYear_ok ffmt tz jsonp).
  case_by (CellBytes_TypeShort_ok ffmt tz jsonp).
  case_by (CellBytes_TypeInt24_ok ffmt tz jsonp).
  case_by (CellBytes_TypeLong_ok ffmt tz jsonp).
  case_by (CellBytes_TypeFloat_ok ffmt tz jsonp).
  case_by (CellBytes_TypeDouble_ok ffmt tz jsonp).
  case_by (CellBytes_TypeTimestamp_ok ffmt tz jsonp).
  case_by (CellBytes_TypeLongLong_ok ffmt tz jsonp).
  case_by (CellBytes_TypeDate_ok ffmt tz jsonp).
  case_by (CellBytes_TypeTime_ok ffmt tz jsonp).
  case_by (CellBytes_TypeDateTime_ok ffmt tz jsonp).
  case_by (CellBytes_TypeVarchar_ok ffmt tz jsonp).
  case_by (CellBytes_TypeBit_ok ffmt tz jsonp).
  case_by (CellBytes_TypeTimestamp2_ok ffmt tz jsonp).
  case_by (CellBytes_TypeDateTime2_ok ffmt tz jsonp).
  case_by (CellBytes_TypeTime2_ok ffmt tz jsonp).
  case_by (CellBytes_TypeNewDecimal_ok ffmt tz jsonp fuel Hf).
  case_by (CellBytes_TypeEnum_ok ffmt tz jsonp).
  case_by (CellBytes_TypeSet_ok ffmt tz jsonp).
  case_by (CellBytes_TypeJSON_ok ffmt tz jsonp).
  case_by (CellBytes_TypeString_ok ffmt tz jsonp fuel Hf).
  case_by (CellBytes_TypeGeometry_ok ffmt tz jsonp).
  rewrite cell_bytes_unsupported by (cbn [In]; lia). exact I.
Qed.
End Assemble.
