(* C14 at the observation point: a TypeJSON cell of a row image. *)
From GB Require Import Base.Prelude Base.DecText Base.BytesLemmas.
From GB Require Import Model.Cell Model.Json Spec.Values Spec.EncJson.
From GB Require Import Proofs.CellDecimal Proofs.JsonScalars Proofs.JsonFaithful.
From GBGen Require Import Consts.
Open Scope Z_scope.

Lemma cell_bytes_json ffmt tz jsonp d pos meta uns :
  cell_bytes ffmt tz jsonp d pos 245 meta uns =
  (do l <- blob_len d pos meta;
   do s <- take d (pos + Z.to_nat meta) l;
   match jsonp s with
   | Ok t => Ok (Some t, l + meta)
   | Err _ => Err EJson
   | Panic => Panic
   end).
Proof. reflexivity. Qed.

Theorem json_cell_ok (decimal_ok : decimal_cell_spec) ffmt tz efmt d pre rest lb uns :
  wf_doc d -> 1 <= lb <= 4 -> len (ser d) < 256 ^ lb ->
  cell_bytes ffmt tz (print_json efmt)
             (pre ++ le_enc (Z.to_nat lb) (len (ser d)) ++ ser d ++ rest) (List.length pre) 245 lb uns
  = Ok (Some (render_top efmt d), lb + len (ser d)).
Proof.
  intros Hwf Hlb Hfit. rewrite cell_bytes_json.
  pose proof (len_nonneg (ser d)) as Hnn.
  unfold blob_len.
  destruct (Z.leb_spec 1 lb); [|lia]. destruct (Z.leb_spec lb 4); [|lia]. cbn [andb].
  unfold le_at. rewrite (slice_app_mid pre _ _ (Z.to_nat lb)) by (rewrite le_enc_length; reflexivity).
  cbn [bind]. rewrite le_dec_enc by (rewrite Z2Nat.id by lia; lia).
  unfold take.
  set (hdr := le_enc (Z.to_nat lb) (len (ser d))).
  assert (Hh : List.length hdr = Z.to_nat lb) by apply le_enc_length.
  destruct (Z.leb_spec 0 (len (ser d))); [|lia].
  assert (Hl : Z.of_nat (List.length pre + Z.to_nat lb) + len (ser d)
               <= len (pre ++ hdr ++ ser d ++ rest)).
  { rewrite !len_app. unfold len at 2 3. rewrite Hh. pose proof (len_nonneg rest). lia. }
  destruct (Z.leb_spec (Z.of_nat (List.length pre + Z.to_nat lb) + len (ser d))
                       (len (pre ++ hdr ++ ser d ++ rest))); [|lia].
  cbn [andb].
  replace (pre ++ hdr ++ ser d ++ rest) with ((pre ++ hdr) ++ ser d ++ rest) by (rewrite <- app_assoc; reflexivity).
  replace (List.length pre + Z.to_nat lb)%nat with (List.length (pre ++ hdr)) by (rewrite app_length, Hh; reflexivity).
  rewrite (slice_app_mid (pre ++ hdr) (ser d) rest).
  - cbn [bind].
    pose proof (json_faithful efmt decimal_ok d [] Hwf) as Hj. rewrite app_nil_r in Hj. rewrite Hj.
    f_equal. f_equal. lia.
  - unfold len. rewrite Nat2Z.id. reflexivity.
Qed.

(* the DECIMAL cell lemma discharges the premise of the JSON proofs *)
Lemma decimal_cell_spec_holds : decimal_cell_spec.
Proof. unfold decimal_cell_spec. intros. apply decimal_decode_ok; assumption. Qed.

(* statements in the argument order used by Props/C14.v *)
Lemma json_faithful_all : forall efmt d rest,
  wf_doc d -> print_json efmt (ser d ++ rest) = Ok (render_top efmt d).
Proof. intros efmt d rest. apply json_faithful. exact decimal_cell_spec_holds. Qed.

Lemma json_fuel_sufficient : forall efmt d rest fuel,
  wf_doc d -> (depth d < fuel)%nat -> print_json_fuel efmt fuel (ser d ++ rest) = Ok (render_top efmt d).
Proof. intros efmt d rest fuel. apply json_faithful_fuel. exact decimal_cell_spec_holds. Qed.

Lemma json_default_fuel_enough : forall d rest, (depth d < S (List.length (ser d ++ rest)))%nat.
Proof.
  intros d rest. pose proof (depth_le_length d). unfold ser. cbn [app List.length]. rewrite app_length. lia.
Qed.

Lemma json_cell_all : forall ffmt tz efmt d pre rest lb uns,
  wf_doc d -> 1 <= lb <= 4 -> len (ser d) < 256 ^ lb ->
  cell_bytes ffmt tz (print_json efmt)
             (pre ++ le_enc (Z.to_nat lb) (len (ser d)) ++ ser d ++ rest) (List.length pre) 245 lb uns
  = Ok (Some (render_top efmt d), lb + len (ser d)).
Proof. intros ffmt tz efmt d pre rest lb uns. apply json_cell_ok. exact decimal_cell_spec_holds. Qed.

(* ---------- ties to the switch case lists generated from the Go source (gosync) ---------- *)
Example json_case_lists :
  printJSONValue_cases = [[0]; [1]; [2]; [3]; [4]; [5]; [6]; [7]; [8]; [9]; [10]; [11]; [12]; [15]] /\
  printJSONOpaque_cases = [[10]; [11]; [12]; [246]].
Proof. split; reflexivity. Qed.

(* the model's value switch reaches its `default: error` exactly outside the generated case list *)
Lemma value_dispatch_unknown efmt rec typ d top :
  ~ In [typ] printJSONValue_cases -> value_dispatch efmt rec typ d top = Err EJson.
Proof.
  intros H. unfold value_dispatch.
  repeat match goal with
  | |- context [?a =? ?b] =>
    destruct (Z.eqb_spec a b) as [E|_];
    [exfalso; apply H; rewrite E; vm_compute; repeat (first [left; reflexivity | right]) |]
  end.
  reflexivity.
Qed.

Lemma print_opaque_unknown typ d top sz pos :
  ~ In [typ] printJSONOpaque_cases -> at_ d 0 = Ok typ -> read_varlen d 1 = Ok (sz, pos) ->
  print_opaque d top = Err EJson.
Proof.
  intros H H0 H1. unfold print_opaque. rewrite H0. cbn [bind]. rewrite H1. cbn [bind].
  repeat match goal with
  | |- context [?a =? ?b] =>
    destruct (Z.eqb_spec a b) as [E|_];
    [exfalso; apply H; rewrite E; vm_compute; repeat (first [left; reflexivity | right]) |]
  end.
  reflexivity.
Qed.
