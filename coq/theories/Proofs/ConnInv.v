(* ConnInv.v — reachability lemmas, case-analysis tactics and the control invariant Inv1 of the
   connection LTS (Model/Conn.v). *)
From GB Require Import Base.Prelude Model.Conn.
Open Scope nat_scope.

Lemma ecap_pos : (0 <? ecap) = true.
Proof. reflexivity. Qed.

Definition rd_inv (s : state) : Prop :=
  match rd s with
  | RNotStarted => s_chan s = false /\ rreason s = None /\ ec_sent s = [] /\ ec_buf s = [] /\ ec_closed s = false /\ evclosed s = false /\ dc_r s = None
  | RRead => s_chan s = true /\ rreason s = None /\ ec_sent s = [] /\ ec_buf s = [] /\ ec_closed s = false /\ evclosed s = false /\ dc_r s = Some DReadPacket
  | RHold _ => s_chan s = true /\ rreason s = None /\ ec_sent s = [] /\ ec_buf s = [] /\ ec_closed s = false /\ evclosed s = false /\ dc_r s = None
  | RPutErr r => s_chan s = true /\ rreason s = Some r /\ ec_sent s = [] /\ ec_buf s = [] /\ ec_closed s = false /\ evclosed s = false /\ dc_r s = None
  | RCloseErr => s_chan s = true /\ (exists r, rreason s = Some r /\ ec_sent s = [r]) /\ ec_closed s = false /\ evclosed s = false /\ dc_r s = None
  | RCloseEv => s_chan s = true /\ (exists r, rreason s = Some r /\ ec_sent s = [r]) /\ ec_closed s = true /\ evclosed s = false /\ dc_r s = None
  | RDone => s_chan s = true /\ (exists r, rreason s = Some r /\ ec_sent s = [r]) /\ ec_closed s = true /\ evclosed s = true /\ dc_r s = None
  end.

Definition ps_inv (c : cfg) (s : state) : Prop :=
  match ps s with
  | PConnect => sock s = SNone /\ rd s = RNotStarted /\ dc_p s = None /\ hrun s = 0 /\ cl s = CIdle /\ dcancelled s = false
  | PStart => sock s <> SNone /\ rd s = RNotStarted /\ dc_p s = Some DStart /\ hrun s = 0 /\ cl s = CIdle /\ dcancelled s = false
  | PSelect | PProcess _ => sock s <> SNone /\ s_chan s = true /\ dc_p s = None /\ hrun s = 0 /\ cl s = CIdle /\ dcancelled s = false
  | PInHandler _ => sock s <> SNone /\ s_chan s = true /\ dc_p s = None /\ hrun s = 1 /\ cl s = CIdle /\ dcancelled s = false
  | PReturning r => dc_p s = None /\ hrun s = 0 /\ cl s = CIdle /\ dcancelled s = false /\ (r = RNil -> s_chan s = true)
  | PDeferClose r => sock s <> SNone /\ dc_p s = Some DClose /\ hrun s = 0 /\ cl s = CIdle /\ dcancelled s = false /\ (r = RNil -> s_chan s = true)
  | PReturned r => sock s <> SOpen /\ dc_p s = None /\ hrun s = 0 /\ dcancelled s = fix_d9 c /\ (r = RNil -> s_chan s = true)
  end.

Definition misc_inv (s : state) : Prop :=
  (s_chan s = true -> sock s <> SNone) /\
  (first_res s = None -> ec_buf s = ec_sent s) /\
  (cl s = CIdle -> first_res s = None) /\
  (forall r, cl s = CReturned r -> first_res s <> None) /\
  (ec_buf s = ec_sent s \/ ec_buf s = []).

Definition Inv1 (c : cfg) (s : state) : Prop := rd_inv s /\ ps_inv c s /\ misc_inv s.

Ltac break_step H :=
  repeat match type of H with
         | context [match ?x with _ => _ end] => destruct x eqn:?; try discriminate H
         | context [if ?x then _ else _] => destruct x eqn:?; try discriminate H
         end.

Ltac case_all :=
  repeat match goal with
    | H : context [match ?x with _ => _ end] |- _ => is_var x; destruct x
    | |- context [match ?x with _ => _ end] => is_var x; destruct x end.
Ltac destr_all :=
  repeat match goal with
    | H : _ /\ _ |- _ => destruct H
    | H : exists _, _ |- _ => destruct H
    end.
Ltac norm := repeat (progress (cbn in *; destr_all; subst)).
Ltac fin_fast := norm; solve [repeat split; intros; try congruence; try discriminate; eauto].
Ltac fin := norm;
  first [ solve [repeat split; intros; try congruence; try discriminate; eauto]
        | solve [intuition (try congruence; try discriminate; eauto)] ].

Lemma Inv1_init c : Inv1 c init.
Proof. unfold Inv1, rd_inv, ps_inv, misc_inv; cbn; intuition congruence. Qed.

Lemma Inv1_step c s l s' : Inv1 c s -> step c s l = Some s' -> Inv1 c s'.
Proof.
  intros (HR & HP & HM) H.
  destruct s; unfold rd_inv, ps_inv, misc_inv in *; cbn in HR, HP, HM.
  pose proof HM as (M1 & M2 & M3 & M4 & M5).
  destruct l; cbn in H; break_step H; inversion H; subst; clear H;
    unfold Inv1, rd_inv, ps_inv, misc_inv; cbn in *; repeat apply conj; try assumption.
  all: try solve [fin_fast].
  all: try solve [destruct rd; fin_fast].
  all: try solve [destruct ps; fin_fast].
  all: try solve [case_all; fin].
Qed.

Lemma reach_Inv1 c tr s : reach c tr s -> Inv1 c s.
Proof. induction 1; [apply Inv1_init | eapply Inv1_step; eauto]. Qed.

Lemma reachable_Inv1 c s : reachable c s -> Inv1 c s.
Proof. intros [tr H]; eapply reach_Inv1; eauto. Qed.

(* executable runs are schedules *)
Lemma run_reach_from c ls : forall tr s0 s, reach c tr s0 -> run c s0 ls = Some s -> reach c (tr ++ ls) s.
Proof.
  induction ls as [|l ls IH]; cbn; intros tr s0 s Hr H.
  - inversion H; subst. rewrite app_nil_r. exact Hr.
  - destruct (step c s0 l) eqn:E; [|discriminate].
    replace (tr ++ l :: ls) with ((tr ++ [l]) ++ ls) by (rewrite <- app_assoc; reflexivity).
    eapply IH; [|exact H]. eapply reach_step; eauto.
Qed.

Lemma run_reach c ls s : run c init ls = Some s -> reach c ls s.
Proof. intros H. change ls with ([] ++ ls). eapply run_reach_from; [constructor | exact H]. Qed.

Lemma run_reachable c ls s : run c init ls = Some s -> reachable c s.
Proof. intros H; exists ls; apply run_reach; exact H. Qed.

Lemma reachable_step c s l s' : reachable c s -> step c s l = Some s' -> reachable c s'.
Proof. intros [tr H] E. exists (tr ++ [l]). eapply reach_step; eauto. Qed.

Lemma reachable_lib_run c s ls s' : reachable c s -> lib_run c s ls s' -> reachable c s'.
Proof. intros Hr H; induction H; auto. apply IHlib_run. eapply reachable_step; eauto. Qed.
