(* Bitmaps (binlog_event.go Bitmap) against the master's bit packing (pack_bits / pack_bits_pad: any padding pattern),
   length-encoded integers and per-type table-map metadata.  Shared by C09 and C15. *)
From GB Require Import Base.Prelude Base.BytesLemmas Model.Header Model.Events Model.Cell Model.Rbr.
From GB Require Import Spec.Values Spec.EncEvent Spec.Expect Proofs.CellCommon.
From GBGen Require Import Consts.
From Coq Require Import ZifyBool ZifyNat.
Open Scope Z_scope.
Ltac Zify.zify_post_hook ::= Z.div_mod_to_equations.

(* ---------- list helpers ---------- *)
Lemma nth_skipn_add {A} (l : list A) : forall n k d, nth k (skipn n l) d = nth (n + k) l d.
Proof.
  induction l as [|x l IH]; intros n k d.
  - rewrite skipn_nil. destruct k, (n + 0)%nat, n; reflexivity.
  - destruct n; [reflexivity|]. cbn [skipn Nat.add nth]. apply IH.
Qed.

Lemma nth_firstn_lt {A} (l : list A) : forall n k d, (k < n)%nat -> nth k (firstn n l) d = nth k l d.
Proof.
  induction l as [|x l IH]; intros n k d H.
  - rewrite firstn_nil. reflexivity.
  - destruct n; [lia|]. destruct k; [reflexivity|]. cbn [firstn nth]. apply IH. lia.
Qed.

Lemma skipn_skipn_add {A} (l : list A) : forall a b, skipn a (skipn b l) = skipn (b + a) l.
Proof.
  induction l as [|x l IH]; intros a b.
  - rewrite !skipn_nil. reflexivity.
  - destruct b; [reflexivity|]. cbn [skipn Nat.add]. apply IH.
Qed.

(* ---------- value of one packed byte ---------- *)
Fixpoint bval (l : list bool) : Z :=
  match l with [] => 0 | b :: r => Z.b2z b + 2 * bval r end.

Lemma bval_testbit l : forall k, Z.testbit (bval l) (Z.of_nat k) = nth k l false.
Proof.
  induction l as [|b l IH]; intros k.
  - cbn [bval]. rewrite Z.bits_0. destruct k; reflexivity.
  - cbn [bval]. rewrite Z.add_comm. destruct k.
    + cbn [Z.of_nat nth]. apply Z.testbit_0_r.
    + rewrite Nat2Z.inj_succ. rewrite Z.testbit_succ_r by lia. cbn [nth]. apply IH.
Qed.

Lemma bval_bound l : 0 <= bval l < 2 ^ Z.of_nat (length l).
Proof.
  induction l as [|b l IH]; cbn [bval length].
  - cbn. lia.
  - rewrite Nat2Z.inj_succ, Z.pow_succ_r by lia. destruct b; cbn [Z.b2z]; lia.
Qed.

Lemma land_pow2 x k : 0 <= k -> Z.land x (2 ^ k) = if Z.testbit x k then 2 ^ k else 0.
Proof.
  intros Hk. apply Z.bits_inj'. intros n Hn. rewrite Z.land_spec, Z.pow2_bits_eqb by lia.
  destruct (Z.eqb_spec k n) as [->|Hne].
  - destruct (Z.testbit x n); [rewrite Z.pow2_bits_true by lia|rewrite Z.bits_0]; reflexivity.
  - rewrite andb_false_r. destruct (Z.testbit x k); [rewrite Z.pow2_bits_false by lia|rewrite Z.bits_0]; reflexivity.
Qed.

Lemma land_pow2_pos x k : 0 <= k -> (0 <? Z.land x (2 ^ k)) = Z.testbit x k.
Proof.
  intros Hk. rewrite land_pow2 by lia. destruct (Z.testbit x k); [|reflexivity].
  apply Z.ltb_lt. apply Z.pow_pos_nonneg; lia.
Qed.

(* ---------- pack_bits ---------- *)
Lemma pack_bits_byte_spec bits : forall n w,
  pack_bits_byte bits n w = (w * bval (firstn n bits), skipn n bits).
Proof.
  induction bits as [|b r IH]; intros n w.
  - destruct n; cbn [pack_bits_byte firstn skipn bval]; f_equal; lia.
  - destruct n; cbn [pack_bits_byte firstn skipn bval]; [f_equal; lia|].
    rewrite IH. f_equal. destruct b; cbn [Z.b2z]; lia.
Qed.

Lemma pack_bits_fuel_cons fuel b r :
  pack_bits_fuel (S fuel) (b :: r) = bval (firstn 8 (b :: r)) :: pack_bits_fuel fuel (skipn 8 (b :: r)).
Proof.
  cbn [pack_bits_fuel]. rewrite pack_bits_byte_spec. rewrite Z.mul_1_l. reflexivity.
Qed.

Lemma pack_bits_fuel_length fuel : forall bits, (length bits <= fuel)%nat ->
  length (pack_bits_fuel fuel bits) = ((length bits + 7) / 8)%nat.
Proof.
  induction fuel as [|k IH]; intros bits H.
  - destruct bits; [reflexivity|cbn [length] in H; lia].
  - destruct bits as [|b r]; [reflexivity|].
    rewrite pack_bits_fuel_cons. cbn [length]. rewrite IH.
    + rewrite skipn_length. cbn [length]. lia.
    + rewrite skipn_length. cbn [length] in *. lia.
Qed.

Lemma pack_bits_length bits : length (pack_bits bits) = ((length bits + 7) / 8)%nat.
Proof. apply pack_bits_fuel_length. lia. Qed.

Lemma pack_bits_fuel_nth fuel : forall bits j, (length bits <= fuel)%nat -> (8 * j < length bits)%nat ->
  nth_error (pack_bits_fuel fuel bits) j = Some (bval (firstn 8 (skipn (8 * j) bits))).
Proof.
  induction fuel as [|k IH]; intros bits j H Hj.
  - lia.
  - destruct bits as [|b r]; [cbn [length] in Hj; lia|].
    rewrite pack_bits_fuel_cons. destruct j.
    + reflexivity.
    + cbn [nth_error]. rewrite IH.
      * rewrite skipn_skipn_add. replace (8 * S j)%nat with (8 + 8 * j)%nat by lia. reflexivity.
      * rewrite skipn_length. cbn [length] in *. lia.
      * rewrite skipn_length. lia.
Qed.

Lemma pack_bits_wf bits : wf_bytes (pack_bits bits).
Proof.
  unfold pack_bits. generalize (length bits) as fuel. intros fuel. revert bits.
  induction fuel as [|k IH]; intros bits; [constructor|].
  destruct bits as [|b r]; [constructor|]. rewrite pack_bits_fuel_cons.
  constructor; [|apply IH].
  pose proof (bval_bound (firstn 8 (b :: r))) as B.
  assert (length (firstn 8 (b :: r)) <= 8)%nat by apply firstn_le_length.
  assert (2 ^ Z.of_nat (length (firstn 8 (b :: r))) <= 2 ^ 8) by (apply Z.pow_le_mono_r; lia).
  unfold is_byte. lia.
Qed.

(* ---------- pack_bits_pad: the padding bits of the last byte ---------- *)
Lemma pad_tail_length pad n : length (pad_tail pad n) = ((8 - n mod 8) mod 8)%nat.
Proof.
  unfold pad_tail. pose proof (Nat.mod_upper_bound n 8 ltac:(lia)) as U.
  destruct (n mod 8)%nat as [|k] eqn:E; [reflexivity|].
  rewrite map_length, seq_length. symmetry. apply Nat.mod_small. lia.
Qed.

(* bits and padding together fill whole bytes *)
Lemma padded_length pad bits :
  length (bits ++ pad_tail pad (length bits)) = (8 * ((length bits + 7) / 8))%nat.
Proof. rewrite app_length, pad_tail_length. lia. Qed.

(* the padding does not change the number of bytes *)
Lemma pack_bits_pad_length pad bits : length (pack_bits_pad pad bits) = ((length bits + 7) / 8)%nat.
Proof. unfold pack_bits_pad. rewrite pack_bits_length, padded_length. lia. Qed.

Lemma pack_bits_pad_wf pad bits : wf_bytes (pack_bits_pad pad bits).
Proof. apply pack_bits_wf. Qed.

Lemma pad_tail_nth pad n k : (k < length (pad_tail pad n))%nat ->
  nth k (pad_tail pad n) false = Z.testbit pad (Z.of_nat (n mod 8 + k)).
Proof.
  rewrite pad_tail_length. unfold pad_tail. pose proof (Nat.mod_upper_bound n 8 ltac:(lia)) as U.
  destruct (n mod 8)%nat as [|m] eqn:E; [cbn; lia|]. intros Hk.
  rewrite Nat.mod_small in Hk by lia.
  rewrite (nth_indep _ false ((fun i => Z.testbit pad (Z.of_nat i)) 0%nat)) by (rewrite map_length, seq_length; lia).
  rewrite (map_nth (fun i => Z.testbit pad (Z.of_nat i))). rewrite seq_nth by lia. reflexivity.
Qed.

(* pad 0 is the plain packing *)
Lemma map_const_seq {A} (x : A) : forall k a, map (fun _ => x) (seq a k) = repeat x k.
Proof. induction k as [|k IH]; intros a; [reflexivity|]. cbn [seq map repeat]. rewrite IH. reflexivity. Qed.

Lemma pad_tail_0 n : pad_tail 0 n = repeat false ((8 - n mod 8) mod 8).
Proof.
  unfold pad_tail. pose proof (Nat.mod_upper_bound n 8 ltac:(lia)) as U.
  destruct (n mod 8)%nat as [|k] eqn:E; [reflexivity|].
  rewrite Nat.mod_small by lia.
  erewrite map_ext; [apply map_const_seq|]. intros i. apply Z.testbit_0_l.
Qed.

Lemma bval_app_false l k : bval (l ++ repeat false k) = bval l.
Proof.
  induction l as [|b l IH]; cbn [app bval].
  - induction k as [|k IHk]; [reflexivity|]. cbn [repeat bval Z.b2z]. lia.
  - rewrite IH. reflexivity.
Qed.

Lemma pack_bits_fuel_nil fuel : pack_bits_fuel fuel [] = [].
Proof. destruct fuel; reflexivity. Qed.

Lemma pack_bits_fuel_false fuel : forall bits fuel' k, (length bits <= fuel)%nat -> (length bits + k <= fuel')%nat ->
  k = ((8 - length bits mod 8) mod 8)%nat ->
  pack_bits_fuel fuel' (bits ++ repeat false k) = pack_bits_fuel fuel bits.
Proof.
  induction fuel as [|f IH]; intros bits fuel' k H H' Hk.
  - destruct bits; [|cbn [length] in H; lia]. cbn [length] in Hk. cbn in Hk. subst k.
    cbn [app repeat]. apply pack_bits_fuel_nil.
  - destruct bits as [|b r].
    + cbn [length] in Hk. cbn in Hk. subst k. cbn [app repeat]. apply pack_bits_fuel_nil.
    + destruct fuel' as [|f']; [cbn [length] in H'; lia|].
      change ((b :: r) ++ repeat false k) with (b :: (r ++ repeat false k)).
      rewrite !pack_bits_fuel_cons.
      change (b :: (r ++ repeat false k)) with ((b :: r) ++ repeat false k).
      destruct (Nat.le_gt_cases 8 (length (b :: r))) as [L|L].
      * rewrite firstn_app, skipn_app.
        replace (8 - length (b :: r))%nat with 0%nat by lia. rewrite firstn_O, skipn_O, app_nil_r.
        f_equal. apply IH.
        -- rewrite skipn_length. cbn [length] in *. lia.
        -- rewrite skipn_length. cbn [length] in *. lia.
        -- rewrite skipn_length. rewrite Hk. f_equal. f_equal.
           replace (length (b :: r)) with (length (b :: r) - 8 + 1 * 8)%nat at 1 by lia.
           apply Nat.mod_add. lia.
      * assert (K : (length (b :: r) + k = 8)%nat).
        { rewrite Hk. rewrite (Nat.mod_small (length (b :: r))) by lia. rewrite Nat.mod_small; cbn [length] in *; lia. }
        rewrite (firstn_all2 (n := 8) ((b :: r) ++ repeat false k)) by (rewrite app_length, repeat_length; lia).
        rewrite (firstn_all2 (n := 8) (b :: r)) by lia.
        rewrite (skipn_all2 (n := 8) ((b :: r) ++ repeat false k)) by (rewrite app_length, repeat_length; lia).
        rewrite (skipn_all2 (n := 8) (b :: r)) by lia.
        rewrite !pack_bits_fuel_nil, bval_app_false. reflexivity.
Qed.

Lemma pack_bits_pad_0 bits : pack_bits_pad 0 bits = pack_bits bits.
Proof.
  unfold pack_bits_pad, pack_bits. rewrite pad_tail_0.
  apply pack_bits_fuel_false; [lia|rewrite app_length, repeat_length; lia|reflexivity].
Qed.

(* ---------- Bitmap.Bit ---------- *)
(* Bit looks at the data bytes only *)
Lemma bit_data_ok l n i : (i < length l)%nat ->
  bit {| bm_data := pack_bits l; bm_count := n |} i = Ok (nth i l false).
Proof.
  intros Hi. unfold bit. cbn [bm_data].
  unfold at_, pack_bits. rewrite pack_bits_fuel_nth; [|lia|].
  2:{ pose proof (Nat.div_mod i 8). pose proof (Nat.mod_upper_bound i 8). lia. }
  cbn [bind]. f_equal.
  rewrite land_pow2_pos by lia. rewrite bval_testbit.
  rewrite nth_firstn_lt by (apply Nat.mod_upper_bound; lia).
  rewrite nth_skipn_add. f_equal. pose proof (Nat.div_mod i 8). lia.
Qed.

(* every meaningful bit is the bit the master packed, whatever the padding pattern *)
Theorem bitmap_bit_ok pad bits i : (i < length bits)%nat -> bit (expect_bitmap pad bits) i = Ok (nth i bits false).
Proof.
  intros Hi. unfold expect_bitmap, pack_bits_pad.
  rewrite bit_data_ok by (rewrite app_length; lia).
  rewrite app_nth1 by exact Hi. reflexivity.
Qed.

(* and the unused bits of the last byte are those of the pattern (so the generalisation is not vacuous:
   Bit at a padding position does see the pattern; BitCount below never asks for one) *)
Theorem bitmap_bit_padding pad bits i : (length bits <= i < 8 * ((length bits + 7) / 8))%nat ->
  bit (expect_bitmap pad bits) i = Ok (Z.testbit pad (Z.of_nat (i mod 8))).
Proof.
  intros Hi. unfold expect_bitmap, pack_bits_pad.
  rewrite bit_data_ok by (rewrite padded_length; lia).
  rewrite app_nth2 by lia.
  rewrite pad_tail_nth by (rewrite pad_tail_length; lia).
  do 3 f_equal. lia.
Qed.

(* ---------- Bitmap.BitCount ---------- *)
Definition count_true (l : list bool) : nat := length (filter (fun b => b) l).

Lemma bit_count_from_ok pad suf : forall pre acc,
  bit_count_from (expect_bitmap pad (pre ++ suf)) (length pre) (length suf) acc = Ok (acc + count_true suf)%nat.
Proof.
  induction suf as [|b suf IH]; intros pre acc.
  - cbn [length bit_count_from]. unfold count_true. cbn [filter length]. f_equal. lia.
  - cbn [length bit_count_from]. rewrite bitmap_bit_ok by (rewrite app_length; cbn [length]; lia).
    cbn [bind]. rewrite app_nth2 by lia. rewrite Nat.sub_diag. cbn [nth].
    replace (pre ++ b :: suf) with ((pre ++ [b]) ++ suf) by (rewrite <- app_assoc; reflexivity).
    replace (S (length pre)) with (length (pre ++ [b])) by (rewrite app_length; cbn [length]; lia).
    rewrite IH. unfold count_true. cbn [filter]. destruct b; cbn [length]; f_equal; lia.
Qed.

(* BitCount is the number of true bits among the n meaningful ones: the padding bits of the last byte,
   whatever they are, are not counted *)
Theorem bitmap_count_ok pad bits : bit_count (expect_bitmap pad bits) = Ok (count_true bits).
Proof.
  unfold bit_count. change (bm_count (expect_bitmap pad bits)) with (length bits).
  exact (bit_count_from_ok pad bits [] 0%nat).
Qed.

(* ---------- newBitmap ---------- *)
Theorem new_bitmap_ok pad pre bits rest :
  new_bitmap (pre ++ pack_bits_pad pad bits ++ rest) (length pre) (length bits)
    = Ok (expect_bitmap pad bits, (length pre + (length bits + 7) / 8)%nat).
Proof.
  unfold new_bitmap. rewrite slice_app_mid by (rewrite pack_bits_pad_length; reflexivity).
  reflexivity.
Qed.

(* ---------- readLenEncInt ---------- *)
Definition lenenc_size (n : Z) : nat :=
  if n <? 251 then 1%nat else if n <? 65536 then 3%nat else if n <? 16777216 then 4%nat else 9%nat.

Lemma enc_lenenc_length n : length (enc_lenenc n) = lenenc_size n.
Proof.
  unfold enc_lenenc, lenenc_size.
  destruct (n <? 251); [reflexivity|]. destruct (n <? 65536); [reflexivity|].
  destruct (n <? 16777216); reflexivity.
Qed.

(* No side condition on what follows the integer: the reader's `pos+k >= len(data)` tests are
   exactly the bounds checks of the bytes it reads. *)
Theorem read_lenenc_ok pre n rest : 0 <= n < 2 ^ 64 ->
  read_lenenc (pre ++ enc_lenenc n ++ rest) (length pre)
    = Ok (Some (n, (length pre + length (enc_lenenc n))%nat)).
Proof.
  intros Hn. unfold read_lenenc.
  assert (L : length (pre ++ enc_lenenc n ++ rest) = (length pre + (lenenc_size n + length rest))%nat).
  { rewrite !app_length, enc_lenenc_length. reflexivity. }
  rewrite enc_lenenc_length. revert L. unfold enc_lenenc, lenenc_size.
  destruct (Z.ltb_spec n 251) as [H1|H1].
  - intros L. rewrite L. destruct (Nat.leb_spec (length pre + (1 + length rest)) (length pre)); [lia|].
    cbn [app]. rewrite at_mid. cbn [bind].
    destruct (Z.eqb_spec n 252); [lia|]. destruct (Z.eqb_spec n 253); [lia|]. destruct (Z.eqb_spec n 254); [lia|].
    do 3 f_equal. lia.
  - destruct (Z.ltb_spec n 65536) as [H2|H2]; [|destruct (Z.ltb_spec n 16777216) as [H3|H3]]; intros L; rewrite L.
    + destruct (Nat.leb_spec (length pre + (3 + length rest)) (length pre)); [lia|].
      cbn [app]. rewrite at_mid. cbn [bind Z.eqb Pos.eqb].
      destruct (Nat.leb_spec (length pre + (3 + length rest)) (length pre + 2)); [lia|].
      replace (pre ++ 252 :: le_enc 2 n ++ rest) with ((pre ++ [252]) ++ le_enc 2 n ++ rest)
        by (rewrite <- app_assoc; reflexivity).
      replace (length pre + 1)%nat with (length (pre ++ [252])) by (rewrite app_length; reflexivity).
      rewrite le_at_mid by (rewrite le_enc_length; reflexivity). cbn [bind].
      rewrite le_dec_enc by (change (256 ^ Z.of_nat 2) with 65536; lia). reflexivity.
    + destruct (Nat.leb_spec (length pre + (4 + length rest)) (length pre)); [lia|].
      cbn [app]. rewrite at_mid. cbn [bind Z.eqb Pos.eqb].
      destruct (Nat.leb_spec (length pre + (4 + length rest)) (length pre + 3)); [lia|].
      replace (pre ++ 253 :: le_enc 3 n ++ rest) with ((pre ++ [253]) ++ le_enc 3 n ++ rest)
        by (rewrite <- app_assoc; reflexivity).
      replace (length pre + 1)%nat with (length (pre ++ [253])) by (rewrite app_length; reflexivity).
      rewrite le_at_mid by (rewrite le_enc_length; reflexivity). cbn [bind].
      rewrite le_dec_enc by (change (256 ^ Z.of_nat 3) with 16777216; lia). reflexivity.
    + destruct (Nat.leb_spec (length pre + (9 + length rest)) (length pre)); [lia|].
      cbn [app]. rewrite at_mid. cbn [bind Z.eqb Pos.eqb].
      destruct (Nat.leb_spec (length pre + (9 + length rest)) (length pre + 8)); [lia|].
      replace (pre ++ 254 :: le_enc 8 n ++ rest) with ((pre ++ [254]) ++ le_enc 8 n ++ rest)
        by (rewrite <- app_assoc; reflexivity).
      replace (length pre + 1)%nat with (length (pre ++ [254])) by (rewrite app_length; reflexivity).
      rewrite le_at_mid by (rewrite le_enc_length; reflexivity). cbn [bind].
      rewrite le_dec_enc by (change (256 ^ Z.of_nat 8) with (2 ^ 64); lia). reflexivity.
Qed.

(* ---------- metadataRead ---------- *)
Lemma at_mid_s pre a b rest : at_ (pre ++ a :: b :: rest) (S (length pre)) = Ok b.
Proof.
  replace (pre ++ a :: b :: rest) with ((pre ++ [a]) ++ b :: rest) by (rewrite <- app_assoc; reflexivity).
  replace (S (length pre)) with (length (pre ++ [a])) by (rewrite app_length; cbn [length]; lia).
  apply at_mid.
Qed.

Lemma meta_bytes_length_le ty : (length (meta_bytes ty) <= 2)%nat.
Proof. destruct ty; cbn [meta_bytes length]; lia. Qed.

Lemma char_meta_range_sweep :
  forallb (fun max => let m := Z.lxor 254 (Z.land max 768 / 16) * 256 + Z.land max 255 in (0 <=? m) && (m <? 65536))
          (map Z.of_nat (seq 0 1024)) = true.
Proof. vm_compute. reflexivity. Qed.

Lemma char_meta_range max : 0 <= max <= 1023 ->
  0 <= Z.lxor 254 (Z.land max 768 / 16) * 256 + Z.land max 255 < 65536.
Proof.
  intros H. pose proof char_meta_range_sweep as S. rewrite forallb_forall in S.
  specialize (S max). assert (I : In max (map Z.of_nat (seq 0 1024))).
  { apply in_map_iff. exists (Z.to_nat max). split; [lia|]. apply in_seq. lia. }
  specialize (S I). cbv zeta in S. lia.
Qed.

Theorem metadata_read_ok ty pre rest : wf_type ty = true ->
  metadata_read (pre ++ meta_bytes ty ++ rest) (length pre) (code_of ty)
    = Ok (meta_of ty, (length pre + length (meta_bytes ty))%nat).
Proof.
  intros Hwf.
  destruct ty; cbn [wf_type] in Hwf; cbn [meta_bytes code_of meta_of length app];
    try (destruct bare); try (destruct newdate); try (destruct varstring);
    try (unfold metadata_read; cbn [in_case existsb nth metadataRead_cases Z.eqb Pos.eqb orb];
         rewrite ?at_mid, ?at_mid_s; cbn [bind]; do 2 f_equal; unfold u16; lia).
  - (* CHAR: packed (real type, length) *)
    pose proof (char_meta_range max ltac:(lia)) as R.
    set (m := Z.lxor 254 (Z.land max 768 / 16) * 256 + Z.land max 255) in *.
    unfold metadata_read; cbn [in_case existsb nth metadataRead_cases Z.eqb Pos.eqb orb].
    rewrite at_mid, at_mid_s. cbn [bind]. do 2 f_equal. unfold u16. lia.
  - (* blob: the code is one of 249..252 *)
  assert (code = 249 \/ code = 250 \/ code = 251 \/ code = 252) as C by lia.
    destruct C as [-> | [-> | [-> | ->]]];
    unfold metadata_read; cbn [in_case existsb nth metadataRead_cases Z.eqb Pos.eqb orb];
    rewrite ?at_mid; cbn [bind]; do 2 f_equal; lia.
Qed.
