(* Lemmas about the Go operation semantics of Base/GoSem.v, used to prove the
   generated functions of gen/Trans.v equal to the hand-written model. *)
From Coq Require Import ZifyBool.
From GB Require Import Base.Prelude Base.GoSem Base.BytesLemmas.
Open Scope Z_scope.
Ltac Zify.zify_post_hook ::= Z.div_mod_to_equations.

(* ---- wraps are the identity on values in range ---- *)
Lemma u8_small x : 0 <= x < 256 -> u8 x = x.
Proof. intros H. unfold u8. apply Z.mod_small. exact H. Qed.
Lemma u16_small x : 0 <= x < 65536 -> u16 x = x.
Proof. intros H. unfold u16. apply Z.mod_small. exact H. Qed.
Lemma u32_small x : 0 <= x < 4294967296 -> u32 x = x.
Proof. intros H. unfold u32. apply Z.mod_small. exact H. Qed.
Lemma u64_small x : 0 <= x < 18446744073709551616 -> u64 x = x.
Proof. intros H. unfold u64. apply Z.mod_small. exact H. Qed.
Lemma i64_small x : - 9223372036854775808 <= x < 9223372036854775808 -> i64 x = x.
Proof.
  intros H. unfold i64, sx, u64. change (2 ^ (64 - 1)) with 9223372036854775808. change (2 ^ 64) with 18446744073709551616.
  destruct (x mod 18446744073709551616 <? 9223372036854775808) eqn:E; lia.
Qed.
Lemma i32_small x : - 2147483648 <= x < 2147483648 -> i32 x = x.
Proof.
  intros H. unfold i32, sx, u32. change (2 ^ (32 - 1)) with 2147483648. change (2 ^ 32) with 4294967296.
  destruct (x mod 4294967296 <? 2147483648) eqn:E; lia.
Qed.

(* ---- indexing ---- *)
Lemma go_idx_nat d p : go_idx d (Z.of_nat p) = at_ d p.
Proof. unfold go_idx. destruct (Z.of_nat p <? 0) eqn:E; [lia|]. rewrite Nat2Z.id. reflexivity. Qed.

Lemma go_idx_Z d i p : i = Z.of_nat p -> go_idx d i = at_ d p.
Proof. intros ->. apply go_idx_nat. Qed.

Lemma go_idx_neg d i : i < 0 -> go_idx d i = Panic.
Proof. intros H. unfold go_idx. destruct (i <? 0) eqn:E; [reflexivity|lia]. Qed.

Lemma at_byte d p b : wf_bytes d -> at_ d p = Ok b -> 0 <= b < 256.
Proof.
  unfold at_, wf_bytes. intros W H. destruct (nth_error d p) as [x|] eqn:E; [|discriminate].
  inversion H; subst. apply nth_error_In in E. rewrite Forall_forall in W. apply (W _ E).
Qed.

Lemma at_lt d p b : at_ d p = Ok b -> (p < length d)%nat.
Proof. unfold at_. destruct (nth_error d p) eqn:E; [|discriminate]. intros _. apply nth_error_Some. congruence. Qed.

Lemma at_panic d p : (length d <= p)%nat -> at_ d p = Panic.
Proof. intros H. unfold at_. apply nth_error_None in H. rewrite H. reflexivity. Qed.

Lemma at_cases d p : (exists b, at_ d p = Ok b /\ (p < length d)%nat) \/ (at_ d p = Panic /\ (length d <= p)%nat).
Proof.
  destruct (Nat.lt_ge_cases p (length d)) as [H|H].
  - left. destruct (at_ok d p H) as (b & E & _). exists b. auto.
  - right. split; [apply at_panic|]; exact H.
Qed.

(* ---- disjoint or = sum ---- *)
Lemma land_low_high a b k : 0 <= k -> 0 <= a < 2 ^ k -> Z.land a (b * 2 ^ k) = 0.
Proof.
  intros Hk Ha. apply Z.bits_inj'. intros n Hn. rewrite Z.land_spec, Z.bits_0.
  destruct (Z_lt_dec n k) as [L|G].
  - rewrite Z.mul_pow2_bits_low by lia. apply andb_false_r.
  - assert (Z.testbit a n = false).
    { destruct (Z.eq_dec a 0) as [->|Hz]; [apply Z.bits_0|].
      apply Z.bits_above_log2; [lia|]. apply Z.log2_lt_pow2; [lia|].
      apply Z.lt_le_trans with (2 ^ k); [lia|]. apply Z.pow_le_mono_r; lia. }
    rewrite H. reflexivity.
Qed.

Lemma lor_low_high a b k : 0 <= k -> 0 <= a < 2 ^ k -> Z.lor a (b * 2 ^ k) = a + b * 2 ^ k.
Proof.
  intros Hk Ha. rewrite <- Z.lxor_lor by (apply land_low_high; assumption).
  symmetry. apply Z.add_nocarry_lxor. apply land_low_high; assumption.
Qed.

Lemma go_shl_small w x n : (forall y, 0 <= y < 2 ^ 64 -> w y = y) -> 0 <= x * 2 ^ n < 2 ^ 64 -> go_shl w x n = x * 2 ^ n.
Proof. intros Hw H. unfold go_shl. apply Hw. exact H. Qed.

Lemma go_shl_u64 x n : 0 <= x * 2 ^ n < 18446744073709551616 -> go_shl u64 x n = x * 2 ^ n.
Proof. intros H. unfold go_shl. apply u64_small. exact H. Qed.
Lemma go_shl_u32 x n : 0 <= x * 2 ^ n < 4294967296 -> go_shl u32 x n = x * 2 ^ n.
Proof. intros H. unfold go_shl. apply u32_small. exact H. Qed.
Lemma go_shl_u16 x n : 0 <= x * 2 ^ n < 65536 -> go_shl u16 x n = x * 2 ^ n.
Proof. intros H. unfold go_shl. apply u16_small. exact H. Qed.

(* ---- little-endian reads byte by byte ---- *)
Lemma slice_S d p n :
  slice d p (S n) = do a <- at_ d p; do r <- slice d (S p) n; Ok (a :: r).
Proof.
  unfold slice, at_. destruct (nth_error d p) as [a|] eqn:E.
  - assert (Hp : (p < length d)%nat) by (apply nth_error_Some; congruence).
    cbn [bind].
    destruct (Nat.leb_spec (p + S n) (length d)) as [L|G]; destruct (Nat.leb_spec (S p + n) (length d)) as [L'|G']; try lia.
    + cbn [bind]. f_equal.
      assert (Hs : skipn p d = a :: skipn (S p) d).
      { clear -E. revert d E; induction p as [|p IH]; intros [|x d] E; cbn in *; try discriminate.
        - inversion E; reflexivity.
        - apply IH; exact E. }
      rewrite Hs. reflexivity.
    + reflexivity.
  - assert (Hp : (length d <= p)%nat) by (apply nth_error_None; exact E).
    destruct (Nat.leb_spec (p + S n) (length d)) as [L|G]; [lia|reflexivity].
Qed.

Lemma slice_0 d p : (p <= length d)%nat -> slice d p 0 = Ok [].
Proof. intros H. unfold slice. destruct (Nat.leb_spec (p + 0) (length d)); [reflexivity|lia]. Qed.

Lemma le_at_S d p n :
  le_at d p (S n) = do a <- at_ d p; do r <- le_at d (S p) n; Ok (a + 256 * r).
Proof.
  unfold le_at. rewrite slice_S. destruct (at_ d p) as [a| |]; cbn [bind]; try reflexivity.
  destruct (slice d (S p) n) as [r| |]; cbn [bind le_dec]; reflexivity.
Qed.

Lemma le_at_0 d p : (p <= length d)%nat -> le_at d p 0 = Ok 0.
Proof. intros H. unfold le_at. rewrite slice_0 by exact H. reflexivity. Qed.

Lemma le_at_1 d p : le_at d p 1 = at_ d p.
Proof.
  rewrite le_at_S. destruct (at_cases d p) as [(b & E & L)|[E L]]; rewrite E; cbn [bind]; [|reflexivity].
  rewrite le_at_0 by lia. cbn [bind]. f_equal. lia.
Qed.

Lemma le_at_2 d p : le_at d p 2 = do a <- at_ d p; do b <- at_ d (S p); Ok (a + 256 * b).
Proof. rewrite le_at_S. destruct (at_ d p); cbn [bind]; try reflexivity. rewrite le_at_1. reflexivity. Qed.

(* ---- slices and fixed-width reads ---- *)
Lemma go_slice_nat d a n : go_slice d (Z.of_nat a) (Z.of_nat a + Z.of_nat n) = slice d a n.
Proof.
  unfold go_slice. destruct (Z.of_nat a <? 0) eqn:E1; [lia|]. destruct (Z.of_nat a + Z.of_nat n <? Z.of_nat a) eqn:E2; [lia|].
  cbn [orb]. rewrite Nat2Z.id. replace (Z.of_nat a + Z.of_nat n - Z.of_nat a) with (Z.of_nat n) by lia. rewrite Nat2Z.id. reflexivity.
Qed.

Lemma go_slice_Z d x y a n : x = Z.of_nat a -> y = Z.of_nat a + Z.of_nat n -> go_slice d x y = slice d a n.
Proof. intros -> ->. apply go_slice_nat. Qed.

Lemma go_slice_from_nat d a : go_slice_from d (Z.of_nat a) = slice_from d a.
Proof. unfold go_slice_from. destruct (Z.of_nat a <? 0) eqn:E; [lia|]. rewrite Nat2Z.id. reflexivity. Qed.

Lemma slice_length d a n s : slice d a n = Ok s -> length s = n.
Proof.
  unfold slice. destruct (Nat.leb_spec (a + n) (length d)) as [L|G]; [|discriminate]. intros H. inversion H; subst.
  rewrite firstn_length, skipn_length. lia.
Qed.

Lemma go_le_exact s n : length s = n -> go_le s n = Ok (le_dec s).
Proof.
  intros H. unfold go_le. destruct (Nat.leb_spec n (length s)); [|lia]. subst n. rewrite firstn_all. reflexivity.
Qed.

(* d[a:a+n] read little endian = le_at *)
Lemma slice_le d a n : (do s <- slice d a n; go_le s n) = le_at d a n.
Proof.
  unfold le_at. destruct (slice d a n) as [s| |] eqn:E; cbn [bind]; try reflexivity.
  apply go_le_exact. eapply slice_length; exact E.
Qed.

(* ---- res_sim ---- *)
Lemma res_sim_refl {A} (x : res A) : res_sim x x.
Proof. destruct x; cbn; auto. Qed.

Lemma res_sim_eq {A} (x y : res A) : x = y -> res_sim x y.
Proof. intros ->. apply res_sim_refl. Qed.

Lemma res_sim_bind {A B} (x : res A) (f g : A -> res B) :
  (forall a, x = Ok a -> res_sim (f a) (g a)) -> res_sim (bind x f) (bind x g).
Proof. intros H. destruct x; cbn; auto. Qed.
