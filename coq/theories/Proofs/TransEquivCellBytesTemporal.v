(* Per-case equivalences for gen/TransCellBytes.v, family Temporal: see TransEquivCellBytesDefs.v (case_ok) and
   TransEquivCellBytes.v (CellBytes_equiv). *)
From Coq Require Import ZifyBool.
From GB Require Import Base.Prelude Base.GoSem Base.DecText Base.GoFmt Base.BytesLemmas Proofs.GoSemLemmas Proofs.TransTactics.
From GB Require Import Model.Cell Proofs.TransEquivCellBytesDefs.
From GBGen Require Import Consts TransCellBytes.
Open Scope Z_scope.
Ltac Zify.zify_post_hook ::= Z.to_euclidean_division_equations.

Ltac unfold_types :=
  cbv [K_TypeBit K_TypeBlob K_TypeDate K_TypeDateTime K_TypeDateTime2 K_TypeDecimal K_TypeDouble K_TypeEnum K_TypeFloat
       K_TypeGeometry K_TypeInt24 K_TypeJSON K_TypeLong K_TypeLongBlob K_TypeLongLong K_TypeMediumBlob K_TypeNewDate
       K_TypeNewDecimal K_TypeNull K_TypeSet K_TypeShort K_TypeString K_TypeTime K_TypeTime2 K_TypeTimestamp
       K_TypeTimestamp2 K_TypeTiny K_TypeTinyBlob K_TypeVarString K_TypeVarchar K_TypeYear] in *.

Lemma le24_u32 a b c : 0 <= a < 256 -> 0 <= b < 256 -> 0 <= c < 256 ->
  u32 (u32 (a + go_shl u32 b 8) + go_shl u32 c 16) = a + 256 * (b + 256 * (c + 256 * 0)).
Proof.
  intros. unfold go_shl, u32. change (2 ^ 8) with 256. change (2 ^ 16) with 65536.
  rewrite !Z.mod_small by (rewrite ?Z.mod_small by lia; lia). lia.
Qed.

Lemma i32_neg_range x : 2147483648 <= x < 4294967296 -> i32 x = x - 4294967296.
Proof.
  intros H. unfold i32, sx, u32. change (2 ^ (32 - 1)) with 2147483648. change (2 ^ 32) with 4294967296.
  rewrite Z.mod_small by lia. destruct (x <? 2147483648) eqn:E; lia.
Qed.

Lemma time_val a b c : 0 <= a < 256 -> 0 <= b < 256 -> 0 <= c < 256 ->
  (if Z.land c 128 >? 0
   then Ok (i32 (u32 (u32 (u32 (a + go_shl u32 b 8) + go_shl u32 c 16) + 4278190080)))
   else Ok (i32 (i32 (a + go_shl i32 b 8) + go_shl i32 c 16)))
  = Ok (if 0 <? band (shr (a + 256 * (b + 256 * (c + 256 * 0))) 16) 128
        then i32 (a + 256 * (b + 256 * (c + 256 * 0)) + 255 * 2 ^ 24)
        else a + 256 * (b + 256 * (c + 256 * 0))).
Proof.
  intros Ha Hb Hc. unfold band, shr.
  replace ((a + 256 * (b + 256 * (c + 256 * 0))) / 2 ^ 16) with c by (change (2 ^ 16) with 65536; lia).
  rewrite Z.gtb_ltb. destruct (0 <? Z.land c 128); f_equal.
  - rewrite le24_u32 by assumption. change (255 * 2 ^ 24) with 4278190080.
    unfold i32 at 1. unfold u32 at 1 2. rewrite Z.mod_mod by lia. reflexivity.
  - unfold go_shl. change (2 ^ 8) with 256. change (2 ^ 16) with 65536.
    rewrite (i32_small (b * 256)) by lia. rewrite (i32_small (c * 65536)) by lia.
    rewrite (i32_small (a + b * 256)) by lia. rewrite i32_small by lia. lia.
Qed.

Lemma time_val_bound a b c : 0 <= a < 256 -> 0 <= b < 256 -> 0 <= c < 256 ->
  - 16777216 <= (if 0 <? band (shr (a + 256 * (b + 256 * (c + 256 * 0))) 16) 128
        then i32 (a + 256 * (b + 256 * (c + 256 * 0)) + 255 * 2 ^ 24)
        else a + 256 * (b + 256 * (c + 256 * 0))) < 16777216.
Proof.
  intros Ha Hb Hc. destruct (0 <? _); [|lia].
  change (255 * 2 ^ 24) with 4278190080. rewrite i32_neg_range by lia. lia.
Qed.

Lemma time_tail val : - 16777216 <= val < 16777216 ->
  (do (v_sign, v_val0) <- (if val <? 0 then Ok ([45], i32 (- val)) else Ok ([], val));
   Ok (v_sign ++ fmt_0d 2 (i32 (v_val0 ÷ 10000)) ++ [58] ++ fmt_0d 2 (i32 (Z.rem v_val0 10000 ÷ 100)) ++
       [58] ++ fmt_0d 2 (Z.rem v_val0 100), 3))
  = Ok ((if val <? 0
         then 45 :: fmt_clock (Z.abs val ÷ 10000) (Z.rem (Z.abs val) 10000 ÷ 100) (Z.rem (Z.abs val) 100)
         else fmt_clock (Z.abs val ÷ 10000) (Z.rem (Z.abs val) 10000 ÷ 100) (Z.rem (Z.abs val) 100)), 3).
Proof.
  intros H. destruct (val <? 0) eqn:E; cbn [bind].
  - rewrite (i32_small (- val)) by lia. replace (Z.abs val) with (- val) by lia.
    rewrite !i32_small by lia. reflexivity.
  - replace (Z.abs val) with val by lia. rewrite !i32_small by lia. reflexivity.
Qed.

(* ---- big-endian reads byte by byte ---- *)
Fixpoint at_be (d : bytes) (p k n : nat) (acc : Z) : res Z :=
  match n with O => Ok acc | S m => do a <- at_ d (p + k); at_be d p (S k) m (acc * 256 + a) end.

Lemma slice_be_acc n : forall d p k acc, (0 < n)%nat ->
  (do s <- slice d (p + k) n; Ok (be_dec_acc acc s)) = at_be d p k n acc.
Proof.
  induction n as [|n IH]; intros d p k acc Hn; [lia|].
  rewrite slice_S. cbn [at_be]. destruct (at_cases d (p + k)) as [(b & E & L)|[E L]]; rewrite E; cbn [bind]; [|reflexivity].
  replace (S (p + k)) with (p + S k)%nat by lia.
  destruct n as [|n].
  - rewrite slice_0 by lia. reflexivity.
  - rewrite <- IH by lia. destruct (slice d (p + S k) (S n)); reflexivity.
Qed.

Lemma be_at_at_be n d p k : (0 < n)%nat -> be_at d (p + k) n = at_be d p k n 0.
Proof. intros H. rewrite <- slice_be_acc by exact H. reflexivity. Qed.
Lemma be_at_at_be0 n d p : (0 < n)%nat -> be_at d p n = at_be d p 0 n 0.
Proof. intros H. rewrite <- be_at_at_be by exact H. rewrite Nat.add_0_r. reflexivity. Qed.

Lemma go_be_exact s n : length s = n -> go_be s n = Ok (be_dec s).
Proof.
  intros H. unfold go_be. destruct (Nat.leb_spec n (length s)); [|lia]. subst n. rewrite firstn_all. reflexivity.
Qed.
Lemma slice_be d a n : (do s <- slice d a n; go_be s n) = be_at d a n.
Proof.
  unfold be_at. destruct (slice d a n) as [s| |] eqn:E; cbn [bind]; try reflexivity.
  apply go_be_exact. eapply slice_length; exact E.
Qed.
Lemma go_slice_be_bind {B} d a b n (k : Z -> res B) a' : a = Z.of_nat a' -> b = Z.of_nat a' + Z.of_nat n ->
  (do s <- go_slice d a b; do v <- go_be s n; k v) = (do v <- be_at d a' n; k v).
Proof.
  intros -> ->. rewrite <- (slice_be d a' n). rewrite go_slice_nat. rewrite bind_assoc. reflexivity.
Qed.

Lemma frac_equiv d pos k meta (txt : bytes) : wf_bytes d -> Z.of_nat pos < 2 ^ 62 -> (k <= 8)%nat ->
  res_sim
    (if meta =? 1 then
       do t <- go_idx d (i64 (Z.of_nat pos + Z.of_nat k));
       Ok (txt ++ ([46] ++ fmt_0d 1 (i64 (Z.quot t 10))), Z.of_nat k + 1)
     else if meta =? 2 then
       do t <- go_idx d (i64 (Z.of_nat pos + Z.of_nat k));
       Ok (txt ++ ([46] ++ fmt_0d 2 t), Z.of_nat k + 1)
     else if meta =? 3 then
       do t <- go_idx d (i64 (Z.of_nat pos + Z.of_nat k)); do t' <- go_idx d (i64 (Z.of_nat pos + (Z.of_nat k + 1)));
       Ok (txt ++ ([46] ++ fmt_0d 3 (i64 (Z.quot (i64 (go_shl i64 t 8 + t')) 10))), Z.of_nat k + 2)
     else if meta =? 4 then
       do t <- go_idx d (i64 (Z.of_nat pos + Z.of_nat k)); do t' <- go_idx d (i64 (Z.of_nat pos + (Z.of_nat k + 1)));
       Ok (txt ++ ([46] ++ fmt_0d 4 (i64 (go_shl i64 t 8 + t'))), Z.of_nat k + 2)
     else if meta =? 5 then
       do t <- go_idx d (i64 (Z.of_nat pos + Z.of_nat k)); do t' <- go_idx d (i64 (Z.of_nat pos + (Z.of_nat k + 1)));
       do t'' <- go_idx d (i64 (Z.of_nat pos + (Z.of_nat k + 2)));
       Ok (txt ++ ([46] ++ fmt_0d 5 (i64 (Z.quot (i64 (i64 (go_shl i64 t 16 + go_shl i64 t' 8) + t'')) 10))), Z.of_nat k + 3)
     else if meta =? 6 then
       do t <- go_idx d (i64 (Z.of_nat pos + Z.of_nat k)); do t' <- go_idx d (i64 (Z.of_nat pos + (Z.of_nat k + 1)));
       do t'' <- go_idx d (i64 (Z.of_nat pos + (Z.of_nat k + 2)));
       Ok (txt ++ ([46] ++ fmt_0d 6 (i64 (i64 (go_shl i64 t 16 + go_shl i64 t' 8) + t''))), Z.of_nat k + 3)
     else Ok (txt, Z.of_nat k))
    (do (fr, n) <- frac_suffix d (pos + k) meta; Ok (txt ++ fr, Z.of_nat k + n)).
Proof.
  intros W Hp Hk. unfold frac_suffix.
  change (2 ^ 62) with 4611686018427387904 in Hp.
  rewrite !i64_small by lia.
  rewrite !(go_idx_Z d _ (pos + k)) by lia.
  rewrite !(go_idx_Z d (Z.of_nat pos + (Z.of_nat k + 1)) (pos + S k)) by lia.
  rewrite !(go_idx_Z d (Z.of_nat pos + (Z.of_nat k + 2)) (pos + S (S k))) by lia.
  destruct (meta =? 1) eqn:E1; [apply Z.eqb_eq in E1; subst meta; cbn [Z.eqb Pos.eqb orb]|].
  2: destruct (meta =? 2) eqn:E2; [apply Z.eqb_eq in E2; subst meta; cbn [Z.eqb Pos.eqb orb]|].
  3: destruct (meta =? 3) eqn:E3; [apply Z.eqb_eq in E3; subst meta; cbn [Z.eqb Pos.eqb orb]|].
  4: destruct (meta =? 4) eqn:E4; [apply Z.eqb_eq in E4; subst meta; cbn [Z.eqb Pos.eqb orb]|].
  5: destruct (meta =? 5) eqn:E5; [apply Z.eqb_eq in E5; subst meta; cbn [Z.eqb Pos.eqb orb]|].
  6: destruct (meta =? 6) eqn:E6; [apply Z.eqb_eq in E6; subst meta; cbn [Z.eqb Pos.eqb orb]|].
  7: { cbn [orb bind]. rewrite app_nil_r, Z.add_0_r. reflexivity. }
  all: rewrite be_at_at_be by lia; cbn [at_be].
  all: repeat case_at W; try exact I; try lia.
  all: cbn [app]; apply res_sim_eq; do 4 f_equal.
  all: unfold go_shl; change (2 ^ 8) with 256; change (2 ^ 16) with 65536; wrap_small; try lia.
  all: f_equal; lia.
Qed.

Lemma lor_hi_lo x y k : 0 <= k -> 0 <= y < 2 ^ k -> Z.lor (x * 2 ^ k) y = x * 2 ^ k + y.
Proof. intros Hk Hy. rewrite Z.lor_comm, lor_low_high by assumption. lia. Qed.

Lemma lor_step s b k k' : 0 <= k -> k' = k + 8 -> 0 <= b < 256 -> Z.lor (s * 2 ^ k') (b * 2 ^ k) = (s * 256 + b) * 2 ^ k.
Proof.
  intros Hk -> Hb.
  assert (P : 0 < 2 ^ k) by (apply Z.pow_pos_nonneg; lia).
  assert (Q : 2 ^ (k + 8) = 2 ^ k * 256) by (rewrite Z.pow_add_r by lia; reflexivity).
  rewrite lor_hi_lo; [| lia |].
  - rewrite Q. ring.
  - rewrite Q. nia.
Qed.

Lemma be5_lor a b c e f : 0 <= a < 256 -> 0 <= b < 256 -> 0 <= c < 256 -> 0 <= e < 256 -> 0 <= f < 256 ->
  Z.lor (Z.lor (Z.lor (Z.lor (go_shl u64 a 32) (go_shl u64 b 24)) (go_shl u64 c 16)) (go_shl u64 e 8)) f
  = ((((0 * 256 + a) * 256 + b) * 256 + c) * 256 + e) * 256 + f.
Proof.
  intros. rewrite !go_shl_u64 by (cbn; lia).
  rewrite (lor_step a b 24 32) by lia.
  rewrite (lor_step _ c 16 24) by lia.
  rewrite (lor_step _ e 8 16) by lia.
  rewrite lor_hi_lo by (cbn; lia). change (2 ^ 8) with 256. lia.
Qed.

Lemma be3_lor a b c : 0 <= a < 256 -> 0 <= b < 256 -> 0 <= c < 256 ->
  Z.lor (Z.lor (go_shl i64 a 16) (go_shl i64 b 8)) c = ((0 * 256 + a) * 256 + b) * 256 + c.
Proof.
  intros. unfold go_shl. rewrite !i64_small by (cbn; lia).
  rewrite (lor_step a b 8 16) by lia.
  rewrite lor_hi_lo by (cbn; lia). change (2 ^ 8) with 256. lia.
Qed.
Lemma be2_lor a b : 0 <= a < 256 -> 0 <= b < 256 ->
  Z.lor (go_shl i64 a 8) b = (0 * 256 + a) * 256 + b.
Proof.
  intros. unfold go_shl. rewrite !i64_small by (cbn; lia).
  rewrite lor_hi_lo by (cbn; lia). change (2 ^ 8) with 256. lia.
Qed.

Lemma time2_text sign hms fr : 0 <= hms ->
  sign ++ fmt_0d 2 (Z.rem (go_shr hms 12) 1024) ++ [58] ++ fmt_0d 2 (Z.rem (go_shr hms 6) 64) ++ [58] ++
    fmt_0d 2 (Z.rem hms 64) ++ fr
  = sign ++ (fmt_clock (shr hms 12 mod 1024) (shr hms 6 mod 64) (hms mod 64) ++ fr).
Proof.
  intros H. unfold go_shr, shr.
  assert (0 <= hms / 2 ^ 12) by (apply Z.div_pos; lia).
  assert (0 <= hms / 2 ^ 6) by (apply Z.div_pos; lia).
  rewrite !Z.rem_mod_nonneg by lia.
  unfold fmt_clock. f_equal. rewrite <- !app_assoc. reflexivity.
Qed.

Lemma dt2_assoc A B C H M S fr :
  fmt_date A B C ++ [32] ++ fmt_clock H M S ++ fr =
  ([] ++ (fmt_0d 4 A ++ [45] ++ fmt_0d 2 B ++ [45] ++ fmt_0d 2 C ++ [32] ++ fmt_0d 2 H ++ [58] ++ fmt_0d 2 M ++ [58] ++ fmt_0d 2 S)) ++ fr.
Proof.
  unfold fmt_date, fmt_clock. cbn [app]. rewrite <- !app_assoc. cbn [app].
  repeat (rewrite <- !app_assoc; cbn [app]; f_equal).
Qed.

Section Cases.
Variable ffmt : Z -> Z -> bytes.
Variable tz : Z -> Z.
Variable jsonp : bytes -> res bytes.

Lemma CellBytes_TypeDate_ok : case_ok ffmt tz jsonp CellBytes_TypeDate_g [10; 14].
Proof.
  intros d pos typ meta uns W Hin Hm Hp. cbn [In] in Hin.
  destruct Hin as [<-|[<-|[]]].
  all: unfold CellBytes_TypeDate_g, cell_bytes; unfold_types; cbn [Z.eqb Pos.eqb orb].
  all: rewrite ?go_idx_nat; rewrite ?idx_off by (assumption || (cbn; lia)); to_nat_consts.
  all: rewrite le_at_at_le0 by lia; cbn [at_le]; rewrite ?Nat.add_0_r.
  all: repeat case_at W; try exact I; try lia.
  all: rewrite le24_u32 by assumption; reflexivity.
Qed.

Lemma CellBytes_TypeTime_ok : case_ok ffmt tz jsonp CellBytes_TypeTime_g [11].
Proof.
  intros d pos typ meta uns W Hin Hm Hp. cbn [In] in Hin.
  destruct Hin as [<-|[]].
  unfold CellBytes_TypeTime_g, cell_bytes; unfold_types; cbn [Z.eqb Pos.eqb orb].
  rewrite ?go_idx_nat; rewrite ?idx_off by (assumption || (cbn; lia)); to_nat_consts.
  rewrite le_at_at_le0 by lia; cbn [at_le]; rewrite ?Nat.add_0_r.
  repeat case_at W; try exact I; try lia.
  rewrite time_val by assumption. cbn [bind].
  rewrite time_tail by (apply time_val_bound; assumption).
  cbn [flat]. destruct (_ <? 0); reflexivity.
Qed.

Lemma CellBytes_TypeDateTime_ok : case_ok ffmt tz jsonp CellBytes_TypeDateTime_g [12].
Proof.
  intros d pos typ meta uns W Hin Hm Hp. cbn [In] in Hin.
  destruct Hin as [<-|[]].
  unfold CellBytes_TypeDateTime_g, cell_bytes; unfold_types; cbn [Z.eqb Pos.eqb orb].
  change (2 ^ 62) with 4611686018427387904 in Hp.
  rewrite (i64_small (Z.of_nat pos + 8)) by lia.
  rewrite (go_slice_le_bind d (Z.of_nat pos) (Z.of_nat pos + 8) 8 _ pos) by (reflexivity || lia).
  destruct (le_at d pos 8) as [v| |]; cbn [bind flat]; try exact I.
  unfold fmt_date, fmt_clock. apply res_sim_eq. f_equal. f_equal.
  rewrite <- !app_assoc. reflexivity.
Qed.

Lemma CellBytes_TypeTimestamp2_ok : case_ok ffmt tz jsonp (CellBytes_TypeTimestamp2_g (print_timestamp tz)) [17].
Proof.
  intros d pos typ meta uns W Hin Hm Hp. cbn [In] in Hin.
  destruct Hin as [<-|[]].
  unfold CellBytes_TypeTimestamp2_g, cell_bytes; unfold_types; cbn [Z.eqb Pos.eqb orb].
  assert (Hp' : Z.of_nat pos < 4611686018427387904) by exact Hp.
  rewrite (go_slice_be_bind d (Z.of_nat pos) (i64 (Z.of_nat pos + 4)) 4 _ pos) by (reflexivity || (rewrite i64_small; lia)).
  destruct (be_at d pos 4) as [sec| |]; cbn [bind flat]; try exact I.
  pose proof (frac_equiv d pos 4 meta (print_timestamp tz sec) W Hp ltac:(lia)) as F.
  destruct (frac_suffix d (pos + 4) meta) as [[fr n]| |]; cbn [bind flat] in *; exact F.
Qed.

Lemma CellBytes_TypeDateTime2_ok : case_ok ffmt tz jsonp CellBytes_TypeDateTime2_g [18].
Proof.
  intros d pos typ meta uns W Hin Hm Hp. cbn [In] in Hin.
  destruct Hin as [<-|[]].
  unfold CellBytes_TypeDateTime2_g, cell_bytes; unfold_types; cbn [Z.eqb Pos.eqb orb].
  rewrite be_at_at_be0 by lia; cbn [at_be]; rewrite ?Nat.add_0_r.
  rewrite go_idx_nat.
  rewrite (idx_off d pos 1), (idx_off d pos 2), (idx_off d pos 3), (idx_off d pos 4) by (assumption || (cbn; lia)); to_nat_consts.
  do 5 (case_at W; [|try exact I; repeat case_at W; try exact I; lia]).
  rewrite be5_lor by assumption.
  match goal with |- res_sim (if _ then _ else if _ then _ else if _ then _ else if _ then _ else if _ then _ else if _ then _ else Ok (?t, _)) _ =>
    pose proof (frac_equiv d pos 5 meta t W Hp ltac:(lia)) as F end.
  destruct (frac_suffix d (pos + 5) meta) as [[fr n]| |]; cbn [bind flat] in *; [|exact F..].
  rewrite dt2_assoc. exact F.
Qed.

(* TIME2: one metadata case, after the sign has been decided (h = |hms|) *)
Ltac t2_fin W :=
  try (rewrite be_at_at_be by lia); cbn [at_be andb];
  repeat case_at W; try exact I; try lia;
  rewrite ?be2_lor, ?be3_lor by assumption;
  change (0 * 256) with 0; rewrite ?Z.add_0_l;
  try match goal with |- context [?f =? 0] => let F := fresh "F" in destruct (f =? 0) eqn:F end;
  cbn [negb bind flat]; wrap_small; apply res_sim_eq; f_equal;
  (apply f_equal2; [rewrite time2_text by lia; reflexivity | lia]).

Ltac meta_case meta k fin :=
  let E := fresh "E" in
  destruct (meta =? k) eqn:E; [apply Z.eqb_eq in E; subst meta; fin | ].

Ltac t2_cases d pos meta W Hp :=
  unfold time2_frac;
  change (2 ^ 62) with 4611686018427387904 in Hp;
  rewrite !(i64_small (Z.of_nat pos + _)) by lia;
  rewrite !(go_idx_Z d (Z.of_nat pos + 3) (pos + 3)) by lia;
  rewrite !(go_idx_Z d (Z.of_nat pos + 4) (pos + 4)) by lia;
  rewrite !(go_idx_Z d (Z.of_nat pos + 5) (pos + 5)) by lia;
  meta_case meta 1 ltac:(t2_fin W); meta_case meta 2 ltac:(t2_fin W); meta_case meta 3 ltac:(t2_fin W);
  meta_case meta 4 ltac:(t2_fin W); meta_case meta 5 ltac:(t2_fin W); meta_case meta 6 ltac:(t2_fin W);
  t2_fin W.

Lemma CellBytes_TypeTime2_ok : case_ok ffmt tz jsonp CellBytes_TypeTime2_g [19].
Proof.
  intros d pos typ meta uns W Hin Hm Hp. cbn [In] in Hin.
  destruct Hin as [<-|[]].
  unfold CellBytes_TypeTime2_g, cell_bytes; unfold_types; cbn [Z.eqb Pos.eqb orb].
  rewrite be_at_at_be0 by lia; cbn [at_be]; rewrite ?Nat.add_0_r.
  rewrite go_idx_nat.
  rewrite (idx_off d pos 1), (idx_off d pos 2) by (assumption || (cbn; lia)); to_nat_consts.
  do 3 (case_at W; [|try exact I; repeat case_at W; try exact I; lia]).
  rewrite be3_lor by assumption.
  set (raw := ((0 * 256 + b) * 256 + b0) * 256 + b1).
  assert (R : 0 <= raw < 16777216) by (unfold raw; lia).
  clearbody raw.
  rewrite (i64_small (raw - 8388608)) by lia.
  destruct (raw - 8388608 <? 0) eqn:N; cbn [bind bytes_eqb Z.eqb Pos.eqb andb].
  - (* negative: the magnitude is at least 1, so the borrow of the fractional part keeps it non-negative *)
    rewrite (i64_small (- (raw - 8388608))) by lia.
    replace (Z.abs (raw - 8388608)) with (- (raw - 8388608)) by lia.
    set (h := - (raw - 8388608)). assert (Hh : 1 <= h <= 8388608) by lia. clearbody h. clear N R raw.
    t2_cases d pos meta W Hp.
  - replace (Z.abs (raw - 8388608)) with (raw - 8388608) by lia.
    set (h := raw - 8388608). assert (Hh : 0 <= h <= 8388608) by lia. clearbody h. clear N R raw.
    t2_cases d pos meta W Hp.
Qed.

End Cases.
