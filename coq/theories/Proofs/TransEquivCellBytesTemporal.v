(* Per-case equivalences for gen/TransCellBytes.v, family Temporal: see TransEquivCellBytesDefs.v (case_ok) and
   TransEquivCellBytes.v (CellBytes_equiv). *)
From Coq Require Import ZifyBool.
From GB Require Import Base.Prelude Base.GoSem Base.DecText Base.GoFmt Base.BytesLemmas Proofs.GoSemLemmas Proofs.TransTactics.
From GB Require Import Model.Cell Proofs.TransEquivCellBytesDefs.
From GBGen Require Import Consts TransCellBytes.
Open Scope Z_scope.

Section Cases.
Variable ffmt : Z -> Z -> bytes.
Variable tz : Z -> Z.
Variable jsonp : bytes -> res bytes.

Lemma CellBytes_TypeDate_ok : case_ok ffmt tz jsonp CellBytes_TypeDate_g [10; 14].
Proof.
  (* TODO *)
Admitted.

Lemma CellBytes_TypeTime_ok : case_ok ffmt tz jsonp CellBytes_TypeTime_g [11].
Proof.
  (* TODO *)
Admitted.

Lemma CellBytes_TypeDateTime_ok : case_ok ffmt tz jsonp CellBytes_TypeDateTime_g [12].
Proof.
  (* TODO *)
Admitted.

Lemma CellBytes_TypeTimestamp2_ok : case_ok ffmt tz jsonp (CellBytes_TypeTimestamp2_g (print_timestamp tz)) [17].
Proof.
  (* TODO *)
Admitted.

Lemma CellBytes_TypeDateTime2_ok : case_ok ffmt tz jsonp CellBytes_TypeDateTime2_g [18].
Proof.
  (* TODO *)
Admitted.

Lemma CellBytes_TypeTime2_ok : case_ok ffmt tz jsonp CellBytes_TypeTime2_g [19].
Proof.
  (* TODO *)
Admitted.

End Cases.
