(* gen/TransGtid.v (mysql56_gtid_set.go: interval.contains, translated by harness/cmd/gotrans) computes iv_contains of
   Model/Gtid.v, the test Contains' walk over the interval lists is made of. *)
From GB Require Import Base.Prelude Base.GoSem Model.Gtid.
From GBGen Require Import TransGtid.
Open Scope Z_scope.

Definition interval_of (i : iv) : interval_r := {| interval_start := fst i; interval_end := snd i |}.

Theorem interval_contains_equiv i o :
  res_sim (interval_contains_g (interval_of i) (interval_of o)) (Ok (iv_contains i o)).
Proof. reflexivity. Qed.
Print Assumptions interval_contains_equiv.
