(* Lemmas about the canonical text of a DECIMAL (Spec.Values.text_decimal):
   leading zeros, digit characters.  Shared by the DECIMAL cell proof and by
   the injectivity of the JSON rendering. *)
From GB Require Import Base.Prelude Base.DecText Spec.Values.
Open Scope Z_scope.

Lemma strip0_decomp l :
  exists k, l = repeat 0 k ++ strip0 l /\ (strip0 l = [] \/ exists c t, strip0 l = c :: t /\ c <> 0).
Proof.
  induction l as [|c r IH].
  - exists 0%nat. split; [reflexivity | left; reflexivity].
  - destruct c as [|q|q].
    + destruct IH as (k & E & H). exists (S k). cbn [strip0 repeat app]. split; [f_equal; exact E | exact H].
    + exists 0%nat. cbn [strip0 repeat app]. split; [reflexivity|]. right. eexists _, _. split; [reflexivity | discriminate].
    + exists 0%nat. cbn [strip0 repeat app]. split; [reflexivity|]. right. eexists _, _. split; [reflexivity | discriminate].
Qed.

Lemma digit_chars_inj a b : digit_chars a = digit_chars b -> a = b.
Proof.
  unfold digit_chars. revert b; induction a as [|x a IH]; intros [|y b] E; cbn [map] in E; try discriminate; auto.
  assert (E1 : 48 + x = 48 + y) by (apply (f_equal (fun l => hd 0 l)) in E; exact E).
  assert (E2 : map (fun c => 48 + c) a = map (fun c => 48 + c) b) by (apply (f_equal (@tl Z)) in E; exact E).
  f_equal; [lia | apply IH; exact E2].
Qed.

Definition digit_vals (l : list Z) : Prop := Forall (fun c => 0 <= c <= 9) l.

Lemma digitsb_vals l : digitsb l = true -> digit_vals l.
Proof.
  unfold digitsb, digit_vals. rewrite forallb_forall, Forall_forall. intros H x Hx. specialize (H x Hx).
  apply andb_true_iff in H as [H1 H2]. apply Z.leb_le in H1. apply Z.leb_le in H2. lia.
Qed.

Lemma digit_chars_digits l : digit_vals l -> Forall is_digit (digit_chars l).
Proof.
  unfold digit_vals, digit_chars. intros H. apply Forall_map. eapply Forall_impl; [|exact H].
  intros c Hc. unfold is_digit. cbv beta in *. lia.
Qed.

Definition int_text (ip : list Z) : bytes := match strip0 ip with [] => [48] | l => digit_chars l end.
Definition frac_text (fp : list Z) : bytes := match fp with [] => [] | _ => 46 :: digit_chars fp end.

Lemma text_decimal_eq neg ip fp :
  text_decimal neg ip fp = (if neg then [45] else []) ++ int_text ip ++ frac_text fp.
Proof. reflexivity. Qed.

Lemma strip0_vals l : digit_vals l -> digit_vals (strip0 l).
Proof.
  intros H. destruct (strip0_decomp l) as (k & E & _). rewrite E in H.
  unfold digit_vals in *. apply Forall_app in H as [_ H]. exact H.
Qed.

Lemma int_text_digits ip : digit_vals ip -> Forall is_digit (int_text ip) /\ int_text ip <> [].
Proof.
  intros H. unfold int_text. pose proof (strip0_vals ip H) as Hs.
  destruct (strip0 ip) as [|c t] eqn:E.
  - split; [constructor; [unfold is_digit; lia | constructor] | discriminate].
  - split; [apply digit_chars_digits; exact Hs | discriminate].
Qed.


(* ---------- the number denoted by a list of digit values ---------- *)
Lemma fold_digits_acc l : forall a,
  fold_left (fun a c => a * 10 + c) l a = a * 10 ^ len l + digits_val l.
Proof.
  unfold digits_val, len. induction l as [|c l IH]; intros a.
  - cbn. lia.
  - cbn [fold_left List.length]. rewrite IH, (IH (0 * 10 + c)).
    rewrite Nat2Z.inj_succ, Z.pow_succ_r by lia. ring.
Qed.

Lemma digits_val_cons c l : digits_val (c :: l) = c * 10 ^ len l + digits_val l.
Proof. unfold digits_val at 1. cbn [fold_left]. rewrite fold_digits_acc. ring. Qed.

Lemma digits_val_app a b : digits_val (a ++ b) = digits_val a * 10 ^ len b + digits_val b.
Proof.
  unfold digits_val at 1. rewrite fold_left_app. rewrite fold_digits_acc. reflexivity.
Qed.

Lemma digits_val_bound l : digit_vals l -> 0 <= digits_val l < 10 ^ len l.
Proof.
  unfold len. induction 1 as [|c l Hc Hl IH].
  - cbn. lia.
  - rewrite digits_val_cons. unfold len. cbn [List.length]. rewrite Nat2Z.inj_succ, Z.pow_succ_r by lia.
    cbv beta in Hc. assert (0 < 10 ^ Z.of_nat (List.length l)) by (apply Z.pow_pos_nonneg; lia). nia.
Qed.

Lemma pad0_digits_val l : digit_vals l -> pad0 (List.length l) (digits_val l) = digit_chars l.
Proof.
  induction 1 as [|c l Hc Hl IH]; [reflexivity|].
  rewrite digits_val_cons. change (List.length (c :: l)) with (1 + List.length l)%nat.
  unfold len. rewrite pad0_concat by (apply digits_val_bound; exact Hl).
  rewrite IH. cbv beta in Hc. unfold pad0. cbn [pad0_acc app digit_chars map].
  rewrite Z.mod_small by lia. reflexivity.
Qed.

Lemma digits_val_repeat0 k l : digits_val (repeat 0 k ++ l) = digits_val l.
Proof.
  induction k as [|k IH]; [reflexivity|]. cbn [repeat app]. rewrite digits_val_cons, IH. lia.
Qed.

Lemma digits_val_strip l : digits_val l = digits_val (strip0 l).
Proof.
  destruct (strip0_decomp l) as (k & E & _). rewrite E at 1. apply digits_val_repeat0.
Qed.

Lemma digs_digits_val c t :
  digit_vals (c :: t) -> c <> 0 ->
  0 < digits_val (c :: t) /\ digs (digits_val (c :: t)) = digit_chars (c :: t).
Proof.
  intros Hd Hc. pose proof (digits_val_bound (c :: t) Hd) as Hb.
  inversion Hd as [|? ? Hc9 Ht]; subst. cbv beta in Hc9.
  pose proof (digits_val_bound t Ht) as Hbt.
  assert (Hlow : 10 ^ len t <= digits_val (c :: t)).
  { rewrite digits_val_cons. assert (0 < 10 ^ len t) by (apply Z.pow_pos_nonneg; unfold len; lia). nia. }
  assert (0 < 10 ^ len t) by (apply Z.pow_pos_nonneg; unfold len; lia).
  split; [lia|].
  rewrite <- (pad0_digits_val (c :: t) Hd). symmetry. apply pad0_digs.
  - cbn [List.length]. lia.
  - cbn [List.length]. replace (S (List.length t) - 1)%nat with (List.length t) by lia.
    unfold len in *. cbn [List.length] in Hb. split; [exact Hlow | lia].
Qed.

Lemma strip0_nil_val l : strip0 l = [] -> digits_val l = 0.
Proof. intros E. rewrite digits_val_strip, E. reflexivity. Qed.

Lemma strip0_app_nonempty c g : strip0 c <> [] -> strip0 (c ++ g) = strip0 c ++ g.
Proof.
  induction c as [|x c IH]; intros H; [contradiction H; reflexivity|].
  destruct x as [|q|q]; cbn [app strip0] in *; auto.
Qed.

Lemma strip0_app_zero c g : strip0 c = [] -> strip0 (c ++ g) = strip0 g.
Proof.
  induction c as [|x c IH]; intros H; [reflexivity|].
  destruct x as [|q|q]; cbn [app strip0] in *; try discriminate; auto.
Qed.

Lemma digit_chars_app a b : digit_chars (a ++ b) = digit_chars a ++ digit_chars b.
Proof. unfold digit_chars. apply map_app. Qed.
