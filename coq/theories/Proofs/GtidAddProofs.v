(* C18, part 2: AddGTID yields the canonical set of the union.
   Route: (1) int64 wrap is harmless on 1 <= seq <= 2^63-1; (2) the accumulator loop
   `add_loop` computes the plain insertion function `ins`; (3) `ins` is correct w.r.t. the
   denotation and preserves the canonical form; (4) the loop over the map is `map_set`. *)
From GB Require Import Base.Prelude Base.BytesLemmas Model.Gtid Spec.GtidSpec.
From GB Require Import Proofs.GtidBase Proofs.GtidSetProofs.
Open Scope Z_scope.

(* ---------- int64 ---------- *)
Lemma i64_nonneg x : 0 <= x < 2 ^ 63 -> i64 x = x.
Proof.
  intros H. change (2 ^ 63) with 9223372036854775808 in H.
  unfold i64, u64, sx. rewrite Z.mod_small by lia.
  change (2 ^ (64 - 1)) with 9223372036854775808.
  destruct (Z.ltb_spec x 9223372036854775808); [reflexivity|lia].
Qed.

Lemma i64_wrap : i64 (2 ^ 63) = - 2 ^ 63.
Proof. reflexivity. Qed.

(* comparing a valid sequence number with end+1 computed in int64 *)
Lemma eqb_i64_succ x y : 1 <= x < 2 ^ 63 -> 0 <= y < 2 ^ 63 -> (x =? i64 (y + 1)) = (x =? y + 1).
Proof.
  intros Hx Hy. destruct (Z.eq_dec (y + 1) (2 ^ 63)) as [E|E].
  - rewrite E, i64_wrap. change (2 ^ 63) with 9223372036854775808 in *.
    destruct (Z.eqb_spec x (- 9223372036854775808)); destruct (Z.eqb_spec x 9223372036854775808); try lia; reflexivity.
  - rewrite i64_nonneg by lia. reflexivity.
Qed.

(* ---------- the loop once the GTID has been placed ---------- *)
Lemma add_loop_true n r : forall ls le racc, ivs_ok (le + 1) r -> 0 <= le ->
  add_loop n r true ((ls, le) :: racc) = (true, rev racc ++ (ls, le) :: r).
Proof.
  induction r as [|[st en] r IH]; intros ls le racc H Hle.
  - cbn [add_loop rev]. reflexivity.
  - cbn [ivs_ok] in H. destruct H as (H1 & H2 & H3 & H4).
    cbn [add_loop]. rewrite eqb_i64_succ by lia.
    destruct (Z.eqb_spec st (le + 1)) as [E|_]; [lia|].
    rewrite IH by (try assumption; lia). cbn [rev]. rewrite <- ?app_assoc. reflexivity.
Qed.

(* ---------- plain insertion of a number into a canonical interval list ---------- *)
Fixpoint ins (n : Z) (l : list iv) : bool * list iv :=
  match l with
  | [] => (false, [])
  | (a, b) :: r =>
    if n =? a - 1 then (true, (n, b) :: r)
    else if n =? b + 1 then
      (true, match r with
             | (a', b') :: r' => if a' =? n + 1 then (a, b') :: r' else (a, n) :: r
             | [] => [(a, n)]
             end)
    else if n <? a - 1 then (true, (n, n) :: (a, b) :: r)
    else let '(ad, r') := ins n r in (ad, (a, b) :: r')
  end.

Definition racc_ok (n lo : Z) (racc : list iv) : Prop :=
  match racc with
  | [] => True
  | (ls, le) :: _ => 0 <= le /\ le + 1 < n /\ le + 1 <= lo
  end.

Lemma add_loop_false n l : forall lo racc,
  ivs_ok lo l -> 0 <= lo -> 1 <= n < 2 ^ 63 -> ~ den_ivs l n -> racc_ok n lo racc ->
  add_loop n l false racc = (fst (ins n l), rev racc ++ snd (ins n l)).
Proof.
  induction l as [|[st en] r IH]; intros lo racc H Hlo Hn Hnd Hr.
  - cbn [add_loop ins fst snd]. rewrite app_nil_r. reflexivity.
  - cbn [ivs_ok] in H. destruct H as (H1 & H2 & H3 & H4).
    assert (Hnot : ~ (st <= n <= en)) by (intros Hc; apply Hnd; apply den_ivs_cons; left; exact Hc).
    assert (Hndr : ~ den_ivs r n) by (intros Hc; apply Hnd; apply den_ivs_cons; right; exact Hc).
    cbn [add_loop ins].
    rewrite (i64_nonneg (st - 1)) by lia. rewrite (eqb_i64_succ n en) by lia.
    destruct (Z.eqb_spec n (st - 1)) as [E1|N1].
    { (* expand at the beginning *)
      destruct racc as [|[ls le] racc'].
      - rewrite add_loop_true by (try assumption; lia). reflexivity.
      - cbn [racc_ok] in Hr. rewrite eqb_i64_succ by lia.
        destruct (Z.eqb_spec n (le + 1)) as [E|_]; [lia|].
        rewrite add_loop_true by (try assumption; lia). cbn [fst snd rev]. rewrite <- ?app_assoc. reflexivity. }
    destruct (Z.eqb_spec n (en + 1)) as [E2|N2].
    { (* expand at the end; the next interval may become adjacent *)
      assert (Hstep : add_loop n r true ((st, n) :: racc) =
                      (true, rev racc ++ match r with
                                         | (a', b') :: r' => if a' =? n + 1 then (st, b') :: r' else (st, n) :: r
                                         | [] => [(st, n)]
                                         end)).
      { destruct r as [|[a' b'] r'].
        - cbn [add_loop rev]. reflexivity.
        - cbn [ivs_ok] in H4. destruct H4 as (G1 & G2 & G3 & G4).
          cbn [add_loop]. rewrite eqb_i64_succ by lia.
          destruct (Z.eqb_spec a' (n + 1)) as [E|NE].
          + rewrite add_loop_true by (try assumption; lia). reflexivity.
          + rewrite add_loop_true by (cbn [ivs_ok]; try lia; repeat split; try assumption; lia).
            cbn [rev]. rewrite <- ?app_assoc. reflexivity. }
      destruct racc as [|[ls le] racc'].
      - rewrite Hstep. reflexivity.
      - cbn [racc_ok] in Hr. rewrite eqb_i64_succ by lia.
        destruct (Z.eqb_spec st (le + 1)) as [E|_]; [lia|].
        rewrite Hstep. reflexivity. }
    destruct (Z.ltb_spec n (st - 1)) as [L3|G3].
    { (* a new interval in front of this one *)
      rewrite eqb_i64_succ by lia.
      destruct (Z.eqb_spec st (n + 1)) as [E|_]; [lia|].
      rewrite add_loop_true by (try assumption; lia).
      cbn [fst snd rev]. rewrite <- ?app_assoc. reflexivity. }
    (* beyond this interval: keep scanning *)
    assert (Hgt : en + 1 < n) by lia.
    assert (Hnext : add_loop n r false ((st, en) :: racc) = (fst (ins n r), rev ((st, en) :: racc) ++ snd (ins n r))).
    { apply (IH (en + 1)); try assumption; try lia. cbn [racc_ok]. lia. }
    destruct (ins n r) as [ad r'] eqn:Eins. cbn [fst snd] in *.
    cbn [rev] in Hnext. rewrite <- app_assoc in Hnext. cbn [app] in Hnext.
    destruct racc as [|[ls le] racc'].
    + exact Hnext.
    + cbn [racc_ok] in Hr. rewrite eqb_i64_succ by lia.
      destruct (Z.eqb_spec st (le + 1)) as [E|_]; [lia|]. exact Hnext.
Qed.

(* result of AddGTID on one interval list *)
Definition ins_ivs (n : Z) (l : list iv) : list iv :=
  if fst (ins n l) then snd (ins n l) else snd (ins n l) ++ [(n, n)].

Lemma ins_ivs_cons_far n a b r : a - 1 < n -> b + 1 < n ->
  ins_ivs n ((a, b) :: r) = (a, b) :: ins_ivs n r.
Proof.
  intros H1 H2. unfold ins_ivs. cbn [ins].
  destruct (Z.eqb_spec n (a - 1)); [lia|]. destruct (Z.eqb_spec n (b + 1)); [lia|].
  destruct (Z.ltb_spec n (a - 1)); [lia|].
  destruct (ins n r) as [ad r']. cbn [fst snd]. destruct ad; reflexivity.
Qed.

(* membership as an arithmetic atom, so that lia can reason about it *)
Lemma den_ivs_z l m : den_ivs l m <-> Z.b2z (den_ivsb l m) = 1.
Proof. rewrite <- den_ivsb_ok. destruct (den_ivsb l m); cbn [Z.b2z]; split; intros H; try reflexivity; try discriminate; lia. Qed.

Lemma den_ivs_nil_iff m : den_ivs [] m <-> False.
Proof. split; [apply den_ivs_nil | tauto]. Qed.

Ltac dlia := intros; rewrite ?den_ivs_cons, ?den_ivs_nil_iff; rewrite ?den_ivs_z; lia.

Lemma ins_spec n l : forall lo, ivs_ok lo l -> lo < n -> n < 2 ^ 63 -> ~ den_ivs l n ->
  ivs_ok lo (ins_ivs n l) /\ forall m, den_ivs (ins_ivs n l) m <-> den_ivs l m \/ m = n.
Proof.
  induction l as [|[a b] r IH]; intros lo H Hlo Hn Hnd.
  - unfold ins_ivs. cbn [ins fst snd app ivs_ok]. split; [lia|]. dlia.
  - cbn [ivs_ok] in H. destruct H as (H1 & H2 & H3 & H4).
    assert (Hnot : ~ (a <= n <= b)) by (intros Hc; apply Hnd; apply den_ivs_cons; left; exact Hc).
    assert (Hndr : ~ den_ivs r n) by (intros Hc; apply Hnd; apply den_ivs_cons; right; exact Hc).
    destruct (Z.eq_dec n (a - 1)) as [E1|N1].
    { unfold ins_ivs. cbn [ins]. destruct (Z.eqb_spec n (a - 1)); [|contradiction]. cbn [fst snd ivs_ok].
      split; [repeat split; try assumption; lia|]. dlia. }
    destruct (Z.eq_dec n (b + 1)) as [E2|N2].
    { unfold ins_ivs. cbn [ins]. destruct (Z.eqb_spec n (a - 1)); [contradiction|].
      destruct (Z.eqb_spec n (b + 1)); [|contradiction]. cbn [fst snd].
      destruct r as [|[a' b'] r'].
      - cbn [ivs_ok]. split; [lia|]. dlia.
      - cbn [ivs_ok] in H4. destruct H4 as (G1 & G2 & G3 & G4).
        destruct (Z.eqb_spec a' (n + 1)) as [E|NE].
        + cbn [ivs_ok]. split; [repeat split; try assumption; lia|]. dlia.
        + cbn [ivs_ok]. split; [repeat split; try assumption; lia|]. dlia. }
    destruct (Z_lt_ge_dec n (a - 1)) as [L3|G3].
    { unfold ins_ivs. cbn [ins]. destruct (Z.eqb_spec n (a - 1)); [contradiction|].
      destruct (Z.eqb_spec n (b + 1)); [contradiction|]. destruct (Z.ltb_spec n (a - 1)); [|lia].
      cbn [fst snd ivs_ok]. split; [repeat split; try assumption; lia|]. dlia. }
    (* n lies beyond (a,b) and is not adjacent to it *)
    assert (Hgt : b + 1 < n) by lia.
    rewrite ins_ivs_cons_far by lia.
    destruct (IH (b + 1) H4 Hgt Hn Hndr) as [Iok Iden].
    cbn [ivs_ok]. split; [repeat split; assumption|].
    intros m. rewrite !den_ivs_cons, Iden. tauto.
Qed.

(* the model's per-UUID result *)
Definition add_ivs (n : Z) (l : list iv) : list iv :=
  let '(ad, l') := add_loop n l false [] in if ad then l' else l' ++ [(n, n)].

Lemma add_ivs_ins n l : ivs_ok 0 l -> 1 <= n < 2 ^ 63 -> ~ den_ivs l n -> add_ivs n l = ins_ivs n l.
Proof.
  intros H Hn Hnd. unfold add_ivs, ins_ivs.
  rewrite (add_loop_false n l 0 []) by (try assumption; try lia; exact I).
  cbn [rev app]. reflexivity.
Qed.

(* ---------- map_set ---------- *)
Lemma map_set_in k v s : keys_sorted s ->
  forall e, In e (map_set k v s) <-> e = (k, v) \/ (fst e <> k /\ In e s).
Proof.
  induction s as [|[k' v'] r IH]; intros Hs e.
  - cbn [map_set In]. split; [intros [E|[]]; left; congruence | intros [E|[_ []]]; left; congruence].
  - apply keys_sorted_cons in Hs as [Ha Hs]. cbn [fst] in Ha.
    unfold keys_above in Ha. rewrite Forall_forall in Ha.
    cbn [map_set]. destruct (bytes_compare k k') eqn:Ec.
    + apply bytes_compare_eq in Ec. subst k'. cbn [In]. split.
      * intros [E|Hin]; [left; congruence|]. right. split; [|right; exact Hin].
        intros Ek. specialize (Ha _ Hin). exact (lex_lt_neq _ _ Ha (eq_sym Ek)).
      * intros [E|[Hne [E|Hin]]]; [left; congruence | subst e; cbn [fst] in Hne; contradiction | right; exact Hin].
    + apply bytes_compare_lt in Ec. cbn [In]. split.
      * intros [E|[E|Hin]]; [left; congruence | |].
        -- right. split; [subst e; cbn [fst]; intros Ek; subst; exact (lex_lt_irrefl _ Ec) | left; exact E].
        -- right. split; [|right; exact Hin]. intros Ek. specialize (Ha _ Hin). exact (lex_lt_neq _ _ (lex_lt_trans _ _ _ Ec Ha) (eq_sym Ek)).
      * intros [E|[_ Hin]]; [left; congruence | right; exact Hin].
    + apply bytes_compare_gt in Ec. cbn [In]. rewrite (IH Hs e). split.
      * intros [E|[E|[Hne Hin]]]; [|left; exact E | right; split; [exact Hne | right; exact Hin]].
        right. split; [subst e; cbn [fst]; intros Ek; subst; exact (lex_lt_irrefl _ Ec) | left; exact E].
      * intros [E|[Hne [E|Hin]]]; [right; left; exact E | left; exact E | right; right; split; assumption].
Qed.

Lemma map_set_sorted k v s : keys_sorted s -> keys_sorted (map_set k v s).
Proof.
  induction s as [|[k' v'] r IH]; intros Hs.
  - cbn [map_set keys_sorted]. tauto.
  - pose proof Hs as Hs0. apply keys_sorted_cons in Hs as [Ha Hs]. cbn [fst] in Ha.
    cbn [map_set]. destruct (bytes_compare k k') eqn:Ec.
    + apply bytes_compare_eq in Ec. subst k'. apply keys_sorted_cons. split; assumption.
    + apply bytes_compare_lt in Ec. apply keys_sorted_cons. split; [|exact Hs0].
      constructor; [exact Ec|]. eapply Forall_impl; [|exact Ha]. intros e He. eapply lex_lt_trans; eauto.
    + apply bytes_compare_gt in Ec. apply keys_sorted_cons. split; [|apply IH; exact Hs].
      cbn [fst]. unfold keys_above. rewrite Forall_forall. intros e He.
      apply (map_set_in k v r Hs) in He as [E|[_ Hin]]; [subst e; exact Ec|].
      unfold keys_above in Ha. rewrite Forall_forall in Ha. exact (Ha _ Hin).
Qed.

Lemma map_set_den k v s u m : keys_sorted s ->
  (den (map_set k v s) u m <-> (u = k /\ den_ivs v m) \/ (u <> k /\ den s u m)).
Proof.
  intros Hs. unfold den. split.
  - intros (l & Hin & Hd). apply (map_set_in k v s Hs) in Hin as [E|[Hne Hin]].
    + inversion E; subst. left. split; [reflexivity|exact Hd].
    + cbn [fst] in Hne. right. split; [exact Hne|]. exists l. split; assumption.
  - intros [[-> Hd]|[Hne (l & Hin & Hd)]].
    + exists v. split; [apply (map_set_in k v s Hs); left; reflexivity | exact Hd].
    + exists l. split; [apply (map_set_in k v s Hs); right; split; [exact Hne|exact Hin] | exact Hd].
Qed.

Lemma map_set_canon k v s : canon s -> wf_sid k -> v <> [] -> ivs_ok 0 v -> canon (map_set k v s).
Proof.
  intros [Hs Hall] Hk Hv Hok. split; [apply map_set_sorted; exact Hs|].
  rewrite Forall_forall in *. intros e He.
  apply (map_set_in k v s Hs) in He as [E|[_ Hin]]; [subst e; unfold entry_ok; cbn [fst snd]; auto | apply Hall; exact Hin].
Qed.

(* ---------- the loop over the map ---------- *)
Lemma add_sids_absent g s :
  (forall e, In e s -> bytes_eqb (fst e) (g_sid g) = false) -> add_sids g s = (false, s).
Proof.
  induction s as [|[k v] r IH]; intros H; [reflexivity|].
  cbn [add_sids]. rewrite IH by (intros e He; apply H; right; exact He).
  pose proof (H (k, v) (or_introl eq_refl)) as Hk. cbn [fst] in Hk. rewrite Hk. reflexivity.
Qed.

Lemma keys_above_absent (k : sid) (r : gset) :
  keys_above k r -> forall e, In e r -> bytes_eqb (fst e) k = false.
Proof.
  intros Ha e He. unfold keys_above in Ha. rewrite Forall_forall in Ha.
  apply bytes_eqb_neq. intros E. specialize (Ha _ He). exact (lex_lt_neq _ _ Ha (eq_sym E)).
Qed.

Lemma add_ivs_nil n : add_ivs n [] = [(n, n)].
Proof. reflexivity. Qed.

Lemma add_sids_map_set g (s : gset) : keys_sorted s ->
  (let '(added, new) := add_sids g s in
   if added then new else map_set (g_sid g) (lookup (g_sid g) new ++ [(g_seq g, g_seq g)]) new)
  = map_set (g_sid g) (add_ivs (g_seq g) (lookup (g_sid g) s)) s.
Proof.
  destruct g as [k n]. cbn [g_sid g_seq].
  induction s as [|[k' v] r IH]; intros Hs.
  - reflexivity.
  - apply keys_sorted_cons in Hs as [Ha Hs]. cbn [fst] in Ha. specialize (IH Hs).
    cbn [add_sids g_sid g_seq].
    destruct (bytes_eqb k' k) eqn:Ek.
    + apply bytes_eqb_eq in Ek. subst k'.
      rewrite (add_sids_absent {| g_sid := k; g_seq := n |} r) by (apply keys_above_absent; exact Ha).
      cbn [lookup]. rewrite bytes_eqb_refl. unfold add_ivs.
      destruct (add_loop n v false []) as [added nivs]. rewrite orb_false_r.
      assert (Ecmp : bytes_compare k k = Eq) by (apply bytes_compare_eq; reflexivity).
      destruct added.
      * cbn [map_set]. rewrite Ecmp. reflexivity.
      * cbn [lookup map_set]. rewrite bytes_eqb_refl, Ecmp. reflexivity.
    + assert (Ek' : bytes_eqb k k' = false) by (rewrite bytes_eqb_sym; exact Ek).
      cbn [lookup]. rewrite Ek'.
      destruct (bytes_compare k k') eqn:Ec.
      * apply bytes_compare_eq in Ec. subst k'. rewrite bytes_eqb_refl in Ek. discriminate.
      * (* k sorts before k': it is absent from the rest *)
        apply bytes_compare_lt in Ec.
        assert (Hab : keys_above k r).
        { eapply Forall_impl; [|exact Ha]. intros e He. eapply lex_lt_trans; eauto. }
        rewrite (add_sids_absent {| g_sid := k; g_seq := n |} r) by (apply keys_above_absent; exact Hab).
        rewrite (lookup_above _ _ Hab), add_ivs_nil.
        cbn [lookup]. rewrite Ek', (lookup_above _ _ Hab). cbn [app map_set].
        replace (bytes_compare k k') with Lt by (symmetry; apply bytes_compare_lt; exact Ec). reflexivity.
      * destruct (add_sids {| g_sid := k; g_seq := n |} r) as [added_r new_r].
        destruct added_r.
        -- cbn [map_set]. rewrite Ec. f_equal. exact IH.
        -- cbn [lookup]. rewrite Ek'. cbn [map_set]. rewrite Ec. f_equal. exact IH.
Qed.

(* ---------- AddGTID ---------- *)
Theorem add_spec (s : gset) (g : g56) :
  canon s -> valid_gtid (g_sid g) (g_seq g) ->
  canon (add_gtid s g) /\
  forall u n, den (add_gtid s g) u n <-> den s u n \/ (u = g_sid g /\ n = g_seq g).
Proof.
  intros Hc [Hsid Hseq]. unfold add_gtid.
  destruct (contains_gtid s g) eqn:Ecg.
  - apply (contains_gtid_spec s g Hc) in Ecg. split; [exact Hc|].
    intros u n. split; [intros H; left; exact H | intros [H|[-> ->]]; [exact H|exact Ecg]].
  - assert (Hnd : ~ den_ivs (lookup (g_sid g) s) (g_seq g)).
    { intros Hd. apply (den_lookup s _ _ (canon_sorted _ Hc)) in Hd.
      apply (contains_gtid_spec s g Hc) in Hd. congruence. }
    pose proof (add_sids_map_set g s (canon_sorted _ Hc)) as Hmap.
    destruct (add_sids g s) as [added new]. rewrite Hmap. clear Hmap.
    pose proof (canon_lookup s (g_sid g) Hc) as Hok.
    rewrite (add_ivs_ins _ _ Hok Hseq Hnd).
    destruct (ins_spec (g_seq g) (lookup (g_sid g) s) 0 Hok ltac:(lia) ltac:(lia) Hnd) as [Iok Iden].
    assert (Ine : ins_ivs (g_seq g) (lookup (g_sid g) s) <> []).
    { intros E. assert (Hx : den_ivs (ins_ivs (g_seq g) (lookup (g_sid g) s)) (g_seq g)) by (apply Iden; right; reflexivity).
      rewrite E in Hx. exact (den_ivs_nil _ Hx). }
    split; [apply map_set_canon; assumption|].
    intros u n. rewrite (map_set_den _ _ s u n (canon_sorted _ Hc)), Iden.
    rewrite <- (den_lookup s (g_sid g) n (canon_sorted _ Hc)).
    destruct (list_eq_dec Z.eq_dec u (g_sid g)) as [E|NE].
    + subst u. split; [intros [[_ [H|H]]|[H _]]; [left; exact H | right; split; [reflexivity|exact H] | contradiction]
                      | intros [H|[_ H]]; left; (split; [reflexivity|]); [left; exact H | right; exact H]].
    + split; [intros [[H _]|[_ H]]; [contradiction | left; exact H] | intros [H|[H _]]; [right; split; assumption | contradiction]].
Qed.

(* ---------- closure: everything derived from canonical sets is canonical ---------- *)
Inductive derived : gset -> Prop :=
| d_canon s : canon s -> derived s
| d_add s g : derived s -> valid_gtid (g_sid g) (g_seq g) -> derived (add_gtid s g).

Theorem derived_canon s : derived s -> canon s.
Proof. induction 1 as [s H|s g _ IH Hg]; [exact H | apply (add_spec s g IH Hg)]. Qed.

(* a GTID's own set, and sequences of additions *)
Lemma g56_set_spec g : valid_gtid (g_sid g) (g_seq g) ->
  canon (g56_set g) /\ forall u n, den (g56_set g) u n <-> (u = g_sid g /\ n = g_seq g).
Proof.
  intros Hg. destruct (add_spec [] g canon_nil Hg) as [Hc Hd]. split; [exact Hc|].
  intros u n. unfold g56_set. rewrite Hd. split; [intros [H|H]; [exfalso; exact (den_nil _ _ H) | exact H] | intros H; right; exact H].
Qed.

Theorem add_many_spec gs : forall (s : gset),
  canon s -> Forall (fun g => valid_gtid (g_sid g) (g_seq g)) gs ->
  canon (fold_left add_gtid gs s) /\
  forall u n, den (fold_left add_gtid gs s) u n <->
              den s u n \/ exists g, In g gs /\ u = g_sid g /\ n = g_seq g.
Proof.
  induction gs as [|g gs IH]; intros s Hc Hall.
  - cbn [fold_left]. split; [exact Hc|]. intros u n. split; [intros H; left; exact H | intros [H|(g & [] & _)]; exact H].
  - inversion Hall as [|? ? Hg Hrest]; subst.
    destruct (add_spec s g Hc Hg) as [Hc1 Hd1].
    destruct (IH (add_gtid s g) Hc1 Hrest) as [Hc2 Hd2].
    cbn [fold_left]. split; [exact Hc2|].
    intros u n. rewrite Hd2, Hd1. split.
    + intros [[H|[E1 E2]]|(g' & Hin & E)]; [left; exact H | right; exists g; split; [left; reflexivity|split; assumption] | right; exists g'; split; [right; exact Hin|exact E]].
    + intros [H|(g' & [E|Hin] & E1 & E2)]; [left; left; exact H | subst g'; left; right; split; assumption | right; exists g'; split; [exact Hin|split; assumption]].
Qed.
