(* DECIMAL cells: the (repaired) decoder of CellBytes / cellLength against
   decimal2bin as written in Spec.Values (enc_decimal) and the canonical text
   (text_decimal).  Used by C11 and by the opaque decimals of C14. *)
From GB Require Import Base.Prelude Base.DecText Base.GoFmt Base.BytesLemmas.
From GB Require Import Model.Cell Spec.Values Proofs.DecimalText Proofs.FmtPad.
From GBGen Require Import Consts.
Open Scope Z_scope.

(* ---------- small facts ---------- *)
Lemma dig2_ok k : 0 <= k <= 8 -> dig2 k = Ok (dig2bytes_spec k).
Proof.
  intros H.
  assert (C : k = 0 \/ k = 1 \/ k = 2 \/ k = 3 \/ k = 4 \/ k = 5 \/ k = 6 \/ k = 7 \/ k = 8) by lia.
  destruct C as [->|[->|[->|[->|[->|[->|[->|[->| ->]]]]]]]]; reflexivity.
Qed.

Lemma dig2_spec_range k : 0 <= k <= 8 -> 0 <= dig2bytes_spec k <= 4.
Proof.
  intros H.
  assert (C : k = 0 \/ k = 1 \/ k = 2 \/ k = 3 \/ k = 4 \/ k = 5 \/ k = 6 \/ k = 7 \/ k = 8) by lia.
  destruct C as [->|[->|[->|[->|[->|[->|[->|[->| ->]]]]]]]]; cbn; lia.
Qed.

(* k leftover digits fit their bytes with the top bit clear *)
Lemma dig2_capacity k : 0 <= k <= 8 -> 2 * 10 ^ k <= 256 ^ dig2bytes_spec k \/ k = 0.
Proof.
  intros H.
  assert (C : k = 0 \/ k = 1 \/ k = 2 \/ k = 3 \/ k = 4 \/ k = 5 \/ k = 6 \/ k = 7 \/ k = 8) by lia.
  destruct C as [->|[->|[->|[->|[->|[->|[->|[->| ->]]]]]]]]; [right; reflexivity | left; vm_compute; discriminate ..].
Qed.

Lemma dig2_zero_iff k : 0 <= k <= 8 -> (dig2bytes_spec k = 0 <-> k = 0).
Proof.
  intros H.
  assert (C : k = 0 \/ k = 1 \/ k = 2 \/ k = 3 \/ k = 4 \/ k = 5 \/ k = 6 \/ k = 7 \/ k = 8) by lia.
  destruct C as [->|[->|[->|[->|[->|[->|[->|[->| ->]]]]]]]]; cbn; split; intros; try lia; try discriminate.
Qed.

Definition msb_clear (l : bytes) : Prop := match l with [] => True | b :: _ => 0 <= b < 128 end.

Lemma msb_clear_app a b : msb_clear a -> (a = [] -> msb_clear b) -> msb_clear (a ++ b).
Proof. destruct a; cbn; auto. Qed.

Lemma be_enc_S n v : be_enc (S n) v = be_enc n (v / 256) ++ [v mod 256].
Proof. unfold be_enc. cbn [le_enc rev]. reflexivity. Qed.

Lemma be_enc_msb n : forall v, 0 <= v -> 2 * v < 256 ^ Z.of_nat n -> msb_clear (be_enc n v).
Proof.
  induction n as [|n IH]; intros v Hv Hb; [exact I|].
  rewrite be_enc_S. rewrite Nat2Z.inj_succ, Z.pow_succ_r in Hb by lia.
  destruct n as [|n].
  - cbn [be_enc le_enc rev app msb_clear]. change (256 ^ Z.of_nat 0) with 1 in Hb.
    rewrite Z.mod_small by lia. lia.
  - assert (Hq : 0 <= v / 256) by (apply Z.div_pos; lia).
    assert (Hq2 : 2 * (v / 256) < 256 ^ Z.of_nat (S n)).
    { assert (v / 256 * 256 <= v) by (pose proof (Z_div_mod_eq_full v 256); pose proof (Z.mod_pos_bound v 256 ltac:(lia)); lia).
      nia. }
    specialize (IH (v / 256) Hq Hq2).
    destruct (be_enc (S n) (v / 256)) as [|b t] eqn:E.
    + apply (f_equal (@List.length Z)) in E. rewrite be_enc_length in E. discriminate.
    + exact IH.
Qed.

Lemma groups9_length n : forall l, List.length (groups9 n l) = (4 * n)%nat.
Proof.
  induction n as [|n IH]; intros l; cbn [groups9]; [reflexivity|].
  rewrite app_length, be_enc_length, IH. lia.
Qed.

Lemma firstn_vals {n} l : digit_vals l -> digit_vals (firstn n l).
Proof. unfold digit_vals. intros H. rewrite <- (firstn_skipn n l) in H. apply Forall_app in H as [H _]. exact H. Qed.
Lemma skipn_vals {n} l : digit_vals l -> digit_vals (skipn n l).
Proof. unfold digit_vals. intros H. rewrite <- (firstn_skipn n l) in H. apply Forall_app in H as [_ H]. exact H. Qed.

Lemma pow10_9 : 2 * 10 ^ 9 <= 256 ^ 4. Proof. vm_compute. discriminate. Qed.

Lemma group_val_bound g : digit_vals g -> (List.length g <= 9)%nat -> 0 <= digits_val g /\ 2 * digits_val g < 256 ^ 4.
Proof.
  intros Hg Hl. pose proof (digits_val_bound g Hg) as Hb. pose proof pow10_9.
  assert (10 ^ len g <= 10 ^ 9) by (apply Z.pow_le_mono_r; unfold len; lia). lia.
Qed.

Lemma groups9_msb n l : digit_vals l -> msb_clear (groups9 n l).
Proof.
  intros Hl. destruct n as [|n]; [exact I|]. cbn [groups9]. apply msb_clear_app.
  - destruct (group_val_bound (firstn 9 l)) as [H0 H1]; [apply firstn_vals; exact Hl | rewrite firstn_length; lia|].
    apply be_enc_msb; [exact H0 | exact H1].
  - intros E. apply (f_equal (@List.length Z)) in E. rewrite be_enc_length in E. discriminate.
Qed.

(* ---------- bytes: sign bit and complement ---------- *)
Definition byte_sign_facts (r0 : Z) : bool :=
  negb (band (Z.lxor r0 128) 128 =? 0) &&
  (Z.lxor (Z.lxor r0 128) 128 =? r0) &&
  (band (Z.lxor (Z.lxor r0 128) 255) 128 =? 0) &&
  (Z.lxor (Z.lxor (Z.lxor (Z.lxor r0 128) 255) 128) 255 =? r0).

Lemma byte_sign_all : forallb byte_sign_facts (map Z.of_nat (seq 0 128)) = true.
Proof. vm_compute. reflexivity. Qed.

Lemma byte_sign r0 : 0 <= r0 < 128 -> byte_sign_facts r0 = true.
Proof.
  intros H. pose proof byte_sign_all as A. rewrite forallb_forall in A. apply A.
  apply in_map_iff. exists (Z.to_nat r0). split; [lia|]. apply in_seq. lia.
Qed.

Lemma lxor_255_invol x : Z.lxor (Z.lxor x 255) 255 = x.
Proof. rewrite Z.lxor_assoc, Z.lxor_nilpotent, Z.lxor_0_r. reflexivity. Qed.

Lemma map_lxor_invol l : map (fun b => Z.lxor b 255) (map (fun b => Z.lxor b 255) l) = l.
Proof. induction l as [|x l IH]; cbn [map]; [reflexivity|]. rewrite lxor_255_invol, IH. reflexivity. Qed.

(* what the decoder recovers from the stored bytes: the raw digits bytes and the sign *)
Lemma sign_decode r0 rr (neg : bool) :
  0 <= r0 < 128 ->
  let enc := if neg then map (fun b => Z.lxor b 255) (Z.lxor r0 128 :: rr) else Z.lxor r0 128 :: rr in
  match enc with
  | [] => False
  | b0 :: rest =>
    (band b0 128 =? 0) = neg /\
    (let d1 := Z.lxor b0 128 :: rest in if neg then map (fun b => Z.lxor b 255) d1 else d1) = r0 :: rr
  end.
Proof.
  intros H. pose proof (byte_sign r0 H) as F. unfold byte_sign_facts in F.
  repeat (apply andb_true_iff in F as [F ?]). apply negb_true_iff in F.
  repeat match goal with X : (_ =? _) = true |- _ => apply Z.eqb_eq in X end.
  destruct neg; cbn [map].
  - split.
    + apply Z.eqb_eq. assumption.
    + cbn [map]. f_equal; [assumption | apply map_lxor_invol].
  - split; [exact F | f_equal; assumption].
Qed.

(* ---------- the integer-part state: text so far, "a digit has been written" ---------- *)
Definition nonempty {A} (l : list A) : bool := match l with [] => false | _ => true end.

Definition st (sign : bytes) (c : list Z) (txt : bytes) (flag : bool) : Prop :=
  txt = sign ++ digit_chars (strip0 c) /\ flag = nonempty (strip0 c).

Lemma pow10_9_lt g : digit_vals g -> List.length g = 9%nat -> 0 <= digits_val g < 10 ^ Z.of_nat 9.
Proof. intros Hg Hl. pose proof (digits_val_bound g Hg) as Hb. unfold len in Hb. rewrite Hl in Hb. exact Hb. Qed.

Lemma st_step sign c g txt flag :
  st sign c txt flag -> digit_vals g -> (flag = true -> List.length g = 9%nat) ->
  st sign (c ++ g)
     (if flag then txt ++ fmt_0d 9 (digits_val g) else if 0 <? digits_val g then txt ++ fmt_d (digits_val g) else txt)
     (if flag then true else 0 <? digits_val g).
Proof.
  intros [Ht Hf] Hg Hl. unfold st. destruct flag.
  - specialize (Hl eq_refl).
    assert (Hne : strip0 c <> []) by (destruct (strip0 c); [discriminate | discriminate]).
    rewrite strip0_app_nonempty by exact Hne.
    rewrite fmt_0d_pad0 by (try lia; apply pow10_9_lt; assumption).
    rewrite <- Hl at 1. rewrite pad0_digits_val by exact Hg.
    split.
    + rewrite Ht, digit_chars_app, <- app_assoc. reflexivity.
    + destruct (strip0 c); [contradiction Hne; reflexivity | reflexivity].
  - assert (Hnil : strip0 c = []) by (destruct (strip0 c); [reflexivity | discriminate]).
    rewrite strip0_app_zero by exact Hnil. rewrite Hnil in Ht. cbn [digit_chars map] in Ht. rewrite app_nil_r in Ht.
    pose proof (strip0_vals g Hg) as Hsv.
    destruct (strip0_decomp g) as (k & _ & [Hz|(x & t & Hx & Hx0)]).
    + rewrite (strip0_nil_val g Hz). cbn [Z.ltb Z.compare]. rewrite Hz. cbn [digit_chars map]. rewrite app_nil_r.
      split; [exact Ht | reflexivity].
    + rewrite digits_val_strip, Hx. rewrite Hx in Hsv.
      destruct (digs_digits_val x t Hsv Hx0) as [Hpos Hdigs].
      destruct (Z.ltb_spec 0 (digits_val (x :: t))); [|lia].
      unfold fmt_d, digs_Z. destruct (Z.ltb_spec (digits_val (x :: t)) 0); [lia|].
      rewrite Hdigs, Ht. split; reflexivity.
Qed.

Lemma dec_int_groups_S k d pos txt flag :
  dec_int_groups (S k) d pos txt flag =
  (do v <- be_at d pos 4;
   dec_int_groups k d (pos + 4)
     (if flag then txt ++ fmt_0d 9 v else if 0 <? v then txt ++ fmt_d v else txt)
     (if flag then true else 0 <? v)).
Proof.
  cbn [dec_int_groups]. destruct (be_at d pos 4) as [v| |]; cbn [bind]; try reflexivity.
  destruct flag; [reflexivity|]. destruct (0 <? v); reflexivity.
Qed.

Lemma firstn_plus {A} a b : forall (l : list A), firstn (a + b) l = firstn a l ++ firstn b (skipn a l).
Proof.
  induction a as [|a IH]; intros l; [reflexivity|].
  destruct l as [|x l]; cbn [Nat.add firstn skipn app]; [destruct b; reflexivity|]. rewrite IH. reflexivity.
Qed.

Lemma be_at_mid A X T n v :
  X = be_enc n v -> 0 <= v < 256 ^ Z.of_nat n -> be_at (A ++ X ++ T) (List.length A) n = Ok v.
Proof.
  intros -> Hv. unfold be_at. rewrite (slice_app_mid A _ T) by (rewrite be_enc_length; reflexivity).
  cbn [bind]. rewrite be_dec_enc by exact Hv. reflexivity.
Qed.

Lemma int_groups_ok sign R : forall n l A T c txt flag,
  R = A ++ groups9 n l ++ T -> digit_vals l -> (9 * n <= List.length l)%nat -> st sign c txt flag ->
  exists txt' flag',
    dec_int_groups n R (List.length A) txt flag = Ok (txt', flag', (List.length A + 4 * n)%nat) /\
    st sign (c ++ firstn (9 * n) l) txt' flag'.
Proof.
  induction n as [|n IH]; intros l A T c txt flag HR Hl Hlen Hst.
  - exists txt, flag. cbn [dec_int_groups Nat.mul firstn]. rewrite Nat.add_0_r, app_nil_r. split; [reflexivity | exact Hst].
  - cbn [groups9] in HR. rewrite <- app_assoc in HR.
    set (g := firstn 9 l) in *.
    assert (Hg : digit_vals g) by (apply firstn_vals; exact Hl).
    assert (Hgl : List.length g = 9%nat) by (unfold g; rewrite firstn_length; lia).
    destruct (group_val_bound g Hg ltac:(lia)) as [Hv0 Hv1].
    assert (Hbe : be_at R (List.length A) 4 = Ok (digits_val g)).
    { rewrite HR. apply be_at_mid; [reflexivity | change (Z.of_nat 4) with 4; lia]. }
    pose proof (st_step sign c g txt flag Hst Hg (fun _ => Hgl)) as Hst'.
    match type of Hst' with st _ _ ?t ?f =>
      destruct (IH (skipn 9 l) (A ++ be_enc 4 (digits_val g)) T (c ++ g) t f) as (txt' & flag' & Hrun & Hfin); try exact Hst'
    end.
    + rewrite HR, <- app_assoc. reflexivity.
    + apply skipn_vals. exact Hl.
    + rewrite skipn_length. lia.
    + exists txt', flag'. rewrite dec_int_groups_S, Hbe. cbn [bind].
      rewrite app_length, be_enc_length in Hrun. rewrite Hrun. split.
      * f_equal. f_equal. lia.
      * replace (9 * S n)%nat with (9 + 9 * n)%nat by lia. rewrite firstn_plus. fold g. rewrite app_assoc. exact Hfin.
Qed.

Lemma frac_groups_ok R : forall n l A T txt,
  R = A ++ groups9 n l ++ T -> digit_vals l -> (9 * n <= List.length l)%nat ->
  dec_frac_groups n R (List.length A) txt = Ok (txt ++ digit_chars (firstn (9 * n) l), (List.length A + 4 * n)%nat).
Proof.
  induction n as [|n IH]; intros l A T txt HR Hl Hlen.
  - cbn [dec_frac_groups]. replace (9 * 0)%nat with 0%nat by lia.
    replace (List.length A + 4 * 0)%nat with (List.length A) by lia.
    cbn [firstn digit_chars map]. rewrite app_nil_r. reflexivity.
  - cbn [groups9] in HR. rewrite <- app_assoc in HR.
    set (g := firstn 9 l) in *.
    assert (Hg : digit_vals g) by (apply firstn_vals; exact Hl).
    assert (Hgl : List.length g = 9%nat) by (unfold g; rewrite firstn_length; lia).
    destruct (group_val_bound g Hg ltac:(lia)) as [Hv0 Hv1].
    assert (Hbe : be_at R (List.length A) 4 = Ok (digits_val g)).
    { rewrite HR. apply be_at_mid; [reflexivity | change (Z.of_nat 4) with 4; lia]. }
    cbn [dec_frac_groups]. rewrite Hbe. cbn [bind].
    replace (List.length A + 4)%nat with (List.length (A ++ be_enc 4 (digits_val g)))
      by (rewrite app_length, be_enc_length; reflexivity).
    rewrite (IH (skipn 9 l) (A ++ be_enc 4 (digits_val g)) T).
    + rewrite app_length, be_enc_length. f_equal. f_equal; [|lia].
      replace (9 * S n)%nat with (9 + 9 * n)%nat by lia. rewrite firstn_plus. fold g.
      rewrite digit_chars_app, <- app_assoc. f_equal. f_equal.
      rewrite fmt_0d_pad0 by (try lia; apply pow10_9_lt; assumption).
      rewrite <- Hgl at 1. apply pad0_digits_val. exact Hg.
    + rewrite HR, <- app_assoc. reflexivity.
    + apply skipn_vals. exact Hl.
    + rewrite skipn_length. lia.
Qed.

(* ---------- the decoder, sign taken off ---------- *)
Definition decode_core (d txt0 : bytes) (intg0 intg0x frac0 frac0x scale l : Z) : res (option bytes * Z) :=
  do nb <- dig2 intg0x;
  do v0 <- be_at d 0 (Z.to_nat nb);
  let '(txt1, flag1) := if 0 <? v0 then (txt0 ++ fmt_d v0, true) else (txt0, false) in
  do (txt2, flag2, p2) <- dec_int_groups (Z.to_nat intg0) d (Z.to_nat nb) txt1 flag1;
  let txt3 := if flag2 then txt2 else txt2 ++ [48] in
  if scale =? 0 then Ok (Some txt3, l)
  else
    let txt4 := txt3 ++ [46] in
    do (txt5, p5) <- dec_frac_groups (Z.to_nat frac0) d p2 txt4;
    do fb <- dig2 frac0x;
    if fb =? 0 then Ok (Some txt5, l)
    else do v <- be_at d p5 (Z.to_nat fb); Ok (Some (txt5 ++ fmt_0d (Z.to_nat frac0x) v), l).

Lemma decode_decimal_unfold data pos meta :
  decode_decimal data pos meta =
  (do (intg0, intg0x, frac0, frac0x, scale, l) <- decimal_size meta;
   do raw <- take data pos l;
   match raw with
   | [] => Panic
   | b0 :: rest =>
     let isneg := band b0 128 =? 0 in
     let d1 := Z.lxor b0 128 :: rest in
     decode_core (if isneg then map (fun b => Z.lxor b 255) d1 else d1) (if isneg then [45] else [])
                 intg0 intg0x frac0 frac0x scale l
   end).
Proof. reflexivity. Qed.

Lemma meta_split p s : 0 <= s < 256 -> shr (p * 256 + s) 8 = p /\ band (p * 256 + s) 255 = s.
Proof.
  intros Hs. split.
  - unfold shr. change (2 ^ 8) with 256. rewrite Z.div_add_l by lia. rewrite Z.div_small by lia. lia.
  - unfold band. change 255 with (Z.ones 8). rewrite Z.land_ones by lia. change (2 ^ 8) with 256.
    rewrite Z.add_comm, Z.mod_add by lia. apply Z.mod_small. lia.
Qed.

Definition dec_len (p s : Z) : Z :=
  (p - s) / 9 * 4 + dig2bytes_spec ((p - s) mod 9) + s / 9 * 4 + dig2bytes_spec (s mod 9).

Lemma decimal_size_ok p s :
  1 <= p <= 65 -> 0 <= s <= 30 -> s <= p ->
  decimal_size (p * 256 + s) = Ok ((p - s) / 9, (p - s) mod 9, s / 9, s mod 9, s, dec_len p s).
Proof.
  intros Hp Hs Hsp. destruct (meta_split p s ltac:(lia)) as [E1 E2].
  unfold decimal_size. rewrite E1, E2. cbv zeta.
  rewrite !Z.quot_div_nonneg by lia.
  replace (p - s - (p - s) / 9 * 9) with ((p - s) mod 9) by (rewrite (Z.mod_eq (p - s) 9) by lia; ring).
  replace (s - s / 9 * 9) with (s mod 9) by (rewrite (Z.mod_eq s 9) by lia; ring).
  pose proof (Z.mod_pos_bound (p - s) 9 ltac:(lia)). pose proof (Z.mod_pos_bound s 9 ltac:(lia)).
  rewrite !dig2_ok by lia. reflexivity.
Qed.

(* ---------- sizes ---------- *)
Section Sizes.
Variables (p s : Z) (ip fp : list Z).
Hypothesis Hp : 1 <= p <= 65.
Hypothesis Hs : 0 <= s <= 30.
Hypothesis Hsp : s <= p.

Let ix := (p - s) mod 9.
Let i0 := (p - s) / 9.
Let fx := s mod 9.
Let f0 := s / 9.

Lemma parts_range : 0 <= ix <= 8 /\ 0 <= i0 /\ 0 <= fx <= 8 /\ 0 <= f0 /\ p - s = 9 * i0 + ix /\ s = 9 * f0 + fx.
Proof.
  unfold ix, i0, fx, f0.
  pose proof (Z.mod_pos_bound (p - s) 9 ltac:(lia)). pose proof (Z.mod_pos_bound s 9 ltac:(lia)).
  pose proof (Z_div_mod_eq_full (p - s) 9). pose proof (Z_div_mod_eq_full s 9).
  assert (0 <= (p - s) / 9) by (apply Z.div_pos; lia). assert (0 <= s / 9) by (apply Z.div_pos; lia).
  lia.
Qed.

Lemma enc_raw_len : len (enc_decimal_raw p s ip fp) = dec_len p s.
Proof.
  destruct parts_range as (Hix & Hi0 & Hfx & Hf0 & _).
  pose proof (dig2_spec_range ix Hix). pose proof (dig2_spec_range fx Hfx).
  unfold enc_decimal_raw, dec_len, len. fold ix i0 fx f0.
  rewrite !app_length, !be_enc_length, !groups9_length. lia.
Qed.

Lemma dec_len_pos : 0 < dec_len p s.
Proof.
  destruct parts_range as (Hix & Hi0 & Hfx & Hf0 & E1 & E2).
  pose proof (dig2_spec_range ix Hix) as R1. pose proof (dig2_spec_range fx Hfx) as R2.
  pose proof (dig2_zero_iff ix Hix) as Z1. pose proof (dig2_zero_iff fx Hfx) as Z2.
  unfold dec_len. fold ix i0 fx f0.
  destruct (Z.eq_dec (dig2bytes_spec ix) 0) as [A|A]; [|lia].
  destruct (Z.eq_dec (dig2bytes_spec fx) 0) as [B|B]; [|lia].
  apply Z1 in A. apply Z2 in B. lia.
Qed.
End Sizes.

Lemma enc_decimal_len p s neg ip fp : len (enc_decimal p s neg ip fp) = len (enc_decimal_raw p s ip fp).
Proof.
  unfold enc_decimal. destruct (enc_decimal_raw p s ip fp) as [|b0 r]; [reflexivity|].
  destruct neg; unfold len; cbn [List.length map]; rewrite ?map_length; reflexivity.
Qed.

(* ---------- the decoder on the raw digit bytes ---------- *)
Lemma digits_fit k g :
  0 <= k <= 8 -> digit_vals g -> len g = k -> 0 <= digits_val g < 256 ^ dig2bytes_spec k /\
  (2 * digits_val g < 256 ^ dig2bytes_spec k \/ k = 0).
Proof.
  intros Hk Hg Hl. pose proof (digits_val_bound g Hg) as Hb. rewrite Hl in Hb.
  destruct (dig2_capacity k Hk) as [C|C].
  - split; [lia | left; lia].
  - rewrite C in *. change (10 ^ 0) with 1 in Hb. change (256 ^ dig2bytes_spec 0) with 1. split; [lia | right; reflexivity].
Qed.

Lemma let_pair_if {A B : Type} (c : bool) (x y : A) (f : A -> bool -> B) :
  (let '(a, b) := (if c return (A * bool)%type then (x, true) else (y, false)) in f a b) = f (if c then x else y) c.
Proof. destruct c; reflexivity. Qed.

Lemma core_ok p s (sign : bytes) ip fp L :
  1 <= p <= 65 -> 0 <= s <= 30 -> s <= p ->
  digit_vals ip -> digit_vals fp -> len ip = p - s -> len fp = s ->
  decode_core (enc_decimal_raw p s ip fp) sign
              ((p - s) / 9) ((p - s) mod 9) (s / 9) (s mod 9) s L
  = Ok (Some (sign ++ int_text ip ++ frac_text fp), L).
Proof.
  intros Hp Hs Hsp Hip Hfp Lip Lfp.
  destruct (parts_range p s Hs Hsp) as (Hix & Hi0 & Hfx & Hf0 & E1 & E2).
  set (ix := (p - s) mod 9) in *. set (i0 := (p - s) / 9) in *.
  set (fx := s mod 9) in *. set (f0 := s / 9) in *.
  set (g0 := firstn (Z.to_nat ix) ip). set (gi := skipn (Z.to_nat ix) ip).
  set (gl := skipn (Z.to_nat (f0 * 9)) fp).
  assert (Lip' : List.length ip = (Z.to_nat ix + 9 * Z.to_nat i0)%nat) by (unfold len in Lip; lia).
  assert (Lfp' : List.length fp = (9 * Z.to_nat f0 + Z.to_nat fx)%nat) by (unfold len in Lfp; lia).
  assert (Lg0 : List.length g0 = Z.to_nat ix) by (unfold g0; rewrite firstn_length; lia).
  assert (Lgi : List.length gi = (9 * Z.to_nat i0)%nat) by (unfold gi; rewrite skipn_length; lia).
  assert (Lgl : List.length gl = Z.to_nat fx) by (unfold gl; rewrite skipn_length; lia).
  assert (Hg0 : digit_vals g0) by (apply firstn_vals; exact Hip).
  assert (Hgi : digit_vals gi) by (apply skipn_vals; exact Hip).
  assert (Hgl : digit_vals gl) by (apply skipn_vals; exact Hfp).
  set (nb := dig2bytes_spec ix). set (fb := dig2bytes_spec fx).
  pose proof (dig2_spec_range ix Hix) as Rnb. pose proof (dig2_spec_range fx Hfx) as Rfb. fold nb in Rnb. fold fb in Rfb.
  set (Hh := be_enc (Z.to_nat nb) (digits_val g0)).
  set (GI := groups9 (Z.to_nat i0) gi). set (GF := groups9 (Z.to_nat f0) fp).
  set (Lt := be_enc (Z.to_nat fb) (digits_val gl)).
  assert (ER : enc_decimal_raw p s ip fp = Hh ++ GI ++ GF ++ Lt) by reflexivity.
  set (R := enc_decimal_raw p s ip fp) in *.
  destruct (digits_fit ix g0 Hix Hg0 ltac:(unfold len; lia)) as [Fg0 _]. fold nb in Fg0.
  destruct (digits_fit fx gl Hfx Hgl ltac:(unfold len; lia)) as [Fgl _]. fold fb in Fgl.
  unfold decode_core.
  rewrite (dig2_ok ix Hix). cbn [bind]. fold nb.
  (* leftover integer digits *)
  assert (Hv0 : be_at R 0 (Z.to_nat nb) = Ok (digits_val g0)).
  { rewrite ER. apply (be_at_mid [] Hh _ (Z.to_nat nb) (digits_val g0)); [reflexivity|]. rewrite Z2Nat.id by lia. exact Fg0. }
  rewrite Hv0. cbn [bind]. rewrite let_pair_if.
  assert (S0 : st sign [] sign false) by (split; [cbn [strip0 digit_chars map]; rewrite app_nil_r; reflexivity | reflexivity]).
  pose proof (st_step sign [] g0 sign false S0 Hg0 ltac:(discriminate)) as S1. cbn [app] in S1.
  (* full integer groups *)
  destruct (int_groups_ok sign R (Z.to_nat i0) gi Hh (GF ++ Lt) g0 _ _ ER Hgi ltac:(lia) S1)
    as (txt2 & flag2 & Hrun & S2).
  unfold Hh at 1 in Hrun. rewrite be_enc_length in Hrun. unfold bytes in Hrun |- *. rewrite Hrun. cbn [bind].
  assert (Eip : g0 ++ firstn (9 * Z.to_nat i0) gi = ip).
  { rewrite <- Lgi, firstn_all. unfold g0, gi. apply firstn_skipn. }
  rewrite Eip in S2. destruct S2 as [Et2 Ef2].
  unfold bytes in *.
  assert (Et3 : (if flag2 then txt2 else txt2 ++ [48]) = sign ++ int_text ip).
  { unfold int_text. rewrite Ef2, Et2. destruct (strip0 ip); cbn [nonempty digit_chars map]; [rewrite app_nil_r|]; reflexivity. }
  rewrite Et3.
  destruct (Z.eqb_spec s 0) as [Hs0|Hs0].
  - (* no fraction *)
    assert (fp = []) by (destruct fp; [reflexivity | unfold len in Lfp; cbn [List.length] in Lfp; lia]).
    subst fp. cbn [frac_text]. rewrite app_nil_r. reflexivity.
  - cbv zeta.
    assert (Hfpne : frac_text fp = 46 :: digit_chars fp).
    { destruct fp; [unfold len in Lfp; cbn [List.length] in Lfp; lia | reflexivity]. }
    assert (LA : (List.length Hh + 4 * Z.to_nat i0)%nat = List.length (Hh ++ GI))
      by (unfold GI; rewrite app_length, groups9_length; reflexivity).
    rewrite LA.
    rewrite (frac_groups_ok R (Z.to_nat f0) fp (Hh ++ GI) Lt);
      [| rewrite ER, <- app_assoc; reflexivity | exact Hfp | lia].
    cbn [bind]. rewrite (dig2_ok fx Hfx). cbn [bind]. fold fb.
    assert (Egl : gl = skipn (9 * Z.to_nat f0) fp).
    { unfold gl. f_equal. rewrite Z2Nat.inj_mul by lia. change (Z.to_nat 9) with 9%nat. lia. }
    destruct (Z.eqb_spec fb 0) as [Hfb|Hfb].
    + apply (dig2_zero_iff fx Hfx) in Hfb.
      assert (Efp : firstn (9 * Z.to_nat f0) fp = fp).
      { replace (9 * Z.to_nat f0)%nat with (List.length fp) by lia. apply firstn_all. }
      rewrite Efp, Hfpne. rewrite <- !app_assoc. reflexivity.
    + assert (Hfx0 : fx <> 0) by (intro E0; apply Hfb; apply (dig2_zero_iff fx Hfx); exact E0).
      assert (LB : (List.length (Hh ++ GI) + 4 * Z.to_nat f0)%nat = List.length (Hh ++ GI ++ GF)).
      { unfold GF. rewrite !app_length, groups9_length. lia. }
      rewrite LB.
      assert (Hvl : be_at R (List.length (Hh ++ GI ++ GF)) (Z.to_nat fb) = Ok (digits_val gl)).
      { rewrite ER. replace (Hh ++ GI ++ GF ++ Lt) with ((Hh ++ GI ++ GF) ++ Lt ++ []) by (rewrite app_nil_r, <- !app_assoc; reflexivity).
        apply be_at_mid; [reflexivity|]. rewrite Z2Nat.id by lia. exact Fgl. }
      rewrite Hvl. cbn [bind].
      pose proof (digits_val_bound gl Hgl) as Bgl. unfold len in Bgl. rewrite Lgl in Bgl.
      rewrite fmt_0d_pad0 by (try lia; exact Bgl).
      rewrite <- Lgl at 1. rewrite pad0_digits_val by exact Hgl.
      rewrite Egl, Hfpne. rewrite <- !app_assoc. cbn [app]. do 3 f_equal.
      rewrite <- digit_chars_app, firstn_skipn. reflexivity.
Qed.

(* the stored first byte has its top bit clear before the sign is applied *)
Lemma raw_msb p s ip fp :
  0 <= s <= 30 -> s <= p -> digit_vals ip -> digit_vals fp -> len ip = p - s -> len fp = s ->
  msb_clear (enc_decimal_raw p s ip fp).
Proof.
  intros Hs Hsp Hip Hfp Lip Lfp.
  destruct (parts_range p s Hs Hsp) as (Hix & Hi0 & Hfx & Hf0 & E1 & E2).
  unfold enc_decimal_raw.
  set (ix := (p - s) mod 9) in *. set (fx := s mod 9) in *. set (f0 := s / 9) in *. set (i0 := (p - s) / 9) in *.
  assert (Hpart : forall k g, 0 <= k <= 8 -> digit_vals g -> len g = k ->
                  msb_clear (be_enc (Z.to_nat (dig2bytes_spec k)) (digits_val g))).
  { intros k g Hk Hg Lg. destruct (digits_fit k g Hk Hg Lg) as [[H0 _] [H2|H2]].
    - apply be_enc_msb; [exact H0|]. pose proof (dig2_spec_range k Hk). rewrite Z2Nat.id by lia. exact H2.
    - rewrite H2. exact I. }
  apply msb_clear_app.
  - apply (Hpart ix); [exact Hix | apply firstn_vals; exact Hip |]. unfold len in *. rewrite firstn_length. lia.
  - intros _. apply msb_clear_app; [apply groups9_msb; apply skipn_vals; exact Hip|].
    intros _. apply msb_clear_app; [apply groups9_msb; exact Hfp|].
    intros _. apply (Hpart fx); [exact Hfx | apply skipn_vals; exact Hfp |]. unfold len in *. rewrite skipn_length. lia.
Qed.

Lemma len_app_local {A} (a b : list A) : len (a ++ b) = len a + len b.
Proof. unfold len. rewrite app_length. lia. Qed.

Ltac wfprops :=
  repeat match goal with
  | H : _ && _ = true |- _ => apply andb_true_iff in H; destruct H
  | H : (_ <=? _) = true |- _ => apply Z.leb_le in H
  | H : (_ <? _) = true |- _ => apply Z.ltb_lt in H
  | H : (_ =? _) = true |- _ => apply Z.eqb_eq in H
  end.

Theorem decimal_decode_ok p s neg ip fp pre rest :
  wf_type (TNewDecimal p s) = true ->
  wf_value (TNewDecimal p s) false (VDecimal neg ip fp) = true ->
  decode_decimal (pre ++ enc_decimal p s neg ip fp ++ rest) (List.length pre) (p * 256 + s)
  = Ok (Some (text_decimal neg ip fp), len (enc_decimal p s neg ip fp)).
Proof.
  intros Hty Hval. cbn [wf_type wf_value] in Hty, Hval. unfold wf_decimalb in Hval. wfprops.
  assert (Hip : digit_vals ip) by (apply digitsb_vals; assumption).
  assert (Hfp : digit_vals fp) by (apply digitsb_vals; assumption).
  assert (Hp : 1 <= p <= 65) by lia. assert (Hs : 0 <= s <= 30) by lia. assert (Hsp : s <= p) by lia.
  assert (Lip : len ip = p - s) by assumption. assert (Lfp : len fp = s) by assumption.
  pose proof (enc_raw_len p s ip fp Hs Hsp) as Lraw.
  pose proof (dec_len_pos p s Hp Hs Hsp) as Lpos.
  pose proof (enc_decimal_len p s neg ip fp) as Lenc.
  pose proof (raw_msb p s ip fp Hs Hsp Hip Hfp Lip Lfp) as Hmsb.
  rewrite decode_decimal_unfold, (decimal_size_ok p s Hp Hs Hsp). cbn [bind].
  set (enc := enc_decimal p s neg ip fp) in *.
  assert (Htake : take (pre ++ enc ++ rest) (List.length pre) (dec_len p s) = Ok enc).
  { unfold take. rewrite !len_app_local.
    destruct (Z.leb_spec 0 (dec_len p s)); [|lia].
    destruct (Z.leb_spec (Z.of_nat (List.length pre) + dec_len p s) (len pre + (len enc + len rest))) as [_|Hbad];
      [|unfold len in *; lia].
    cbn [andb]. apply slice_app_mid. unfold len in *. lia. }
  rewrite Htake. cbn [bind]. rewrite Lenc, Lraw.
  unfold enc, enc_decimal.
  destruct (enc_decimal_raw p s ip fp) as [|r0 rr] eqn:ER.
  - unfold len in Lraw. cbn [List.length] in Lraw. lia.
  - cbn [msb_clear] in Hmsb.
    pose proof (sign_decode r0 rr neg Hmsb) as Hsd. cbv zeta in Hsd. unfold bytes in *.
    destruct (if neg then map (fun b => Z.lxor b 255) (Z.lxor r0 128 :: rr) else Z.lxor r0 128 :: rr) as [|b0 rest'] eqn:Eenc;
      [contradiction|].
    destruct Hsd as [Hneg Hd]. cbv zeta. rewrite Hneg, Hd, <- ER.
    rewrite text_decimal_eq. apply core_ok; assumption.
Qed.

(* the length half: cellLength agrees with the encoder's size *)
Theorem decimal_length_ok p s neg ip fp pre rest :
  wf_type (TNewDecimal p s) = true ->
  cell_length (pre ++ enc_decimal p s neg ip fp ++ rest) (List.length pre) 246 (p * 256 + s)
  = Ok (len (enc_decimal p s neg ip fp)) /\ 0 < len (enc_decimal p s neg ip fp).
Proof.
  intros Hty. cbn [wf_type] in Hty. wfprops.
  assert (Hp : 1 <= p <= 65) by lia. assert (Hs : 0 <= s <= 30) by lia. assert (Hsp : s <= p) by lia.
  rewrite enc_decimal_len, (enc_raw_len p s ip fp Hs Hsp).
  split; [|apply dec_len_pos; assumption].
  change (cell_length (pre ++ enc_decimal p s neg ip fp ++ rest) (List.length pre) 246 (p * 256 + s))
    with (do (_, _, _, _, _, l) <- decimal_size (p * 256 + s); Ok l).
  rewrite (decimal_size_ok p s Hp Hs Hsp). reflexivity.
Qed.
