(* C10 (YEAR, BIT, ENUM, SET, FLOAT/DOUBLE) and C13 (strings and binaries). *)
From Coq Require Import String.
From GB Require Import Base.Prelude Base.BytesLemmas Base.DecText Base.GoFmt Model.Cell Spec.Values Proofs.CellCommon Proofs.CellInt.
From GBGen Require Import Consts.
From Coq Require Import ZifyBool.
Open Scope Z_scope.
Ltac Zify.zify_post_hook ::= Z.div_mod_to_equations.

Section Simple.
Variable ffmt : Z -> Z -> bytes.
Variable tz : Z -> Z.
Variable efmt : Z -> bytes.
Variable jsonp : bytes -> res bytes.
Notation cell_ok := (cell_ok ffmt tz efmt jsonp).

Lemma digs_Z_nonneg z : 0 <= z -> digs_Z z = digs z.
Proof. intros H. unfold digs_Z. destruct (z <? 0) eqn:E; [apply Z.ltb_lt in E; lia | reflexivity]. Qed.

Theorem int_ok ty uns z : is_int_type ty = true -> wf_value ty uns (VInt z) = true -> cell_ok ty uns (VInt z).
Proof.
  intros Hty Hwf pre rest.
  destruct (int_text ffmt tz jsonp ty uns z pre rest Hty Hwf) as [H1 H2].
  assert (L : len (enc_cell ty (VInt z)) = int_width ty).
  { destruct ty; try discriminate; cbn [enc_cell]; rewrite len_le_enc; reflexivity. }
  rewrite L. split; [|exact H2]. rewrite H1. destruct ty; try discriminate; reflexivity.
Qed.

Theorem year_ok uns b : wf_value TYear uns (VYear b) = true -> cell_ok TYear uns (VYear b).
Proof.
  intros Hwf pre rest. cbn [wf_value] in Hwf. cbn [enc_cell code_of meta_of text].
  split; [|reflexivity].
  change (cell_bytes ffmt tz jsonp ?d ?p 13 0 uns) with
    (do b <- at_ d p; Ok (Some (if b =? 0 then [48; 48; 48; 48] else fmt_d (b + 1900)), 1)).
  cbn [app]. rewrite at_mid. cbn [bind]. unfold fmt_d.
  destruct (b =? 0) eqn:E; [reflexivity|].
  rewrite digs_Z_nonneg by lia. do 4 f_equal. lia.
Qed.

Theorem float_ok uns b : wf_value TFloat uns (VFloat b) = true -> cell_ok TFloat uns (VFloat b).
Proof.
  intros Hwf pre rest. cbn [wf_value] in Hwf. cbn [enc_cell code_of meta_of text].
  rewrite len_le_enc. split; [|reflexivity].
  change (cell_bytes ffmt tz jsonp ?d ?p 4 4 uns) with (do v <- le_at d p 4; Ok (Some (ffmt 32 v), 4)).
  rewrite le_at_mid by (rewrite le_enc_length; reflexivity). cbn [bind].
  rewrite le_dec_enc by (change (256 ^ Z.of_nat 4) with (2 ^ 32); lia). reflexivity.
Qed.

Theorem double_ok uns b : wf_value TDouble uns (VFloat b) = true -> cell_ok TDouble uns (VFloat b).
Proof.
  intros Hwf pre rest. cbn [wf_value] in Hwf. cbn [enc_cell code_of meta_of text].
  rewrite len_le_enc. split; [|reflexivity].
  change (cell_bytes ffmt tz jsonp ?d ?p 5 8 uns) with (do v <- le_at d p 8; Ok (Some (ffmt 64 v), 8)).
  rewrite le_at_mid by (rewrite le_enc_length; reflexivity). cbn [bind].
  rewrite le_dec_enc by (change (256 ^ Z.of_nat 8) with (2 ^ 64); lia). reflexivity.
Qed.

Lemma bit_nbits n : 1 <= n <= 64 ->
  u16 (u16 (shr ((n / 8) * 256 + n mod 8) 8 * 8) + band ((n / 8) * 256 + n mod 8) 255) = n.
Proof.
  intros H. unfold shr, band, u16. change (2 ^ 8) with 256.
  rewrite land255 by lia.
  replace (((n / 8) * 256 + n mod 8) / 256) with (n / 8) by lia.
  replace (((n / 8) * 256 + n mod 8) mod 256) with (n mod 8) by lia.
  rewrite (Z.mod_small (n / 8 * 8)) by lia. rewrite Z.mod_small by lia. lia.
Qed.

Theorem bit_ok n uns bs : wf_type (TBit n) = true -> wf_value (TBit n) uns (VBits bs) = true ->
  cell_ok (TBit n) uns (VBits bs).
Proof.
  intros Ht Hwf pre rest. cbn [wf_type wf_value] in *. cbn [enc_cell code_of meta_of text].
  assert (Hn : 1 <= n <= 64) by lia.
  assert (Hl : len bs = (n + 7) / 8) by lia.
  split.
  - change (cell_bytes ffmt tz jsonp ?d ?p 16 ?m uns) with
      (let nbits := u16 (u16 (shr m 8 * 8) + band m 255) in
       let l := (nbits + 7) / 8 in do s <- take d p l; Ok (Some s, l)).
    cbv zeta. rewrite bit_nbits by auto. rewrite take_mid by auto. cbn [bind]. rewrite Hl. reflexivity.
  - change (cell_length ?d ?p 16 ?m) with
      (let nbits := u16 (u16 (shr m 8 * 8) + band m 255) in Ok ((nbits + 7) / 8)).
    cbv zeta. rewrite bit_nbits by auto. rewrite Hl. reflexivity.
Qed.

Lemma enum_meta w : 1 <= w <= 8 -> shr (247 * 256 + w) 8 = 247 /\ band (247 * 256 + w) 255 = w.
Proof. intros H. unfold shr, band. change (2 ^ 8) with 256. rewrite land255 by lia. lia. Qed.
Lemma set_meta w : 1 <= w <= 8 -> shr (248 * 256 + w) 8 = 248 /\ band (248 * 256 + w) 255 = w.
Proof. intros H. unfold shr, band. change (2 ^ 8) with 256. rewrite land255 by lia. lia. Qed.

Lemma decode_enum_ok w i pre rest :
  1 <= w <= 2 -> 0 <= i < 256 ^ w ->
  decode_enum (pre ++ le_enc (Z.to_nat w) i ++ rest) (length pre) (247 * 256 + w) = Ok (Some (digs i), w).
Proof.
  intros Hw Hi. unfold decode_enum. destruct (enum_meta w ltac:(lia)) as [_ ->].
  assert (w = 1 \/ w = 2) as [-> | ->] by lia.
  - change (1 =? 1) with true. cbv iota.
    replace (le_enc (Z.to_nat 1) i) with [i mod 256] by reflexivity. cbn [app].
    rewrite at_mid. cbn [bind]. unfold fmt_d. change (256 ^ 1) with 256 in Hi.
    rewrite Z.mod_small by lia. rewrite digs_Z_nonneg by lia. reflexivity.
  - change (2 =? 1) with false. change (2 =? 2) with true. cbv iota.
    rewrite le_at_mid by (rewrite le_enc_length; reflexivity). cbn [bind].
    rewrite le_dec_enc by (change (256 ^ Z.of_nat (Z.to_nat 2)) with (256 ^ 2); lia).
    unfold fmt_d. rewrite digs_Z_nonneg by lia. reflexivity.
Qed.

Theorem enum_ok w bare uns i : wf_type (TEnum w bare) = true -> wf_value (TEnum w bare) uns (VEnum i) = true ->
  cell_ok (TEnum w bare) uns (VEnum i).
Proof.
  intros Ht Hwf pre rest. cbn [wf_type wf_value] in *. cbn [enc_cell code_of meta_of text].
  assert (Hw : 1 <= w <= 2) by lia. assert (Hi : 0 <= i < 256 ^ w) by lia.
  rewrite len_le_enc, Z2Nat.id by lia.
  destruct (enum_meta w ltac:(lia)) as [M1 M2].
  destruct bare.
  - split.
    + change (cell_bytes ffmt tz jsonp ?d ?p 247 ?m uns) with (decode_enum d p m).
      apply decode_enum_ok; auto.
    + change (cell_length ?d ?p 247 ?m) with (Ok (band m 255) : res Z). rewrite M2. reflexivity.
  - split.
    + change (cell_bytes ffmt tz jsonp ?d ?p 254 ?m uns) with
        (let t := shr m 8 in
         if t =? K_TypeEnum then decode_enum d p m
         else if t =? K_TypeSet then
           let l := band m 255 in do s <- take d p l; Ok (Some (fmt_d (u64 (le_dec s))), l)
         else decode_lenpfx d p (string_max m >? 255)).
      cbv zeta. rewrite M1. change (247 =? K_TypeEnum) with true. cbv iota.
      apply decode_enum_ok; auto.
    + change (cell_length ?d ?p 254 ?m) with
        (let t := shr m 8 in
         if (t =? K_TypeEnum) || (t =? K_TypeSet) then Ok (band m 255)
         else if string_max m >? 255 then do l <- le_at d p 2; Ok (l + 2)
         else do l <- at_ d p; Ok (l + 1)).
      cbv zeta. rewrite M1, M2. reflexivity.
Qed.

Theorem set_ok w bare uns m : wf_type (TSet w bare) = true -> wf_value (TSet w bare) uns (VSet m) = true ->
  cell_ok (TSet w bare) uns (VSet m).
Proof.
  intros Ht Hwf pre rest. cbn [wf_type wf_value] in *. cbn [enc_cell code_of meta_of text].
  assert (Hw : 1 <= w <= 8) by lia. assert (Hm : 0 <= m < 256 ^ w) by lia.
  rewrite len_le_enc, Z2Nat.id by lia.
  destruct (set_meta w ltac:(lia)) as [M1 M2].
  assert (Hl : w = len (le_enc (Z.to_nat w) m)) by (rewrite len_le_enc; lia).
  destruct bare.
  - split.
    + change (cell_bytes ffmt tz jsonp ?d ?p 248 ?mm uns) with
        (let l := band mm 255 in do s <- take d p l; Ok (Some s, l)).
      cbv zeta. rewrite M2. rewrite take_mid by auto. reflexivity.
    + change (cell_length ?d ?p 248 ?mm) with (Ok (band mm 255) : res Z). rewrite M2. reflexivity.
  - split.
    + change (cell_bytes ffmt tz jsonp ?d ?p 254 ?mm uns) with
        (let t := shr mm 8 in
         if t =? K_TypeEnum then decode_enum d p mm
         else if t =? K_TypeSet then
           let l := band mm 255 in do s <- take d p l; Ok (Some (fmt_d (u64 (le_dec s))), l)
         else decode_lenpfx d p (string_max mm >? 255)).
      cbv zeta. rewrite M1. change (248 =? K_TypeEnum) with false. change (248 =? K_TypeSet) with true. cbv iota.
      rewrite M2. rewrite take_mid by auto. cbn [bind].
      rewrite le_dec_enc by (rewrite Z2Nat.id by lia; lia).
      assert (m < 2 ^ 64).
      { assert (256 ^ w <= 256 ^ 8) by (apply Z.pow_le_mono_r; lia). change (256 ^ 8) with (2 ^ 64) in *. lia. }
      unfold u64, fmt_d. change 18446744073709551616 with (2 ^ 64). rewrite Z.mod_small by lia.
      rewrite digs_Z_nonneg by lia. reflexivity.
    + change (cell_length ?d ?p 254 ?mm) with
        (let t := shr mm 8 in
         if (t =? K_TypeEnum) || (t =? K_TypeSet) then Ok (band mm 255)
         else if string_max mm >? 255 then do l <- le_at d p 2; Ok (l + 2)
         else do l <- at_ d p; Ok (l + 1)).
      cbv zeta. rewrite M1, M2. reflexivity.
Qed.

(* ---------- strings ---------- *)

Lemma decode_lenpfx_ok pre s rest (two : bool) :
  wf_bytes s -> len s < (if two then 65536 else 256) ->
  decode_lenpfx (pre ++ ((if two then le_enc 2 (len s) else [len s]) ++ s) ++ rest) (length pre) two
    = Ok (Some s, len s + (if two then 2 else 1)).
Proof.
  intros Hs Hl. unfold decode_lenpfx. pose proof (len_nonneg s). destruct two.
  - rewrite le_at_mid2 by (rewrite le_enc_length; reflexivity). cbn [bind].
    rewrite le_dec_enc by (change (256 ^ Z.of_nat 2) with 65536; lia).
    replace (length pre + 2)%nat with (length pre + length (le_enc 2 (len s)))%nat by (rewrite le_enc_length; reflexivity).
    rewrite take_mid2 by reflexivity. reflexivity.
  - rewrite at_mid2. cbn [bind].
    replace (length pre + 1)%nat with (length pre + length [len s])%nat by reflexivity.
    rewrite take_mid2 by reflexivity. reflexivity.
Qed.

Lemma lenpfx_length_ok pre s rest (two : bool) :
  len s < (if two then 65536 else 256) ->
  (if two then do l <- le_at (pre ++ ((if two then le_enc 2 (len s) else [len s]) ++ s) ++ rest) (length pre) 2; Ok (l + 2)
   else do l <- at_ (pre ++ ((if two then le_enc 2 (len s) else [len s]) ++ s) ++ rest) (length pre); Ok (l + 1))
  = Ok (len s + (if two then 2 else 1)).
Proof.
  intros Hl. pose proof (len_nonneg s). destruct two.
  - rewrite le_at_mid2 by (rewrite le_enc_length; reflexivity). cbn [bind].
    rewrite le_dec_enc by (change (256 ^ Z.of_nat 2) with 65536; lia). reflexivity.
  - rewrite at_mid2. reflexivity.
Qed.

Lemma len_prefixed (two : bool) s : len ((if two then le_enc 2 (len s) else [len s]) ++ s) = len s + (if two then 2 else 1).
Proof. rewrite len_app. destruct two; [rewrite len_le_enc|]; unfold len; cbn [length]; lia. Qed.

Theorem varchar_ok max vs uns s : wf_type (TVarchar max vs) = true -> wf_value (TVarchar max vs) uns (VBytes s) = true ->
  cell_ok (TVarchar max vs) uns (VBytes s).
Proof.
  intros Ht Hwf pre rest. cbn [wf_type wf_value] in *. cbn [enc_cell code_of meta_of text].
  assert (Hs : wf_bytes s) by (apply wf_bytesb_ok; apply andb_true_iff in Hwf as [Hwf _]; exact Hwf).
  assert (Hl : len s < (if max >? 255 then 65536 else 256)) by (destruct (max >? 255) eqn:E; lia).
  rewrite len_prefixed.
  split.
  - replace (cell_bytes ffmt tz jsonp _ _ _ max uns) with
      (decode_lenpfx (pre ++ ((if max >? 255 then le_enc 2 (len s) else [len s]) ++ s) ++ rest) (length pre) (max >? 255))
      by (destruct vs; reflexivity).
    apply decode_lenpfx_ok; auto.
  - replace (cell_length _ _ _ max) with
      (if max >? 255 then do l <- le_at (pre ++ ((if max >? 255 then le_enc 2 (len s) else [len s]) ++ s) ++ rest) (length pre) 2; Ok (l + 2)
       else do l <- at_ (pre ++ ((if max >? 255 then le_enc 2 (len s) else [len s]) ++ s) ++ rest) (length pre); Ok (l + 1))
      by (destruct vs; reflexivity).
    apply lenpfx_length_ok; auto.
Qed.

(* CHAR / BINARY: the packed metadata decodes to the declared length and never looks like ENUM / SET *)
Definition char_meta (max : Z) : Z := (Z.lxor 254 (Z.land max 768 / 16)) * 256 + Z.land max 255.

Lemma char_meta_sweep :
  forallb (fun max => (string_max (char_meta max) =? max) &&
                      negb (shr (char_meta max) 8 =? 247) && negb (shr (char_meta max) 8 =? 248))
          (map Z.of_nat (seq 0 1024)) = true.
Proof. vm_compute. reflexivity. Qed.

Lemma char_meta_ok max : 0 <= max <= 1023 ->
  string_max (char_meta max) = max /\ shr (char_meta max) 8 <> 247 /\ shr (char_meta max) 8 <> 248.
Proof.
  intros H. pose proof char_meta_sweep as S. rewrite forallb_forall in S.
  specialize (S max). assert (I : In max (map Z.of_nat (seq 0 1024))).
  { apply in_map_iff. exists (Z.to_nat max). split; [lia|]. apply in_seq. lia. }
  specialize (S I). lia.
Qed.

Theorem char_ok max uns s : wf_type (TChar max) = true -> wf_value (TChar max) uns (VBytes s) = true ->
  cell_ok (TChar max) uns (VBytes s).
Proof.
  intros Ht Hwf pre rest. cbn [wf_type wf_value] in *. cbn [enc_cell code_of meta_of text].
  fold (char_meta max).
  destruct (char_meta_ok max ltac:(lia)) as (M1 & M2 & M3).
  assert (Hs : wf_bytes s) by (apply wf_bytesb_ok; apply andb_true_iff in Hwf as [Hwf _]; exact Hwf).
  assert (Hl : len s < (if max >? 255 then 65536 else 256)) by (destruct (max >? 255) eqn:E; lia).
  rewrite len_prefixed.
  assert (E1 : (shr (char_meta max) 8 =? K_TypeEnum) = false) by (apply Z.eqb_neq; exact M2).
  assert (E2 : (shr (char_meta max) 8 =? K_TypeSet) = false) by (apply Z.eqb_neq; exact M3).
  split.
  - change (cell_bytes ffmt tz jsonp ?d ?p 254 ?mm uns) with
      (let t := shr mm 8 in
       if t =? K_TypeEnum then decode_enum d p mm
       else if t =? K_TypeSet then
         let l := band mm 255 in do s <- take d p l; Ok (Some (fmt_d (u64 (le_dec s))), l)
       else decode_lenpfx d p (string_max mm >? 255)).
    cbv zeta. rewrite E1, E2, M1. apply decode_lenpfx_ok; auto.
  - change (cell_length ?d ?p 254 ?mm) with
      (let t := shr mm 8 in
       if (t =? K_TypeEnum) || (t =? K_TypeSet) then Ok (band mm 255)
       else if string_max mm >? 255 then do l <- le_at d p 2; Ok (l + 2)
       else do l <- at_ d p; Ok (l + 1)).
    cbv zeta. rewrite E1, E2, M1. cbn [orb]. apply lenpfx_length_ok; auto.
Qed.

Lemma blob_payload_ok pre s rest lb :
  1 <= lb <= 4 -> 0 <= len s < 256 ^ lb ->
  blob_len (pre ++ (le_enc (Z.to_nat lb) (len s) ++ s) ++ rest) (length pre) lb = Ok (len s)
  /\ take (pre ++ (le_enc (Z.to_nat lb) (len s) ++ s) ++ rest) (length pre + Z.to_nat lb) (len s) = Ok s.
Proof.
  intros Hlb Hl. split.
  - unfold blob_len.
    assert (E : (1 <=? lb) && (lb <=? 4) = true) by lia. rewrite E.
    rewrite le_at_mid2 by (rewrite le_enc_length; reflexivity).
    rewrite le_dec_enc by (rewrite Z2Nat.id by lia; lia). reflexivity.
  - replace (length pre + Z.to_nat lb)%nat with (length pre + length (le_enc (Z.to_nat lb) (len s)))%nat
      by (rewrite le_enc_length; reflexivity).
    apply take_mid2. reflexivity.
Qed.

Theorem blob_ok lb code uns s : wf_type (TBlob lb code) = true -> wf_value (TBlob lb code) uns (VBytes s) = true ->
  cell_ok (TBlob lb code) uns (VBytes s).
Proof.
  intros Ht Hwf pre rest. cbn [wf_type wf_value] in *. cbn [enc_cell code_of meta_of text].
  assert (Hlb : 1 <= lb <= 4) by lia.
  assert (Hl : 0 <= len s < 256 ^ lb) by (pose proof (len_nonneg s); lia).
  destruct (blob_payload_ok pre s rest lb Hlb Hl) as [B1 B2].
  rewrite len_app, len_le_enc, Z2Nat.id by lia.
  assert (code = 249 \/ code = 250 \/ code = 251 \/ code = 252) as Hc by lia.
  split.
  - replace (cell_bytes ffmt tz jsonp (pre ++ (le_enc (Z.to_nat lb) (len s) ++ s) ++ rest) (length pre) code lb uns) with
      (do l <- blob_len (pre ++ (le_enc (Z.to_nat lb) (len s) ++ s) ++ rest) (length pre) lb;
       do t <- take (pre ++ (le_enc (Z.to_nat lb) (len s) ++ s) ++ rest) (length pre + Z.to_nat lb) l;
       Ok (Some t, l + lb))
      by (destruct Hc as [-> | [-> | [-> | ->]]]; reflexivity).
    rewrite B1. cbn [bind]. rewrite B2. cbn [bind]. do 2 f_equal. lia.
  - replace (cell_length (pre ++ (le_enc (Z.to_nat lb) (len s) ++ s) ++ rest) (length pre) code lb) with
      (do l <- blob_len (pre ++ (le_enc (Z.to_nat lb) (len s) ++ s) ++ rest) (length pre) lb; Ok (lb + l))
      by (destruct Hc as [-> | [-> | [-> | ->]]]; reflexivity).
    rewrite B1. reflexivity.
Qed.

Theorem geometry_ok lb uns s : wf_type (TGeometry lb) = true -> wf_value (TGeometry lb) uns (VBytes s) = true ->
  cell_ok (TGeometry lb) uns (VBytes s).
Proof.
  intros Ht Hwf pre rest. cbn [wf_type wf_value] in *. cbn [enc_cell code_of meta_of text].
  assert (Hlb : 1 <= lb <= 4) by lia.
  assert (Hl : 0 <= len s < 256 ^ lb) by (pose proof (len_nonneg s); lia).
  destruct (blob_payload_ok pre s rest lb Hlb Hl) as [B1 B2].
  rewrite len_app, len_le_enc, Z2Nat.id by lia.
  split.
  - change (cell_bytes ffmt tz jsonp ?d ?p 255 ?m uns) with
      (do l <- blob_len d p m; do t <- take d (p + Z.to_nat m) l; Ok (Some t, l + m)).
    rewrite B1. cbn [bind]. rewrite B2. cbn [bind]. do 2 f_equal. lia.
  - change (cell_length ?d ?p 255 ?m) with (do l <- blob_len d p m; Ok (m + l)).
    rewrite B1. reflexivity.
Qed.

End Simple.
