(* gen/TransJsonPrint.v: the scalar printers of replication/binlog_event_json.go (printJSONLiteral, the six integer
   printers, printJSONDouble, printJSONString, printJSONDate / Time / DateTime), translated from /repo on every run by
   harness/cmd/gotrans.  A `result *bytes.Buffer` parameter is an in/out value: the generated function takes the bytes
   written so far and returns them with what it appended (the hand-written model Model/Json.v returns the appended text).
   Each generated function appends exactly what the model function prints, for every input.
   printJSONOpaque / printJSONDecimal / the container printers are not translated: they re-slice an opaque payload beyond
   its length into the capacity of the underlying buffer, which the translator's slices (capacity = length) do not
   model; Model/Json.v models it, tied by the differential harness (C14) only. *)
From Coq Require Import ZifyBool.
From GB Require Import Base.Prelude Base.GoSem Base.DecText Base.GoFmt Base.BytesLemmas Proofs.GoSemLemmas Proofs.TransTactics.
From GB Require Import Model.Cell Model.Json Proofs.TransEquivJsonRead.
From GBGen Require Import Consts TransJsonRead TransJsonPrint.
Open Scope Z_scope.

(* what is appended to the buffer r *)
Definition appended (r : bytes) (x : res bytes) : res bytes :=
  match x with Ok t => Ok (r ++ t) | Err e => Err e | Panic => Panic end.

Ltac Zify.zify_post_hook ::= Z.to_euclidean_division_equations.

(* ---- helpers ---- *)
Lemma appended_bind {A} r (x : res A) (f : A -> res bytes) :
  appended r (bind x f) = bind x (fun a => appended r (f a)).
Proof. destruct x; reflexivity. Qed.

(* the model reads `le_dec` of a slice: the same as le_at *)
Lemma slice_le_dec {B} d p n (f : Z -> B) :
  (do s <- slice d p n; Ok (f (le_dec s))) = (do v <- le_at d p n; Ok (f v)).
Proof. unfold le_at. rewrite bind_assoc. reflexivity. Qed.

(* binary.LittleEndian.Uint64(data[:8]) followed by any continuation *)
Lemma rd_le8 {B} d (k : Z -> res B) :
  (do s <- go_slice_to d 8; do v <- go_le s 8; k v) = (do v <- le_at d 0 8; k v).
Proof. unfold go_slice_to. apply (go_slice_le_bind d 0 8 8 k 0); reflexivity. Qed.

Lemma le2_u16 a b : 0 <= a < 256 -> 0 <= b < 256 ->
  u16 (a + go_shl u16 b 8) = a + 256 * (b + 256 * 0).
Proof.
  intros Ha Hb. unfold go_shl. pow_consts.
  rewrite (u16_small (b * 256)), u16_small by lia. lia.
Qed.

Lemma le4_u32 a b c e : 0 <= a < 256 -> 0 <= b < 256 -> 0 <= c < 256 -> 0 <= e < 256 ->
  u32 (u32 (u32 (a + go_shl u32 b 8) + go_shl u32 c 16) + go_shl u32 e 24)
  = a + 256 * (b + 256 * (c + 256 * (e + 256 * 0))).
Proof.
  intros Ha Hb Hc He. unfold go_shl. pow_consts.
  rewrite (u32_small (b * 256)), (u32_small (c * 65536)), (u32_small (e * 16777216)) by lia.
  rewrite (u32_small (a + b * 256)) by lia. rewrite (u32_small (a + b * 256 + c * 65536)) by lia.
  rewrite u32_small by lia. lia.
Qed.

Lemma le8_u64 a0 a1 a2 a3 a4 a5 a6 a7 :
  0 <= a0 < 256 -> 0 <= a1 < 256 -> 0 <= a2 < 256 -> 0 <= a3 < 256 ->
  0 <= a4 < 256 -> 0 <= a5 < 256 -> 0 <= a6 < 256 -> 0 <= a7 < 256 ->
  u64 (u64 (u64 (u64 (u64 (u64 (u64 (a0 + go_shl u64 a1 8) + go_shl u64 a2 16) + go_shl u64 a3 24) + go_shl u64 a4 32) +
       go_shl u64 a5 40) + go_shl u64 a6 48) + go_shl u64 a7 56)
  = a0 + 256 * (a1 + 256 * (a2 + 256 * (a3 + 256 * (a4 + 256 * (a5 + 256 * (a6 + 256 * (a7 + 256 * 0))))))).
Proof.
  intros H0 H1 H2 H3 H4 H5 H6 H7. unfold go_shl. pow_consts.
  rewrite (u64_small (a1 * _)), (u64_small (a2 * _)), (u64_small (a3 * _)), (u64_small (a4 * _)),
          (u64_small (a5 * _)), (u64_small (a6 * _)), (u64_small (a7 * _)) by lia.
  rewrite (u64_small (a0 + _)) by lia.
  rewrite (u64_small (a0 + _ + _)) by lia.
  rewrite (u64_small (a0 + _ + _ + _)) by lia.
  rewrite (u64_small (a0 + _ + _ + _ + _)) by lia.
  rewrite (u64_small (a0 + _ + _ + _ + _ + _)) by lia.
  rewrite (u64_small (a0 + _ + _ + _ + _ + _ + _)) by lia.
  rewrite u64_small by lia. lia.
Qed.

(* string literals of the model as byte lists *)
Ltac str_lits :=
  repeat match goal with
  | |- context [str ?s] => let v := eval vm_compute in (str s) in change (str s) with v
  end.

(* both sides are the same pieces, differently associated *)
Ltac text_eq :=
  cbn [app]; repeat (rewrite <- !app_assoc; cbn [app]); reflexivity.

(* the reads at d[0], d[1], ...: as at_ *)
Ltac idx_consts d :=
  rewrite ?(go_idx_Z d 0 0), ?(go_idx_Z d 1 1), ?(go_idx_Z d 2 2), ?(go_idx_Z d 3 3), ?(go_idx_Z d 4 4),
          ?(go_idx_Z d 5 5), ?(go_idx_Z d 6 6), ?(go_idx_Z d 7 7) by reflexivity.

(* binary.LittleEndian.Uint64(data[:8]) in the generated code, data[0:8] in the model: the same eight bytes *)
Lemma rd8_both d (k : Z -> res bytes) (g : bytes -> bytes) r :
  wf_bytes d ->
  (forall s, 0 <= le_dec s < 18446744073709551616 -> res_sim (k (le_dec s)) (Ok (r ++ g s))) ->
  res_sim (do t <- go_slice_to d 8; do v <- go_le t 8; k v) (appended r (do s <- slice d 0 8; Ok (g s))).
Proof.
  intros W H. unfold go_slice_to. rewrite (go_slice_Z d 0 8 0 8) by reflexivity.
  destruct (slice_cases d 0 8) as [(s & E & Ls & L)|[E L]]; rewrite E; cbn [bind appended]; [|exact I].
  rewrite (go_le_exact s 8 Ls). cbn [bind]. apply H.
  pose proof (le_dec_bound s (slice_wf _ _ _ _ W E)) as B. unfold len in B. rewrite Ls in B. exact B.
Qed.

(* ---- printJSONString: the size read by readVariableLength is an int (64 bit), the end of the slice pos+size wraps ---- *)
Definition int_range (x : Z) : Prop := - 9223372036854775808 <= x < 9223372036854775808.

Lemma int_range_div x : int_range x <-> (x / 2 ^ 63 = 0 \/ x / 2 ^ 63 = - 1).
Proof. unfold int_range. change (2 ^ 63) with 9223372036854775808. lia. Qed.

Lemma lor_int_range a b : int_range a -> int_range b -> int_range (Z.lor a b).
Proof.
  rewrite !int_range_div. rewrite <- !Z.shiftr_div_pow2 by lia. rewrite Z.shiftr_lor.
  intros [-> | ->] [-> | ->]; cbn; auto.
Qed.

Lemma i64_int_range x : int_range (i64 x).
Proof.
  unfold int_range, i64, sx, u64. change (2 ^ (64 - 1)) with 9223372036854775808. change (2 ^ 64) with 18446744073709551616.
  destruct (x mod 18446744073709551616 <? 9223372036854775808) eqn:E; lia.
Qed.

Lemma i64_wrap_high x : 9223372036854775808 <= x < 18446744073709551616 -> i64 x = x - 18446744073709551616.
Proof.
  intros H. unfold i64, sx, u64. change (2 ^ (64 - 1)) with 9223372036854775808. change (2 ^ 64) with 18446744073709551616.
  destruct (x mod 18446744073709551616 <? 9223372036854775808) eqn:E; lia.
Qed.

Lemma read_varlen_go_bound l : forall acc idx pos v p,
  read_varlen_go l acc idx pos = Ok (v, p) -> int_range acc -> int_range v /\ (p <= pos + length l)%nat.
Proof.
  induction l as [|bb l IH]; intros acc idx pos v p H Ha; cbn [read_varlen_go] in H; [discriminate|].
  cbv zeta in H.
  match type of H with context [Z.lor acc ?t] =>
    assert (Hacc : int_range (Z.lor acc t))
      by (apply lor_int_range; [exact Ha | destruct (_ <? 64); [apply i64_int_range | unfold int_range; lia]])
  end.
  destruct (0 <=? i8 bb).
  - inversion H; subst. split; [exact Hacc | cbn [length]; lia].
  - apply IH in H; [|exact Hacc]. destruct H as [Hv Hp]. split; [exact Hv | cbn [length]; lia].
Qed.

Lemma read_varlen_bound d v p : read_varlen d 0 = Ok (v, p) -> int_range v /\ (p <= length d)%nat.
Proof.
  unfold read_varlen. cbn [skipn]. intros H. apply read_varlen_go_bound in H; [exact H | unfold int_range; lia].
Qed.

(* data[pos:pos+size] with the wrapped sum against the guarded slice of the model *)
Lemma go_slice_sliceZ d p sz : Z.of_nat (length d) < 2 ^ 62 -> (p <= length d)%nat -> int_range sz ->
  go_slice d (Z.of_nat p) (i64 (Z.of_nat p + sz)) = sliceZ d (Z.of_nat p) sz.
Proof.
  intros Hd Hp Hs. change (2 ^ 62) with 4611686018427387904 in Hd. unfold int_range in Hs. unfold sliceZ, len.
  destruct (Z_lt_le_dec (Z.of_nat p + sz) 9223372036854775808) as [Lt|Ge].
  - rewrite i64_small by lia.
    destruct (Z_lt_le_dec sz 0) as [N|NN].
    + rewrite go_slice_bad by lia.
      destruct ((0 <=? Z.of_nat p) && (0 <=? sz) && (Z.of_nat p + sz <=? Z.of_nat (length d))) eqn:C; [lia|reflexivity].
    + rewrite (go_slice_Z d _ _ p (Z.to_nat sz)) by lia. rewrite Nat2Z.id.
      destruct ((0 <=? Z.of_nat p) && (0 <=? sz) && (Z.of_nat p + sz <=? Z.of_nat (length d))) eqn:C; [reflexivity|].
      apply slice_panic. lia.
  - rewrite i64_wrap_high by lia. rewrite go_slice_bad by lia.
    destruct ((0 <=? Z.of_nat p) && (0 <=? sz) && (Z.of_nat p + sz <=? Z.of_nat (length d))) eqn:C; [lia|reflexivity].
Qed.

Section Printers.
Variable efmt : Z -> bytes.

Theorem printJSONLiteral_equiv b top r :
  res_sim (printJSONLiteral_g b top r) (appended r (print_literal b top)).
Proof.
  unfold printJSONLiteral_g, print_literal, q.
  cbv [K_jsonNullLiteral K_jsonTrueLiteral K_jsonFalseLiteral].
  destruct top; cbn [bind]; destruct (b =? 0); [|destruct (b =? 1); [|destruct (b =? 2)]| |destruct (b =? 1); [|destruct (b =? 2)]].
  all: cbn [bind appended res_sim]; try exact I; str_lits; text_eq.
Qed.

(* the integer printers index data[0..n-1] (callers pass a slice of exactly n bytes) *)
Theorem printJSONInt16_equiv d top r : wf_bytes d ->
  res_sim (printJSONInt16_g d top r) (appended r (do s <- slice d 0 2; Ok (print_int16 s top))).
Proof.
  intros W. unfold printJSONInt16_g, print_int16.
  rewrite (slice_le_dec d 0 2 (fun v => q top (fmt_d (i16 v)))). rewrite appended_bind.
  idx_consts d. rewrite le_at_at_le0 by lia. cbn [at_le Nat.add].
  repeat case_at W; try exact I; try lia.
  rewrite le2_u16 by assumption.
  destruct top; cbn [bind appended res_sim q]; text_eq.
Qed.

Theorem printJSONUint16_equiv d top r : wf_bytes d ->
  res_sim (printJSONUint16_g d top r) (appended r (do s <- slice d 0 2; Ok (print_uint16 s top))).
Proof.
  intros W. unfold printJSONUint16_g, print_uint16.
  rewrite (slice_le_dec d 0 2 (fun v => q top (fmt_d (u16 v)))). rewrite appended_bind.
  idx_consts d. rewrite le_at_at_le0 by lia. cbn [at_le Nat.add].
  repeat case_at W; try exact I; try lia.
  rewrite le2_u16 by assumption.
  destruct top; cbn [bind appended res_sim q]; rewrite u16_small by lia; text_eq.
Qed.

Theorem printJSONInt32_equiv d top r : wf_bytes d ->
  res_sim (printJSONInt32_g d top r) (appended r (do s <- slice d 0 4; Ok (print_int32 s top))).
Proof.
  intros W. unfold printJSONInt32_g, print_int32.
  rewrite (slice_le_dec d 0 4 (fun v => q top (fmt_d (i32 v)))). rewrite appended_bind.
  idx_consts d. rewrite le_at_at_le0 by lia. cbn [at_le Nat.add].
  repeat case_at W; try exact I; try lia.
  rewrite le4_u32 by assumption.
  destruct top; cbn [bind appended res_sim q]; text_eq.
Qed.

Theorem printJSONUint32_equiv d top r : wf_bytes d ->
  res_sim (printJSONUint32_g d top r) (appended r (do s <- slice d 0 4; Ok (print_uint32 s top))).
Proof.
  intros W. unfold printJSONUint32_g, print_uint32.
  rewrite (slice_le_dec d 0 4 (fun v => q top (fmt_d (u32 v)))). rewrite appended_bind.
  idx_consts d. rewrite le_at_at_le0 by lia. cbn [at_le Nat.add].
  repeat case_at W; try exact I; try lia.
  rewrite le4_u32 by assumption.
  destruct top; cbn [bind appended res_sim q]; rewrite u32_small by lia; text_eq.
Qed.

Theorem printJSONInt64_equiv d top r : wf_bytes d ->
  res_sim (printJSONInt64_g d top r) (appended r (do s <- slice d 0 8; Ok (print_int64 s top))).
Proof.
  intros W. unfold printJSONInt64_g, print_int64.
  rewrite (slice_le_dec d 0 8 (fun v => q top (fmt_d (i64 v)))). rewrite appended_bind.
  idx_consts d. rewrite le_at_at_le0 by lia. cbn [at_le Nat.add].
  repeat case_at W; try exact I; try lia.
  rewrite le8_u64 by assumption.
  destruct top; cbn [bind appended res_sim q]; text_eq.
Qed.

Theorem printJSONUint64_equiv d top r : wf_bytes d ->
  res_sim (printJSONUint64_g d top r) (appended r (do s <- slice d 0 8; Ok (print_uint64 s top))).
Proof.
  intros W. unfold printJSONUint64_g. apply rd8_both; [exact W|]. intros s B.
  unfold print_uint64. rewrite u64_small by exact B.
  destruct top; cbn [bind res_sim q]; text_eq.
Qed.

Theorem printJSONDouble_equiv d top r : wf_bytes d ->
  res_sim (printJSONDouble_g efmt d top r) (appended r (do s <- slice d 0 8; Ok (print_double efmt s top))).
Proof.
  intros W. unfold printJSONDouble_g. apply rd8_both; [exact W|]. intros s B.
  unfold print_double. rewrite u64_small by exact B.
  destruct top; cbn [bind res_sim q]; text_eq.
Qed.

Theorem printJSONString_equiv fuel d top r : wf_bytes d -> (length d < fuel)%nat -> Z.of_nat (length d) < 2 ^ 62 ->
  res_sim (printJSONString_g fuel d top r) (appended r (print_string d top)).
Proof.
  intros W Hf Hd. unfold printJSONString_g, print_string.
  pose proof (readVariableLength_equiv fuel d 0 Hd Hf) as R. change (Z.of_nat 0) with 0 in R.
  destruct (readVariableLength_g fuel d 0) as [[sz p]| |]; destruct (read_varlen d 0) as [[sz' p']| |] eqn:E;
    cbn [res_map res_sim] in R; try contradiction; cbn [bind appended res_sim]; try exact I.
  unfold val_pos in R. cbn [fst snd] in R. inversion R; subst sz p. clear R.
  destruct (read_varlen_bound d sz' p' E) as [Hs Hp].
  rewrite !go_slice_sliceZ by assumption.
  destruct top; destruct (sliceZ d (Z.of_nat p') sz') as [t| |]; cbn [bind appended res_sim]; try exact I.
  all: str_lits; text_eq.
Qed.

Theorem printJSONDate_equiv d top r : wf_bytes d ->
  res_sim (printJSONDate_g d top r) (appended r (do b8 <- slice d 0 8; Ok (print_date b8 top))).
Proof.
  intros W. unfold printJSONDate_g. apply rd8_both; [exact W|]. intros s B.
  unfold print_date. rewrite u64_small by exact B. cbv zeta.
  unfold band, shr, go_shr, cast_json, fmt_date.
  destruct top; cbn [bind res_sim]; str_lits; text_eq.
Qed.

Theorem printJSONTime_equiv d top r : wf_bytes d ->
  res_sim (printJSONTime_g d top r) (appended r (do b8 <- slice d 0 8; Ok (print_time b8 top))).
Proof.
  intros W. unfold printJSONTime_g. apply rd8_both; [exact W|]. intros s B.
  unfold print_time. cbv zeta.
  destruct (i64 (le_dec s) <? 0); cbn [bind].
  all: unfold band, shr, go_shr, cast_json, fmt_clock.
  all: match goal with |- context [?m =? 0] => destruct (m =? 0) end.
  all: destruct top; cbn [bind negb res_sim]; str_lits; text_eq.
Qed.

Theorem printJSONDateTime_equiv d top r : wf_bytes d ->
  res_sim (printJSONDateTime_g d top r) (appended r (do b8 <- slice d 0 8; Ok (print_datetime b8 top))).
Proof.
  intros W. unfold printJSONDateTime_g. apply rd8_both; [exact W|]. intros s B.
  unfold print_datetime. rewrite u64_small by exact B. cbv zeta.
  unfold band, shr, go_shr, cast_json, fmt_date, fmt_clock.
  match goal with |- context [?m =? 0] => destruct (m =? 0) end.
  all: destruct top; cbn [bind negb res_sim]; str_lits; text_eq.
Qed.
End Printers.
