(* gen/TransJsonPrint.v: the scalar printers of replication/binlog_event_json.go (printJSONLiteral, the six integer
   printers, printJSONDouble, printJSONString, printJSONDate / Time / DateTime), translated from /repo on every run by
   harness/cmd/gotrans.  A `result *bytes.Buffer` parameter is an in/out value: the generated function takes the bytes
   written so far and returns them with what it appended (the hand-written model Model/Json.v returns the appended text).
   Each generated function appends exactly what the model function prints, for every input.
   printJSONOpaque / printJSONDecimal / the container printers are not translated: they re-slice an opaque payload beyond
   its length into the capacity of the underlying buffer, which the translator's slices (capacity = length) do not
   model; Model/Json.v models it, tied by the differential harness (C14) only. *)
From Coq Require Import ZifyBool.
From GB Require Import Base.Prelude Base.GoSem Base.DecText Base.GoFmt Base.BytesLemmas Proofs.GoSemLemmas Proofs.TransTactics.
From GB Require Import Model.Cell Model.Json Proofs.TransEquivJsonRead.
From GBGen Require Import Consts TransJsonRead TransJsonPrint.
Open Scope Z_scope.

(* what is appended to the buffer r *)
Definition appended (r : bytes) (x : res bytes) : res bytes :=
  match x with Ok t => Ok (r ++ t) | Err e => Err e | Panic => Panic end.

Section Printers.
Variable efmt : Z -> bytes.

Theorem printJSONLiteral_equiv b top r :
  res_sim (printJSONLiteral_g b top r) (appended r (print_literal b top)).
Proof.
Admitted.

(* the integer printers index data[0..n-1] (callers pass a slice of exactly n bytes) *)
Theorem printJSONInt16_equiv d top r : wf_bytes d ->
  res_sim (printJSONInt16_g d top r) (appended r (do s <- slice d 0 2; Ok (print_int16 s top))).
Proof.
Admitted.

Theorem printJSONUint16_equiv d top r : wf_bytes d ->
  res_sim (printJSONUint16_g d top r) (appended r (do s <- slice d 0 2; Ok (print_uint16 s top))).
Proof.
Admitted.

Theorem printJSONInt32_equiv d top r : wf_bytes d ->
  res_sim (printJSONInt32_g d top r) (appended r (do s <- slice d 0 4; Ok (print_int32 s top))).
Proof.
Admitted.

Theorem printJSONUint32_equiv d top r : wf_bytes d ->
  res_sim (printJSONUint32_g d top r) (appended r (do s <- slice d 0 4; Ok (print_uint32 s top))).
Proof.
Admitted.

Theorem printJSONInt64_equiv d top r : wf_bytes d ->
  res_sim (printJSONInt64_g d top r) (appended r (do s <- slice d 0 8; Ok (print_int64 s top))).
Proof.
Admitted.

Theorem printJSONUint64_equiv d top r : wf_bytes d ->
  res_sim (printJSONUint64_g d top r) (appended r (do s <- slice d 0 8; Ok (print_uint64 s top))).
Proof.
Admitted.

Theorem printJSONDouble_equiv d top r : wf_bytes d ->
  res_sim (printJSONDouble_g efmt d top r) (appended r (do s <- slice d 0 8; Ok (print_double efmt s top))).
Proof.
Admitted.

Theorem printJSONString_equiv fuel d top r : wf_bytes d -> (length d < fuel)%nat -> Z.of_nat (length d) < 2 ^ 62 ->
  res_sim (printJSONString_g fuel d top r) (appended r (print_string d top)).
Proof.
Admitted.

Theorem printJSONDate_equiv d top r : wf_bytes d ->
  res_sim (printJSONDate_g d top r) (appended r (do b8 <- slice d 0 8; Ok (print_date b8 top))).
Proof.
Admitted.

Theorem printJSONTime_equiv d top r : wf_bytes d ->
  res_sim (printJSONTime_g d top r) (appended r (do b8 <- slice d 0 8; Ok (print_time b8 top))).
Proof.
Admitted.

Theorem printJSONDateTime_equiv d top r : wf_bytes d ->
  res_sim (printJSONDateTime_g d top r) (appended r (do b8 <- slice d 0 8; Ok (print_datetime b8 top))).
Proof.
Admitted.
End Printers.
