(* gen/TransBitmap.v (binlog_event.go: newBitmap, Bitmap.Bit, Bitmap.Count, Bitmap.BitCount, translated by
   harness/cmd/gotrans) computes what the hand-written bitmap functions of Model/Rbr.v do. *)
From Coq Require Import ZifyBool.
From GB Require Import Base.Prelude Base.GoSem Base.BytesLemmas Proofs.GoSemLemmas Proofs.TransTactics.
From GB Require Import Model.Header Model.Events Model.Rbr.
From GBGen Require Import Consts TransBitmap.
Open Scope Z_scope.
Ltac Zify.zify_post_hook ::= Z.to_euclidean_division_equations.

(* a hand-written bitmap as the Go struct: the count of the hand-written model is a nat, a Go count is an int *)
Definition Bitmap_of (b : bitmap) : Bitmap_r := {| Bitmap_data := bm_data b; Bitmap_count := Z.of_nat (bm_count b) |}.

Definition Bitmap_pos_of (r : bitmap * nat) : Bitmap_r * Z := (Bitmap_of (fst r), Z.of_nat (snd r)).

Lemma quot8_nat n : Z.quot (Z.of_nat n) 8 = Z.of_nat (n / 8).
Proof. rewrite Z.quot_div_nonneg by lia. rewrite (Nat2Z.inj_div n 8). reflexivity. Qed.
Lemma div8_le n : (8 * (n / 8) <= n)%nat.
Proof. apply Nat.mul_div_le. lia. Qed.
Lemma mod8_lt n : (n mod 8 < 8)%nat.
Proof. apply Nat.mod_upper_bound. lia. Qed.
Lemma mod8_nat n : Z.of_nat n mod 8 = Z.of_nat (n mod 8).
Proof. rewrite (Nat2Z.inj_mod n 8). reflexivity. Qed.

(* ---- newBitmap ---- *)
Theorem newBitmap_equiv d pos count :
  Z.of_nat pos < 2 ^ 62 -> Z.of_nat count < 2 ^ 62 ->
  res_sim (newBitmap_g d (Z.of_nat pos) (Z.of_nat count)) (res_map Bitmap_pos_of (new_bitmap d pos count)).
Proof.
  intros Hp Hc. change (2 ^ 62) with 4611686018427387904 in *.
  unfold newBitmap_g, new_bitmap. cbv zeta.
  assert (Hbs : i64 (Z.quot (i64 (Z.of_nat count + 7)) 8) = Z.of_nat ((count + 7) / 8)).
  replace (Z.of_nat count + 7) with (Z.of_nat (count + 7)) by lia.
  { rewrite (i64_small (Z.of_nat (count + 7))) by lia. rewrite quot8_nat. pose proof (div8_le (count + 7)). apply i64_small. lia. }
  pose proof (div8_le (count + 7)) as Hd. set (bs := ((count + 7) / 8)%nat) in *. clearbody bs.
  rewrite Hbs. rewrite (i64_small (Z.of_nat pos + _)) by lia.
  rewrite go_slice_nat. destruct (slice d pos bs) as [s| |]; cbn [bind res_map]; try exact I.
  unfold Bitmap_pos_of, Bitmap_of. cbn [res_sim fst snd bm_data bm_count]. rewrite Nat2Z.inj_add. reflexivity.
Qed.

(* ---- Bitmap.Bit ---- *)
Lemma pow2_small k : 0 <= k < 8 -> 0 < 2 ^ k < 256.
Proof.
  intros H. assert (C : k = 0 \/ k = 1 \/ k = 2 \/ k = 3 \/ k = 4 \/ k = 5 \/ k = 6 \/ k = 7) by lia.
  destruct C as [->|[->|[->|[->|[->|[->|[->| ->]]]]]]]; cbn; lia.
Qed.

Lemma land_7 x : Z.land x 7 = x mod 8.
Proof. change 7 with (Z.ones 3). rewrite Z.land_ones by lia. reflexivity. Qed.

Theorem Bitmap_Bit_equiv b i :
  Z.of_nat i < 2 ^ 62 ->
  res_sim (Bitmap_Bit_g (Bitmap_of b) (Z.of_nat i)) (bit b i).
Proof.
  intros Hi. change (2 ^ 62) with 4611686018427387904 in *.
  unfold Bitmap_Bit_g, bit. cbv zeta. unfold Bitmap_of. cbn [Bitmap_data].
  assert (Hq : i64 (Z.quot (Z.of_nat i) 8) = Z.of_nat (i / 8)) by (rewrite quot8_nat; apply i64_small; pose proof (div8_le i); lia).
  assert (Hm : Z.land (u64 (Z.of_nat i)) 7 = Z.of_nat (i mod 8)).
  { rewrite land_7, u64_small by lia. apply mod8_nat. }
  rewrite Hq, Hm, go_idx_nat. apply res_sim_eq.
  destruct (at_ (bm_data b) (i / 8)) as [x| |]; cbn [bind]; try reflexivity.
  f_equal. unfold go_shl. rewrite Z.mul_1_l.
  pose proof (mod8_lt i) as M8. pose proof (pow2_small (Z.of_nat (i mod 8)) ltac:(lia)) as P.
  rewrite u8_small by lia. rewrite Z.gtb_ltb. reflexivity.
Qed.

(* ---- Bitmap.Count ---- *)
Theorem Bitmap_Count_equiv b : res_sim (Bitmap_Count_g (Bitmap_of b)) (Ok (Z.of_nat (bm_count b))).
Proof. reflexivity. Qed.

(* ---- Bitmap.BitCount: the loop runs count times; fuel > count ---- *)
Theorem Bitmap_BitCount_equiv fuel b :
  Z.of_nat (bm_count b) < 2 ^ 62 -> (bm_count b < fuel)%nat ->
  res_sim (Bitmap_BitCount_g fuel (Bitmap_of b)) (res_map Z.of_nat (bit_count b)).
Proof.
  intros Hc Hf. change (2 ^ 62) with 4611686018427387904 in *.
  unfold Bitmap_BitCount_g, bit_count. cbv zeta.
  lazymatch goal with |- res_sim (?L fuel 0 0) _ => set (loop := L) end.
  assert (Hloop : forall n i acc fuel, (i + n = bm_count b)%nat -> (acc <= i)%nat -> (n < fuel)%nat ->
            res_sim (loop fuel (Z.of_nat acc) (Z.of_nat i)) (res_map Z.of_nat (bit_count_from b i n acc))).
  { induction n as [|n IH]; intros i acc fl Hi Ha Hfl; (destruct fl as [|fl]; [lia|]);
      unfold loop; cbv beta iota zeta; fold loop; cbn [Bitmap_of Bitmap_count bit_count_from].
    - destruct (Z.of_nat i <? Z.of_nat (bm_count b)) eqn:E; [lia|]. reflexivity.
    - destruct (Z.of_nat i <? Z.of_nat (bm_count b)) eqn:E; [|lia].
      pose proof (Bitmap_Bit_equiv b i ltac:(lia)) as HB.
      change {| Bitmap_data := bm_data b; Bitmap_count := Z.of_nat (bm_count b) |} with (Bitmap_of b).
      destruct (Bitmap_Bit_g (Bitmap_of b) (Z.of_nat i)) as [v| |]; destruct (bit b i) as [v'| |];
        cbn [res_sim] in HB; try contradiction; cbn [bind res_map]; try exact I.
      subst v'. rewrite !(i64_small (_ + 1)) by lia.
      replace (Z.of_nat i + 1) with (Z.of_nat (S i)) by lia.
      destruct v.
      + replace (Z.of_nat acc + 1) with (Z.of_nat (S acc)) by lia. apply IH; lia.
      + apply IH; lia. }
  apply (Hloop (bm_count b) 0%nat 0%nat fuel); lia.
Qed.

(* Outside the domain of the hand-written model: Go's count and index are ints, the hand-written ones nats.
   The Go code does not reject negative values (callers never pass them): a count in -14..0 gives an empty bitmap
   carrying the negative count, an index in -7..-1 reads byte 0 with the mask 1 << (uint(index) & 7). *)
Example newBitmap_negative_count :
  newBitmap_g [255] 0 (-3) = Ok ({| Bitmap_data := []; Bitmap_count := -3 |}, 0) /\ newBitmap_g [255] 0 (-15) = Panic.
Proof. split; vm_compute; reflexivity. Qed.
Example Bitmap_Bit_negative_index :
  Bitmap_Bit_g {| Bitmap_data := [128]; Bitmap_count := 8 |} (-1) = Ok true.
Proof. vm_compute. reflexivity. Qed.

Print Assumptions newBitmap_equiv.
Print Assumptions Bitmap_Bit_equiv.
Print Assumptions Bitmap_Count_equiv.
Print Assumptions Bitmap_BitCount_equiv.
