(* C19, part 2: text form and SID-block form of MySQL 5.6 sets; GTID / previous-GTIDs /
   MariaDB GTID event bodies decode to the identifiers the master wrote. *)
From GB Require Import Base.Prelude Base.DecText Base.BytesLemmas Base.GoText.
From GB Require Import Model.Gtid Spec.GtidSpec.
From GB Require Import Proofs.GoTextProofs Proofs.GtidBase Proofs.GtidAddProofs Proofs.GtidTextProofs.
Open Scope Z_scope.

(* ================= text form of a set ================= *)

Definition iv_text (i : iv) : bytes :=
  format_int (fst i) ++ (if snd i =? fst i then [] else 45 :: format_int (snd i)).

Lemma iv_string_text i : iv_string i = 58 :: iv_text i.
Proof. reflexivity. Qed.

Lemma nonneg_digits_no_dash z : 0 <= z -> Forall (fun c => c <> 45) (format_int z).
Proof. intros H. eapply Forall_weaken; [apply digit_not_dash | apply format_int_nonneg_digits; exact H]. Qed.

Lemma parse_interval_text a b : 1 <= a -> a <= b < 2 ^ 63 -> parse_interval (iv_text (a, b)) = Ok (a, b).
Proof.
  intros Ha Hb. unfold parse_interval, iv_text. cbn [fst snd]. cbv zeta.
  destruct (Z.eqb_spec b a) as [E|NE].
  - subst b. rewrite app_nil_r. rewrite split_on_nosep by (apply nonneg_digits_no_dash; lia).
    cbn [hd]. rewrite parse_int_format by lia. cbn [bind].
    destruct (Z.ltb_spec a 1); [lia|reflexivity].
  - rewrite split_on_app by (apply nonneg_digits_no_dash; lia).
    rewrite split_on_nosep by (apply nonneg_digits_no_dash; lia).
    cbn [hd]. rewrite parse_int_format by lia. cbn [bind].
    destruct (Z.ltb_spec a 1); [lia|]. rewrite parse_int_format by lia. reflexivity.
Qed.

Lemma iv_text_numchars a b : 0 <= a -> 0 <= b -> Forall numchar (iv_text (a, b)).
Proof.
  intros Ha Hb. unfold iv_text. cbn [fst snd].
  assert (Hd : forall z, 0 <= z -> Forall numchar (format_int z)).
  { intros z Hz. eapply Forall_weaken; [|apply format_int_nonneg_digits; exact Hz]. intros c Hc; left; exact Hc. }
  apply Forall_app. split; [apply Hd; exact Ha|].
  destruct (b =? a); [constructor|]. constructor; [right; reflexivity | apply Hd; exact Hb].
Qed.

Lemma parse_ivs_text l : forall lo, ivs_ok lo l -> 0 <= lo -> parse_ivs (map iv_text l) = Ok l.
Proof.
  induction l as [|[a b] r IH]; intros lo H Hlo; [reflexivity|].
  cbn [ivs_ok] in H. destruct H as (H1 & H2 & H3 & H4).
  cbn [map parse_ivs]. rewrite parse_interval_text by lia. cbn [bind].
  rewrite (IH (b + 1)) by (try assumption; lia). cbn [bind fst snd].
  destruct (Z.ltb_spec b a); [lia|reflexivity].
Qed.

(* sorting an already sorted list *)
Lemma insert_iv_last x acc : Forall (fun y => fst y <= fst x) acc -> insert_iv x acc = acc ++ [x].
Proof.
  induction 1 as [|y r Hy Hr IH]; [reflexivity|].
  cbn [insert_iv app]. destruct (Z.ltb_spec (fst x) (fst y)); [lia|]. rewrite IH. reflexivity.
Qed.

Lemma sort_fold_sorted l : forall lo acc, ivs_ok lo l -> Forall (fun y => fst y <= lo) acc ->
  fold_left (fun acc x => insert_iv x acc) l acc = acc ++ l.
Proof.
  induction l as [|[a b] r IH]; intros lo acc H Hacc.
  - cbn [fold_left]. rewrite app_nil_r. reflexivity.
  - cbn [ivs_ok] in H. destruct H as (H1 & H2 & H3 & H4).
    cbn [fold_left]. rewrite insert_iv_last.
    + rewrite (IH (b + 1)); [rewrite <- app_assoc; reflexivity | exact H4 |].
      apply Forall_app. split.
      * eapply Forall_weaken; [|exact Hacc]. cbn beta. intros y Hy. lia.
      * constructor; [cbn [fst]; lia|constructor].
    + eapply Forall_weaken; [|exact Hacc]. cbn beta. intros y Hy. cbn [fst]. lia.
Qed.

Lemma sort_ivs_sorted (l : list iv) lo : ivs_ok lo l -> sort_ivs l = l.
Proof. intros H. unfold sort_ivs. exact (sort_fold_sorted l lo [] H (Forall_nil _)). Qed.

(* inserting a key larger than all present keys appends *)
Lemma map_set_append k v (s : gset) : Forall (fun e => lex_lt (fst e) k) s -> map_set k v s = s ++ [(k, v)].
Proof.
  induction 1 as [|[k' v'] r Hk Hr IH]; [reflexivity|].
  cbn [fst] in Hk. cbn [map_set app].
  replace (bytes_compare k k') with Gt by (symmetry; apply bytes_compare_gt; exact Hk).
  rewrite IH. reflexivity.
Qed.

Lemma lookup_below k (s : gset) : Forall (fun e => lex_lt (fst e) k) s -> lookup k s = [].
Proof.
  induction 1 as [|[k' v'] r Hk Hr IH]; [reflexivity|].
  cbn [fst] in Hk. cbn [lookup]. rewrite bytes_eqb_neq; [exact IH|].
  intros E. subst. exact (lex_lt_irrefl _ Hk).
Qed.

Lemma keys_sorted_app_lt (s1 : gset) e r :
  keys_sorted (s1 ++ e :: r) -> Forall (fun x => lex_lt (fst x) (fst e)) s1.
Proof.
  induction s1 as [|x s1 IH]; intros H; [constructor|].
  cbn [app] in H. apply keys_sorted_cons in H as [Ha Hs].
  constructor; [|apply IH; exact Hs].
  unfold keys_above in Ha. rewrite Forall_forall in Ha. apply Ha. apply in_or_app. right. left. reflexivity.
Qed.

(* splitting one "uuid:iv:iv..." item *)
Lemma split_entry (l : list iv) : forall (a : bytes),
  Forall (fun c => c <> 58) a -> Forall (fun i => Forall (fun c => c <> 58) (iv_text i)) l ->
  split_on 58 (a ++ concat (map iv_string l)) = a :: map iv_text l.
Proof.
  induction l as [|i r IH]; intros a Ha Hl.
  - cbn [map concat]. rewrite app_nil_r. apply split_on_nosep. exact Ha.
  - inversion Hl as [|? ? Hi Hr]; subst.
    cbn [map concat]. rewrite iv_string_text. cbn [app].
    rewrite split_on_app by exact Ha. f_equal. apply IH; assumption.
Qed.

(* characters of a printed item: hex digits, '-' and ':' — no comma, no white space *)
Definition setchar (c : Z) : Prop := is_hexchar c \/ c = 45 \/ c = 58.

Lemma setchar_not_comma c : setchar c -> c <> 44.
Proof. unfold setchar, is_hexchar. lia. Qed.
Lemma setchar_not_space c : setchar c -> is_space c = false.
Proof. unfold setchar, is_hexchar, is_space. lia. Qed.

Lemma ivs_ok_nonneg l : forall lo a b, ivs_ok lo l -> 0 <= lo -> In (a, b) l -> 0 <= a /\ 0 <= b.
Proof. intros lo a b H Hlo Hin. pose proof (ivs_ok_in _ _ _ _ H Hin). lia. Qed.

Lemma entry_string_chars e : entry_ok e -> Forall setchar (entry_string e).
Proof.
  intros ([_ Hwf] & _ & Hok). unfold entry_string. apply Forall_app. split.
  - eapply Forall_weaken; [|apply sid_string_chars; exact Hwf].
    intros c [Hc|Hc]; [left; exact Hc | right; left; exact Hc].
  - apply Forall_concat. apply Forall_forall. intros t Ht.
    apply in_map_iff in Ht as ([a b] & <- & Hin).
    destruct (ivs_ok_nonneg _ _ _ _ Hok ltac:(lia) Hin) as [Ha Hb].
    rewrite iv_string_text. constructor; [right; right; reflexivity|].
    eapply Forall_weaken; [|apply iv_text_numchars; assumption].
    intros c [Hc|Hc]; [left; apply digit_hexchar; exact Hc | right; left; exact Hc].
Qed.

Lemma entry_string_nonempty e : entry_string e <> [].
Proof.
  unfold entry_string. intros E. apply app_eq_nil in E as [E _]. exact (sid_string_nonempty _ E).
Qed.

Lemma parse_set_loop_canon (s2 : gset) : forall (s1 : gset),
  keys_sorted (s1 ++ s2) -> Forall entry_ok s2 ->
  parse_set_loop (map entry_string s2) s1 = Ok (s1 ++ s2).
Proof.
  induction s2 as [|[k ivs] r IH]; intros s1 Hs Hall.
  - cbn [map parse_set_loop]. rewrite app_nil_r. reflexivity.
  - inversion Hall as [|? ? He Hr]; subst.
    pose proof He as He0. destruct He as (Hk & Hne & Hok). cbn [fst snd] in Hk, Hne, Hok.
    cbn [map parse_set_loop].
    rewrite trim_space_id by (eapply Forall_weaken; [apply setchar_not_space | apply entry_string_chars; exact He0]).
    destruct (entry_string (k, ivs)) as [|c0 l0] eqn:Ee; [exfalso; exact (entry_string_nonempty _ Ee)|].
    rewrite <- Ee. clear Ee c0 l0. cbv zeta.
    unfold entry_string. cbn [fst snd].
    rewrite split_entry.
    + destruct ivs as [|i ivs']; [contradiction|].
      cbn [map length Nat.ltb Nat.leb hd tl].
      rewrite (sid_text k Hk). cbn [bind].
      change (iv_text i :: map iv_text ivs') with (map iv_text (i :: ivs')).
      rewrite (parse_ivs_text (i :: ivs') 0 Hok) by lia. cbn [bind].
      rewrite (sort_ivs_sorted _ 0 Hok).
      pose proof (keys_sorted_app_lt s1 (k, i :: ivs') r Hs) as Hlt. cbn [fst] in Hlt.
      rewrite (map_set_append k (i :: ivs') s1 Hlt).
      rewrite IH; [rewrite <- app_assoc; reflexivity | rewrite <- app_assoc; exact Hs | exact Hr].
    + eapply Forall_weaken; [apply sidchar_not_colon | apply sid_string_chars; apply Hk].
    + apply Forall_forall. intros [a b] Hin.
      destruct (ivs_ok_nonneg _ _ _ _ Hok ltac:(lia) Hin) as [Ha Hb].
      eapply Forall_weaken; [apply numchar_not_colon | apply iv_text_numchars; assumption].
Qed.

Theorem set56_text (s : gset) : canon s -> parse_set56 (set56_string s) = Ok s.
Proof.
  intros [Hs Hall]. unfold parse_set56, set56_string.
  destruct s as [|e r]; [reflexivity|].
  rewrite split_join.
  - apply (parse_set_loop_canon (e :: r) []); assumption.
  - discriminate.
  - apply Forall_forall. intros t Ht. apply in_map_iff in Ht as (x & <- & Hx).
    rewrite Forall_forall in Hall.
    eapply Forall_weaken; [apply setchar_not_comma | apply entry_string_chars; apply Hall; exact Hx].
Qed.

(* ================= SID block ================= *)

Lemma firstn_skipn_exact {A} (l1 l2 : list A) n :
  length l1 = n -> firstn n (l1 ++ l2) = l1 /\ skipn n (l1 ++ l2) = l2.
Proof. intros <-. split; [apply firstn_app_exact | apply skipn_app_exact]. Qed.

Lemma pow256_8 : 256 ^ Z.of_nat 8 = 18446744073709551616.
Proof. reflexivity. Qed.

Lemma u64_range v : 0 <= u64 v < 18446744073709551616.
Proof. unfold u64. apply Z.mod_pos_bound. lia. Qed.

Lemma u64_small v : 0 <= v < 2 ^ 64 -> u64 v = v.
Proof. intros H. change (2 ^ 64) with 18446744073709551616 in H. unfold u64. apply Z.mod_small. exact H. Qed.

Lemma w64_length v : length (w64 v) = 8%nat.
Proof. unfold w64. apply le_enc_length. Qed.

Lemma read_u64_w64 v rest : read_u64 (w64 v ++ rest) = Ok (u64 v, rest).
Proof.
  unfold read_u64. rewrite app_length, w64_length.
  destruct (Nat.leb_spec 8 (8 + length rest)) as [_|H]; [|lia].
  destruct (firstn_skipn_exact (w64 v) rest 8 (w64_length v)) as [E1 E2]. rewrite E1, E2.
  unfold w64. rewrite le_dec_enc by (rewrite pow256_8; apply u64_range). reflexivity.
Qed.

Lemma start_rt a : 0 <= a < 2 ^ 63 -> i64 (u64 a) = a.
Proof.
  intros H. rewrite u64_small by (change (2 ^ 64) with 18446744073709551616; change (2 ^ 63) with 9223372036854775808 in H; lia).
  apply i64_nonneg. exact H.
Qed.

Lemma end_plus1 b : 0 <= b < 2 ^ 63 -> u64 (i64 (b + 1)) = b + 1.
Proof.
  intros H. destruct (Z.eq_dec (b + 1) (2 ^ 63)) as [E|NE].
  - rewrite E. reflexivity.
  - rewrite i64_nonneg by lia. apply u64_small.
    change (2 ^ 64) with 18446744073709551616; change (2 ^ 63) with 9223372036854775808 in *; lia.
Qed.

Lemma end_rt b : 0 <= b < 2 ^ 63 -> i64 (u64 (u64 (i64 (b + 1)) - 1)) = b.
Proof.
  intros H. rewrite end_plus1 by exact H. replace (b + 1 - 1) with b by lia. apply start_rt. exact H.
Qed.

Lemma lookup_map_set_same k v (s : gset) : lookup k (map_set k v s) = v.
Proof.
  induction s as [|[k' v'] r IH]; cbn [map_set lookup].
  - rewrite bytes_eqb_refl. reflexivity.
  - destruct (bytes_compare k k') eqn:Ec; cbn [lookup].
    + rewrite bytes_eqb_refl. reflexivity.
    + rewrite bytes_eqb_refl. reflexivity.
    + rewrite bytes_eqb_neq; [exact IH|]. intros E. subst.
      assert (bytes_compare k' k' = Eq) by (apply bytes_compare_eq; reflexivity). congruence.
Qed.

Lemma map_set_twice k v v' (s : gset) : map_set k v' (map_set k v s) = map_set k v' s.
Proof.
  assert (Hkk : bytes_compare k k = Eq) by (apply bytes_compare_eq; reflexivity).
  induction s as [|[k' w] r IH]; cbn [map_set].
  - rewrite Hkk. reflexivity.
  - destruct (bytes_compare k k') eqn:Ec; cbn [map_set].
    + rewrite Hkk. reflexivity.
    + rewrite Hkk. reflexivity.
    + rewrite Ec, IH. reflexivity.
Qed.

Lemma len_cons {A} (x : A) r : len (x :: r) - 1 = len r.
Proof. unfold len. cbn [length]. lia. Qed.

Lemma len_pos {A} (x : A) r : (len (x :: r) <=? 0) = false.
Proof. unfold len. cbn [length]. destruct (Z.leb_spec (Z.of_nat (S (length r))) 0); [lia|reflexivity]. Qed.

Lemma read_ivs_block (todo : list iv) : forall lo fuel k rest (set : gset),
  (length todo <= fuel)%nat -> ivs_ok lo todo -> 0 <= lo ->
  read_ivs fuel (len todo) k (concat (map iv_block todo) ++ rest) set =
  Ok (rest, match todo with [] => set | _ => map_set k (lookup k set ++ todo) set end).
Proof.
  induction todo as [|[a b] r IH]; intros lo fuel k rest set Hf Hok Hlo.
  - destruct fuel; reflexivity.
  - cbn [ivs_ok] in Hok. destruct Hok as (H1 & H2 & H3 & H4).
    destruct fuel as [|f]; [cbn [length] in Hf; lia|].
    cbn [read_ivs]. rewrite len_pos.
    cbn [map concat]. unfold iv_block at 1. cbn [fst snd].
    rewrite <- !app_assoc. rewrite read_u64_w64. cbn [bind fst snd].
    rewrite read_u64_w64. cbn [bind fst snd].
    rewrite start_rt by lia. rewrite end_rt by lia. rewrite len_cons.
    rewrite (IH (b + 1)) by (try assumption; cbn [length] in Hf; lia).
    f_equal. f_equal. destruct r as [|i r']; [reflexivity|].
    rewrite lookup_map_set_same, map_set_twice, <- app_assoc. reflexivity.
Qed.

Lemma iv_blocks_length (l : list iv) rest : (length l <= length (concat (map iv_block l) ++ rest))%nat.
Proof.
  induction l as [|i r IH]; cbn [map concat length]; [lia|].
  rewrite <- app_assoc, app_length. unfold iv_block at 1. rewrite app_length, !w64_length. lia.
Qed.

Lemma entry_blocks_length (l : gset) rest : (length l <= length (concat (map entry_block l) ++ rest))%nat.
Proof.
  induction l as [|e r IH]; cbn [map concat length]; [lia|].
  rewrite <- app_assoc, app_length. unfold entry_block at 1. rewrite !app_length, w64_length. rewrite app_length in IH. lia.
Qed.

(* a canonical interval list has fewer than 2^63 intervals *)
Lemma ivs_ok_count (l : list iv) : forall lo, ivs_ok lo l -> 0 <= lo -> l = [] \/ lo + len l < 2 ^ 63.
Proof.
  induction l as [|[a b] r IH]; intros lo H Hlo; [left; reflexivity|]. right.
  cbn [ivs_ok] in H. destruct H as (H1 & H2 & H3 & H4).
  destruct (IH (b + 1) H4 ltac:(lia)) as [E|Hc].
  - subst r. unfold len. cbn [length]. lia.
  - unfold len in *. cbn [length]. lia.
Qed.

Lemma read_sids_block (s2 : gset) : forall fuel (s1 : gset) rest,
  (length s2 <= fuel)%nat -> keys_sorted (s1 ++ s2) -> Forall entry_ok s2 ->
  read_sids fuel (len s2) (concat (map entry_block s2) ++ rest) s1 = Ok (s1 ++ s2).
Proof.
  induction s2 as [|[k ivs] r IH]; intros fuel s1 rest Hf Hs Hall.
  - rewrite app_nil_r. destruct fuel; reflexivity.
  - inversion Hall as [|? ? He Hr]; subst.
    destruct He as ([Hklen Hkwf] & Hne & Hok). cbn [fst snd] in Hklen, Hkwf, Hne, Hok.
    destruct fuel as [|f]; [cbn [length] in Hf; lia|].
    cbn [read_sids]. rewrite len_pos.
    cbn [map concat].
    change (entry_block (k, ivs)) with (k ++ w64 (len ivs) ++ concat (map iv_block ivs)).
    rewrite <- !app_assoc.
    rewrite app_length, Hklen.
    destruct (Nat.leb_spec 16 (16 + length (w64 (len ivs) ++ concat (map iv_block ivs) ++ concat (map entry_block r) ++ rest))) as [_|Hx]; [|lia].
    destruct (firstn_skipn_exact k (w64 (len ivs) ++ concat (map iv_block ivs) ++ concat (map entry_block r) ++ rest) 16 Hklen) as [E1 E2].
    rewrite E1, E2. rewrite read_u64_w64. cbn [bind fst snd].
    assert (Hcount : u64 (len ivs) = len ivs).
    { apply u64_small. destruct (ivs_ok_count ivs 0 Hok ltac:(lia)) as [E|Hc]; [contradiction|].
      unfold len in *. change (2 ^ 64) with 18446744073709551616. change (2 ^ 63) with 9223372036854775808 in Hc. lia. }
    rewrite Hcount.
    assert (Hfuel : (length ivs <= S (length (concat (map iv_block ivs) ++ concat (map entry_block r) ++ rest)))%nat).
    { apply Nat.le_trans with (length (concat (map iv_block ivs) ++ concat (map entry_block r) ++ rest)); [apply iv_blocks_length | lia]. }
    rewrite (read_ivs_block ivs 0 _ k _ s1 Hfuel Hok ltac:(lia)).
    cbn [bind fst snd].
    pose proof (keys_sorted_app_lt s1 (k, ivs) r Hs) as Hlt. cbn [fst] in Hlt.
    destruct ivs as [|i ivs']; [contradiction|].
    rewrite (lookup_below k s1 Hlt). cbn [app].
    rewrite (map_set_append k (i :: ivs') s1 Hlt). rewrite len_cons.
    rewrite IH; [rewrite <- app_assoc; reflexivity | cbn [length] in Hf; lia | rewrite <- app_assoc; exact Hs | exact Hr].
Qed.

Theorem sid_block_roundtrip (s : gset) rest :
  canon s -> len s < 2 ^ 64 -> from_sid_block (sid_block s ++ rest) = Ok s.
Proof.
  intros [Hs Hall] Hlen. unfold from_sid_block, sid_block.
  rewrite <- app_assoc, read_u64_w64. cbn [bind fst snd].
  rewrite u64_small by (unfold len in *; lia).
  apply (read_sids_block s _ [] rest); [|exact Hs|exact Hall].
  apply Nat.le_trans with (length (concat (map entry_block s) ++ rest)); [apply entry_blocks_length | lia].
Qed.

(* the model's writer produces what the specification says the master writes *)
Lemma w64_enc v : 0 <= v < 2 ^ 64 -> w64 v = le_enc 8 v.
Proof. intros H. unfold w64. rewrite u64_small by exact H. reflexivity. Qed.

Lemma iv_block_enc a b : 0 <= a < 2 ^ 63 -> 0 <= b < 2 ^ 63 -> iv_block (a, b) = enc_iv (a, b).
Proof.
  intros Ha Hb. unfold iv_block, enc_iv. cbn [fst snd].
  rewrite w64_enc by (change (2 ^ 64) with 18446744073709551616; change (2 ^ 63) with 9223372036854775808 in Ha; lia).
  unfold w64. rewrite end_plus1 by exact Hb. reflexivity.
Qed.

Lemma iv_blocks_enc l : forall lo, ivs_ok lo l -> 0 <= lo -> map iv_block l = map enc_iv l.
Proof.
  induction l as [|[a b] r IH]; intros lo H Hlo; [reflexivity|].
  cbn [ivs_ok] in H. destruct H as (H1 & H2 & H3 & H4).
  cbn [map]. rewrite iv_block_enc by lia. rewrite (IH (b + 1)) by (try assumption; lia). reflexivity.
Qed.

Theorem sid_block_is_spec (s : gset) : canon s -> len s < 2 ^ 64 -> sid_block s = enc_sid_block s.
Proof.
  intros [_ Hall] Hlen. unfold sid_block, enc_sid_block.
  rewrite w64_enc by (unfold len in *; lia). f_equal. f_equal.
  apply map_ext_in. intros [k ivs] Hin. rewrite Forall_forall in Hall.
  destruct (Hall _ Hin) as (_ & Hne & Hok). cbn [fst snd] in Hne, Hok.
  unfold entry_block, enc_entry. cbn [fst snd]. f_equal.
  rewrite w64_enc.
  - rewrite (iv_blocks_enc ivs 0 Hok) by lia. reflexivity.
  - destruct (ivs_ok_count ivs 0 Hok ltac:(lia)) as [E|Hc]; [contradiction|].
    unfold len in *. change (2 ^ 64) with 18446744073709551616. change (2 ^ 63) with 9223372036854775808 in Hc. lia.
Qed.

(* ================= events ================= *)

Theorem prev_gtids_event (s : gset) rest :
  canon s -> len s < 2 ^ 64 -> prev_gtids_event56 (enc_sid_block s ++ rest) = Ok s.
Proof.
  intros Hc Hlen. unfold prev_gtids_event56.
  rewrite <- (sid_block_is_spec s Hc Hlen). apply sid_block_roundtrip; assumption.
Qed.

Theorem gtid_event flags (u : sid) gno rest :
  wf_sid u -> 0 <= gno < 2 ^ 63 ->
  gtid_event56 (enc_gtid_event flags u gno rest) = Ok {| g_sid := u; g_seq := gno |}.
Proof.
  intros [Hlen _] Hg. unfold gtid_event56, enc_gtid_event.
  pose proof (slice_app_mid [flags] u (le_enc 8 gno ++ rest) 16 (eq_sym Hlen)) as S1.
  cbn [length] in S1. rewrite S1. cbn [bind].
  unfold le_at.
  replace ([flags] ++ u ++ le_enc 8 gno ++ rest) with (([flags] ++ u) ++ le_enc 8 gno ++ rest)
    by (rewrite <- app_assoc; reflexivity).
  replace 17%nat with (length ([flags] ++ u)) by (rewrite app_length, Hlen; reflexivity).
  rewrite slice_app_mid by (rewrite le_enc_length; reflexivity). cbn [bind].
  rewrite le_dec_enc by (rewrite pow256_8; change (2 ^ 63) with 9223372036854775808 in Hg; lia).
  rewrite i64_nonneg by exact Hg. reflexivity.
Qed.

Theorem maria_gtid_event seq dom flags2 server rest :
  0 <= seq < 2 ^ 64 -> 0 <= dom < 2 ^ 32 ->
  gtid_event_maria (enc_maria_gtid_event seq dom flags2 rest) server =
  Ok ({| m_dom := dom; m_srv := server; m_seq := seq |}, Z.land flags2 1 =? 0).
Proof.
  intros Hs Hd. unfold gtid_event_maria, enc_maria_gtid_event.
  (* flags2 at offset 12 *)
  replace (le_enc 8 seq ++ le_enc 4 dom ++ [flags2] ++ rest)
    with ((le_enc 8 seq ++ le_enc 4 dom) ++ flags2 :: rest) by (rewrite <- app_assoc; reflexivity).
  replace 12%nat with (length (le_enc 8 seq ++ le_enc 4 dom)) at 1 by (rewrite app_length, !le_enc_length; reflexivity).
  rewrite at_app_mid. cbn [bind].
  (* sequence at 0, domain at 8 *)
  unfold le_at.
  replace ((le_enc 8 seq ++ le_enc 4 dom) ++ flags2 :: rest)
    with ([] ++ le_enc 8 seq ++ (le_enc 4 dom ++ flags2 :: rest)) by (cbn [app]; rewrite <- app_assoc; reflexivity).
  pose proof (slice_app_mid [] (le_enc 8 seq) (le_enc 4 dom ++ flags2 :: rest) 8 (eq_sym (le_enc_length 8 seq))) as S1.
  cbn [length] in S1. rewrite S1. cbn [bind].
  cbn [app].
  replace 8%nat with (length (le_enc 8 seq)) at 2 by apply le_enc_length.
  rewrite (slice_app_mid (le_enc 8 seq) (le_enc 4 dom) (flags2 :: rest) 4) by (rewrite le_enc_length; reflexivity).
  cbn [bind].
  rewrite (le_dec_enc 8 seq) by (rewrite pow256_8; change (2 ^ 64) with 18446744073709551616 in Hs; lia).
  rewrite (le_dec_enc 4 dom) by (change (256 ^ Z.of_nat 4) with 4294967296; change (2 ^ 32) with 4294967296 in Hd; lia).
  reflexivity.
Qed.

(* ================= the fuel of the SID-block reader is never exhausted ================= *)

Lemma read_ivs_fuel fuel : forall n x d set,
  (length d < 16 * fuel)%nat -> read_ivs fuel n x d set <> Err EOutOfFuel.
Proof.
  induction fuel as [|f IH]; intros n x d set Hlen; [lia|].
  cbn [read_ivs]. destruct (n <=? 0); [discriminate|].
  unfold read_u64 at 1. destruct (Nat.leb_spec 8 (length d)) as [H1|H1]; cbn [bind]; [|discriminate].
  cbn [fst snd]. unfold read_u64 at 1.
  destruct (Nat.leb_spec 8 (length (skipn 8 d))) as [H2|H2]; cbn [bind]; [|discriminate].
  cbn [fst snd]. apply IH. rewrite !skipn_length in *. lia.
Qed.

Lemma read_ivs_len fuel : forall n x d set d' set',
  read_ivs fuel n x d set = Ok (d', set') -> (length d' <= length d)%nat.
Proof.
  induction fuel as [|f IH]; intros n x d set d' set'; cbn [read_ivs].
  - destruct (n <=? 0); [|discriminate]. intros E. inversion E; subst. lia.
  - destruct (n <=? 0); [intros E; inversion E; subst; lia|].
    unfold read_u64 at 1. destruct (Nat.leb_spec 8 (length d)) as [H1|H1]; cbn [bind]; [|discriminate].
    cbn [fst snd]. unfold read_u64 at 1.
    destruct (Nat.leb_spec 8 (length (skipn 8 d))) as [H2|H2]; cbn [bind]; [|discriminate].
    cbn [fst snd]. intros E. apply IH in E. rewrite !skipn_length in *. lia.
Qed.

Lemma read_sids_fuel fuel : forall n d set,
  (length d < 24 * fuel)%nat -> read_sids fuel n d set <> Err EOutOfFuel.
Proof.
  induction fuel as [|f IH]; intros n d set Hlen; [lia|].
  cbn [read_sids]. destruct (n <=? 0); [discriminate|].
  destruct (Nat.leb_spec 16 (length d)) as [H1|H1]; [|discriminate].
  unfold read_u64 at 1. destruct (Nat.leb_spec 8 (length (skipn 16 d))) as [H2|H2]; cbn [bind]; [|discriminate].
  cbn [fst snd].
  destruct (read_ivs (S (length (skipn 8 (skipn 16 d)))) (le_dec (firstn 8 (skipn 16 d))) (firstn 16 d)
                     (skipn 8 (skipn 16 d)) set) as [[d3 set']|c|] eqn:E; cbn [bind]; [| |discriminate].
  - cbn [fst snd]. apply IH. apply read_ivs_len in E. rewrite !skipn_length in *. lia.
  - intros H. inversion H; subst. revert E. apply read_ivs_fuel. lia.
Qed.

Theorem from_sid_block_fuel d : from_sid_block d <> Err EOutOfFuel.
Proof.
  unfold from_sid_block. unfold read_u64 at 1.
  destruct (Nat.leb_spec 8 (length d)) as [H1|H1]; cbn [bind]; [|discriminate].
  cbn [fst snd]. apply read_sids_fuel. lia.
Qed.
