(* ConnProofs.v — C05: termination, no leftovers, Error() never blocks, handler scope, exclusive use of
   the driver connection.  All statements are over `reachable c s` = any label sequence from init. *)
From GB Require Import Base.Prelude Model.Conn Proofs.ConnInv.
Open Scope nat_scope.

(* ---- enabledness helpers ---- *)
Lemma enabledb_enabled c s l : enabledb c s l = true <-> enabled c s l.
Proof.
  unfold enabledb, enabled. destruct (step c s l); split; intros H; eauto; try discriminate.
  destruct H; discriminate.
Qed.

Lemma lib_labels_complete l : is_lib l = true -> In l lib_labels.
Proof. destruct l; cbn; intros H; try discriminate; tauto. Qed.

Definition quiescentb (c : cfg) (s : state) : bool := forallb (fun l => negb (enabledb c s l)) lib_labels.

Lemma quiescentb_quiescent c s : quiescentb c s = true -> quiescent c s.
Proof.
  unfold quiescentb, quiescent. rewrite forallb_forall. intros H l Hl.
  specialize (H l (lib_labels_complete l Hl)). unfold enabledb in H.
  destruct (step c s l); [discriminate | reflexivity].
Qed.

(* ---- conn_closed ---- *)
Lemma conn_closed c s : reachable c s -> stream_returned s = true -> sock s <> SOpen.
Proof.
  intros Hr H. destruct (reachable_Inv1 _ _ Hr) as (_ & HP & _).
  unfold ps_inv, stream_returned in *. destruct (ps s); cbn in H; try discriminate. tauto.
Qed.

(* ---- handler_scope ---- *)
Lemma handler_scope c s : reachable c s ->
  hrun s <= 1 /\ (hrun s = 1 <-> in_handler s = true) /\ (stream_returned s = true -> hrun s = 0).
Proof.
  intros Hr. destruct (reachable_Inv1 _ _ Hr) as (_ & HP & _).
  unfold ps_inv, stream_returned, in_handler in *.
  destruct (ps s); cbn; destr_all; repeat split; intros; try lia; try congruence; try discriminate.
Qed.

(* handler verdicts are only consumed while the parser is inside the handler call *)
Lemma handler_labels_scope c s l s' :
  step c s l = Some s' -> (l = LHandlerOk \/ l = LHandlerErr) -> in_handler s = true /\ stream_returned s = false.
Proof.
  intros H [E|E]; subst; cbn in H; unfold in_handler, stream_returned; destruct (ps s); try discriminate; auto.
Qed.

(* ---- exclusive_conn (with the K1 exception spelled out) ---- *)
Lemma exclusive_conn_except_close_vs_read c s : reachable c s ->
  dc_r s <> None -> dc_p s <> None ->
  dc_r s = Some DReadPacket /\ dc_p s = Some DClose /\ rd s = RRead /\ exists r, ps s = PDeferClose r.
Proof.
  intros Hr H1 H2. destruct (reachable_Inv1 _ _ Hr) as (HR & HP & _).
  unfold rd_inv, ps_inv in *.
  destruct (rd s); destr_all; try congruence;
  destruct (ps s); destr_all; try congruence; eauto 6.
Qed.

(* ---- no_deadlock ---- *)
Definition pick (s : state) : label :=
  match ps s with
  | PConnect => LConnectFail
  | PStart => LStartOk
  | PProcess _ => LProcBad
  | PReturning _ => LStreamDefer
  | PDeferClose _ => LStreamReturn
  | PInHandler _ | PReturned _ => LErrorStep
  | PSelect =>
    match rd s with
    | RHold _ => LHandoff
    | RRead => match inbox s with
               | _ :: _ => LReaderRecv
               | [] => if read_fails s then LReaderReadFail else LParserSeeCancel
               end
    | RPutErr _ => LReaderPutErr
    | RCloseErr => LReaderCloseErr
    | RCloseEv => LReaderCloseEv
    | RDone => LParserSeeClosed
    | RNotStarted => LConnectOk
    end
  end.

Lemma pick_lib s : in_handler s = false -> stream_returned s = false -> is_lib (pick s) = true.
Proof.
  unfold pick, in_handler, stream_returned. destruct (ps s); cbn; try discriminate; auto.
  destruct (rd s); auto. destruct (inbox s); auto. destruct (read_fails s); auto.
Qed.

Lemma no_deadlock c s : reachable c s ->
  stop_cause_present s = true -> in_handler s = false -> stream_returned s = false ->
  exists l, is_lib l = true /\ enabled c s l.
Proof.
  intros Hr Hc Hh Hn. exists (pick s). split; [apply pick_lib; auto|].
  destruct (reachable_Inv1 _ _ Hr) as (HR & HP & HM).
  apply enabledb_enabled.
  destruct s; unfold rd_inv, ps_inv, misc_inv, stop_cause_present, sock_lost, reader_stopped, in_handler,
    stream_returned, pick, enabledb, read_fails in *; cbn in *.
  destruct ps; try discriminate; try reflexivity.
  - destruct rd; destr_all; subst; cbn; try congruence; try reflexivity.
    destruct inbox as [|p t]; cbn.
    + destruct sock; cbn in *; try reflexivity; try congruence;
        rewrite ?orb_false_r in Hc; rewrite Hc; reflexivity.
    + destruct p; reflexivity.
  - destruct sock; reflexivity.
Qed.

(* ---- progress measure ---- *)
Lemma lib_step_decreases c s l s' : step c s l = Some s' -> is_lib l = true -> mu s' < mu s.
Proof.
  intros H Hl. destruct s; unfold mu.
  destruct l; try discriminate Hl; cbn in H; break_step H; inversion H; subst; clear H; cbn; lia.
Qed.

Lemma lib_run_bounded c s ls s' : lib_run c s ls s' -> length ls + mu s' <= mu s.
Proof.
  induction 1; cbn [length]; [lia|].
  pose proof (lib_step_decreases _ _ _ _ H0 H). lia.
Qed.

(* Stream returns: any run of library steps is finite, and where it cannot be extended while a stop
   cause is present and the handler is not running, Stream has returned *)
Lemma stream_returns c s ls s' : reachable c s -> lib_run c s ls s' -> quiescent c s' ->
  stop_cause_present s' = true -> in_handler s' = false ->
  stream_returned s' = true /\ length ls <= mu s.
Proof.
  intros Hr Hl Hq Hc Hh. split.
  - destruct (stream_returned s') eqn:E; auto.
    destruct (no_deadlock c s' (reachable_lib_run _ _ _ _ Hr Hl) Hc Hh E) as (l & L1 & s2 & L2).
    rewrite (Hq l L1) in L2. discriminate.
  - pose proof (lib_run_bounded _ _ _ _ Hl). lia.
Qed.

(* ---- no_leftover (needs the D9 repair) ---- *)
Definition pick_reader (s : state) : label :=
  match rd s with
  | RRead => match inbox s with _ :: _ => LReaderRecv | [] => LReaderReadFail end
  | RHold _ => LReaderSeeCancel
  | RPutErr _ => LReaderPutErr
  | RCloseErr => LReaderCloseErr
  | _ => LReaderCloseEv
  end.

Lemma pick_reader_lib s : is_reader_lib (pick_reader s) = true.
Proof. unfold pick_reader. destruct (rd s); auto. destruct (inbox s); auto. Qed.

Lemma ecap_eq : ecap = 1.
Proof. reflexivity. Qed.

Lemma no_leftover c s : fix_d9 c = true -> reachable c s ->
  stream_returned s = true -> reader_gone s = false ->
  exists l, is_reader_lib l = true /\ enabled c s l.
Proof.
  intros Hf Hr Hs Hg. exists (pick_reader s). split; [apply pick_reader_lib|].
  destruct (reachable_Inv1 _ _ Hr) as (HR & HP & HM).
  destruct s; unfold rd_inv, ps_inv, misc_inv, reader_gone, stream_returned, pick_reader, enabled in *; cbn in *.
  destruct ps; try discriminate. destr_all. rewrite Hf in *. subst.
  destruct rd; try discriminate; destr_all; subst; cbn.
  - destruct inbox as [|p t]; cbn.
    + unfold read_fails; cbn. destruct sock; cbn; eauto; exfalso; intuition congruence.
    + destruct p; cbn; eauto.
  - unfold rctx_done; cbn. rewrite orb_true_r. eauto.
  - rewrite ecap_eq. cbn. eauto.
  - eauto.
  - eauto.
Qed.

Lemma returned_step c s l s' : step c s l = Some s' -> stream_returned s = true -> stream_returned s' = true.
Proof.
  intros H Hs. destruct s; unfold stream_returned in *; cbn in *.
  destruct ps; try discriminate.
  destruct l; cbn in H; break_step H; inversion H; subst; reflexivity.
Qed.

Lemma returned_lib_run c s ls s' : lib_run c s ls s' -> stream_returned s = true -> stream_returned s' = true.
Proof. induction 1; auto. intros. apply IHlib_run. eapply returned_step; eauto. Qed.

Lemma reader_lib_is_lib l : is_reader_lib l = true -> is_lib l = true.
Proof. destruct l; cbn; auto; discriminate. Qed.

(* after Stream returned, the library alone (no help from the environment) brings the reader to its end,
   within mu s steps *)
Lemma no_leftover_final c s ls s' : fix_d9 c = true -> reachable c s -> stream_returned s = true ->
  lib_run c s ls s' -> quiescent c s' -> reader_gone s' = true /\ length ls <= mu s.
Proof.
  intros Hf Hr Hs Hl Hq. split.
  - destruct (reader_gone s') eqn:E; auto.
    destruct (no_leftover c s' Hf (reachable_lib_run _ _ _ _ Hr Hl) (returned_lib_run _ _ _ _ Hl Hs) E)
      as (l & L1 & s2 & L2).
    rewrite (Hq l (reader_lib_is_lib _ L1)) in L2. discriminate.
  - pose proof (lib_run_bounded _ _ _ _ Hl). lia.
Qed.

(* ---- error_nonblocking (needs both repairs) ---- *)
Lemma error_nonblocking c s : fix_d9 c = true -> fix_d10 c = true -> reachable c s ->
  stream_returned s = true -> cl s = CInError ->
  enabled c s LErrorStep \/ exists l, is_reader_lib l = true /\ enabled c s l.
Proof.
  intros H9 H10 Hr Hs Hc.
  destruct (reader_gone s) eqn:Eg; [left | right; apply no_leftover; auto].
  destruct (reachable_Inv1 _ _ Hr) as (HR & HP & HM).
  destruct s; unfold rd_inv, ps_inv, misc_inv, reader_gone, stream_returned, enabled in *; cbn in *. subst.
  rewrite H10.
  destruct rd; try discriminate; destr_all; subst; cbn; eauto.
  destruct ec_buf; eauto.
Qed.

Lemma caller_lib_step c s l s' : step c s l = Some s' -> is_lib l = true ->
  cl s' = cl s \/ (cl s = CInError /\ exists r, cl s' = CReturned r).
Proof.
  intros H Hl. destruct s.
  destruct l; try discriminate Hl; cbn in H; break_step H; inversion H; subst; clear H; cbn; eauto.
Qed.

Lemma caller_returned_lib_run c s ls s' : lib_run c s ls s' -> forall r, cl s = CReturned r -> cl s' = CReturned r.
Proof.
  induction 1; intros r E; auto.
  destruct (caller_lib_step _ _ _ _ H0 H) as [E' | (E' & _)]; [|congruence].
  apply IHlib_run. congruence.
Qed.

Lemma caller_lib_run c s ls s' : lib_run c s ls s' -> cl s = CInError ->
  cl s' = CInError \/ exists r, cl s' = CReturned r.
Proof.
  induction 1; intros Hc; auto.
  destruct (caller_lib_step _ _ _ _ H0 H) as [E | (_ & r & E)].
  - apply IHlib_run. congruence.
  - right. exists r. eapply caller_returned_lib_run; eauto.
Qed.

(* after Stream returned, a pending Error() call returns within mu s library steps *)
Lemma error_returns c s ls s' : fix_d9 c = true -> fix_d10 c = true -> reachable c s ->
  stream_returned s = true -> cl s = CInError ->
  lib_run c s ls s' -> quiescent c s' -> (exists r, cl s' = CReturned r) /\ length ls <= mu s.
Proof.
  intros H9 H10 Hr Hs Hc Hl Hq. split.
  - destruct (caller_lib_run _ _ _ _ Hl Hc) as [E|E]; auto.
    destruct (error_nonblocking c s' H9 H10 (reachable_lib_run _ _ _ _ Hr Hl) (returned_lib_run _ _ _ _ Hl Hs) E)
      as [(s2 & L) | (l & L1 & s2 & L2)].
    + rewrite (Hq LErrorStep eq_refl) in L. discriminate.
    + rewrite (Hq l (reader_lib_is_lib _ L1)) in L2. discriminate.
  - pose proof (lib_run_bounded _ _ _ _ Hl). lia.
Qed.

(* ---- the pinned code: D9, D10, K1 ---- *)
Definition sched_d9 : list label :=
  [LConnectOk; LStartOk; LArrive (PkEvent (0, true)); LArrive (PkEvent (1, false)); LReaderRecv; LHandoff;
   LReaderRecv; LProcOk; LHandlerErr; LStreamDefer; LStreamReturn; LCallError].
Definition sched_d10 : list label := [LConnectFail; LStreamDefer; LCallError].
Definition sched_k1 : list label := [LConnectOk; LStartOk; LCancel; LParserSeeCancel; LStreamDefer].

(* D9: Stream has returned, the reader is parked on `eventChan <- ev`, Error() is blocked, and no library
   process can move (only a later cancellation by the caller would release them) *)
Lemma no_leftover_refuted c : fix_d9 c = false -> exists ls s,
  run c init ls = Some s /\ stream_returned s = true /\ (exists e, rd s = RHold e) /\
  reader_gone s = false /\ cl s = CInError /\ cancelled s = false /\ quiescent c s.
Proof.
  intros Hf. destruct c as [a b w k]; cbn in Hf; subst a.
  exists sched_d9. eexists. split; [vm_compute; reflexivity|].
  repeat split; try reflexivity; [eexists; reflexivity | apply quiescentb_quiescent; vm_compute; reflexivity].
Qed.

(* D10: no connection was ever made, s.errChan is nil, Error() can never return *)
Lemma s_chan_false_step c s l s' : step c s l = Some s' -> stream_returned s = true -> s_chan s' = s_chan s.
Proof.
  intros H Hs. destruct s; unfold stream_returned in *; cbn in *. destruct ps; try discriminate.
  destruct l; cbn in H; break_step H; inversion H; subst; reflexivity.
Qed.

Lemma error_blocks_for_ever c s l s' : fix_d10 c = false ->
  stream_returned s = true -> s_chan s = false -> cl s = CInError -> step c s l = Some s' ->
  stream_returned s' = true /\ s_chan s' = false /\ cl s' = CInError.
Proof.
  intros Hf Hs Hn Hc H. split; [eapply returned_step; eauto|]. split.
  - rewrite (s_chan_false_step _ _ _ _ H Hs). exact Hn.
  - destruct s; unfold stream_returned in *; cbn in *. subst. destruct ps; try discriminate.
    destruct l; cbn in H; rewrite ?Hf in H; break_step H; inversion H; subst; reflexivity.
Qed.

Lemma error_nonblocking_refuted c : fix_d10 c = false -> exists ls s,
  run c init ls = Some s /\ stream_returned s = true /\ s_chan s = false /\ cl s = CInError /\
  forall ls' s', run c s ls' = Some s' -> cl s' = CInError.
Proof.
  intros Hf.
  assert (G : forall ls' s1 s', stream_returned s1 = true /\ s_chan s1 = false /\ cl s1 = CInError ->
              run c s1 ls' = Some s' -> cl s' = CInError).
  { induction ls' as [|l r IH]; cbn; intros s1 s' (A & B & C) H.
    - inversion H; subst; auto.
    - destruct (step c s1 l) eqn:E; [|discriminate].
      eapply IH; [|exact H]. exact (error_blocks_for_ever c s1 l _ Hf A B C E). }
  destruct c as [a b w k]; cbn in Hf; subst b.
  exists sched_d10. eexists. split; [vm_compute; reflexivity|].
  repeat split; try reflexivity.
  intros ls' s' H. eapply G; [|exact H]. repeat split; reflexivity.
Qed.

(* K1: Close() runs while the reader is inside ReadPacket — on the pinned code and after the repairs *)
Lemma exclusive_conn_refuted c : exists ls s,
  run c init ls = Some s /\ dc_r s = Some DReadPacket /\ dc_p s = Some DClose.
Proof.
  exists sched_k1. eexists. split; [vm_compute; reflexivity|]. split; vm_compute; reflexivity.
Qed.

(* ---- a bound that needs no fairness and no silent environment: over ANY schedule the number of library
   steps is bounded by what the environment supplied (4 per packet that arrived, 1 per Error() call) ---- *)
Definition count_lib (tr : list label) : nat := length (filter is_lib tr).
Definition supply (l : label) : nat := match l with LArrive _ => 4 | LCallError => 1 | _ => 0 end.
Definition supplied (tr : list label) : nat := list_sum (map supply tr).

Lemma step_budget c s l s' : step c s l = Some s' ->
  mu s' + (if is_lib l then 1 else 0) <= mu s + supply l.
Proof.
  intros H. destruct (is_lib l) eqn:E.
  - pose proof (lib_step_decreases _ _ _ _ H E). lia.
  - destruct s; unfold mu. destruct l; try discriminate E; cbn in H; break_step H; inversion H; subst; clear H;
      cbn; rewrite ?app_length; cbn; lia.
Qed.

Lemma lib_steps_bounded_by_inputs c tr s : reach c tr s -> count_lib tr + mu s <= mu init + supplied tr.
Proof.
  induction 1; [cbn; lia|].
  pose proof (step_budget _ _ _ _ H0) as B.
  unfold count_lib, supplied in *. rewrite filter_app, app_length, map_app, list_sum_app. cbn [filter map list_sum length].
  change (list_sum [supply l]) with (supply l + 0).
  destruct (is_lib l); cbn [length]; lia.
Qed.
