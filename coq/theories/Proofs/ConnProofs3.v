(* ConnProofs3.v — data plane: every execution projects to the sequential view of Spec/ConnSeq.v
   (used by C04: quantifying over k and the cause covers every schedule and stop point). *)
From GB Require Import Base.Prelude Model.Conn Spec.ConnSeq Proofs.ConnInv.
Open Scope nat_scope.

(* ---- list facts ---- *)
Lemma tx_events_app a b : tx_events (a ++ b) = tx_events a ++ tx_events b.
Proof. apply filter_app. Qed.
Lemma oks_app a b : oks (a ++ b) = oks a ++ oks b.
Proof. apply map_app. Qed.
Lemma fail_last_snoc l e : fail_last (l ++ [e]) = oks l ++ [(e, false)].
Proof.
  induction l as [|x r IH]; [reflexivity|].
  cbn [app fail_last oks map]. rewrite IH.
  destruct r; reflexivity.
Qed.
Lemma events_of_app a b : events_of (a ++ b) = events_of a ++ events_of b.
Proof. apply flat_map_app. Qed.
Lemma sent_events_app a b : sent_events (a ++ b) = sent_events a ++ sent_events b.
Proof. apply flat_map_app. Qed.

(* ---- which events the parser has taken: a prefix of what the master sent, in order ---- *)
Definition reading (s : state) : bool :=
  match rd s with RNotStarted | RRead | RHold _ => true | _ => false end.

Definition DP (tr : list label) (s : state) : Prop :=
  exists suf, sent_events tr = consumed s ++ held s ++ suf ++ events_of (inbox s) /\ (reading s = true -> suf = []).

Lemma sent_events_snoc tr l :
  sent_events (tr ++ [l]) = sent_events tr ++ match l with LArrive (PkEvent e) => [e] | _ => [] end.
Proof. rewrite sent_events_app. cbn. rewrite app_nil_r. reflexivity. Qed.

Lemma DP_step c tr s l s' : Inv1 c s -> DP tr s -> step c s l = Some s' -> DP (tr ++ [l]) s'.
Proof.
  intros (HR & HP & _) (suf & E & R) H. unfold DP. rewrite sent_events_snoc.
  destruct s; unfold held, reading, rd_inv, ps_inv in *; cbn in E, R, HR, HP.
  destruct l; cbn in H; break_step H; inversion H; subst; clear H; cbn in *;
    rewrite ?app_nil_r; try solve [exists suf; split; [exact E | exact R]].
  - (* start: the reader appears *) destr_all; subst. exists suf. split; [exact E | exact R].
  - (* recv event *) specialize (R eq_refl). subst suf. exists []. split; auto.
  - (* recv EOF / ERR / out-of-sequence *) specialize (R eq_refl). subst suf. exists []. split; [exact E|discriminate].
  - specialize (R eq_refl). subst suf. exists []. split; [exact E|discriminate].
  - specialize (R eq_refl). subst suf. exists []. split; [exact E|discriminate].
  - (* read fails *) specialize (R eq_refl). subst suf. exists []. split; [exact E|discriminate].
  - (* reader sees cancel while holding e *) specialize (R eq_refl). subst suf. exists [e]. split; [exact E|discriminate].
  - (* hand-off *) specialize (R eq_refl). subst suf. exists []. split; auto.
    rewrite E. rewrite <- app_assoc. reflexivity.
  - (* arrival *) exists suf. split; [|exact R]. rewrite flat_map_app, E.
    rewrite <- !app_assoc. destruct p; cbn; rewrite ?app_nil_r; reflexivity.
Qed.

Lemma DP_reach c tr s : reach c tr s -> DP tr s.
Proof.
  induction 1; [exists []; split; auto | eapply DP_step; eauto]. eapply reach_Inv1; eauto.
Qed.

Lemma consumed_prefix c tr s : reach c tr s -> consumed s = firstn (length (consumed s)) (sent_events tr).
Proof.
  intros Hr. destruct (DP_reach _ _ _ Hr) as (suf & E & _). rewrite E.
  rewrite firstn_app, Nat.sub_diag, firstn_all. cbn. rewrite app_nil_r. reflexivity.
Qed.

(* ---- what the handler saw ---- *)
Definition HL (s : state) : Prop :=
  match ps s with
  | PProcess e => exists c0, consumed s = c0 ++ [e] /\ hlog s = oks (tx_events c0)
  | PInHandler e => exists c0, consumed s = c0 ++ [e] /\ ev_tx e = true /\ hlog s = oks (tx_events c0)
  | PReturning r | PDeferClose r | PReturned r =>
    exists cz, cause s = Some cz /\ hlog s = seq_log (consumed s) cz /\ r = result_of cz /\
               (cz = CConnect \/ cz = CStart -> consumed s = [])
  | _ => hlog s = oks (tx_events (consumed s))
  end /\
  match ps s with PConnect | PStart => consumed s = [] | _ => True end.

Lemma HL_step c s l s' : HL s -> step c s l = Some s' -> HL s'.
Proof.
  unfold HL. intros (A & B) H. destruct s; cbn in A, B.
  destruct l; cbn in H; break_step H; inversion H; subst; clear H; cbn; split; auto;
    try solve [destr_all; subst; eauto 8].
  - exists CClosed. repeat split; auto. intros [?|?]; discriminate.
  - exists CCancel. repeat split; auto. intros [?|?]; discriminate.
  - (* event without a transaction *) destruct A as (c0 & -> & ->).
    rewrite filter_app. cbn. match goal with H0 : ev_tx _ = false |- _ => rewrite H0 end.
    rewrite app_nil_r. reflexivity.
  - (* rejected event *) destruct A as (c0 & -> & ->). exists CBad. repeat split; auto.
    + cbn [seq_log]. rewrite removelast_last. reflexivity.
    + intros [?|?]; discriminate.
  - (* handler accepted *) destruct A as (c0 & -> & Ht & ->).
    rewrite filter_app, map_app. cbn. rewrite Ht. reflexivity.
  - (* handler refused *) destruct A as (c0 & -> & Ht & ->). exists CHandlerErr. repeat split; auto.
    + unfold seq_log, tx_events. rewrite filter_app. cbn [filter]. rewrite Ht. rewrite fail_last_snoc. reflexivity.
    + intros [?|?]; discriminate.
Qed.

Lemma HL_reach c s : reachable c s -> HL s.
Proof.
  intros [tr H]. induction H; [cbn; unfold HL; cbn; auto | eapply HL_step; eauto].
Qed.

(* ---- data_plane ---- *)
Lemma data_plane c tr s r : reach c tr s -> stream_result s = Some r ->
  exists k cz,
    consumed s = firstn k (sent_events tr) /\
    cause s = Some cz /\
    hlog s = seq_log (consumed s) cz /\
    r = result_of cz.
Proof.
  intros Hr Hs. exists (length (consumed s)).
  destruct (HL_reach c s (ex_intro _ tr Hr)) as (A & _).
  unfold stream_result in Hs. destruct (ps s); try discriminate. inversion Hs; subst.
  destruct A as (cz & A1 & A2 & A3 & _). exists cz. repeat split; auto.
  eapply consumed_prefix; eauto.
Qed.

(* while the attempt is still running the same holds for the events taken so far *)
Lemma data_plane_running c tr s : reach c tr s ->
  exists k, consumed s = firstn k (sent_events tr).
Proof. intros Hr. exists (length (consumed s)). eapply consumed_prefix; eauto. Qed.
