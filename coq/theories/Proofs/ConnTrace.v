(* ConnTrace.v — the ghost fields canc_pre_pe / canc_pre_ret of Model/Conn.v against the schedule (trace). *)
From GB Require Import Base.Prelude Model.Conn Proofs.ConnInv Proofs.ConnInv2 Proofs.ConnInv3.
Open Scope nat_scope.

(* ---- the ghost fields against the trace ---- *)
Definition is_cancel (l : label) : bool := match l with LCancel => true | _ => false end.
Definition is_cs (l : label) : bool := match l with LCancel | LStreamDefer => true | _ => false end.
Definition is_cr (l : label) : bool := match l with LCancel | LStreamReturn => true | _ => false end.

Lemma cbs_snoc tr l :
  cancel_before_sample (tr ++ [l]) = if existsb is_cs tr then cancel_before_sample tr else is_cancel l.
Proof.
  induction tr as [|x r IH]; [destruct l; reflexivity|].
  destruct x; cbn [app cancel_before_sample existsb is_cs orb]; auto.
Qed.

Lemma cbr_snoc tr l :
  cancel_before_return (tr ++ [l]) = if existsb is_cr tr then cancel_before_return tr else is_cancel l.
Proof.
  induction tr as [|x r IH]; [destruct l; reflexivity|].
  destruct x; cbn [app cancel_before_return existsb is_cr orb]; auto.
Qed.

Lemma cbr_has tr : cancel_before_return tr = true -> existsb is_cr tr = true.
Proof. induction tr as [|x r IH]; [discriminate|]. destruct x; cbn; auto. Qed.

Definition TI (tr : list label) (s : state) : Prop :=
  existsb is_cs tr = cancelled s || past_sample (ps s) /\
  canc_pre_pe s = cancel_before_sample tr /\
  (existsb is_cr tr = true -> cancelled s = true \/ is_returned (ps s) = true) /\
  (canc_pre_ret s = true -> cancel_before_return tr = true).

Lemma TI_step c tr s l s' : Inv2 c s -> Inv3 s -> TI tr s -> step c s l = Some s' -> TI (tr ++ [l]) s'.
Proof.
  intros (_ & _ & A3 & _) (_ & _ & B3 & _) (T1 & T2 & T3 & T4) H. unfold TI.
  rewrite cbs_snoc, cbr_snoc, !existsb_app. cbn [existsb]. rewrite !orb_false_r.
  assert (T5 : canc_pre_ret s = true -> existsb is_cr tr = true) by (intros X; apply cbr_has; auto).
  destruct s; cbn in A3, B3, T1, T2, T3, T4, T5. rewrite T1. clear T1.
  destruct (existsb is_cr tr) eqn:Ecr.
  all: destruct l; cbn in H; break_step H; inversion H; subst; clear H;
    cbn [Conn.cancelled Conn.ps Conn.canc_pre_pe Conn.canc_pre_ret past_sample is_returned is_cs is_cr is_cancel
         set_rd set_ps set_cl set_cancelled set_dcancelled set_sock set_inbox set_evclosed set_s_chan set_ec_buf
         set_ec_closed set_dc_r set_dc_p set_rreason set_ec_sent set_consumed set_hlog set_hrun set_cause
         set_canc_pre_ret set_canc_pre_call set_canc_at_err set_first_res set_ended_uncancelled set_canc_pre_pe
         orb negb] in *;
    rewrite ?orb_true_r, ?orb_false_r.
  all: destruct (cancel_before_sample tr); dvar cancelled; dvar canc_pre_ret; dvar ps; bfin.
Qed.

Lemma reach_TI c tr s : reach c tr s -> TI tr s.
Proof.
  induction 1.
  - unfold TI; cbn. repeat split; intros; discriminate.
  - eapply TI_step; eauto; [eapply reach_Inv2 | eapply reach_Inv3]; eauto.
Qed.

(* canc_pre_pe is exactly "a Cancel label occurs in the schedule with no StreamDefer label before it" *)
Lemma canc_pre_pe_sound c tr s : reach c tr s -> canc_pre_pe s = cancel_before_sample tr.
Proof. intros H. destruct (reach_TI _ _ _ H) as (_ & T & _). exact T. Qed.

Lemma canc_pre_ret_sound c tr s : reach c tr s -> canc_pre_ret s = true -> cancel_before_return tr = true.
Proof. intros H. destruct (reach_TI _ _ _ H) as (_ & _ & _ & T). exact T. Qed.

(* what the two trace functions say, in words *)
Lemma cancel_before_sample_spec tr :
  cancel_before_sample tr = true <-> exists tr1 tr2, tr = tr1 ++ LCancel :: tr2 /\ ~ In LStreamDefer tr1.
Proof.
  split.
  - induction tr as [|x r IH]; [discriminate|]. intros H.
    destruct x; try (cbn in H; destruct (IH H) as (t1 & t2 & -> & N);
      match goal with |- exists _ _, ?x :: _ = _ /\ _ => exists (x :: t1), t2 end;
      split; [reflexivity | intros [X|X]; [discriminate X | exact (N X)]]).
    + discriminate H.
    + exists [], r. split; [reflexivity | intros []].
  - intros (t1 & t2 & -> & N). induction t1 as [|x r IH]; [reflexivity|].
    assert (N' : ~ In LStreamDefer r) by (intros X; apply N; right; exact X).
    destruct x; cbn; auto. exfalso. apply N. left. reflexivity.
Qed.

Lemma cancel_before_return_spec tr :
  cancel_before_return tr = true <-> exists tr1 tr2, tr = tr1 ++ LCancel :: tr2 /\ ~ In LStreamReturn tr1.
Proof.
  split.
  - induction tr as [|x r IH]; [discriminate|]. intros H.
    destruct x; try (cbn in H; destruct (IH H) as (t1 & t2 & -> & N);
      match goal with |- exists _ _, ?x :: _ = _ /\ _ => exists (x :: t1), t2 end;
      split; [reflexivity | intros [X|X]; [discriminate X | exact (N X)]]).
    + discriminate H.
    + exists [], r. split; [reflexivity | intros []].
  - intros (t1 & t2 & -> & N). induction t1 as [|x r IH]; [reflexivity|].
    assert (N' : ~ In LStreamReturn r) by (intros X; apply N; right; exact X).
    destruct x; cbn; auto. exfalso. apply N. left. reflexivity.
Qed.
