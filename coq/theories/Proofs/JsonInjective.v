(* C14: the rendered text determines the document, up to the storage choices
   that the text does not show (integer width tags, small/large flags).
   The oracle efmt enters through its token contract (efmt_token) and through
   injectivity on the doubles that occur. *)
From GB Require Import Base.Prelude Base.DecText Base.BytesLemmas.
From GB Require Import Spec.Values Spec.EncJson Proofs.DecimalText Proofs.JsonScalars Proofs.JsonFaithful.
From Coq Require Import String.
Open Scope Z_scope.

(* ---------- spans ---------- *)
Definition stops (P : Z -> Prop) (r : bytes) : Prop :=
  r = [] \/ exists c r', r = c :: r' /\ ~ P c.

Lemma span_eq (P : Z -> Prop) : forall a b r1 r2,
  Forall P a -> Forall P b -> stops P r1 -> stops P r2 ->
  a ++ r1 = b ++ r2 -> a = b /\ r1 = r2.
Proof.
  induction a as [|x a IH]; intros b r1 r2 Ha Hb H1 H2 E.
  - destruct b as [|y b]; [split; auto|]. cbn [app] in E. subst r1.
    inversion Hb; subst. destruct H1 as [H1|(c & r & H1 & Hc)]; [discriminate|].
    inversion H1; subst. contradiction.
  - destruct b as [|y b].
    + cbn [app] in E. subst r2. inversion Ha; subst.
      destruct H2 as [H2|(c & r & H2 & Hc)]; [discriminate|]. inversion H2; subst. contradiction.
    + cbn [app] in E. inversion E; subst. inversion Ha; inversion Hb; subst.
      destruct (IH b r1 r2) as [E1 E2]; auto. split; congruence.
Qed.

Lemma stops_cons (P : Z -> Prop) c r : ~ P c -> stops P (c :: r).
Proof. intros H. right. exists c, r. split; auto. Qed.

(* E : a ++ c1 :: x = b ++ c2 :: y with a, b in P and c1, c2 outside *)
Ltac span_cons E P Ha Hb tac E1 E2 :=
  match type of E with
  | ?a ++ ?x = ?b ++ ?y =>
    destruct (span_eq P a b x y Ha Hb) as [E1 E2];
    [apply stops_cons; tac | apply stops_cons; tac | exact E | ]
  end.

Lemma app_inv_len {A} (a b x y : list A) :
  List.length a = List.length b -> a ++ x = b ++ y -> a = b /\ x = y.
Proof.
  revert b; induction a as [|h a IH]; intros [|g b] L E; cbn [List.length] in L; try discriminate.
  - split; auto.
  - cbn [app] in E. inversion E; subst. destruct (IH b) as [E1 E2]; auto. split; congruence.
Qed.

(* delimiters that follow a value inside a container *)
Definition delim (c : Z) : Prop := c = 44 \/ c = 41.
Definition term (r : bytes) : Prop := r = [] \/ exists c r', r = c :: r' /\ delim c.

Lemma term_stops (P : Z -> Prop) r : (forall c, delim c -> ~ P c) -> term r -> stops P r.
Proof. intros H [->|(c & r' & -> & Hc)]; [left; auto | right; exists c, r'; split; auto]. Qed.

Lemma digit_not_delim c : delim c -> ~ is_digit c.
Proof. unfold delim, is_digit. lia. Qed.

(* ---------- decimal text ---------- *)
Lemma digs_inj a b : 0 <= a -> 0 <= b -> digs a = digs b -> a = b.
Proof. intros Ha Hb E. rewrite <- (digs_val a), <- (digs_val b) by lia. rewrite E. reflexivity. Qed.

Lemma pad0_inj k a b : 0 <= a < 10 ^ Z.of_nat k -> 0 <= b < 10 ^ Z.of_nat k -> pad0 k a = pad0 k b -> a = b.
Proof. intros Ha Hb E. rewrite <- (pad0_val k a), <- (pad0_val k b) by lia. rewrite E. reflexivity. Qed.

Lemma digs_head_digit n : 0 <= n -> exists c t, digs n = c :: t /\ is_digit c.
Proof.
  intros Hn. pose proof (digs_digits n Hn) as Hd. pose proof (digs_nonempty n) as Hne.
  destruct (digs n) as [|c t]; [contradiction|]. inversion Hd; subst. eauto.
Qed.

Definition signed_digits (l : bytes) : Prop := Forall (fun c => is_digit c \/ c = 45) l.

Lemma digs_Z_chars z : signed_digits (digs_Z z).
Proof.
  unfold digs_Z, signed_digits. destruct (Z.ltb_spec z 0).
  - constructor; [right; reflexivity|]. eapply Forall_impl; [|apply digs_digits; lia]. intros c Hc; left; exact Hc.
  - eapply Forall_impl; [|apply digs_digits; lia]. intros c Hc; left; exact Hc.
Qed.

Lemma digs_Z_inj a b : digs_Z a = digs_Z b -> a = b.
Proof.
  unfold digs_Z. destruct (Z.ltb_spec a 0); destruct (Z.ltb_spec b 0); intros E.
  - assert (E' : digs (- a) = digs (- b)) by (apply (f_equal (@tl Z)) in E; exact E). apply digs_inj in E'; lia.
  - destruct (digs_head_digit b) as (c & t & Eb & Hc); [lia|]. rewrite Eb in E. inversion E; subst. unfold is_digit in Hc. lia.
  - destruct (digs_head_digit a) as (c & t & Ea & Hc); [lia|]. rewrite Ea in E. inversion E; subst. unfold is_digit in Hc. lia.
  - apply digs_inj; auto.
Qed.

Lemma digs_Z_span a b r1 r2 :
  term r1 -> term r2 -> digs_Z a ++ r1 = digs_Z b ++ r2 -> a = b /\ r1 = r2.
Proof.
  intros T1 T2 E.
  destruct (span_eq (fun c => is_digit c \/ c = 45) (digs_Z a) (digs_Z b) r1 r2) as [E1 E2]; auto.
  - apply digs_Z_chars.
  - apply digs_Z_chars.
  - apply term_stops; auto. intros c Hc [Hd|He]; [apply (digit_not_delim c Hc Hd) | unfold delim in Hc; lia].
  - apply term_stops; auto. intros c Hc [Hd|He]; [apply (digit_not_delim c Hc Hd) | unfold delim in Hc; lia].
  - split; [apply digs_Z_inj; auto | auto].
Qed.

Lemma dec_val_text_hour h : 0 <= h < 1000 -> dec_val (text_hour h) = h.
Proof.
  intros H. unfold text_hour. destruct (Z.ltb_spec h 100).
  - apply pad0_val. change (10 ^ Z.of_nat 2) with 100. lia.
  - apply digs_val. lia.
Qed.

Lemma text_hour_digits h : 0 <= h -> Forall is_digit (text_hour h).
Proof. intros H. unfold text_hour. destruct (h <? 100); [apply pad0_digits | apply digs_digits]; lia. Qed.

Lemma text_micro_inj a b : 0 <= a < 1000000 -> 0 <= b < 1000000 -> text_micro a = text_micro b -> a = b.
Proof.
  intros Ha Hb. unfold text_micro.
  destruct (Z.eqb_spec a 0); destruct (Z.eqb_spec b 0); intros E; try discriminate; try lia.
  assert (E' : pad0 6 a = pad0 6 b) by (apply (f_equal (@tl Z)) in E; exact E). apply (pad0_inj 6); [change (10 ^ Z.of_nat 6) with 1000000; lia | change (10 ^ Z.of_nat 6) with 1000000; lia | exact E'].
Qed.

(* ---------- contents of the CAST('...') forms ---------- *)
Ltac split_pad H E :=
  apply app_inv_len in H; [destruct H as [E H] | rewrite !pad0_length; reflexivity].
Ltac drop_head H := apply (f_equal (@tl Z)) in H; cbn [tl] in H.

Lemma text_date_inj y1 m1 d1 y2 m2 d2 x1 x2 :
  0 <= y1 < 10000 -> 0 <= m1 < 100 -> 0 <= d1 < 100 -> 0 <= y2 < 10000 -> 0 <= m2 < 100 -> 0 <= d2 < 100 ->
  text_date y1 m1 d1 ++ x1 = text_date y2 m2 d2 ++ x2 -> y1 = y2 /\ m1 = m2 /\ d1 = d2 /\ x1 = x2.
Proof.
  intros Hy1 Hm1 Hd1 Hy2 Hm2 Hd2 E. unfold text_date in E. rewrite <- !app_assoc in E. cbn [app] in E.
  split_pad E Ey. drop_head E. split_pad E Em. drop_head E. split_pad E Ed.
  apply (pad0_inj 4) in Ey; [|change (10 ^ Z.of_nat 4) with 10000; lia..].
  apply (pad0_inj 2) in Em; [|change (10 ^ Z.of_nat 2) with 100; lia..].
  apply (pad0_inj 2) in Ed; [|change (10 ^ Z.of_nat 2) with 100; lia..].
  auto.
Qed.

Lemma text_clock_inj h1 m1 s1 h2 m2 s2 x1 x2 :
  0 <= h1 < 100 -> 0 <= m1 < 100 -> 0 <= s1 < 100 -> 0 <= h2 < 100 -> 0 <= m2 < 100 -> 0 <= s2 < 100 ->
  text_clock h1 m1 s1 ++ x1 = text_clock h2 m2 s2 ++ x2 -> h1 = h2 /\ m1 = m2 /\ s1 = s2 /\ x1 = x2.
Proof.
  intros Hh1 Hm1 Hs1 Hh2 Hm2 Hs2 E. unfold text_clock in E. rewrite <- !app_assoc in E. cbn [app] in E.
  split_pad E Eh. drop_head E. split_pad E Em. drop_head E. split_pad E Es.
  apply (pad0_inj 2) in Eh; [|change (10 ^ Z.of_nat 2) with 100; lia..].
  apply (pad0_inj 2) in Em; [|change (10 ^ Z.of_nat 2) with 100; lia..].
  apply (pad0_inj 2) in Es; [|change (10 ^ Z.of_nat 2) with 100; lia..].
  auto.
Qed.

Definition time_content (neg : bool) (h mi s us : Z) : bytes :=
  (if neg then [45] else []) ++ text_hour h ++ [58] ++ pad0 2 mi ++ [58] ++ pad0 2 s ++ text_micro us.

Lemma text_hour_head h : 0 <= h -> exists c t, text_hour h = c :: t /\ is_digit c.
Proof.
  intros H. pose proof (text_hour_digits h H) as Hd.
  assert (Hne : text_hour h <> []).
  { unfold text_hour. destruct (h <? 100); [|apply digs_nonempty].
    intro E. apply (f_equal (@List.length Z)) in E. rewrite pad0_length in E. discriminate. }
  destruct (text_hour h) as [|c t]; [contradiction|]. inversion Hd; subst. eauto.
Qed.

Lemma time_content_inj n1 h1 m1 s1 u1 n2 h2 m2 s2 u2 :
  0 <= h1 < 1000 -> 0 <= m1 < 100 -> 0 <= s1 < 100 -> 0 <= u1 < 1000000 ->
  0 <= h2 < 1000 -> 0 <= m2 < 100 -> 0 <= s2 < 100 -> 0 <= u2 < 1000000 ->
  time_content n1 h1 m1 s1 u1 = time_content n2 h2 m2 s2 u2 ->
  n1 = n2 /\ h1 = h2 /\ m1 = m2 /\ s1 = s2 /\ u1 = u2.
Proof.
  intros Hh1 Hm1 Hs1 Hu1 Hh2 Hm2 Hs2 Hu2 E. unfold time_content in E.
  destruct (text_hour_head h1 ltac:(lia)) as (c1 & t1 & Eh1 & Hc1).
  destruct (text_hour_head h2 ltac:(lia)) as (c2 & t2 & Eh2 & Hc2).
  assert (En : n1 = n2).
  { destruct n1, n2; auto; rewrite ?Eh1, ?Eh2 in E; cbn [app] in E; injection E as E0 _; unfold is_digit in *; lia. }
  subst n2. apply app_inv_head in E.
  destruct (span_eq is_digit (text_hour h1) (text_hour h2)
              ([58] ++ pad0 2 m1 ++ [58] ++ pad0 2 s1 ++ text_micro u1)
              ([58] ++ pad0 2 m2 ++ [58] ++ pad0 2 s2 ++ text_micro u2)) as [Eh E'].
  - apply text_hour_digits; lia.
  - apply text_hour_digits; lia.
  - right. eexists _, _. split; [reflexivity|]. unfold is_digit. lia.
  - right. eexists _, _. split; [reflexivity|]. unfold is_digit. lia.
  - exact E.
  - assert (h1 = h2) by (rewrite <- (dec_val_text_hour h1), <- (dec_val_text_hour h2) by lia; rewrite Eh; reflexivity).
    cbn [app] in E'. drop_head E'. split_pad E' Em. drop_head E'. split_pad E' Es.
    apply (pad0_inj 2) in Em; [|change (10 ^ Z.of_nat 2) with 100; lia..].
    apply (pad0_inj 2) in Es; [|change (10 ^ Z.of_nat 2) with 100; lia..].
    apply text_micro_inj in E'; auto.
Qed.

(* DECIMAL text: shared lemmas are in Proofs/DecimalText.v *)
Lemma int_text_inj a b :
  digit_vals a -> digit_vals b -> List.length a = List.length b -> int_text a = int_text b -> a = b.
Proof.
  intros Ha Hb L E. unfold int_text in E.
  destruct (strip0_decomp a) as (ka & Ea & Sa). destruct (strip0_decomp b) as (kb & Eb & Sb).
  assert (Es : strip0 a = strip0 b).
  { destruct (strip0 a) as [|ca ta] eqn:Xa; destruct (strip0 b) as [|cb tb] eqn:Xb; auto.
    - destruct Sb as [Sb|(c & t & Sb & Hc)]; [discriminate|]. injection Sb as Sb1 Sb2. subst c t.
      unfold digit_chars in E. cbn [map] in E. apply (f_equal (fun l => hd 0 l)) in E. cbn [hd] in E. lia.
    - destruct Sa as [Sa|(c & t & Sa & Hc)]; [discriminate|]. injection Sa as Sa1 Sa2. subst c t.
      unfold digit_chars in E. cbn [map] in E. apply (f_equal (fun l => hd 0 l)) in E. cbn [hd] in E. lia.
    - apply digit_chars_inj. exact E. }
  rewrite Ea, Eb, Es in L |- *. rewrite !app_length, !repeat_length in L.
  assert (ka = kb) by lia. subst kb. reflexivity.
Qed.

Lemma text_decimal_inj n1 i1 f1 n2 i2 f2 :
  digit_vals i1 -> digit_vals f1 -> digit_vals i2 -> digit_vals f2 ->
  List.length i1 = List.length i2 -> List.length f1 = List.length f2 ->
  text_decimal n1 i1 f1 = text_decimal n2 i2 f2 -> n1 = n2 /\ i1 = i2 /\ f1 = f2.
Proof.
  intros Hi1 Hf1 Hi2 Hf2 Li Lf E. rewrite !text_decimal_eq in E.
  destruct (int_text_digits i1 Hi1) as [D1 N1]. destruct (int_text_digits i2 Hi2) as [D2 N2].
  assert (En : n1 = n2).
  { destruct n1, n2; auto; cbn [app] in E.
    - destruct (int_text i2) as [|c t]; [contradiction|]. inversion D2; subst. cbn [app] in E. injection E as E0 _. unfold is_digit in *. lia.
    - destruct (int_text i1) as [|c t]; [contradiction|]. inversion D1; subst. cbn [app] in E. injection E as E0 _. unfold is_digit in *. lia. }
  subst n2. apply app_inv_head in E.
  assert (St : forall f, stops is_digit (frac_text f)).
  { intros f. unfold frac_text. destruct f; [left; reflexivity|]. right. eexists _, _. split; [reflexivity|]. unfold is_digit. lia. }
  destruct (span_eq is_digit (int_text i1) (int_text i2) (frac_text f1) (frac_text f2)) as [Ei Ef]; auto.
  split; [reflexivity|]. split; [apply int_text_inj; auto|].
  unfold frac_text in Ef. destruct f1 as [|a f1], f2 as [|b f2]; auto; try discriminate.
  apply (f_equal (@tl Z)) in Ef. cbn [tl] in Ef. apply digit_chars_inj. exact Ef.
Qed.

(* ---------- lists of values separated by commas, closed by a parenthesis ---------- *)
Lemma sep_by_cons (x : bytes) r T :
  sep_by [44] (x :: r) ++ T = x ++ (match r with [] => T | _ => 44 :: sep_by [44] r ++ T end).
Proof. destruct r; cbn [sep_by]; [reflexivity|]. rewrite <- !app_assoc. reflexivity. Qed.

Section ListInj.
Variables (X Y : Type) (txt : X -> bytes) (nrm : X -> Y) (ok : X -> Prop).
Hypothesis txt_head : forall x, ok x -> exists c t, txt x = c :: t /\ c <> 41.

Definition elem_inj (x1 : X) : Prop :=
  forall x2 K1 K2, ok x1 -> ok x2 -> term K1 -> term K2 -> txt x1 ++ K1 = txt x2 ++ K2 -> nrm x1 = nrm x2 /\ K1 = K2.

Lemma list_inj : forall l1, Forall elem_inj l1 -> Forall ok l1 ->
  forall l2 r1 r2, Forall ok l2 ->
  sep_by [44] (map txt l1) ++ 41 :: r1 = sep_by [44] (map txt l2) ++ 41 :: r2 ->
  map nrm l1 = map nrm l2 /\ r1 = r2.
Proof.
  induction l1 as [|x1 t1 IH]; intros HI Hok1 l2 r1 r2 Hok2 E.
  - destruct l2 as [|x2 t2].
    + cbn [map sep_by app] in E. split; [reflexivity | congruence].
    + exfalso. inversion Hok2; subst. destruct (txt_head x2) as (c & t & Ec & Hc); auto.
      cbn [map] in E. rewrite sep_by_cons, Ec in E. cbn [sep_by app] in E. congruence.
  - destruct l2 as [|x2 t2].
    + exfalso. inversion Hok1; subst. destruct (txt_head x1) as (c & t & Ec & Hc); auto.
      cbn [map] in E. rewrite sep_by_cons, Ec in E. cbn [sep_by app] in E. congruence.
    + inversion HI as [|? ? Hx1 Ht1]; subst. inversion Hok1 as [|? ? Ox1 Ot1]; subst.
      inversion Hok2 as [|? ? Ox2 Ot2]; subst.
      cbn [map] in E. rewrite !sep_by_cons in E.
      set (K1 := match map txt t1 with [] => 41 :: r1 | _ => 44 :: sep_by [44] (map txt t1) ++ 41 :: r1 end) in E.
      set (K2 := match map txt t2 with [] => 41 :: r2 | _ => 44 :: sep_by [44] (map txt t2) ++ 41 :: r2 end) in E.
      assert (T1 : term K1) by (unfold K1; destruct (map txt t1); right; eexists _, _; (split; [reflexivity|]); unfold delim; lia).
      assert (T2 : term K2) by (unfold K2; destruct (map txt t2); right; eexists _, _; (split; [reflexivity|]); unfold delim; lia).
      destruct (Hx1 x2 K1 K2 Ox1 Ox2 T1 T2 E) as [En EK].
      unfold K1, K2 in EK.
      destruct t1 as [|y1 u1]; destruct t2 as [|y2 u2]; cbn [map] in EK.
      * split; [cbn [map]; congruence | congruence].
      * discriminate.
      * discriminate.
      * assert (EK' : sep_by [44] (map txt (y1 :: u1)) ++ 41 :: r1 = sep_by [44] (map txt (y2 :: u2)) ++ 41 :: r2)
          by (apply (f_equal (@tl Z)) in EK; exact EK).
        destruct (IH Ht1 Ot1 (y2 :: u2) r1 r2 Ot2 EK') as [Em Er].
        split; [cbn [map] in *; congruence | exact Er].
Qed.
End ListInj.

(* ---------- the first character tells the group of a value ---------- *)
Definition numhead (c : Z) : Prop := 48 <= c <= 57 \/ c = 45 \/ c = 43 \/ c = 78.

Definition grp (d : jdoc) : Z :=
  match d with
  | JObj _ _ | JArr _ _ => 74
  | JNull => 110 | JTrue => 116 | JFalse => 102
  | JInt16 _ | JUint16 _ | JInt32 _ | JUint32 _ | JInt64 _ | JUint64 _ | JDouble _ => 0
  | JStr _ => 39
  | JDate _ _ _ | JTime _ _ _ _ _ | JDateTime _ _ _ _ _ _ _ | JDecimal _ _ _ _ _ => 67
  end.

Lemma grp_vals d : grp d = 0 \/ grp d = 74 \/ grp d = 110 \/ grp d = 116 \/ grp d = 102 \/ grp d = 39 \/ grp d = 67.
Proof. destruct d; cbn [grp]; lia. Qed.

Lemma digs_Z_head z : exists c t, digs_Z z = c :: t /\ numhead c.
Proof.
  unfold digs_Z. destruct (Z.ltb_spec z 0).
  - eexists _, _. split; [reflexivity|]. unfold numhead. lia.
  - destruct (digs_head_digit z) as (c & t & E & Hc); [lia|]. exists c, t. split; auto. unfold numhead, is_digit in *. lia.
Qed.

Section Injective.
Variable efmt : Z -> bytes.
Hypothesis Htok : efmt_token efmt.
Hypothesis Hinj : efmt_injective efmt.

Notation render := (render efmt).
Notation render_top := (render_top efmt).

Lemma render_head d : exists c t, render d = c :: t /\ (if grp d =? 0 then numhead c else c = grp d).
Proof.
  destruct d; cbn [render grp]; try (eexists _, _; split; [reflexivity | reflexivity]);
    try (destruct (digs_Z_head z) as (c & t & E & Hc); exists c, t; split; [exact E | exact Hc]).
  destruct (Htok bits) as (_ & (c & t & E & Hc) & _). exists c, t. split; [exact E | exact Hc].
Qed.

Lemma render_head_not_close d : exists c t, render d = c :: t /\ c <> 41.
Proof.
  destruct (render_head d) as (c & t & E & Hc). exists c, t. split; auto.
  destruct (Z.eqb_spec (grp d) 0); [unfold numhead in Hc; lia|]. pose proof (grp_vals d). lia.
Qed.

Lemma grp_eq d1 d2 r1 r2 : render d1 ++ r1 = render d2 ++ r2 -> grp d1 = grp d2.
Proof.
  intros E. destruct (render_head d1) as (c1 & t1 & E1 & H1). destruct (render_head d2) as (c2 & t2 & E2 & H2).
  rewrite E1, E2 in E. cbn [app] in E. assert (c1 = c2) by congruence. subst c2.
  pose proof (grp_vals d1). pose proof (grp_vals d2).
  destruct (Z.eqb_spec (grp d1) 0); destruct (Z.eqb_spec (grp d2) 0); unfold numhead in *; lia.
Qed.

(* the four CAST('...' AS T) forms *)
Definition content (d : jdoc) : bytes :=
  match d with
  | JDate y m dd => text_date y m dd
  | JTime neg h mi s us => time_content neg h mi s us
  | JDateTime y m dd h mi s us => text_date y m dd ++ [32] ++ text_clock h mi s ++ text_micro us
  | JDecimal _ _ neg ip fp => text_decimal neg ip fp
  | _ => []
  end.
Definition suffix (d : jdoc) : bytes :=
  match d with
  | JDate _ _ _ => str "DATE)"
  | JTime _ _ _ _ _ => str "TIME(6))"
  | JDateTime _ _ _ _ _ _ _ => str "DATETIME(6))"
  | JDecimal p s _ _ _ => str "DECIMAL(" ++ digs p ++ [44] ++ digs s ++ str "))"
  | _ => []
  end.

Lemma render_opaque d : grp d = 67 -> render d = str "CAST('" ++ content d ++ str "' AS " ++ suffix d.
Proof.
  destruct d; cbn [grp]; intros G; try discriminate; cbn [render content suffix]; unfold time_content;
    rewrite <- ?app_assoc; reflexivity.
Qed.

Definition noquote (c : Z) : Prop := c <> 39.

Lemma digits_noquote l : Forall is_digit l -> Forall noquote l.
Proof. intros H. eapply Forall_impl; [|exact H]. unfold is_digit, noquote. intros; lia. Qed.

Ltac nq1 := constructor; [unfold noquote; lia | constructor].

Lemma content_noquote d : wf_doc d -> grp d = 67 -> Forall noquote (content d).
Proof.
  unfold wf_doc. destruct d; cbn [grp]; intros Hwf G; try discriminate; cbn [wf_docb] in Hwf; boolprops; cbn [content].
  - unfold text_date. repeat (apply Forall_app; split); try nq1; apply digits_noquote, pad0_digits; lia.
  - unfold time_content. repeat (apply Forall_app; split); try nq1.
    + destruct neg; [nq1 | constructor].
    + apply digits_noquote, text_hour_digits; lia.
    + apply digits_noquote, pad0_digits; lia.
    + apply digits_noquote, pad0_digits; lia.
    + unfold text_micro. destruct (us =? 0); [constructor|]. constructor; [unfold noquote; lia|]. apply digits_noquote, pad0_digits; lia.
  - unfold text_date, text_clock. repeat (apply Forall_app; split); try nq1; try (apply digits_noquote, pad0_digits; lia).
    unfold text_micro. destruct (us =? 0); [constructor|]. constructor; [unfold noquote; lia|]. apply digits_noquote, pad0_digits; lia.
  - unfold wf_decimalb in *. boolprops.
    pose proof (digitsb_vals ip ltac:(assumption)) as Hi. pose proof (digitsb_vals fp ltac:(assumption)) as Hf.
    rewrite text_decimal_eq. repeat (apply Forall_app; split).
    + destruct neg; [nq1 | constructor].
    + apply digits_noquote. apply (int_text_digits ip Hi).
    + unfold frac_text. destruct fp; [constructor|]. constructor; [unfold noquote; lia|].
      apply digits_noquote, digit_chars_digits. exact Hf.
Qed.

Lemma str_cast : str "CAST('" = [67; 65; 83; 84; 40; 39]. Proof. reflexivity. Qed.
Lemma str_as : str "' AS " = [39; 32; 65; 83; 32]. Proof. reflexivity. Qed.

(* two CAST forms: same content, and the type suffixes continue equally *)
Lemma opaque_split d1 d2 r1 r2 :
  wf_doc d1 -> wf_doc d2 -> grp d1 = 67 -> grp d2 = 67 ->
  render d1 ++ r1 = render d2 ++ r2 ->
  content d1 = content d2 /\ suffix d1 ++ r1 = suffix d2 ++ r2.
Proof.
  intros W1 W2 G1 G2 E. rewrite (render_opaque d1 G1), (render_opaque d2 G2) in E.
  rewrite <- !app_assoc in E. apply app_inv_head in E.
  rewrite str_as in E. cbn [app] in E.
  span_cons E noquote (content_noquote d1 W1 G1) (content_noquote d2 W2 G2) ltac:(unfold noquote; lia) Ec Et.
  split; [exact Ec|]. injection Et as Et. exact Et.
Qed.

Lemma str_date : str "DATE)" = [68; 65; 84; 69; 41]. Proof. reflexivity. Qed.
Lemma str_time : str "TIME(6))" = [84; 73; 77; 69; 40; 54; 41; 41]. Proof. reflexivity. Qed.
Lemma str_datetime : str "DATETIME(6))" = [68; 65; 84; 69; 84; 73; 77; 69; 40; 54; 41; 41]. Proof. reflexivity. Qed.
Lemma str_decimal : str "DECIMAL(" = [68; 69; 67; 73; 77; 65; 76; 40]. Proof. reflexivity. Qed.

Definition okd (d : jdoc) : Prop := wf_doc d /\ finite_doubles d = true.

(* the statement proved by induction: a rendered value followed by a
   delimiter (or nothing) determines the value and what follows *)
Definition inj_at (d1 : jdoc) : Prop :=
  forall d2 r1 r2, okd d1 -> okd d2 -> term r1 -> term r2 ->
  render d1 ++ r1 = render d2 ++ r2 -> norm d1 = norm d2 /\ r1 = r2.

Definition nodelim (c : Z) : Prop := c <> 44 /\ c <> 41.

Lemma term_stops_nodelim r : term r -> stops nodelim r.
Proof. apply term_stops. intros c Hc [H1 H2]. unfold delim in Hc. lia. Qed.

Lemma efmt_nodelim b : Forall nodelim (efmt b).
Proof.
  apply Forall_forall. intros c Hc. destruct (Htok b) as (H & _). specialize (H c Hc). unfold nodelim. lia.
Qed.

Lemma digs_Z_nodelim z : Forall nodelim (digs_Z z).
Proof.
  eapply Forall_impl; [|apply digs_Z_chars]. intros c [Hc|Hc]; unfold nodelim, is_digit in *; lia.
Qed.

Lemma int_vs_double z b r1 r2 : term r1 -> term r2 -> digs_Z z ++ r1 = efmt b ++ r2 -> False.
Proof.
  intros T1 T2 E.
  destruct (span_eq nodelim _ _ _ _ (digs_Z_nodelim z) (efmt_nodelim b) (term_stops_nodelim _ T1) (term_stops_nodelim _ T2) E) as [E1 _].
  destruct (Htok b) as (_ & _ & H). apply (H z). symmetry. exact E1.
Qed.

Lemma scalar_inj d1 : is_scalar d1 -> inj_at d1.
Proof.
  intros Hsc d2 r1 r2 [W1 F1] [W2 F2] T1 T2 E.
  pose proof (grp_eq d1 d2 r1 r2 E) as G.
  destruct (Z.eq_dec (grp d1) 67) as [G67|G67].
  - (* CAST forms *)
    assert (G2 : grp d2 = 67) by congruence.
    destruct (opaque_split d1 d2 r1 r2 W1 W2 G67 G2 E) as [Ec Es].
    unfold wf_doc in W1, W2.
    destruct d1; cbn [grp] in G67; try discriminate; destruct d2; cbn [grp] in G2; try discriminate;
      cbn [suffix] in Es; rewrite ?str_date, ?str_time, ?str_datetime, ?str_decimal in Es; cbn [app] in Es;
      try discriminate; cbn [content] in Ec; cbn [wf_docb] in W1, W2; boolprops; cbn [norm].
    + (* date *) rewrite <- (app_nil_r (text_date y m d)), <- (app_nil_r (text_date y0 m0 d0)) in Ec.
      apply text_date_inj in Ec; try lia. destruct Ec as (-> & -> & -> & _).
      split; [reflexivity|]. injection Es as Es. exact Es.
    + (* time *) apply time_content_inj in Ec; try lia. destruct Ec as (-> & -> & -> & -> & ->).
      split; [reflexivity|]. injection Es as Es. exact Es.
    + (* datetime *) apply text_date_inj in Ec; try lia.
      destruct Ec as (-> & -> & -> & Ec). cbn [app] in Ec. apply (f_equal (@tl Z)) in Ec. cbn [tl] in Ec.
      apply text_clock_inj in Ec; try lia. destruct Ec as (-> & -> & -> & Ec).
      apply text_micro_inj in Ec; try lia. subst. split; [reflexivity|]. injection Es as Es. exact Es.
    + (* decimal *)
      cbn [wf_type] in *. unfold wf_decimalb in *. boolprops.
      assert (Es' : digs p ++ 44 :: digs s ++ 41 :: 41 :: r1 = digs p0 ++ 44 :: digs s0 ++ 41 :: 41 :: r2).
      { do 8 (apply (f_equal (@tl Z)) in Es; cbn [tl] in Es).
        change (str "))") with [41; 41] in Es.
        repeat (progress (rewrite <- ?app_assoc in Es; cbn [app] in Es)). exact Es. }
      span_cons Es' is_digit (digs_digits p ltac:(lia)) (digs_digits p0 ltac:(lia)) ltac:(unfold is_digit; lia) Ep Es2.
      apply digs_inj in Ep; try lia. rewrite <- Ep in *. clear Ep.
      apply (f_equal (@tl Z)) in Es2. cbn [tl] in Es2.
      span_cons Es2 is_digit (digs_digits s ltac:(lia)) (digs_digits s0 ltac:(lia)) ltac:(unfold is_digit; lia) Esc Es3.
      apply digs_inj in Esc; try lia. rewrite <- Esc in *. clear Esc.
      assert (Er : r1 = r2) by (do 2 (apply (f_equal (@tl Z)) in Es3; cbn [tl] in Es3); exact Es3).
      apply text_decimal_inj in Ec; try (apply digitsb_vals; assumption); unfold len in *; try lia.
      destruct Ec as (-> & -> & ->). split; [reflexivity | exact Er].
  - (* everything else *)
    destruct d1; cbn [is_scalar] in Hsc; try contradiction; cbn [grp] in G, G67; try (exfalso; apply G67; reflexivity);
      destruct d2; cbn [grp] in G; try discriminate; cbn [render] in E; cbn [norm];
      try (split; [reflexivity | apply app_inv_head in E; exact E]);
      try (destruct (digs_Z_span _ _ _ _ T1 T2 E) as [-> Er]; split; [reflexivity | exact Er]);
      try (exfalso; apply (int_vs_double _ _ _ _ T1 T2 E));
      try (exfalso; symmetry in E; apply (int_vs_double _ _ _ _ T2 T1 E)).
    + (* double / double *)
      destruct (span_eq nodelim _ _ _ _ (efmt_nodelim bits) (efmt_nodelim bits0)
                        (term_stops_nodelim _ T1) (term_stops_nodelim _ T2) E) as [Eb Er].
      cbn [finite_doubles] in F1, F2. rewrite (Hinj bits bits0 F1 F2 Eb). split; [reflexivity | exact Er].
    + (* string / string *)
      unfold wf_doc in W1, W2. cbn [wf_docb] in W1, W2. boolprops.
      apply (f_equal (@tl Z)) in E. cbn [tl app] in E. rewrite <- !app_assoc in E. cbn [app] in E.
      assert (Pq : forall t, plain t = true -> Forall noquote t).
      { intros sx Hs. unfold plain in Hs. rewrite forallb_forall in Hs. apply Forall_forall. intros c Hc.
        specialize (Hs c Hc). unfold plain_char in Hs. boolprops.
        unfold noquote. intro; subst c. discriminate. }
      span_cons E noquote (Pq s ltac:(assumption)) (Pq s0 ltac:(assumption)) ltac:(unfold noquote; lia) Es Er.
      subst s0. split; [reflexivity|]. injection Er as Er. exact Er.
Qed.

(* ---------- containers ---------- *)
Lemma str_obj : str "JSON_OBJECT(" = [74; 83; 79; 78; 95; 79; 66; 74; 69; 67; 84; 40]. Proof. reflexivity. Qed.
Lemma str_arr : str "JSON_ARRAY(" = [74; 83; 79; 78; 95; 65; 82; 82; 65; 89; 40]. Proof. reflexivity. Qed.

Definition member_ok (kv : bytes * jdoc) : Prop := plain (fst kv) = true /\ okd (snd kv).
Definition member_txt (kv : bytes * jdoc) : bytes := 39 :: fst kv ++ [39; 44] ++ render (snd kv).
Definition member_nrm (kv : bytes * jdoc) : bytes * jdoc := (fst kv, norm (snd kv)).

Lemma plain_noquote s : plain s = true -> Forall noquote s.
Proof.
  intros Hs. unfold plain in Hs. rewrite forallb_forall in Hs. apply Forall_forall. intros c Hc.
  specialize (Hs c Hc). unfold plain_char in Hs. boolprops. unfold noquote. intro; subst c. discriminate.
Qed.

Lemma member_inj kv : inj_at (snd kv) -> elem_inj (bytes * jdoc) (bytes * jdoc) member_txt member_nrm member_ok kv.
Proof.
  intros IH kv2 K1 K2 [P1 O1] [P2 O2] T1 T2 E. unfold member_txt in E.
  apply (f_equal (@tl Z)) in E. cbn [tl app] in E.
  repeat (progress (rewrite <- ?app_assoc in E; cbn [app] in E)).
  span_cons E noquote (plain_noquote _ P1) (plain_noquote _ P2) ltac:(unfold noquote; lia) Ek Et.
  do 2 (apply (f_equal (@tl Z)) in Et; cbn [tl] in Et).
  destruct (IH (snd kv2) K1 K2 O1 O2 T1 T2 Et) as [En EK].
  split; [|exact EK]. unfold member_nrm. rewrite Ek, En. reflexivity.
Qed.

Lemma okd_obj large kvs : okd (JObj large kvs) -> Forall member_ok kvs.
Proof.
  intros [W F]. unfold wf_doc in W. cbn [wf_docb finite_doubles] in W, F.
  apply andb_true_iff in W as [W _]. rewrite forallb_forall in W, F. apply Forall_forall. intros kv Hin.
  specialize (W kv Hin). specialize (F kv Hin). boolprops. repeat split; assumption.
Qed.

Lemma okd_arr large vs : okd (JArr large vs) -> Forall okd vs.
Proof.
  intros [W F]. unfold wf_doc in W. cbn [wf_docb finite_doubles] in W, F.
  apply andb_true_iff in W as [W _]. rewrite forallb_forall in W, F. apply Forall_forall. intros v Hin.
  split; [exact (W v Hin) | exact (F v Hin)].
Qed.

Theorem render_inj_gen : forall d1, inj_at d1.
Proof.
  induction d1 as [large kvs IH | large vs IH | d Hsc] using jdoc_ind_nested.
  - (* object *)
    intros d2 r1 r2 O1 O2 T1 T2 E. pose proof (grp_eq _ _ _ _ E) as G.
    destruct d2; cbn [grp] in G; try discriminate.
    + cbn [render] in E. rewrite <- !app_assoc in E. apply app_inv_head in E. cbn [app] in E.
      destruct (list_inj (bytes * jdoc) (bytes * jdoc) member_txt member_nrm member_ok) with (l1 := kvs) (l2 := kvs0) (r1 := r1) (r2 := r2)
        as [Em Er].
      * intros x _. exists 39, (fst x ++ [39; 44] ++ render (snd x)). split; [reflexivity | lia].
      * apply Forall_forall. intros kv Hin. apply member_inj. rewrite Forall_forall in IH. exact (IH kv Hin).
      * apply (okd_obj large). exact O1.
      * apply (okd_obj large0). exact O2.
      * exact E.
      * split; [|exact Er]. cbn [norm]. f_equal. exact Em.
  - (* array *)
    intros d2 r1 r2 O1 O2 T1 T2 E. pose proof (grp_eq _ _ _ _ E) as G.
    destruct d2; cbn [grp] in G; try discriminate.
    + cbn [render] in E. rewrite <- !app_assoc in E. apply app_inv_head in E. cbn [app] in E.
      destruct (list_inj jdoc jdoc render norm okd) with (l1 := vs) (l2 := vs0) (r1 := r1) (r2 := r2) as [Em Er].
      * intros x _. apply render_head_not_close.
      * eapply Forall_impl; [|exact IH]. intros v Hv. exact Hv.
      * apply (okd_arr large). exact O1.
      * apply (okd_arr large0). exact O2.
      * exact E.
      * split; [|exact Er]. cbn [norm]. f_equal. exact Em.
  - apply scalar_inj. exact Hsc.
Qed.

Lemma term_nil : term []. Proof. left. reflexivity. Qed.

Theorem render_injective_okd d1 d2 : okd d1 -> okd d2 -> render d1 = render d2 -> norm d1 = norm d2.
Proof.
  intros O1 O2 E. apply (render_inj_gen d1 d2 [] [] O1 O2 term_nil term_nil). rewrite !app_nil_r. exact E.
Qed.

(* ---------- the whole column value ---------- *)
Lemma top_cases d :
  (grp d = 74 /\ render_top d = render d) \/
  ((grp d = 0 \/ grp d = 110 \/ grp d = 116 \/ grp d = 102) /\ render_top d = 39 :: render d ++ [39]) \/
  (exists s, d = JStr s) \/
  (grp d = 67 /\ render_top d = str "CAST(" ++ render d ++ str " AS JSON)").
Proof.
  destruct d; cbn [grp render_top];
    try (left; split; reflexivity);
    try (right; left; split; [lia | reflexivity]);
    try (right; right; left; eexists; reflexivity);
    try (right; right; right; split; reflexivity).
Qed.

Lemma head_of_grp d c t : render d = c :: t -> grp d <> 0 -> c = grp d.
Proof.
  intros E G. destruct (render_head d) as (c' & t' & E' & H). rewrite E in E'. injection E' as -> ->.
  destruct (Z.eqb_spec (grp d) 0); [contradiction | exact H].
Qed.

Theorem render_top_injective_okd d1 d2 : okd d1 -> okd d2 -> render_top d1 = render_top d2 -> norm d1 = norm d2.
Proof.
  intros O1 O2 E.
  destruct (render_head d1) as (c1 & t1 & H1 & C1). destruct (render_head d2) as (c2 & t2 & H2 & C2).
  destruct (top_cases d1) as [[G1 R1]|[[G1 R1]|[[s1 S1]|[G1 R1]]]];
  destruct (top_cases d2) as [[G2 R2]|[[G2 R2]|[[s2 S2]|[G2 R2]]]];
    try subst d1; try subst d2; cbn [render_top] in E; rewrite ?R1, ?R2 in E.
  - apply render_injective_okd; auto.
  - exfalso. rewrite H1 in E. injection E as E _. rewrite G1 in C1. cbn in C1. lia.
  - exfalso. rewrite H1 in E. change (str "'""") with [39; 34] in E. cbn [app] in E. injection E as E _. rewrite G1 in C1. cbn in C1. lia.
  - exfalso. rewrite H1 in E. change (str "CAST(") with [67; 65; 83; 84; 40] in E. cbn [app] in E. injection E as E _. rewrite G1 in C1. cbn in C1. lia.
  - exfalso. rewrite H2 in E. injection E as E _. rewrite G2 in C2. cbn in C2. lia.
  - apply (f_equal (@tl Z)) in E. cbn [tl] in E. apply app_inv_tail in E. apply render_injective_okd; auto.
  - exfalso. rewrite H1 in E. change (str "'""") with [39; 34] in E. cbn [app] in E.
    apply (f_equal (@tl Z)) in E. cbn [tl] in E. injection E as E _.
    destruct (Z.eqb_spec (grp d1) 0); [unfold numhead in C1; lia | lia].
  - exfalso. change (str "CAST(") with [67; 65; 83; 84; 40] in E. cbn [app] in E. discriminate.
  - exfalso. rewrite H2 in E. change (str "'""") with [39; 34] in E. cbn [app] in E. injection E as E _. rewrite G2 in C2. cbn in C2. lia.
  - exfalso. rewrite H2 in E. change (str "'""") with [39; 34] in E. cbn [app] in E.
    apply (f_equal (@tl Z)) in E. cbn [tl] in E. injection E as E _.
    destruct (Z.eqb_spec (grp d2) 0); [unfold numhead in C2; lia | lia].
  - apply app_inv_head in E. apply app_inv_tail in E. subst s2. reflexivity.
  - exfalso. change (str "'""") with [39; 34] in E. change (str "CAST(") with [67; 65; 83; 84; 40] in E. cbn [app] in E. discriminate.
  - exfalso. rewrite H2 in E. change (str "CAST(") with [67; 65; 83; 84; 40] in E. cbn [app] in E. injection E as E _. rewrite G2 in C2. cbn in C2. lia.
  - exfalso. change (str "CAST(") with [67; 65; 83; 84; 40] in E. cbn [app] in E. discriminate.
  - exfalso. change (str "'""") with [39; 34] in E. change (str "CAST(") with [67; 65; 83; 84; 40] in E. cbn [app] in E. discriminate.
  - apply app_inv_head in E. apply app_inv_tail in E. apply render_injective_okd; auto.
Qed.

End Injective.

(* statements in the form used by Props/C14.v *)
Theorem render_injective efmt :
  efmt_token efmt -> efmt_injective efmt -> forall d1 d2,
  wf_doc d1 -> wf_doc d2 -> finite_doubles d1 = true -> finite_doubles d2 = true ->
  render efmt d1 = render efmt d2 -> jequiv d1 d2.
Proof. intros Ht Hi d1 d2 W1 W2 F1 F2 E. apply (render_injective_okd efmt Ht Hi); [split|split|]; assumption. Qed.

Theorem render_top_injective efmt :
  efmt_token efmt -> efmt_injective efmt -> forall d1 d2,
  wf_doc d1 -> wf_doc d2 -> finite_doubles d1 = true -> finite_doubles d2 = true ->
  render_top efmt d1 = render_top efmt d2 -> jequiv d1 d2.
Proof. intros Ht Hi d1 d2 W1 W2 F1 F2 E. apply (render_top_injective_okd efmt Ht Hi); [split|split|]; assumption. Qed.
