(* Every function of gen/Trans.v (translated from the Go sources by harness/cmd/gotrans on every run) computes what
   the hand-written model function does: the model the property theorems are about is tied to the source by proof,
   for all inputs, in addition to the differential harness. *)
From Coq Require Import ZifyBool.
From GB Require Import Base.Prelude Base.GoSem Base.BytesLemmas Proofs.GoSemLemmas Proofs.TransTactics.
From GB Require Import Model.Header Model.Cell Model.Events Model.Rbr.
From GBGen Require Import Consts Structure TransCell.
Open Scope Z_scope.
Ltac Zify.zify_post_hook ::= Z.to_euclidean_division_equations.

Ltac unfold_types :=
  cbv [K_TypeBit K_TypeBlob K_TypeDate K_TypeDateTime K_TypeDateTime2 K_TypeDecimal K_TypeDouble K_TypeEnum K_TypeFloat
       K_TypeGeometry K_TypeInt24 K_TypeJSON K_TypeLong K_TypeLongBlob K_TypeLongLong K_TypeMediumBlob K_TypeNewDate
       K_TypeNewDecimal K_TypeNull K_TypeSet K_TypeShort K_TypeString K_TypeTime K_TypeTime2 K_TypeTimestamp
       K_TypeTimestamp2 K_TypeTiny K_TypeTinyBlob K_TypeVarString K_TypeVarchar K_TypeYear] in *.


Lemma go_idx_dig2 i : go_idx tab_dig2bytes i = dig2 i.
Proof.
  unfold go_idx, dig2, at_. change tab_dig2bytes with dig2bytes.
  destruct (i <? 0) eqn:E1; destruct (0 <=? i) eqn:E2; try lia; reflexivity.
Qed.

(* the packed CHAR/BINARY length is a uint16 that does not wrap: checked for every metadata value *)
Lemma string_max_sweep : sweep16 (fun m => (0 <=? string_max m) && (string_max m <? 65536)) (Z.to_nat 65536) 0 = true.
Proof. vm_compute. reflexivity. Qed.
Lemma string_max_u16 m : 0 <= m < 65536 -> u16 (string_max m) = string_max m.
Proof.
  intros H. pose proof (sweep16_spec _ _ _ string_max_sweep m ltac:(lia)) as S. cbn [Z.add] in S.
  apply andb_true_iff in S as [A B]. apply u16_small. lia.
Qed.

Lemma dig2_bound i v : dig2 i = Ok v -> 0 <= v <= 4.
Proof.
  unfold dig2. destruct (0 <=? i) eqn:E; [|discriminate].
  destruct (nth_error dig2bytes (Z.to_nat i)) as [x|] eqn:N; [|discriminate]. intros H; inversion H; subst x.
  apply nth_error_In in N. change dig2bytes with [0; 1; 1; 2; 2; 3; 3; 4; 4; 4] in N. cbn [In] in N.
  repeat (destruct N as [N|N]; [lia|]). contradiction.
Qed.

Theorem cellLength_equiv d pos typ meta :
  wf_bytes d -> 0 <= typ < 256 -> 0 <= meta < 65536 -> Z.of_nat pos < 2 ^ 62 ->
  res_sim (cellLength_g d (Z.of_nat pos) typ meta) (cell_length d pos typ meta).
Proof.
  intros W Ht Hm Hp. unfold cellLength_g, cell_length. unfold_types.
  split_ifs.
  all: try (apply res_sim_eq; reflexivity).
  all: try (pose proof (string_max_u16 meta Hm) as SM; unfold string_max, band, shr in SM).
  all: unfold decimal_size, blob_len, string_max in *; unfold band, shr, go_shr in *.
  all: change (2 ^ 8) with 256 in *; change (2 ^ 4) with 16 in *.
  all: try (rewrite SM in *; congruence).
  all: try congruence.
  all: clear SM.
  all: rewrite ?go_idx_nat; rewrite ?idx_off by (assumption || (cbn; lia)); rewrite ?go_idx_dig2.
  all: change (Z.to_nat 1) with 1%nat; change (Z.to_nat 2) with 2%nat; change (Z.to_nat 3) with 3%nat.
  all: rewrite ?land_255 in *.
  all: repeat match goal with H : (?m =? ?k) = true |- _ => is_var m; apply Z.eqb_eq in H; subst m end.
  all: change (Z.to_nat 1) with 1%nat; change (Z.to_nat 2) with 2%nat; change (Z.to_nat 3) with 3%nat; change (Z.to_nat 4) with 4%nat.
  all: try (cbn [Z.leb Z.compare Pos.compare Pos.compare_cont andb]).
  all: try (rewrite ?le_at_at_le0 by lia; cbn [at_le]; rewrite ?Nat.add_0_r).
  (* the blob length bytes of an unsupported metadata value *)
  all: try (destruct ((1 <=? meta) && (meta <=? 4)) eqn:EM; [lia | exact I]).
  (* DECIMAL: the same table lookups, then the same sum *)
  all: try (wrap_small;
            match goal with |- context [dig2 ?x] => destruct (dig2 x) as [v1| |] eqn:D1; cbn [bind]; try exact I end;
            match goal with |- context [dig2 ?x] => destruct (dig2 x) as [v2| |] eqn:D2; cbn [bind]; try exact I end;
            pose proof (dig2_bound _ _ D1); pose proof (dig2_bound _ _ D2);
            apply res_sim_eq; f_equal; wrap_small; lia).
  all: repeat case_at W.
  all: try exact I.
  all: try lia.
  all: apply res_sim_eq; f_equal; shl_arith; wrap_small; lia.
Qed.

