(* gen/TransEvents.v (binlog_event.go: BinlogFormat.IsZero/HeaderSize; binlog_event_common.go: Format, Rotate, Query,
   IntVar, Rand, TableID, translated by harness/cmd/gotrans) computes what the hand-written Model/Events.v does. *)
From Coq Require Import ZifyBool.
From GB Require Import Base.Prelude Base.GoSem Base.BytesLemmas Proofs.GoSemLemmas Proofs.TransTactics.
From GB Require Import Model.Header Model.Events.
From GBGen Require Import Consts TransHeader TransEvents.
Open Scope Z_scope.
Ltac Zify.zify_post_hook ::= Z.to_euclidean_division_equations.

(* ---- the hand-written records as the Go structs ---- *)
Definition Format_of (f : format) : BinlogFormat_r :=
  {| BinlogFormat_FormatVersion := f_version f; BinlogFormat_ServerVersion := f_server f;
     BinlogFormat_HeaderLength := f_hlen f; BinlogFormat_ChecksumAlgorithm := f_alg f;
     BinlogFormat_HeaderSizes := f_sizes f |}.

Definition Charset_of (c : option (Z * Z * Z)) : option Charset_r :=
  match c with
  | Some (a, b, c) => Some {| Charset_Client := a; Charset_Conn := b; Charset_Server := c |}
  | None => None
  end.

Definition Query_of (q : query) : Query_r :=
  {| Query_Database := q_db q; Query_Charset := Charset_of (q_charset q); Query_SQL := q_sql q |}.

(* HeaderLength is a byte *)
Definition hlen_byte (f : format) : Prop := 0 <= f_hlen f < 256.

(* ---- bytes.TrimRight(s, "\x00") ---- *)
Lemma drop_while_in_0 l : drop_while_in [0] l = trim_right0_rev l.
Proof.
  induction l as [|c r IH]; [reflexivity|]. cbn [drop_while_in existsb trim_right0_rev]. rewrite orb_false_r.
  destruct (Z.eqb_spec c 0) as [->|N]; [exact IH|]. destruct c; try reflexivity. contradiction.
Qed.

Lemma go_trim_right_0 s : go_trim_right s [0] = trim_right0 s.
Proof. unfold go_trim_right, trim_right0. rewrite !rev_append_rev, !app_nil_r. rewrite drop_while_in_0. reflexivity. Qed.

(* ---- BinlogFormat.IsZero, BinlogFormat.HeaderSize ---- *)
Theorem BinlogFormat_IsZero_equiv f : res_sim (BinlogFormat_IsZero_g (Format_of f)) (Ok (format_is_zero f)).
Proof. reflexivity. Qed.

Lemma HeaderSize_eq f typ : BinlogFormat_HeaderSize_g (Format_of f) typ = header_size f typ.
Proof.
  unfold BinlogFormat_HeaderSize_g, header_size. rewrite bind_ok_r. cbn [Format_of BinlogFormat_HeaderSizes].
  apply go_idx_Z. unfold u8. pose proof (Z.mod_pos_bound (typ - 1) 256 ltac:(lia)). lia.
Qed.

Theorem BinlogFormat_HeaderSize_equiv f typ :
  res_sim (BinlogFormat_HeaderSize_g (Format_of f) typ) (header_size f typ).
Proof. apply res_sim_eq, HeaderSize_eq. Qed.

(* ---- Format ---- *)
Ltac fmt_fields :=
  cbn [BinlogFormat_FormatVersion BinlogFormat_ServerVersion BinlogFormat_HeaderLength BinlogFormat_ChecksumAlgorithm
       BinlogFormat_HeaderSizes].

Theorem binlogEvent_Format_equiv ev :
  len_ok ev ->
  res_sim (binlogEvent_Format_g ev) (res_map Format_of (ev_format ev)).
Proof.
  intros Hl. unfold len_ok, len in Hl. change (2 ^ 63) with 9223372036854775808 in Hl.
  unfold binlogEvent_Format_g, ev_format, binlogEvent_Bytes_g, go_slice_to. cbv zeta. cbn [bind]. fmt_fields.
  rewrite (go_slice_from_lit ev 19) by lia. change (Z.to_nat 19) with 19%nat.
  destruct (slice_from ev 19) as [data| |] eqn:ED; cbn [bind res_map res_sim]; auto.
  destruct (slice_from_length _ _ _ ED) as [L19 LD].
  rewrite (go_slice_le_bind data 0 2 2 _ 0) by reflexivity.
  destruct (le_at data 0 2) as [ver| |]; cbn [bind res_map res_sim]; auto.
  destruct (negb (ver =? 4)); cbn [res_map res_sim]; auto.
  rewrite (go_slice_Z data 2 52 2 50) by reflexivity.
  destruct (slice data 2 50) as [sv| |]; cbn [bind res_map res_sim]; auto.
  rewrite (go_idx_Z data 56 56) by reflexivity.
  destruct (at_cases data 56) as [(hl & Ehl & Lhl)|[Ehl Lhl]]; rewrite Ehl; cbn [bind res_map res_sim]; auto.
  destruct (hl <? 19); cbn [res_map res_sim]; auto.
  unfold len. rewrite (i64_small (Z.of_nat (length data) - 5)) by lia.
  destruct (Nat.ltb_spec (length data) 5) as [L5|L5]; [lia|].
  rewrite (go_idx_Z data _ (length data - 5)) by lia.
  destruct (at_ data (length data - 5)) as [alg| |]; cbn [bind res_map res_sim]; auto.
  destruct (Nat.ltb_spec (length data - 5) 57) as [L57|L57].
  { rewrite go_slice_bad by lia. exact I. }
  rewrite (go_slice_Z data 57 _ 57 (length data - 5 - 57)) by lia.
  destruct (slice data 57 (length data - 5 - 57)) as [sizes| |]; cbn [bind res_map res_sim]; auto.
  unfold Format_of. cbn [f_version f_server f_hlen f_alg f_sizes]. rewrite go_trim_right_0. reflexivity.
Qed.

(* ---- the event body ev[f.HeaderLength:] ---- *)
Lemma body_eq f ev : 0 <= f_hlen f -> go_slice_from ev (BinlogFormat_HeaderLength (Format_of f)) = body f ev.
Proof. intros H. cbn [Format_of BinlogFormat_HeaderLength]. unfold body. apply go_slice_from_lit. exact H. Qed.

Lemma body_wf f ev data : wf_bytes ev -> body f ev = Ok data -> wf_bytes data.
Proof. intros W H. eapply slice_from_wf; [exact W|exact H]. Qed.

(* ---- Rotate ---- *)
Theorem binlogEvent_Rotate_equiv ev f :
  hlen_byte f ->
  res_sim (binlogEvent_Rotate_g ev (Format_of f)) (ev_rotate f ev).
Proof.
  intros Hh. unfold binlogEvent_Rotate_g, ev_rotate, binlogEvent_Bytes_g. cbv zeta. cbn [bind].
  rewrite body_eq by apply Hh. destruct (body f ev) as [data| |]; cbn [bind res_sim]; auto.
  unfold len. destruct (Nat.ltb_spec (length data) 8) as [L|L]; destruct (Z.of_nat (length data) <? 8) eqn:E; try lia;
    [exact I|].
  rewrite (go_slice_le_bind data 0 8 8 _ 0) by reflexivity.
  destruct (le_at data 0 8) as [off| |]; cbn [bind res_sim]; auto.
  rewrite (go_slice_from_lit data 8) by lia. change (Z.to_nat 8) with 8%nat.
  destruct (slice_from data 8) as [name| |]; cbn [bind res_sim]; auto.
Qed.

(* ---- IntVar ---- *)
Theorem binlogEvent_IntVar_equiv ev f :
  hlen_byte f ->
  res_sim (binlogEvent_IntVar_g ev (Format_of f)) (ev_intvar f ev).
Proof.
  intros Hh. unfold binlogEvent_IntVar_g, ev_intvar, binlogEvent_Bytes_g. cbv zeta. cbn [bind].
  rewrite body_eq by apply Hh. destruct (body f ev) as [data| |]; cbn [bind res_sim]; auto.
  rewrite (go_idx_Z data 0 0) by reflexivity.
  destruct (at_ data 0) as [t| |]; cbn [bind res_sim]; auto.
  cbv [K_IntVarLastInsertID K_IntVarInsertID].
  destruct (negb (t =? 1) && negb (t =? 2)); cbn [res_sim]; auto.
  rewrite (go_slice_le_bind data 1 9 8 _ 1) by reflexivity.
  destruct (le_at data 1 8) as [v| |]; cbn [bind res_sim]; auto.
Qed.

(* ---- Rand ---- *)
Theorem binlogEvent_Rand_equiv ev f :
  hlen_byte f ->
  res_sim (binlogEvent_Rand_g ev (Format_of f)) (ev_rand f ev).
Proof.
  intros Hh. unfold binlogEvent_Rand_g, ev_rand, binlogEvent_Bytes_g. cbv zeta. cbn [bind].
  rewrite body_eq by apply Hh. destruct (body f ev) as [data| |]; cbn [bind res_sim]; auto.
  rewrite (go_slice_le_bind data 0 8 8 _ 0) by reflexivity.
  destruct (le_at data 0 8) as [a| |]; cbn [bind res_sim]; auto.
  rewrite (go_slice_le_bind data 8 16 8 _ 8) by reflexivity.
  destruct (le_at data 8 8) as [b| |]; cbn [bind res_sim]; auto.
Qed.

(* TableID: `pos := f.HeaderLength` is a byte, so pos+1 .. pos+5 and the slice bound pos+4 wrap modulo 256 in the
   Go code; the hand-written ev_table_id models exactly that (it used unbounded positions until this equivalence
   exposed the difference for header lengths above 250). *)
Theorem binlogEvent_TableID_equiv ev f :
  wf_bytes ev -> hlen_byte f ->
  res_sim (binlogEvent_TableID_g ev (Format_of f)) (ev_table_id f ev).
Proof.
  intros W Hh. unfold hlen_byte in *.
  unfold binlogEvent_TableID_g, ev_table_id. cbv zeta.
  unfold binlogEvent_Type_g, binlogEvent_Bytes_g. cbn [bind]. rewrite bind_ok_r, (go_idx_Z ev 4 4) by reflexivity.
  change (ev_type ev) with (at_ ev 4).
  destruct (at_ ev 4) as [typ| |]; cbn [bind res_sim]; auto.
  rewrite HeaderSize_eq. destruct (header_size f typ) as [hs| |]; cbn [bind res_sim]; auto.
  cbn [Format_of BinlogFormat_HeaderLength].
  destruct (hs =? 6).
  - destruct (256 <=? f_hlen f + 4) eqn:E.
    + (* the wrapped upper bound is below pos: the slice expression panics *)
      unfold go_slice. assert (Hw : u8 (f_hlen f + 4) = f_hlen f + 4 - 256) by (unfold u8; lia).
      rewrite Hw. destruct ((f_hlen f <? 0) || (f_hlen f + 4 - 256 <? f_hlen f)) eqn:E2; [exact I|lia].
    + rewrite !u8_small by lia.
      set (pos := Z.to_nat (f_hlen f)). assert (Ep : f_hlen f = Z.of_nat pos) by lia. rewrite Ep.
      rewrite (go_slice_le_bind ev _ _ 4 _ pos) by lia. rewrite bind_ok_r. apply res_sim_refl.
  - replace (f_hlen f + 0) with (f_hlen f) by lia.
    rewrite (u8_small (f_hlen f)) by lia.
    repeat match goal with
    | |- context [go_idx ev ?i] =>
      rewrite (go_idx_Z ev i (Z.to_nat i)) by (unfold u8; lia)
    end.
    repeat case_at W; try exact I.
    apply res_sim_eq. f_equal. shl_arith. lia.
Qed.

(* the wrap is real: a 300-byte table-map event (type 19, post-header length 8) read with a header length of 251
   takes the bytes 251..255 and then, wrapped, byte 0 *)
Definition tid_ev : bytes := [1; 0; 0; 0; 19] ++ repeat 0 295.
Definition tid_f : format := {| f_version := 4; f_server := []; f_hlen := 251; f_alg := 0; f_sizes := repeat 8 40 |}.
Example binlogEvent_TableID_wraps :
  binlogEvent_TableID_g tid_ev (Format_of tid_f) = Ok 1099511627776 /\ ev_table_id tid_f tid_ev = Ok 1099511627776 /\
  ev_table_id_lin tid_f tid_ev = Ok 0.
Proof. repeat split; vm_compute; reflexivity. Qed.

(* ---- Query: the scan of the status variables ---- *)
Ltac qry_fields := cbn [Query_Database Query_Charset Query_SQL].

(* length of the status-variables block of a query event (0 when the event is too short to have one) *)
Definition query_vars_len (f : format) (ev : bytes) : nat :=
  match body f ev with
  | Ok data => match le_at data 11 2 with Ok v => Z.to_nat v | _ => 0%nat end
  | _ => 0%nat
  end.

Definition query_res (db sql : bytes) (r : res (option (Z * Z * Z))) : res Query_r :=
  res_map (fun cs => Query_of {| q_db := db; q_sql := sql; q_charset := cs |}) r.

Theorem binlogEvent_Query_equiv fuel ev f :
  wf_bytes ev -> hlen_byte f -> (query_vars_len f ev < fuel)%nat ->
  res_sim (binlogEvent_Query_g fuel ev (Format_of f)) (res_map Query_of (ev_query f ev)).
Proof.
  intros W Hh Hf. unfold query_vars_len in Hf.
  unfold binlogEvent_Query_g, ev_query, binlogEvent_Bytes_g. cbv zeta. cbn [bind]. qry_fields.
  rewrite body_eq by apply Hh. destruct (body f ev) as [data| |] eqn:EB; cbn [bind res_map res_sim]; auto.
  pose proof (body_wf _ _ _ W EB) as WD.
  rewrite (go_idx_Z data 8 8) by reflexivity.
  destruct (at_ data 8) as [dbLen| |] eqn:EL; cbn [bind res_map res_sim]; auto.
  pose proof (at_byte _ _ _ WD EL) as BL.
  rewrite (go_slice_le_bind data 11 13 2 _ 11) by reflexivity.
  destruct (le_at data 11 2) as [varsLen| |] eqn:EV; cbn [bind res_map res_sim]; auto.
  pose proof (le_at_bound2 _ _ _ WD EV) as BV.
  wrap_small.
  set (vl := Z.to_nat varsLen) in *. set (dl := Z.to_nat dbLen).
  assert (EvL : varsLen = Z.of_nat vl) by lia. assert (EdL : dbLen = Z.of_nat dl) by lia.
  rewrite EvL, EdL in *. clearbody vl dl. clear EvL EdL.
  unfold len. destruct (Nat.ltb_spec (length data) (13 + vl + dl + 1)) as [LS|LS];
    destruct (13 + Z.of_nat vl + Z.of_nat dl + 1 >? Z.of_nat (length data)) eqn:ES; try lia; [exact I|].
  rewrite (go_slice_Z data _ _ (13 + vl) dl) by lia.
  destruct (slice data (13 + vl) dl) as [db| |]; cbn [bind res_map res_sim]; auto.
  rewrite (go_slice_from_lit data _) by lia.
  replace (Z.to_nat (13 + Z.of_nat vl + Z.of_nat dl + 1)) with (13 + vl + dl + 1)%nat by lia.
  destruct (slice_from data (13 + vl + dl + 1)) as [sql| |]; cbn [bind res_map res_sim]; auto.
  rewrite (go_slice_Z data 13 _ 13 vl) by lia.
  destruct (slice data 13 vl) as [vars| |] eqn:EVars; cbn [bind res_map res_sim]; auto.
  pose proof (slice_length _ _ _ _ EVars) as LV. pose proof (slice_wf _ _ _ _ WD EVars) as WV.
  (* the loop *)
  change (match scan_vars (S (length vars)) vars 0 None with
          | Ok cs => Ok {| q_db := db; q_sql := sql; q_charset := cs |} | Err c => Err c | Panic => Panic end)
    with (res_map (fun cs => {| q_db := db; q_sql := sql; q_charset := cs |}) (scan_vars (S (length vars)) vars 0 None)).
  lazymatch goal with |- res_sim (?L fuel 0 ?q) _ => set (loop := L) end.
  assert (Hloop : forall m pos k fl cs,
            (length vars - pos <= m)%nat -> (m < k)%nat -> (m < fl)%nat -> (pos <= length vars + 300)%nat ->
            res_sim (loop fl (Z.of_nat pos) {| Query_Database := db; Query_Charset := Charset_of cs; Query_SQL := sql |})
                    (query_res db sql (scan_vars k vars pos cs))).
  { induction m as [|m IH]; intros pos k fl cs Hm Hk Hfl Hpos;
      (destruct fl as [|fl]; [lia|]); (destruct k as [|k]; [lia|]);
      unfold loop; cbv beta iota zeta; fold loop; cbn [scan_vars]; unfold len; qry_fields;
      (destruct (Nat.leb_spec (length vars) pos) as [LP|LP];
       destruct (Z.of_nat pos <? Z.of_nat (length vars)) eqn:EP; try lia;
       lazymatch goal with |- res_sim (Ok _) _ => reflexivity | _ => idtac end).
    rewrite go_idx_nat. destruct (at_cases vars pos) as [(code & Ec & Lc)|[Ec Lc]]; [|lia].
    rewrite Ec; cbn [bind]. pose proof (at_byte _ _ _ WV Ec) as Bc.
    cbv [K_QFlags2Code K_QAutoIncrement K_QSQLModeCode K_QCatalog K_QCatalogNZCode K_QCharsetCode].
    rewrite (i64_small (Z.of_nat pos + 1)) by lia.
    replace (Z.of_nat pos + 1) with (Z.of_nat (S pos)) by lia.
    assert (Hnext : forall z p cs', z = Z.of_nat p -> (pos < p <= length vars + 300)%nat ->
              res_sim (loop fl z {| Query_Database := db; Query_Charset := Charset_of cs'; Query_SQL := sql |})
                      (query_res db sql (scan_vars k vars p cs'))).
    { intros z p cs' -> Hp. apply IH; lia. }
    destruct ((code =? 0) || (code =? 3)).
    { apply Hnext; [rewrite i64_small by lia|]; lia. }
    destruct (code =? 1).
    { apply Hnext; [rewrite i64_small by lia|]; lia. }
    destruct (code =? 2).
    { rewrite (i64_small (Z.of_nat (S pos) + 1)) by lia.
      destruct (Nat.ltb_spec (length vars) (S pos + 1)) as [LC|LC];
        destruct (Z.of_nat (S pos) + 1 >? Z.of_nat (length vars)) eqn:EC; try lia; [exact I|].
      rewrite go_idx_nat. destruct (at_cases vars (S pos)) as [(l & El & Ll)|[El Ll]]; [|lia].
      rewrite El; cbn [bind]. pose proof (at_byte _ _ _ WV El) as Bl.
      apply Hnext; [wrap_small|]; lia. }
    destruct (code =? 6).
    { rewrite (i64_small (Z.of_nat (S pos) + 1)) by lia.
      destruct (Nat.ltb_spec (length vars) (S pos + 1)) as [LC|LC];
        destruct (Z.of_nat (S pos) + 1 >? Z.of_nat (length vars)) eqn:EC; try lia; [exact I|].
      rewrite go_idx_nat. destruct (at_cases vars (S pos)) as [(l & El & Ll)|[El Ll]]; [|lia].
      rewrite El; cbn [bind]. pose proof (at_byte _ _ _ WV El) as Bl.
      apply Hnext; [wrap_small|]; lia. }
    destruct (code =? 4).
    { rewrite !(i64_small (Z.of_nat (S pos) + _)) by lia.
      destruct (Nat.ltb_spec (length vars) (S pos + 6)) as [LC|LC];
        destruct (Z.of_nat (S pos) + 6 >? Z.of_nat (length vars)) eqn:EC; try lia; [exact I|].
      rewrite (go_slice_le_bind vars _ _ 2 _ (S pos)) by lia.
      destruct (le_at vars (S pos) 2) as [a| |]; cbn [bind]; [|exact I|exact I].
      rewrite (go_slice_le_bind vars _ _ 2 _ (S pos + 2)) by lia.
      destruct (le_at vars (S pos + 2) 2) as [b| |]; cbn [bind]; [|exact I|exact I].
      rewrite (go_slice_le_bind vars _ _ 2 _ (S pos + 4)) by lia.
      destruct (le_at vars (S pos + 4) 2) as [c| |]; cbn [bind]; [|exact I|exact I].
      apply (Hnext _ (S pos + 6)%nat (Some (a, b, c))); lia. }
    reflexivity. }
  specialize (Hloop (length vars) 0%nat (S (length vars)) fuel None ltac:(lia) ltac:(lia) ltac:(lia) ltac:(lia)).
  unfold query_res in Hloop. cbn [Charset_of Z.of_nat] in Hloop.
  destruct (scan_vars (S (length vars)) vars 0 None); cbn [res_map] in *; exact Hloop.
Qed.

(* the variables block is at most 65535 bytes long *)
Corollary binlogEvent_Query_equiv_65536 fuel ev f :
  wf_bytes ev -> hlen_byte f -> 65536 <= Z.of_nat fuel ->
  res_sim (binlogEvent_Query_g fuel ev (Format_of f)) (res_map Query_of (ev_query f ev)).
Proof.
  intros W Hh Hf. apply binlogEvent_Query_equiv; [exact W|exact Hh|].
  unfold query_vars_len. destruct (body f ev) as [data| |] eqn:EB; try lia.
  destruct (le_at data 11 2) as [v| |] eqn:EV; try lia.
  pose proof (le_at_bound2 _ _ _ (body_wf _ _ _ W EB) EV). lia.
Qed.

Print Assumptions BinlogFormat_IsZero_equiv.
Print Assumptions BinlogFormat_HeaderSize_equiv.
Print Assumptions binlogEvent_Format_equiv.
Print Assumptions binlogEvent_Rotate_equiv.
Print Assumptions binlogEvent_IntVar_equiv.
Print Assumptions binlogEvent_Rand_equiv.
Print Assumptions binlogEvent_TableID_equiv.
Print Assumptions binlogEvent_TableID_wraps.
Print Assumptions binlogEvent_Query_equiv.
Print Assumptions binlogEvent_Query_equiv_65536.
Print Assumptions go_trim_right_0.
