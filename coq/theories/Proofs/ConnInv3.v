(* ConnInv3.v — the invariant behind the strong form of C06 (K2 repaired): how s.endedUncancelled relates
   to the moment the caller cancelled, and the soundness of the ghost fields canc_pre_pe / canc_pre_ret
   against the trace. *)
From GB Require Import Base.Prelude Model.Conn Proofs.ConnInv Proofs.ConnInv2.
Open Scope nat_scope.

Definition Inv3 (s : state) : Prop :=
  (ended_uncancelled s = true -> past_sample (ps s) = true /\ canc_pre_pe s = false /\ s_chan s = true) /\
  (past_sample (ps s) = true -> s_chan s = true -> canc_pre_pe s = false -> ended_uncancelled s = true) /\
  (canc_pre_pe s = true -> cancelled s = true /\ canc_pre_ret s = true) /\
  (cancelled s = true -> canc_pre_pe s = false -> past_sample (ps s) = true) /\
  (pnil s = true -> canc_pre_pe s = true \/ (rd s = RDone /\ rreason s <> Some RCancel)).

Lemma Inv3_init : Inv3 init.
Proof. unfold Inv3; cbn; intuition (try congruence; try discriminate). Qed.

Ltac feed :=
  repeat match goal with
         | H : ?a = ?a -> _ |- _ => specialize (H eq_refl)
         | H : true = false -> _ |- _ => clear H
         | H : false = true -> _ |- _ => clear H
         | H : _ /\ _ |- _ => destruct H
         | H : true = false |- _ => discriminate H
         | H : false = true |- _ => discriminate H
         end.
Ltac dvar x := try (is_var x; destruct x).
Ltac bfin := cbn in *; feed; intuition (try congruence; try discriminate).

Lemma Inv3_step c s l s' : Inv1 c s -> Inv2 c s -> Inv3 s -> step c s l = Some s' -> Inv3 s'.
Proof.
  intros (HR & HP & HM) (A1 & _) H3 H.
  destruct s; unfold rd_inv, ps_inv, misc_inv, Inv3, pnil, past_sample in *; cbn in HR, HP, HM, A1, H3.
  destruct H3 as (B1 & B2 & B3 & B4 & B5).
  destruct HM as (M1 & _).
  destruct l; cbn in H; break_step H; inversion H; subst; clear H; cbn in *;
    repeat apply conj; try assumption; intros.
  all: try solve [fin_fast].
  all: try solve [clear HR; dvar cancelled; dvar canc_pre_pe; dvar ended_uncancelled; dvar s_chan; bfin].
  all: try solve [destruct rd; destr_all; try discriminate; dvar cancelled; dvar canc_pre_pe; bfin].
  all: try solve [clear HR; destruct ps; dvar canc_pre_pe; dvar ended_uncancelled; dvar s_chan; bfin].
  all: try solve [destruct ps; destruct rd; destr_all; try discriminate; dvar canc_pre_pe; bfin].
Qed.

Lemma reach_Inv3 c tr s : reach c tr s -> Inv3 s.
Proof.
  induction 1; [apply Inv3_init | eapply Inv3_step; eauto].
  - eapply reach_Inv1; eauto.
  - eapply reach_Inv2; eauto.
Qed.

Lemma reachable_Inv3 c s : reachable c s -> Inv3 s.
Proof. intros [tr H]; eapply reach_Inv3; eauto. Qed.

