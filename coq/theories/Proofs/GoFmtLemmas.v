(* The fmt model (GoFmt) against the specification's digit functions (DecText). *)
From GB Require Import Base.Prelude Base.DecText Base.GoFmt.
Open Scope Z_scope.

Lemma repeat_snoc {A} (x : A) n : repeat x (S n) = repeat x n ++ [x].
Proof. induction n as [|n IH]; [reflexivity|]. cbn [repeat app] in *. rewrite <- IH. reflexivity. Qed.

Lemma pad0_zero k : pad0 k 0 = repeat 48 k.
Proof.
  induction k as [|k IH]; [reflexivity|].
  rewrite pad0_S, repeat_snoc. change (0 / 10) with 0. rewrite IH. reflexivity.
Qed.

Lemma lpad_pad0 w : forall v, (0 < w)%nat -> 0 <= v < 10 ^ Z.of_nat w -> lpad 48 w (digs v) = pad0 w v.
Proof.
  unfold lpad. induction w as [|k IH]; intros v Hw Hv; [lia|].
  destruct (Z_lt_ge_dec v 10) as [Hs|Hb].
  - rewrite digs_small by lia. cbn [length]. replace (S k - 1)%nat with k by lia.
    rewrite pad0_S. rewrite Z.div_small, Z.mod_small by lia. rewrite pad0_zero. reflexivity.
  - rewrite digs_step by lia. rewrite pad0_S, app_length. cbn [length].
    replace (S k - (length (digs (v / 10)) + 1))%nat with (k - length (digs (v / 10)))%nat by lia.
    rewrite app_assoc. f_equal.
    rewrite Nat2Z.inj_succ, Z.pow_succ_r in Hv by lia.
    destruct k as [|k].
    + simpl in Hv. lia.
    + apply IH; [lia|]. split; [apply Z.div_pos; lia | apply Z.div_lt_upper_bound; lia].
Qed.

Lemma fmt_0d_pad0 w v : (0 < w)%nat -> 0 <= v < 10 ^ Z.of_nat w -> fmt_0d w v = pad0 w v.
Proof.
  intros Hw Hv. unfold fmt_0d. destruct (v <? 0) eqn:E; [apply Z.ltb_lt in E; lia|].
  apply lpad_pad0; auto.
Qed.

Lemma fmt_pd_pad0 w v : (0 < w)%nat -> 0 <= v < 10 ^ Z.of_nat w -> fmt_pd w v = pad0 w v.
Proof.
  intros Hw Hv. unfold fmt_pd. destruct (v <? 0) eqn:E; [apply Z.ltb_lt in E; lia|].
  apply lpad_pad0; auto.
Qed.

Lemma fmt_d_digs v : 0 <= v -> fmt_d v = digs v.
Proof. intros H. unfold fmt_d, digs_Z. destruct (v <? 0) eqn:E; [apply Z.ltb_lt in E; lia | reflexivity]. Qed.

(* %02d of an hour field prints all digits of hours >= 100 *)
Lemma fmt_hour_sweep :
  forallb (fun h => bytes_eqb (fmt_0d 2 h) (if h <? 100 then pad0 2 h else digs h)) (map Z.of_nat (seq 0 1024)) = true.
Proof. vm_compute. reflexivity. Qed.

Lemma fmt_hour h : 0 <= h < 1024 -> fmt_0d 2 h = (if h <? 100 then pad0 2 h else digs h).
Proof.
  intros H. pose proof fmt_hour_sweep as S. rewrite forallb_forall in S.
  apply bytes_eqb_eq. apply S. apply in_map_iff. exists (Z.to_nat h). split; [lia|]. apply in_seq. lia.
Qed.
