(* C09: a rows event decodes to exactly the rows the master encoded. *)
From GB Require Import Proofs.TableIdProofs Base.Prelude Base.BytesLemmas Model.Header Model.Events Model.Cell Model.Rbr Model.Streamer.
From GB Require Import Spec.EncHeader Spec.Values Spec.EncEvent Spec.Expect.
From GB Require Import Proofs.CellCommon Proofs.BitmapProofs Proofs.EventFrame Proofs.ImageProofs Proofs.CellFamilies
                       Proofs.TableMapProofs.
From GBGen Require Import Consts.
From Coq Require Import ZifyBool ZifyNat.
Open Scope Z_scope.
Ltac Zify.zify_post_hook ::= Z.div_mod_to_equations.

(* ---------- from the boolean well-formedness of an image to what the walks need ---------- *)
Lemma eqb_combine_eq : forall a b : list bool, length a = length b ->
  forallb (fun x => x) (map (fun p => Bool.eqb (fst p) (snd p)) (combine a b)) = true -> a = b.
Proof.
  induction a as [|x a IH]; intros [|y b] L H; try reflexivity; try discriminate L.
  cbn [combine map forallb fst snd] in H. apply andb_true_iff in H as [H1 H2].
  apply eqb_prop in H1. subst y. f_equal. apply IH; [cbn [length] in L; lia|exact H2].
Qed.

Definition value_ok (p : coltype * bool) (cv : cellv) : Prop :=
  match cv with CVal v => wf_value (fst p) (snd p) v = true | _ => True end.

Lemma wf_image_parts cols pres img : wf_image cols pres img = true -> length pres = length cols ->
  length img = length cols /\ present_bits img = pres /\ existsb (fun x => x) pres = true /\
  Forall2 value_ok cols img.
Proof.
  unfold wf_image. intros H Lp.
  apply andb_true_iff in H as [H H4]. apply andb_true_iff in H as [H H3]. apply andb_true_iff in H as [H1 H2].
  apply Nat.eqb_eq in H1.
  split; [exact H1|]. split; [|split; [exact H3|]].
  - apply eqb_combine_eq; [rewrite present_bits_length; lia|exact H2].
  - clear H2 H3 Lp pres. revert img H1 H4.
    induction cols as [|p cols IH]; intros [|cv img] L H; try discriminate L; constructor.
    + cbn [combine forallb fst snd] in H. apply andb_true_iff in H as [H _].
      destruct cv; cbn [value_ok]; auto.
    + apply IH; [cbn [length] in L; lia|].
      cbn [combine forallb] in H. apply andb_true_iff in H as [_ H]. exact H.
Qed.

Section Fine.
Variable ffmt : Z -> Z -> bytes.
Variable tz : Z -> Z.
Variable efmt : Z -> bytes.
Variable jsonp : bytes -> res bytes.

(* every column type of the table has its cell lemma *)
Definition family_cols (cols : list (coltype * bool)) : Prop :=
  Forall (fun p => wf_type (fst p) = true /\ cell_family_ok ffmt tz efmt jsonp (fst p)) cols.

Lemma val_fine_of_wf specs img :
  family_cols (map snd specs) -> Forall2 value_ok (map snd specs) img ->
  Forall2 (val_fine ffmt tz efmt jsonp) specs img.
Proof.
  revert img. induction specs as [|s specs IH]; intros img F V; inversion V; subst; constructor.
  - inversion F as [|? ? [Wt Fam] ?]; subst.
    destruct y as [| |v]; cbn [val_fine value_ok] in *; [exact I|exact I|].
    unfold cs_type, cs_uns. apply Fam; [exact Wt|exact H1].
  - apply IH; auto. inversion F; auto.
Qed.

Lemma len_fine_of_val specs img :
  Forall2 (val_fine ffmt tz efmt jsonp) specs img -> Forall2 len_fine (map cs_type specs) img.
Proof.
  induction 1 as [|s cv specs img H HF IH]; cbn [map]; constructor; auto.
  destruct cv; cbn [len_fine val_fine] in *; auto. intros pre rest. apply H.
Qed.

Lemma len_fine_of_wf cols img :
  family_cols cols -> Forall2 value_ok cols img -> Forall2 len_fine (map fst cols) img.
Proof.
  intros F V.
  pose (specs := map (fun p : coltype * bool => (([] : bytes), p)) cols).
  assert (E : map snd specs = cols) by (unfold specs; rewrite map_map; cbn [snd]; apply map_id).
  assert (E2 : map cs_type specs = map fst cols) by (unfold specs; rewrite map_map; reflexivity).
  rewrite <- E2. apply len_fine_of_val. apply val_fine_of_wf; rewrite E; auto.
Qed.
End Fine.

(* ---------- rows as a list of (before, after) pairs ---------- *)
Definition rpair := (option (list cellv) * option (list cellv))%type.

Definition row_pairs (kind : Z) (b a : list (list cellv)) : list rpair :=
  match kind with
  | 0 => map (fun y => (None, Some y)) a
  | 2 => map (fun x => (Some x, None)) b
  | _ => map (fun p => (Some (fst p), Some (snd p))) (combine b a)
  end.

(* pn: the padding pattern of the NULL bitmaps (arbitrary) *)
Definition opt_enc (pn : Z) (tys : list coltype) (o : option (list cellv)) : bytes :=
  match o with Some img => enc_image pn tys img | None => [] end.
Definition enc_pair (pn : Z) (tys : list coltype) (p : rpair) : bytes := opt_enc pn tys (fst p) ++ opt_enc pn tys (snd p).
Definition opt_nulls (pn : Z) (o : option (list cellv)) : bitmap :=
  match o with Some img => expect_bitmap pn (null_bits img) | None => bitmap_zero end.

Lemma zip_rows_pairs pn tys kind b a : kind = 0 \/ kind = 1 \/ kind = 2 ->
  zip_rows pn tys kind b a = flat_map (enc_pair pn tys) (row_pairs kind b a).
Proof.
  intros [-> | [-> | ->]]; unfold row_pairs.
  - assert (E : zip_rows pn tys 0 b a = flat_map (enc_image pn tys) a) by (destruct b; reflexivity).
    rewrite E. clear E. induction a as [|y a IH]; [reflexivity|]. cbn [flat_map map]. rewrite IH. reflexivity.
  - revert a. induction b as [|x b IH]; intros [|y a]; try reflexivity.
    cbn [zip_rows combine map flat_map]. rewrite IH. unfold enc_pair. cbn [fst snd opt_enc].
    rewrite <- app_assoc. reflexivity.
  - assert (E : zip_rows pn tys 2 b a = flat_map (enc_image pn tys) b) by (destruct b; reflexivity).
    rewrite E. clear E. induction b as [|x b IH]; [reflexivity|]. cbn [flat_map map]. rewrite IH.
    unfold enc_pair. cbn [fst snd opt_enc]. rewrite app_nil_r. reflexivity.
Qed.

Lemma expect_row_list_pairs pn tys kind b a : kind = 0 \/ kind = 1 \/ kind = 2 ->
  expect_row_list pn tys kind b a = map (fun p => expect_row pn tys kind (fst p) (snd p)) (row_pairs kind b a).
Proof.
  intros [-> | [-> | ->]]; unfold row_pairs.
  - assert (E : expect_row_list pn tys 0 b a = map (fun img => expect_row pn tys 0 None (Some img)) a) by (destruct b; reflexivity).
    rewrite E, map_map. reflexivity.
  - revert a. induction b as [|x b IH]; intros [|y a]; try reflexivity.
    cbn [expect_row_list combine map]. rewrite IH. reflexivity.
  - assert (E : expect_row_list pn tys 2 b a = map (fun img => expect_row pn tys 2 (Some img) None) b) by (destruct b; reflexivity).
    rewrite E, map_map. reflexivity.
Qed.

Lemma enc_image_nonempty pn tys img : existsb (fun x => x) (present_bits img) = true ->
  (1 <= length (enc_image pn tys img))%nat.
Proof.
  intros H. unfold enc_image. rewrite app_length, pack_bits_pad_length, null_bits_count.
  assert (1 <= count_true (present_bits img))%nat; [|lia].
  unfold count_true. induction (present_bits img) as [|b l IH]; [discriminate|].
  cbn [existsb filter] in *. destruct b; cbn [length]; [lia|]. apply IH. exact H.
Qed.

(* ---------- the row loop ---------- *)
Section Loop.
Variables pc pn : Z.     (* padding patterns of the presence bitmaps and of the NULL bitmaps: arbitrary *)
Variable tm : table_map.
Variable tys : list coltype.
Hypothesis Htypes : tm_types tm = map code_of tys.
Hypothesis Hmeta : tm_meta tm = map meta_of tys.

(* one side (identify / data) of a row: present iff the event kind has it *)
Definition side_ok (h : bool) (pres : list bool) (o : option (list cellv)) : Prop :=
  if h then exists img, o = Some img /\ present_bits img = pres /\ Forall2 len_fine tys img /\
                        existsb (fun x => x) pres = true
  else o = None.

Lemma read_side h cols n pres o pre rest :
  side_ok h pres o -> (h = true -> cols = expect_bitmap pc pres /\ n = count_true pres) ->
  (if h then do (nb, s, p) <- read_image tm cols (length tys) n (pre ++ opt_enc pn tys o ++ rest) (length pre);
             Ok ((nb, Some s), p)
   else Ok ((bitmap_zero, None), length pre))
  = Ok ((opt_nulls pn o, option_map (image_cells tys) o), (length pre + length (opt_enc pn tys o))%nat).
Proof.
  intros S C. destruct h; cbn [side_ok] in S.
  - destruct S as (img & -> & Hp & Hf & _). destruct (C eq_refl) as [-> ->]. subst pres.
    cbn [opt_enc opt_nulls option_map].
    rewrite (read_image_ok pc pn tm tys img Htypes Hmeta Hf). reflexivity.
  - subst o. cbn [opt_enc opt_nulls option_map length]. do 2 f_equal. lia.
Qed.

Lemma side_len h pres o : side_ok h pres o -> h = true -> (1 <= length (opt_enc pn tys o))%nat.
Proof.
  intros S ->. cbn [side_ok] in S. destruct S as (img & -> & Hp & _ & He). cbn [opt_enc].
  apply enc_image_nonempty. rewrite Hp. exact He.
Qed.

Variables (hi hd : bool) (ipres dpres : list bool) (icols dcols : bitmap) (ni nd : nat) (kind : Z).
Hypothesis Hi : hi = true -> icols = expect_bitmap pc ipres /\ ni = count_true ipres.
Hypothesis Hd : hd = true -> dcols = expect_bitmap pc dpres /\ nd = count_true dpres.
Hypothesis Hsome : hi || hd = true.

Lemma read_rows_ok ps :
  Forall (fun p => side_ok hi ipres (fst p) /\ side_ok hd dpres (snd p)) ps ->
  forall pre acc fuel, (length (flat_map (enc_pair pn tys) ps) < fuel)%nat ->
  read_rows fuel tm hi hd icols dcols (length tys) ni nd (pre ++ flat_map (enc_pair pn tys) ps) (length pre) acc
  = Ok (rev acc ++ map (fun p => expect_row pn tys kind (fst p) (snd p)) ps).
Proof.
  induction 1 as [|p ps [S1 S2] HF IH]; intros pre acc fuel Hfuel.
  - destruct fuel as [|k]; [lia|]. cbn [flat_map read_rows map]. rewrite app_nil_r.
    rewrite Nat.leb_refl. rewrite rev_append_rev. reflexivity.
  - destruct fuel as [|k]; [lia|]. destruct p as [ob oa]. cbn [fst snd] in *.
    change (flat_map (enc_pair pn tys) ((ob, oa) :: ps))
      with ((opt_enc pn tys ob ++ opt_enc pn tys oa) ++ flat_map (enc_pair pn tys) ps) in *.
    cbn [read_rows map fst snd].
    assert (L1 : (1 <= length (opt_enc pn tys ob) + length (opt_enc pn tys oa))%nat).
    { destruct hi eqn:E1.
      - pose proof (side_len true ipres ob S1 eq_refl). lia.
      - destruct hd eqn:E2; [|discriminate Hsome]. pose proof (side_len true dpres oa S2 eq_refl). lia. }
    rewrite !app_length.
    destruct (Nat.leb_spec (length pre + (length (opt_enc pn tys ob) + length (opt_enc pn tys oa) +
                            length (flat_map (enc_pair pn tys) ps))) (length pre)) as [L|_]; [lia|].
    rewrite <- (app_assoc (opt_enc pn tys ob)).
    rewrite (read_side hi icols ni ipres ob pre _ S1 Hi). cbn [bind fst snd].
    rewrite <- app_length.
    rewrite (app_assoc pre (opt_enc pn tys ob)).
    rewrite (read_side hd dcols nd dpres oa (pre ++ opt_enc pn tys ob) _ S2 Hd). cbn [bind fst snd].
    rewrite <- app_length. rewrite (app_assoc (pre ++ opt_enc pn tys ob)).
    rewrite IH.
    + cbn [rev]. rewrite <- app_assoc. reflexivity.
    + rewrite !app_length in Hfuel. lia.
Qed.
End Loop.

(* ---------- the event ---------- *)
(* the part of Rows after the type, the body and the post-header length have been fetched *)
Definition rows_parse (tm : table_map) (typ : Z) (data : bytes) (pos : nat) : res rows :=
  do flags <- le_at data pos 2;
  let pos := (pos + 2)%nat in
  do pos <- (if is_v2 typ then do e <- le_at data pos 2; Ok (pos + Z.to_nat e)%nat else Ok pos);
  do r <- read_lenenc data pos;
  match r with
  | None => Err ETooSmall
  | Some (cnt, npos) =>
    if cnt >? max_int32 then Err ETooLarge
    else
      if cnt >? 8 * (len data + 1) then Panic
      else
      let cc := Z.to_nat cnt in
      do (ic, ni, p1) <-
        (if has_identify typ then do (b, p) <- new_bitmap data npos cc; do n <- bit_count b; Ok (b, n, p)
         else Ok (bitmap_zero, 0%nat, npos));
      do (dc, nd, p2) <-
        (if has_data typ then do (b, p) <- new_bitmap data p1 cc; do n <- bit_count b; Ok (b, n, p)
         else Ok (bitmap_zero, 0%nat, p1));
      do rs <- read_rows (S (length data)) tm (has_identify typ) (has_data typ) ic dc cc ni nd data p2 [];
      Ok {| rs_flags := flags; rs_ident_cols := ic; rs_data_cols := dc; rs_rows := rs |}
  end.

Lemma ev_rows_unfold f tm ev :
  ev_rows f tm ev =
  do typ <- ev_type ev; do data <- body f ev; do hs <- header_size f typ;
  rows_parse tm typ data (if hs =? 6 then 4%nat else 6%nat).
Proof. reflexivity. Qed.

Definition wf_images (cols : list (coltype * bool)) (l : list (list cellv)) : Prop :=
  Forall (fun img => wf_image cols (first_present l (length cols)) img = true) l.

Lemma first_present_length cols l : wf_images cols l -> length (first_present l (length cols)) = length cols.
Proof.
  intros W. destruct l as [|img l]; cbn [first_present].
  - apply repeat_length.
  - inversion W as [|? ? H _]; subst. unfold wf_image in H.
    apply andb_true_iff in H as [H _]. apply andb_true_iff in H as [H _]. apply andb_true_iff in H as [H _].
    apply Nat.eqb_eq in H. rewrite present_bits_length. exact H.
Qed.

Section RowsParse.
Variables pc pn : Z.     (* padding patterns of the presence bitmaps and of the NULL bitmaps: arbitrary *)
Variable ffmt : Z -> Z -> bytes.
Variable tz : Z -> Z.
Variable efmt : Z -> bytes.
Variable jsonp : bytes -> res bytes.
Variable tm : table_map.
Variable cols : list (coltype * bool).
Let tys := map fst cols.
Hypothesis Htypes : tm_types tm = map code_of tys.
Hypothesis Hmeta : tm_meta tm = map meta_of tys.
Hypothesis Hfam : family_cols ffmt tz efmt jsonp cols.
Variables (tid : bytes) (flags : Z) (extra : bytes) (kind : Z) (before after : list (list cellv)).
Variables (v2 : bool) (typ : Z).
Hypothesis Hflags : 0 <= flags < 65536.
Hypothesis Hextra : len extra < 65534.
Hypothesis Hkind : kind = 0 \/ kind = 1 \/ kind = 2.
Hypothesis Hn : len cols <= 2147483647.
Hypothesis Hbefore : kind <> 0 -> wf_images cols before.
Hypothesis Hafter : kind <> 2 -> wf_images cols after.
Hypothesis Tv2 : is_v2 typ = v2.
Hypothesis Tid : has_identify typ = negb (kind =? 0).
Hypothesis Tdata : has_data typ = negb (kind =? 2).

Let n := length tys.
Let ipres := first_present before n.
Let dpres := first_present after n.
Let EX : bytes := if v2 then le_enc 2 (2 + len extra) ++ extra else [].
Let B1 : bytes := if kind =? 0 then [] else pack_bits_pad pc ipres.
Let B2 : bytes := if kind =? 2 then [] else pack_bits_pad pc dpres.
Let ROWS : bytes := zip_rows pn tys kind before after.
Let data : bytes := tid ++ le_enc 2 flags ++ EX ++ enc_lenenc (Z.of_nat n) ++ B1 ++ B2 ++ ROWS.

Ltac seg := unfold data; rewrite <- ?app_assoc; reflexivity.
Ltac lens := rewrite ?app_length, ?le_enc_length, ?enc_lenenc_length, ?map_length; cbn [length]; unfold len; lia.

Lemma n_cols : n = length cols.
Proof. unfold n, tys. apply map_length. Qed.

Lemma side_of_wf l img : wf_images cols l -> In img l ->
  side_ok tys true (first_present l n) (Some img).
Proof.
  intros W I. cbn [side_ok]. exists img.
  pose proof (first_present_length cols l W) as Lp.
  unfold wf_images in W. rewrite Forall_forall in W. specialize (W img I).
  rewrite n_cols.
  destruct (wf_image_parts cols _ img W Lp) as (L & P & E & V).
  repeat split; auto.
  unfold tys. eapply len_fine_of_wf; eauto.
Qed.

Lemma pairs_ok :
  Forall (fun p => side_ok tys (negb (kind =? 0)) ipres (fst p) /\ side_ok tys (negb (kind =? 2)) dpres (snd p))
         (row_pairs kind before after).
Proof.
  apply Forall_forall. intros p Hp. unfold row_pairs in Hp.
  destruct Hkind as [K|[K|K]]; rewrite K in *; cbn [Z.eqb Pos.eqb negb].
  - apply in_map_iff in Hp as (y & <- & Iy). cbn [fst snd]. split; [reflexivity|].
    apply (side_of_wf after y); auto. apply Hafter. lia.
  - apply in_map_iff in Hp as ([x y] & <- & Ixy). cbn [fst snd].
    split.
    + apply (side_of_wf before x); [apply Hbefore; lia|]. eapply in_combine_l; eauto.
    + apply (side_of_wf after y); [apply Hafter; lia|]. eapply in_combine_r; eauto.
  - apply in_map_iff in Hp as (x & <- & Ix). cbn [fst snd]. split; [|reflexivity].
    apply (side_of_wf before x); auto. apply Hbefore. lia.
Qed.

Lemma ipres_length : kind <> 0 -> length ipres = n.
Proof. intros K. unfold ipres. rewrite n_cols. apply first_present_length. auto. Qed.
Lemma dpres_length : kind <> 2 -> length dpres = n.
Proof. intros K. unfold dpres. rewrite n_cols. apply first_present_length. auto. Qed.

Lemma rows_parse_ok :
  rows_parse tm typ data (length tid) =
  Ok {| rs_flags := flags;
        rs_ident_cols := if kind =? 0 then bitmap_zero else expect_bitmap pc ipres;
        rs_data_cols := if kind =? 2 then bitmap_zero else expect_bitmap pc dpres;
        rs_rows := expect_row_list pn tys kind before after |}.
Proof.
  unfold rows_parse.
  erewrite (le_at_seg data tid (le_enc 2 flags)); [|seg|reflexivity|lens]. cbn [bind].
  rewrite le_dec_enc by (change (256 ^ Z.of_nat 2) with 65536; lia).
  (* v2: the extra-data block is skipped by its own length field *)
  set (P2 := tid ++ le_enc 2 flags ++ EX).
  assert (A2 : (if is_v2 typ then do e <- le_at data (length tid + 2) 2; Ok (length tid + 2 + Z.to_nat e)%nat
                else Ok (length tid + 2)%nat) = Ok (length P2)).
  { rewrite Tv2. subst P2. unfold data, EX. destruct v2.
    - erewrite (le_at_seg data (tid ++ le_enc 2 flags) (le_enc 2 (2 + len extra))); [|seg|lens|lens].
      cbn [bind]. pose proof (len_nonneg extra).
      rewrite le_dec_enc by (change (256 ^ Z.of_nat 2) with 65536; lia). f_equal. lens.
    - f_equal. lens. }
  rewrite A2. cbn [bind].
  erewrite (read_lenenc_seg data P2 (Z.of_nat n)); [|subst P2; seg|reflexivity|unfold len in Hn; rewrite n_cols; lia].
  cbn [bind]. unfold max_int32.
  destruct (Z.gtb_spec (Z.of_nat n) 2147483647) as [G|_]; [rewrite n_cols in G; unfold len in Hn; lia|].
  set (P3 := P2 ++ enc_lenenc (Z.of_nat n)).
  assert (Q3 : (length P2 + lenenc_size (Z.of_nat n))%nat = length P3) by (subst P3; lens).
  rewrite Q3. rewrite Nat2Z.id.
  (* the column count is covered by the bitmaps that follow *)
  assert (LB : ((n + 7) / 8 <= length (B1 ++ B2))%nat).
  { unfold B1, B2. rewrite app_length. destruct Hkind as [K|[K|K]]; rewrite K; cbn [Z.eqb Pos.eqb length];
      rewrite ?pack_bits_pad_length, ?ipres_length, ?dpres_length by lia; lia. }
  assert (LD : (length P3 + length (B1 ++ B2) + length ROWS = length data)%nat).
  { unfold data. subst P3 P2. rewrite !app_length. lia. }
  destruct (Z.gtb_spec (Z.of_nat n) (8 * (len data + 1))) as [G|_]; [unfold len in G; lia|].
  (* presence bitmaps *)
  set (P4 := P3 ++ B1).
  assert (A4 : (if has_identify typ then do (b, p) <- new_bitmap data (length P3) n; do k <- bit_count b; Ok (b, k, p)
                else Ok (bitmap_zero, 0%nat, length P3))
               = Ok (if kind =? 0 then bitmap_zero else expect_bitmap pc ipres,
                     if kind =? 0 then 0%nat else count_true ipres, length P4)).
  { rewrite Tid. subst P4. destruct (Z.eqb_spec kind 0) as [K|K]; cbn [negb].
    - assert (EB : B1 = []) by reflexivity.
      rewrite EB, app_nil_r. reflexivity.
    - assert (EB : B1 = pack_bits_pad pc ipres) by reflexivity.
      rewrite EB.
      erewrite (new_bitmap_seg pc data P3 ipres); [|rewrite <- EB; subst P3 P2; seg|reflexivity|rewrite ipres_length by exact K; reflexivity].
      cbn [bind]. rewrite bitmap_count_ok. cbn [bind]. do 2 f_equal.
      rewrite app_length, pack_bits_pad_length, ipres_length by exact K. reflexivity. }
  rewrite A4. cbn [bind].
  set (P5 := P4 ++ B2).
  assert (A5 : (if has_data typ then do (b, p) <- new_bitmap data (length P4) n; do k <- bit_count b; Ok (b, k, p)
                else Ok (bitmap_zero, 0%nat, length P4))
               = Ok (if kind =? 2 then bitmap_zero else expect_bitmap pc dpres,
                     if kind =? 2 then 0%nat else count_true dpres, length P5)).
  { rewrite Tdata. subst P5. destruct (Z.eqb_spec kind 2) as [K|K]; cbn [negb].
    - assert (EB : B2 = []) by reflexivity.
      rewrite EB, app_nil_r. reflexivity.
    - assert (EB : B2 = pack_bits_pad pc dpres) by reflexivity.
      rewrite EB.
      erewrite (new_bitmap_seg pc data P4 dpres); [|rewrite <- EB; subst P4 P3 P2; seg|reflexivity|rewrite dpres_length by exact K; reflexivity].
      cbn [bind]. rewrite bitmap_count_ok. cbn [bind]. do 2 f_equal.
      rewrite app_length, pack_bits_pad_length, dpres_length by exact K. reflexivity. }
  rewrite A5. cbn [bind].
  (* the rows *)
  assert (ED : data = P5 ++ flat_map (enc_pair pn tys) (row_pairs kind before after)).
  { rewrite <- zip_rows_pairs by exact Hkind. subst P5 P4 P3 P2. fold ROWS. seg. }
  rewrite Tid, Tdata. rewrite ED at 2.
  rewrite (read_rows_ok pc pn tm tys Htypes Hmeta (negb (kind =? 0)) (negb (kind =? 2)) ipres dpres _ _ _ _ kind).
  - cbn [bind rev app]. rewrite <- expect_row_list_pairs by exact Hkind. reflexivity.
  - intros K. destruct (kind =? 0); [discriminate K|]. split; reflexivity.
  - intros K. destruct (kind =? 2); [discriminate K|]. split; reflexivity.
  - destruct Hkind as [K|[K|K]]; rewrite K; reflexivity.
  - exact pairs_ok.
  - rewrite <- zip_rows_pairs by exact Hkind. fold ROWS. lia.
Qed.
End RowsParse.

(* Well-formed rows definition for a table with columns cols (type, unsigned).  Images that the
   event kind does not use (rd_before of a write, rd_after of a delete) are unconstrained. *)
Definition wf_rows_def (cols : list (coltype * bool)) (r : rows_def) : Prop :=
  (rd_kind r = 0 \/ rd_kind r = 1 \/ rd_kind r = 2) /\
  0 <= rd_flags r < 65536 /\ len (rd_extra r) < 65534 /\ len cols <= 2147483647 /\
  (rd_kind r <> 0 -> wf_images cols (rd_before r)) /\
  (rd_kind r <> 2 -> wf_images cols (rd_after r)).

Lemma rows_type_facts c kind : kind = 0 \/ kind = 1 \/ kind = 2 ->
  is_v2 (rows_type c kind) = c_v2 c /\
  has_identify (rows_type c kind) = negb (kind =? 0) /\
  has_data (rows_type c kind) = negb (kind =? 2) /\
  1 <= rows_type c kind <= 35.
Proof.
  intros [-> | [-> | ->]]; unfold rows_type; destruct (c_v2 c); repeat split; try reflexivity; lia.
Qed.

Lemma post_header_rows c kind : wf_cfg c = true -> kind = 0 \/ kind = 1 \/ kind = 2 ->
  (if post_header c (rows_type c kind) =? 6 then 4%nat else 6%nat) = if c_tid4 c then 4%nat else 6%nat.
Proof.
  intros W K. unfold wf_cfg in W.
  destruct K as [-> | [-> | ->]]; unfold rows_type, post_header;
    destruct (c_v2 c) eqn:V; destruct (c_tid4 c) eqn:T;
    try reflexivity; rewrite ?V, ?T in W; cbn [negb orb] in W; rewrite andb_false_r in W; discriminate W.
Qed.

Section Roundtrip.
Variable ffmt : Z -> Z -> bytes.
Variable tz : Z -> Z.
Variable efmt : Z -> bytes.
Variable jsonp : bytes -> res bytes.

(* Rows on the event the master wrote: any header length, checksum on or off, v1 or v2 (any
   extra-data block), 4- or 6-byte table ids, write / update / delete, any number of rows,
   any presence and NULL patterns, any padding patterns in the unused bits of the presence
   bitmaps (c_pad_cols c) and of the rows' NULL bitmaps (c_pad_null c) *)
Theorem rows_roundtrip c v h cols tm r crc :
  wf_cfg c = true -> family_cols ffmt tz efmt jsonp cols -> wf_rows_def cols r ->
  tm_types tm = col_codes cols -> tm_meta tm = map (fun p => meta_of (fst p)) cols ->
  h_type h = rows_type c (rd_kind r) ->
  (do ev <- strip_checksum56 (expect_format c v) (enc_ev c h (enc_rows_body c (map fst cols) r) crc);
   ev_rows (expect_format c v) tm ev) = Ok (expect_rows c (map fst cols) r).
Proof.
  intros Wc Fam (Hk & Hfl & Hex & Hn & Hb & Ha) Ht Hm Hh.
  destruct (rows_type_facts c (rd_kind r) Hk) as (T1 & T2 & T3 & T4).
  rewrite strip_enc_ev. cbn [bind]. rewrite ev_rows_unfold.
  rewrite ev_type_frame, Hh. cbn [bind].
  rewrite body_frame by exact Wc. cbn [bind].
  rewrite header_size_ok by auto. cbn [bind].
  rewrite post_header_rows by auto.
  replace (if c_tid4 c then 4%nat else 6%nat) with (length (enc_table_id c (rd_id r)))
    by apply enc_table_id_length.
  unfold enc_rows_body, expect_rows.
  apply (rows_parse_ok (c_pad_cols c) (c_pad_null c) ffmt tz efmt jsonp tm cols); auto.
  - rewrite Ht. unfold col_codes. rewrite map_map. reflexivity.
  - rewrite Hm. rewrite map_map. reflexivity.
Qed.

(* with the table map decoded from the master's table-map event for the same column types *)
Corollary rows_roundtrip_tm c v h cols pt t r crc :
  wf_cfg c = true -> family_cols ffmt tz efmt jsonp cols -> wf_rows_def cols r ->
  map fst (td_cols t) = map fst cols ->
  h_type h = rows_type c (rd_kind r) ->
  (do ev <- strip_checksum56 (expect_format c v) (enc_ev c h (enc_rows_body c (map fst cols) r) crc);
   ev_rows (expect_format c v) (expect_table_map pt t) ev) = Ok (expect_rows c (map fst cols) r).
Proof.
  intros Wc Fam Wr E Hh. apply rows_roundtrip; auto; cbn [expect_table_map tm_types tm_meta]; unfold col_codes.
  - rewrite <- (map_map fst code_of), E, map_map. reflexivity.
  - rewrite <- (map_map fst meta_of), E, map_map. reflexivity.
Qed.

End Roundtrip.

Theorem rows_table_id c v h tys r crc :
  wf_cfg c = true -> rd_kind r = 0 \/ rd_kind r = 1 \/ rd_kind r = 2 ->
  0 <= rd_id r < (if c_tid4 c then 2 ^ 32 else 2 ^ 48) ->
  h_type h = rows_type c (rd_kind r) ->
  (do ev <- strip_checksum56 (expect_format c v) (enc_ev c h (enc_rows_body c tys r) crc);
   ev_table_id (expect_format c v) ev) = Ok (rd_id r).
Proof.
  intros Wc Hk Hid Hh.
  destruct (rows_type_facts c (rd_kind r) Hk) as (_ & _ & _ & T4).
  rewrite strip_enc_ev. cbn [bind].
  rewrite ev_table_id_lin_eq by (cbn [expect_format f_hlen]; pose proof (wf_cfg_hlen c Wc); lia). unfold ev_table_id_lin.
  rewrite ev_type_frame, Hh. cbn [bind].
  rewrite header_size_ok by auto. cbn [bind].
  assert (E : (post_header c (rows_type c (rd_kind r)) =? 6) = c_tid4 c).
  { unfold wf_cfg in Wc. destruct Hk as [-> | [-> | ->]]; unfold rows_type, post_header;
      destruct (c_v2 c) eqn:V; destruct (c_tid4 c) eqn:T; try reflexivity; rewrite ?V, ?T in Wc; cbn [negb orb] in Wc; rewrite andb_false_r in Wc; discriminate Wc. }
  rewrite E. unfold enc_rows_body, enc_table_id. cbn [expect_format f_hlen].
  destruct (c_tid4 c).
  - rewrite le_at_frame_body by (auto; rewrite le_enc_length; reflexivity).
    rewrite le_dec_enc by (change (256 ^ Z.of_nat 4) with (2 ^ 32); lia). reflexivity.
  - rewrite le_at_frame_body by (auto; rewrite le_enc_length; reflexivity).
    rewrite le_dec_enc by (change (256 ^ Z.of_nat 6) with (2 ^ 48); lia). reflexivity.
Qed.

(* ---------- one image, column by column (streamer.go get{Values,Identifies}FromRow) ---------- *)
Section ImageConsumed.
Variables pc pn : Z.     (* padding patterns of the presence bitmap and of the NULL bitmap: arbitrary *)
Variable ffmt : Z -> Z -> bytes.
Variable tz : Z -> Z.
Variable efmt : Z -> bytes.
Variable jsonp : bytes -> res bytes.

Definition specs_cols (specs : list colspec) : list (coltype * bool) := map snd specs.

(* The image the master wrote, followed by any bytes, converts to exactly the expected cells:
   every cell is decoded at the offset where the previous one ended (names by ordinal from the
   mapper, type code from the table map, absent flag, NULL as no data, canonical text otherwise),
   and nothing beyond the image's last byte is looked at. *)
Theorem image_consumed tm ti specs img rest :
  family_cols ffmt tz efmt jsonp (specs_cols specs) ->
  tm_types tm = map (fun s => code_of (cs_type s)) specs ->
  tm_meta tm = map (fun s => meta_of (cs_type s)) specs ->
  ti_cols ti = map (fun s => (cs_name s, cs_uns s)) specs ->
  wf_image (specs_cols specs) (present_bits img) img = true ->
  image_of ffmt tz jsonp tm ti (expect_bitmap pc (present_bits img)) (expect_bitmap pn (null_bits img))
           (Some (image_cells (map cs_type specs) img ++ rest))
  = Ok (Some (expect_columns ffmt tz efmt specs img)).
Proof.
  intros Fam Ht Hm Hti W.
  assert (Lp : length (present_bits img) = length (specs_cols specs)).
  { unfold wf_image in W. apply andb_true_iff in W as [W _]. apply andb_true_iff in W as [W _].
    apply andb_true_iff in W as [W _]. apply Nat.eqb_eq in W. rewrite present_bits_length. exact W. }
  destruct (wf_image_parts _ _ _ W Lp) as (_ & _ & _ & V).
  apply image_of_ok.
  - rewrite Ht, map_map. reflexivity.
  - rewrite Hm, map_map. reflexivity.
  - apply val_fine_of_wf; assumption.
  - exact Hti.
Qed.

(* absent / NULL / value are told apart in the delivered column (C13's row-level clause) *)
Definition three_way (cv : cellv) (col : column) : Prop :=
  (cv = CAbsent <-> c_empty col = true) /\
  (cv = CNull <-> (c_empty col = false /\ c_data col = None)) /\
  ((exists v, cv = CVal v) <-> (exists s, c_data col = Some s)) /\
  (c_empty col = true -> c_data col = None).

Lemma three_way_cell s cv : three_way cv (expect_column ffmt tz efmt s cv).
Proof.
  unfold three_way, expect_column, expect_cell.
  destruct cv as [| |v]; cbn [c_empty c_data]; repeat split; intros; try reflexivity; try discriminate;
    try (destruct H as [? H]; discriminate H); try (destruct H; discriminate); eauto.
Qed.

Lemma three_way_columns specs : forall img, length specs = length img ->
  Forall2 three_way img (expect_columns ffmt tz efmt specs img).
Proof.
  induction specs as [|s specs IH]; intros [|cv img] L; try discriminate L; unfold expect_columns; cbn [combine map].
  - constructor.
  - constructor; [apply three_way_cell|]. apply IH. cbn [length] in L. lia.
Qed.

Theorem three_way_image tm ti specs img rest :
  family_cols ffmt tz efmt jsonp (specs_cols specs) ->
  tm_types tm = map (fun s => code_of (cs_type s)) specs ->
  tm_meta tm = map (fun s => meta_of (cs_type s)) specs ->
  ti_cols ti = map (fun s => (cs_name s, cs_uns s)) specs ->
  wf_image (specs_cols specs) (present_bits img) img = true ->
  exists cs,
    image_of ffmt tz jsonp tm ti (expect_bitmap pc (present_bits img)) (expect_bitmap pn (null_bits img))
             (Some (image_cells (map cs_type specs) img ++ rest)) = Ok (Some cs) /\
    Forall2 three_way img cs.
Proof.
  intros Fam Ht Hm Hti W. exists (expect_columns ffmt tz efmt specs img). split.
  - apply image_consumed; assumption.
  - apply three_way_columns.
    unfold wf_image in W. apply andb_true_iff in W as [W _]. apply andb_true_iff in W as [W _].
    apply andb_true_iff in W as [W _]. apply Nat.eqb_eq in W. unfold specs_cols in W. rewrite map_length in W. symmetry. exact W.
Qed.
End ImageConsumed.

(* ---------- unconditional forms for the families whose cell lemma is proved ---------- *)
Definition proved_cols (cols : list (coltype * bool)) : Prop :=
  Forall (fun p => wf_type (fst p) = true /\ not_decimal_or_json (fst p) = true) cols.

Lemma proved_cols_family ffmt tz efmt jsonp cols :
  (forall v, -86400 <= tz v <= 86400) -> proved_cols cols -> family_cols ffmt tz efmt jsonp cols.
Proof.
  intros Htz H. unfold proved_cols, family_cols in *. rewrite Forall_forall in *.
  intros p Hp. destruct (H p Hp) as [W N]. split; [exact W|]. apply proved_families; assumption.
Qed.

Theorem rows_roundtrip_proved c v h cols pt t r crc :
  wf_cfg c = true -> proved_cols cols -> wf_rows_def cols r ->
  map fst (td_cols t) = map fst cols ->
  h_type h = rows_type c (rd_kind r) ->
  (do ev <- strip_checksum56 (expect_format c v) (enc_ev c h (enc_rows_body c (map fst cols) r) crc);
   ev_rows (expect_format c v) (expect_table_map pt t) ev) = Ok (expect_rows c (map fst cols) r).
Proof.
  intros Wc P Wr E Hh.
  apply (rows_roundtrip_tm (fun _ _ => []) (fun _ => 0) (fun _ => []) (fun _ => Err EJson)); auto.
  apply proved_cols_family; [intros; lia|exact P].
Qed.

Theorem image_consumed_proved pc pn ffmt tz efmt jsonp tm ti specs img rest :
  (forall v, -86400 <= tz v <= 86400) -> proved_cols (specs_cols specs) ->
  tm_types tm = map (fun s => code_of (cs_type s)) specs ->
  tm_meta tm = map (fun s => meta_of (cs_type s)) specs ->
  ti_cols ti = map (fun s => (cs_name s, cs_uns s)) specs ->
  wf_image (specs_cols specs) (present_bits img) img = true ->
  image_of ffmt tz jsonp tm ti (expect_bitmap pc (present_bits img)) (expect_bitmap pn (null_bits img))
           (Some (image_cells (map cs_type specs) img ++ rest))
  = Ok (Some (expect_columns ffmt tz efmt specs img)).
Proof.
  intros Htz P. apply image_consumed. apply proved_cols_family; assumption.
Qed.
