(* Per-case equivalences for gen/TransCellBytes.v, family Str: see TransEquivCellBytesDefs.v (case_ok) and
   TransEquivCellBytes.v (CellBytes_equiv). *)
From Coq Require Import ZifyBool.
From GB Require Import Base.Prelude Base.GoSem Base.DecText Base.GoFmt Base.BytesLemmas Proofs.GoSemLemmas Proofs.TransTactics.
From GB Require Import Model.Cell Proofs.TransEquivCellBytesDefs.
From GBGen Require Import Consts TransCellBytes.
Open Scope Z_scope.
Ltac Zify.zify_post_hook ::= Z.to_euclidean_division_equations.

Lemma go_slice_take d pos k l :
  Z.of_nat pos < 2 ^ 62 -> 0 <= k < 4294967296 -> 0 <= l < 8589934592 ->
  go_slice d (i64 (Z.of_nat pos + k)) (i64 (i64 (Z.of_nat pos + k) + l)) = take d (pos + Z.to_nat k) l.
Proof.
  intros Hp Hk Hl. change (2 ^ 62) with 4611686018427387904 in Hp.
  rewrite (i64_small (Z.of_nat pos + k)) by lia. rewrite i64_small by lia.
  unfold take. destruct (0 <=? l) eqn:E0; [|lia]. cbn [andb].
  rewrite (go_slice_Z d _ _ (pos + Z.to_nat k) (Z.to_nat l)) by lia.
  unfold len. destruct (Z.of_nat (pos + Z.to_nat k) + l <=? Z.of_nat (length d)) eqn:E1; [reflexivity|].
  apply slice_panic. lia.
Qed.

Lemma lenpfx_two d pos : wf_bytes d -> Z.of_nat pos < 2 ^ 62 ->
  res_sim (do t37 <- go_idx d (Z.of_nat pos); do t38 <- go_idx d (i64 (Z.of_nat pos + 1));
           let v_l := (i64 (Z.lor t37 (go_shl u64 t38 8))) in
           do t39 <- go_slice d (i64 (Z.of_nat pos + 2)) (i64 ((i64 (Z.of_nat pos + 2)) + v_l)); Ok (t39, (i64 (v_l + 2))))
          (flat (decode_lenpfx d pos true)).
Proof.
  intros W Hp. unfold decode_lenpfx. rewrite le_at_2.
  rewrite go_idx_nat. rewrite idx_off by (assumption || (cbn; lia)). change (Z.to_nat 1) with 1%nat.
  replace (pos + 1)%nat with (S pos) by lia.
  case_at W; [|exact I]. case_at W; [|exact I].
  cbv zeta. rewrite bytes2_u64 by lia. rewrite (i64_small (b + 256 * b0)) by lia.
  rewrite go_slice_take by (assumption || lia). change (Z.to_nat 2) with 2%nat.
  destruct (take d (pos + 2) (b + 256 * b0)) as [s| |]; cbn [bind flat]; try exact I.
  rewrite i64_small by lia. reflexivity.
Qed.

Lemma lenpfx_one d pos : wf_bytes d -> Z.of_nat pos < 2 ^ 62 ->
  res_sim (do t40 <- go_idx d (Z.of_nat pos); let v_l := t40 in
           do t41 <- go_slice d (i64 (Z.of_nat pos + 1)) (i64 ((i64 (Z.of_nat pos + 1)) + v_l)); Ok (t41, (i64 (v_l + 1))))
          (flat (decode_lenpfx d pos false)).
Proof.
  intros W Hp. unfold decode_lenpfx. rewrite go_idx_nat.
  case_at W; [|exact I].
  cbv zeta. rewrite go_slice_take by (assumption || lia). change (Z.to_nat 1) with 1%nat.
  destruct (take d (pos + 1) b) as [s| |]; cbn [bind flat]; try exact I.
  rewrite i64_small by lia. reflexivity.
Qed.


(* the packed CHAR/BINARY length is a uint16 that does not wrap (as in TransEquivCell.v) *)
Lemma str_max_sweep : sweep16 (fun m => (0 <=? string_max m) && (string_max m <? 65536)) (Z.to_nat 65536) 0 = true.
Proof. vm_compute. reflexivity. Qed.
Lemma str_max_u16 m : 0 <= m < 65536 -> u16 (string_max m) = string_max m.
Proof.
  intros H. pose proof (sweep16_spec _ _ _ str_max_sweep m ltac:(lia)) as S. cbn [Z.add] in S.
  apply andb_true_iff in S as [A B]. apply u16_small. lia.
Qed.

Lemma enum_ok d pos meta : wf_bytes d -> Z.of_nat pos < 2 ^ 62 ->
  res_sim
    (if ((Z.land meta 255) =? 1) then (do t188 <- go_idx d (Z.of_nat pos); Ok ((fmt_d t188), 1))
     else (if ((Z.land meta 255) =? 2) then
             (do t190 <- go_slice d (Z.of_nat pos) (i64 (Z.of_nat pos + 2)); do t189 <- go_le t190 2%nat;
              let v_val := t189 in Ok ((fmt_d v_val), 2))
           else Err EOther))
    (flat (decode_enum d pos meta)).
Proof.
  intros W Hp. change (2 ^ 62) with 4611686018427387904 in Hp. unfold decode_enum, band.
  destruct (Z.land meta 255 =? 1).
  - rewrite go_idx_nat. destruct (at_ d pos); cbn [bind flat]; try exact I. reflexivity.
  - destruct (Z.land meta 255 =? 2); [|exact I].
    rewrite i64_small by lia. cbv zeta.
    rewrite (go_slice_le_bind d (Z.of_nat pos) (Z.of_nat pos + 2) 2 _ pos) by lia.
    destruct (le_at d pos 2); cbn [bind flat]; try exact I. reflexivity.
Qed.

Definition set_loop (d : bytes) (v_pos v_l : Z) :=
  fix loop191 (fuel1 : nat) (v_val : Z) (v_i : Z) {struct fuel1} : res (bytes * Z) :=
  match fuel1 with O => Err EOutOfFuel | S fuel1p =>
  if (v_i <? v_l) then (
  do t192 <- go_idx d (i64 (v_pos + v_i)); let v_val := (u64 (v_val + (go_shl u64 t192 (u64 ((u64 v_i) * 8))))) in
  let v_i := (i64 (v_i + 1)) in
  loop191 fuel1p v_val v_i
  ) else (
  Ok ((fmt_d v_val), v_l)
  ) end.

Lemma u64_step val a i R :
  0 <= i ->
  u64 (u64 (val + go_shl u64 a (i * 8)) + 256 ^ (i + 1) * R) = u64 (val + 256 ^ i * (a + 256 * R)).
Proof.
  intros Hi. unfold go_shl, u64.
  replace (2 ^ (i * 8)) with (256 ^ i) by (rewrite Z.mul_comm, Z.pow_mul_r by lia; reflexivity).
  rewrite Z.pow_add_r by lia. change (256 ^ 1) with 256.
  rewrite Zplus_mod_idemp_l.
  replace (val + (a * 256 ^ i) mod 18446744073709551616 + 256 ^ i * 256 * R)
    with ((a * 256 ^ i) mod 18446744073709551616 + (val + 256 ^ i * 256 * R)) by ring.
  rewrite Zplus_mod_idemp_l. f_equal. ring.
Qed.

Lemma set_loop_inv d pos l : wf_bytes d -> Z.of_nat pos < 2 ^ 62 -> 0 <= l < 256 ->
  forall k fuel i val, (k < fuel)%nat -> 0 <= i -> i + Z.of_nat k = l -> 0 <= val < 18446744073709551616 ->
  (pos + Z.to_nat i <= length d)%nat ->
  res_sim (set_loop d (Z.of_nat pos) l fuel val i)
          (flat (do s <- slice d (pos + Z.to_nat i) k; Ok (Some (fmt_d (u64 (val + 256 ^ i * le_dec s))), l))).
Proof.
  intros W Hp Hl. induction k as [|k IH]; intros fuel i val Hf Hi Hk Hv Hb.
  - destruct fuel as [|fuel]; [lia|]. cbn [set_loop].
    destruct (i <? l) eqn:E; [lia|].
    rewrite slice_0 by exact Hb. cbn [bind flat le_dec]. apply res_sim_eq. f_equal. f_equal. f_equal.
    rewrite Z.mul_0_r, Z.add_0_r. symmetry. apply u64_small. exact Hv.
  - destruct fuel as [|fuel]; [lia|]. cbn [set_loop].
    destruct (i <? l) eqn:E; [|lia].
    rewrite idx_off by (assumption || (cbn; lia)). rewrite slice_S.
    case_at W; [|exact I]. cbv zeta.
    rewrite (u64_small i) by lia. rewrite (u64_small (i * 8)) by lia. rewrite (i64_small (i + 1)) by lia.
    specialize (IH fuel (i + 1) (u64 (val + go_shl u64 b (i * 8)))).
    replace (pos + Z.to_nat (i + 1))%nat with (S (pos + Z.to_nat i)) in IH by lia.
    assert (Hu : 0 <= u64 (val + go_shl u64 b (i * 8)) < 18446744073709551616).
    { unfold u64 at 1. apply Z.mod_pos_bound. lia. }
    specialize (IH ltac:(lia) ltac:(lia) ltac:(lia) Hu ltac:(lia)).
    destruct (slice d (S (pos + Z.to_nat i)) k) as [r| |]; cbn [bind flat] in IH |- *; try exact IH.
    cbn [le_dec]. rewrite <- u64_step by lia. exact IH.
Qed.

Section Cases.
Variable ffmt : Z -> Z -> bytes.
Variable tz : Z -> Z.
Variable jsonp : bytes -> res bytes.

Lemma CellBytes_TypeVarchar_ok : case_ok ffmt tz jsonp CellBytes_TypeVarchar_g [15; 253].
Proof.
  intros d pos typ meta uns W Hin Hm Hp. cbn [In] in Hin.
  assert (Hc : cell_bytes ffmt tz jsonp d pos typ meta uns = decode_lenpfx d pos (meta >? 255)).
  { destruct Hin as [<-|[<-|[]]]; reflexivity. }
  rewrite Hc. unfold CellBytes_TypeVarchar_g.
  destruct (meta >? 255); [apply lenpfx_two | apply lenpfx_one]; assumption.
Qed.

Lemma blob_tail d pos meta l l' typ :
  wf_bytes d -> Z.of_nat pos < 2 ^ 62 -> 1 <= meta <= 4 -> 0 <= l' < 4294967296 -> l = l' ->
  res_sim
    (if typ =? 245 then
       (do t <- go_slice d (i64 (Z.of_nat pos + meta)) (i64 (i64 (Z.of_nat pos + meta) + l));
        do t' <- jsonp t; Ok (t', i64 (l + meta)))
     else
       (do t <- go_slice d (i64 (Z.of_nat pos + meta)) (i64 (i64 (Z.of_nat pos + meta) + l)); Ok (t, i64 (l + meta))))
    (flat (do s <- take d (pos + Z.to_nat meta) l';
           if typ =? K_TypeJSON then
             match jsonp s with
             | Ok t => Ok (Some t, l' + meta)
             | Err _ => Err EJson
             | Panic => Panic
             end
           else Ok (Some s, l' + meta))).
Proof.
  intros W Hp Hm Hl ->. change K_TypeJSON with 245.
  rewrite go_slice_take by (assumption || lia). rewrite (i64_small (l' + meta)) by lia.
  destruct (typ =? 245); destruct (take d (pos + Z.to_nat meta) l') as [s| |]; cbn [bind flat]; try exact I.
  - destruct (jsonp s) as [t| |]; cbn [bind flat]; try exact I. reflexivity.
  - reflexivity.
Qed.

Lemma CellBytes_TypeJSON_ok : case_ok ffmt tz jsonp (CellBytes_TypeJSON_g jsonp) [245; 249; 250; 251; 252].
Proof.
  intros d pos typ meta uns W Hin Hm Hp. cbn [In] in Hin.
  assert (Hc : cell_bytes ffmt tz jsonp d pos typ meta uns =
               do l <- blob_len d pos meta;
               do s <- take d (pos + Z.to_nat meta) l;
               if typ =? K_TypeJSON then
                 match jsonp s with
                 | Ok t => Ok (Some t, l + meta)
                 | Err _ => Err EJson
                 | Panic => Panic
                 end
               else Ok (Some s, l + meta)).
  { destruct Hin as [<-|[<-|[<-|[<-|[<-|[]]]]]]; reflexivity. }
  rewrite Hc. clear Hc Hin. unfold CellBytes_TypeJSON_g, blob_len. cbv zeta.
  destruct (meta =? 1) eqn:E1; [apply Z.eqb_eq in E1; subst meta|].
  2: destruct (meta =? 2) eqn:E2; [apply Z.eqb_eq in E2; subst meta|].
  3: destruct (meta =? 3) eqn:E3; [apply Z.eqb_eq in E3; subst meta|].
  4: destruct (meta =? 4) eqn:E4; [apply Z.eqb_eq in E4; subst meta|].
  5: { destruct ((1 <=? meta) && (meta <=? 4)) eqn:EM; [lia | exact I]. }
  all: cbn [Z.leb Z.compare Pos.compare Pos.compare_cont andb]; to_nat_consts.
  all: rewrite le_at_at_le0 by lia; cbn [at_le]; rewrite ?Nat.add_0_r.
  all: rewrite go_idx_nat; rewrite ?idx_off by (assumption || (cbn; lia)); to_nat_consts.
  all: repeat case_at W; try exact I.
  all: apply blob_tail; try assumption; try lia.
  all: shl_arith; lia.
Qed.

Lemma CellBytes_TypeGeometry_ok : case_ok ffmt tz jsonp CellBytes_TypeGeometry_g [255].
Proof.
  intros d pos typ meta uns W Hin Hm Hp. cbn [In] in Hin. destruct Hin as [<-|[]].
  assert (Hc : cell_bytes ffmt tz jsonp d pos 255 meta uns =
               do l <- blob_len d pos meta;
               do s <- take d (pos + Z.to_nat meta) l;
               if 255 =? K_TypeJSON then
                 match jsonp s with
                 | Ok t => Ok (Some t, l + meta)
                 | Err _ => Err EJson
                 | Panic => Panic
                 end
               else Ok (Some s, l + meta)) by reflexivity.
  rewrite Hc. clear Hc. unfold CellBytes_TypeGeometry_g, blob_len. cbv zeta.
  destruct (meta =? 1) eqn:E1; [apply Z.eqb_eq in E1; subst meta|].
  2: destruct (meta =? 2) eqn:E2; [apply Z.eqb_eq in E2; subst meta|].
  3: destruct (meta =? 3) eqn:E3; [apply Z.eqb_eq in E3; subst meta|].
  4: destruct (meta =? 4) eqn:E4; [apply Z.eqb_eq in E4; subst meta|].
  5: { destruct ((1 <=? meta) && (meta <=? 4)) eqn:EM; [lia | exact I]. }
  all: cbn [Z.leb Z.compare Pos.compare Pos.compare_cont andb]; to_nat_consts.
  all: rewrite le_at_at_le0 by lia; cbn [at_le]; rewrite ?Nat.add_0_r.
  all: rewrite go_idx_nat; rewrite ?idx_off by (assumption || (cbn; lia)); to_nat_consts.
  all: repeat case_at W; try exact I.
  all: match goal with |- res_sim (bind (go_slice ?d (i64 (_ + ?m)) (i64 (_ + ?l))) _) (flat (bind (take _ _ ?l') _)) =>
         apply (blob_tail d pos m l l' 255)
       end; try assumption; try lia.
  all: shl_arith; lia.
Qed.

(* TypeString does not satisfy case_ok_fuel as it stands: for SET-as-string with a width byte of 0 (metadata 248*256) the Go
   loop runs zero times and never touches data, so it returns ("0", 0) even when pos is beyond the end of data, while the
   model's `take d pos 0` panics when pos > len d.  The witness is CellBytes_TypeString_differs; the equivalence is proved
   under the extra premise pos <= length d (which is all that differs from case_ok_fuel). *)
Lemma CellBytes_TypeString_differs :
  CellBytes_TypeString_g 1000 [] 1 254 63488 false = Ok ([48], 0) /\
  flat (cell_bytes ffmt tz jsonp [] 1 254 63488 false) = Panic.
Proof. split; vm_compute; reflexivity. Qed.

Lemma CellBytes_TypeString_ok :
  forall fuel, (1000 <= fuel)%nat -> forall d pos typ meta uns,
    wf_bytes d -> In typ [254] -> 0 <= meta < 65536 -> Z.of_nat pos < 2 ^ 62 -> (pos <= length d)%nat ->
    res_sim (CellBytes_TypeString_g fuel d (Z.of_nat pos) typ meta uns) (flat (cell_bytes ffmt tz jsonp d pos typ meta uns)).
Proof.
  intros fuel Hf d pos typ meta uns W Hin Hm Hp Hb. cbn [In] in Hin. destruct Hin as [<-|[]].
  assert (Hc : cell_bytes ffmt tz jsonp d pos 254 meta uns =
               if shr meta 8 =? 247 then decode_enum d pos meta
               else if shr meta 8 =? 248 then
                 (do s <- take d pos (band meta 255); Ok (Some (fmt_d (u64 (le_dec s))), band meta 255))
               else decode_lenpfx d pos (string_max meta >? 255)) by reflexivity.
  rewrite Hc. clear Hc. unfold CellBytes_TypeString_g. cbv zeta.
  change (go_shr meta 8) with (shr meta 8).
  destruct (shr meta 8 =? 247); [apply enum_ok; assumption|].
  destruct (shr meta 8 =? 248).
  - change (res_sim (set_loop d (Z.of_nat pos) (Z.land meta 255) fuel 0 0)
                    (flat (do s <- take d pos (Z.land meta 255);
                           Ok (Some (fmt_d (u64 (le_dec s))), Z.land meta 255)))).
    assert (Hl : 0 <= Z.land meta 255 < 256) by (rewrite land_255; lia).
    pose proof (set_loop_inv d pos (Z.land meta 255) W Hp Hl (Z.to_nat (Z.land meta 255)) fuel 0 0
                  ltac:(lia) ltac:(lia) ltac:(lia) ltac:(lia) ltac:(cbn; lia)) as S.
    change (Z.to_nat 0) with 0%nat in S. rewrite Nat.add_0_r in S.
    unfold take. destruct (0 <=? Z.land meta 255) eqn:E0; [|lia]. cbn [andb].
    unfold len. destruct (Z.of_nat pos + Z.land meta 255 <=? Z.of_nat (length d)) eqn:E1.
    + destruct (slice d pos (Z.to_nat (Z.land meta 255))) as [s| |]; cbn [bind flat] in S |- *; try exact S.
      change (256 ^ 0) with 1 in S. rewrite Z.add_0_l, Z.mul_1_l in S. exact S.
    + rewrite slice_panic in S by lia. exact S.
  - change (Z.lxor (Z.land (go_shr meta 4) 768) 768 + Z.land meta 255) with (string_max meta).
    rewrite str_max_u16 by exact Hm.
    destruct (string_max meta >? 255); [apply lenpfx_two | apply lenpfx_one]; assumption.
Qed.
End Cases.
