(* Per-case equivalences for gen/TransCellBytes.v, family Str: see TransEquivCellBytesDefs.v (case_ok) and
   TransEquivCellBytes.v (CellBytes_equiv). *)
From Coq Require Import ZifyBool.
From GB Require Import Base.Prelude Base.GoSem Base.DecText Base.GoFmt Base.BytesLemmas Proofs.GoSemLemmas Proofs.TransTactics.
From GB Require Import Model.Cell Proofs.TransEquivCellBytesDefs.
From GBGen Require Import Consts TransCellBytes.
Open Scope Z_scope.

Section Cases.
Variable ffmt : Z -> Z -> bytes.
Variable tz : Z -> Z.
Variable jsonp : bytes -> res bytes.

Lemma CellBytes_TypeVarchar_ok : case_ok ffmt tz jsonp CellBytes_TypeVarchar_g [15; 253].
Proof.
  (* TODO *)
Admitted.

Lemma CellBytes_TypeJSON_ok : case_ok ffmt tz jsonp (CellBytes_TypeJSON_g jsonp) [245; 249; 250; 251; 252].
Proof.
  (* TODO *)
Admitted.

Lemma CellBytes_TypeString_ok : case_ok_fuel ffmt tz jsonp CellBytes_TypeString_g [254].
Proof.
  (* TODO *)
Admitted.

Lemma CellBytes_TypeGeometry_ok : case_ok ffmt tz jsonp CellBytes_TypeGeometry_g [255].
Proof.
  (* TODO *)
Admitted.

End Cases.
