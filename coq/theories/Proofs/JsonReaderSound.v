(* Soundness of the reader against the declarative grammar: every text
   parse_json accepts is a JSON-text of RFC 8259 (Spec/JsonGrammar.v). *)
From GB Require Import Base.Prelude Base.DecText Base.Utf8 Spec.JsonTree Spec.JsonGrammar.
From Coq Require Import String.
Open Scope Z_scope.

Lemma is_ws_true c : is_ws c = true -> g_wsc c.
Proof.
  unfold is_ws, g_wsc. intros H.
  apply orb_true_iff in H as [H|H]; [|apply Z.eqb_eq in H; auto].
  apply orb_true_iff in H as [H|H]; [|apply Z.eqb_eq in H; auto].
  apply orb_true_iff in H as [H|H]; apply Z.eqb_eq in H; auto.
Qed.

Lemma skip_ws_split s : exists w, s = w ++ skip_ws s /\ g_ws w.
Proof.
  induction s as [|c r IH]; [exists []; split; [reflexivity | constructor]|].
  cbn [skip_ws]. destruct (is_ws c) eqn:E.
  - destruct IH as (w & Hw & Gw). exists (c :: w). split; [cbn [app]; congruence|].
    constructor; [apply is_ws_true, E | exact Gw].
  - exists []. split; [reflexivity | constructor].
Qed.

Lemma strip_prefix_sound w : forall s t, strip_prefix w s = Some t -> s = w ++ t.
Proof.
  induction w as [|a w IH]; intros s t H; cbn [strip_prefix] in H; [injection H as ->; reflexivity|].
  destruct s as [|b s]; [discriminate|]. destruct (Z.eqb_spec a b) as [->|]; [|discriminate].
  cbn [app]. f_equal. apply IH, H.
Qed.

(* ---- strings ---- *)

Lemma hexval_hexdig c v : hexval c = Some v -> g_hexdig c.
Proof.
  unfold hexval, g_hexdig. intros H.
  destruct ((48 <=? c) && (c <=? 57)) eqn:E1; [apply andb_true_iff in E1 as [A B]; apply Z.leb_le in A, B; lia|].
  destruct ((97 <=? c) && (c <=? 102)) eqn:E2; [apply andb_true_iff in E2 as [A B]; apply Z.leb_le in A, B; lia|].
  destruct ((65 <=? c) && (c <=? 70)) eqn:E3; [apply andb_true_iff in E3 as [A B]; apply Z.leb_le in A, B; lia|].
  discriminate.
Qed.

Lemma hex4_hexdig a b c d u : hex4 a b c d = Some u -> g_hexdig a /\ g_hexdig b /\ g_hexdig c /\ g_hexdig d.
Proof.
  unfold hex4. destruct (hexval a) eqn:Ea; [|discriminate]. destruct (hexval b) eqn:Eb; [|discriminate].
  destruct (hexval c) eqn:Ec; [|discriminate]. destruct (hexval d) eqn:Ed; [|discriminate]. intros _.
  repeat split; eapply hexval_hexdig; eassumption.
Qed.

Lemma simple_escape_sound e x : simple_escape e = Some x ->
  e = 34 \/ e = 92 \/ e = 47 \/ e = 98 \/ e = 102 \/ e = 110 \/ e = 114 \/ e = 116.
Proof.
  unfold simple_escape. intros H.
  destruct (Z.eqb_spec e 34); [auto|]. destruct (Z.eqb_spec e 92); [auto|]. destruct (Z.eqb_spec e 47); [auto|].
  destruct (Z.eqb_spec e 98); [tauto|]. destruct (Z.eqb_spec e 102); [tauto|]. destruct (Z.eqb_spec e 110); [tauto|].
  destruct (Z.eqb_spec e 114); [tauto|]. destruct (Z.eqb_spec e 116); [tauto|]. discriminate.
Qed.

Lemma prepend_some p o x t : prepend p o = Some (x, t) -> exists x', o = Some (x', t).
Proof. destruct o as [[s r]|]; cbn [prepend]; [|discriminate]. intros H. injection H as _ ->. eauto. Qed.

Definition string_sound (s : bytes) : Prop :=
  forall x t, parse_string s = Some (x, t) -> exists cs, s = cs ++ 34 :: t /\ g_chars cs.

Lemma parse_string_sound_n n : forall s, (List.length s <= n)%nat -> string_sound s.
Proof.
  induction n as [|n IH]; intros s Hn x t H.
  { destruct s; [discriminate | cbn in Hn; lia]. }
  destruct s as [|c r]; [discriminate|]. cbn [parse_string] in H. cbn [List.length] in Hn.
  destruct (Z.eqb_spec c 34) as [->|N34].
  { injection H as _ ->. exists []. split; [reflexivity | constructor]. }
  destruct (Z.eqb_spec c 92) as [->|N92].
  - destruct r as [|e r1]; [discriminate|]. cbn [List.length] in Hn.
    destruct (Z.eqb_spec e 117) as [->|N117].
    + destruct r1 as [|h1 [|h2 [|h3 [|h4 r2]]]]; try discriminate. cbn [List.length] in Hn.
      destruct (hex4 h1 h2 h3 h4) as [u|] eqn:Eh; [|discriminate].
      destruct (hex4_hexdig _ _ _ _ _ Eh) as (G1 & G2 & G3 & G4).
      assert (Hsingle : forall p, prepend p (parse_string r2) = Some (x, t) ->
                exists cs, 92 :: 117 :: h1 :: h2 :: h3 :: h4 :: r2 = cs ++ 34 :: t /\ g_chars cs).
      { intros p Hp. apply prepend_some in Hp as (x' & Hp).
        destruct (IH r2 ltac:(lia) _ _ Hp) as (cs & -> & Gc).
        exists (92 :: 117 :: h1 :: h2 :: h3 :: h4 :: cs). split; [reflexivity | apply gc_u; auto]. }
      destruct (is_surrogate u); [|eapply Hsingle; eassumption].
      destruct r2 as [|b [|v [|l1 [|l2 [|l3 [|l4 r3]]]]]]; try (eapply Hsingle; eassumption).
      destruct ((b =? 92) && (v =? 117)) eqn:Ebv; [|eapply Hsingle; eassumption].
      destruct (hex4 l1 l2 l3 l4) as [lo|] eqn:El; [|eapply Hsingle; eassumption].
      destruct (is_high u && is_low lo); [|eapply Hsingle; eassumption].
      apply andb_true_iff in Ebv as [Eb Ev]. apply Z.eqb_eq in Eb, Ev. subst b v.
      destruct (hex4_hexdig _ _ _ _ _ El) as (K1 & K2 & K3 & K4).
      apply prepend_some in H as (x' & Hp). cbn [List.length] in Hn.
      destruct (IH r3 ltac:(lia) _ _ Hp) as (cs & -> & Gc).
      exists (92 :: 117 :: h1 :: h2 :: h3 :: h4 :: 92 :: 117 :: l1 :: l2 :: l3 :: l4 :: cs).
      split; [reflexivity | apply gc_u; auto; apply gc_u; auto].
    + destruct (simple_escape e) as [y|] eqn:Es; [|discriminate].
      apply prepend_some in H as (x' & Hp). destruct (IH r1 ltac:(lia) _ _ Hp) as (cs & -> & Gc).
      exists (92 :: e :: cs). split; [reflexivity|]. apply gc_esc; [eapply simple_escape_sound; eauto | exact Gc].
  - destruct (Z.ltb_spec c 32); [discriminate|].
    apply prepend_some in H as (x' & Hp). destruct (IH r ltac:(lia) _ _ Hp) as (cs & -> & Gc).
    exists (c :: cs). split; [reflexivity | apply gc_plain; auto].
Qed.

Lemma parse_string_sound s x t : parse_string s = Some (x, t) -> exists cs, s = cs ++ 34 :: t /\ g_chars cs.
Proof. apply (parse_string_sound_n (List.length s) s (le_n _)). Qed.

(* ---- numbers ---- *)

Lemma span_digits_sound s : forall ds rest, span_digits s = (ds, rest) -> s = ds ++ rest /\ Forall g_digit ds.
Proof.
  induction s as [|c r IH]; intros ds rest H; cbn [span_digits] in H.
  - injection H as <- <-. split; [reflexivity | constructor].
  - destruct (is_digitb c) eqn:E.
    + destruct (span_digits r) as [d t]. injection H as <- <-. destruct (IH d t eq_refl) as [-> Hd].
      split; [reflexivity|]. constructor; [|exact Hd].
      unfold is_digitb in E. apply andb_true_iff in E as [A B]. apply Z.leb_le in A, B. unfold g_digit. lia.
    + injection H as <- <-. split; [reflexivity | constructor].
Qed.

Lemma parse_number_sound s z t : parse_number s = Some (z, t) -> exists n, s = n ++ t /\ g_number n.
Proof.
  unfold parse_number. intros H.
  assert (Hm : exists m s1, s = m ++ s1 /\ (m = [] \/ m = [45]) /\
                match s with
                | c :: r => if c =? 45 then (true, r) else (false, s)
                | [] => (false, s)
                end = (match m with [] => false | _ => true end, s1)).
  { destruct s as [|c r]; [exists [], []; auto|].
    destruct (Z.eqb_spec c 45) as [->|]; [exists [45], r; auto | exists [], (c :: r); auto]. }
  destruct Hm as (m & s1 & -> & Hm & Em). rewrite Em in H. clear Em.
  destruct (span_digits s1) as [ds rest] eqn:Es. destruct (span_digits_sound _ _ _ Es) as [-> Hd].
  destruct ds as [|d0 dr]; [discriminate|].
  destruct ((d0 =? 48) && negb match dr with [] => true | _ :: _ => false end) eqn:Elead; [discriminate|].
  match type of H with (if ?ok then _ else _) = _ => destruct ok; [|discriminate] end.
  injection H as _ <-. exists (m ++ d0 :: dr). split; [rewrite <- app_assoc; reflexivity|].
  exists m, (d0 :: dr), [], []. rewrite !app_nil_r. split; [reflexivity|]. split; [exact Hm|].
  split; [|split; left; reflexivity].
  inversion Hd as [|? ? Hd0 Hdr]; subst. unfold g_digit in Hd0.
  destruct (Z.eqb_spec d0 48) as [->|N48].
  - destruct dr; [left; reflexivity | discriminate].
  - right. exists d0, dr. split; [reflexivity|]. split; [lia | exact Hdr].
Qed.

(* ---- values ---- *)

Definition value_sound (fuel : nat) : Prop :=
  forall s v t, parse_value fuel s = Some (v, t) -> exists w b, s = w ++ b ++ t /\ g_ws w /\ g_value b.
Definition elems_sound (fuel : nat) : Prop :=
  forall s l t, parse_elems fuel s = Some (l, t) -> exists b, s = b ++ 93 :: t /\ g_elements b.
Definition members_sound (fuel : nat) : Prop :=
  forall s l t, parse_members fuel s = Some (l, t) -> exists b, s = b ++ 125 :: t /\ g_members b.

Lemma skip_ws_cons s c r : skip_ws s = c :: r -> exists w, s = w ++ c :: r /\ g_ws w.
Proof. intros H. destruct (skip_ws_split s) as (w & Hw & Gw). rewrite H in Hw. eauto. Qed.

Lemma sound_step f : value_sound f -> elems_sound f -> members_sound f ->
  value_sound (S f) /\ elems_sound (S f) /\ members_sound (S f).
Proof.
  intros Hv He Hm. split; [|split].
  - intros s v t H. cbn [parse_value] in H.
    destruct (skip_ws s) as [|c r] eqn:Ews; [discriminate|].
    destruct (skip_ws_cons _ _ _ Ews) as (w & -> & Gw). exists w.
    destruct (Z.eqb_spec c 110) as [->|_].
    { destruct (strip_prefix (str "ull") r) as [u|] eqn:E; [|discriminate]. injection H as _ <-.
      apply strip_prefix_sound in E. subst r. exists [110; 117; 108; 108]. repeat split; auto. constructor. }
    destruct (Z.eqb_spec c 116) as [->|_].
    { destruct (strip_prefix (str "rue") r) as [u|] eqn:E; [|discriminate]. injection H as _ <-.
      apply strip_prefix_sound in E. subst r. exists [116; 114; 117; 101]. repeat split; auto. constructor. }
    destruct (Z.eqb_spec c 102) as [->|_].
    { destruct (strip_prefix (str "alse") r) as [u|] eqn:E; [|discriminate]. injection H as _ <-.
      apply strip_prefix_sound in E. subst r. exists [102; 97; 108; 115; 101]. repeat split; auto. constructor. }
    destruct (Z.eqb_spec c 34) as [->|_].
    { destruct (parse_string r) as [[x u]|] eqn:E; [|discriminate]. injection H as _ <-.
      apply parse_string_sound in E as (cs & -> & Gc). exists (34 :: cs ++ [34]).
      split; [cbn [app]; rewrite <- app_assoc; reflexivity|]. split; [exact Gw|].
      apply gv_string. exists cs. auto. }
    destruct (Z.eqb_spec c 91) as [->|_].
    { destruct (skip_ws r) as [|c1 t1] eqn:Ews2; [discriminate|].
      destruct (Z.eqb_spec c1 93) as [->|_].
      - injection H as _ <-. destruct (skip_ws_cons _ _ _ Ews2) as (w2 & -> & Gw2).
        exists (91 :: w2 ++ [93]). split; [cbn [app]; rewrite <- app_assoc; reflexivity|].
        split; [exact Gw | apply gv_array_empty, Gw2].
      - destruct (parse_elems f r) as [[l u]|] eqn:E; [|discriminate]. injection H as _ <-.
        apply He in E as (b & -> & Gb). exists (91 :: b ++ [93]).
        split; [cbn [app]; rewrite <- app_assoc; reflexivity|]. split; [exact Gw | apply gv_array, Gb]. }
    destruct (Z.eqb_spec c 123) as [->|_].
    { destruct (skip_ws r) as [|c1 t1] eqn:Ews2; [discriminate|].
      destruct (Z.eqb_spec c1 125) as [->|_].
      - injection H as _ <-. destruct (skip_ws_cons _ _ _ Ews2) as (w2 & -> & Gw2).
        exists (123 :: w2 ++ [125]). split; [cbn [app]; rewrite <- app_assoc; reflexivity|].
        split; [exact Gw | apply gv_object_empty, Gw2].
      - destruct (parse_members f r) as [[l u]|] eqn:E; [|discriminate]. injection H as _ <-.
        apply Hm in E as (b & -> & Gb). exists (123 :: b ++ [125]).
        split; [cbn [app]; rewrite <- app_assoc; reflexivity|]. split; [exact Gw | apply gv_object, Gb]. }
    destruct (parse_number (c :: r)) as [[z u]|] eqn:E; [|discriminate]. injection H as _ <-.
    apply parse_number_sound in E as (n & -> & Gn). exists n. split; [reflexivity|]. split; [exact Gw | apply gv_number, Gn].
  - intros s l t H. cbn [parse_elems] in H.
    destruct (parse_value f s) as [[v r]|] eqn:Ev; [|discriminate].
    apply Hv in Ev as (w & b & -> & Gw & Gb).
    destruct (skip_ws r) as [|c u] eqn:Ews; [discriminate|].
    destruct (skip_ws_cons _ _ _ Ews) as (w2 & -> & Gw2).
    destruct (Z.eqb_spec c 44) as [->|_].
    + destruct (parse_elems f u) as [[l' u']|] eqn:E; [|discriminate]. injection H as _ <-.
      apply He in E as (b' & -> & Gb'). exists (w ++ b ++ w2 ++ 44 :: b').
      split; [repeat (rewrite <- app_assoc; cbn [app]); reflexivity | apply ge_more; auto].
    + destruct (Z.eqb_spec c 93) as [->|_]; [|discriminate]. injection H as _ <-.
      exists (w ++ b ++ w2). split; [repeat (rewrite <- app_assoc; cbn [app]); reflexivity | apply ge_one; auto].
  - intros s l t H. cbn [parse_members] in H.
    destruct (skip_ws s) as [|q r] eqn:Ews; [discriminate|].
    destruct (skip_ws_cons _ _ _ Ews) as (w1 & -> & Gw1).
    destruct (Z.eqb_spec q 34) as [->|_]; [|discriminate].
    destruct (parse_string r) as [[k r1]|] eqn:Ek; [|discriminate].
    apply parse_string_sound in Ek as (cs & -> & Gc).
    assert (Gk : g_string (34 :: cs ++ [34])) by (exists cs; auto).
    destruct (skip_ws r1) as [|c1 r2] eqn:Ews2; [discriminate|].
    destruct (skip_ws_cons _ _ _ Ews2) as (w2 & -> & Gw2).
    destruct (Z.eqb_spec c1 58) as [->|_]; [|discriminate].
    destruct (parse_value f r2) as [[v r3]|] eqn:Ev; [|discriminate].
    apply Hv in Ev as (w3 & b & -> & Gw3 & Gb).
    destruct (skip_ws r3) as [|c3 r4] eqn:Ews3; [discriminate|].
    destruct (skip_ws_cons _ _ _ Ews3) as (w4 & -> & Gw4).
    destruct (Z.eqb_spec c3 44) as [->|_].
    + destruct (parse_members f r4) as [[l' u']|] eqn:E; [|discriminate]. injection H as _ <-.
      apply Hm in E as (b' & -> & Gb').
      exists (w1 ++ (34 :: cs ++ [34]) ++ w2 ++ 58 :: w3 ++ b ++ w4 ++ 44 :: b').
      split; [repeat (rewrite <- app_assoc; cbn [app]); reflexivity | apply gm_more; auto].
    + destruct (Z.eqb_spec c3 125) as [->|_]; [|discriminate]. injection H as _ <-.
      exists (w1 ++ (34 :: cs ++ [34]) ++ w2 ++ 58 :: w3 ++ b ++ w4).
      split; [repeat (rewrite <- app_assoc; cbn [app]); reflexivity | apply gm_one; auto].
Qed.

Lemma sound_all fuel : value_sound fuel /\ elems_sound fuel /\ members_sound fuel.
Proof.
  induction fuel as [|f (Hv & He & Hm)].
  - repeat split; intros s x t H; discriminate.
  - apply sound_step; assumption.
Qed.

(* every accepted text is a JSON-text *)
Theorem parse_json_sound s v : parse_json s = Some v -> json_text s.
Proof.
  unfold parse_json, parse_json_bytes. destruct (valid_utf8 s) eqn:V; [|discriminate].
  destruct (parse_value (S (List.length s)) s) as [[x r]|] eqn:E; [|discriminate].
  destruct (skip_ws r) eqn:Ews; [|discriminate]. intros _.
  destruct (proj1 (sound_all _) _ _ _ E) as (w & b & -> & Gw & Gb).
  destruct (skip_ws_split r) as (w2 & Hw2 & Gw2). rewrite Ews, app_nil_r in Hw2. subst w2.
  split; [exact V|]. exists w, b, r. auto.
Qed.
