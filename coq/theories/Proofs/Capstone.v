(* C01, the capstone: for every well-formed binlog (Spec/Binlog.v) served as bytes, parseEvents hands the handler
   exactly the transactions of the units the binlog denotes, once each, in commit order, with the specified
   position labels, and returns no error.

   Composition of the decoding layer (Proofs/DecodeProofs.v: what each wire event decodes to - C09, C15, C16 and the
   cell lemmas C10-C13) with the streamer layer (fidelity_given_decoding: run_is_abstract, ignorables_invisible,
   grouping - C02, C03), by induction over the grammar.  Invariant carried between events: the current format is
   the announced one (expect_format c v for some version text v, hence non-zero) and every entry of the table
   cache carries the mapper's answer for the table it names (cache_ok); nothing else is assumed about the cache at
   unit boundaries, because every rows event is preceded by its table map within the same unit (inside a
   transaction the invariant also says that every table announced so far is cached under its id: known_ok).

   Coverage of e2e_fidelity: universally quantified over
     - the configuration c with wf_cfg c: checksums on / off (any 4 checksum bytes), rows events v1 / v2, 4- / 6-byte
       table ids, any common-header length 19..255, any post-header-length table size 35..255, any padding patterns
       in the unused high bits of the last byte of the presence bitmaps, of the rows' NULL bitmaps and of the table
       maps' nullable-columns bitmaps (three arbitrary bytes c_pad_cols / c_pad_null / c_pad_tm);
     - the oracles ffmt (float formatting of FLOAT / DOUBLE cells), tz (|tz| <= 86400), efmt ('E' formatting of the
       doubles inside JSON documents: the JSON printer is Model.Json.print_json efmt, the model of printJSONData, and
       the denotation renders documents with the same efmt), and the table mapper mp (any names and signedness; it
       must know each table and agree on the column count);
     - GTID / anonymous GTID / previous-GTIDs / heartbeat / any other ignorable event type, statements of unknown
       kind (SAVEPOINT, GRANT, ...), and repeated format descriptions of the same configuration, between any two
       events;
     - every column type with valid parameters, every value of every type (Spec.Values.wf_value; a JSON column holds
       any storable document, VJson d with wf_doc d, whose serialisation fits the column's length bytes - the cell
       lemma is C14_json_cell), every NULL / absent-column pattern (>= 1 present column per image), any number of
       rows per event, write / update / delete;
     - transactions closed by XID or COMMIT, rolled-back transactions, autocommitted statements (DDL, SET, DML,
       table map + rows), rotations, keywords in any letter case, any status variables in emission order;
       inside a transaction: any interleaving of table maps, rows events for tables announced earlier in the
       transaction (several table maps before the rows events, several rows events per table map, ids re-announced
       for other tables) and statement queries;
     - any start position p (it only labels the transactions).
   "Every valid start position" of a longer history: the stream served from a unit boundary is `serve` of the suffix,
   so the theorem applies to it as is; that its result is the corresponding suffix of the whole history's result is
   C03_resume_exact. *)
From Coq Require Import String.
From GB Require Import Base.Prelude Model.Header Model.Events Model.Cell Model.Json Model.Rbr Model.Streamer.
From GB Require Import Spec.EncHeader Spec.Values Spec.EncEvent Spec.Expect Spec.EventSpec Spec.Units Spec.Binlog.
From GB Require Import Proofs.TableMapProofs Proofs.RowsProofs Proofs.RowsAll Proofs.StreamProofs Proofs.StreamProofs2
                       Proofs.StreamProofs3 Proofs.DecodeProofs.
From GBGen Require Import Consts.
Open Scope Z_scope.

Section Capstone.
Variable ffmt : Z -> Z -> bytes.
Variable tz : Z -> Z.
Variable efmt : Z -> bytes.
Variable jsonp : bytes -> res bytes.
Variable mp : mapper.
Hypothesis tz_bounded : forall v, -86400 <= tz v <= 86400.
(* the JSON printer is the model of printJSONData, with the same 'E' formatting oracle as the denotation *)
Hypothesis jsonp_model : jsonp = print_json efmt.
Let verdict := fun _ : nat => true.
Notation decode := (decode ffmt tz jsonp mp).
Notation tables_t := (list (Z * (table_map * tinfo))).

(* ------------------------------------------------------------------ *)
(* 1. the decoded trace as a function of format and table cache only    *)

Definition good (a : aevent) : bool := match a with AStop _ | APanic => false | _ => true end.
Definition fmt_after (a : aevent) (f : format) : format := match a with AFormat f' => f' | _ => f end.
Definition tables_after (a : aevent) (tb : tables_t) : tables_t :=
  match a with ATable id tm ti => update_table id (tm, ti) tb | _ => tb end.

Fixpoint dec_run (f : format) (tb : tables_t) (evs : list bytes) : list aevent :=
  match evs with
  | [] => []
  | ev :: r => let a := decode f tb ev in a :: dec_run (fmt_after a f) (tables_after a tb) r
  end.

Fixpoint dstate (f : format) (tb : tables_t) (evs : list bytes) : format * tables_t :=
  match evs with
  | [] => (f, tb)
  | ev :: r => let a := decode f tb ev in dstate (fmt_after a f) (tables_after a tb) r
  end.

Lemma astep_good st a : good a = true ->
  exists st', astep verdict st a = (st', None) /\ s_fmt st' = fmt_after a (s_fmt st) /\ s_tables st' = tables_after a (s_tables st).
Proof.
  destruct a; intros G; try discriminate G; cbn [astep fmt_after tables_after]; unfold commit_at, verdict;
    try (eexists; split; [reflexivity|split; reflexivity]).
  destruct (s_auto st); eexists; (split; [reflexivity|split; reflexivity]).
Qed.

Lemma trace_dec_run evs : forall st,
  forallb good (dec_run (s_fmt st) (s_tables st) evs) = true ->
  trace ffmt tz jsonp verdict mp st evs = dec_run (s_fmt st) (s_tables st) evs.
Proof.
  induction evs as [|ev evs IH]; intros st G; [reflexivity|].
  cbn [trace dec_run] in *. set (a := decode (s_fmt st) (s_tables st) ev) in *. cbv zeta in G. cbn [forallb] in G.
  apply andb_true_iff in G as [Ga G].
  destruct (astep_good st a Ga) as (st' & E & F & T).
  f_equal. rewrite E.
  replace (match a with APanic => [] | _ => trace ffmt tz jsonp verdict mp st' evs end)
    with (trace ffmt tz jsonp verdict mp st' evs) by (destruct a; try reflexivity; discriminate Ga).
  rewrite IH; rewrite F, T; [reflexivity|exact G].
Qed.

Lemma dec_run_app f tb l1 : forall l2,
  dec_run f tb (l1 ++ l2) = dec_run f tb l1 ++ dec_run (fst (dstate f tb l1)) (snd (dstate f tb l1)) l2.
Proof.
  revert f tb. induction l1 as [|ev l1 IH]; intros f tb l2; [reflexivity|].
  cbn [app dec_run dstate]. cbv zeta. rewrite IH. reflexivity.
Qed.

Lemma dstate_app f tb l1 : forall l2,
  dstate f tb (l1 ++ l2) = dstate (fst (dstate f tb l1)) (snd (dstate f tb l1)) l2.
Proof.
  revert f tb. induction l1 as [|ev l1 IH]; intros f tb l2; [reflexivity|].
  cbn [app dstate]. cbv zeta. rewrite IH. reflexivity.
Qed.

Definition nonquiet (l : list aevent) : list aevent := filter (fun a => negb (quiet a)) l.

Lemma nonquiet_app l1 l2 : nonquiet (l1 ++ l2) = nonquiet l1 ++ nonquiet l2.
Proof. apply filter_app. Qed.

(* ------------------------------------------------------------------ *)
(* 2. segments of the wire                                             *)

Variable c : cfg.
Hypothesis Wc : wf_cfg c = true.

(* the wire events ws, decoded from format f and cache tb, give no stop and no panic, their non-quiet part is out,
   and leave format f' and cache tb' *)
Definition decodes_to (f : format) (tb : tables_t) (ws : list wevent) (out : list aevent) (f' : format) (tb' : tables_t) : Prop :=
  forallb good (dec_run f tb (map (wire c) ws)) = true /\
  nonquiet (dec_run f tb (map (wire c) ws)) = out /\
  dstate f tb (map (wire c) ws) = (f', tb').

Lemma decodes_nil f tb : decodes_to f tb [] [] f tb.
Proof. repeat split. Qed.

Lemma decodes_app f tb w1 o1 f1 tb1 w2 o2 f2 tb2 :
  decodes_to f tb w1 o1 f1 tb1 -> decodes_to f1 tb1 w2 o2 f2 tb2 -> decodes_to f tb (w1 ++ w2) (o1 ++ o2) f2 tb2.
Proof.
  intros (G1 & N1 & S1) (G2 & N2 & S2). unfold decodes_to.
  rewrite map_app, dec_run_app, dstate_app, S1. cbn [fst snd].
  rewrite forallb_app, nonquiet_app, G1, G2, N1, N2, S2. repeat split.
Qed.

Lemma decodes_one f tb w a :
  decode f tb (wire c w) = a -> good a = true ->
  decodes_to f tb [w] (nonquiet [a]) (fmt_after a f) (tables_after a tb).
Proof.
  intros E G. unfold decodes_to. cbn [map dec_run dstate]. cbv zeta. rewrite E. cbn [forallb]. rewrite G.
  repeat split.
Qed.

Definition fmt_ok (f : format) : Prop := exists v, f = expect_format c v.

(* a segment that ends in some announced format *)
Definition seg (f : format) (tb : tables_t) (ws : list wevent) (out : list aevent) (tb' : tables_t) : Prop :=
  exists f', decodes_to f tb ws out f' tb' /\ fmt_ok f'.

Lemma seg_nil f tb : fmt_ok f -> seg f tb [] [] tb.
Proof. intros H. exists f. split; [apply decodes_nil|exact H]. Qed.

Lemma seg_app f tb w1 o1 tb1 w2 o2 tb2 :
  seg f tb w1 o1 tb1 -> (forall f1, fmt_ok f1 -> seg f1 tb1 w2 o2 tb2) -> seg f tb (w1 ++ w2) (o1 ++ o2) tb2.
Proof.
  intros (f1 & D1 & F1) H. destruct (H f1 F1) as (f2 & D2 & F2).
  exists f2. split; [eapply decodes_app; eauto|exact F2].
Qed.

Lemma seg_cons f tb w o1 tb1 ws o2 tb2 :
  seg f tb [w] o1 tb1 -> (forall f1, fmt_ok f1 -> seg f1 tb1 ws o2 tb2) -> seg f tb (w :: ws) (o1 ++ o2) tb2.
Proof. apply (seg_app f tb [w]). Qed.

(* one event that leaves the format alone *)
Lemma seg_one f tb w a :
  fmt_ok f -> decode f tb (wire c w) = a -> good a = true -> fmt_after a f = f ->
  seg f tb [w] (nonquiet [a]) (tables_after a tb).
Proof.
  intros F E G Hf. exists f. split; [|exact F].
  rewrite <- Hf at 2. apply decodes_one; assumption.
Qed.

(* ------------------------------------------------------------------ *)
(* 3. gaps                                                             *)

Lemma seg_ignorable f tb w : fmt_ok f -> ignorable c w -> seg f tb [w] [] tb.
Proof.
  intros [v ->] Hi. destruct w; cbn [ignorable] in Hi; try contradiction.
  - (* format description *)
    destruct Hi as [Wh Wv]. exists (expect_format c version). split; [|exists version; reflexivity].
    apply (decodes_one _ tb _ (AFormat (expect_format c version))); [|reflexivity].
    apply decode_wformat; assumption.
  - destruct Hi as (Wh & Hf & Hlo & Hqf & Hk). apply (seg_one _ tb _ ANop); [exists v; reflexivity| |reflexivity|reflexivity].
    apply decode_wquery_unknown; assumption.
  - destruct Hi as [Wh Hf]. apply (seg_one _ tb _ ANop); [exists v; reflexivity| |reflexivity|reflexivity].
    apply (decode_ignorable_ev ffmt tz efmt jsonp mp c v tb Wc h 33); [exact Wh|reflexivity|exact Hf].
  - destruct Hi as [Wh Hf]. apply (seg_one _ tb _ ANop); [exists v; reflexivity| |reflexivity|reflexivity].
    apply (decode_ignorable_ev ffmt tz efmt jsonp mp c v tb Wc h 34); [exact Wh|reflexivity|exact Hf].
  - destruct Hi as [Wh Hf]. apply (seg_one _ tb _ ANop); [exists v; reflexivity| |reflexivity|reflexivity].
    apply (decode_ignorable_ev ffmt tz efmt jsonp mp c v tb Wc h 35); [exact Wh|reflexivity|exact Hf].
  - destruct Hi as [Wh Hf]. apply (seg_one _ tb _ ANop); [exists v; reflexivity| |reflexivity|reflexivity].
    apply (decode_ignorable_ev ffmt tz efmt jsonp mp c v tb Wc h 27); [exact Wh|reflexivity|exact Hf].
  - destruct Hi as (Wh & Hf & Ht). apply (seg_one _ tb _ ANop); [exists v; reflexivity| |reflexivity|reflexivity].
    apply (decode_ignorable_ev ffmt tz efmt jsonp mp c v tb Wc h typ); [exact Wh|exact Ht|exact Hf].
Qed.

Lemma seg_gap g : wf_gap c g -> forall f tb, fmt_ok f -> seg f tb g [] tb.
Proof.
  induction 1 as [|w g Hw _ IH]; intros f tb F; [apply seg_nil; exact F|].
  apply (seg_cons f tb w [] tb g [] tb); [apply seg_ignorable; assumption|].
  intros f1 F1. apply IH. exact F1.
Qed.

(* ------------------------------------------------------------------ *)
(* 4. statements                                                       *)

Notation abs_stmt := (abs_stmt ffmt tz efmt mp).
Notation abs_body := (abs_body ffmt tz efmt mp).
Notation item_stmts := (item_stmts ffmt tz efmt mp).
Notation abs := (abs ffmt tz efmt mp).
Notation cache_ok := (cache_ok mp).

(* a segment from a state with an announced format to another one whose cache satisfies P *)
Definition usegP (P : tables_t -> Prop) (f : format) (tb : tables_t) (ws : list wevent) (out : list aevent) : Prop :=
  exists f' tb', decodes_to f tb ws out f' tb' /\ fmt_ok f' /\ P tb'.
Notation useg := (usegP cache_ok).

Lemma useg_of_seg (P : tables_t -> Prop) f tb ws out tb' : seg f tb ws out tb' -> P tb' -> usegP P f tb ws out.
Proof. intros (f' & D & F) Hc. exists f', tb'. split; [exact D|split; assumption]. Qed.

Lemma useg_nil (P : tables_t -> Prop) f tb : fmt_ok f -> P tb -> usegP P f tb [] [].
Proof. intros F H. exists f, tb. split; [apply decodes_nil|split; assumption]. Qed.

Lemma useg_app (P1 P2 : tables_t -> Prop) f tb w1 o1 w2 o2 :
  usegP P1 f tb w1 o1 -> (forall f1 tb1, fmt_ok f1 -> P1 tb1 -> usegP P2 f1 tb1 w2 o2) ->
  usegP P2 f tb (w1 ++ w2) (o1 ++ o2).
Proof.
  intros (f1 & tb1 & D1 & F1 & H1) H. destruct (H f1 tb1 F1 H1) as (f2 & tb2 & D2 & I2).
  exists f2, tb2. split; [eapply decodes_app; eauto|exact I2].
Qed.

Lemma useg_weaken (P1 P2 : tables_t -> Prop) f tb ws out :
  (forall tb', P1 tb' -> P2 tb') -> usegP P1 f tb ws out -> usegP P2 f tb ws out.
Proof. intros H (f' & tb' & D & F & H1). exists f', tb'. auto. Qed.

Lemma useg_gap (P : tables_t -> Prop) g f tb : wf_gap c g -> fmt_ok f -> P tb -> usegP P f tb g [].
Proof. intros Wg F H. apply (useg_of_seg P f tb g [] tb); [apply seg_gap; assumption|exact H]. Qed.

(* one event that leaves the format alone *)
Lemma useg_one (P : tables_t -> Prop) f tb w a :
  fmt_ok f -> decode f tb (wire c w) = a -> good a = true -> fmt_after a f = f -> P (tables_after a tb) ->
  usegP P f tb [w] (nonquiet [a]).
Proof.
  intros F E G Hf H. apply (useg_of_seg P f tb [w] _ (tables_after a tb)); [|exact H].
  apply seg_one; assumption.
Qed.

(* table map: the cache entry for the id is (re)placed with the mapper's table *)
Lemma decode_map f tb h t crc :
  fmt_ok f -> cache_ok tb -> wf_whdr h -> fits c (WTableMap h t crc) -> wf_table c mp t ->
  decode f tb (wire c (WTableMap h t crc)) = ATable (td_id t) (expect_table_map (c_pad_tm c) t) (tinfo_of mp t) /\
  cache_ok (update_table (td_id t) (expect_table_map (c_pad_tm c) t, tinfo_of mp t) tb).
Proof.
  intros [v ->] Hc Wh Hf (Wt & ti & Hmp & Hl).
  assert (Hti : tinfo_of mp t = ti) by (unfold tinfo_of; rewrite Hmp; reflexivity). rewrite Hti.
  split.
  - rewrite (decode_wtablemap ffmt tz jsonp mp c v tb Wc h t crc Wh Hf Wt). apply table_info_agree; assumption.
  - apply cache_ok_update; [exact Hc|exact Hmp].
Qed.

(* rows event for a table whose map is cached *)
Lemma decode_rows f tb h t r crc :
  fmt_ok f -> wf_table c mp t -> wf_rows c mp t h r crc ->
  lookup_table (td_id t) tb = Some (expect_table_map (c_pad_tm c) t, tinfo_of mp t) ->
  decode f tb (wire c (WRows h (map fst (td_cols t)) r crc)) = stmt_event (rows_stmt ffmt tz efmt mp t h r).
Proof.
  intros [v ->] (Wt & ti & Hmp & Hl) (Wh & Hf & Hid & Wr) Hlk.
  assert (Hti : tinfo_of mp t = ti) by (unfold tinfo_of; rewrite Hmp; reflexivity). rewrite Hti in *.
  apply (decode_wrows ffmt tz efmt jsonp mp c v tb Wc tz_bounded jsonp_model h (c_pad_tm c) t ti r crc); assumption.
Qed.

Lemma useg_stmt s : wf_stmt c mp s -> forall f tb, fmt_ok f -> cache_ok tb ->
  useg f tb (stmt_events s) [stmt_event (abs_stmt s)].
Proof.
  destruct s as [hm t crcm gap hr r crcr | q]; cbn [wf_stmt stmt_events Binlog.abs_stmt].
  - intros (Whm & Fm & Wt & Wg & Wr) f tb F Hc.
    set (tb1 := update_table (td_id t) (expect_table_map (c_pad_tm c) t, tinfo_of mp t) tb).
    destruct (decode_map f tb hm t crcm F Hc Whm Fm Wt) as [Dm Hc1]. fold tb1 in Hc1.
    apply (useg_of_seg _ f tb _ _ tb1); [|exact Hc1].
    change [stmt_event (rows_stmt ffmt tz efmt mp t hr r)] with ([] ++ [] ++ [stmt_event (rows_stmt ffmt tz efmt mp t hr r)]).
    apply (seg_cons f tb _ [] tb1).
    { apply (seg_one _ tb _ (ATable (td_id t) (expect_table_map (c_pad_tm c) t) (tinfo_of mp t))); [exact F|exact Dm|reflexivity|reflexivity]. }
    intros f1 F1. apply (seg_app f1 tb1 gap [] tb1).
    { apply seg_gap; assumption. }
    intros f2 F2.
    apply (seg_one _ tb1 _ (stmt_event (rows_stmt ffmt tz efmt mp t hr r))); [exact F2| |reflexivity|reflexivity].
    apply decode_rows; try assumption. unfold tb1. apply lookup_update_same.
  - intros Wq f tb F Hc. pose proof F as [v ->].
    apply (useg_one _ _ tb _ (stmt_event (query_stmt q))); try reflexivity; [exact F| |exact Hc].
    apply decode_wquery_stmt; assumption.
Qed.

(* inside a transaction: every announced table is cached with its own map and the mapper's table *)
Definition known_ok (known : list table_def) (tb : tables_t) : Prop :=
  forall t, In t known ->
    wf_table c mp t /\ lookup_table (td_id t) tb = Some (expect_table_map (c_pad_tm c) t, tinfo_of mp t).

Lemma known_ok_announce known tb t :
  known_ok known tb -> wf_table c mp t ->
  known_ok (announce t known) (update_table (td_id t) (expect_table_map (c_pad_tm c) t, tinfo_of mp t) tb).
Proof.
  intros K Wt u [<-|Hu].
  - split; [exact Wt|apply lookup_update_same].
  - apply filter_In in Hu as [Hu Hne]. destruct (K u Hu) as [Wu Lu]. split; [exact Wu|].
    rewrite lookup_update_other; [exact Lu|].
    destruct (Z.eqb_spec (td_id u) (td_id t)) as [E|E]; [discriminate Hne|]. intro E'. apply E. symmetry. exact E'.
Qed.

Lemma useg_body ss : forall known, wf_body c mp known ss -> forall f tb, fmt_ok f -> cache_ok tb -> known_ok known tb ->
  useg f tb (body_events ss) (map stmt_event (abs_body ss)).
Proof.
  induction ss as [|[g it] ss IH]; intros known W f tb F Hc K; [apply useg_nil; assumption|].
  cbn [wf_body] in W. destruct W as (Wg & Wi & Wr).
  unfold body_events, Binlog.abs_body. cbn [flat_map map fst snd]. fold (body_events ss). fold (abs_body ss).
  rewrite <- app_assoc, map_app.
  change (map stmt_event (item_stmts it) ++ map stmt_event (abs_body ss))
    with ([] ++ map stmt_event (item_stmts it) ++ map stmt_event (abs_body ss)).
  apply (useg_app (fun tb' => tb' = tb)); [apply useg_gap; [exact Wg|exact F|reflexivity]|].
  intros f1 tb1 F1 ->.
  apply (useg_app (fun tb' => cache_ok tb' /\ known_ok (known_after known it) tb')).
  2:{ intros f2 tb2 F2 [Hc2 K2]. apply (IH _ Wr); assumption. }
  destruct it as [h t crc | h t r crc | q]; cbn [wf_item item_event Binlog.item_stmts known_after map] in *.
  - destruct Wi as (Wh & Hf & Wt). destruct (decode_map f1 tb h t crc F1 Hc Wh Hf Wt) as [Dm Hc1].
    apply (useg_one _ _ tb _ (ATable (td_id t) (expect_table_map (c_pad_tm c) t) (tinfo_of mp t))); try reflexivity; [exact F1|exact Dm|].
    cbn [tables_after]. split; [exact Hc1|apply known_ok_announce; assumption].
  - destruct Wi as (Hin & Wr'). destruct (K t Hin) as [Wt Lt].
    apply (useg_one _ _ tb _ (stmt_event (rows_stmt ffmt tz efmt mp t h r))); try reflexivity; [exact F1| |split; assumption].
    apply decode_rows; assumption.
  - pose proof F1 as [v ->].
    apply (useg_one _ _ tb _ (stmt_event (query_stmt q))); try reflexivity; [exact F1| |split; assumption].
    apply decode_wquery_stmt; assumption.
Qed.

(* ------------------------------------------------------------------ *)
(* 5. units                                                            *)

Lemma known_ok_nil tb : known_ok [] tb.
Proof. intros t []. Qed.

Lemma useg_begin b f tb : wf_query c is_begin b -> fmt_ok f -> cache_ok tb -> useg f tb [wq_event b] [ABegin].
Proof.
  intros W F Hc. pose proof F as [v ->].
  apply (useg_one _ _ tb _ ABegin); try reflexivity; [exact F| |exact Hc]. apply decode_wquery_begin; assumption.
Qed.

Lemma useg_close cl f tb : wf_close c cl -> fmt_ok f -> cache_ok tb ->
  useg f tb [close_event cl] [ACommit (w_next (close_hdr cl)) (w_ts (close_hdr cl))].
Proof.
  intros W F Hc. pose proof F as [v ->]. destruct cl as [h xid crc | q]; cbn [wf_close close_event close_hdr] in *.
  - destruct W as [Wh Hf]. apply (useg_one _ _ tb _ (ACommit (w_next h) (w_ts h))); try reflexivity; [exact F| |exact Hc].
    apply decode_wxid; assumption.
  - apply (useg_one _ _ tb _ (ACommit (w_next (wq_h q)) (w_ts (wq_h q)))); try reflexivity; [exact F| |exact Hc].
    apply decode_wquery_commit; assumption.
Qed.

Lemma useg_unit u : wf_unit c mp u -> forall f tb, fmt_ok f -> cache_ok tb -> useg f tb (unit_events u) (events_of (abs u)).
Proof.
  destruct u as [b ss gap cl | b ss gap rb | s | h name pos crc]; cbn [wf_unit unit_events Binlog.abs events_of].
  - intros (Wb & Wss & Wg & Wcl) f tb F Hc.
    change (wq_event b :: body_events ss ++ gap ++ [close_event cl]) with ([wq_event b] ++ body_events ss ++ gap ++ [close_event cl]).
    change (ABegin :: ?l) with ([ABegin] ++ l).
    apply (useg_app cache_ok); [apply useg_begin; assumption|]. intros f1 tb1 F1 Hc1.
    apply (useg_app cache_ok); [apply (useg_body ss []); try assumption; apply known_ok_nil|]. intros f2 tb2 F2 Hc2.
    change [ACommit (w_next (close_hdr cl)) (w_ts (close_hdr cl))] with ([] ++ [ACommit (w_next (close_hdr cl)) (w_ts (close_hdr cl))]).
    apply (useg_app cache_ok); [apply useg_gap; assumption|]. intros f3 tb3 F3 Hc3.
    apply useg_close; assumption.
  - intros (Wb & Wss & Wg & Wrb) f tb F Hc.
    change (wq_event b :: body_events ss ++ gap ++ [wq_event rb]) with ([wq_event b] ++ body_events ss ++ gap ++ [wq_event rb]).
    change (ABegin :: ?l) with ([ABegin] ++ l).
    apply (useg_app cache_ok); [apply useg_begin; assumption|]. intros f1 tb1 F1 Hc1.
    apply (useg_app cache_ok); [apply (useg_body ss []); try assumption; apply known_ok_nil|]. intros f2 tb2 F2 Hc2.
    change [ARollback (w_next (wq_h rb)) (w_ts (wq_h rb))] with ([] ++ [ARollback (w_next (wq_h rb)) (w_ts (wq_h rb))]).
    apply (useg_app cache_ok); [apply useg_gap; assumption|]. intros f3 tb3 F3 Hc3.
    pose proof F3 as [v ->].
    apply (useg_one _ _ tb3 _ (ARollback (w_next (wq_h rb)) (w_ts (wq_h rb)))); try reflexivity; [exact F3| |exact Hc3].
    apply decode_wquery_rollback; assumption.
  - intros Ws f tb F Hc. apply useg_stmt; assumption.
  - intros (Wh & Hf & Hp) f tb F Hc. pose proof F as [v ->].
    apply (useg_one _ _ tb _ (ARotate name (expect_rotate_pos pos))); try reflexivity; [exact F| |exact Hc].
    apply decode_wrotate; assumption.
Qed.

Lemma useg_units us : Forall (fun gu => wf_gap c (fst gu) /\ wf_unit c mp (snd gu)) us -> forall f tb, fmt_ok f -> cache_ok tb ->
  useg f tb (units_events us) (events (map (fun gu => abs (snd gu)) us)).
Proof.
  induction 1 as [|[g u] us [Wg Wu] _ IH]; intros f tb F Hc; [apply useg_nil; assumption|].
  cbn [fst snd] in *. unfold units_events, events. cbn [flat_map map fst snd].
  fold (units_events us). fold (events (map (fun gu => abs (snd gu)) us)).
  rewrite <- app_assoc.
  change (events_of (abs u) ++ events (map (fun gu => abs (snd gu)) us))
    with ([] ++ events_of (abs u) ++ events (map (fun gu => abs (snd gu)) us)).
  apply (useg_app cache_ok); [apply useg_gap; assumption|]. intros f1 tb1 F1 Hc1.
  apply (useg_app cache_ok); [apply useg_unit; assumption|]. intros f2 tb2 F2 Hc2.
  apply IH; assumption.
Qed.

(* ------------------------------------------------------------------ *)
(* 6. the whole stream                                                 *)

Lemma serve_decodes b : wf_binlog c mp b ->
  exists f' tb', decodes_to format_zero [] (serve b) (events (denote ffmt tz efmt mp b)) f' tb'.
Proof.
  intros (_ & Wfh & Ffk & Wmh & Wv & Wus & Wt). unfold serve.
  set (fk := WRotate (b_fake_h b) (b_fake_name b) (b_fake_pos b) (b_fake_crc b)).
  set (fd := WFormat (b_fmt_h b) (b_version b) (b_fmt_crc b)).
  assert (D1 : decodes_to format_zero [] [fk] [] format_zero []).
  { apply (decodes_one format_zero [] fk ANop); [|reflexivity].
    apply (decode_fake_rotate ffmt tz efmt jsonp mp c [] [] Wc); assumption. }
  assert (D2 : decodes_to format_zero [] [fd] [] (expect_format c (b_version b)) []).
  { apply (decodes_one format_zero [] fd (AFormat (expect_format c (b_version b)))); [|reflexivity].
    apply decode_wformat; assumption. }
  assert (F0 : fmt_ok (expect_format c (b_version b))) by (exists (b_version b); reflexivity).
  assert (U : useg (expect_format c (b_version b)) [] (units_events (b_units b) ++ b_tail b) (events (denote ffmt tz efmt mp b) ++ [])).
  { apply (useg_app cache_ok); [apply useg_units; [assumption|exact F0|apply cache_ok_nil]|].
    intros f1 tb1 F1 Hc1. apply useg_gap; assumption. }
  destruct U as (f' & tb' & D3 & _). exists f', tb'.
  rewrite app_nil_r in D3.
  apply (decodes_app _ _ [fk] [] _ _ (fd :: _) _ _ _ D1).
  apply (decodes_app _ _ [fd] [] _ _ _ _ _ _ D2 D3).
Qed.

Lemma e2e_fidelity_wc b p :
  wf_binlog c mp b ->
  parse_events ffmt tz jsonp (fun _ => true) mp p (map (wire c) (serve b)) =
    (snd (spec_run p (denote ffmt tz efmt mp b)),
     map (fun t => (t, true)) (fst (spec_run p (denote ffmt tz efmt mp b))),
     OEnd).
Proof.
  intros W. destruct (serve_decodes b W) as (f' & tb' & G & N & _).
  pose proof (trace_dec_run (map (wire c) (serve b)) (init_state p) G) as T. cbn [init_state s_fmt s_tables] in T.
  apply (fidelity_given_decoding ffmt tz jsonp verdict mp (fun _ => eq_refl)).
  - fold verdict. rewrite T. intros Hin. rewrite forallb_forall in G. specialize (G _ Hin). discriminate G.
  - fold verdict. rewrite T. exact N.
Qed.

End Capstone.

(* THE CAPSTONE.  For every configuration, mapper, oracles (ffmt, tz, efmt; the JSON printer is the model of
   printJSONData over efmt) and start position: the bytes a master serves for a
   well-formed binlog make parseEvents deliver exactly the transactions of the units the binlog denotes - one per
   committing unit, in order, each with its statements / row changes (kind, table, timestamps, before / after images
   with every column's name, type code, absent / NULL marker or canonical value text) and its position labels - and
   return the final boundary position and no error. *)
Theorem e2e_fidelity : forall ffmt tz efmt mp c b p,
  (forall v, -86400 <= tz v <= 86400) ->
  wf_binlog c mp b ->
  parse_events ffmt tz (print_json efmt) (fun _ => true) mp p (map (wire c) (serve b)) =
    (snd (spec_run p (denote ffmt tz efmt mp b)),
     map (fun t => (t, true)) (fst (spec_run p (denote ffmt tz efmt mp b))),
     OEnd).
Proof.
  intros ffmt tz efmt mp c b p Htz W. pose proof W as (Wc & _).
  apply e2e_fidelity_wc; [exact Htz|reflexivity|exact Wc|exact W].
Qed.

(* ------------------------------------------------------------------ *)
(* every valid start position                                          *)

(* the dump a master serves when the replica connects at the boundary after the first k units of b: a fake rotate
   (any header, name, position: the streamer ignores it before the format description), the format description,
   and the remaining units *)
Definition serve_from (b : binlog) (k : nat) (h : whdr) (name : bytes) (pos : Z) (crc : bytes) : binlog :=
  {| b_fake_h := h; b_fake_name := name; b_fake_pos := pos; b_fake_crc := crc;
     b_fmt_h := b_fmt_h b; b_version := b_version b; b_fmt_crc := b_fmt_crc b;
     b_units := skipn k (b_units b); b_tail := b_tail b |}.

Lemma Forall_skipn {A} (P : A -> Prop) k : forall l, Forall P l -> Forall P (skipn k l).
Proof. induction k as [|k IH]; intros l H; [exact H|]. destruct l; [constructor|]. inversion H; subst. apply IH. assumption. Qed.

(* Started at the position reached after the first k units (in particular at the end label of any delivered
   transaction), the stream delivers exactly the transactions of the remaining units, and these are the rest of what
   the whole binlog delivers from p; the final position is the same. *)
Theorem e2e_fidelity_from : forall ffmt tz efmt mp c b p k h name pos crc,
  (forall v, -86400 <= tz v <= 86400) ->
  wf_binlog c mp b -> wf_whdr h -> fits c (WRotate h name pos crc) ->
  let us := denote ffmt tz efmt mp b in
  let q := snd (spec_run p (firstn k us)) in
  parse_events ffmt tz (print_json efmt) (fun _ => true) mp q (map (wire c) (serve (serve_from b k h name pos crc))) =
    (snd (spec_run p us), map (fun t => (t, true)) (fst (spec_run q (skipn k us))), OEnd) /\
  fst (spec_run p us) = fst (spec_run p (firstn k us)) ++ fst (spec_run q (skipn k us)).
Proof.
  intros ffmt tz efmt mp c b p k h name pos crc Htz W Wh Hf us q.
  assert (W' : wf_binlog c mp (serve_from b k h name pos crc)).
  { destruct W as (Wc & _ & _ & Wm & Wv & Wus & Wt). unfold wf_binlog, serve_from.
    cbn [b_fake_h b_fake_name b_fake_pos b_fake_crc b_fmt_h b_version b_fmt_crc b_units b_tail].
    repeat (split; [assumption|]). split; [apply Forall_skipn; exact Wus|exact Wt]. }
  assert (D : denote ffmt tz efmt mp (serve_from b k h name pos crc) = skipn k us).
  { unfold denote, serve_from, us. cbn [b_units]. unfold denote. rewrite skipn_map. reflexivity. }
  assert (S : spec_run p us = (fst (spec_run p (firstn k us)) ++ fst (spec_run q (skipn k us)), snd (spec_run q (skipn k us)))).
  { rewrite <- (firstn_skipn k us) at 1. apply spec_run_app. }
  split.
  - rewrite (e2e_fidelity ffmt tz efmt mp c _ q Htz W'), D, S. reflexivity.
  - rewrite S. reflexivity.
Qed.
