(* C18, part 1: ContainsGTID, Contains, Equal agree with the denotation;
   uniqueness of the canonical form. *)
From GB Require Import Base.Prelude Base.BytesLemmas Model.Gtid Spec.GtidSpec Proofs.GtidBase.
Open Scope Z_scope.

(* ---------- ContainsGTID ---------- *)
Lemma ivs_contain_spec l : forall lo n, ivs_ok lo l -> (ivs_contain l n = true <-> den_ivs l n).
Proof.
  induction l as [|[a b] r IH]; intros lo n H.
  - cbn [ivs_contain]. split; [discriminate|]. intros Hd. exfalso. exact (den_ivs_nil _ Hd).
  - cbn [ivs_ok] in H. destruct H as (H1 & H2 & H3 & H4).
    cbn [ivs_contain]. rewrite den_ivs_cons.
    destruct (Z.gtb_spec a n) as [Hgt|Hle].
    + split; [discriminate|]. intros [Hn|Hd]; [lia|].
      pose proof (ivs_ok_lb _ _ _ H4 Hd). lia.
    + destruct (Z.leb_spec n b) as [Hnb|Hnb].
      * split; [intros _; left; lia|reflexivity].
      * rewrite (IH _ n H4). split; [intros Hd; right; exact Hd|]. intros [Hn|Hd]; [lia|exact Hd].
Qed.

Theorem contains_gtid_spec (s : gset) (g : g56) :
  canon s -> (contains_gtid s g = true <-> den s (g_sid g) (g_seq g)).
Proof.
  intros Hc. unfold contains_gtid.
  rewrite (ivs_contain_spec _ 0 _ (canon_lookup _ _ Hc)).
  symmetry. apply den_lookup. apply canon_sorted. exact Hc.
Qed.

(* ---------- Contains ---------- *)
Lemma iv_contains_ok i o : iv_contains i o = true <-> fst i <= fst o /\ snd o <= snd i.
Proof. unfold iv_contains. rewrite andb_true_iff, !Z.leb_le. tauto. Qed.

(* the scan for one interval: either it stops at a covering interval, every skipped interval
   lying entirely below, or no interval of the list covers *)
Lemma cover_one_spec l : forall lo c d, ivs_ok lo l -> c <= d ->
  match cover_one l (c, d) with
  | Some l' => exists pre a b r, l = pre ++ l' /\ l' = (a, b) :: r /\ a <= c /\ d <= b /\
                                 (forall x y, In (x, y) pre -> y < c)
  | None => forall a b, In (a, b) l -> ~ (a <= c /\ d <= b)
  end.
Proof.
  induction l as [|[a b] r IH]; intros lo c d H Hcd.
  - cbn [cover_one]. intros a b [].
  - cbn [cover_one]. destruct (iv_contains (a, b) (c, d)) eqn:E.
    + apply iv_contains_ok in E. cbn [fst snd] in E.
      exists [], a, b, r. repeat split; try reflexivity; try lia. intros x y [].
    + cbn [ivs_ok] in H. destruct H as (H1 & H2 & H3 & H4).
      specialize (IH _ c d H4 Hcd).
      assert (Hn : ~ (a <= c /\ d <= b)).
      { intros Hc. assert (iv_contains (a, b) (c, d) = true) by (apply iv_contains_ok; exact Hc). congruence. }
      destruct (cover_one r (c, d)) as [l'|].
      * destruct IH as (pre & a' & b' & r' & E1 & E2 & Ha & Hb & Hpre).
        exists ((a, b) :: pre), a', b', r'. repeat split; try assumption.
        -- cbn [app]. f_equal. exact E1.
        -- intros x y [Exy|Hin]; [|eapply Hpre; exact Hin].
           (* (a,b) lies before (a',b') which starts at or below c *)
           assert (Hin : In (a', b') r) by (rewrite E1, E2; apply in_or_app; right; left; reflexivity).
           pose proof (ivs_ok_in _ _ _ _ H4 Hin). inversion Exy; subst x y. lia.
      * intros x y [Exy|Hin]; [inversion Exy; subst; exact Hn | apply IH; exact Hin].
Qed.

(* a non-empty range inside the denotation of a canonical list lies inside one interval *)
Lemma range_in_one l lo c d : ivs_ok lo l -> c <= d ->
  (forall n, c <= n <= d -> den_ivs l n) -> exists a b, In (a, b) l /\ a <= c /\ d <= b.
Proof.
  intros H Hcd Hall.
  destruct (Hall c ltac:(lia)) as (a & b & Hin & Hc).
  exists a, b. split; [exact Hin|]. split; [lia|].
  destruct (Z_le_gt_dec d b) as [Hle|Hgt]; [exact Hle|]. exfalso.
  destruct (Hall (b + 1) ltac:(lia)) as (a' & b' & Hin' & Hc').
  destruct (ivs_ok_sep _ _ _ _ _ _ H Hin Hin') as [E|[E|E]]; [inversion E; subst; lia|lia|].
  pose proof (ivs_ok_in _ _ _ _ H Hin). pose proof (ivs_ok_in _ _ _ _ H Hin'). lia.
Qed.

Lemma cover_all_spec l2 : forall l1 lo1 lo2, ivs_ok lo1 l1 -> ivs_ok lo2 l2 ->
  (cover_all l1 l2 = true <-> forall n, den_ivs l2 n -> den_ivs l1 n).
Proof.
  induction l2 as [|[c d] r2 IH]; intros l1 lo1 lo2 H1 H2.
  - cbn [cover_all]. split; [|reflexivity]. intros _ n Hd. exfalso. exact (den_ivs_nil _ Hd).
  - cbn [ivs_ok] in H2. destruct H2 as (Hlo & Hcd & Hd63 & Hr2).
    cbn [cover_all]. pose proof (cover_one_spec l1 lo1 c d H1 Hcd) as Hone.
    destruct (cover_one l1 (c, d)) as [l1'|].
    + destruct Hone as (pre & a & b & r & E1 & E2 & Ha & Hb & Hpre).
      assert (Hok' : exists lo', ivs_ok lo' l1').
      { rewrite E1 in H1. destruct (ivs_ok_suffix _ _ _ H1) as (lo' & _ & Hok). eauto. }
      destruct Hok' as (lo' & Hok').
      rewrite (IH l1' lo' (d + 1) Hok' Hr2). split.
      * intros Hall n Hn. apply den_ivs_cons in Hn as [Hn|Hn].
        -- exists a, b. split; [rewrite E1, E2; apply in_or_app; right; left; reflexivity | lia].
        -- rewrite E1. apply den_ivs_app. right. apply Hall. exact Hn.
      * intros Hall n Hn.
        assert (Hn1 : den_ivs l1 n) by (apply Hall; apply den_ivs_cons; right; exact Hn).
        rewrite E1 in Hn1. apply den_ivs_app in Hn1 as [Hp|Hs]; [|exact Hs]. exfalso.
        destruct Hp as (x & y & Hin & Hxy). specialize (Hpre _ _ Hin).
        pose proof (ivs_ok_lb _ _ _ Hr2 Hn). lia.
    + split; [discriminate|]. intros Hall. exfalso.
      destruct (range_in_one l1 lo1 c d H1 Hcd) as (a & b & Hin & Hab).
      { intros n Hn. apply Hall. apply den_ivs_cons. left. exact Hn. }
      exact (Hone _ _ Hin Hab).
Qed.

Theorem contains_spec (s t : gset) :
  canon s -> canon t ->
  (contains s t = true <-> forall u n, den t u n -> den s u n).
Proof.
  intros Hs Ht. unfold contains. rewrite forallb_forall. split.
  - intros Hall u n (l & Hin & Hd).
    specialize (Hall _ Hin). cbn [fst snd] in Hall.
    destruct (canon_entry _ _ _ Ht Hin) as (_ & _ & Hl).
    rewrite (cover_all_spec l (lookup u s) 0 0 (canon_lookup _ _ Hs) Hl) in Hall.
    apply den_lookup; [apply canon_sorted; exact Hs|]. apply Hall. exact Hd.
  - intros Hall [u l] Hin. cbn [fst snd].
    destruct (canon_entry _ _ _ Ht Hin) as (_ & _ & Hl).
    apply (cover_all_spec l (lookup u s) 0 0 (canon_lookup _ _ Hs) Hl).
    intros n Hd. apply den_lookup; [apply canon_sorted; exact Hs|].
    apply Hall. exists l. split; assumption.
Qed.

(* ---------- uniqueness of the canonical form ---------- *)
Lemma ivs_unique l : forall m lo lo', ivs_ok lo l -> ivs_ok lo' m ->
  (forall n, den_ivs l n <-> den_ivs m n) -> l = m.
Proof.
  induction l as [|[a b] l IH]; intros [|[c d] m] lo lo' Hl Hm Hden.
  - reflexivity.
  - exfalso. cbn [ivs_ok] in Hm. apply (den_ivs_nil c). apply Hden. apply den_ivs_cons. left. lia.
  - exfalso. cbn [ivs_ok] in Hl. apply (den_ivs_nil a). apply Hden. apply den_ivs_cons. left. lia.
  - cbn [ivs_ok] in Hl, Hm. destruct Hl as (L1 & L2 & L3 & L4). destruct Hm as (M1 & M2 & M3 & M4).
    (* first elements: minimum of the denotation *)
    assert (Hac : a = c).
    { assert (Ha : den_ivs ((c, d) :: m) a) by (apply Hden; apply den_ivs_cons; left; lia).
      assert (Hc : den_ivs ((a, b) :: l) c) by (apply Hden; apply den_ivs_cons; left; lia).
      apply den_ivs_cons in Ha as [Ha|Ha]; apply den_ivs_cons in Hc as [Hc|Hc]; try lia.
      - pose proof (ivs_ok_lb _ _ _ L4 Hc). lia.
      - pose proof (ivs_ok_lb _ _ _ M4 Ha). lia.
      - pose proof (ivs_ok_lb _ _ _ L4 Hc). pose proof (ivs_ok_lb _ _ _ M4 Ha). lia. }
    subst c.
    assert (Hbd : b = d).
    { destruct (Z.lt_trichotomy b d) as [Hlt|[Heq|Hgt]]; [|exact Heq|].
      - exfalso. assert (Hx : den_ivs ((a, b) :: l) (b + 1)) by (apply Hden; apply den_ivs_cons; left; lia).
        apply den_ivs_cons in Hx as [Hx|Hx]; [lia|]. pose proof (ivs_ok_lb _ _ _ L4 Hx). lia.
      - exfalso. assert (Hx : den_ivs ((a, d) :: m) (d + 1)) by (apply Hden; apply den_ivs_cons; left; lia).
        apply den_ivs_cons in Hx as [Hx|Hx]; [lia|]. pose proof (ivs_ok_lb _ _ _ M4 Hx). lia. }
    subst d. f_equal. apply (IH m (b + 1) (b + 1) L4 M4).
    intros n. split; intros Hn.
    + assert (Hx : den_ivs ((a, b) :: m) n) by (apply Hden; apply den_ivs_cons; right; exact Hn).
      apply den_ivs_cons in Hx as [Hx|Hx]; [|exact Hx]. pose proof (ivs_ok_lb _ _ _ L4 Hn). lia.
    + assert (Hx : den_ivs ((a, b) :: l) n) by (apply Hden; apply den_ivs_cons; right; exact Hn).
      apply den_ivs_cons in Hx as [Hx|Hx]; [|exact Hx]. pose proof (ivs_ok_lb _ _ _ M4 Hn). lia.
Qed.

(* a canonical set has a member for each of its keys *)
Lemma canon_head_member k l r : canon ((k, l) :: r) -> exists n, den_ivs l n.
Proof.
  intros H. destruct (canon_entry _ k l H (or_introl eq_refl)) as (_ & Hne & Hok).
  destruct l as [|[a b] l']; [contradiction|]. cbn [ivs_ok] in Hok.
  exists a. apply den_ivs_cons. left. lia.
Qed.

Theorem canon_unique s : forall t, canon s -> canon t ->
  (forall u n, den s u n <-> den t u n) -> s = t.
Proof.
  induction s as [|[k l] s IH]; intros [|[k' l'] t] Hs Ht Hden.
  - reflexivity.
  - exfalso. destruct (canon_head_member _ _ _ Ht) as (n & Hn).
    apply (den_nil k' n). apply Hden. apply den_cons. left. split; [reflexivity|exact Hn].
  - exfalso. destruct (canon_head_member _ _ _ Hs) as (n & Hn).
    apply (den_nil k n). apply Hden. apply den_cons. left. split; [reflexivity|exact Hn].
  - pose proof (canon_sorted _ Hs) as Ss. pose proof (canon_sorted _ Ht) as St.
    apply keys_sorted_cons in Ss as [As Ss]. apply keys_sorted_cons in St as [At St]. cbn [fst] in As, At.
    assert (Hk : k = k').
    { destruct (lex_trichotomy k k') as [Hlt|[E|Hgt]]; [|exact E|]; exfalso.
      - destruct (canon_head_member _ _ _ Hs) as (n & Hn).
        assert (Hd : den ((k', l') :: t) k n) by (apply Hden; apply den_cons; left; split; [reflexivity|exact Hn]).
        apply den_cons in Hd as [[E _]|Hd]; [subst; exact (lex_lt_irrefl _ Hlt)|].
        apply (den_above k t n); [|exact Hd].
        eapply Forall_impl; [|exact At]. intros e He. eapply lex_lt_trans; eauto.
      - destruct (canon_head_member _ _ _ Ht) as (n & Hn).
        assert (Hd : den ((k, l) :: s) k' n) by (apply Hden; apply den_cons; left; split; [reflexivity|exact Hn]).
        apply den_cons in Hd as [[E _]|Hd]; [subst; exact (lex_lt_irrefl _ Hgt)|].
        apply (den_above k' s n); [|exact Hd].
        eapply Forall_impl; [|exact As]. intros e He. eapply lex_lt_trans; eauto. }
    subst k'.
    destruct (canon_entry _ k l Hs (or_introl eq_refl)) as (_ & _ & Hl).
    destruct (canon_entry _ k l' Ht (or_introl eq_refl)) as (_ & _ & Hl').
    assert (El : l = l').
    { apply (ivs_unique l l' 0 0 Hl Hl'). intros n. split; intros Hn.
      - assert (Hd : den ((k, l') :: t) k n) by (apply Hden; apply den_cons; left; split; [reflexivity|exact Hn]).
        apply den_cons in Hd as [[_ Hd]|Hd]; [exact Hd|]. exfalso. exact (den_above _ _ _ At Hd).
      - assert (Hd : den ((k, l) :: s) k n) by (apply Hden; apply den_cons; left; split; [reflexivity|exact Hn]).
        apply den_cons in Hd as [[_ Hd]|Hd]; [exact Hd|]. exfalso. exact (den_above _ _ _ As Hd). }
    subst l'. f_equal. apply IH; [eapply canon_tail; exact Hs | eapply canon_tail; exact Ht|].
    intros u n. split; intros Hd.
    + assert (Hx : den ((k, l) :: t) u n) by (apply Hden; apply den_cons; right; exact Hd).
      apply den_cons in Hx as [[E _]|Hx]; [|exact Hx]. subst u. exfalso. exact (den_above _ _ _ As Hd).
    + assert (Hx : den ((k, l) :: s) u n) by (apply Hden; apply den_cons; right; exact Hd).
      apply den_cons in Hx as [[E _]|Hx]; [|exact Hx]. subst u. exfalso. exact (den_above _ _ _ At Hd).
Qed.

(* ---------- Equal ---------- *)
Lemma iv_eqb_ok a b : iv_eqb a b = true <-> a = b.
Proof.
  destruct a as [a1 a2], b as [b1 b2]. unfold iv_eqb. cbn [fst snd].
  rewrite andb_true_iff, !Z.eqb_eq. split; [intros [-> ->]; reflexivity | intros E; inversion E; auto].
Qed.

Lemma ivs_eq_loop_ok a : forall b, length a = length b -> (ivs_eq_loop a b = true <-> a = b).
Proof.
  induction a as [|x a IH]; intros [|y b] Hlen; cbn [length] in Hlen; try discriminate.
  - cbn [ivs_eq_loop]. tauto.
  - cbn [ivs_eq_loop]. rewrite andb_true_iff, iv_eqb_ok, IH by lia.
    split; [intros [-> ->]; reflexivity | intros E; inversion E; auto].
Qed.

Lemma ivs_equal_ok a b :
  Nat.eqb (length a) (length b) && ivs_eq_loop a b = true <-> a = b.
Proof.
  rewrite andb_true_iff, Nat.eqb_eq. split.
  - intros [H1 H2]. apply ivs_eq_loop_ok; assumption.
  - intros ->. split; [reflexivity|]. apply ivs_eq_loop_ok; reflexivity.
Qed.

(* two key-sorted lists with the same elements are equal *)
Lemma sorted_same_elements s : forall t, keys_sorted s -> keys_sorted t -> incl s t -> incl t s -> s = t.
Proof.
  induction s as [|e s IH]; intros [|f t] Hs Ht Hst Hts.
  - reflexivity.
  - exfalso. exact (Hts f (or_introl eq_refl)).
  - exfalso. exact (Hst e (or_introl eq_refl)).
  - apply keys_sorted_cons in Hs as [As Ss]. apply keys_sorted_cons in Ht as [At St].
    unfold keys_above in As, At. rewrite Forall_forall in As, At.
    assert (Hef : e = f).
    { destruct (Hst e (or_introl eq_refl)) as [E|He]; [congruence|].
      destruct (Hts f (or_introl eq_refl)) as [E|Hf]; [congruence|].
      exfalso. specialize (At _ He). specialize (As _ Hf).
      exact (lex_lt_irrefl _ (lex_lt_trans _ _ _ As At)). }
    subst f. f_equal. apply IH; try assumption.
    + intros x Hx. destruct (Hst x (or_intror Hx)) as [E|H]; [|exact H].
      subst x. exfalso. exact (lex_lt_irrefl _ (As _ Hx)).
    + intros x Hx. destruct (Hts x (or_intror Hx)) as [E|H]; [|exact H].
      subst x. exfalso. exact (lex_lt_irrefl _ (At _ Hx)).
Qed.

Lemma equal_eq (s t : gset) : canon s -> canon t -> (equal s t = true <-> s = t).
Proof.
  intros Hs Ht. unfold equal. split.
  - destruct (Nat.eqb_spec (length s) (length t)) as [Hlen|Hlen]; cbn [negb]; [|intros HH; discriminate HH].
    rewrite forallb_forall. intros Hall.
    assert (Hincl : incl s t).
    { intros [k l] Hin. specialize (Hall _ Hin). cbn [fst snd] in Hall.
      apply ivs_equal_ok in Hall.
      destruct (canon_entry _ _ _ Hs Hin) as (_ & Hne & _).
      destruct (lookup_in_or_nil k t) as [E|E]; [rewrite E in Hall; contradiction|].
      rewrite <- Hall in E. exact E. }
    apply sorted_same_elements; try (apply canon_sorted; assumption); [exact Hincl|].
    apply NoDup_length_incl; [apply keys_sorted_NoDup; apply canon_sorted; exact Hs | apply Nat.eq_le_incl; symmetry; exact Hlen | exact Hincl].
  - intros <-. rewrite Nat.eqb_refl. cbn [negb]. apply forallb_forall.
    intros [k l] Hin. cbn [fst snd]. apply ivs_equal_ok.
    symmetry. apply lookup_in; [apply canon_sorted; exact Hs | exact Hin].
Qed.

Theorem equal_spec (s t : gset) :
  canon s -> canon t ->
  (equal s t = true <-> forall u n, den s u n <-> den t u n).
Proof.
  intros Hs Ht. rewrite (equal_eq s t Hs Ht). split.
  - intros ->. tauto.
  - apply canon_unique; assumption.
Qed.
