(* Row-level theorems for every non-JSON column type (the DECIMAL cell lemma has landed). *)
From GB Require Import Base.Prelude Model.Header Model.Events Model.Cell Model.Rbr Model.Streamer.
From GB Require Import Spec.EncHeader Spec.Values Spec.EncEvent Spec.Expect.
From GB Require Import Proofs.CellCommon Proofs.CellAll Proofs.CellFamilies Proofs.ImageProofs Proofs.RowsProofs.
Open Scope Z_scope.

Definition nonjson_cols (cols : list (coltype * bool)) : Prop :=
  Forall (fun p => wf_type (fst p) = true /\ not_json (fst p) = true) cols.

Lemma nonjson_cols_family ffmt tz jsonp cols :
  (forall v, -86400 <= tz v <= 86400) -> nonjson_cols cols -> family_cols ffmt tz jsonp cols.
Proof.
  intros Htz H. unfold nonjson_cols, family_cols in *. rewrite Forall_forall in *.
  intros p Hp. destruct (H p Hp) as [W N]. split; [exact W|].
  intros uns v Ht Hv. apply cell_ok_all; assumption.
Qed.

Theorem rows_roundtrip_all c v h cols pt t r crc :
  wf_cfg c = true -> nonjson_cols cols -> wf_rows_def cols r ->
  map fst (td_cols t) = map fst cols ->
  h_type h = rows_type c (rd_kind r) ->
  (do ev <- strip_checksum56 (expect_format c v) (enc_ev c h (enc_rows_body c (map fst cols) r) crc);
   ev_rows (expect_format c v) (expect_table_map pt t) ev) = Ok (expect_rows c (map fst cols) r).
Proof.
  intros Wc P Wr E Hh.
  apply (rows_roundtrip_tm (fun _ _ => []) (fun _ => 0) (fun _ => Err EJson)); auto.
  apply nonjson_cols_family; [intros; lia|exact P].
Qed.

Theorem image_consumed_all pc pn ffmt tz jsonp tm ti specs img rest :
  (forall v, -86400 <= tz v <= 86400) -> nonjson_cols (specs_cols specs) ->
  tm_types tm = map (fun s => code_of (cs_type s)) specs ->
  tm_meta tm = map (fun s => meta_of (cs_type s)) specs ->
  ti_cols ti = map (fun s => (cs_name s, cs_uns s)) specs ->
  wf_image (specs_cols specs) (present_bits img) img = true ->
  image_of ffmt tz jsonp tm ti (expect_bitmap pc (present_bits img)) (expect_bitmap pn (null_bits img))
           (Some (image_cells (map cs_type specs) img ++ rest))
  = Ok (Some (expect_columns ffmt tz specs img)).
Proof.
  intros Htz P. apply image_consumed. apply nonjson_cols_family; assumption.
Qed.
