(* Row-level theorems for every column type: the DECIMAL and the JSON cell lemmas have landed
   (Proofs/CellAll.v cell_ok_all; JSON from C14_json_cell). *)
From GB Require Import Base.Prelude Model.Header Model.Events Model.Cell Model.Json Model.Rbr Model.Streamer.
From GB Require Import Spec.EncHeader Spec.Values Spec.EncEvent Spec.Expect.
From GB Require Import Proofs.CellCommon Proofs.CellAll Proofs.CellFamilies Proofs.ImageProofs Proofs.RowsProofs.
Open Scope Z_scope.

(* every column type has valid parameters (Spec.Values.wf_type); JSON columns included *)
Definition wf_cols (cols : list (coltype * bool)) : Prop :=
  Forall (fun p => wf_type (fst p) = true) cols.

(* the JSON printer oracle matters only when the table has a JSON column: there it is the model of
   printJSONData with the 'E' formatting oracle of the specification's rendering *)
Definition jsonp_for_cols (efmt : Z -> bytes) (jsonp : bytes -> res bytes) (cols : list (coltype * bool)) : Prop :=
  Forall (fun p => not_json (fst p) = true) cols \/ jsonp = print_json efmt.

Lemma wf_cols_family_gen ffmt tz efmt jsonp cols :
  (forall v, -86400 <= tz v <= 86400) -> wf_cols cols -> jsonp_for_cols efmt jsonp cols ->
  family_cols ffmt tz efmt jsonp cols.
Proof.
  intros Htz H J. unfold wf_cols, family_cols in *. rewrite Forall_forall in *.
  intros p Hp. split; [exact (H p Hp)|].
  intros uns v Ht Hv. apply cell_ok_all; try assumption.
  destruct J as [J | ->]; [left; rewrite Forall_forall in J; exact (J p Hp)|right; reflexivity].
Qed.

(* tables without JSON columns: any printer *)
Definition nonjson_cols (cols : list (coltype * bool)) : Prop :=
  Forall (fun p => wf_type (fst p) = true /\ not_json (fst p) = true) cols.

Lemma nonjson_cols_family ffmt tz efmt jsonp cols :
  (forall v, -86400 <= tz v <= 86400) -> nonjson_cols cols -> family_cols ffmt tz efmt jsonp cols.
Proof.
  intros Htz H. unfold nonjson_cols in H.
  apply wf_cols_family_gen; [exact Htz| |left]; eapply Forall_impl; try exact H; intros p [W N]; assumption.
Qed.

Lemma wf_cols_family_json ffmt tz efmt cols :
  (forall v, -86400 <= tz v <= 86400) -> wf_cols cols -> family_cols ffmt tz efmt (print_json efmt) cols.
Proof. intros Htz H. apply wf_cols_family_gen; [exact Htz|exact H|right; reflexivity]. Qed.

(* Rows does not decode cells: no oracle occurs in the statement *)
Theorem rows_roundtrip_all c v h cols pt t r crc :
  wf_cfg c = true -> wf_cols cols -> wf_rows_def cols r ->
  map fst (td_cols t) = map fst cols ->
  h_type h = rows_type c (rd_kind r) ->
  (do ev <- strip_checksum56 (expect_format c v) (enc_ev c h (enc_rows_body c (map fst cols) r) crc);
   ev_rows (expect_format c v) (expect_table_map pt t) ev) = Ok (expect_rows c (map fst cols) r).
Proof.
  intros Wc P Wr E Hh.
  apply (rows_roundtrip_tm (fun _ _ => []) (fun _ => 0) (fun _ => []) (print_json (fun _ => []))); auto.
  apply wf_cols_family_json; [intros; lia|exact P].
Qed.

Theorem image_consumed_all pc pn ffmt tz efmt jsonp tm ti specs img rest :
  (forall v, -86400 <= tz v <= 86400) -> wf_cols (specs_cols specs) -> jsonp_for_cols efmt jsonp (specs_cols specs) ->
  tm_types tm = map (fun s => code_of (cs_type s)) specs ->
  tm_meta tm = map (fun s => meta_of (cs_type s)) specs ->
  ti_cols ti = map (fun s => (cs_name s, cs_uns s)) specs ->
  wf_image (specs_cols specs) (present_bits img) img = true ->
  image_of ffmt tz jsonp tm ti (expect_bitmap pc (present_bits img)) (expect_bitmap pn (null_bits img))
           (Some (image_cells (map cs_type specs) img ++ rest))
  = Ok (Some (expect_columns ffmt tz efmt specs img)).
Proof.
  intros Htz P J. apply image_consumed. apply wf_cols_family_gen; assumption.
Qed.
