(* C01: end-to-end fidelity assembled from the byte-level run, the invisibility of quiet events and grouping. *)
From GB Require Import Base.Prelude Model.Header Model.Events Model.Rbr Model.Streamer Spec.Units.
From GB Require Import Proofs.StreamProofs Proofs.StreamProofs2.
Open Scope Z_scope.

Section Fidelity.
Variable ffmt : Z -> Z -> bytes.
Variable tz : Z -> Z.
Variable jsonp : bytes -> res bytes.
Variable verdict : nat -> bool.
Variable mp : mapper.
Hypothesis all_accept : forall k, verdict k = true.

Lemma rev_append_nil {A} (l : list A) : List.rev_append l [] = rev l.
Proof. rewrite List.rev_append_rev. apply app_nil_r. Qed.

(* If the packets the master sends decode (without a panic) to the events of the units `us`, interleaved with any
   quiet events (fake rotate before the format description, format descriptions, table maps, GTID and unknown
   events, unknown statements), then parseEvents hands the handler exactly the transactions of `us`, once each,
   in commit order, and nothing else; it returns the final boundary position and no error. *)
Theorem fidelity_given_decoding evs p us :
  let st0 := init_state p in
  ~ In APanic (trace ffmt tz jsonp verdict mp st0 evs) ->
  filter (fun a => negb (quiet a)) (trace ffmt tz jsonp verdict mp st0 evs) = events us ->
  parse_events ffmt tz jsonp verdict mp p evs =
    (snd (spec_run p us), map (fun t => (t, true)) (fst (spec_run p us)), OEnd).
Proof.
  intros st0 Hn Hf. unfold parse_events. fold st0.
  rewrite (run_is_abstract ffmt tz jsonp verdict mp evs st0 Hn).
  set (tr := trace ffmt tz jsonp verdict mp st0 evs) in *.
  destruct (ignorables_invisible verdict tr st0 st0 eq_refl) as [V C].
  rewrite Hf in V, C.
  destruct (grouping verdict all_accept us st0) as (st' & R & B & P & O).
  { split; reflexivity. }
  rewrite R in V, C. cbn [fst snd] in V, C.
  unfold view in V. inversion V as [[V1 V2 V3 V4 V5]].
  rewrite C. cbn [outcome_of]. rewrite V1, V5, P, O. cbn [st0 init_state s_pos s_out].
  rewrite app_nil_r, rev_append_nil, rev_involutive. reflexivity.
Qed.

End Fidelity.
