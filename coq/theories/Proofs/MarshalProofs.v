(* C20 at the level of transactions: the serialisation always reads back, as
   the tree of the UTF-8-sanitised transaction, and the abstract view of the
   transaction is recovered from that tree by key. *)
From GB Require Import Base.Prelude Base.DecText Base.Utf8 Spec.JsonTree Model.Marshal Spec.MarshalSpec.
From GB Require Import Spec.JsonGrammar Proofs.JsonProofs Proofs.JsonGrammarProofs.
From GBGen Require Import Consts.
From Coq Require Import String.
Open Scope Z_scope.

(* ---------- names ---------- *)

Lemma name_of_lookup tbl k : name_of tbl k = lookup_name tbl k.
Proof.
  unfold name_of. induction tbl as [|[k' v] tbl IH]; [reflexivity|].
  cbn [find lookup_name fst]. rewrite (Z.eqb_sym k' k). destruct (k =? k'); [reflexivity | exact IH].
Qed.

Lemma lookup_name_valid tbl : forallb (fun kv => valid_utf8 (snd kv)) tbl = true ->
  forall k, valid_utf8 (lookup_name tbl k) = true.
Proof.
  intros H k. induction tbl as [|[k' v] tbl IH]; [reflexivity|].
  cbn [forallb snd] in H. apply andb_true_iff in H as [H1 H2]. cbn [lookup_name].
  destruct (k =? k'); auto.
Qed.

Lemma statement_string_valid k : valid_utf8 (statement_string k) = true.
Proof. apply lookup_name_valid. vm_compute. reflexivity. Qed.

Lemma column_type_string_valid k : valid_utf8 (column_type_string k) = true.
Proof. apply lookup_name_valid. vm_compute. reflexivity. Qed.

(* ---------- sanitising commutes with marshalling ---------- *)

Ltac san_keys :=
  repeat match goal with
         | |- context [sanitize (str ?s)] => change (sanitize (str s)) with (str s)
         end.

Lemma san_jslice {X} (f f' : X -> jvalue) (g : X -> X) o :
  (forall x, sanitize_j (f x) = f' (g x)) ->
  sanitize_j (jslice f o) = jslice f' (omap (map g) o).
Proof.
  intros H. destruct o as [l|]; [|reflexivity]. cbn [jslice omap sanitize_j]. f_equal.
  rewrite !map_map. apply map_ext. exact H.
Qed.

Lemma san_jptr {X} (f f' : X -> jvalue) (g : X -> X) o :
  (forall x, sanitize_j (f x) = f' (g x)) ->
  sanitize_j (jptr f o) = jptr f' (omap g o).
Proof. intros H. destruct o as [x|]; [apply H | reflexivity]. Qed.

Lemma san_position_ok p : sanitize_j (marshal_position p) = marshal_position (san_position p).
Proof. unfold marshal_position, san_position. cbn [sanitize_j map fst snd p_filename p_offset]. san_keys. reflexivity. Qed.

Lemma san_tablename_ok t : sanitize_j (marshal_tablename t) = marshal_tablename (san_tablename t).
Proof. unfold marshal_tablename, san_tablename. cbn [sanitize_j map fst snd t_db t_table]. san_keys. reflexivity. Qed.

Lemma san_column_ok c : sanitize_j (marshal_column c) = marshal_column (san_column c).
Proof.
  unfold marshal_column, san_column. cbn [sanitize_j map fst snd c_filed c_type c_isEmpty c_data]. san_keys.
  rewrite (sanitize_valid_id _ (column_type_string_valid _)).
  destruct (c_data c); reflexivity.
Qed.

Lemma san_rowdata_ok r : sanitize_j (marshal_rowdata r) = marshal_rowdata (san_rowdata r).
Proof.
  unfold marshal_rowdata, san_rowdata. cbn [sanitize_j map fst snd r_columns]. san_keys.
  rewrite (san_jslice _ (jptr marshal_column) (omap san_column)); [reflexivity|].
  intros x. apply san_jptr. exact san_column_ok.
Qed.

Lemma san_rows_ok o : sanitize_j (marshal_rows o) = marshal_rows (san_rows o).
Proof.
  unfold marshal_rows, san_rows. apply san_jslice. intros x. apply san_jptr. exact san_rowdata_ok.
Qed.

Section WithTime.
Variable tsfmt : Z -> bytes.
Let tsfmt' := fun z => sanitize (tsfmt z).

Lemma san_event_ok e : sanitize_j (marshal_event tsfmt e) = marshal_event tsfmt' (san_event e).
Proof.
  unfold marshal_event, san_event. cbn [e_type e_table e_sql e_timestamp e_rowValues e_rowIdentifies].
  destruct (e_sql e) as [|b r] eqn:E.
  - rewrite sanitize_nil. cbn [app sanitize_j map fst snd]. san_keys.
    rewrite san_tablename_ok, !san_rows_ok, (sanitize_valid_id _ (statement_string_valid _)). reflexivity.
  - destruct (sanitize (b :: r)) as [|b' r'] eqn:Es.
    { apply (proj1 (sanitize_nil_iff _)) in Es. discriminate. }
    cbn [app sanitize_j map fst snd]. san_keys.
    rewrite san_tablename_ok, Es, (sanitize_valid_id _ (statement_string_valid _)). reflexivity.
Qed.

Lemma san_tx_ok t : sanitize_j (marshal_tx tsfmt t) = marshal_tx tsfmt' (san_tx t).
Proof.
  unfold marshal_tx, san_tx. cbn [sanitize_j map fst snd x_now x_next x_timestamp x_events]. san_keys.
  rewrite !san_position_ok.
  rewrite (san_jslice _ (jptr (marshal_event tsfmt')) (omap san_event)); [reflexivity|].
  intros x. apply san_jptr. exact san_event_ok.
Qed.

End WithTime.

(* ---------- sanitising a transaction of valid UTF-8 strings changes nothing ---------- *)

Lemma omap_id_if {X} (p : X -> bool) (f : X -> X) o :
  (forall x, p x = true -> f x = x) -> oall p o = true -> omap f o = o.
Proof. intros H. destruct o as [x|]; cbn [oall omap]; [intros Hp; rewrite H; auto | reflexivity]. Qed.

Lemma map_id_if {X} (p : X -> bool) (f : X -> X) l :
  (forall x, p x = true -> f x = x) -> forallb p l = true -> map f l = l.
Proof.
  intros H. induction l as [|x l IH]; [reflexivity|]. cbn [forallb map]. intros Hp.
  apply andb_true_iff in Hp as [H1 H2]. rewrite H, IH; auto.
Qed.

Lemma san_column_id c : col_strings valid_utf8 c = true -> san_column c = c.
Proof.
  destruct c as [f ty e d]. unfold col_strings, san_column. cbn [c_filed c_type c_isEmpty c_data].
  intros H. apply andb_true_iff in H as [H1 H2]. rewrite (sanitize_valid_id _ H1).
  rewrite (omap_id_if valid_utf8 sanitize d sanitize_valid_id H2). reflexivity.
Qed.

Lemma san_rowdata_id r : row_strings valid_utf8 r = true -> san_rowdata r = r.
Proof.
  destruct r as [cs]. unfold row_strings, san_rowdata. cbn [r_columns]. intros H. f_equal.
  apply (omap_id_if (forallb (oall (col_strings valid_utf8)))); [|exact H].
  intros l. apply map_id_if. intros o. apply omap_id_if. exact san_column_id.
Qed.

Lemma san_rows_id o : rows_strings valid_utf8 o = true -> san_rows o = o.
Proof.
  unfold rows_strings, san_rows. apply omap_id_if. intros l. apply map_id_if.
  intros x. apply omap_id_if. exact san_rowdata_id.
Qed.

Lemma san_event_id e : event_strings valid_utf8 e = true -> san_event e = e.
Proof.
  destruct e as [ty [db tb] sql ts rv ri]. unfold event_strings, san_event, san_tablename.
  cbn [e_type e_table e_sql e_timestamp e_rowValues e_rowIdentifies t_db t_table]. intros H.
  apply andb_true_iff in H as [H H5]. apply andb_true_iff in H as [H H4].
  apply andb_true_iff in H as [H H3]. apply andb_true_iff in H as [H1 H2].
  rewrite !sanitize_valid_id, !san_rows_id; auto.
Qed.

Lemma san_tx_id t : valid_tx t = true -> san_tx t = t.
Proof.
  destruct t as [[f1 o1] [f2 o2] ts evs]. unfold valid_tx, tx_strings, san_tx, san_position.
  cbn [x_now x_next x_timestamp x_events p_filename p_offset]. intros H.
  apply andb_true_iff in H as [H H3]. apply andb_true_iff in H as [H1 H2].
  rewrite !sanitize_valid_id by auto. f_equal.
  apply (omap_id_if (forallb (oall (event_strings valid_utf8)))); [|exact H3].
  intros l. apply map_id_if. intros o. apply omap_id_if. exact san_event_id.
Qed.

(* ---------- the view is read back from the tree ---------- *)

Lemma all_some_map {X Y} (p : jvalue -> option Y) (f : X -> jvalue) (v : X -> Y) l :
  (forall x, p (f x) = Some (v x)) -> all_some (map p (map f l)) = Some (map v l).
Proof.
  intros H. induction l as [|x l IH]; [reflexivity|]. cbn [map all_some]. rewrite H, IH. reflexivity.
Qed.

Lemma proj_slice_jslice {X Y} (p : jvalue -> option Y) (f : X -> jvalue) (v : X -> Y) o :
  (forall x, p (f x) = Some (v x)) -> proj_slice p (jslice f o) = Some (omap (map v) o).
Proof.
  intros H. destruct o as [l|]; [|reflexivity]. cbn [jslice proj_slice omap].
  rewrite (all_some_map p f v l H). reflexivity.
Qed.

Lemma proj_ptr_jptr {X Y} (p : jvalue -> option Y) (f : X -> jvalue) (v : X -> Y) o :
  (forall x, p (f x) = Some (v x)) -> (forall x, exists l, f x = JObj l) ->
  proj_ptr p (jptr f o) = Some (omap v o).
Proof.
  intros H Ho. destruct o as [x|]; [|reflexivity]. cbn [jptr omap]. destruct (Ho x) as [l E].
  unfold proj_ptr. rewrite E. rewrite <- E, H. reflexivity.
Qed.

Lemma project_col_ok c : project_col (marshal_column c) = Some (view_col c).
Proof.
  destruct c as [f ty e d]. unfold view_col. rewrite name_of_lookup.
  destruct d as [d|]; reflexivity.
Qed.

Lemma project_row_ok r : project_row (marshal_rowdata r) = Some (view_row r).
Proof.
  destruct r as [cs]. unfold marshal_rowdata, project_row, view_row. cbn [r_columns].
  change (jget (str "Columns") [(str "Columns", jslice (jptr marshal_column) cs)])
    with (Some (jslice (jptr marshal_column) cs)).
  apply proj_slice_jslice. intros o. apply proj_ptr_jptr; [exact project_col_ok|].
  intros x. unfold marshal_column. eauto.
Qed.

Lemma project_rows_ok o : project_rows (marshal_rows o) = Some (view_rows o).
Proof.
  unfold project_rows, marshal_rows, view_rows. apply proj_slice_jslice.
  intros x. apply proj_ptr_jptr; [exact project_row_ok|]. intros r. unfold marshal_rowdata. eauto.
Qed.

Lemma bytes_eqb_refl a : bytes_eqb a a = true.
Proof. apply bytes_eqb_eq. reflexivity. Qed.

Lemma jget_hit k v l : jget k ((k, v) :: l) = Some v.
Proof. cbn [jget]. rewrite bytes_eqb_refl. reflexivity. Qed.

Lemma jget_miss k k' v l : bytes_eqb k k' = false -> jget k ((k', v) :: l) = jget k l.
Proof. intros H. cbn [jget]. rewrite H. reflexivity. Qed.

Lemma jget_nil k : jget k [] = None.
Proof. reflexivity. Qed.

Ltac jget_eval := repeat first [rewrite jget_hit | rewrite jget_miss by reflexivity | rewrite jget_nil].

Section WithTime2.
Variable tsfmt : Z -> bytes.

Lemma project_event_ok e : project_event (marshal_event tsfmt e) = Some (view_event tsfmt e).
Proof.
  destruct e as [ty [db tb] sql ts rv ri]. unfold view_event, marshal_event.
  cbn [e_type e_table e_sql e_timestamp e_rowValues e_rowIdentifies t_db t_table].
  rewrite name_of_lookup. destruct sql as [|b r].
  - cbn [bytes_eqb app]. unfold project_event, marshal_tablename. cbn [t_db t_table]. jget_eval.
    rewrite !project_rows_ok. reflexivity.
  - reflexivity.
Qed.

Lemma project_position_ok p : project_position (marshal_position p) = Some (p_filename p, p_offset p).
Proof. reflexivity. Qed.

Lemma project_tx_ok t : project_tx (marshal_tx tsfmt t) = Some (abstract_view tsfmt t).
Proof.
  destruct t as [now next ts evs]. unfold marshal_tx, project_tx, abstract_view.
  cbn [x_now x_next x_timestamp x_events]. jget_eval. rewrite !project_position_ok.
  rewrite (proj_slice_jslice _ _ (omap (view_event tsfmt))); [reflexivity|].
  intros o. apply proj_ptr_jptr; [exact project_event_ok|].
  intros e. unfold marshal_event. destruct (e_sql e); eauto.
Qed.

End WithTime2.

(* only the values of the time formatter matter *)
Lemma marshal_tx_ext f g t : (forall z, f z = g z) -> marshal_tx f t = marshal_tx g t.
Proof.
  intros E. unfold marshal_tx. rewrite E.
  assert (H : jslice (jptr (marshal_event f)) (x_events t) = jslice (jptr (marshal_event g)) (x_events t)).
  { destruct (x_events t) as [l|]; [|reflexivity]. cbn [jslice]. f_equal. apply map_ext.
    intros [e|]; [|reflexivity]. cbn [jptr]. unfold marshal_event. rewrite E. reflexivity. }
  rewrite H. reflexivity.
Qed.

Lemma abstract_view_ext f g t : (forall z, f z = g z) -> abstract_view f t = abstract_view g t.
Proof.
  intros E. unfold abstract_view. rewrite E.
  assert (H : omap (map (omap (view_event f))) (x_events t) = omap (map (omap (view_event g))) (x_events t)).
  { destruct (x_events t) as [l|]; [|reflexivity]. cbn [omap]. f_equal. apply map_ext.
    intros [e|]; [|reflexivity]. cbn [omap]. unfold view_event. rewrite E. reflexivity. }
  rewrite H. reflexivity.
Qed.

(* ---------- the theorems of C20 ---------- *)
Section Theorems.
Variable tsfmt : Z -> bytes.

(* serialisation always yields a text the RFC 8259 reader accepts *)
Theorem marshal_wellformed t : exists v, parse_json (render_json (marshal_tx tsfmt t)) = Some v.
Proof. eexists. apply parse_render. Qed.

(* declaratively: it is a JSON-text of the RFC 8259 grammar, in valid UTF-8 *)
Theorem marshal_is_json_text t : json_text (render_json (marshal_tx tsfmt t)).
Proof. apply render_is_json_text. Qed.

(* ... namely the tree of the transaction with every string sanitised; nothing changes when all strings are valid UTF-8 *)
Theorem marshal_structure t :
  parse_json (render_json (marshal_tx tsfmt t)) = Some (sanitize_j (marshal_tx tsfmt t)) /\
  (valid_tx t = true -> (forall z, valid_utf8 (tsfmt z) = true) ->
   sanitize_j (marshal_tx tsfmt t) = marshal_tx tsfmt t).
Proof.
  split; [apply parse_render|]. intros Vt Vf. rewrite san_tx_ok, (san_tx_id _ Vt).
  apply marshal_tx_ext. intros z. apply sanitize_valid_id, Vf.
Qed.

(* the tree that is read back is the marshalling of the sanitised transaction (sanitised time texts),
   and the abstract view of that transaction is read from it by key *)
Theorem marshal_view_recovered t :
  exists v, parse_json (render_json (marshal_tx tsfmt t)) = Some v /\
            v = marshal_tx (fun z => sanitize (tsfmt z)) (san_tx t) /\
            project_tx v = Some (abstract_view (fun z => sanitize (tsfmt z)) (san_tx t)).
Proof.
  eexists. split; [apply parse_render|]. rewrite san_tx_ok. split; [reflexivity | apply project_tx_ok].
Qed.

(* valid UTF-8 everywhere: the view of the transaction itself, verbatim *)
Theorem marshal_view_verbatim t :
  valid_tx t = true -> (forall z, valid_utf8 (tsfmt z) = true) ->
  exists v, parse_json (render_json (marshal_tx tsfmt t)) = Some v /\
            v = marshal_tx tsfmt t /\ project_tx v = Some (abstract_view tsfmt t).
Proof.
  intros Vt Vf. destruct (marshal_view_recovered t) as (v & Hp & Hv & Hj).
  exists v. rewrite (san_tx_id _ Vt) in Hv, Hj.
  assert (E : forall z, sanitize (tsfmt z) = tsfmt z) by (intros z; apply sanitize_valid_id, Vf).
  split; [exact Hp|].
  assert (Em : marshal_tx (fun z => sanitize (tsfmt z)) t = marshal_tx tsfmt t) by (apply marshal_tx_ext; exact E).
  assert (Ea : abstract_view (fun z => sanitize (tsfmt z)) t = abstract_view tsfmt t) by (apply abstract_view_ext; exact E).
  rewrite Em in Hv. rewrite Ea in Hj. split; assumption.
Qed.

(* the text determines the view: transactions with the same JSON have the same (sanitised) view *)
Theorem marshal_text_determines_view t1 t2 :
  render_json (marshal_tx tsfmt t1) = render_json (marshal_tx tsfmt t2) ->
  abstract_view (fun z => sanitize (tsfmt z)) (san_tx t1) = abstract_view (fun z => sanitize (tsfmt z)) (san_tx t2).
Proof.
  intros H. destruct (marshal_view_recovered t1) as (v1 & P1 & _ & J1).
  destruct (marshal_view_recovered t2) as (v2 & P2 & _ & J2).
  rewrite H in P1. rewrite P1 in P2. injection P2 as ->. rewrite J1 in J2. congruence.
Qed.

End Theorems.

(* two trees with the same text are the same up to sanitisation: the text determines the tree *)
Theorem render_injective a b : render_json a = render_json b -> sanitize_j a = sanitize_j b.
Proof.
  intros H. pose proof (parse_render a) as Ha. rewrite H, parse_render in Ha. congruence.
Qed.

(* SQL NULL and the empty string: null versus "" in the tree, in the text and in the view *)
Theorem null_vs_empty f ty e :
  let cn := {| c_filed := f; c_type := ty; c_isEmpty := e; c_data := None |} in
  let ce := {| c_filed := f; c_type := ty; c_isEmpty := e; c_data := Some [] |} in
  (exists l, marshal_column cn = JObj l /\ jget (str "data") l = Some JNull) /\
  (exists l, marshal_column ce = JObj l /\ jget (str "data") l = Some (JStr [])) /\
  render_json (marshal_column cn) <> render_json (marshal_column ce) /\
  omap cv_data (project_col (marshal_column cn)) = Some None /\
  omap cv_data (project_col (marshal_column ce)) = Some (Some []).
Proof.
  intros cn ce. split; [|split; [|split; [|split]]].
  - eexists. split; reflexivity.
  - eexists. split; reflexivity.
  - intros H. apply render_injective in H. unfold cn, ce, marshal_column in H.
    cbn [sanitize_j map fst snd c_data c_filed c_type c_isEmpty] in H. discriminate.
  - rewrite project_col_ok. reflexivity.
  - rewrite project_col_ok. reflexivity.
Qed.
