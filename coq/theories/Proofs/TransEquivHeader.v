(* gen/TransHeader.v (binlog_event_common.go: IsValid, the fixed-offset header accessors and the Is* predicates,
   translated by harness/cmd/gotrans) computes what the hand-written Model/Header.v does, for all inputs. *)
From Coq Require Import ZifyBool.
From GB Require Import Base.Prelude Base.GoSem Base.BytesLemmas Proofs.GoSemLemmas Proofs.TransTactics.
From GB Require Import Model.Header.
From GBGen Require Import Consts TransHeader.
Open Scope Z_scope.
Ltac Zify.zify_post_hook ::= Z.to_euclidean_division_equations.

(* the hand-written accessors with the offsets of gen/Consts.v (the lits_X lists) computed *)
Lemma ev_type_lit ev : ev_type ev = at_ ev 4. Proof. reflexivity. Qed.
Lemma ev_flags_lit ev : ev_flags ev = le_at ev 17 2. Proof. reflexivity. Qed.
Lemma ev_timestamp_lit ev : ev_timestamp ev = le_at ev 0 4. Proof. reflexivity. Qed.
Lemma ev_server_id_lit ev : ev_server_id ev = le_at ev 5 4. Proof. reflexivity. Qed.
Lemma ev_length_lit ev : ev_length ev = le_at ev 9 4. Proof. reflexivity. Qed.
Lemma ev_next_position_lit ev : ev_next_position ev = le_at ev 13 4. Proof. reflexivity. Qed.
Lemma hdr_min_lit : hdr_min = 19. Proof. reflexivity. Qed.
Lemma hdr_min2_lit : hdr_min2 = 19. Proof. reflexivity. Qed.

(* ---- accessors: equal results (neither side returns an error) ---- *)
Lemma Type_eq ev : binlogEvent_Type_g ev = ev_type ev.
Proof.
  unfold binlogEvent_Type_g, binlogEvent_Bytes_g. cbn [bind]. rewrite bind_ok_r, ev_type_lit.
  apply go_idx_Z. reflexivity.
Qed.

Ltac le_field :=
  unfold binlogEvent_Bytes_g, go_slice_to; cbn [bind];
  rewrite go_slice_le_ret by (reflexivity || lia); reflexivity.

Lemma Flags_eq ev : binlogEvent_Flags_g ev = ev_flags ev.
Proof. unfold binlogEvent_Flags_g. rewrite ev_flags_lit. le_field. Qed.
Lemma Timestamp_eq ev : binlogEvent_Timestamp_g ev = ev_timestamp ev.
Proof. unfold binlogEvent_Timestamp_g. rewrite ev_timestamp_lit. le_field. Qed.
Lemma ServerID_eq ev : binlogEvent_ServerID_g ev = ev_server_id ev.
Proof. unfold binlogEvent_ServerID_g. rewrite ev_server_id_lit. le_field. Qed.
Lemma Length_eq ev : binlogEvent_Length_g ev = ev_length ev.
Proof. unfold binlogEvent_Length_g. rewrite ev_length_lit. le_field. Qed.
Lemma NextPosition_eq ev : binlogEvent_NextPosition_g ev = ev_next_position ev.
Proof. unfold binlogEvent_NextPosition_g. rewrite ev_next_position_lit. le_field. Qed.

Theorem binlogEvent_Type_equiv ev : res_sim (binlogEvent_Type_g ev) (ev_type ev).
Proof. apply res_sim_eq, Type_eq. Qed.
Theorem binlogEvent_Flags_equiv ev : res_sim (binlogEvent_Flags_g ev) (ev_flags ev).
Proof. apply res_sim_eq, Flags_eq. Qed.
Theorem binlogEvent_Timestamp_equiv ev : res_sim (binlogEvent_Timestamp_g ev) (ev_timestamp ev).
Proof. apply res_sim_eq, Timestamp_eq. Qed.
Theorem binlogEvent_ServerID_equiv ev : res_sim (binlogEvent_ServerID_g ev) (ev_server_id ev).
Proof. apply res_sim_eq, ServerID_eq. Qed.
Theorem binlogEvent_Length_equiv ev : res_sim (binlogEvent_Length_g ev) (ev_length ev).
Proof. apply res_sim_eq, Length_eq. Qed.
Theorem binlogEvent_NextPosition_equiv ev : res_sim (binlogEvent_NextPosition_g ev) (ev_next_position ev).
Proof. apply res_sim_eq, NextPosition_eq. Qed.

(* ---- IsValid ---- *)
Theorem binlogEvent_IsValid_equiv ev : res_sim (binlogEvent_IsValid_g ev) (is_valid ev).
Proof.
  apply res_sim_eq. unfold binlogEvent_IsValid_g, is_valid. unfold binlogEvent_Bytes_g at 1. cbn [bind].
  rewrite hdr_min_lit, hdr_min2_lit, Length_eq. reflexivity.
Qed.

(* ---- the Is* predicates ---- *)
Ltac is_one := apply res_sim_eq; unfold is_type; rewrite <- Type_eq; reflexivity.

Theorem binlogEvent_IsFormatDescription_equiv ev :
  res_sim (binlogEvent_IsFormatDescription_g ev) (is_type K_eFormatDescriptionEvent ev).
Proof. unfold binlogEvent_IsFormatDescription_g. is_one. Qed.
Theorem binlogEvent_IsQuery_equiv ev : res_sim (binlogEvent_IsQuery_g ev) (is_type K_eQueryEvent ev).
Proof. unfold binlogEvent_IsQuery_g. is_one. Qed.
Theorem binlogEvent_IsRotate_equiv ev : res_sim (binlogEvent_IsRotate_g ev) (is_type K_eRotateEvent ev).
Proof. unfold binlogEvent_IsRotate_g. is_one. Qed.
Theorem binlogEvent_IsXID_equiv ev : res_sim (binlogEvent_IsXID_g ev) (is_type K_eXIDEvent ev).
Proof. unfold binlogEvent_IsXID_g. is_one. Qed.
Theorem binlogEvent_IsIntVar_equiv ev : res_sim (binlogEvent_IsIntVar_g ev) (is_type K_eIntVarEvent ev).
Proof. unfold binlogEvent_IsIntVar_g. is_one. Qed.
Theorem binlogEvent_IsRand_equiv ev : res_sim (binlogEvent_IsRand_g ev) (is_type K_eRandEvent ev).
Proof. unfold binlogEvent_IsRand_g. is_one. Qed.
Theorem binlogEvent_IsPreviousGTIDs_equiv ev :
  res_sim (binlogEvent_IsPreviousGTIDs_g ev) (is_type K_ePreviousGTIDsEvent ev).
Proof. unfold binlogEvent_IsPreviousGTIDs_g. is_one. Qed.
Theorem binlogEvent_IsRowsQuery_equiv ev : res_sim (binlogEvent_IsRowsQuery_g ev) (is_type K_eRowsQueryEvent ev).
Proof. unfold binlogEvent_IsRowsQuery_g. is_one. Qed.
Theorem binlogEvent_IsTableMap_equiv ev : res_sim (binlogEvent_IsTableMap_g ev) (is_type K_eTableMapEvent ev).
Proof. unfold binlogEvent_IsTableMap_g. is_one. Qed.

(* the rows predicates accept the v1 and the v2 type code: `ev.Type() == a || ev.Type() == b` *)
Definition is_type2 (a b : Z) (ev : bytes) : res bool :=
  do x <- is_type a ev; do y <- is_type b ev; Ok (x || y).

Ltac is_two :=
  apply res_sim_eq; unfold is_type2, is_type; rewrite <- Type_eq;
  cbv [K_eWriteRowsEventV1 K_eWriteRowsEventV2 K_eUpdateRowsEventV1 K_eUpdateRowsEventV2 K_eDeleteRowsEventV1
       K_eDeleteRowsEventV2];
  destruct (binlogEvent_Type_g _) as [t| |]; cbn [bind]; try reflexivity;
  match goal with |- context [if ?c then _ else _] => destruct c end; reflexivity.

Theorem binlogEvent_IsWriteRows_equiv ev :
  res_sim (binlogEvent_IsWriteRows_g ev) (is_type2 K_eWriteRowsEventV1 K_eWriteRowsEventV2 ev).
Proof. unfold binlogEvent_IsWriteRows_g. is_two. Qed.
Theorem binlogEvent_IsUpdateRows_equiv ev :
  res_sim (binlogEvent_IsUpdateRows_g ev) (is_type2 K_eUpdateRowsEventV1 K_eUpdateRowsEventV2 ev).
Proof. unfold binlogEvent_IsUpdateRows_g. is_two. Qed.
Theorem binlogEvent_IsDeleteRows_equiv ev :
  res_sim (binlogEvent_IsDeleteRows_g ev) (is_type2 K_eDeleteRowsEventV1 K_eDeleteRowsEventV2 ev).
Proof. unfold binlogEvent_IsDeleteRows_g. is_two. Qed.

(* IsPseudo: the hand-written model has no counterpart (binlogEvent is never a pseudo event) *)
Theorem binlogEvent_IsPseudo_equiv ev : binlogEvent_IsPseudo_g ev = Ok false.
Proof. reflexivity. Qed.

Print Assumptions binlogEvent_Type_equiv.
Print Assumptions binlogEvent_Flags_equiv.
Print Assumptions binlogEvent_Timestamp_equiv.
Print Assumptions binlogEvent_ServerID_equiv.
Print Assumptions binlogEvent_Length_equiv.
Print Assumptions binlogEvent_NextPosition_equiv.
Print Assumptions binlogEvent_IsValid_equiv.
Print Assumptions binlogEvent_IsFormatDescription_equiv.
Print Assumptions binlogEvent_IsQuery_equiv.
Print Assumptions binlogEvent_IsRotate_equiv.
Print Assumptions binlogEvent_IsXID_equiv.
Print Assumptions binlogEvent_IsIntVar_equiv.
Print Assumptions binlogEvent_IsRand_equiv.
Print Assumptions binlogEvent_IsPreviousGTIDs_equiv.
Print Assumptions binlogEvent_IsRowsQuery_equiv.
Print Assumptions binlogEvent_IsTableMap_equiv.
Print Assumptions binlogEvent_IsWriteRows_equiv.
Print Assumptions binlogEvent_IsUpdateRows_equiv.
Print Assumptions binlogEvent_IsDeleteRows_equiv.
Print Assumptions binlogEvent_IsPseudo_equiv.
